/-
  C20 (models), lemma file 1: spec-side vocabulary shared by the C20Models theorems and the proofs
  for the root package (Clone / Equal / Bound), project.Geometry and the three encoders.
  The primed statements are re-exported by OrbProofs/C20Models.lean.
-/
import OrbProofs.C06Lemmas
import OrbProofs.C06HeapLemmas
import OrbProofs.C15Lemmas
import Orb.WKB
import Orb.WKT
import Orb.GeoJSON

set_option linter.unusedSectionVars false

namespace Orb.C20M
open Orb

/-! ### vocabulary -/

/-- `for _, g := range c { r := f(g); … }` for a function with a `Res` outcome: members first to
    last, the first outcome that is not a value is the outcome of the whole loop. -/
def resMapM {ε β γ : Type} (f : β → Res ε γ) : List β → Res ε (List γ)
  | [] => .ok []
  | b :: bs =>
    match f b with
    | .ok c =>
      (match resMapM f bs with
       | .ok cs => .ok (c :: cs)
       | .err e => .err e
       | .panic w => .panic w)
    | .err e => .err e
    | .panic w => .panic w

/-- a top-level value the Go type system can produce: points and bounds are arrays, never nil -/
def GVal.Exists {α : Type} : GVal α → Prop
  | .nilSlice .point => False
  | .nilSlice .bound => False
  | _ => True

/-! ### orb.Clone (heap model) -/

section clone
variable {α : Type}

theorem denoteList_eq_map (σ : Heap.Store α) (gs : List (Heap.HGeom α)) :
    Heap.denoteList σ gs = gs.map (Heap.denote σ) := by
  induction gs with
  | nil => rfl
  | cons g gs ih => rw [Heap.denoteList, ih, List.map_cons]

theorem clone_collection_denote' (σ : Heap.Store α) (gs : List (Heap.HGeom α))
    (h : Heap.WF σ (.collection gs)) :
    (Heap.cloneList σ gs).2.map (Heap.denote (Heap.cloneList σ gs).1) = gs.map (Heap.denote σ) := by
  have := Heap.clone_denote' σ (.collection gs) h
  rw [Heap.clone, Heap.denote, Heap.denote, denoteList_eq_map, denoteList_eq_map] at this
  exact Geom.collection.inj this

end clone

/-! ### orb.Equal -/

section equal
variable {α : Type} [BEq α]

theorem equal_go_eq (gs hs : List (Geom α)) :
    Core.equal.go gs hs = (decide (gs.length = hs.length) && (List.zipWith Core.equal gs hs).all id) := by
  induction gs generalizing hs with
  | nil => cases hs <;> simp [Core.equal.go]
  | cons g gs ih =>
    cases hs with
    | nil => simp [Core.equal.go]
    | cons h hs =>
      rw [Core.equal.go, ih]
      simp only [List.length_cons, Nat.add_right_cancel_iff, List.zipWith_cons_cons, List.all_cons, id]
      cases Core.equal g h <;> simp

theorem equal_collection' (gs hs : List (Geom α)) :
    Core.equal (.collection gs) (.collection hs) =
      (decide (gs.length = hs.length) && (List.zipWith Core.equal gs hs).all id) := by
  rw [Core.equal, equal_go_eq]

theorem equal_kind_mismatch' (g h : Geom α) (hk : g.kind ≠ h.kind) : Core.equal g h = false := by
  cases g <;> cases h <;> first | (exact absurd rfl hk) | (simp [Core.equal])

end equal

/-! ### Geometry.Bound -/

section bound
variable {α : Type} [LinearOrder α]
open Core

theorem foldl_union_lub {X : Type} (f : X → Bound α) (l : List X) (b0 : Bound α) :
    (∀ p, Mem p b0 → Mem p (l.foldl (fun b x => b.union (f x)) b0)) ∧
    (∀ x ∈ l, ∀ p, Mem p (f x) → Mem p (l.foldl (fun b x => b.union (f x)) b0)) ∧
    (∀ c : Bound α, (∀ p, Mem p b0 → Mem p c) → (∀ x ∈ l, ∀ p, Mem p (f x) → Mem p c) →
      ∀ p, Mem p (l.foldl (fun b x => b.union (f x)) b0) → Mem p c) := by
  induction l generalizing b0 with
  | nil =>
    refine ⟨fun p h => h, ?_, fun c h0 _ p h => h0 p h⟩
    intro x hx; cases hx
  | cons a l ih =>
    obtain ⟨i1, i2, i3⟩ := ih (b0.union (f a))
    refine ⟨fun p h => i1 p (union_upper' _ _ p (Or.inl h)), ?_, ?_⟩
    · intro x hx p hp
      rcases List.mem_cons.1 hx with rfl | hx
      · exact i1 p (union_upper' _ _ p (Or.inr hp))
      · exact i2 x hx p hp
    · intro c h0 hl p hp
      refine i3 c ?_ (fun x hx => hl x (List.mem_cons_of_mem _ hx)) p hp
      exact union_least' _ _ c h0 (hl a List.mem_cons_self)

theorem bound_collection_union' (eb : Bound α) (he : eb.isEmpty = true) (gs : List (Geom α)) :
    (∀ g ∈ gs, ∀ p, Mem p (bound eb g) → Mem p (bound eb (.collection gs))) ∧
    (∀ c : Bound α, (∀ g ∈ gs, ∀ p, Mem p (bound eb g) → Mem p c) →
      ∀ p, Mem p (bound eb (.collection gs)) → Mem p c) := by
  cases gs with
  | nil =>
    refine ⟨fun g hg => (by cases hg), fun c _ p hp => ?_⟩
    rw [bound] at hp
    exact absurd ⟨p, hp⟩ ((isEmpty_iff' eb).1 he)
  | cons g rest =>
    have hb : bound eb (.collection (g :: rest)) =
        rest.foldl (fun b x => b.union (bound eb x)) (bound eb g) := by rw [bound]
    rw [hb]
    obtain ⟨i1, i2, i3⟩ := foldl_union_lub (bound eb) rest (bound eb g)
    refine ⟨?_, ?_⟩
    · intro x hx p hp
      rcases List.mem_cons.1 hx with rfl | hx
      · exact i1 p hp
      · exact i2 x hx p hp
    · intro c hc p hp
      exact i3 c (hc g List.mem_cons_self) (fun x hx => hc x (List.mem_cons_of_mem _ hx)) p hp

end bound

/-! ### project.Geometry -/

section project
variable {σ α : Type} [LT α] [LE α] [DecidableLT α] [DecidableLE α] [Min α] [Max α]

theorem project_go_pure (f : Pt α → Pt α) (gs : List (Geom α)) :
    Project.geometryM.go (σ := Unit) (fun p s => (f p, s)) gs () =
      (gs.map (Project.geometry f), ()) := by
  induction gs with
  | nil => rfl
  | cons g gs ih => rw [Project.geometryM.go, ih]; rfl

theorem project_collection_pure' (f : Pt α → Pt α) (gs : List (Geom α)) :
    Project.geometry f (.collection gs) = .collection (gs.map (Project.geometry f)) := by
  rw [Project.geometry, Project.geometryM, project_go_pure]

end project

/-! ### encoders -/

section wkb
open WKB

theorem wkb_encList_eq (o : Order) (gs : List G) : encGeom.encList o gs = gs.flatMap (encGeom o 0) := by
  induction gs with
  | nil => rfl
  | cons g gs ih => rw [encGeom.encList, ih, List.flatMap_cons]

theorem wkb_collection' (o : Order) (srid : Nat) (gs : List G) :
    encGeom o srid (.collection gs) =
      orderByte o :: (typePrefix o Generated.Params.wkb_geometryCollectionType gs.length srid ++
        gs.flatMap (encGeom o 0)) := by
  rw [encGeom, wkb_encList_eq]

theorem infix_flatMap {β γ : Type} (f : β → List γ) (l : List β) (b : β) (hb : b ∈ l) :
    f b <:+: l.flatMap f := by
  obtain ⟨l1, l2, rfl⟩ := List.append_of_mem hb
  refine ⟨l1.flatMap f, l2.flatMap f, ?_⟩
  simp [List.flatMap_append, List.flatMap_cons, List.append_assoc]

theorem wkb_collection_contains' (o : Order) (srid : Nat) (gs : List G) (g : G) (hg : g ∈ gs) :
    encGeom o 0 g <:+: encGeom o srid (.collection gs) := by
  rw [wkb_collection']
  obtain ⟨s, t, h⟩ := infix_flatMap (encGeom o 0) gs g hg
  refine ⟨orderByte o :: (typePrefix o Generated.Params.wkb_geometryCollectionType gs.length srid ++ s), t, ?_⟩
  rw [← h]; simp [List.append_assoc]

end wkb

section wkt
open WKT
variable (fmtF : UInt64 → Str)

theorem wkt_marshalList_eq (gs : List WKT.G) : marshalG.marshalList fmtF gs = gs.map (marshalG fmtF) := by
  induction gs with
  | nil => rfl
  | cons g gs ih => rw [marshalG.marshalList, ih, List.map_cons]

theorem wkt_collection' (gs : List WKT.G) :
    marshalG fmtF (.collection gs) =
      if gs.isEmpty then kwCollection ++ sEmpty
      else kwCollection ++ cLP :: (commaSep (gs.map (marshalG fmtF)) ++ [cRP]) := by
  rw [marshalG, wkt_marshalList_eq]

theorem wkt_marshal_total' (v : GVal UInt64) (hv : GVal.Exists v) : (marshal fmtF v).isPanic = false := by
  cases v with
  | nilIface => rfl
  | val g => rfl
  | nilSlice k => cases k <;> first | rfl | exact absurd hv (by simp [GVal.Exists])

end wkt

section geojson
open GeoJSON

theorem geojson_geomsJ_eq (c : Codec) (gs : List GeoJSON.G) : geomsJ c gs = gs.map (geomJ c) := by
  induction gs with
  | nil => simp [geomsJ]
  | cons g gs ih => simp [geomsJ, ih]

theorem geojson_collection' (c : Codec) (gs : List GeoJSON.G) :
    geomJ c (.collection gs) =
      if gs = [] then .null
      else .obj [("type", .str "GeometryCollection"), ("geometries", .arr (gs.map (geomJ c)))] := by
  cases gs with
  | nil => simp [geomJ]
  | cons g gs => simp [geomJ, geojson_geomsJ_eq]

end geojson

end Orb.C20M
