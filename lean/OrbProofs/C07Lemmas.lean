/-
  Helper lemmas for C07.  The primed statements are re-exported by OrbProofs/C07.lean.
-/
import Orb.Clip
import Mathlib.Algebra.Order.Field.Basic
import Mathlib.Tactic.Linarith

namespace Orb.Clip
open Orb Orb.Core

/-! ### spec-side vocabulary -/

section vocab
variable {α : Type} [Field α] [LinearOrder α] [IsStrictOrderedRing α]

/-- the box has positive width and height (the property's quantifier) -/
def BoxOK (box : Bound α) : Prop := box.lo.x < box.hi.x ∧ box.lo.y < box.hi.y

/-- closed-box membership -/
def InBox (box : Bound α) (p : Pt α) : Prop :=
  box.lo.x ≤ p.x ∧ p.x ≤ box.hi.x ∧ box.lo.y ≤ p.y ∧ p.y ≤ box.hi.y

/-- open-box membership -/
def InOpenBox (box : Bound α) (p : Pt α) : Prop :=
  box.lo.x < p.x ∧ p.x < box.hi.x ∧ box.lo.y < p.y ∧ p.y < box.hi.y

/-- the point at parameter `t` of the segment `a b` -/
def lerp (a b : Pt α) (t : α) : Pt α := ⟨a.x + t * (b.x - a.x), a.y + t * (b.y - a.y)⟩

/-- `q` lies on the closed segment `a b` -/
def OnSeg (a b q : Pt α) : Prop := ∃ t, 0 ≤ t ∧ t ≤ 1 ∧ q = lerp a b t

/-- consecutive vertex pairs of a path -/
def segsOf : List (Pt α) → List (Pt α × Pt α)
  | a :: b :: rest => (a, b) :: segsOf (b :: rest)
  | _ => []

/-- `q` lies on the polyline `ps` (a path with fewer than two vertices has no points) -/
def OnPath (ps : List (Pt α)) (q : Pt α) : Prop := ∃ s ∈ segsOf ps, OnSeg s.1 s.2 q

/-- `q` lies on one of the pieces -/
def OnPieces (out : List (List (Pt α))) (q : Pt α) : Prop := ∃ piece ∈ out, OnPath piece q

end vocab

variable {α : Type} [Field α] [LinearOrder α] [IsStrictOrderedRing α]

theorem line_total' (box : Bound α) (hb : BoxOK box) (isOpen : Bool) (inp : List (Pt α)) :
    ∃ out, line box isOpen inp = some out := by
  sorry

theorem segLoop_closed_spec' (box : Bound α) (hb : BoxOK box) (a b : Pt α) :
    (match segLoop box 8 a b (bitCode box a) (bitCode box b) with
     | .accept a' b' _ => InBox box a' ∧ InBox box b' ∧ OnSeg a b a' ∧ OnSeg a b b' ∧
         ∀ q, OnSeg a b q → (InBox box q ↔ OnSeg a' b' q)
     | .reject => ∀ q, OnSeg a b q → ¬ InBox box q
     | .stuck => False) := by
  sorry

theorem clip_vertices_in_box' (box : Bound α) (hb : BoxOK box) (isOpen : Bool) (inp : List (Pt α))
    (out : List (List (Pt α))) (h : line box isOpen inp = some out) :
    ∀ piece ∈ out, ∀ v ∈ piece, InBox box v := by
  sorry

theorem clip_vertices_on_input' (box : Bound α) (hb : BoxOK box) (isOpen : Bool) (inp : List (Pt α))
    (out : List (List (Pt α))) (h : line box isOpen inp = some out) :
    ∀ piece ∈ out, ∀ v ∈ piece, OnPath inp v := by
  sorry

theorem clip_exact' (box : Bound α) (hb : BoxOK box) (inp : List (Pt α)) (out : List (List (Pt α)))
    (h : line box false inp = some out) :
    ∀ q, OnPieces out q ↔ (OnPath inp q ∧ InBox box q) := by
  sorry

theorem clip_inside_id' (box : Bound α) (hb : BoxOK box) (inp : List (Pt α)) (h2 : 2 ≤ inp.length)
    (hin : ∀ v ∈ inp, InBox box v) : line box false inp = some [inp] := by
  sorry

theorem clip_idempotent' (box : Bound α) (hb : BoxOK box) (inp : List (Pt α)) (out : List (List (Pt α)))
    (h : line box false inp = some out) : ∀ piece ∈ out, line box false piece = some [piece] := by
  sorry

theorem clip_empty' (box : Bound α) (hb : BoxOK box) (inp : List (Pt α))
    (hout : ∀ q, OnPath inp q → ¬ InBox box q) : line box false inp = some [] := by
  sorry

theorem clip_open_interior' (box : Bound α) (hb : BoxOK box) (inp : List (Pt α)) (out : List (List (Pt α)))
    (h : line box true inp = some out) :
    ∀ piece ∈ out, ∀ s ∈ segsOf piece, ∀ t, 0 < t → t < 1 → s.1 ≠ s.2 → InOpenBox box (lerp s.1 s.2 t) := by
  sorry

theorem clip_open_complete' (box : Bound α) (hb : BoxOK box) (inp : List (Pt α)) (out : List (List (Pt α)))
    (h : line box true inp = some out) :
    ∀ q, OnPath inp q → InOpenBox box q → OnPieces out q := by
  sorry

theorem clip_open_touch_witness' :
    line (⟨⟨1, 1⟩, ⟨2, 3⟩⟩ : Bound ℚ) true [⟨0, 0⟩, ⟨4, 2⟩] = some [[⟨2, 1⟩, ⟨2, 1⟩]] := by
  sorry

end Orb.Clip
