/-
  Helper lemmas for C07.  The primed statements are re-exported by OrbProofs/C07.lean.

  The spec-side vocabulary (BoxOK, InBox, InOpenBox, lerp, OnSeg, segsOf, OnPath, OnPieces) is defined,
  unchanged, in OrbProofs/C07Seg.lean; the segment-level theory is in C07Seg / C07SegLoop, the outer
  loop invariant in C07Line.
-/
import OrbProofs.C07Line

namespace Orb.Clip
open Orb Orb.Core

variable {α : Type} [Field α] [LinearOrder α] [IsStrictOrderedRing α]

/-- the result of `line` satisfies the loop invariant `Good` -/
theorem good_of_line {box : Bound α} (hb : BoxOK box) {isOpen : Bool} {inp : List (Pt α)}
    {out : List (List (Pt α))} (h : line box isOpen inp = some out) : Good box isOpen inp out := by
  obtain ⟨out', h', hG⟩ := line_good hb isOpen inp
  rw [h] at h'
  cases h'
  exact hG

theorem line_total' (box : Bound α) (hb : BoxOK box) (isOpen : Bool) (inp : List (Pt α)) :
    ∃ out, line box isOpen inp = some out := by
  obtain ⟨out, h, _⟩ := line_good hb isOpen inp
  exact ⟨out, h⟩

theorem segLoop_closed_spec' (box : Bound α) (hb : BoxOK box) (a b : Pt α) :
    (match segLoop box false 8 a b (bitCode box a) (bitCode box b) 0 0 with
     | .accept a' b' _ => InBox box a' ∧ InBox box b' ∧ OnSeg a b a' ∧ OnSeg a b b' ∧
         ∀ q, OnSeg a b q → (InBox box q ↔ OnSeg a' b' q)
     | .reject => ∀ q, OnSeg a b q → ¬ InBox box q
     | .stuck => False) := by
  rw [segLoop_eq_segLoopU hb false (W_bitCode hb a) (W_bitCode hb b) (bitCount_bitCode_le box a)
    (bitCount_bitCode_le box b) (fun h => Bool.noConfusion h) 8]
  exact segLoop_closed hb a b

/-- the rounding guards of the inner loop change nothing over an ordered field: started as `lineStep`
    starts it (either option), the loop is the loop without them -/
theorem segLoop_guard_unused' (box : Bound α) (hb : BoxOK box) (isOpen : Bool) (a b : Pt α) :
    segLoop box isOpen 8 a b (if isOpen then bitCodeOpen box a else bitCode box a)
        (if isOpen then bitCodeOpen box b else bitCode box b) 0 0 =
      segLoopU box 8 a b (if isOpen then bitCodeOpen box a else bitCode box a)
        (if isOpen then bitCodeOpen box b else bitCode box b) :=
  segLoop_eq_segLoopU hb isOpen (W_code hb isOpen a) (W_code hb isOpen b) (bitCount_code_le box isOpen a)
    (bitCount_code_le box isOpen b) (fun ho => by subst ho; exact ⟨rfl, rfl⟩) 8

theorem clip_vertices_in_box' (box : Bound α) (hb : BoxOK box) (isOpen : Bool) (inp : List (Pt α))
    (out : List (List (Pt α))) (h : line box isOpen inp = some out) :
    ∀ piece ∈ out, ∀ v ∈ piece, InBox box v := by
  obtain ⟨g1, g2, _⟩ := good_of_line hb h
  intro piece hp v hv
  obtain ⟨s, hs, hv'⟩ := mem_endpoint piece v hv (g1 piece hp)
  obtain ⟨h1, h2, _, _⟩ := g2 piece hp s hs
  rcases hv' with rfl | rfl
  · exact h1
  · exact h2

theorem clip_vertices_on_input' (box : Bound α) (hb : BoxOK box) (isOpen : Bool) (inp : List (Pt α))
    (out : List (List (Pt α))) (h : line box isOpen inp = some out) :
    ∀ piece ∈ out, ∀ v ∈ piece, OnPath inp v := by
  obtain ⟨g1, g2, _⟩ := good_of_line hb h
  intro piece hp v hv
  obtain ⟨s, hs, hv'⟩ := mem_endpoint piece v hv (g1 piece hp)
  obtain ⟨_, _, ⟨u, hu, hu1, hu2⟩, _⟩ := g2 piece hp s hs
  rcases hv' with rfl | rfl
  · exact ⟨u, hu, hu1⟩
  · exact ⟨u, hu, hu2⟩

theorem clip_exact' (box : Bound α) (hb : BoxOK box) (inp : List (Pt α)) (out : List (List (Pt α)))
    (h : line box false inp = some out) :
    ∀ q, OnPieces out q ↔ (OnPath inp q ∧ InBox box q) := by
  obtain ⟨_, g2, g3⟩ := good_of_line hb h
  intro q
  constructor
  · rintro ⟨piece, hp, s, hs, hq⟩
    obtain ⟨h1, h2, ⟨u, hu, hu1, hu2⟩, _⟩ := g2 piece hp s hs
    exact ⟨⟨u, hu, hu1.sub hu2 hq⟩, inBox_of_onSeg h1 h2 hq⟩
  · rintro ⟨hq, hin⟩
    exact g3 q hq (Or.inr ⟨rfl, hin⟩)

set_option linter.unusedVariables false in
theorem clip_inside_id' (box : Bound α) (hb : BoxOK box) (inp : List (Pt α)) (h2 : 2 ≤ inp.length)
    (hin : ∀ v ∈ inp, InBox box v) : line box false inp = some [inp] := by
  match inp, h2 with
  | p :: b :: rest, _ =>
    have hp : bitCode box p = 0 := bitCode_of_inBox (hin p List.mem_cons_self)
    have := lineLoop_inside box (b :: rest) p [] [] (Or.inl ⟨rfl, rfl⟩) (by simp)
      (fun v hv => hin v (List.mem_cons_of_mem _ hv))
    show (if (lineLoop box false ⟨[], 0, code box false p, false⟩ (p :: b :: rest)).stuck = true then none
        else some (lineLoop box false ⟨[], 0, code box false p, false⟩ (p :: b :: rest)).out) = _
    rw [show code box false p = 0 from hp, this]
    rfl

theorem clip_idempotent' (box : Bound α) (hb : BoxOK box) (inp : List (Pt α)) (out : List (List (Pt α)))
    (h : line box false inp = some out) : ∀ piece ∈ out, line box false piece = some [piece] := by
  intro piece hp
  exact clip_inside_id' box hb piece ((good_of_line hb h).1 piece hp)
    (clip_vertices_in_box' box hb false inp out h piece hp)

theorem clip_empty' (box : Bound α) (hb : BoxOK box) (inp : List (Pt α))
    (hout : ∀ q, OnPath inp q → ¬ InBox box q) : line box false inp = some [] := by
  obtain ⟨out, h, g1, g2, _⟩ := line_good hb false inp
  cases out with
  | nil => exact h
  | cons piece out =>
    exfalso
    obtain ⟨s, hs⟩ := segsOf_ne_nil (g1 piece List.mem_cons_self)
    obtain ⟨h1, _, ⟨u, hu, hu1, _⟩, _⟩ := g2 piece List.mem_cons_self s hs
    exact hout s.1 ⟨u, hu, hu1⟩ h1

theorem clip_open_interior' (box : Bound α) (hb : BoxOK box) (inp : List (Pt α)) (out : List (List (Pt α)))
    (h : line box true inp = some out) :
    ∀ piece ∈ out, ∀ s ∈ segsOf piece, ∀ t, 0 < t → t < 1 → s.1 ≠ s.2 → InOpenBox box (lerp s.1 s.2 t) := by
  intro piece hp s hs
  exact ((good_of_line hb h).2.1 piece hp s hs).2.2.2 rfl

theorem clip_open_complete' (box : Bound α) (hb : BoxOK box) (inp : List (Pt α)) (out : List (List (Pt α)))
    (h : line box true inp = some out) :
    ∀ q, OnPath inp q → InOpenBox box q → OnPieces out q := by
  intro q hq hin
  exact (good_of_line hb h).2.2 q hq (Or.inl hin)

theorem clip_open_touch_witness' :
    line (⟨⟨1, 1⟩, ⟨2, 3⟩⟩ : Bound ℚ) true [⟨0, 0⟩, ⟨4, 2⟩] = some [[⟨2, 1⟩, ⟨2, 1⟩]] := by
  decide +kernel

end Orb.Clip
