/-
  Basic facts about the cell-level view of a store (`Orb.HeapOps.cell`, `upd`, `readH`), shared by
  the heap-level lemma files of C15 (project) and C08 (clip).  Core Lean only.
-/
import Orb.HeapOps
import OrbProofs.C06HeapLemmas

namespace Orb.HeapOps
open Orb Orb.Heap

variable {α : Type}

theorem read_eq (σ : Store α) (a : Nat) : read σ a = (σ[a]?).getD [] := by
  simp [Heap.read, List.getD_eq_getElem?_getD]

theorem cell_upd (σ : Store α) (a i b j : Nat) (g : Pt α → Pt α) :
    cell (upd σ a i g) b j = if a = b ∧ i = j then (cell σ b j).map g else cell σ b j := by
  unfold cell upd
  rw [read_eq, read_eq, List.getElem?_modify]
  cases hb : σ[b]? with
  | none => simp
  | some arr =>
    by_cases hab : a = b
    · subst hab
      simp only [Option.map_eq_map, Option.map_some, if_true, Option.getD_some, true_and]
      rw [List.getElem?_modify]
      cases arr[j]? <;> by_cases hij : i = j <;> simp [hij]
    · simp [hab]

theorem read_length_upd (σ : Store α) (a i b : Nat) (g : Pt α → Pt α) :
    (read (upd σ a i g) b).length = (read σ b).length := by
  unfold upd
  rw [read_eq, read_eq, List.getElem?_modify]
  cases hb : σ[b]? with
  | none => simp
  | some arr => by_cases hab : a = b <;> simp [hab]

theorem length_upd (σ : Store α) (a i : Nat) (g : Pt α → Pt α) : (upd σ a i g).length = σ.length := by
  simp [upd]

/-- two arrays with the same length and the same cells are equal -/
theorem read_ext (σ σ' : Store α) (a : Nat) (h : ∀ i, cell σ' a i = cell σ a i) : read σ' a = read σ a :=
  List.ext_getElem? h

theorem getElem?_readH (σ : Store α) (h : Hdr) (k : Nat) :
    (readH σ h)[k]? = if k < h.len then cell σ h.arr (h.off + k) else none := by
  simp [readH, cell, List.getElem?_take, List.getElem?_drop]

theorem readH_length (σ : Store α) (h : Hdr) (hw : h.WF σ) : (readH σ h).length = h.len := by
  unfold readH Hdr.WF at *
  simp only [List.length_take, List.length_drop]
  omega

theorem iter_add {β : Type} (f : β → β) (m n : Nat) (x : β) : iter f (m + n) x = iter f n (iter f m x) := by
  induction m generalizing x with
  | zero => simp [iter]
  | succ m ih => rw [Nat.succ_add]; simp only [iter]; exact ih (f x)

theorem iter_map {β : Type} (f : β → β) (m n : Nat) (x : Option β) :
    (x.map (iter f m)).map (iter f n) = x.map (iter f (m + n)) := by
  cases x with
  | none => rfl
  | some x => simp [iter_add]

theorem covers_iff (h : Hdr) (a i : Nat) : h.covers a i = true ↔ h.arr = a ∧ h.off ≤ i ∧ i < h.off + h.len := by
  simp [Hdr.covers, and_assoc]

theorem inWin_iff (h : Hdr) (a i : Nat) : h.inWin a i = true ↔ h.arr = a ∧ h.off ≤ i ∧ i < h.off + h.cap := by
  simp [Hdr.inWin, and_assoc]

/-- structural induction for the nested inductive `SGeom` -/
theorem SGeom.ind {motive : SGeom α → Prop}
    (h1 : ∀ p, motive (.point p)) (h2 : ∀ h, motive (.multiPoint h))
    (h3 : ∀ h, motive (.lineString h)) (h4 : ∀ hs, motive (.multiLineString hs))
    (h5 : ∀ h, motive (.ring h)) (h6 : ∀ hs, motive (.polygon hs))
    (h7 : ∀ hss, motive (.multiPolygon hss)) (h8 : ∀ a b, motive (.bound a b))
    (hc : ∀ gs, (∀ g ∈ gs, motive g) → motive (.collection gs)) : ∀ g, motive g := by
  intro g
  refine SGeom.rec (motive_1 := motive) (motive_2 := fun gs => ∀ g ∈ gs, motive g)
    h1 h2 h3 h4 h5 h6 h7 h8 hc ?_ ?_ g
  · intro g hg; cases hg
  · intro head tail hh ht g hg
    rcases List.mem_cons.1 hg with rfl | hg
    · exact hh
    · exact ht g hg

theorem denoteSList_eq_map (σ : Store α) (gs : List (SGeom α)) : denoteSList σ gs = gs.map (denoteS σ) := by
  induction gs with
  | nil => rfl
  | cons g gs ih => simp [denoteSList, ih]

theorem hdrsList_eq (gs : List (SGeom α)) : hdrsList gs = (gs.map hdrs).flatten := by
  induction gs with
  | nil => rfl
  | cons g gs ih => simp [hdrsList, ih]

theorem ringHdrsList_eq (gs : List (SGeom α)) : ringHdrsList gs = (gs.map ringHdrs).flatten := by
  induction gs with
  | nil => rfl
  | cons g gs ih => simp [ringHdrsList, ih]

theorem ringHdrs_sub_hdrs (g : SGeom α) : ∀ h ∈ ringHdrs g, h ∈ hdrs g := by
  induction g using SGeom.ind with
  | hc gs ih =>
    intro h hh
    simp only [ringHdrs, hdrs, ringHdrsList_eq, hdrsList_eq, List.mem_flatten, List.mem_map] at hh ⊢
    obtain ⟨l, ⟨g, hg, rfl⟩, hl⟩ := hh
    exact ⟨hdrs g, ⟨g, hg, rfl⟩, ih g hg h hl⟩
  | _ => intro h hh; first | exact hh | cases hh

/-- `denoteS` only looks through the headers of the value -/
theorem denoteS_congr (σ σ' : Store α) (g : SGeom α) (h : ∀ x ∈ hdrs g, readH σ' x = readH σ x) :
    denoteS σ' g = denoteS σ g := by
  induction g using SGeom.ind with
  | h1 p => rfl
  | h8 a b => rfl
  | h2 x => simp [denoteS, h x (by simp [hdrs])]
  | h3 x => simp [denoteS, h x (by simp [hdrs])]
  | h5 x => simp [denoteS, h x (by simp [hdrs])]
  | h4 hs =>
    simp only [denoteS]; congr 1
    exact List.map_congr_left fun x hx => h x (by simpa [hdrs] using hx)
  | h6 hs =>
    simp only [denoteS]; congr 1
    exact List.map_congr_left fun x hx => h x (by simpa [hdrs] using hx)
  | h7 hss =>
    simp only [denoteS]; congr 1
    apply List.map_congr_left
    intro hs hhs
    exact List.map_congr_left fun x hx => h x (List.mem_flatten.2 ⟨hs, hhs, hx⟩)
  | hc gs ih =>
    simp only [denoteS, denoteSList_eq_map]; congr 1
    apply List.map_congr_left
    intro g hg
    apply ih g hg
    intro x hx
    apply h x
    simp only [hdrs, hdrsList_eq, List.mem_flatten, List.mem_map]
    exact ⟨hdrs g, ⟨g, hg, rfl⟩, hx⟩

/-! ### the whole-array headers of `Orb.Heap` (C06) embed -/

theorem readH_wholeHdr (σ : Store α) (a : Nat) : readH σ (wholeHdr σ a) = read σ a := by
  simp [readH, wholeHdr]

theorem denoteS_ofHGeom' (σ : Store α) (g : HGeom α) : denoteS σ (ofHGeom σ g) = Heap.denote σ g := by
  induction g using HGeom.ind with
  | h1 p => rfl
  | h8 a b => rfl
  | h2 a => simp [ofHGeom, denoteS, Heap.denote, readH_wholeHdr]
  | h3 a => simp [ofHGeom, denoteS, Heap.denote, readH_wholeHdr]
  | h5 a => simp [ofHGeom, denoteS, Heap.denote, readH_wholeHdr]
  | h4 as => simp [ofHGeom, denoteS, Heap.denote, readH_wholeHdr, Function.comp_def]
  | h6 as => simp [ofHGeom, denoteS, Heap.denote, readH_wholeHdr, Function.comp_def]
  | h7 ass => simp [ofHGeom, denoteS, Heap.denote, readH_wholeHdr, Function.comp_def]
  | hc gs ih =>
    simp only [ofHGeom, denoteS, Heap.denote]
    congr 1
    induction gs with
    | nil => rfl
    | cons g gs ihl =>
      simp only [ofHGeomList, denoteSList, Heap.denoteList]
      rw [ih g (by simp), ihl fun g hg => ih g (List.mem_cons_of_mem _ hg)]

end Orb.HeapOps
