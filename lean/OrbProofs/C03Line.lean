/-
  C03 lemmas, part 1: zigzag, command words, the point loop, `decodeLine` on `encLine`
  output, and the geometry round trip for points / multipoints / linestrings /
  multilinestrings.
-/
import Orb.MVT

namespace Orb.MVT
open Orb

theorem lit_allOnes : 4294967295#32 = BitVec.allOnes 32 := by decide

theorem sshiftRight31_false (x : BitVec 32) (h : x.msb = false) : x.sshiftRight 31 = 0#32 := by
  ext i hi
  have hm : x[31] = false := by simpa [BitVec.msb_eq_getLsbD_last] using h
  rw [BitVec.getElem_sshiftRight]
  simp [h]
  intro h2
  have : i = 0 := by omega
  subst this; simpa using hm

theorem sshiftRight31_true (x : BitVec 32) (h : x.msb = true) : x.sshiftRight 31 = BitVec.allOnes 32 := by
  ext i hi
  have hm : x[31] = true := by simpa [BitVec.msb_eq_getLsbD_last] using h
  rw [BitVec.getElem_sshiftRight, BitVec.getElem_allOnes]
  simp [h]
  intro h2
  have : i = 0 := by omega
  subst this; simpa using hm

/-- `unzigzag ∘ zigzag = id` on all 2^32 words. -/
theorem zigzag_roundtrip' (x : BitVec 32) : unzigzag (zigzag x) = x := by
  unfold unzigzag zigzag
  rw [lit_allOnes, BitVec.and_allOnes]
  cases h : x.msb
  · rw [sshiftRight31_false x h, BitVec.xor_zero]
    have hlt : x.toNat < 2^31 := by
      have := (BitVec.msb_eq_false_iff_two_mul_lt).1 h; omega
    have h1 : x <<< 1 &&& 1#32 = 0#32 := by
      apply BitVec.eq_of_toNat_eq
      simp [BitVec.toNat_and, Nat.and_one_is_mod, BitVec.toNat_shiftLeft, Nat.shiftLeft_eq]
    rw [h1]
    apply BitVec.eq_of_toNat_eq
    simp [BitVec.toNat_shiftLeft, Nat.shiftLeft_eq, Nat.shiftRight_eq_div_pow]
    omega
  · rw [sshiftRight31_true x h, BitVec.xor_allOnes]
    have hlt : 2^31 ≤ x.toNat := by
      have := (BitVec.msb_eq_true_iff_two_mul_ge).1 h; omega
    have h1 : ~~~(x <<< 1) &&& 1#32 = 1#32 := by
      apply BitVec.eq_of_toNat_eq
      simp [BitVec.toNat_and, Nat.and_one_is_mod, BitVec.toNat_shiftLeft, Nat.shiftLeft_eq]
      omega
    have h2 : -(1#32) = BitVec.allOnes 32 := by decide
    rw [h1, h2, BitVec.xor_allOnes]
    apply BitVec.eq_of_toNat_eq
    simp [BitVec.toNat_shiftLeft, Nat.shiftLeft_eq, Nat.shiftRight_eq_div_pow]
    omega

/-- A delta between two coordinates of the quantifier survives the 32-bit zigzag. -/
theorem delta_roundtrip' (a b : Int) (ha : coordOK a = true) (hb : coordOK b = true) :
    unzigzagI (zigzag (i32 a - i32 b)) = a - b := by
  simp only [coordOK, decide_eq_true_eq] at ha hb
  unfold unzigzagI i32
  rw [zigzag_roundtrip', BitVec.toInt_sub, BitVec.toInt_ofInt, BitVec.toInt_ofInt]
  unfold Int.bmod
  simp only [Nat.reducePow, Int.reducePow] at *
  omega

@[simp] theorem bindD_ok {α β : Type} (a : α) (s : GD) (f : α → GD → DM β) :
    bindD (.ok a, s) f = f a s := rfl
@[simp] theorem bindD_err {α β : Type} (e : Err) (s : GD) (f : α → GD → DM β) :
    bindD (.err e, s) f = (.err e, s) := rfl
@[simp] theorem bindD_panic {α β : Type} (w : String) (s : GD) (f : α → GD → DM β) :
    bindD (.panic w, s) f = (.panic w, s) := rfl

/-- Value of a command word: `n * 8 + id`. -/
theorem cmdWord_toNat (id n : Nat) (hid : id < 8) (hn : n < 2^29) :
    (cmdWord id n).toNat = n * 8 + id := by
  unfold cmdWord
  rw [BitVec.toNat_or, BitVec.toNat_shiftLeft, BitVec.toNat_ofNat, BitVec.toNat_ofNat]
  have h1 : n % 2^32 = n := Nat.mod_eq_of_lt (by omega)
  have h2 : id % 2^32 = id := Nat.mod_eq_of_lt (by omega)
  have h3 : (n <<< 3) % 2^32 = n <<< 3 := by
    rw [Nat.shiftLeft_eq]; exact Nat.mod_eq_of_lt (by omega)
  rw [h1, h2, h3, ← Nat.shiftLeft_add_eq_or_of_lt (by omega : id < 2^3), Nat.shiftLeft_eq]

theorem cmdWord_and7 (id n : Nat) (hid : id < 8) (hn : n < 2^29) :
    (cmdWord id n &&& 7#32).toNat = id := by
  rw [BitVec.toNat_and, cmdWord_toNat id n hid hn]
  have : (7#32).toNat = 2^3 - 1 := by decide
  rw [this, Nat.and_two_pow_sub_one_eq_mod]
  omega

theorem cmdWord_shr3 (id n : Nat) (hid : id < 8) (hn : n < 2^29) :
    (cmdWord id n >>> 3).toNat = n := by
  rw [BitVec.toNat_ushiftRight, cmdWord_toNat id n hid hn, Nat.shiftRight_eq_div_pow]
  omega

theorem cmdWord_two_mul (id n : Nat) (hid : id < 8) (hn : n < 2^29) :
    (2#32 * (cmdWord id n >>> 3)).toNat = 2 * n := by
  rw [BitVec.toNat_mul, cmdWord_shr3 id n hid hn]
  have : (2#32).toNat = 2 := by decide
  rw [this]
  exact Nat.mod_eq_of_lt (by omega)

/-- `cmdAndCount` on a MoveTo / LineTo word whose points fit in the field. -/
theorem cmdAndCount_cmdWord (s : GD) (id n : Nat) (rest : List W)
    (hid : id < 7) (hn : n < 2^29) (hw : s.ws = cmdWord id n :: rest)
    (hc : s.used + 1 + 2 * n ≤ s.count) :
    cmdAndCount s = (.ok (id, n), { s with ws := rest, used := s.used + 1 }) := by
  unfold cmdAndCount
  rw [hw]
  simp only [cmdWord_and7 id n (by omega) hn, cmdWord_shr3 id n (by omega) hn,
    cmdWord_two_mul id n (by omega) hn]
  rw [if_neg]
  omega

theorem nextPoint_cons (s : GD) (vx vy : W) (rest : List W) (hw : s.ws = vx :: vy :: rest) :
    nextPoint s = (.ok ⟨s.prev.x + unzigzagI vx, s.prev.y + unzigzagI vy⟩,
      { s with ws := rest, used := s.used + 2,
               prev := ⟨s.prev.x + unzigzagI vx, s.prev.y + unzigzagI vy⟩ }) := by
  unfold nextPoint
  simp only [hw]

/-- `NextPoint` reads back a point written by `addPoints`. -/
theorem nextPoint_enc (c : Cur) (s : GD) (p : Pt Int) (rest : List W)
    (hx : c.x = i32 s.prev.x) (hy : c.y = i32 s.prev.y) (hp : ptOK s.prev = true) (hq : ptOK p = true)
    (hw : s.ws = zigzag (i32 p.x - c.x) :: zigzag (i32 p.y - c.y) :: rest) :
    nextPoint s = (.ok p, { s with ws := rest, used := s.used + 2, prev := p }) := by
  rw [nextPoint_cons s _ _ rest hw, hx, hy]
  simp only [ptOK, Bool.and_eq_true] at hp hq
  rw [delta_roundtrip' _ _ hq.1 hp.1, delta_roundtrip' _ _ hq.2 hp.2]
  have h1 : s.prev.x + (p.x - s.prev.x) = p.x := by omega
  have h2 : s.prev.y + (p.y - s.prev.y) = p.y := by omega
  rw [h1, h2]

theorem addPoints_length (c : Cur) (ps : List (Pt Int)) : (addPoints c ps).2.length = 2 * ps.length := by
  induction ps generalizing c with
  | nil => rfl
  | cons p ps ih => simp [addPoints, ih]; omega

/-- The point loop reads back what `addPoints` wrote. -/
theorem nextPoints_enc (ps : List (Pt Int)) (c : Cur) (s : GD) (rest : List W)
    (hx : c.x = i32 s.prev.x) (hy : c.y = i32 s.prev.y) (hp : ptOK s.prev = true)
    (hps : ∀ p ∈ ps, ptOK p = true) (hw : s.ws = (addPoints c ps).2 ++ rest) :
    ∃ s', nextPoints ps.length s = (.ok ps, s') ∧ s'.ws = rest ∧ s'.count = s.count ∧
      s'.used = s.used + 2 * ps.length ∧ s'.alloc = s.alloc ∧
      (addPoints c ps).1.x = i32 s'.prev.x ∧ (addPoints c ps).1.y = i32 s'.prev.y ∧
      ptOK s'.prev = true := by
  induction ps generalizing c s with
  | nil =>
    refine ⟨s, rfl, ?_, rfl, rfl, rfl, hx, hy, hp⟩
    simpa [addPoints] using hw
  | cons p ps ih =>
    have hq : ptOK p = true := hps p (by simp)
    simp only [addPoints, List.cons_append] at hw
    have hnp := nextPoint_enc c s p _ hx hy hp hq hw
    obtain ⟨s', h1, h2, h3, h4, h5, h6, h7, h8⟩ :=
      ih ⟨i32 p.x, i32 p.y⟩ { s with ws := (addPoints ⟨i32 p.x, i32 p.y⟩ ps).2 ++ rest, used := s.used + 2, prev := p }
        rfl rfl hq (fun q hq' => hps q (by simp [hq'])) rfl
    refine ⟨s', ?_, h2, h3, ?_, h5, h6, h7, h8⟩
    · simp only [List.length_cons, nextPoints, hnp, bindD_ok, h1]
    · simp only [List.length_cons] at h4 ⊢; omega

/-- The decoder state `s` is in step with the encoder cursor `c`: same position (a point of the
    quantifier) and consistent iterator accounting (`used` + unread = `Count()`). -/
def InStep (c : Cur) (s : GD) : Prop :=
  c.x = i32 s.prev.x ∧ c.y = i32 s.prev.y ∧ ptOK s.prev = true ∧ s.used + s.ws.length = s.count

theorem lineOK_cons (p : Pt Int) (tl : List (Pt Int)) (hl : lineOK (p :: tl) = true) :
    ptOK p = true ∧ (∀ q ∈ tl, ptOK q = true) ∧ tl.length < 2^29 := by
  simp only [lineOK, List.isEmpty_cons, Bool.not_false, List.all_cons, Bool.and_eq_true,
    Bool.true_and, List.all_eq_true, decide_eq_true_eq, List.length_cons] at hl
  exact ⟨hl.1.1, hl.1.2, by omega⟩

/-- `decodeLine` on the words of `encLine`, with the allocation counter. -/
theorem decodeLine_encLine_alloc (c c' : Cur) (s : GD) (l : List (Pt Int)) (ws rest : List W)
    (hs : InStep c s) (hl : lineOK l = true) (he : encLine c l = .ok (c', ws)) (hw : s.ws = ws ++ rest) :
    ∃ s', decodeLine s = (.ok l, s') ∧ InStep c' s' ∧ s'.ws = rest ∧ s'.count = s.count ∧
      s'.alloc = s.alloc + l.length ∧ ws.length = 2 * l.length + 2 := by
  obtain ⟨hx, hy, hp, hcnt⟩ := hs
  cases l with
  | nil => simp [lineOK] at hl
  | cons p tl =>
    obtain ⟨hq, htl, hlen⟩ := lineOK_cons p tl hl
    simp only [encLine, moveTo, lineTo, addPoints, Res.ok.injEq, Prod.mk.injEq] at he
    obtain ⟨hc', hws⟩ := he
    subst hws
    have hw' : s.ws = cmdWord cMoveTo 1 :: zigzag (i32 p.x - c.x) :: zigzag (i32 p.y - c.y) ::
        cmdWord cLineTo tl.length :: ((addPoints ⟨i32 p.x, i32 p.y⟩ tl).2 ++ rest) := by
      rw [hw]; simp
    replace hw := hw'
    clear hw'
    have hlen2 := addPoints_length ⟨i32 p.x, i32 p.y⟩ tl
    have hwl : s.ws.length = 4 + 2 * tl.length + rest.length := by
      rw [hw]; simp [hlen2]; omega
    have h1 := cmdAndCount_cmdWord s cMoveTo 1 _ (by decide) (by decide) hw (by omega)
    have h2 := nextPoint_enc c
      { s with
        ws := zigzag (i32 p.x - c.x) :: zigzag (i32 p.y - c.y) :: cmdWord cLineTo tl.length :: ((addPoints ⟨i32 p.x, i32 p.y⟩ tl).2 ++ rest),
        used := s.used + 1 } p _ hx hy hp hq rfl
    have h3 := cmdAndCount_cmdWord
      { s with ws := cmdWord cLineTo tl.length :: ((addPoints ⟨i32 p.x, i32 p.y⟩ tl).2 ++ rest),
               used := s.used + 1 + 2, prev := p } cLineTo tl.length _ (by decide) hlen rfl
      (by simp only; omega)
    obtain ⟨s', g1, g2, g3, g4, g5, g6, g7, g8⟩ := nextPoints_enc tl ⟨i32 p.x, i32 p.y⟩
      { s with ws := (addPoints ⟨i32 p.x, i32 p.y⟩ tl).2 ++ rest,
               used := s.used + 1 + 2 + 1, prev := p, alloc := s.alloc + (tl.length + 1) } rest
      rfl rfl hq htl rfl
    refine ⟨s', ?_, ⟨?_, ?_, g8, ?_⟩, g2, g3, ?_, ?_⟩
    · simp only [] at h2 h3
      simp only [decodeLine, h1, bindD_ok, ne_eq, not_true_eq_false, or_self, ↓reduceIte, h2, h3, g1]
    · rw [← hc']; exact g6
    · rw [← hc']; exact g7
    · rw [g4, g2, g3]; simp only; omega
    · rw [g5]; simp
    · simp [hlen2]; omega

/-- `decodeLine` reads back exactly the line that `encLine` wrote, and stays in step. -/
theorem decodeLine_encLine (c c' : Cur) (s : GD) (l : List (Pt Int)) (ws rest : List W)
    (hs : InStep c s) (hl : lineOK l = true) (he : encLine c l = .ok (c', ws)) (hw : s.ws = ws ++ rest) :
    ∃ s', decodeLine s = (.ok l, s') ∧ InStep c' s' ∧ s'.ws = rest ∧ s'.count = s.count := by
  obtain ⟨s', h1, h2, h3, h4, _, _⟩ := decodeLine_encLine_alloc c c' s l ws rest hs hl he hw
  exact ⟨s', h1, h2, h3, h4⟩

theorem encLine_ok (c : Cur) (l : List (Pt Int)) (hl : lineOK l = true) :
    ∃ c' ws, encLine c l = .ok (c', ws) ∧ ws.length = 2 * l.length + 2 := by
  cases l with
  | nil => simp [lineOK] at hl
  | cons p tl =>
    refine ⟨_, _, rfl, ?_⟩
    simp [moveTo, lineTo, addPoints, addPoints_length]; omega

theorem encLines_cons (c c1 c2 : Cur) (l : List (Pt Int)) (ls : List (List (Pt Int))) (w1 w2 : List W)
    (h1 : encLine c l = .ok (c1, w1)) (h2 : encLines c1 ls = .ok (c2, w2)) :
    encLines c (l :: ls) = .ok (c2, w1 ++ w2) := by
  simp only [encLines, h1, h2]

theorem encLines_ok (ls : List (List (Pt Int))) (c : Cur) (hl : ∀ l ∈ ls, lineOK l = true) :
    ∃ c' ws, encLines c ls = .ok (c', ws) := by
  induction ls generalizing c with
  | nil => exact ⟨c, [], rfl⟩
  | cons l ls ih =>
    obtain ⟨c1, w1, h1, _⟩ := encLine_ok c l (hl l (by simp))
    obtain ⟨c2, w2, h2⟩ := ih c1 (fun x hx => hl x (by simp [hx]))
    exact ⟨c2, w1 ++ w2, encLines_cons c c1 c2 l ls w1 w2 h1 h2⟩

/-- The linestring loop, once a line has been collected, returns all lines as a multilinestring. -/
theorem lsLoop_encLines (ls : List (List (Pt Int))) (c c' : Cur) (s : GD) (ws : List W)
    (mls : List (List (Pt Int))) (f : Nat)
    (hs : InStep c s) (hl : ∀ l ∈ ls, lineOK l = true) (he : encLines c ls = .ok (c', ws))
    (hw : s.ws = ws) (hf : ws.length ≤ f) (hm : mls ≠ []) :
    (lsLoop f mls s).1 = .ok (.multiLineString (mls ++ ls)) := by
  induction ls generalizing c s ws mls f with
  | nil =>
    simp only [encLines, Res.ok.injEq, Prod.mk.injEq] at he
    have hd : s.done = true := by rw [GD.done, hw, ← he.2]; rfl
    cases f <;> simp [lsLoop, hd]
  | cons l ls ih =>
    obtain ⟨c1, w1, h1, hlen⟩ := encLine_ok c l (hl l (by simp))
    obtain ⟨c2, w2, h2⟩ := encLines_ok ls c1 (fun x hx => hl x (by simp [hx]))
    rw [encLines_cons c c1 c2 l ls w1 w2 h1 h2] at he
    simp only [Res.ok.injEq, Prod.mk.injEq] at he
    obtain ⟨hc, hws⟩ := he
    subst hws hc
    obtain ⟨s', d1, d2, d3, d4, _, _⟩ := decodeLine_encLine_alloc c c1 s l w1 w2 hs (hl l (by simp)) h1 hw
    have hnd : s.done = false := by
      rw [GD.done, hw]; cases w1 with
      | nil => simp at hlen
      | cons _ _ => rfl
    have hmi : mls.isEmpty = false := by cases mls with
      | nil => exact absurd rfl hm
      | cons _ _ => rfl
    cases f with
    | zero => rw [List.length_append] at hf; omega
    | succ f =>
      simp only [lsLoop, hnd, d1, bindD_ok, hmi, Bool.and_false, Bool.false_eq_true, ↓reduceIte]
      rw [ih c1 s' w2 (mls ++ [l]) f d2 (fun x hx => hl x (by simp [hx])) h2 d3
        (by rw [List.length_append] at hf; omega) (by simp)]
      simp

theorem i32_zero : i32 0 = 0#32 := rfl

theorem decodePoint_enc (ori : List (Pt Int) → Int) (ps : List (Pt Int)) (hne : ps ≠ []) (hps : ∀ p ∈ ps, ptOK p = true)
    (hlen : ps.length < 2^29) (a : Nat) :
    (decodeGeometryIter ori tPoint (moveTo cur0 ps).2 a).1 = .ok (normG (.multiPoint ps)) := by
  have hl := addPoints_length cur0 ps
  have h00 : ptOK (⟨0, 0⟩ : Pt Int) = true := by decide
  have hpos : 0 < ps.length := List.length_pos_iff.2 hne
  have hwl : (moveTo cur0 ps).2.length = 1 + 2 * ps.length := by simp [moveTo, hl]; omega
  unfold decodeGeometryIter
  simp only
  rw [if_neg (show ¬ ((moveTo cur0 ps).2.length < 2) by omega), if_pos trivial]
  have h1 := cmdAndCount_cmdWord
    { ws := (moveTo cur0 ps).2, count := (moveTo cur0 ps).2.length, used := 0, prev := ⟨0, 0⟩, alloc := a }
    cMoveTo ps.length (addPoints cur0 ps).2 (by decide) hlen rfl (by simp only; omega)
  simp only [] at h1
  simp only [decodePoint, h1, bindD_ok, ne_eq, not_true_eq_false, ↓reduceIte]
  match ps, hne, hps, hlen with
  | [p], _, hps, _ =>
    have h2 := nextPoint_enc cur0
      { ws := (addPoints cur0 [p]).2, count := (moveTo cur0 [p]).2.length, used := 0 + 1, prev := ⟨0, 0⟩, alloc := a }
      p [] rfl rfl h00 (hps p (by simp)) rfl
    simp only [List.length_cons, List.length_nil, Nat.zero_add, ↓reduceIte, h2, bindD_ok, normG]
  | p :: q :: t, _, hps, _ =>
    obtain ⟨s', g1, _⟩ := nextPoints_enc (p :: q :: t) cur0
      { ws := (addPoints cur0 (p :: q :: t)).2, count := (moveTo cur0 (p :: q :: t)).2.length, used := 0 + 1,
        prev := ⟨0, 0⟩, alloc := a + (p :: q :: t).length } [] rfl rfl h00 hps (by simp)
    have hne1 : ¬ ((p :: q :: t).length = 1) := by simp
    simp only [hne1, ↓reduceIte, g1, bindD_ok, normG]

theorem inStep0 (ws : List W) (a : Nat) :
    InStep cur0 { ws := ws, count := ws.length, used := 0, prev := ⟨0, 0⟩, alloc := a } :=
  ⟨rfl, rfl, (by decide : ptOK (⟨0, 0⟩ : Pt Int) = true), by simp⟩

/-- The linestring loop from its start on the words of a non-empty list of lines. -/
theorem lsLoop_encLines_start (l : List (Pt Int)) (ls : List (List (Pt Int))) (c c' : Cur) (s : GD)
    (ws : List W) (f : Nat)
    (hs : InStep c s) (hl : ∀ x ∈ l :: ls, lineOK x = true) (he : encLines c (l :: ls) = .ok (c', ws))
    (hw : s.ws = ws) (hf : ws.length ≤ f) :
    (lsLoop f [] s).1 = .ok (normG (.multiLineString (l :: ls))) := by
  obtain ⟨c1, w1, h1, hlen⟩ := encLine_ok c l (hl l (by simp))
  obtain ⟨c2, w2, h2⟩ := encLines_ok ls c1 (fun x hx => hl x (by simp [hx]))
  rw [encLines_cons c c1 c2 l ls w1 w2 h1 h2] at he
  simp only [Res.ok.injEq, Prod.mk.injEq] at he
  obtain ⟨hc, hws⟩ := he
  subst hws hc
  obtain ⟨s', d1, d2, d3, d4, _, _⟩ := decodeLine_encLine_alloc c c1 s l w1 w2 hs (hl l (by simp)) h1 hw
  have hnd : s.done = false := by
    rw [GD.done, hw]; cases w1 with
    | nil => simp at hlen
    | cons _ _ => rfl
  rw [List.length_append] at hf
  cases f with
  | zero => omega
  | succ f =>
    simp only [lsLoop, hnd, d1, bindD_ok, List.isEmpty_nil, Bool.and_true, Bool.false_eq_true, ↓reduceIte]
    cases ls with
    | nil =>
      simp only [encLines, Res.ok.injEq, Prod.mk.injEq] at h2
      have hd : s'.done = true := by rw [GD.done, d3, ← h2.2]; rfl
      simp only [hd, ↓reduceIte, normG]
    | cons l2 ls2 =>
      obtain ⟨c3, w3, h3, hlen3⟩ := encLine_ok c1 l2 (hl l2 (by simp))
      obtain ⟨c4, w4, h4⟩ := encLines_ok ls2 c3 (fun x hx => hl x (by simp [hx]))
      have h2' := h2
      rw [encLines_cons c1 c3 c4 l2 ls2 w3 w4 h3 h4] at h2'
      simp only [Res.ok.injEq, Prod.mk.injEq] at h2'
      have hd : s'.done = false := by
        rw [GD.done, d3, ← h2'.2]
        cases w3 with
        | nil => simp at hlen3
        | cons _ _ => rfl
      simp only [hd, Bool.false_eq_true, ↓reduceIte, List.nil_append]
      rw [lsLoop_encLines (l2 :: ls2) c1 c2 s' w2 [l] f d2 (fun x hx => hl x (by simp [hx]))
        h2 d3 (by omega) (by simp)]
      simp [normG]

/-- Decoding the words of a non-empty list of lines of the quantifier. -/
theorem decodeLines_enc (ori : List (Pt Int) → Int) (l : List (Pt Int)) (ls : List (List (Pt Int)))
    (hl : ∀ x ∈ l :: ls, lineOK x = true) (a : Nat) :
    ∃ c' ws, encLines cur0 (l :: ls) = .ok (c', ws) ∧ ws ≠ [] ∧
      (decodeGeometryIter ori tLineString ws a).1 = .ok (normG (.multiLineString (l :: ls))) := by
  obtain ⟨c', ws, he⟩ := encLines_ok (l :: ls) cur0 hl
  obtain ⟨c1, w1, h1, hlen⟩ := encLine_ok cur0 l (hl l (by simp))
  obtain ⟨c2, w2, h2⟩ := encLines_ok ls c1 (fun x hx => hl x (by simp [hx]))
  have hwl : 2 ≤ ws.length := by
    have he' := he
    rw [encLines_cons cur0 c1 c2 l ls w1 w2 h1 h2] at he'
    simp only [Res.ok.injEq, Prod.mk.injEq] at he'
    rw [← he'.2, List.length_append]; omega
  refine ⟨c', ws, he, ?_, ?_⟩
  · intro h; rw [h] at hwl; simp at hwl
  unfold decodeGeometryIter
  simp only
  rw [if_neg (show ¬ (ws.length < 2) by omega), if_neg (by decide), if_pos trivial]
  exact lsLoop_encLines_start l ls cur0 c' _ ws ws.length (inStep0 ws a) hl he rfl (Nat.le_refl _)

/-- Round trip of the non-polygon kinds, from any value of the allocation counter. -/
theorem roundtrip_lines (ori : List (Pt Int) → Int) (g : Geom Int) (h : geomWF g = true)
    (hk : match g with
      | .point _ | .multiPoint _ | .lineString _ | .multiLineString _ => True
      | _ => False) (a : Nat) :
    ∃ t ws, encodeGeometry g = .ok (t, ws) ∧ ws ≠ [] ∧
      (decodeGeometryIter ori t ws a).1 = .ok (normG g) := by
  cases g with
  | point p =>
    refine ⟨tPoint, (moveTo cur0 [p]).2, rfl, by simp [moveTo], ?_⟩
    simp only [geomWF] at h
    exact decodePoint_enc ori [p] (by simp) (by simpa using h) (by simp) a
  | multiPoint ps =>
    simp only [geomWF, Bool.and_eq_true, Bool.not_eq_true', List.all_eq_true, decide_eq_true_eq] at h
    refine ⟨tPoint, (moveTo cur0 ps).2, rfl, by simp [moveTo], ?_⟩
    exact decodePoint_enc ori ps (by intro h0; simp [h0] at h) h.1.2 h.2 a
  | lineString l =>
    simp only [geomWF] at h
    obtain ⟨c', ws, h1, h2, h3⟩ := decodeLines_enc ori l [] (by simpa using h) a
    obtain ⟨c1, w1, e1, _⟩ := encLine_ok cur0 l h
    have : ws = w1 := by
      rw [encLines_cons cur0 c1 c1 l [] w1 [] e1 rfl] at h1
      simp at h1; exact h1.2.symm
    subst this
    refine ⟨tLineString, ws, by simp [encodeGeometry, e1, Res.map], h2, ?_⟩
    rw [h3]; rfl
  | multiLineString ls =>
    simp only [geomWF, Bool.and_eq_true, Bool.not_eq_true', List.all_eq_true] at h
    cases ls with
    | nil => simp at h
    | cons l ls =>
      obtain ⟨c', ws, h1, h2, h3⟩ := decodeLines_enc ori l ls h.2 a
      exact ⟨tLineString, ws, by simp [encodeGeometry, h1, Res.map], h2, h3⟩
  | ring _ => exact hk.elim
  | polygon _ => exact hk.elim
  | multiPolygon _ => exact hk.elim
  | bound _ _ => exact hk.elim
  | collection _ => exact hk.elim
end Orb.MVT
