/-
  C02 / C05 (GeoJSON share) — witnesses of the defects on the pinned tree and the part of
  totality that holds.  Re-exported by OrbProofs/C02.lean.
-/
import OrbProofs.C02Lemmas

namespace Orb.GeoJSON
open Orb

/-! ### witnesses (closed terms, checked by evaluation in the kernel) -/

/-- `{"type":"GeometryCollection","geometries":[null]}` -/
def nullMemberDoc : Json :=
  .obj [("type", .str "GeometryCollection"), ("geometries", .arr [.null])]

theorem nested_empty_doc' (c : Codec) :
    geomDoc c (.val (.collection [.collection []])) = nullMemberDoc := by
  cases c <;> rfl

theorem null_member_rejected' (c : Codec) : geomOfDoc c nullMemberDoc = .err .invalid := by
  cases c <;> rfl

theorem feature_null_member_rejected' (c : Codec) :
    featureOfDoc c false (.obj [("type", .str "Feature"), ("geometry", nullMemberDoc)]) = .err .invalid := by
  cases c <;> rfl

theorem feature_padded_null' : (featureOfDoc .json false .null).isOk = true := by decide

theorem empty_collection_rejected' :
    geomOfDoc .json (geomDoc .json (.val (.collection []))) = .err .invalid := by rfl

theorem empty_collection_rejected_bson' :
    geomOfDoc .bson (geomDoc .bson (.val (.collection []))) = .err .invalid := by rfl

theorem geom_roundtrip_full_false' :
    ¬ ∀ g : G, finiteG g = true → geomOfDoc .json (geomDoc .json (.val g)) = .ok (canonV (.val g)) := by
  intro h
  have := h (.collection []) (by decide)
  rw [empty_collection_rejected'] at this
  cases this

theorem bson_empty_coordinates' :
    geomDoc .bson (.val (.multiPoint [])) = .obj [("type", .str "MultiPoint")] ∧
    geomOfDoc .bson (geomDoc .bson (.val (.multiPoint []))) = .err .json := ⟨rfl, rfl⟩

/-! ### totality: no decoder panics, whatever the document -/

/-- the coordinate decoders return a value or an error -/
theorem coordsOf_noPanic (c : Codec) (ty : String) (j : Json) (r : R V) (h : coordsOf c ty j = some r) :
    r.isPanic = false := by
  unfold coordsOf at h
  split at h
  all_goals first
    | (simp only [Option.some.injEq] at h; subst h; split <;> rfl)
    | (simp only [Option.some.injEq] at h; subst h
       first
         | (cases sliceOf (ptOf c) j with
            | none => rfl
            | some o => cases o <;> rfl)
         | (cases sliceOf (ptsOf c) j with
            | none => rfl
            | some o => cases o <;> rfl)
         | (cases sliceOf (ptssOf c) j with
            | none => rfl
            | some o => cases o <;> rfl))
    | simp at h

theorem finishGeometry_noPanic (c : Codec) (st : GSt) : (finishGeometry c st).isPanic = false := by
  unfold finishGeometry
  split
  · rfl
  · split
    · cases st.geoms with
      | none => rfl
      | some ds => simp only; split <;> rfl
    · cases st.coords with
      | none =>
        simp only
        cases coordsOf c st.ty .null <;> rfl
      | some j =>
        simp only
        cases hk : coordsOf c st.ty j with
        | none => rfl
        | some r =>
          have := coordsOf_noPanic c st.ty j r hk
          cases r <;> simp_all [Res.isPanic]

/-- what the induction carries for a value `j`: decoding it as a geometry does not panic, nor does
    decoding it as a "geometries" array -/
def NoPanicAt (c : Codec) (j : Json) : Prop :=
  (decodeGeometry c j).isPanic = false ∧ (geomsOf c j).isPanic = false

theorem gTypeErr_noPanic (c : Codec) (st : GSt) : (gTypeErr c st).isPanic = false := by
  cases c <;> rfl

theorem gStep_noPanic (c : Codec) (k : String) (v : Json) (st : GSt) (hv : NoPanicAt c v) :
    (gStep c k v st (geomsOf c v)).isPanic = false := by
  unfold gStep
  split
  · unfold gTypeField
    split <;> first | rfl | exact gTypeErr_noPanic c st
  · split
    · rfl
    · split
      · cases v with
        | null => rfl
        | arr l =>
          simp only [gGeomsField]
          have h2 := hv.2
          revert h2
          cases geomsOf c (.arr l) <;> simp [Res.isPanic]
        | bool b => simpa [gGeomsField] using gTypeErr_noPanic c st
        | num b => simpa [gGeomsField] using gTypeErr_noPanic c st
        | str s => simpa [gGeomsField] using gTypeErr_noPanic c st
        | obj ms => simpa [gGeomsField] using gTypeErr_noPanic c st
        | bad => simpa [gGeomsField] using gTypeErr_noPanic c st
      · rfl

theorem decodeGMembers_noPanic (c : Codec) (ms : Members) (hms : ∀ kv ∈ ms, NoPanicAt c kv.2) :
    ∀ st, (decodeGMembers c ms st).isPanic = false := by
  induction ms with
  | nil => intro st; rfl
  | cons kv ms ih =>
    obtain ⟨k, v⟩ := kv
    intro st
    have hs := gStep_noPanic c k v st (hms (k, v) (by simp))
    simp only [decodeGMembers]
    cases hg : gStep c k v st (geomsOf c v) with
    | ok st1 => exact ih (fun kv hkv => hms kv (by simp [hkv])) st1
    | err e => rfl
    | panic s => rw [hg] at hs; cases hs

theorem isPanic_map {ε α β : Type} (f : α → β) (r : Res ε α) : (r.map f).isPanic = r.isPanic := by
  cases r <;> rfl

theorem gElemOf_noPanic (j : Json) (r : R DG) (h : r.isPanic = false) : (gElemOf j r).isPanic = false := by
  cases j <;> simp [gElemOf, isPanic_map, h] <;> rfl

theorem decodeGElems_noPanic (c : Codec) (l : List Json) (hl : ∀ j ∈ l, (decodeGeometry c j).isPanic = false) :
    (decodeGElems c l).isPanic = false := by
  induction l with
  | nil => rfl
  | cons j l ih =>
    have ih' := ih (fun x hx => hl x (by simp [hx]))
    have hj := gElemOf_noPanic j _ (hl j (by simp))
    simp only [decodeGElems]
    cases hd : gElemOf j (decodeGeometry c j) with
    | ok d =>
      simp only
      cases hr : decodeGElems c l with
      | ok ds => rfl
      | err e => rfl
      | panic s => rw [hr] at ih'; cases ih'
    | err e => rfl
    | panic s => rw [hd] at hj; cases hj

/-- **No geometry decoder panics.** -/
theorem noPanicAt_all (c : Codec) : ∀ j : Json, NoPanicAt c j := by
  intro j
  induction j using Json.ind with
  | hnull => cases c <;> exact ⟨rfl, rfl⟩
  | hbool b => exact ⟨rfl, rfl⟩
  | hnum b => exact ⟨rfl, rfl⟩
  | hstr s => exact ⟨rfl, rfl⟩
  | hbad => exact ⟨rfl, rfl⟩
  | harr l ih =>
    refine ⟨by cases c <;> rfl, ?_⟩
    simpa [geomsOf] using decodeGElems_noPanic c l (fun j hj => (ih j hj).1)
  | hobj ms ih =>
    refine ⟨?_, rfl⟩
    have hg := decodeGMembers_noPanic c ms (fun kv hkv => ih kv hkv) {}
    simp only [decodeGeometry]
    cases hd : decodeGMembers c ms {} with
    | ok st => exact finishGeometry_noPanic c st
    | err e => rfl
    | panic s => rw [hd] at hg; cases hg

theorem geometry_total' (c : Codec) (j : Json) :
    (geomOfDoc c j).isPanic = false ∧ (geomPtrOfDoc j).isPanic = false := by
  have hc := fun c => (noPanicAt_all c j).1
  constructor
  · simpa [geomOfDoc, isPanic_map] using hc c
  · cases j <;> first | rfl | simpa [geomPtrOfDoc, geomOfDoc, isPanic_map] using hc .json

/-! #### features -/

theorem fTypeErr_noPanic (c : Codec) (st : FSt) : (fTypeErr c st).isPanic = false := by
  cases c <;> rfl

theorem fStep_noPanic (c : Codec) (k : String) (v : Json) (st : FSt) : (fStep c k v st).isPanic = false := by
  unfold fStep
  split
  · unfold fIdField; split
    · rfl
    · split <;> first | rfl | exact fTypeErr_noPanic c st
  · split
    · unfold fTypeField; split <;> first | rfl | exact fTypeErr_noPanic c st
    · split
      · unfold fBBoxField; split <;> first | rfl | exact fTypeErr_noPanic c st
      · split
        · have hv := (noPanicAt_all c v).1
          cases v with
          | null => rfl
          | _ =>
            simp only [fGeomField]
            revert hv
            cases decodeGeometry c _ <;> simp [Res.isPanic]
        · split
          · unfold fPropsField; split
            · rfl
            · split <;> first | rfl | exact fTypeErr_noPanic c st
            · exact fTypeErr_noPanic c st
          · rfl

theorem decodeFMembers_noPanic (c : Codec) (ms : Members) :
    ∀ st, (decodeFMembers c ms st).isPanic = false := by
  induction ms with
  | nil => intro st; rfl
  | cons kv ms ih =>
    obtain ⟨k, v⟩ := kv
    intro st
    have hs := fStep_noPanic c k v st
    simp only [decodeFMembers]
    cases hg : fStep c k v st with
    | ok st1 => exact ih st1
    | err e => rfl
    | panic s => rw [hg] at hs; cases hs

theorem featureFinish_noPanic (st : FSt) : (featureFinish st).isPanic = false := by
  unfold featureFinish
  split
  · rfl
  · split
    · rfl
    · split
      · rfl
      · split <;> rfl

/-- **No feature decoder panics.** -/
theorem feature_total' (c : Codec) (rawNull : Bool) (j : Json) : (featureOfDoc c rawNull j).isPanic = false := by
  unfold featureOfDoc
  split
  · rfl
  · cases j with
    | null => cases c <;> rfl
    | obj ms =>
      have := decodeFMembers_noPanic c ms {}
      simp only
      cases hd : decodeFMembers c ms {} with
      | ok st => exact featureFinish_noPanic st
      | err e => rfl
      | panic s => rw [hd] at this; cases this
    | arr l => cases c <;> rfl
    | _ => rfl

theorem feature_ptr_total' (j : Json) : (featurePtrOfDoc j).isPanic = false := by
  cases j with
  | null => rfl
  | _ =>
    simp only [featurePtrOfDoc, isPanic_map]
    exact feature_total' .json false _

/-! #### feature collections -/

theorem decodeFeatures_noPanic (c : Codec) (l : List Json) : (decodeFeatures c l).isPanic = false := by
  induction l with
  | nil => rfl
  | cons j l ih =>
    have hj : (featureElem c j).isPanic = false := by
      cases j with
      | null => rfl
      | _ =>
        simp only [featureElem, isPanic_map]
        exact feature_total' c false _
    simp only [decodeFeatures]
    cases hf : featureElem c j with
    | ok f =>
      simp only
      cases hr : decodeFeatures c l with
      | ok fs => rfl
      | err e => rfl
      | panic s => rw [hr] at ih; cases ih
    | err e => rfl
    | panic s => rw [hf] at hj; cases hj

theorem decodeFCMap_noPanic (c : Codec) (m : Members) : (decodeFCMap c m).isPanic = false := by
  have h1 : (fcTypeOf c (lookupKey "type" m)).isPanic = false := by
    unfold fcTypeOf; split <;> first | rfl | (cases c <;> rfl)
  have h2 : (fcBBoxOf c (lookupKey "bbox" m)).isPanic = false := by
    unfold fcBBoxOf; split
    · rfl
    · split <;> rfl
  have h3 : (fcFeaturesOf c (lookupKey "features" m)).isPanic = false := by
    cases lookupKey "features" m with
    | none => rfl
    | some v =>
      cases v with
      | arr l =>
        simp only [fcFeaturesOf, isPanic_map]
        exact decodeFeatures_noPanic c l
      | _ => rfl
  have h4 : (fcExtrasOf c (m.filter fun kv => !reservedKey kv.1)).isPanic = false := by
    unfold fcExtrasOf; split
    · rfl
    · split
      · rfl
      · split <;> rfl
  unfold decodeFCMap
  revert h1 h2 h3 h4
  cases fcTypeOf c (lookupKey "type" m) <;> cases fcBBoxOf c (lookupKey "bbox" m) <;>
    cases fcFeaturesOf c (lookupKey "features" m) <;>
    cases fcExtrasOf c (m.filter fun kv => !reservedKey kv.1) <;> simp [Res.isPanic]

/-- **No feature-collection decoder panics.** -/
theorem fc_total' (c : Codec) (rawNull : Bool) (j : Json) : (fcOfDoc c rawNull j).isPanic = false := by
  unfold fcOfDoc
  split
  · rfl
  · cases j with
    | null => cases c <;> rfl
    | obj ms =>
      have := decodeFCMap_noPanic c (normKeys ms)
      simp only
      cases hd : decodeFCMap c (normKeys ms) with
      | ok fc => simp only; split <;> rfl
      | err e => rfl
      | panic s => rw [hd] at this; cases this
    | _ => rfl

theorem fc_ptr_total' (j : Json) : (fcPtrOfDoc j).isPanic = false := by
  cases j with
  | null => rfl
  | _ =>
    simp only [fcPtrOfDoc, isPanic_map]
    exact fc_total' .json false _

end Orb.GeoJSON
