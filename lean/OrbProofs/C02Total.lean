/-
  C02 / C05 (GeoJSON share) — witnesses of the defects on the pinned tree and the part of
  totality that holds.  Re-exported by OrbProofs/C02.lean.
-/
import OrbProofs.C02Lemmas

namespace Orb.GeoJSON
open Orb

/-! ### witnesses (closed terms, checked by evaluation in the kernel) -/

/-- `{"type":"GeometryCollection","geometries":[null]}` -/
def nullMemberDoc : Json :=
  .obj [("type", .str "GeometryCollection"), ("geometries", .arr [.null])]

theorem nested_empty_doc' (c : Codec) :
    geomDoc c (.val (.collection [.collection []])) = nullMemberDoc := by
  cases c <;> rfl

theorem null_member_rejected' (c : Codec) : geomOfDoc c nullMemberDoc = .err .invalid := by
  cases c <;> rfl

theorem feature_null_member_rejected' (c : Codec) :
    featureOfDoc c false (.obj [("type", .str "Feature"), ("geometry", nullMemberDoc)]) = .err .invalid := by
  cases c <;> rfl

theorem feature_padded_null' : (featureOfDoc .json false .null).isOk = true := by decide

theorem empty_collection_rejected' :
    geomOfDoc .json (geomDoc .json (.val (.collection []))) = .err .invalid := by rfl

theorem empty_collection_rejected_bson' :
    geomOfDoc .bson (geomDoc .bson (.val (.collection []))) = .err .invalid := by rfl

theorem geom_roundtrip_full_false' :
    ¬ ∀ g : G, finiteG g = true → geomOfDoc .json (geomDoc .json (.val g)) = .ok (canonV (.val g)) := by
  intro h
  have := h (.collection []) (by decide)
  rw [empty_collection_rejected'] at this
  cases this

theorem bson_empty_coordinates' :
    geomDoc .bson (.val (.multiPoint [])) = .obj [("type", .str "MultiPoint")] ∧
    geomOfDoc .bson (geomDoc .bson (.val (.multiPoint []))) = .err .json := ⟨rfl, rfl⟩

/-! ### totality: no decoder panics, whatever the document -/

/-- the coordinate decoders return a value or an error -/
theorem coordsOf_noPanic (c : Codec) (ty : String) (j : Json) (r : R V) (h : coordsOf c ty j = some r) :
    r.isPanic = false := by
  unfold coordsOf at h
  split at h
  all_goals first
    | (simp only [Option.some.injEq] at h; subst h; split <;> rfl)
    | (simp only [Option.some.injEq] at h; subst h
       first
         | (cases sliceOf (ptOf c) j with
            | none => rfl
            | some o => cases o <;> rfl)
         | (cases sliceOf (ptsOf c) j with
            | none => rfl
            | some o => cases o <;> rfl)
         | (cases sliceOf (ptssOf c) j with
            | none => rfl
            | some o => cases o <;> rfl))
    | simp at h

/-- THE CHECK COVERS THE DEREFERENCE: when no member is a nil pointer, `Geometry()` over the
    members does not panic.  (With `hasNilMember ms = true` it does: `membersGeometry_nil_panics`.) -/
theorem membersGeometry_noPanic (ms : List (Option DG)) (h : hasNilMember ms = false) :
    (membersGeometry ms).isPanic = false := by
  induction ms with
  | nil => rfl
  | cons m ms ih =>
    cases m with
    | none => simp [hasNilMember] at h
    | some d =>
      have := ih (by simpa [hasNilMember] using h)
      simp only [membersGeometry, memberGeometry]
      revert this
      cases membersGeometry ms <;> simp [Res.isPanic]

/-- … and without the check the dereference is reached: a nil member panics -/
theorem membersGeometry_nil_panics (ms : List (Option DG)) (h : hasNilMember ms = true) :
    (membersGeometry ms).isPanic = true := by
  induction ms with
  | nil => simp [hasNilMember] at h
  | cons m ms ih =>
    cases m with
    | none => rfl
    | some d =>
      have := ih (by simpa [hasNilMember] using h)
      simp only [membersGeometry, memberGeometry]
      revert this
      cases membersGeometry ms <;> simp [Res.isPanic]

theorem finishGeometry_noPanic (c : Codec) (st : GSt) : (finishGeometry c st).isPanic = false := by
  unfold finishGeometry
  split
  · rfl
  · split
    · cases st.geoms with
      | none => rfl
      | some ds =>
        simp only
        split
        · rfl
        · rename_i hn
          have := membersGeometry_noPanic ds (by simpa using hn)
          revert this
          cases membersGeometry ds <;> simp [Res.isPanic]
    · cases st.coords with
      | none =>
        simp only
        cases coordsOf c st.ty .null <;> rfl
      | some j =>
        simp only
        cases hk : coordsOf c st.ty j with
        | none => rfl
        | some r =>
          have := coordsOf_noPanic c st.ty j r hk
          cases r <;> simp_all [Res.isPanic]

/-- what the induction carries for a value `j`: decoding it as a geometry does not panic, nor does
    decoding it as a "geometries" array -/
def NoPanicAt (c : Codec) (j : Json) : Prop :=
  (decodeGeometry c j).isPanic = false ∧ (geomsOf c j).isPanic = false

theorem gTypeErr_noPanic (c : Codec) (st : GSt) : (gTypeErr c st).isPanic = false := by
  cases c <;> rfl

theorem gStep_noPanic (c : Codec) (k : String) (v : Json) (st : GSt) (hv : NoPanicAt c v) :
    (gStep c k v st (geomsOf c v)).isPanic = false := by
  unfold gStep
  split
  · unfold gTypeField
    split <;> first | rfl | exact gTypeErr_noPanic c st
  · split
    · rfl
    · split
      · cases v with
        | null => rfl
        | arr l =>
          simp only [gGeomsField]
          have h2 := hv.2
          revert h2
          cases geomsOf c (.arr l) <;> simp [Res.isPanic]
        | bool b => simpa [gGeomsField] using gTypeErr_noPanic c st
        | num b => simpa [gGeomsField] using gTypeErr_noPanic c st
        | str s => simpa [gGeomsField] using gTypeErr_noPanic c st
        | obj ms => simpa [gGeomsField] using gTypeErr_noPanic c st
        | bad => simpa [gGeomsField] using gTypeErr_noPanic c st
      · rfl

theorem decodeGMembers_noPanic (c : Codec) (ms : Members) (hms : ∀ kv ∈ ms, NoPanicAt c kv.2) :
    ∀ st, (decodeGMembers c ms st).isPanic = false := by
  induction ms with
  | nil => intro st; rfl
  | cons kv ms ih =>
    obtain ⟨k, v⟩ := kv
    intro st
    have hs := gStep_noPanic c k v st (hms (k, v) (by simp))
    simp only [decodeGMembers]
    cases hg : gStep c k v st (geomsOf c v) with
    | ok st1 => exact ih (fun kv hkv => hms kv (by simp [hkv])) st1
    | err e => rfl
    | panic s => rw [hg] at hs; cases hs

theorem isPanic_map {ε α β : Type} (f : α → β) (r : Res ε α) : (r.map f).isPanic = r.isPanic := by
  cases r <;> rfl

theorem gElemOf_noPanic (j : Json) (r : R DG) (h : r.isPanic = false) : (gElemOf j r).isPanic = false := by
  cases j <;> simp [gElemOf, isPanic_map, h] <;> rfl

theorem decodeGElems_noPanic (c : Codec) (l : List Json) (hl : ∀ j ∈ l, (decodeGeometry c j).isPanic = false) :
    (decodeGElems c l).isPanic = false := by
  induction l with
  | nil => rfl
  | cons j l ih =>
    have ih' := ih (fun x hx => hl x (by simp [hx]))
    have hj := gElemOf_noPanic j _ (hl j (by simp))
    simp only [decodeGElems]
    cases hd : gElemOf j (decodeGeometry c j) with
    | ok d =>
      simp only
      cases hr : decodeGElems c l with
      | ok ds => rfl
      | err e => rfl
      | panic s => rw [hr] at ih'; cases ih'
    | err e => rfl
    | panic s => rw [hd] at hj; cases hj

/-- **No geometry decoder panics.** -/
theorem noPanicAt_all (c : Codec) : ∀ j : Json, NoPanicAt c j := by
  intro j
  induction j using Json.ind with
  | hnull => cases c <;> exact ⟨rfl, rfl⟩
  | hbool b => exact ⟨rfl, rfl⟩
  | hnum b => exact ⟨rfl, rfl⟩
  | hstr s => exact ⟨rfl, rfl⟩
  | hbad => exact ⟨rfl, rfl⟩
  | harr l ih =>
    refine ⟨by cases c <;> rfl, ?_⟩
    simpa [geomsOf] using decodeGElems_noPanic c l (fun j hj => (ih j hj).1)
  | hobj ms ih =>
    refine ⟨?_, rfl⟩
    have hg := decodeGMembers_noPanic c ms (fun kv hkv => ih kv hkv) {}
    simp only [decodeGeometry]
    cases hd : decodeGMembers c ms {} with
    | ok st => exact finishGeometry_noPanic c st
    | err e => rfl
    | panic s => rw [hd] at hg; cases hg

theorem geometry_total' (c : Codec) (j : Json) :
    (geomOfDoc c j).isPanic = false ∧ (geomPtrOfDoc j).isPanic = false := by
  have hc := fun c => (noPanicAt_all c j).1
  constructor
  · simpa [geomOfDoc, isPanic_map] using hc c
  · cases j <;> first | rfl | simpa [geomPtrOfDoc, geomOfDoc, isPanic_map] using hc .json

/-! #### features -/

theorem fTypeErr_noPanic (c : Codec) (st : FSt) : (fTypeErr c st).isPanic = false := by
  cases c <;> rfl

theorem fStep_noPanic (c : Codec) (k : String) (v : Json) (st : FSt) : (fStep c k v st).isPanic = false := by
  unfold fStep
  split
  · unfold fIdField; split
    · rfl
    · split <;> first | rfl | exact fTypeErr_noPanic c st
  · split
    · unfold fTypeField; split <;> first | rfl | exact fTypeErr_noPanic c st
    · split
      · unfold fBBoxField; split <;> first | rfl | exact fTypeErr_noPanic c st
      · split
        · have hv := (noPanicAt_all c v).1
          cases v with
          | null => rfl
          | _ =>
            simp only [fGeomField]
            revert hv
            cases decodeGeometry c _ <;> simp [Res.isPanic]
        · split
          · unfold fPropsField; split
            · rfl
            · split <;> first | rfl | exact fTypeErr_noPanic c st
            · exact fTypeErr_noPanic c st
          · rfl

theorem decodeFMembers_noPanic (c : Codec) (ms : Members) :
    ∀ st, (decodeFMembers c ms st).isPanic = false := by
  induction ms with
  | nil => intro st; rfl
  | cons kv ms ih =>
    obtain ⟨k, v⟩ := kv
    intro st
    have hs := fStep_noPanic c k v st
    simp only [decodeFMembers]
    cases hg : fStep c k v st with
    | ok st1 => exact ih st1
    | err e => rfl
    | panic s => rw [hg] at hs; cases hs

theorem featureFinish_noPanic (st : FSt) : (featureFinish st).isPanic = false := by
  unfold featureFinish
  split
  · rfl
  · split
    · rfl
    · split
      · rfl
      · -- `doc.Geometry != nil` has been checked: the dereference finds a pointer
        rename_i hg
        cases hgeom : st.geom with
        | none => simp [hgeom] at hg
        | some d => simp only [derefGeometry]; split <;> rfl

theorem featureDocPtr_noPanic (c : Codec) (j : Json) : (featureDocPtr c j).isPanic = false := by
  cases j with
  | obj ms => simpa [featureDocPtr, isPanic_map] using decodeFMembers_noPanic c ms {}
  | _ => cases c <;> rfl

/-- `bson.Unmarshal(data, &doc)` never leaves `doc` nil: `UnmarshalBSON` can do without the
    `doc == nil` check that `UnmarshalJSON` needs -/
theorem featureDocPtr_bson_ne_nil (j : Json) : featureDocPtr .bson j ≠ .ok none := by
  cases j with
  | obj ms => simp only [featureDocPtr]; cases decodeFMembers .bson ms {} <;> simp [Res.map]
  | _ => simp [featureDocPtr]

/-- **No feature decoder panics**: the `doc == nil` check of `UnmarshalJSON` (json), resp. the
    impossibility of a nil `doc` (bson), stands before `doc.Type`. -/
theorem feature_total' (c : Codec) (rawNull : Bool) (j : Json) : (featureOfDoc c rawNull j).isPanic = false := by
  unfold featureOfDoc
  split
  · rfl
  · have hp := featureDocPtr_noPanic c j
    cases hd : featureDocPtr c j with
    | err e => rfl
    | panic s => rw [hd] at hp; cases hp
    | ok p =>
      simp only
      cases p with
      | some st => simpa [featureFinishPtr] using featureFinish_noPanic st
      | none =>
        cases c with
        | json => simp [Res.isPanic]
        | bson => exact absurd hd (featureDocPtr_bson_ne_nil j)

/-- without the `doc == nil` check the dereference is reached -/
theorem featureFinishPtr_nil_panics : (featureFinishPtr none).isPanic = true := rfl

theorem feature_ptr_total' (j : Json) : (featurePtrOfDoc j).isPanic = false := by
  cases j with
  | null => rfl
  | _ =>
    simp only [featurePtrOfDoc, isPanic_map]
    exact feature_total' .json false _

/-! #### feature collections -/

theorem decodeFeatures_noPanic (c : Codec) (l : List Json) : (decodeFeatures c l).isPanic = false := by
  induction l with
  | nil => rfl
  | cons j l ih =>
    have hj : (featureElem c j).isPanic = false := by
      cases j with
      | null => rfl
      | _ =>
        simp only [featureElem, isPanic_map]
        exact feature_total' c false _
    simp only [decodeFeatures]
    cases hf : featureElem c j with
    | ok f =>
      simp only
      cases hr : decodeFeatures c l with
      | ok fs => rfl
      | err e => rfl
      | panic s => rw [hr] at ih; cases ih
    | err e => rfl
    | panic s => rw [hf] at hj; cases hj

theorem decodeFCMap_noPanic (c : Codec) (m : Members) : (decodeFCMap c m).isPanic = false := by
  have h1 : (fcTypeOf c (lookupKey "type" m)).isPanic = false := by
    unfold fcTypeOf; split <;> first | rfl | (cases c <;> rfl)
  have h2 : (fcBBoxOf c (lookupKey "bbox" m)).isPanic = false := by
    unfold fcBBoxOf; split
    · rfl
    · split <;> rfl
  have h3 : (fcFeaturesOf c (lookupKey "features" m)).isPanic = false := by
    cases lookupKey "features" m with
    | none => rfl
    | some v =>
      cases v with
      | arr l =>
        simp only [fcFeaturesOf, isPanic_map]
        exact decodeFeatures_noPanic c l
      | _ => rfl
  have h4 : (fcExtrasOf c (m.filter fun kv => !reservedKey kv.1)).isPanic = false := by
    unfold fcExtrasOf; split
    · rfl
    · split
      · rfl
      · split <;> rfl
  unfold decodeFCMap
  revert h1 h2 h3 h4
  cases fcTypeOf c (lookupKey "type" m) <;> cases fcBBoxOf c (lookupKey "bbox" m) <;>
    cases fcFeaturesOf c (lookupKey "features" m) <;>
    cases fcExtrasOf c (m.filter fun kv => !reservedKey kv.1) <;> simp [Res.isPanic]

/-- **No feature-collection decoder panics.** -/
theorem fc_total' (c : Codec) (rawNull : Bool) (j : Json) : (fcOfDoc c rawNull j).isPanic = false := by
  unfold fcOfDoc
  split
  · rfl
  · cases j with
    | null => cases c <;> rfl
    | obj ms =>
      have := decodeFCMap_noPanic c (normKeys ms)
      simp only
      cases hd : decodeFCMap c (normKeys ms) with
      | ok fc => simp only; split <;> rfl
      | err e => rfl
      | panic s => rw [hd] at this; cases this
    | _ => rfl

theorem fc_ptr_total' (j : Json) : (fcPtrOfDoc j).isPanic = false := by
  cases j with
  | null => rfl
  | _ =>
    simp only [fcPtrOfDoc, isPanic_map]
    exact fc_total' .json false _

end Orb.GeoJSON
