/-
  C02 / C05 (GeoJSON share) — witnesses of the defects on the pinned tree and the part of
  totality that holds.  Re-exported by OrbProofs/C02.lean.
-/
import OrbProofs.C02Lemmas

namespace Orb.GeoJSON
open Orb

/-! ### witnesses (closed terms, checked by evaluation in the kernel) -/

/-- `{"type":"GeometryCollection","geometries":[null]}` -/
def nullMemberDoc : Json :=
  .obj [("type", .str "GeometryCollection"), ("geometries", .arr [.null])]

theorem nested_empty_doc' (c : Codec) :
    geomDoc c (.val (.collection [.collection []])) = nullMemberDoc := by
  cases c <;> rfl

theorem null_member_panics' (c : Codec) : (geomOfDoc c nullMemberDoc).isPanic = true := by
  cases c <;> decide

theorem null_member_panics_ptr' : (geomPtrOfDoc nullMemberDoc).isPanic = true := by decide

theorem feature_null_member_panics' (c : Codec) :
    (featureOfDoc c false (.obj [("type", .str "Feature"), ("geometry", nullMemberDoc)])).isPanic = true := by
  cases c <;> decide

theorem fc_null_member_panics' (c : Codec) :
    (fcOfDoc c false (.obj [("type", .str "FeatureCollection"),
      ("features", .arr [.obj [("type", .str "Feature"), ("geometry", nullMemberDoc)]])])).isPanic = true := by
  cases c <;> decide

theorem feature_padded_null_panics' : (featureOfDoc .json false .null).isPanic = true := by decide

theorem empty_collection_rejected' :
    geomOfDoc .json (geomDoc .json (.val (.collection []))) = .err .invalid := by rfl

theorem empty_collection_rejected_bson' :
    geomOfDoc .bson (geomDoc .bson (.val (.collection []))) = .err .invalid := by rfl

theorem geom_roundtrip_full_false' :
    ¬ ∀ g : G, finiteG g = true → geomOfDoc .json (geomDoc .json (.val g)) = .ok (canonV (.val g)) := by
  intro h
  have := h (.collection []) (by decide)
  rw [empty_collection_rejected'] at this
  cases this

theorem bson_empty_coordinates' :
    geomDoc .bson (.val (.multiPoint [])) = .obj [("type", .str "MultiPoint")] ∧
    geomOfDoc .bson (geomDoc .bson (.val (.multiPoint []))) = .err .json := ⟨rfl, rfl⟩

/-! ### the part of totality that holds on the pinned tree: documents without a `null` array element -/

def isNull : Json → Bool
  | .null => true
  | _ => false

mutual
/-- no array of the document has a `null` element -/
def noNullElem : Json → Bool
  | .arr l => noNullElems l
  | .obj ms => noNullMembers ms
  | _ => true
def noNullElems : List Json → Bool
  | [] => true
  | j :: js => !isNull j && noNullElem j && noNullElems js
def noNullMembers : Members → Bool
  | [] => true
  | (_, v) :: ms => noNullElem v && noNullMembers ms
end

theorem noNullElems_iff (l : List Json) :
    noNullElems l = true ↔ ∀ j ∈ l, isNull j = false ∧ noNullElem j = true := by
  induction l with
  | nil => simp [noNullElems]
  | cons j l ih => simp [noNullElems, ih, and_assoc]

theorem noNullMembers_iff (ms : Members) :
    noNullMembers ms = true ↔ ∀ kv ∈ ms, noNullElem kv.2 = true := by
  induction ms with
  | nil => simp [noNullMembers]
  | cons kv ms ih => obtain ⟨k, v⟩ := kv; simp [noNullMembers, ih]

/-- the coordinate decoders return a value or an error -/
theorem coordsOf_noPanic (c : Codec) (ty : String) (j : Json) (r : R V) (h : coordsOf c ty j = some r) :
    r.isPanic = false := by
  unfold coordsOf at h
  split at h
  all_goals first
    | (simp only [Option.some.injEq] at h; subst h; split <;> rfl)
    | (simp only [Option.some.injEq] at h; subst h
       first
         | (cases sliceOf (ptOf c) j with
            | none => rfl
            | some o => cases o <;> rfl)
         | (cases sliceOf (ptsOf c) j with
            | none => rfl
            | some o => cases o <;> rfl)
         | (cases sliceOf (ptssOf c) j with
            | none => rfl
            | some o => cases o <;> rfl))
    | simp at h

/-- the invariant of the struct decode: the decoded "geometries" have no nil pointer -/
def GoodSt (st : GSt) : Prop := ∀ ds, st.geoms = some ds → hasNilMember ds = false

theorem finishGeometry_noPanic (c : Codec) (st : GSt) (h : GoodSt st) :
    (finishGeometry c st).isPanic = false := by
  unfold finishGeometry
  split
  · rfl
  · split
    · cases hg : st.geoms with
      | none => rfl
      | some ds => simp [h ds hg]; rfl
    · cases st.coords with
      | none =>
        simp only
        cases coordsOf c st.ty .null <;> rfl
      | some j =>
        simp only
        cases hk : coordsOf c st.ty j with
        | none => rfl
        | some r =>
          have := coordsOf_noPanic c st.ty j r hk
          cases r <;> simp_all [Res.isPanic]

/-- what the induction carries for a value `j`: decoding it as a geometry does not panic, and
    decoding it as a "geometries" array does not panic and yields no nil pointer -/
def NoPanicAt (c : Codec) (j : Json) : Prop :=
  (decodeGeometry c j).isPanic = false ∧ (geomsOf c j).isPanic = false ∧
    ∀ ds, geomsOf c j = .ok ds → hasNilMember ds = false

theorem gTypeErr_cases (c : Codec) (st : GSt) :
    gTypeErr c st = .ok { st with saved := true } ∨ gTypeErr c st = .err .json := by
  cases c <;> simp [gTypeErr]

theorem gStep_good (c : Codec) (k : String) (v : Json) (st : GSt) (hst : GoodSt st) (hv : NoPanicAt c v) :
    (gStep c k v st (geomsOf c v)).isPanic = false ∧
      ∀ st', gStep c k v st (geomsOf c v) = .ok st' → GoodSt st' := by
  unfold gStep
  split
  · -- type
    unfold gTypeField
    split
    · exact ⟨rfl, fun st' h => by cases h; exact hst⟩
    · exact ⟨rfl, fun st' h => by cases h; exact hst⟩
    · rcases gTypeErr_cases c st with h | h <;> rw [h]
      · exact ⟨rfl, fun st' h => by cases h; exact hst⟩
      · exact ⟨rfl, fun st' h => by cases h⟩
  · split
    · exact ⟨rfl, fun st' h => by cases h; exact hst⟩
    · split
      · -- geometries
        obtain ⟨_, h2, h3⟩ := hv
        have hte : (gTypeErr c st).isPanic = false ∧ ∀ st', gTypeErr c st = .ok st' → GoodSt st' := by
          rcases gTypeErr_cases c st with h | h <;> rw [h]
          · exact ⟨rfl, fun st' h => by cases h; exact hst⟩
          · exact ⟨rfl, fun st' h => by cases h⟩
        cases v with
        | null => exact ⟨rfl, fun st' h => by cases h; intro ds hds; cases hds⟩
        | arr l =>
          simp only [gGeomsField]
          cases hg : geomsOf c (.arr l) with
          | ok ds =>
            refine ⟨rfl, fun st' h => ?_⟩
            cases h
            intro ds' hds'
            cases hds'
            exact h3 ds hg
          | err e => exact ⟨rfl, fun st' h => by cases h⟩
          | panic s => rw [hg] at h2; cases h2
        | bool b => simpa [gGeomsField] using hte
        | num b => simpa [gGeomsField] using hte
        | str s => simpa [gGeomsField] using hte
        | obj ms => simpa [gGeomsField] using hte
      · exact ⟨rfl, fun st' h => by cases h; exact hst⟩

theorem decodeGMembers_good (c : Codec) (ms : Members) (hms : ∀ kv ∈ ms, NoPanicAt c kv.2) :
    ∀ st, GoodSt st → (decodeGMembers c ms st).isPanic = false ∧
      ∀ st', decodeGMembers c ms st = .ok st' → GoodSt st' := by
  induction ms with
  | nil => intro st hst; exact ⟨rfl, fun st' h => by cases h; exact hst⟩
  | cons kv ms ih =>
    obtain ⟨k, v⟩ := kv
    intro st hst
    have hs := gStep_good c k v st hst (hms (k, v) (by simp))
    simp only [decodeGMembers]
    cases hg : gStep c k v st (geomsOf c v) with
    | ok st1 => exact ih (fun kv hkv => hms kv (by simp [hkv])) st1 (hs.2 st1 hg)
    | err e => exact ⟨rfl, fun st' h => by cases h⟩
    | panic s => rw [hg] at hs; cases hs.1

theorem decodeGElems_good (c : Codec) (l : List Json)
    (hl : ∀ j ∈ l, isNull j = false ∧ (decodeGeometry c j).isPanic = false) :
    (decodeGElems c l).isPanic = false ∧ ∀ ds, decodeGElems c l = .ok ds → hasNilMember ds = false := by
  induction l with
  | nil => exact ⟨rfl, fun ds h => by cases h; rfl⟩
  | cons j l ih =>
    obtain ⟨hn, hp⟩ := hl j (by simp)
    have ih' := ih (fun x hx => hl x (by simp [hx]))
    have hj : gElemOf j (decodeGeometry c j) = (decodeGeometry c j).map some :=
      gElemOf_ne_null j _ (by rintro rfl; simp [isNull] at hn)
    simp only [decodeGElems, hj]
    cases hd : decodeGeometry c j with
    | ok d =>
      simp only [Res.map]
      cases hr : decodeGElems c l with
      | ok ds =>
        refine ⟨rfl, fun ds' h => ?_⟩
        cases h
        simpa [hasNilMember] using ih'.2 ds hr
      | err e => exact ⟨rfl, fun ds' h => by cases h⟩
      | panic s => rw [hr] at ih'; cases ih'.1
    | err e => exact ⟨rfl, fun ds' h => by cases h⟩
    | panic s => rw [hd] at hp; cases hp

/-- **No geometry decoder panics on a document without `null` array elements.** -/
theorem noPanicAt_of_noNull (c : Codec) : ∀ j : Json, noNullElem j = true → NoPanicAt c j := by
  intro j
  induction j using Json.ind with
  | hnull => intro _; cases c <;> exact ⟨rfl, rfl, fun ds h => by cases h; rfl⟩
  | hbool b => intro _; exact ⟨rfl, rfl, fun ds h => by cases h; rfl⟩
  | hnum b => intro _; exact ⟨rfl, rfl, fun ds h => by cases h; rfl⟩
  | hstr s => intro _; exact ⟨rfl, rfl, fun ds h => by cases h; rfl⟩
  | harr l ih =>
    intro h
    have hl := (noNullElems_iff l).1 (by simpa [noNullElem] using h)
    have := decodeGElems_good c l (fun j hj => ⟨(hl j hj).1, (ih j hj (hl j hj).2).1⟩)
    refine ⟨by cases c <;> rfl, ?_, ?_⟩
    · simpa [geomsOf] using this.1
    · simpa [geomsOf] using this.2
  | hobj ms ih =>
    intro h
    have hm := (noNullMembers_iff ms).1 (by simpa [noNullElem] using h)
    refine ⟨?_, rfl, fun ds h => by cases h; rfl⟩
    have hg := decodeGMembers_good c ms (fun kv hkv => ih kv hkv (hm kv hkv)) {} (by intro ds h; cases h)
    simp only [decodeGeometry]
    cases hd : decodeGMembers c ms {} with
    | ok st => exact finishGeometry_noPanic c st (hg.2 st hd)
    | err e => rfl
    | panic s => rw [hd] at hg; cases hg.1

theorem isPanic_map {ε α β : Type} (f : α → β) (r : Res ε α) : (r.map f).isPanic = r.isPanic := by
  cases r <;> rfl

theorem geometry_total_partial' (c : Codec) (j : Json) (h : noNullElem j = true) :
    (geomOfDoc c j).isPanic = false ∧ (geomPtrOfDoc j).isPanic = false := by
  have hc := fun c => (noPanicAt_of_noNull c j h).1
  constructor
  · simpa [geomOfDoc, isPanic_map] using hc c
  · cases j <;> first | rfl | simpa [geomPtrOfDoc, geomOfDoc, isPanic_map] using hc .json

/-! #### features -/

theorem fTypeErr_noPanic (c : Codec) (st : FSt) : (fTypeErr c st).isPanic = false := by
  cases c <;> rfl

theorem fStep_noPanic (c : Codec) (k : String) (v : Json) (st : FSt)
    (hv : isNull v = false → (decodeGeometry c v).isPanic = false) : (fStep c k v st).isPanic = false := by
  unfold fStep
  split
  · unfold fIdField; split <;> rfl
  · split
    · unfold fTypeField; split <;> first | rfl | exact fTypeErr_noPanic c st
    · split
      · unfold fBBoxField; split <;> first | rfl | exact fTypeErr_noPanic c st
      · split
        · cases v with
          | null => rfl
          | _ =>
            simp only [fGeomField]
            have := hv rfl
            revert this
            cases decodeGeometry c _ <;> simp [Res.isPanic]
        · split
          · unfold fPropsField; split <;> first | rfl | exact fTypeErr_noPanic c st
          · rfl

theorem decodeFMembers_noPanic (c : Codec) (ms : Members)
    (hms : ∀ kv ∈ ms, isNull kv.2 = false → (decodeGeometry c kv.2).isPanic = false) :
    ∀ st, (decodeFMembers c ms st).isPanic = false := by
  induction ms with
  | nil => intro st; rfl
  | cons kv ms ih =>
    obtain ⟨k, v⟩ := kv
    intro st
    have hs := fStep_noPanic c k v st (hms (k, v) (by simp))
    simp only [decodeFMembers]
    cases hg : fStep c k v st with
    | ok st1 => exact ih (fun kv hkv => hms kv (by simp [hkv])) st1
    | err e => rfl
    | panic s => rw [hg] at hs; cases hs

theorem featureFinish_noPanic (st : FSt) : (featureFinish st).isPanic = false := by
  unfold featureFinish
  split
  · rfl
  · split
    · rfl
    · split
      · rfl
      · split <;> rfl

/-- no feature decoder panics on a document without `null` array elements — unless the document is
    a white-space padded `null` handed to `UnmarshalFeature` (`feature_padded_null_panics'`) -/
theorem feature_total_partial' (c : Codec) (rawNull : Bool) (j : Json) (h : noNullElem j = true)
    (hn : rawNull = true ∨ isNull j = false ∨ c = .bson) : (featureOfDoc c rawNull j).isPanic = false := by
  unfold featureOfDoc
  split
  · rfl
  · rename_i hr
    cases j with
    | null =>
      cases c with
      | bson => rfl
      | json => rcases hn with h1 | h1 | h1 <;> simp_all [isNull]
    | obj ms =>
      have hm := (noNullMembers_iff ms).1 (by simpa [noNullElem] using h)
      have := decodeFMembers_noPanic c ms
        (fun kv hkv _ => (noPanicAt_of_noNull c kv.2 (hm kv hkv)).1) {}
      simp only
      cases hd : decodeFMembers c ms {} with
      | ok st => exact featureFinish_noPanic st
      | err e => rfl
      | panic s => rw [hd] at this; cases this
    | arr l => cases c <;> rfl
    | _ => rfl

theorem feature_ptr_total_partial' (j : Json) (h : noNullElem j = true) :
    (featurePtrOfDoc j).isPanic = false := by
  cases j with
  | null => rfl
  | _ =>
    simp only [featurePtrOfDoc, isPanic_map]
    exact feature_total_partial' .json false _ h (Or.inr (Or.inl rfl))

/-! #### feature collections -/

theorem mem_insertKeep (k : String) (v : Json) (m : Members) :
    ∀ kv ∈ insertKeep k v m, kv = (k, v) ∨ kv ∈ m := by
  induction m with
  | nil => intro kv h; simp [insertKeep] at h; exact Or.inl h
  | cons kv' m ih =>
    obtain ⟨k', v'⟩ := kv'
    intro kv h
    unfold insertKeep at h
    split at h
    · rcases List.mem_cons.1 h with h | h
      · exact Or.inl h
      · exact Or.inr h
    · split at h
      · exact Or.inr h
      · rcases List.mem_cons.1 h with h | h
        · exact Or.inr (by simp [h])
        · rcases ih kv h with h | h
          · exact Or.inl h
          · exact Or.inr (by simp [h])

theorem mem_normKeys (ms : Members) : ∀ kv ∈ normKeys ms, kv ∈ ms := by
  induction ms with
  | nil => intro kv h; cases h
  | cons kv' ms ih =>
    obtain ⟨k, v⟩ := kv'
    intro kv h
    rcases mem_insertKeep k v (normKeys ms) kv h with h | h
    · simp [h]
    · simp [ih kv h]

theorem mem_of_lookupKey (k : String) (m : Members) (v : Json) (h : lookupKey k m = some v) :
    ∃ k', (k', v) ∈ m := by
  induction m with
  | nil => cases h
  | cons kv m ih =>
    obtain ⟨k', v'⟩ := kv
    unfold lookupKey at h
    split at h
    · cases h; exact ⟨k', by simp⟩
    · obtain ⟨k'', hk⟩ := ih h; exact ⟨k'', by simp [hk]⟩

theorem decodeFeatures_noPanic (c : Codec) (l : List Json) (hl : ∀ j ∈ l, noNullElem j = true) :
    (decodeFeatures c l).isPanic = false := by
  induction l with
  | nil => rfl
  | cons j l ih =>
    have ih' := ih (fun x hx => hl x (by simp [hx]))
    have hj : (featureElem c j).isPanic = false := by
      cases j with
      | null => rfl
      | _ =>
        simp only [featureElem, isPanic_map]
        exact feature_total_partial' c false _ (hl _ (by simp)) (Or.inr (Or.inl rfl))
    simp only [decodeFeatures]
    cases hf : featureElem c j with
    | ok f =>
      simp only
      cases hr : decodeFeatures c l with
      | ok fs => rfl
      | err e => rfl
      | panic s => rw [hr] at ih'; cases ih'
    | err e => rfl
    | panic s => rw [hf] at hj; cases hj

theorem decodeFCMap_noPanic (c : Codec) (m : Members) (hm : ∀ kv ∈ m, noNullElem kv.2 = true) :
    (decodeFCMap c m).isPanic = false := by
  have h1 : (fcTypeOf c (lookupKey "type" m)).isPanic = false := by
    unfold fcTypeOf; split <;> first | rfl | (cases c <;> rfl)
  have h2 : (fcBBoxOf c (lookupKey "bbox" m)).isPanic = false := by
    unfold fcBBoxOf; split
    · rfl
    · split <;> rfl
  have h3 : (fcFeaturesOf c (lookupKey "features" m)).isPanic = false := by
    cases hl : lookupKey "features" m with
    | none => rfl
    | some v =>
      obtain ⟨k', hk⟩ := mem_of_lookupKey _ _ _ hl
      have hv := hm (k', v) hk
      cases v with
      | arr l =>
        simp only [fcFeaturesOf, isPanic_map]
        exact decodeFeatures_noPanic c l fun j hj =>
          ((noNullElems_iff l).1 (by simpa [noNullElem] using hv) j hj).2
      | _ => rfl
  have h4 : (fcExtrasOf c (m.filter fun kv => !reservedKey kv.1)).isPanic = false := by
    unfold fcExtrasOf; split
    · rfl
    · split <;> rfl
  unfold decodeFCMap
  revert h1 h2 h3 h4
  cases fcTypeOf c (lookupKey "type" m) <;> cases fcBBoxOf c (lookupKey "bbox" m) <;>
    cases fcFeaturesOf c (lookupKey "features" m) <;>
    cases fcExtrasOf c (m.filter fun kv => !reservedKey kv.1) <;> simp [Res.isPanic]

/-- no feature-collection decoder panics on a document without `null` array elements -/
theorem fc_total_partial' (c : Codec) (rawNull : Bool) (j : Json) (h : noNullElem j = true) :
    (fcOfDoc c rawNull j).isPanic = false := by
  unfold fcOfDoc
  split
  · rfl
  · cases j with
    | null => cases c <;> rfl
    | obj ms =>
      have hm := (noNullMembers_iff ms).1 (by simpa [noNullElem] using h)
      have := decodeFCMap_noPanic c (normKeys ms) (fun kv hkv => hm kv (mem_normKeys ms kv hkv))
      simp only
      cases hd : decodeFCMap c (normKeys ms) with
      | ok fc => simp only; split <;> rfl
      | err e => rfl
      | panic s => rw [hd] at this; cases this
    | _ => rfl

end Orb.GeoJSON
