/-
  C16 (region), the stitching loop uses every piece exactly once: the edges of the rings returned by
  `smartWrap` are the edges of the pieces plus walk edges along the box boundary.
-/
import OrbProofs.C16Wrap
import OrbProofs.C16RegionGeom
import Mathlib.Data.List.Perm.Basic
import Mathlib.Data.List.Nodup
import Mathlib.Data.List.Range
import Mathlib.Tactic.Linarith

set_option linter.unusedSectionVars false
set_option linter.unusedSimpArgs false
set_option linter.unusedVariables false

namespace Orb.SmartClip
open Orb Orb.Core

variable {α : Type} [Field α] [LinearOrder α] [IsStrictOrderedRing α]

/-! ### (1) walk edges lie along the boundary -/

/-- the edge lies in one closed outer half-plane -/
abbrev SS (box : Bound α) (se : Pt α × Pt α) : Prop := Clip.C16R.SameSide box se.1 se.2

def lftC (c : Int) : Bool := c == 1 || c == 5 || c == 9
def rgtC (c : Int) : Bool := c == 2 || c == 6 || c == 10
def botC (c : Int) : Bool := c == 4 || c == 5 || c == 6
def topC (c : Int) : Bool := c == 8 || c == 9 || c == 10

/-- the two codes share a bit -/
def sharesC (c c' : Int) : Bool :=
  (lftC c && lftC c') || (rgtC c && rgtC c') || (botC c && botC c') || (topC c && topC c')

theorem shares_next : ∀ o ∈ [CW, CCW], ∀ c ∈ ccwOrder,
    (match nextAt (nexts o) c with | .ok c' => sharesC c c' | _ => false) = true := by
  decide

theorem shares_self : ∀ c ∈ ccwOrder, sharesC c c = true := by decide

theorem code_lft (box : Bound α) (p : Pt α) (h : lftC (bitCodeOpen box p : Int) = true) : p.x ≤ box.lo.x := by
  by_contra hx
  have : lftC (bitCodeOpen box p : Int) = false := by
    unfold bitCodeOpen
    rw [if_neg hx]
    split_ifs <;> decide
  rw [this] at h; cases h

theorem code_rgt (box : Bound α) (p : Pt α) (h : rgtC (bitCodeOpen box p : Int) = true) : box.hi.x ≤ p.x := by
  by_contra hx
  have : rgtC (bitCodeOpen box p : Int) = false := by
    unfold bitCodeOpen
    have : ¬ p.x ≥ box.hi.x := hx
    rw [if_neg this]
    split_ifs <;> decide
  rw [this] at h; cases h

theorem code_bot (box : Bound α) (p : Pt α) (h : botC (bitCodeOpen box p : Int) = true) : p.y ≤ box.lo.y := by
  by_contra hx
  have : botC (bitCodeOpen box p : Int) = false := by
    unfold bitCodeOpen
    rw [if_neg hx]
    split_ifs <;> decide
  rw [this] at h; cases h

theorem code_top (box : Bound α) (p : Pt α) (h : topC (bitCodeOpen box p : Int) = true) : box.hi.y ≤ p.y := by
  by_contra hx
  have : topC (bitCodeOpen box p : Int) = false := by
    unfold bitCodeOpen
    have : ¬ p.y ≥ box.hi.y := hx
    rw [if_neg this]
    split_ifs <;> decide
  rw [this] at h; cases h

theorem shares_sameSide (box : Bound α) (p q : Pt α)
    (h : sharesC (bitCodeOpen box p : Int) (bitCodeOpen box q : Int) = true) : Clip.C16R.SameSide box p q := by
  unfold sharesC at h
  simp only [Bool.or_eq_true, Bool.and_eq_true] at h
  rcases h with ((h | h) | h) | h
  · exact Or.inl ⟨code_lft box p h.1, code_lft box q h.2⟩
  · exact Or.inr (Or.inl ⟨code_rgt box p h.1, code_rgt box q h.2⟩)
  · exact Or.inr (Or.inr (Or.inl ⟨code_bot box p h.1, code_bot box q h.2⟩))
  · exact Or.inr (Or.inr (Or.inr ⟨code_top box p h.1, code_top box q h.2⟩))

theorem code_mem_of_onBoundary (box : Bound α) (p : Pt α) (h : OnBoundary box p) :
    (bitCodeOpen box p : Int) ∈ ccwOrder :=
  (bitCodeOpen_memA box p).resolve_left (bitCodeOpen_onBoundaryA box p h)

theorem sameSide_self (box : Bound α) (p : Pt α) (h : OnBoundary box p) : Clip.C16R.SameSide box p p :=
  shares_sameSide box p p (shares_self _ (code_mem_of_onBoundary box p h))

/-- points whose codes follow the table: consecutive ones share a half-plane -/
theorem walk_sameSide (box : Bound α) (o : Int) (ho : o ∈ [CW, CCW]) : ∀ (cs : List Int) (ps : List (Pt α)),
    List.Forall₂ (fun c p => (bitCodeOpen box p : Int) = c ∧ c ∈ ccwOrder) cs ps →
    List.IsChain (fun a b => nextAt (nexts o) a = .ok b) cs → ∀ se ∈ Contains.chain ps, SS box se := by
  intro cs ps hfa
  induction hfa with
  | nil => intro _ se hse; simp [Contains.chain] at hse
  | @cons c p cs' ps' hcp hrest ih =>
    intro hch se hse
    cases hrest with
    | nil => simp [Contains.chain] at hse
    | @cons c2 p2 cs'' ps'' hcp2 hrest2 =>
      rw [List.isChain_cons_cons] at hch
      rw [Contains.chain, List.mem_cons] at hse
      rcases hse with rfl | hse
      · have := shares_next o ho c hcp.2
        rw [hch.1] at this
        simp only at this
        show Clip.C16R.SameSide box p p2
        apply shares_sameSide
        rw [hcp.1, hcp2.1]; exact this
      · exact ih hch.2 se hse

/-- the connecting tail `r[2:]` of the ring `aroundBound` returns for `[p, cl]`: it ends in `p`, and
    the walk from `cl` along it runs along the boundary -/
theorem rTail_walk {box : Bound α} (hb : BoxOK box) {o : Int} (ho : o = CW ∨ o = CCW) {p cl : Pt α}
    {rTail : List (Pt α)} (hp : OnBoundary box p) (hcl : OnBoundary box cl)
    (hr : (p = cl ∧ rTail = []) ∨ (p ≠ cl ∧ ∃ r, aroundBound box [p, cl] o = .ok r ∧ rTail = r.drop 2)) :
    ∃ ps, (∀ se ∈ Contains.chain (cl :: ps ++ [p]), SS box se) ∧
      ((rTail = [] ∧ ps = [] ∧ p = cl) ∨ rTail = ps ++ [p]) := by
  have hom : o ∈ [CW, CCW] := by rcases ho with rfl | rfl <;> simp
  rcases hr with ⟨h1, h2⟩ | ⟨hne, r, hr, h2⟩
  · refine ⟨[], ?_, Or.inl ⟨h2, rfl, h1⟩⟩
    intro se hse
    simp only [List.cons_append, List.nil_append, Contains.chain, List.mem_singleton] at hse
    subst hse
    subst h1
    exact sameSide_self box p hp
  · rcases aroundBound_direction' box hb [p, cl] r o p cl rfl rfl hr with ⟨_, h⟩ | ⟨hc, rfl⟩ | ⟨cs, ps, hch, _, _, hfa, rfl⟩
    · exact absurd h hne
    · refine ⟨[], ?_, Or.inr (by subst h2; rfl)⟩
      intro se hse
      simp only [List.cons_append, List.nil_append, Contains.chain, List.mem_singleton] at hse
      subst hse
      apply shares_sameSide
      show sharesC (bitCodeOpen box cl : Int) (bitCodeOpen box p : Int) = true
      rw [hc]
      exact shares_self _ (code_mem_of_onBoundary box p hp)
    · refine ⟨ps, ?_, Or.inr (by subst h2; simp)⟩
      have hfa2 : List.Forall₂ (fun c p => (bitCodeOpen box p : Int) = c ∧ c ∈ ccwOrder)
          ((bitCodeOpen box cl : Int) :: (cs ++ [(bitCodeOpen box p : Int)])) (cl :: (ps ++ [p])) := by
        refine List.Forall₂.cons ⟨rfl, code_mem_of_onBoundary box cl hcl⟩ ?_
        refine List.rel_append ?_ (List.Forall₂.cons ⟨rfl, code_mem_of_onBoundary box p hp⟩ List.Forall₂.nil)
        exact forall₂_imp_memA hfa (fun a _ b hab => ⟨hab.2, pointFor_ok_memA box a b hab.1⟩)
      exact walk_sameSide box o hom _ _ hfa2 hch

/-! ### (2) edges of stitched lists -/

theorem chain_append_last {β : Type} (cur l : List β) (cl : β) (h : cur.getLast? = some cl) :
    Contains.chain (cur ++ l) = Contains.chain cur ++ Contains.chain (cl :: l) := by
  obtain ⟨ini, rfl⟩ := List.getLast?_eq_some_iff.1 h
  rw [List.append_assoc, List.singleton_append, Contains.chain_append]

theorem chain_stitch {β : Type} (cur ps piece : List β) (cl p : β) (h : cur.getLast? = some cl)
    (hp : piece.head? = some p) :
    Contains.chain (cur ++ ps ++ piece) =
      Contains.chain cur ++ (Contains.chain (cl :: ps ++ [p]) ++ Contains.chain piece) := by
  cases piece with
  | nil => cases hp
  | cons p' rest =>
    simp only [List.head?_cons, Option.some.injEq] at hp
    subst hp
    rw [List.append_assoc, chain_append_last cur _ cl h, ← List.cons_append, Contains.chain_append]

/-! ### one iteration, with the reason for a skip -/

theorem wrapStep_cases2 {box : Bound α} {input : List (List (Pt α))} {o : Int} {n : Nat} {st : WrapSt α} {i : Nat}
    {x : List (List (List (Pt α))) ⊕ (WrapSt α × Nat)} (h : wrapStep box input o n st i = .ok x) :
    (2 * n ≤ i ∧ x = .inl st.result) ∨
    (i < 2 * n ∧ ∃ ep, st.points[i % n]? = some ep ∧
      ((x = .inr (st, i+1) ∧ (ep.used = true ∨ (ep.start = false ∧ st.current ≠ []) ∨ (ep.start = true ∧ st.current = []))) ∨
       (ep.used = false ∧ ep.start = false ∧ st.current = [] ∧ ∃ piece, input[ep.index]? = some piece ∧
          x = .inr ({ st with current := piece, first := ep.index, points := st.points.set (i % n) (usedT ep) }, i+1)) ∨
       (ep.used = false ∧ ep.start = true ∧ ∃ cf cl rTail, st.current.head? = some cf ∧ st.current.getLast? = some cl ∧
          ((ep.point = cl ∧ rTail = []) ∨
           (ep.point ≠ cl ∧ ∃ r, aroundBound box [ep.point, cl] o = .ok r ∧ rTail = r.drop 2)) ∧
          ((ep.index = st.first ∧ ep.point = cf ∧
              x = .inr ({ points := st.points.set (i % n) (usedT ep), current := [],
                          result := st.result ++ [[st.current ++ rTail]], first := st.first }, 0)) ∨
           ((ep.index ≠ st.first ∨ ep.point ≠ cf) ∧ ∃ piece, input[ep.index]? = some piece ∧ ep.otherEnd < st.points.length ∧
              x = .inr ({ points := (st.points.set (i % n) (usedT ep)).modify ep.otherEnd usedT,
                          current := st.current ++ (if rTail.isEmpty then [] else rTail.dropLast) ++ piece,
                          result := st.result, first := st.first }, ep.otherEnd + 1)))))) := by
  rw [wrapStep] at h
  by_cases h1 : i ≥ 2 * n
  · rw [if_pos h1] at h
    left; exact ⟨h1, by cases h; rfl⟩
  · rw [if_neg h1] at h
    right
    refine ⟨by omega, ?_⟩
    cases h2 : st.points[i % n]? with
    | none => rw [h2] at h; cases h
    | some ep =>
      rw [h2] at h
      refine ⟨ep, rfl, ?_⟩
      simp only [] at h
      by_cases h3 : ep.used = true
      · rw [if_pos h3] at h; left; cases h; exact ⟨rfl, Or.inl h3⟩
      · rw [if_neg h3] at h
        have hu : ep.used = false := by simpa using h3
        by_cases h4 : (!ep.start) = true
        · rw [if_pos h4] at h
          have hs : ep.start = false := by simpa using h4
          by_cases h5 : st.current.isEmpty = true
          · rw [if_pos h5] at h
            cases h6 : input[ep.index]? with
            | none => rw [h6] at h; cases h
            | some piece =>
              rw [h6] at h
              right; left
              refine ⟨hu, hs, by simpa using h5, piece, rfl, ?_⟩
              cases h; rfl
          · rw [if_neg h5] at h; left; cases h
            exact ⟨rfl, Or.inr (Or.inl ⟨hs, by simpa using h5⟩)⟩
        · rw [if_neg h4] at h
          have hs : ep.start = true := by simpa using h4
          by_cases h5 : st.current.isEmpty = true
          · rw [if_pos h5] at h; left; cases h
            exact ⟨rfl, Or.inr (Or.inr ⟨hs, by simpa using h5⟩)⟩
          · rw [if_neg h5] at h
            cases h6 : st.current.head? with
            | none => rw [h6] at h; cases h7 : st.current.getLast? <;> rw [h7] at h <;> cases h
            | some cf =>
              cases h7 : st.current.getLast? with
              | none => rw [h6, h7] at h; cases h
              | some cl =>
                rw [h6, h7] at h
                simp only [] at h
                right; right
                obtain ⟨rTail, hr, h⟩ := resBind_ok_invW h
                refine ⟨hu, hs, cf, cl, rTail, rfl, rfl, ?_, ?_⟩
                · by_cases h8 : Core.ptEq ep.point cl = true
                  · rw [if_pos h8] at hr
                    left; exact ⟨(ptEq_iff_C _ _).1 h8, by cases hr; rfl⟩
                  · rw [if_neg h8] at hr
                    right
                    obtain ⟨r, hr1, hr2⟩ := resBind_ok_invW hr
                    exact ⟨fun hh => h8 ((ptEq_iff_C _ _).2 hh), r, hr1, by cases hr2; rfl⟩
                · by_cases h8 : (ep.index == st.first && Core.ptEq ep.point cf) = true
                  · rw [if_pos h8] at h
                    have h8' := Bool.and_eq_true_iff.1 h8
                    left; exact ⟨by simpa using h8'.1, (ptEq_iff_C _ _).1 h8'.2, by cases h; rfl⟩
                  · rw [if_neg h8] at h
                    right
                    refine ⟨?_, ?_⟩
                    · by_cases hi : ep.index = st.first
                      · right; intro hh; exact h8 (Bool.and_eq_true_iff.2 ⟨by simpa using hi, (ptEq_iff_C _ _).2 hh⟩)
                      · left; exact hi
                    cases h9 : input[ep.index]? with
                    | none => rw [h9] at h; cases h
                    | some piece =>
                      rw [h9] at h
                      simp only [] at h
                      by_cases h10 : ep.otherEnd ≥ (st.points.set (i % n) { ep with used := true }).length
                      · rw [if_pos h10] at h; cases h
                      · rw [if_neg h10] at h
                        refine ⟨piece, rfl, by simpa using h10, ?_⟩
                        cases h; rfl

/-- an invariant of state and loop index preserved by every iteration holds at the exit -/
theorem wrapLoop_inv2 {box : Bound α} {input : List (List (Pt α))} {o : Int} {n : Nat} (P : WrapSt α → Nat → Prop)
    (hstep : ∀ st i st' i', P st i → wrapStep box input o n st i = .ok (.inr (st', i')) → P st' i') :
    ∀ fuel st i out, wrapLoop box input o n fuel st i = .ok out → P st i →
      ∃ stf jf, P stf jf ∧ 2 * n ≤ jf ∧ out = stf.result := by
  intro fuel
  induction fuel with
  | zero => intro st i out h; rw [wrapLoop] at h; cases h
  | succ fuel ih =>
    intro st i out h hP
    rw [wrapLoop_succ] at h
    obtain ⟨x, hx, h⟩ := resBind_ok_invW h
    cases x with
    | inl r =>
      rcases wrapStep_cases hx with ⟨hi, hr⟩ | ⟨_, ep, _, hr | ⟨_, _, _, _, hr⟩ | ⟨_, _, _, _, _, _, _, ⟨_, hr⟩ | ⟨_, _, _, hr⟩⟩⟩
      all_goals cases hr
      rw [wrapCont] at h
      cases h
      exact ⟨st, i, hP, hi, rfl⟩
    | inr p =>
      obtain ⟨st', i'⟩ := p
      rw [wrapCont] at h
      exact ih st' i' out h (hstep st i st' i' hP hx)

/-! ### (3) static facts about the endpoint slice -/

/-- the record of slot `j` after the slots in `M` have been marked as used -/
def mkU (M : List Nat) (j : Nat) (e : Endpoint α) : Endpoint α := { e with used := e.used || decide (j ∈ M) }

@[simp] theorem mkU_point (M : List Nat) (j : Nat) (e : Endpoint α) : (mkU M j e).point = e.point := rfl
@[simp] theorem mkU_start (M : List Nat) (j : Nat) (e : Endpoint α) : (mkU M j e).start = e.start := rfl
@[simp] theorem mkU_index (M : List Nat) (j : Nat) (e : Endpoint α) : (mkU M j e).index = e.index := rfl
@[simp] theorem mkU_otherEnd (M : List Nat) (j : Nat) (e : Endpoint α) : (mkU M j e).otherEnd = e.otherEnd := rfl
@[simp] theorem mkU_used (M : List Nat) (j : Nat) (e : Endpoint α) :
    (mkU M j e).used = (e.used || decide (j ∈ M)) := rfl

/-- the slice after the slots in `M` have been marked as used -/
def markL (M : List Nat) (pts : List (Endpoint α)) : List (Endpoint α) := pts.mapIdx (mkU M)

theorem markL_getElem? (M : List Nat) (pts : List (Endpoint α)) (j : Nat) :
    (markL M pts)[j]? = (pts[j]?).map (mkU M j) := by
  unfold markL; rw [List.getElem?_mapIdx]

theorem markL_length (M : List Nat) (pts : List (Endpoint α)) : (markL M pts).length = pts.length := by
  unfold markL; simp

theorem markL_some {M : List Nat} {pts : List (Endpoint α)} {j : Nat} {e : Endpoint α}
    (h : (markL M pts)[j]? = some e) : ∃ e0, pts[j]? = some e0 ∧ e = mkU M j e0 := by
  rw [markL_getElem?] at h
  cases h0 : pts[j]? with
  | none => rw [h0] at h; cases h
  | some e0 => rw [h0] at h; exact ⟨e0, rfl, by cases h; rfl⟩

theorem markL_of_some {M : List Nat} {pts : List (Endpoint α)} {j : Nat} {e0 : Endpoint α}
    (h : pts[j]? = some e0) : (markL M pts)[j]? = some (mkU M j e0) := by
  rw [markL_getElem?, h]; rfl

theorem usedT_eq (e : Endpoint α) : usedT e = { e with used := true } := rfl

theorem modify_eq_markL (pts : List (Endpoint α)) (a : Nat) : pts.modify a usedT = markL [a] pts := by
  apply List.ext_getElem?
  intro j
  rw [markL_getElem?, List.getElem?_modify]
  cases pts[j]? with
  | none => rfl
  | some e =>
    by_cases h : a = j
    · subst h; simp [mkU, usedT]
    · have : ¬ j = a := fun hh => h hh.symm
      simp [mkU, h, this]

theorem set_eq_markL {pts : List (Endpoint α)} {a : Nat} {ep : Endpoint α} (h : pts[a]? = some ep) :
    pts.set a (usedT ep) = markL [a] pts := by
  rw [← modify_eq_markL]
  apply List.ext_getElem?
  intro j
  rw [List.getElem?_set, List.getElem?_modify]
  by_cases hj : a = j
  · subst hj
    obtain ⟨hlt, hget⟩ := List.getElem?_eq_some_iff.1 h
    simp [hlt, h, hget]
  · simp [hj]

theorem set_modify_eq_markL {pts : List (Endpoint α)} {a b : Nat} {ep : Endpoint α} (h : pts[a]? = some ep) :
    (pts.set a (usedT ep)).modify b usedT = markL [a, b] pts := by
  rw [set_eq_markL h, modify_eq_markL]
  apply List.ext_getElem?
  intro j
  rw [markL_getElem?, markL_getElem?, markL_getElem?]
  cases pts[j]? with
  | none => rfl
  | some e =>
    simp only [Option.map_some, Option.some.injEq]
    simp only [mkU, List.mem_cons, List.not_mem_nil, or_false, Bool.decide_or, Bool.or_assoc]

/-- what the loop needs to know about the endpoint slice, whatever the `used` flags -/
structure Static (input : List (List (Pt α))) (pts : List (Endpoint α)) : Prop where
  len : pts.length = 2 * input.length
  links : LinksOK pts
  piece : ∀ (k : Nat) (e : Endpoint α), pts[k]? = some e → ∃ ls : List (Pt α), input[e.index]? = some ls ∧
    (if e.start then ls.head? = some e.point else ls.getLast? = some e.point)
  uniq : ∀ (j j' : Nat) (e e' : Endpoint α), pts[j]? = some e → pts[j']? = some e' → e.index = e'.index →
    e.start = e'.start → j = j'
  ex : ∀ m, m < input.length → ∃ (j : Nat) (e : Endpoint α), pts[j]? = some e ∧ e.index = m ∧ e.start = false

theorem Static.mark {input : List (List (Pt α))} {pts : List (Endpoint α)} (h : Static input pts) (M : List Nat) :
    Static input (markL M pts) := by
  refine ⟨by rw [markL_length]; exact h.len, ?_, ?_, ?_, ?_⟩
  · intro k e hk
    obtain ⟨e0, h0, rfl⟩ := markL_some hk
    obtain ⟨e', h1, h2, h3, h4⟩ := h.links k e0 h0
    exact ⟨mkU M e0.otherEnd e', markL_of_some h1, h2, h3, h4⟩
  · intro k e hk
    obtain ⟨e0, h0, rfl⟩ := markL_some hk
    exact h.piece k e0 h0
  · intro j j' e e' hj hj' hi hs
    obtain ⟨e0, h0, rfl⟩ := markL_some hj
    obtain ⟨e0', h0', rfl⟩ := markL_some hj'
    exact h.uniq j j' e0 e0' h0 h0' hi hs
  · intro m hm
    obtain ⟨j, e, hj, hi, hs⟩ := h.ex m hm
    exact ⟨j, mkU M j e, markL_of_some hj, hi, hs⟩

/-- the partner of an endpoint -/
theorem Static.partner {input : List (List (Pt α))} {pts : List (Endpoint α)} (h : Static input pts)
    {k : Nat} {e : Endpoint α} (hk : pts[k]? = some e) :
    ∃ e', pts[e.otherEnd]? = some e' ∧ e'.otherEnd = k ∧ e'.index = e.index ∧ e'.start = !e.start ∧
      e.otherEnd ≠ k ∧ e.otherEnd < pts.length := by
  obtain ⟨e', h1, h2, h3, h4⟩ := h.links k e hk
  refine ⟨e', h1, h2, h3, h4, ?_, (List.getElem?_eq_some_iff.1 h1).1⟩
  intro hh
  rw [hh, hk] at h1
  cases h1
  cases hs : e.start <;> simp [hs] at h4

/-- (piece index, start) of an endpoint -/
def isKey (e : Endpoint α) : Nat × Bool := (e.index, e.start)

def keysOf (s len : Nat) : List (Nat × Bool) := (List.range' s len).flatMap fun m => [(m, true), (m, false)]

theorem mkEndpoints_keys {box : Bound α} : ∀ (input : List (List (Pt α))) (i : Nat) (eps : List (Endpoint α)),
    mkEndpoints box i input = .ok eps → eps.map isKey = keysOf i input.length := by
  intro input
  induction input with
  | nil => intro i eps h; rw [mkEndpoints] at h; cases h; rfl
  | cons r rest ih =>
    intro i eps h
    rw [mkEndpoints] at h
    cases hf : r.head? with
    | none => rw [hf] at h; cases h
    | some f =>
      cases hl : r.getLast? with
      | none => rw [hf, hl] at h; cases h
      | some l =>
        rw [hf, hl] at h
        obtain ⟨tl, htl, h⟩ := resBind_ok_invW h
        cases h
        have := ih (i+1) tl htl
        simp only [List.map_cons, List.length_cons, keysOf, List.range'_succ, List.flatMap_cons, this]
        rfl

theorem keysOf_nodup (s len : Nat) : (keysOf s len).Nodup := by
  unfold keysOf
  rw [List.nodup_flatMap]
  constructor
  · intro m _; simp
  · have := List.nodup_range' (s := s) (n := len) 1
    refine List.Pairwise.imp ?_ this
    intro a b hab
    show List.Disjoint _ _
    intro x h1 h2
    simp only [List.mem_cons, List.not_mem_nil, or_false] at h1 h2
    rcases h1 with rfl | rfl <;> rcases h2 with h2 | h2 <;> simp only [Prod.mk.injEq] at h2 <;> exact hab h2.1

theorem sorted_static {box : Bound α} {input : List (List (Pt α))} {rev : Bool} {pts sorted : List (Endpoint α)}
    (h1 : mkEndpoints box 0 input = .ok pts) (h2 : sortE input rev pts = .ok sorted) :
    Static input sorted ∧ ∀ e ∈ sorted, e.used = false := by
  obtain ⟨hlen, hpiece⟩ := wrapSorted_facts h1 h2
  obtain ⟨eps, he, _, hlinks, hspec⟩ := mkEndpoints_spec' box input (mkEndpoints_ok_neW input 0 pts h1)
  rw [h1] at he
  cases he
  obtain ⟨hl, hperm⟩ := sortE_perm' input rev pts sorted h2
  have hkeys : (sorted.map isKey).Perm (keysOf 0 input.length) := by
    have := hperm.map (fun k : Pt α × Bool × Bool × Nat × Nat => (k.2.2.2.2, k.2.1))
    rw [List.map_map, List.map_map] at this
    rw [← mkEndpoints_keys input 0 pts h1]
    exact this
  have hnd : (sorted.map isKey).Nodup := (hkeys.nodup_iff).2 (keysOf_nodup _ _)
  refine ⟨⟨hlen, sortE_links' input rev pts sorted h2 hlinks, ?_, ?_, ?_⟩, ?_⟩
  · intro k e hk
    exact hpiece e (List.mem_of_getElem? hk)
  · intro j j' e e' hj hj' hi hs
    have hjl : j < (sorted.map isKey).length := by
      rw [List.length_map]; exact (List.getElem?_eq_some_iff.1 hj).1
    refine (List.getElem?_inj hjl hnd).1 ?_
    rw [List.getElem?_map, List.getElem?_map, hj, hj']
    simp only [Option.map_some, Option.some.injEq, isKey, Prod.mk.injEq]
    exact ⟨hi, hs⟩
  · intro m hm
    have : (m, false) ∈ sorted.map isKey := by
      refine hkeys.symm.subset ?_
      unfold keysOf
      rw [List.mem_flatMap]
      exact ⟨m, by rw [List.mem_range'_1]; omega, by simp⟩
    obtain ⟨e, he, hk⟩ := List.mem_map.1 this
    obtain ⟨j, hj⟩ := List.getElem?_of_mem he
    simp only [isKey, Prod.mk.injEq] at hk
    exact ⟨j, e, hj, hk.1, hk.2⟩
  · intro e he
    have : epKey e ∈ pts.map epKey := hperm.subset (List.mem_map_of_mem he)
    obtain ⟨e0, he0, hk⟩ := List.mem_map.1 this
    simp only [epKey, Prod.mk.injEq] at hk
    rw [← hk.2.2.1]
    exact (hspec e0 he0).1

/-! ### (4) the loop invariant -/

theorem mkU_used_of_not_mem {M : List Nat} {j : Nat} (e : Endpoint α) (h : j ∉ M) : (mkU M j e).used = e.used := by
  simp [mkU, h]

theorem mkU_used_of_mem {M : List Nat} {j : Nat} (e : Endpoint α) (h : j ∈ M) : (mkU M j e).used = true := by
  simp [mkU, h]

theorem perm_app3 {β : Type} {X A B W P : List β} (h : X.Perm (A ++ B)) :
    (X ++ (W ++ P)).Perm ((P ++ A) ++ (W ++ B)) := by
  classical
  rw [List.perm_iff_count] at h ⊢
  intro a
  have := h a
  simp only [List.count_append] at this ⊢
  omega

theorem perm_take {β : Type} {X A B P : List β} (h : X.Perm (A ++ B)) : (X ++ P).Perm ((P ++ A) ++ B) := by
  have := perm_app3 (W := []) (P := P) h
  simpa using this

theorem perm_complete {β : Type} {X A B W : List β} (h : X.Perm (A ++ B)) : (X ++ W).Perm (A ++ (W ++ B)) := by
  have := perm_app3 (W := W) (P := []) h
  simpa using this

theorem head_inj {input : List (List (Pt α))} (hnd : (input.map List.head?).Nodup) {a b : Nat} {ls ls' : List (Pt α)}
    (ha : input[a]? = some ls) (hb : input[b]? = some ls') (h : ls.head? = ls'.head?) : a = b := by
  have hal : a < (input.map List.head?).length := by
    rw [List.length_map]; exact (List.getElem?_eq_some_iff.1 ha).1
  refine (List.getElem?_inj hal hnd).1 ?_
  rw [List.getElem?_map, List.getElem?_map, ha, hb]
  simp only [Option.map_some, Option.some.injEq]
  exact h

/-- the partner has the same `used` flag -/
def PartnerSame (pts : List (Endpoint α)) (e : Endpoint α) : Prop :=
  ∃ e' : Endpoint α, pts[e.otherEnd]? = some e' ∧ e'.used = e.used

/-- the edges of the pieces with the indices in `U` -/
def EdgeSum (input : List (List (Pt α))) (U : List Nat) : List (Pt α × Pt α) :=
  U.flatMap fun m => Contains.chain (input[m]?.getD [])

/-- the edges of all rings of a result -/
def ResEdges (res : List (List (List (Pt α)))) : List (Pt α × Pt α) :=
  res.flatMap fun pg => pg.flatMap Contains.chain

/-- edge bookkeeping: `U` = the pieces consumed so far, `Wk` = the walk edges so far -/
structure EdgeInv (box : Bound α) (input : List (List (Pt α))) (st : WrapSt α) (U : List Nat)
    (Wk : List (Pt α × Pt α)) : Prop where
  wk : ∀ se ∈ Wk, SS box se
  ulen : ∀ m ∈ U, m < input.length
  und : U.Nodup
  perm : (ResEdges st.result ++ Contains.chain st.current).Perm (EdgeSum input U ++ Wk)
  uiff : ∀ (k : Nat) (e : Endpoint α), st.points[k]? = some e → e.start = false → (e.used = true ↔ e.index ∈ U)

/-- flags while no ring is under construction -/
def FlagsE (n : Nat) (st : WrapSt α) (i : Nat) : Prop :=
  st.current = [] ∧ (∀ (k : Nat) (e : Endpoint α), st.points[k]? = some e → PartnerSame st.points e) ∧
  (∀ k, k < i → ∀ e : Endpoint α, st.points[k % n]? = some e → e.start = false → e.used = true)

/-- flags while a ring is under construction: `m0` is its initial piece, whose unused start is still ahead -/
def FlagsN (input : List (List (Pt α))) (n : Nat) (st : WrapSt α) (i : Nat) : Prop :=
  ∃ (m0 k0 : Nat) (e0 : Endpoint α) (cf : Pt α) (ls0 : List (Pt α)),
    st.current.head? = some cf ∧ input[m0]? = some ls0 ∧ ls0.head? = some cf ∧ i ≤ k0 ∧ k0 < 2 * n ∧
    st.points[k0 % n]? = some e0 ∧ e0.index = m0 ∧ e0.start = true ∧ e0.used = false ∧
    (∀ (k : Nat) (e : Endpoint α), st.points[k]? = some e → e.index = m0 → e.start = false → e.used = true) ∧
    (∀ (k : Nat) (e : Endpoint α), st.points[k]? = some e → e.index ≠ m0 → PartnerSame st.points e) ∧
    st.first = m0

structure Inv (box : Bound α) (input : List (List (Pt α))) (n : Nat) (st : WrapSt α) (i : Nat) : Prop where
  stat : Static input st.points
  hn : st.points.length = n
  bdry : ∀ cl, st.current.getLast? = some cl → OnBoundary box cl
  edges : ∃ U Wk, EdgeInv box input st U Wk
  flags : FlagsE n st i ∨ FlagsN input n st i

theorem Inv_skip {box : Bound α} {input : List (List (Pt α))} {n : Nat} {st : WrapSt α} {i : Nat} {ep : Endpoint α}
    (hI : Inv box input n st i) (hep : st.points[i % n]? = some ep)
    (hr : ep.used = true ∨ (ep.start = false ∧ st.current ≠ []) ∨ (ep.start = true ∧ st.current = [])) :
    Inv box input n st (i+1) := by
  refine ⟨hI.stat, hI.hn, hI.bdry, hI.edges, ?_⟩
  rcases hI.flags with ⟨hc, hps, hs1⟩ | ⟨m0, k0, e0, cf, ls0, hcf, hls0, hh0, hik, hk2, hk0, hm0, hst0, hu0, hend, hoth, hfst⟩
  · left
    refine ⟨hc, hps, ?_⟩
    intro k hk e he hs
    rcases Nat.lt_succ_iff_lt_or_eq.1 hk with hk | rfl
    · exact hs1 k hk e he hs
    · rw [hep] at he; cases he
      rcases hr with h | ⟨_, h⟩ | ⟨h, _⟩
      · exact h
      · exact absurd hc h
      · rw [hs] at h; cases h
  · right
    refine ⟨m0, k0, e0, cf, ls0, hcf, hls0, hh0, ?_, hk2, hk0, hm0, hst0, hu0, hend, hoth, hfst⟩
    rcases Nat.lt_or_eq_of_le hik with h | rfl
    · exact h
    · exfalso
      rw [hep] at hk0; cases hk0
      rcases hr with h | ⟨h, _⟩ | ⟨_, h⟩
      · rw [hu0] at h; cases h
      · rw [hst0] at h; cases h
      · rw [h] at hcf; cases hcf

theorem Inv_take {box : Bound α} {input : List (List (Pt α))} (hp : ∀ ls ∈ input, PieceOK box ls)
    {n : Nat} {st : WrapSt α} {i : Nat} {ep : Endpoint α} {piece : List (Pt α)}
    (hI : Inv box input n st i) (hi : i < 2 * n) (hep : st.points[i % n]? = some ep)
    (hu : ep.used = false) (hs : ep.start = false) (hcur : st.current = []) (hpiece : input[ep.index]? = some piece) :
    Inv box input n { st with current := piece, first := ep.index, points := st.points.set (i % n) (usedT ep) } (i+1) := by
  obtain ⟨hstat, hn, hbd, ⟨U, Wk, hE⟩, hfl⟩ := hI
  rw [set_eq_markL hep]
  have hflE : FlagsE n st i := by
    rcases hfl with h | ⟨m0, k0, e0, cf, ls0, hcf, _⟩
    · exact h
    · rw [hcur] at hcf; cases hcf
  obtain ⟨_, hps, hs1⟩ := hflE
  have hn0 : 0 < n := by omega
  have han : i % n < n := Nat.mod_lt _ hn0
  have hpk := hp piece (List.mem_of_getElem? hpiece)
  obtain ⟨e', hq, hq_oe, hq_idx, hq_st, hq_ne, hq_lt⟩ := hstat.partner hep
  obtain ⟨e'', hq', hq_used⟩ := hps _ ep hep
  rw [hq] at hq'; cases hq'
  have hin : i < n := by
    by_contra hge
    have h1 : (i - n) % n = i % n := by
      have : i = (i - n) + n := by omega
      conv_rhs => rw [this, Nat.add_mod_right]
    have := hs1 (i - n) (by omega) ep (by rw [h1]; exact hep) hs
    rw [hu] at this; cases this
  refine ⟨hstat.mark _, by rw [markL_length]; exact hn, ?_, ?_, ?_⟩
  · intro cl hcl; exact hpk.2.2 cl hcl
  · refine ⟨ep.index :: U, Wk, hE.wk, ?_, ?_, ?_, ?_⟩
    · intro m hm
      rcases List.mem_cons.1 hm with rfl | hm
      · exact (List.getElem?_eq_some_iff.1 hpiece).1
      · exact hE.ulen m hm
    · refine List.nodup_cons.2 ⟨?_, hE.und⟩
      intro hmem
      have := (hE.uiff _ ep hep hs).2 hmem
      rw [hu] at this; cases this
    · have h0 := hE.perm
      rw [hcur] at h0
      show (ResEdges st.result ++ Contains.chain piece).Perm (EdgeSum input (ep.index :: U) ++ Wk)
      have : EdgeSum input (ep.index :: U) = Contains.chain piece ++ EdgeSum input U := by
        unfold EdgeSum; rw [List.flatMap_cons, hpiece]; rfl
      rw [this]
      have h0' : (ResEdges st.result).Perm (EdgeSum input U ++ Wk) := by simpa [Contains.chain] using h0
      exact perm_take h0'
    · intro k e hk hse
      obtain ⟨e0, hk0, rfl⟩ := markL_some hk
      rw [mkU_start] at hse
      rw [mkU_index]
      by_cases hka : k = i % n
      · subst hka; rw [hep] at hk0; cases hk0
        rw [mkU_used_of_mem _ (by simp)]
        simp
      · have h1 := hE.uiff k e0 hk0 hse
        have hne : e0.index ≠ ep.index := fun hh => hka (hstat.uniq k _ e0 ep hk0 hep hh (by rw [hse, hs]))
        rw [mkU_used_of_not_mem _ (by simpa using hka), List.mem_cons]
        constructor
        · intro h; exact Or.inr (h1.1 h)
        · rintro (h | h)
          · exact absurd h hne
          · exact h1.2 h
  · right
    have hpne : piece ≠ [] := by
      intro h; have := hpk.1; rw [h] at this; simp at this
    obtain ⟨cf, hcf⟩ : ∃ cf, piece.head? = some cf := by
      cases piece with
      | nil => exact absurd rfl hpne
      | cons x _ => exact ⟨x, rfl⟩
    have hqn : ep.otherEnd < n := by rw [← hn]; exact hq_lt
    refine ⟨ep.index, (if i + 1 ≤ ep.otherEnd then ep.otherEnd else ep.otherEnd + n), mkU [i % n] ep.otherEnd e', cf,
      piece, hcf, hpiece, hcf, ?_, ?_, ?_, hq_idx, ?_, ?_, ?_, ?_, rfl⟩
    · split_ifs <;> omega
    · split_ifs <;> omega
    · have : (if i + 1 ≤ ep.otherEnd then ep.otherEnd else ep.otherEnd + n) % n = ep.otherEnd := by
        split_ifs
        · exact Nat.mod_eq_of_lt hqn
        · rw [Nat.add_mod_right]; exact Nat.mod_eq_of_lt hqn
      rw [this]; exact markL_of_some hq
    · rw [mkU_start, hq_st, hs]; rfl
    · rw [mkU_used_of_not_mem _ (by simpa using hq_ne), hq_used, hu]
    · intro k e hk hidx hst
      obtain ⟨e0, hk0, rfl⟩ := markL_some hk
      have : k = i % n := hstat.uniq k _ e0 ep hk0 hep hidx (by rw [hs]; exact hst)
      exact mkU_used_of_mem _ (by simp [this])
    · intro k e hk hidx
      obtain ⟨e0, hk0, rfl⟩ := markL_some hk
      rw [mkU_index] at hidx
      obtain ⟨e0', hp1, _, hp3, _, _, _⟩ := hstat.partner hk0
      obtain ⟨e0'', hp1', hp2⟩ := hps k e0 hk0
      rw [hp1] at hp1'; cases hp1'
      have hka : k ≠ i % n := by
        intro hh; rw [hh, hep] at hk0; cases hk0; exact hidx rfl
      have hqa' : e0.otherEnd ≠ i % n := by
        intro hh; rw [hh, hep] at hp1; cases hp1; exact hidx hp3.symm
      refine ⟨mkU [i % n] e0.otherEnd e0', markL_of_some hp1, ?_⟩
      rw [mkU_used_of_not_mem _ (by simpa using hqa'), mkU_used_of_not_mem _ (by simpa using hka), hp2]

theorem resEdges_snoc (res : List (List (List (Pt α)))) (ring : List (Pt α)) :
    ResEdges (res ++ [[ring]]) = ResEdges res ++ Contains.chain ring := by
  unfold ResEdges; simp

theorem Inv_complete {box : Bound α} (hb : BoxOK box) {input : List (List (Pt α))} {o : Int} (ho : o = CW ∨ o = CCW)
    (hp : ∀ ls ∈ input, PieceOK box ls)
    {n : Nat} {st : WrapSt α} {i : Nat} {ep : Endpoint α} {cf cl : Pt α} {rTail : List (Pt α)}
    (hI : Inv box input n st i) (hep : st.points[i % n]? = some ep) (hfirst : ep.index = st.first)
    (hu : ep.used = false) (hs : ep.start = true)
    (hcf : st.current.head? = some cf) (hcl : st.current.getLast? = some cl)
    (hrt : (ep.point = cl ∧ rTail = []) ∨
           (ep.point ≠ cl ∧ ∃ r, aroundBound box [ep.point, cl] o = .ok r ∧ rTail = r.drop 2))
    (hpf : ep.point = cf) :
    Inv box input n { points := st.points.set (i % n) (usedT ep), current := [],
                      result := st.result ++ [[st.current ++ rTail]], first := st.first } 0 := by
  obtain ⟨hstat, hn, hbd, ⟨U, Wk, hE⟩, hfl⟩ := hI
  rw [set_eq_markL hep]
  have hflN : FlagsN input n st i := by
    rcases hfl with ⟨h, _⟩ | h
    · rw [h] at hcf; cases hcf
    · exact h
  obtain ⟨m0, k0, e0, cf', ls0, hcf', hls0, hh0, hik, hk2, hk0, hm0, hst0, hu0, hend, hoth, hfst⟩ := hflN
  rw [hcf] at hcf'; cases hcf'
  obtain ⟨ls, hls, hif⟩ := hstat.piece _ ep hep
  rw [if_pos hs] at hif
  have hidx : ep.index = m0 := hfirst.trans hfst
  have hpb : OnBoundary box ep.point := (hp ls (List.mem_of_getElem? hls)).2.1 _ hif
  have hclb := hbd cl hcl
  obtain ⟨ps, hW, hcase⟩ := rTail_walk hb ho hpb hclb hrt
  refine ⟨hstat.mark _, by rw [markL_length]; exact hn, fun cl h => (by cases h), ?_, ?_⟩
  · have huiff : ∀ (k : Nat) (e : Endpoint α), (markL [i % n] st.points)[k]? = some e → e.start = false →
        (e.used = true ↔ e.index ∈ U) := by
      intro k e hk hse
      obtain ⟨e1, hk1, rfl⟩ := markL_some hk
      have hka : k ≠ i % n := by
        intro hh; rw [hh, hep] at hk1; cases hk1; rw [mkU_start, hs] at hse; cases hse
      rw [mkU_used_of_not_mem _ (by simpa using hka)]
      exact hE.uiff k e1 hk1 hse
    rcases hcase with ⟨h1, _, _⟩ | h1
    · refine ⟨U, Wk, hE.wk, hE.ulen, hE.und, ?_, huiff⟩
      show (ResEdges (st.result ++ [[st.current ++ rTail]]) ++ Contains.chain []).Perm _
      rw [resEdges_snoc, h1, List.append_nil]
      simpa [Contains.chain] using hE.perm
    · refine ⟨U, Contains.chain (cl :: (ps ++ [ep.point])) ++ Wk, ?_, hE.ulen, hE.und, ?_, huiff⟩
      · intro se hse
        rcases List.mem_append.1 hse with h | h
        · exact hW se h
        · exact hE.wk se h
      · show (ResEdges (st.result ++ [[st.current ++ rTail]]) ++ Contains.chain []).Perm _
        rw [resEdges_snoc, h1, chain_append_last _ _ cl hcl, ← List.append_assoc]
        have : Contains.chain ([] : List (Pt α)) = [] := rfl
        rw [this, List.append_nil]
        exact perm_complete hE.perm
  · left
    refine ⟨rfl, ?_, fun k hk => absurd hk (Nat.not_lt_zero _)⟩
    intro k e hk
    obtain ⟨e1, hk1, rfl⟩ := markL_some hk
    obtain ⟨e1', hp1, hp2, hp3, hp4, hp5, _⟩ := hstat.partner hk1
    refine ⟨mkU [i % n] e1.otherEnd e1', markL_of_some hp1, ?_⟩
    by_cases hm : e1.index = m0
    · cases hst1 : e1.start with
      | true =>
        have hka : k = i % n := hstat.uniq k _ e1 ep hk1 hep (by rw [hm, hidx]) (by rw [hst1, hs])
        have h1u : e1'.used = true := hend _ e1' hp1 (by rw [hp3, hm]) (by rw [hp4, hst1]; rfl)
        rw [mkU_used_of_mem e1 (by simp [hka]), mkU_used, h1u]; rfl
      | false =>
        have h1u : e1.used = true := hend k e1 hk1 hm hst1
        have hqa : e1.otherEnd = i % n :=
          hstat.uniq _ _ e1' ep hp1 hep (by rw [hp3, hm, hidx]) (by rw [hp4, hst1, hs]; rfl)
        rw [mkU_used_of_mem e1' (by simp [hqa]), mkU_used, h1u]; rfl
    · obtain ⟨e1'', hq1, hq2⟩ := hoth k e1 hk1 hm
      rw [hp1] at hq1; cases hq1
      have hka : k ≠ i % n := by
        intro hh; rw [hh, hep] at hk1; cases hk1; exact hm hidx
      have hqa : e1.otherEnd ≠ i % n := by
        intro hh; rw [hh, hep] at hp1; cases hp1; exact hm (hp3.symm.trans hidx)
      rw [mkU_used_of_not_mem _ (by simpa using hqa), mkU_used_of_not_mem _ (by simpa using hka), hq2]

theorem Inv_append {box : Bound α} (hb : BoxOK box) {input : List (List (Pt α))} {o : Int} (ho : o = CW ∨ o = CCW)
    (hp : ∀ ls ∈ input, PieceOK box ls)
    {n : Nat} {st : WrapSt α} {i : Nat} {ep : Endpoint α} {cf cl : Pt α} {rTail piece : List (Pt α)}
    (hI : Inv box input n st i) (hi : i < 2 * n) (hep : st.points[i % n]? = some ep)
    (hu : ep.used = false) (hs : ep.start = true)
    (hcf : st.current.head? = some cf) (hcl : st.current.getLast? = some cl)
    (hrt : (ep.point = cl ∧ rTail = []) ∨
           (ep.point ≠ cl ∧ ∃ r, aroundBound box [ep.point, cl] o = .ok r ∧ rTail = r.drop 2))
    (hne : ep.index ≠ st.first ∨ ep.point ≠ cf) (hpiece : input[ep.index]? = some piece) (hoe : ep.otherEnd < st.points.length) :
    Inv box input n { points := (st.points.set (i % n) (usedT ep)).modify ep.otherEnd usedT,
                      current := st.current ++ (if rTail.isEmpty then [] else rTail.dropLast) ++ piece,
                      result := st.result, first := st.first } (ep.otherEnd + 1) := by
  obtain ⟨hstat, hn, hbd, ⟨U, Wk, hE⟩, hfl⟩ := hI
  rw [set_modify_eq_markL hep]
  have hflN : FlagsN input n st i := by
    rcases hfl with ⟨h, _⟩ | h
    · rw [h] at hcf; cases hcf
    · exact h
  obtain ⟨m0, k0, e0, cf', ls0, hcf', hls0, hh0, hik, hk2, hk0, hm0, hst0, hu0, hend, hoth, hfst⟩ := hflN
  rw [hcf] at hcf'; cases hcf'
  have hn0 : 0 < n := by omega
  obtain ⟨ls, hls, hif⟩ := hstat.piece _ ep hep
  rw [hpiece] at hls; cases hls
  rw [if_pos hs] at hif
  have hidx : ep.index ≠ m0 := by
    intro hh
    rcases hne with hne | hne
    · exact hne (hh.trans hfst.symm)
    · rw [hh, hls0] at hpiece; cases hpiece
      rw [hh0] at hif; cases hif; exact hne rfl
  have hpk := hp piece (List.mem_of_getElem? hpiece)
  have hpb : OnBoundary box ep.point := hpk.2.1 _ hif
  have hclb := hbd cl hcl
  obtain ⟨ps, hW, hcase⟩ := rTail_walk hb ho hpb hclb hrt
  have hps : (if rTail.isEmpty then [] else rTail.dropLast) = ps := by
    rcases hcase with ⟨h1, h2, _⟩ | h1
    · rw [h1, h2]; rfl
    · rw [h1]
      have : (ps ++ [ep.point]).isEmpty = false := by simp
      rw [this, List.dropLast_concat]; rfl
  rw [hps]
  have hpne : piece ≠ [] := by
    intro h; have := hpk.1; rw [h] at this; simp at this
  -- the partner of `ep`
  obtain ⟨e', hq, hq_oe, hq_idx, hq_st, hq_ne, hq_lt⟩ := hstat.partner hep
  rw [hs] at hq_st
  have hq_st' : e'.start = false := by rw [hq_st]; rfl
  obtain ⟨e'', hq', hq_used⟩ := hoth _ ep hep hidx
  rw [hq] at hq'; cases hq'
  rw [hu] at hq_used
  have hqn : ep.otherEnd < n := by rw [← hn]; exact hq_lt
  -- positions of the records of piece `ep.index`
  have hpos : ∀ (k : Nat) (e1 : Endpoint α), st.points[k]? = some e1 → e1.index = ep.index →
      k ∈ [i % n, ep.otherEnd] := by
    intro k e1 hk1 hi1
    cases hst1 : e1.start with
    | true =>
      have : k = i % n := hstat.uniq k _ e1 ep hk1 hep hi1 (by rw [hst1, hs])
      simp [this]
    | false =>
      have : k = ep.otherEnd := hstat.uniq k _ e1 e' hk1 hq (by rw [hi1, hq_idx]) (by rw [hst1, hq_st'])
      simp [this]
  have hnpos : ∀ (k : Nat) (e1 : Endpoint α), st.points[k]? = some e1 → e1.index ≠ ep.index →
      k ∉ [i % n, ep.otherEnd] := by
    intro k e1 hk1 hi1 hmem
    simp only [List.mem_cons, List.not_mem_nil, or_false] at hmem
    rcases hmem with rfl | rfl
    · rw [hep] at hk1; cases hk1; exact hi1 rfl
    · rw [hq] at hk1; cases hk1; exact hi1 hq_idx
  refine ⟨hstat.mark _, by rw [markL_length]; exact hn, ?_, ?_, ?_⟩
  · intro c hc
    rw [List.getLast?_append, List.getLast?_eq_some_getLast hpne, Option.some_or] at hc
    exact hpk.2.2 c (by rw [List.getLast?_eq_some_getLast hpne]; exact hc)
  · refine ⟨ep.index :: U, Contains.chain (cl :: (ps ++ [ep.point])) ++ Wk, ?_, ?_, ?_, ?_, ?_⟩
    · intro se hse
      rcases List.mem_append.1 hse with h | h
      · exact hW se h
      · exact hE.wk se h
    · intro m hm
      rcases List.mem_cons.1 hm with rfl | hm
      · exact (List.getElem?_eq_some_iff.1 hpiece).1
      · exact hE.ulen m hm
    · refine List.nodup_cons.2 ⟨?_, hE.und⟩
      intro hmem
      have := (hE.uiff _ e' hq hq_st').2 (by rw [hq_idx]; exact hmem)
      rw [hq_used] at this; cases this
    · show (ResEdges st.result ++ Contains.chain (st.current ++ ps ++ piece)).Perm
        (EdgeSum input (ep.index :: U) ++ _)
      have : EdgeSum input (ep.index :: U) = Contains.chain piece ++ EdgeSum input U := by
        unfold EdgeSum; rw [List.flatMap_cons, hpiece]; rfl
      rw [this, chain_stitch _ _ _ cl ep.point hcl hif, ← List.append_assoc]
      exact perm_app3 hE.perm
    · intro k e hk hse
      obtain ⟨e1, hk1, rfl⟩ := markL_some hk
      rw [mkU_start] at hse
      rw [mkU_index, List.mem_cons]
      by_cases hi1 : e1.index = ep.index
      · rw [mkU_used_of_mem _ (hpos k e1 hk1 hi1)]
        simp [hi1]
      · rw [mkU_used_of_not_mem _ (hnpos k e1 hk1 hi1)]
        have h1 := hE.uiff k e1 hk1 hse
        constructor
        · intro h; exact Or.inr (h1.1 h)
        · rintro (h | h)
          · exact absurd h hi1
          · exact h1.2 h
  · right
    have hk0n : k0 % n < n := Nat.mod_lt _ hn0
    have hm0' : e0.index ≠ ep.index := by rw [hm0]; exact fun h => hidx h.symm
    refine ⟨m0, (if ep.otherEnd + 1 ≤ k0 % n then k0 % n else k0 % n + n), mkU [i % n, ep.otherEnd] (k0 % n) e0, cf,
      ls0, ?_, hls0, hh0, ?_, ?_, ?_, hm0, hst0, ?_, ?_, ?_, hfst⟩
    · rw [List.append_assoc, List.head?_append, hcf, Option.some_or]
    · split_ifs <;> omega
    · split_ifs <;> omega
    · have : (if ep.otherEnd + 1 ≤ k0 % n then k0 % n else k0 % n + n) % n = k0 % n := by
        split_ifs
        · exact Nat.mod_eq_of_lt hk0n
        · rw [Nat.add_mod_right]; exact Nat.mod_eq_of_lt hk0n
      rw [this]; exact markL_of_some hk0
    · rw [mkU_used_of_not_mem _ (hnpos _ e0 hk0 hm0'), hu0]
    · intro k e hk hi1 hst1
      obtain ⟨e1, hk1, rfl⟩ := markL_some hk
      rw [mkU_used, hend k e1 hk1 hi1 hst1]; rfl
    · intro k e hk hi1
      obtain ⟨e1, hk1, rfl⟩ := markL_some hk
      rw [mkU_index] at hi1
      obtain ⟨e1', hp1, hp2, hp3, hp4, hp5, _⟩ := hstat.partner hk1
      refine ⟨mkU [i % n, ep.otherEnd] e1.otherEnd e1', markL_of_some hp1, ?_⟩
      by_cases hi2 : e1.index = ep.index
      · rw [mkU_used_of_mem _ (hpos k e1 hk1 hi2),
          mkU_used_of_mem _ (hpos _ e1' hp1 (by rw [hp3, hi2]))]
      · obtain ⟨e1'', hq1, hq2⟩ := hoth k e1 hk1 hi1
        rw [hp1] at hq1; cases hq1
        rw [mkU_used_of_not_mem _ (hnpos k e1 hk1 hi2),
          mkU_used_of_not_mem _ (hnpos _ e1' hp1 (by rw [hp3]; exact hi2)), hq2]

theorem Inv_step {box : Bound α} (hb : BoxOK box) {input : List (List (Pt α))}
    (hp : ∀ ls ∈ input, PieceOK box ls) {o : Int} (ho : o = CW ∨ o = CCW)
    {n : Nat} : ∀ st i st' i', Inv box input n st i → wrapStep box input o n st i = .ok (.inr (st', i')) →
      Inv box input n st' i' := by
  intro st i st' i' hI hx
  rcases wrapStep_cases2 hx with ⟨_, hr⟩ | ⟨hi, ep, hep, ⟨hr, hreason⟩ | ⟨hu, hs, hcur, piece, hpiece, hr⟩ |
    ⟨hu, hs, cf, cl, rTail, hcf, hcl, hrt, ⟨hfirst, hpf, hr⟩ | ⟨hne, piece, hpiece, hoe, hr⟩⟩⟩
  · cases hr
  · cases hr; exact Inv_skip hI hep hreason
  · cases hr; exact Inv_take hp hI hi hep hu hs hcur hpiece
  · cases hr; exact Inv_complete hb ho hp hI hep hfirst hu hs hcf hcl hrt hpf
  · cases hr; exact Inv_append hb ho hp hI hi hep hu hs hcf hcl hrt hne hpiece hoe

/-! ### (5) the theorem -/

theorem edgeSum_range (input : List (List (Pt α))) :
    EdgeSum input (List.range input.length) = input.flatMap Contains.chain := by
  have h : (List.range input.length).map (fun m => input[m]?.getD []) = input := by
    apply List.ext_getElem
    · simp
    · intro k h1 h2
      simp [h2]
  unfold EdgeSum
  conv_rhs => rw [← h]
  rw [List.flatMap_map]

/-- The stitching loop uses every piece exactly once: the edges of the returned rings are the edges of
    all the pieces plus connecting walk edges, each of which lies along the box boundary (both ends in
    one closed outer half-plane).  Since fix C16-5 (`loop complete` is decided by the INDEX of the piece
    the ring began with, not by comparing points) this needs no hypothesis on the start points: two
    pieces may start in one point (rings touching on the box side). -/
theorem smartWrap_edges_any (box : Bound α) (hb : BoxOK box) (input : List (List (Pt α))) (o : Int)
    (ho : o = CW ∨ o = CCW) (hp : ∀ ls ∈ input, PieceOK box ls)
    (out : List (List (List (Pt α)))) (h : smartWrap box input o = .ok out) :
    ∃ Wk : List (Pt α × Pt α), (∀ se ∈ Wk, Clip.C16R.SameSide box se.1 se.2) ∧
      (out.flatMap (fun pg => pg.flatMap Contains.chain)).Perm (input.flatMap Contains.chain ++ Wk) := by
  obtain ⟨pts, sorted, h1, h2, h⟩ := smartWrap_inv h
  obtain ⟨hstat, hun⟩ := sorted_static h1 h2
  have h0 : Inv box input sorted.length { points := sorted, current := [], result := [] } 0 := by
    refine ⟨hstat, rfl, fun cl h => (by cases h), ⟨[], [], ?_⟩,
      Or.inl ⟨rfl, ?_, fun k hk => absurd hk (Nat.not_lt_zero _)⟩⟩
    · refine ⟨fun se h => (by cases h), fun m h => (by cases h), List.nodup_nil, List.Perm.refl _, ?_⟩
      intro k e hk hs
      have : e.used = false := hun e (List.mem_of_getElem? hk)
      rw [this]; simp
    · intro k e hk
      obtain ⟨e', hp1, _⟩ := hstat.partner hk
      exact ⟨e', hp1, by rw [hun e (List.mem_of_getElem? hk), hun e' (List.mem_of_getElem? hp1)]⟩
  obtain ⟨stf, jf, hI, hjf, rfl⟩ :=
    wrapLoop_inv2 (Inv box input sorted.length) (Inv_step hb hp ho) _ _ _ _ h h0
  obtain ⟨hstat', hn', _, ⟨U, Wk, hE⟩, hfl⟩ := hI
  rcases hfl with ⟨hc, _, hs1⟩ | ⟨m0, k0, _, _, _, _, _, _, hik, hk2, _⟩
  · refine ⟨Wk, hE.wk, ?_⟩
    have hU : U.Perm (List.range input.length) := by
      rw [List.perm_ext_iff_of_nodup hE.und List.nodup_range]
      intro m
      rw [List.mem_range]
      constructor
      · exact hE.ulen m
      · intro hm
        obtain ⟨j, e, hj, hi, hs⟩ := hstat'.ex m hm
        have hjn : j < sorted.length := by rw [← hn']; exact (List.getElem?_eq_some_iff.1 hj).1
        have := hs1 j (by omega) e (by rw [Nat.mod_eq_of_lt hjn]; exact hj) hs
        rw [← hi]; exact (hE.uiff j e hj hs).1 this
    have hperm := hE.perm
    rw [hc] at hperm
    have hnil : Contains.chain ([] : List (Pt α)) = [] := rfl
    rw [hnil, List.append_nil] at hperm
    refine hperm.trans (List.Perm.append_right _ ?_)
    rw [← edgeSum_range]
    exact hU.flatMap_right _
  · omega

/-- the statement as it stood before fix C16-5 (pieces with pairwise distinct start points) -/
theorem smartWrap_edges (box : Bound α) (hb : BoxOK box) (input : List (List (Pt α))) (o : Int)
    (ho : o = CW ∨ o = CCW) (hp : ∀ ls ∈ input, PieceOK box ls) (_hnd : (input.map List.head?).Nodup)
    (out : List (List (List (Pt α)))) (h : smartWrap box input o = .ok out) :
    ∃ Wk : List (Pt α × Pt α), (∀ se ∈ Wk, Clip.C16R.SameSide box se.1 se.2) ∧
      (out.flatMap (fun pg => pg.flatMap Contains.chain)).Perm (input.flatMap Contains.chain ++ Wk) :=
  smartWrap_edges_any box hb input o ho hp out h

end Orb.SmartClip
