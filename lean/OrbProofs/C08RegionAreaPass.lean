/-
  C08 (area), pass layer.  An edge functional `w` summed over the output cycle of ONE Sutherland–Hodgman
  pass equals the PULLED-BACK functional `pull w` summed over the input cycle, as soon as `w` is a
  coboundary along the clip line (`w u v = h v - h u` for `u v` on the line).  `pull w a b` is `w` summed
  over the clamped image of the edge `a b`: the edge is cut at the clip line and the dropped part is
  projected onto the line (`π`).
-/
import OrbProofs.C08RegionPass
import Mathlib.Tactic.Abel

namespace Orb.Clip.C08R
open Orb Orb.EvenOdd Orb.Contains Orb.Clip Orb.Clip.C08
open Orb.Core hiding chain

set_option linter.unusedSectionVars false
set_option linter.unusedSimpArgs false
set_option linter.unusedVariables false

variable {α : Type} [Field α] [LinearOrder α] [IsStrictOrderedRing α]

/-! ### sums over edge lists -/

/-- the sum of an edge functional over an edge list -/
def sumE (w : Pt α → Pt α → α) (E : List (Pt α × Pt α)) : α := (E.map fun se => w se.1 se.2).sum

theorem sumE_nil (w : Pt α → Pt α → α) : sumE w [] = 0 := rfl

theorem sumE_cons (w : Pt α → Pt α → α) (s e : Pt α) (E : List (Pt α × Pt α)) :
    sumE w ((s, e) :: E) = w s e + sumE w E := by
  unfold sumE; rw [List.map_cons, List.sum_cons]

theorem sumE_append (w : Pt α → Pt α → α) (E F : List (Pt α × Pt α)) :
    sumE w (E ++ F) = sumE w E + sumE w F := by
  unfold sumE; rw [List.map_append, List.sum_append]

theorem sumE_congr {w w' : Pt α → Pt α → α} (h : ∀ a b, w a b = w' a b) (E : List (Pt α × Pt α)) :
    sumE w E = sumE w' E := by
  have : w = w' := by funext a b; exact h a b
  rw [this]

theorem sumE_add (w w' : Pt α → Pt α → α) (E : List (Pt α × Pt α)) :
    sumE (fun a b => w a b + w' a b) E = sumE w E + sumE w' E := by
  induction E with
  | nil => simp [sumE_nil]
  | cons se E ih =>
    obtain ⟨s, e⟩ := se
    rw [sumE_cons, sumE_cons, sumE_cons, ih]; ring

theorem sumE_smul (c : α) (w : Pt α → Pt α → α) (E : List (Pt α × Pt α)) :
    sumE (fun a b => c * w a b) E = c * sumE w E := by
  induction E with
  | nil => simp [sumE_nil]
  | cons se E ih =>
    obtain ⟨s, e⟩ := se
    rw [sumE_cons, sumE_cons, ih]; ring

/-- a coboundary telescopes along an open chain … -/
theorem sumE_chain_cob (h : Pt α → α) (v : Pt α) (t : List (Pt α)) :
    sumE (fun s e => h e - h s) (chain (v :: t)) = h (lastD' v t) - h v := by
  induction t generalizing v with
  | nil => simp [chain_single, sumE_nil, lastD']
  | cons b t ih => rw [chain_cons_cons, sumE_cons, ih b]; simp only [lastD']; ring

/-- … and vanishes around a cycle -/
theorem sumE_edges_cob (h : Pt α → α) (r : List (Pt α)) : sumE (fun s e => h e - h s) (edges r) = 0 := by
  cases r with
  | nil => rfl
  | cons v t => rw [edges_cons, sumE_cons, sumE_chain_cob]; ring

/-! ### the pull-back of an edge functional through one pass -/

/-- `w` summed over the clamped image of the edge `a b` -/
def pull (ins : Pt α → Bool) (ix : Pt α → Pt α → Pt α) (π : Pt α → Pt α) (w : Pt α → Pt α → α)
    (a b : Pt α) : α :=
  if ins a = ins b then w (π a) (π b) else w (π a) (ix a b) + w (ix a b) (π b)

/-- what the area argument needs from a pass: `π` fixes kept vertices and sends dropped ones to the
    clip line `L`, where the intersection points live -/
structure AreaHyp (ins : Pt α → Bool) (ix : Pt α → Pt α → Pt α) (π : Pt α → Pt α) (L : Pt α → Prop) : Prop where
  pin : ∀ p, ins p = true → π p = p
  pout : ∀ p, ins p = false → L (π p)
  ixL : ∀ a b, ins a ≠ ins b → L (ix a b)

section pass
variable {ins : Pt α → Bool} {ix : Pt α → Pt α → Pt α} {π : Pt α → Pt α} {L : Pt α → Prop}
  {w : Pt α → Pt α → α} {h : Pt α → α}

theorem passL_area (H : AreaHyp ins ix π L) (hw : ∀ u v, L u → L v → w u v = h v - h u) :
    ∀ (l : List (Pt α)) (prev u : Pt α), Link ins L u prev →
      Link ins L (lastD' u (passL ins ix prev l)) (lastD' prev l) ∧
      sumE w (chain (u :: passL ins ix prev l)) =
        sumE (pull ins ix π w) (chain (prev :: l)) + (h (π prev) - h u) -
          (h (π (lastD' prev l)) - h (lastD' u (passL ins ix prev l))) := by
  intro l
  induction l with
  | nil =>
    intro prev u hl
    refine ⟨by simpa [passL, lastD'] using hl, ?_⟩
    simp only [passL, lastD', chain_single, sumE_nil]; ring
  | cons p rest ih =>
    intro prev u hl
    cases hp : ins p <;> cases hprev : ins prev
    · -- outside, outside
      have hLu : L u := hl.2 hprev
      have hu : Link ins L u p := ⟨fun h => by simp [hp] at h, fun _ => hLu⟩
      obtain ⟨h1, h2⟩ := ih p u hu
      have e : passL ins ix prev (p :: rest) = passL ins ix p rest := by
        simp [passL, emit, hp, hprev]
      rw [e]
      refine ⟨by simpa [lastD'] using h1, ?_⟩
      have hpl : pull ins ix π w prev p = h (π p) - h (π prev) := by
        unfold pull; rw [if_pos (by rw [hp, hprev])]
        exact hw _ _ (H.pout _ hprev) (H.pout _ hp)
      rw [h2, chain_cons_cons (α := α) prev p rest, sumE_cons, hpl]
      simp only [lastD']; ring
    · -- prev inside, p outside
      have hne : ins prev ≠ ins p := by simp [hp, hprev]
      have hLi : L (ix prev p) := H.ixL _ _ hne
      have hu : Link ins L (ix prev p) p := ⟨fun h => by simp [hp] at h, fun _ => hLi⟩
      obtain ⟨h1, h2⟩ := ih p (ix prev p) hu
      have hup : u = prev := hl.1 hprev
      subst hup
      have e : passL ins ix u (p :: rest) = ix u p :: passL ins ix p rest := by
        simp [passL, emit, hp, hprev]
      rw [e]
      refine ⟨by simpa [lastD'] using h1, ?_⟩
      have hpl : pull ins ix π w u p = w u (ix u p) + (h (π p) - h (ix u p)) := by
        unfold pull; rw [if_neg hne, H.pin u hprev, hw _ _ hLi (H.pout _ hp)]
      rw [chain_cons_cons, sumE_cons, h2, chain_cons_cons (α := α) u p rest, sumE_cons, hpl, H.pin u hprev]
      simp only [lastD']; ring
    · -- prev outside, p inside
      have hne : ins prev ≠ ins p := by simp [hp, hprev]
      have hLi : L (ix prev p) := H.ixL _ _ hne
      have hLu : L u := hl.2 hprev
      have hu : Link ins L p p := ⟨fun _ => rfl, fun h => by simp [hp] at h⟩
      obtain ⟨h1, h2⟩ := ih p p hu
      have e : passL ins ix prev (p :: rest) = ix prev p :: p :: passL ins ix p rest := by
        simp [passL, emit, hp, hprev]
      rw [e]
      refine ⟨by simpa [lastD'] using h1, ?_⟩
      have hpl : pull ins ix π w prev p = (h (ix prev p) - h (π prev)) + w (ix prev p) p := by
        unfold pull; rw [if_neg hne, H.pin p hp, hw _ _ (H.pout _ hprev) hLi]
      rw [chain_cons_cons, sumE_cons, chain_cons_cons, sumE_cons, h2, chain_cons_cons (α := α) prev p rest,
        sumE_cons, hpl, hw _ _ hLu hLi, H.pin p hp]
      simp only [lastD']; ring
    · -- inside, inside
      have hu : Link ins L p p := ⟨fun _ => rfl, fun h => by simp [hp] at h⟩
      obtain ⟨h1, h2⟩ := ih p p hu
      have hup : u = prev := hl.1 hprev
      subst hup
      have e : passL ins ix u (p :: rest) = p :: passL ins ix p rest := by
        simp [passL, emit, hp, hprev]
      rw [e]
      refine ⟨by simpa [lastD'] using h1, ?_⟩
      have hpl : pull ins ix π w u p = w u p := by
        unfold pull; rw [if_pos (by rw [hp, hprev]), H.pin u hprev, H.pin p hp]
      rw [chain_cons_cons, sumE_cons, h2, chain_cons_cons (α := α) u p rest, sumE_cons, hpl, H.pin u hprev,
        H.pin p hp]
      simp only [lastD']; ring

theorem passL_headL' (H : AreaHyp ins ix π L) :
    ∀ (l : List (Pt α)) (prev : Pt α), ins prev = false →
      ∀ w' r, passL ins ix prev l = w' :: r → L w' := by
  intro l
  induction l with
  | nil => intro prev _ w' r hw; simp [passL] at hw
  | cons p rest ih =>
    intro prev hprev w' r hw
    cases hp : ins p
    · have : passL ins ix prev (p :: rest) = passL ins ix p rest := by
        simp [passL, emit, hp, hprev]
      rw [this] at hw
      exact ih p hp w' r hw
    · have hne : ins prev ≠ ins p := by simp [hp, hprev]
      have : passL ins ix prev (p :: rest) = ix prev p :: p :: passL ins ix p rest := by
        simp [passL, emit, hp, hprev]
      rw [this] at hw
      simp only [List.cons.injEq] at hw
      rw [← hw.1]; exact H.ixL _ _ hne

/-- THE CYCLE THEOREM for sums: `w` over the output cycle = `pull w` over the input cycle -/
theorem pass_cyc_area (H : AreaHyp ins ix π L) (hw : ∀ u v, L u → L v → w u v = h v - h u)
    (f : Pt α) (t : List (Pt α)) :
    sumE w (edges (passL ins ix (lastD' f t) (f :: t))) = sumE (pull ins ix π w) (edges (f :: t)) := by
  have hA : edges (f :: t) = chain (lastD' f t :: f :: t) := by rw [edges_cons]; rfl
  have hz : lastD' (lastD' f t) (f :: t) = lastD' f t := rfl
  rw [hA]
  generalize lastD' f t = z at hz ⊢
  cases hi : ins z
  · have hLz : L (π z) := H.pout z hi
    cases ho : passL ins ix z (f :: t) with
    | nil =>
      obtain ⟨h1, h2⟩ := passL_area H hw (f :: t) z (π z) ⟨fun h => by simp [hi] at h, fun _ => hLz⟩
      rw [ho, hz] at h2
      simp only [lastD', chain_single, sumE_nil] at h2
      show sumE w [] = _
      rw [sumE_nil]; linarith
    | cons v r =>
      have hLv : L v := passL_headL' H (f :: t) z hi v r ho
      obtain ⟨h1, h2⟩ := passL_area H hw (f :: t) z v ⟨fun h => by simp [hi] at h, fun _ => hLv⟩
      rw [ho, hz] at h1 h2
      have hLl : L (lastD' v r) := h1.2 hi
      rw [chain_cons_cons, sumE_cons, hw v v hLv hLv] at h2
      simp only [lastD'] at h2
      rw [edges_cons, sumE_cons, hw _ _ hLl hLv]
      linarith
  · obtain ⟨h1, h2⟩ := passL_area H hw (f :: t) z z ⟨fun _ => rfl, fun h => by simp [hi] at h⟩
    rw [hz] at h1 h2
    rw [H.pin z hi] at h2
    cases ho : passL ins ix z (f :: t) with
    | nil =>
      rw [ho] at h2
      simp only [lastD', chain_single, sumE_nil] at h2
      show sumE w [] = _
      rw [sumE_nil]; linarith
    | cons v r =>
      rw [ho] at h1 h2
      have hl : lastD' v r = z := h1.1 hi
      simp only [lastD'] at h2
      rw [hl] at h2
      rw [edges_cons, hl, ← chain_cons_cons, h2]; ring

end pass

end Orb.Clip.C08R
