/-
  C05 allocation accounting, stream path (`Decoder.Decode` and the read* functions):
  the capacities requested by the decoder's own `make` calls (`Orb.WKB.decodeAlloc`, defined in
  Orb/WKB.lean next to the decoder model) are at most proportional to the input length plus a fixed cap,
  for succeeding AND failing decodes.
-/
import OrbProofs.C05Lemmas

namespace Orb.WKB
open Orb Generated.Params

/-! ### line string / ring loop / polygon -/

theorem readPtsLoop_cnt {o : Order} (n : Nat) : ∀ {s r : Bytes} {ps : List (Pt UInt64)},
    readPtsLoop o n s = .ok (ps, r) → 16 * n + r.length = s.length := by
  induction n with
  | zero =>
    intro s r ps h
    simp only [readPtsLoop] at h
    injection h with h; injection h with h1 h2; subst h1; subst h2; simp
  | succ n ih =>
    intro s r ps h
    simp only [readPtsLoop] at h
    split at h
    · rename_i hp
      split at h
      · rename_i hps
        injection h with h; injection h with h1 h2; subst h1; subst h2
        have := ih hps
        have := readPoint_len hp
        omega
      all_goals contradiction
    all_goals contradiction

theorem readLineStringAlloc_F (o : Order) (s : Bytes) : readLineStringAlloc o s ≤ 160000 := by
  unfold readLineStringAlloc
  split
  · rename_i num _ _
    have := allocCap_le' num wkb_MaxPointsAlloc
    simp only [szPoint, wkb_MaxPointsAlloc] at *
    omega
  · omega

theorem readLineStringAlloc_S {o : Order} {s r : Bytes} {ps : List (Pt UInt64)}
    (h : readLineString o s = .ok (ps, r)) :
    readLineStringAlloc o s + 200 * r.length + 800 ≤ 200 * s.length := by
  unfold readLineString at h
  unfold readLineStringAlloc
  split at h
  · rename_i num s1 hn
    simp only [hn]
    have := readU32_len hn
    have := readPtsLoop_cnt _ h
    have := allocCap_le' num wkb_MaxPointsAlloc
    simp only [szPoint]
    omega
  all_goals contradiction

theorem readRingsLoopAlloc_S {o : Order} (n : Nat) : ∀ {s r : Bytes} {rs : List (List (Pt UInt64))},
    readRingsLoop o n s = .ok (rs, r) →
    readRingsLoopAlloc o n s + 200 * r.length + n * 800 ≤ 200 * s.length := by
  induction n with
  | zero =>
    intro s r rs h
    simp only [readRingsLoop] at h
    injection h with h; injection h with h1 h2; subst h1; subst h2
    simp only [readRingsLoopAlloc]; omega
  | succ n ih =>
    intro s r rs h
    simp only [readRingsLoop] at h
    split at h
    · rename_i hp
      split at h
      · rename_i hps
        injection h with h; injection h with h1 h2; subst h1; subst h2
        rw [readRingsLoopAlloc]
        simp only [hp]
        have := ih hps
        have := readLineStringAlloc_S hp
        omega
      all_goals contradiction
    all_goals contradiction

theorem readRingsLoopAlloc_F {o : Order} (n : Nat) : ∀ s : Bytes,
    readRingsLoopAlloc o n s ≤ 200 * s.length + 160000 := by
  induction n with
  | zero => intro s; simp only [readRingsLoopAlloc]; omega
  | succ n ih =>
    intro s
    simp only [readRingsLoopAlloc]
    have := readLineStringAlloc_F o s
    split
    · rename_i s1 hp
      have := readLineStringAlloc_S hp
      have := ih s1
      omega
    · omega

theorem readPolygonAlloc_S {o : Order} {s r : Bytes} {rs : List (List (Pt UInt64))}
    (h : readPolygon o s = .ok (rs, r)) :
    readPolygonAlloc o s + 200 * r.length + 800 ≤ 200 * s.length := by
  unfold readPolygon at h
  unfold readPolygonAlloc
  split at h
  · rename_i num s1 hn
    simp only [hn]
    have := readU32_len hn
    have := readRingsLoopAlloc_S _ h
    have := allocCap_le' num wkb_MaxMultiAlloc
    simp only [szSlice]
    omega
  all_goals contradiction

theorem readPolygonAlloc_F (o : Order) (s : Bytes) :
    readPolygonAlloc o s ≤ 200 * s.length + 162400 := by
  unfold readPolygonAlloc
  split
  · rename_i num s1 hn
    have := readU32_len hn
    have := readRingsLoopAlloc_F (o := o) num s1
    have := allocCap_le' num wkb_MaxMultiAlloc
    simp only [szSlice, wkb_MaxMultiAlloc] at *
    omega
  · omega

/-! ### member loops -/

theorem readMembersAlloc_S {β : Type} (want : Nat) (rd : Order → Bytes → R (β × Bytes))
    (rdAlloc : Order → Bytes → Nat)
    (hS : ∀ o s x r, rd o s = .ok (x, r) → rdAlloc o s + 200 * r.length ≤ 200 * s.length) (n : Nat) :
    ∀ {s r : Bytes} {xs : List β}, readMembers want rd n s = .ok (xs, r) →
      readMembersAlloc want rd rdAlloc n s + 200 * r.length + n * 1000 ≤ 200 * s.length := by
  induction n with
  | zero =>
    intro s r xs h
    simp only [readMembers] at h
    injection h with h; injection h with h1 h2; subst h1; subst h2
    simp only [readMembersAlloc]; omega
  | succ n ih =>
    intro s r xs h
    simp only [readMembers] at h
    split at h
    · rename_i hb
      split at h
      · contradiction
      · rename_i ht
        split at h
        · rename_i hx
          split at h
          · rename_i hxs
            injection h with h; injection h with h1 h2; subst h1; subst h2
            rw [readMembersAlloc]
            simp only [hb]
            rw [if_neg ht]
            simp only [hx]
            have := ih hxs
            have := hS _ _ _ _ hx
            have := readBOT_len hb
            omega
          all_goals contradiction
        all_goals contradiction
    all_goals contradiction

theorem readMembersAlloc_F {β : Type} (want : Nat) (rd : Order → Bytes → R (β × Bytes))
    (rdAlloc : Order → Bytes → Nat) (KK : Nat)
    (hS : ∀ o s x r, rd o s = .ok (x, r) → rdAlloc o s + 200 * r.length ≤ 200 * s.length)
    (hF : ∀ o s, rdAlloc o s ≤ 200 * s.length + KK) (n : Nat) :
    ∀ s : Bytes, readMembersAlloc want rd rdAlloc n s ≤ 200 * s.length + KK := by
  induction n with
  | zero => intro s; simp only [readMembersAlloc]; omega
  | succ n ih =>
    intro s
    rw [readMembersAlloc]
    split
    · rename_i o typ _ s1 hb
      have := readBOT_len hb
      split
      · omega
      · have := hF o s1
        split
        · rename_i s2 hx
          have := hS _ _ _ _ hx
          have := ih s2
          omega
        · omega
    · omega

/-- a multi on success: the capped `make` (at most 1000 bytes per claimed member) is paid by the members' headers -/
theorem multiAlloc_S {β : Type} (want : Nat) (rd : Order → Bytes → R (β × Bytes))
    (rdAlloc : Order → Bytes → Nat)
    (hS : ∀ o s x r, rd o s = .ok (x, r) → rdAlloc o s + 200 * r.length ≤ 200 * s.length)
    (sz cap : Nat) (hsz : sz ≤ 1000) {o : Order} {s1 s2 r : Bytes} {num : Nat} {xs : List β}
    (hn : readU32 o s1 = .ok (num, s2)) (hm : readMembers want rd num s2 = .ok (xs, r)) :
    sz * allocCap num cap + readMembersAlloc want rd rdAlloc num s2 + 200 * r.length + 800
      ≤ 200 * s1.length := by
  have h1 := readU32_len hn
  have h2 := readMembersAlloc_S want rd rdAlloc hS num hm
  have h3 : sz * allocCap num cap ≤ 1000 * num := Nat.mul_le_mul hsz (allocCap_le' num cap).2
  omega

theorem multiAlloc_F {β : Type} (want : Nat) (rd : Order → Bytes → R (β × Bytes))
    (rdAlloc : Order → Bytes → Nat) (KK : Nat)
    (hS : ∀ o s x r, rd o s = .ok (x, r) → rdAlloc o s + 200 * r.length ≤ 200 * s.length)
    (hF : ∀ o s, rdAlloc o s ≤ 200 * s.length + KK)
    (sz cap C : Nat) (hC : sz * cap ≤ C) {o : Order} {s1 s2 : Bytes} {num : Nat}
    (hn : readU32 o s1 = .ok (num, s2)) :
    sz * allocCap num cap + readMembersAlloc want rd rdAlloc num s2 + 800 ≤ 200 * s1.length + C + KK := by
  have h1 := readU32_len hn
  have h2 := readMembersAlloc_F want rd rdAlloc KK hS hF num s2
  have h3 : sz * allocCap num cap ≤ sz * cap := Nat.mul_le_mul (Nat.le_refl _) (allocCap_le' num cap).1
  omega

theorem pointAlloc_hS : ∀ (o : Order) (s : Bytes) (x : Pt UInt64) (r : Bytes), readPoint o s = .ok (x, r) →
    (fun (_ : Order) (_ : Bytes) => 0) o s + 200 * r.length ≤ 200 * s.length := by
  intro o s x r h
  have := readPoint_len h
  simp only []; omega

theorem lineAlloc_hS : ∀ (o : Order) (s : Bytes) (x : List (Pt UInt64)) (r : Bytes),
    readLineString o s = .ok (x, r) → readLineStringAlloc o s + 200 * r.length ≤ 200 * s.length := by
  intro o s x r h
  have := readLineStringAlloc_S h
  omega

theorem lineAlloc_hF : ∀ (o : Order) (s : Bytes), readLineStringAlloc o s ≤ 200 * s.length + 160000 := by
  intro o s
  have := readLineStringAlloc_F o s
  omega

theorem polyAlloc_hS : ∀ (o : Order) (s : Bytes) (x : List (List (Pt UInt64))) (r : Bytes),
    readPolygon o s = .ok (x, r) → readPolygonAlloc o s + 200 * r.length ≤ 200 * s.length := by
  intro o s x r h
  have := readPolygonAlloc_S h
  omega

theorem ok3_inj {a g : G} {b sr : Nat} {c r : Bytes}
    (h : (Res.ok (a, b, c) : R (G × Nat × Bytes)) = .ok (g, sr, r)) : c = r := by
  cases h; rfl

/-! ### Decode -/

theorem decodeWithAlloc_S (coll : Order → Bytes → R (List G × Bytes)) (collAlloc : Order → Bytes → Nat)
    (hcS : ∀ o s gs r, coll o s = .ok (gs, r) → collAlloc o s + 200 * r.length ≤ 200 * s.length)
    {s r : Bytes} {g : G} {srid : Nat} (h : decodeWith coll s = .ok (g, srid, r)) :
    decodeWithAlloc collAlloc s + 200 * r.length + 16 ≤ 200 * s.length := by
  unfold decodeWith at h
  unfold decodeWithAlloc
  split at h
  · rename_i o typ sr s1 hb
    have hl := readBOT_len hb
    simp only [hb, szBuf]
    by_cases t1 : typ = wkb_pointType
    · rw [if_pos t1] at h ⊢
      split at h
      · rename_i hp
        have := readPoint_len hp
        have e := ok3_inj h; subst e
        omega
      all_goals contradiction
    rw [if_neg t1] at h ⊢
    by_cases t2 : typ = wkb_multiPointType
    · rw [if_pos t2] at h ⊢
      split at h
      · rename_i num s2 hn
        simp only [hn]
        split at h
        · rename_i hm
          have e := ok3_inj h; subst e
          have := multiAlloc_S wkb_pointType readPoint (fun _ _ => 0) pointAlloc_hS szPoint wkb_MaxPointsAlloc (by decide) hn hm
          omega
        all_goals contradiction
      all_goals contradiction
    rw [if_neg t2] at h ⊢
    by_cases t3 : typ = wkb_lineStringType
    · rw [if_pos t3] at h ⊢
      split at h
      · rename_i hp
        have := readLineStringAlloc_S hp
        have e := ok3_inj h; subst e
        omega
      all_goals contradiction
    rw [if_neg t3] at h ⊢
    by_cases t4 : typ = wkb_multiLineStringType
    · rw [if_pos t4] at h ⊢
      split at h
      · rename_i num s2 hn
        simp only [hn]
        split at h
        · rename_i hm
          have e := ok3_inj h; subst e
          have := multiAlloc_S _ _ _ lineAlloc_hS szSlice wkb_MaxMultiAlloc (by decide) hn hm
          omega
        all_goals contradiction
      all_goals contradiction
    rw [if_neg t4] at h ⊢
    by_cases t5 : typ = wkb_polygonType
    · rw [if_pos t5] at h ⊢
      split at h
      · rename_i hp
        have := readPolygonAlloc_S hp
        have e := ok3_inj h; subst e
        omega
      all_goals contradiction
    rw [if_neg t5] at h ⊢
    by_cases t6 : typ = wkb_multiPolygonType
    · rw [if_pos t6] at h ⊢
      split at h
      · rename_i num s2 hn
        simp only [hn]
        split at h
        · rename_i hm
          have e := ok3_inj h; subst e
          have := multiAlloc_S _ _ _ polyAlloc_hS szSlice wkb_MaxMultiAlloc (by decide) hn hm
          omega
        all_goals contradiction
      all_goals contradiction
    rw [if_neg t6] at h ⊢
    by_cases t7 : typ = wkb_geometryCollectionType
    · rw [if_pos t7] at h ⊢
      split at h
      · rename_i hc
        have := hcS _ _ _ _ hc
        have e := ok3_inj h; subst e
        omega
      all_goals contradiction
    rw [if_neg t7] at h
    contradiction
  all_goals contradiction

theorem decodeWithAlloc_F (collAlloc : Order → Bytes → Nat)
    (hcF : ∀ o s, collAlloc o s ≤ 200 * s.length + 165608) (s : Bytes) :
    decodeWithAlloc collAlloc s ≤ 200 * s.length + 164808 := by
  unfold decodeWithAlloc
  simp only [szBuf]
  split
  · rename_i o typ _ s1 hb
    have hl := readBOT_len hb
    split
    · omega
    · split
      · split
        · rename_i num s2 hn
          have := multiAlloc_F wkb_pointType readPoint (fun _ _ => 0) 0 pointAlloc_hS (fun _ _ => Nat.zero_le _) szPoint wkb_MaxPointsAlloc 160000
            (by decide) hn
          show 8 + (_ + _) ≤ _
          omega
        · omega
      · split
        · have := readLineStringAlloc_F o s1
          omega
        · split
          · split
            · rename_i num s2 hn
              have := multiAlloc_F wkb_lineStringType readLineString readLineStringAlloc 160000 lineAlloc_hS lineAlloc_hF szSlice wkb_MaxMultiAlloc 2400
                (by decide) hn
              show 8 + (_ + _) ≤ _
              omega
            · omega
          · split
            · have := readPolygonAlloc_F o s1
              omega
            · split
              · split
                · rename_i num s2 hn
                  have := multiAlloc_F wkb_polygonType readPolygon readPolygonAlloc 162400 polyAlloc_hS readPolygonAlloc_F szSlice wkb_MaxMultiAlloc 2400
                    (by decide) hn
                  show 8 + (_ + _) ≤ _
                  omega
                · omega
              · split
                · have := hcF o s1
                  omega
                · omega
  · omega

/-! ### collections -/

theorem collLoopAlloc_S (dec : Bytes → R (G × Nat × Bytes)) (decAlloc : Bytes → Nat)
    (dS : ∀ t g sr r, dec t = .ok (g, sr, r) → decAlloc t + 200 * r.length + 16 ≤ 200 * t.length) (n : Nat) :
    ∀ {s r : Bytes} {gs : List G}, collLoop dec n s = .ok (gs, r) →
      collLoopAlloc dec decAlloc n s + 200 * r.length + n * 16 ≤ 200 * s.length := by
  induction n with
  | zero =>
    intro s r gs h
    simp only [collLoop] at h
    injection h with h; injection h with h1 h2; subst h1; subst h2
    simp only [collLoopAlloc]; omega
  | succ n ih =>
    intro s r gs h
    simp only [collLoop] at h
    split at h
    · rename_i hx
      split at h
      · rename_i hxs
        injection h with h; injection h with h1 h2; subst h1; subst h2
        rw [collLoopAlloc]
        simp only [hx]
        have := ih hxs
        have := dS _ _ _ _ hx
        omega
      all_goals contradiction
    all_goals contradiction

theorem collLoopAlloc_F (dec : Bytes → R (G × Nat × Bytes)) (decAlloc : Bytes → Nat)
    (dS : ∀ t g sr r, dec t = .ok (g, sr, r) → decAlloc t + 200 * r.length + 16 ≤ 200 * t.length)
    (dF : ∀ t, decAlloc t ≤ 200 * t.length + 164808) (n : Nat) :
    ∀ s : Bytes, collLoopAlloc dec decAlloc n s ≤ 200 * s.length + 164808 := by
  induction n with
  | zero => intro s; simp only [collLoopAlloc]; omega
  | succ n ih =>
    intro s
    rw [collLoopAlloc]
    have := dF s
    split
    · rename_i s1 hx
      have := dS _ _ _ _ hx
      have := ih s1
      omega
    · omega

theorem readCollectionAllocF_SF (fuel : Nat) :
    (∀ (o : Order) (s : Bytes) (gs : List G) (r : Bytes), readCollectionF fuel o s = .ok (gs, r) →
      readCollectionAllocF fuel o s + 200 * r.length ≤ 200 * s.length) ∧
    (∀ (o : Order) (s : Bytes), readCollectionAllocF fuel o s ≤ 200 * s.length + 165608) := by
  induction fuel with
  | zero =>
    constructor
    · intro o s gs r h; simp only [readCollectionF] at h; contradiction
    · intro o s; simp only [readCollectionAllocF]; omega
  | succ fuel ih =>
    obtain ⟨ihS, ihF⟩ := ih
    have dS := fun t g sr r (hd : decodeWith (readCollectionF fuel) t = .ok (g, sr, r)) =>
      decodeWithAlloc_S _ (readCollectionAllocF fuel) ihS hd
    have dF := decodeWithAlloc_F (readCollectionAllocF fuel) ihF
    constructor
    · intro o s gs r h
      simp only [readCollectionF] at h
      rw [readCollectionAllocF]
      split at h
      · rename_i num s1 hn
        simp only [hn]
        have := readU32_len hn
        have := collLoopAlloc_S _ _ dS num h
        have := allocCap_le' num wkb_MaxMultiAlloc
        simp only [szIface]
        omega
      all_goals contradiction
    · intro o s
      rw [readCollectionAllocF]
      split
      · rename_i num s1 hn
        have := readU32_len hn
        have := collLoopAlloc_F _ _ dS dF num s1
        have := allocCap_le' num wkb_MaxMultiAlloc
        simp only [szIface, wkb_MaxMultiAlloc] at *
        omega
      · omega

/-- every outcome (value, error): `200·len + 164808` -/
theorem decodeAlloc_le' (bs : Bytes) : decodeAlloc bs ≤ allocPerByte * bs.length + allocFixed := by
  have := decodeWithAlloc_F _ (readCollectionAllocF_SF wkb_MaxCollectionDepth).2 bs
  simp only [decodeAlloc, allocPerByte, allocFixed, szBuf, szSlice, szPoint, wkb_MaxMultiAlloc,
    wkb_MaxPointsAlloc]
  omega

/-- a succeeding decode needs no fixed part: every capped `make` was paid for by consumed input -/
theorem decodeAlloc_ok_le' (bs : Bytes) (g : G) (s : Nat) (h : decode bs = .ok (g, s)) :
    decodeAlloc bs ≤ allocPerByte * bs.length := by
  unfold decode decodeStream at h
  split at h
  · rename_i hd
    have := decodeWithAlloc_S _ _ (readCollectionAllocF_SF wkb_MaxCollectionDepth).1 hd
    simp only [decodeAlloc, allocPerByte]
    omega
  all_goals contradiction

end Orb.WKB
