/-
  C14 fill — the polygon interior clause of C14 for the model `Orb.TileCover.polygon`
  (exact arithmetic: ordered field with floor).

  * F1 `ring_trace_rows_even`: after the extremum filter every row of the trace of a closed ring has an
    even number of entries (no general-position hypothesis).
  * F2 `fillPairs_hit` (in `C14FillComb`), `polygon_boundary_in_cover`.
  * F3/F4 `polygon_interior_cover`: every tile whose open square contains a point that the even-odd rule
    (crossing number of the horizontal ray, all rings together: holes) puts inside is in the cover;
    `polygon_interior_full_holds` proves the statement that `OrbProofs.C14` only states;
    `multiPolygon_interior_cover`, `cover_polygon_interior`, `cover_multiPolygon_interior`.
-/
import OrbProofs.C14
import OrbProofs.C14FillRing

namespace Orb.TileCover
open Orb Orb.Tile

section fill
variable {K : Type} [Field K] [LinearOrder K] [IsStrictOrderedRing K] [FloorRing K]
set_option linter.unusedSectionVars false

/-! ### one closed ring -/

theorem mem_rows (prev : Option ℕ) (l : List (ℕ × ℕ)) (e : ℕ × ℕ) (h : e ∈ rows prev l) : e ∈ l := by
  induction l generalizing prev with
  | nil => simp [rows] at h
  | cons c t ih =>
    simp only [rows, List.mem_append] at h
    rcases h with h | h
    · split at h
      · simp at h
      · rw [List.mem_singleton.mp h]; exact List.mem_cons_self
    · exact List.mem_cons_of_mem _ (ih _ h)

theorem mem_finalRing (cells : List (ℕ × ℕ)) (e : ℕ × ℕ) (h : e ∈ finalRing cells) : e ∈ cells := by
  cases cells with
  | nil => simp [finalRing] at h
  | cons c0 t =>
    simp only [finalRing] at h
    split at h
    · exact mem_rows _ _ _ (List.dropLast_subset _ h)
    · exact mem_rows _ _ _ h

/-- `line` on a closed ring with the ring flag, as a list of visited cells. -/
theorem line_ring_trace (zoom fuel : Nat) (i j : ℕ) (q : Pt K)
    (hqx : (i : K) < q.x ∧ q.x < (i : K) + 1) (hqy : (j : K) < q.y ∧ q.y < (j : K) + 1)
    (set : List Tile) (pts : List (Pt K)) (hnn : ∀ p ∈ pts, 0 ≤ p.x ∧ 0 ≤ p.y)
    (hclosed : pts.head? = pts.getLast?) (set' : List Tile) (ring : Option (List (ℕ × ℕ)))
    (h : line (opsK K) zoom fuel set pts (some []) = .ok (set', ring)) :
    ∃ cells : List (ℕ × ℕ), ring = some (finalRing cells) ∧
      (∀ c ∈ cells, tileOf zoom c ∈ set') ∧ (∀ t ∈ set, t ∈ set') ∧
      chainO Near none cells ∧ (∀ c0 t, cells = c0 :: t → Near (lastOf c0 t) c0) ∧
      ((∀ c ∈ cells, c ≠ (i, j)) → xPar q pts = cycPar i j cells) := by
  unfold line at h
  cases hl : lineSegs (opsK K) zoom fuel ⟨set, some [], -1, -1, 0, 0⟩ pts with
  | none => rw [hl] at h; simp at h
  | some s =>
    rw [hl] at h
    simp only at h
    obtain ⟨cells, c1, c2, c3, c4, c5, c6, c7, c8⟩ :=
      lineSegs_trace zoom fuel i j q hqx hqy pts ⟨set, some [], -1, -1, 0, 0⟩ s none hnn
        ⟨rfl, rfl⟩ (fun p v hp _ => by cases hp) hl
    simp only [Option.map_some, List.nil_append, Option.map_none] at c3
    rw [c3] at h
    simp only at h
    cases pts with
    | nil =>
      -- no vertex: nothing happens
      simp only [lineSegs, Option.some.injEq] at hl
      subst hl
      simp only at c3
      have hr : rows none cells = [] := by
        have := Option.some.inj c3
        exact this.symm
      rw [hr] at h
      simp only [List.head?_nil, Res.ok.injEq, Prod.mk.injEq] at h
      obtain ⟨h1, h2⟩ := h
      refine ⟨[], by rw [← h2]; rfl, by simp, fun t ht => by rw [← h1]; exact ht, trivial,
        by simp, fun _ => rfl⟩
    | cons v0 rest =>
      obtain ⟨vl, hvl⟩ : ∃ vl, (v0 :: rest).getLast? = some vl := by
        rw [← hclosed]; exact ⟨v0, rfl⟩
      have hv : vl = v0 := by
        rw [← hclosed] at hvl
        simpa using hvl.symm
      subst hv
      cases cells with
      | nil =>
        simp only [rows, List.head?_nil, Res.ok.injEq, Prod.mk.injEq] at h
        obtain ⟨h1, h2⟩ := h
        refine ⟨[], by rw [← h2]; rfl, by simp, fun t ht => by rw [← h1]; exact c2 t ht, trivial,
          by simp, ?_⟩
        intro hne
        have := c8 (by simp) vl vl rfl hvl
        simp only [raParO, lastO, Option.getD_none, bne_self_eq_false, Bool.bne_false] at this
        rw [this]; rfl
      | cons c0 t =>
        have hlast : lastO none (c0 :: t) = some (lastOf c0 t) := lastO_cons_eq _ _ _
        rw [hlast] at c4 c6
        obtain ⟨_, _, hy, _⟩ := c4
        have hc0 : c0 = cellOf vl := c7 rfl c0 vl rfl rfl
        have hinL : InSq (lastOf c0 t) vl.x vl.y := c6 _ vl rfl hvl
        have hin0 : InSq c0 vl.x vl.y := by
          rw [hc0]; exact inSq_cellOf vl (hnn vl List.mem_cons_self).1 (hnn vl List.mem_cons_self).2
        have hu : (opsK K).toU32 s.y = (lastOf c0 t).2 := by
          show ⌊s.y⌋.toNat = _
          rw [hy, Int.floor_natCast, Int.toNat_natCast]
        rw [rows_none_cons] at h
        simp only [List.head?_cons, hu] at h
        refine ⟨c0 :: t, ?_, ?_, ?_, c5, ?_, ?_⟩
        · simp only [finalRing, rows_none_cons]
          by_cases hd : (lastOf c0 t).2 = c0.2
          · simp only [hd, beq_self_eq_true, if_true, Res.ok.injEq, Prod.mk.injEq] at h
            simp only [hd, if_true]
            exact h.2.symm
          · have hd' : ((lastOf c0 t).2 == c0.2) = false := by simpa using hd
            simp only [hd', Bool.false_eq_true, if_false, Res.ok.injEq, Prod.mk.injEq] at h
            simp only [hd, if_false]
            exact h.2.symm
        · have hs : set' = s.set := by
            split at h <;> simp only [Res.ok.injEq, Prod.mk.injEq] at h <;> exact h.1.symm
          rw [hs]; exact c1
        · have hs : set' = s.set := by
            split at h <;> simp only [Res.ok.injEq, Prod.mk.injEq] at h <;> exact h.1.symm
          rw [hs]; exact c2
        · intro c0' t' he
          cases he
          exact near_of_inSq hinL hin0
        · intro hne
          have P := c8 (by simpa using hne) vl vl rfl hvl
          rw [hlast] at P
          simp only [Option.getD_some, Option.getD_none, raParO, ← hc0] at P
          have J := junction i j q hqy (lastOf c0 t) c0 vl.x vl.y hinL hin0
            (hne _ (lastOf_mem c0 t)) (hne _ List.mem_cons_self)
          simp only [cycPar]
          simp only [psi] at P
          revert P J
          generalize xPar q (vl :: rest) = X
          generalize raParO i j (some c0) t = T
          generalize (Rt i j (lastOf c0 t) && decide (q.y < vl.y)) = PL
          generalize (Rt i j c0 && decide (q.y < vl.y)) = P0
          generalize RA (rightOf i) j (lastOf c0 t) c0 = A
          cases X <;> cases T <;> cases PL <;> cases P0 <;> cases A <;> decide

/-- The filtered trace of one closed ring: (F1) every row has an even number of entries, the entries are
    visited cells, and — when `(i, j)` is not visited — the entries of row `j` right of `i` count the
    crossings of the ray from `q` modulo 2. -/
theorem ring_intersections_spec (zoom fuel : Nat) (i j : ℕ) (q : Pt K)
    (hqx : (i : K) < q.x ∧ q.x < (i : K) + 1) (hqy : (j : K) < q.y ∧ q.y < (j : K) + 1)
    (set : List Tile) (pts : List (Pt K)) (hnn : ∀ p ∈ pts, 0 ≤ p.x ∧ 0 ≤ p.y)
    (hclosed : pts.head? = pts.getLast?) (set' : List Tile) (ring : Option (List (ℕ × ℕ)))
    (h : line (opsK K) zoom fuel set pts (some []) = .ok (set', ring)) :
    (∀ t ∈ set, t ∈ set') ∧
    (∀ e ∈ ringIntersections (ring.getD []), tileOf zoom e ∈ set') ∧
    (∀ y, ((ringIntersections (ring.getD [])).filter (fun e => e.2 = y)).length % 2 = 0) ∧
    (tileOf zoom (i, j) ∉ set' →
      (((ringIntersections (ring.getD [])).filter (fun e => e.2 = j ∧ i < e.1)).length % 2 == 1) =
        xPar q pts) := by
  obtain ⟨cells, hr, hmem, hsup, hch, hcl, hpot⟩ :=
    line_ring_trace zoom fuel i j q hqx hqy set pts hnn hclosed set' ring h
  subst hr
  simp only [Option.getD_some]
  have hL := finalRing_cycStepL cells hch hcl
  have hC := cycStep_of_L _ hL
  refine ⟨hsup, ?_, ?_, ?_⟩
  · intro e he
    exact hmem e (mem_finalRing cells e (cov_ringIntersections_subset _ e he))
  · intro y
    exact ringIntersections_row_even y _ hC
  · intro hnot
    have hne : ∀ c ∈ cells, c ≠ (i, j) := by
      intro c hc e
      apply hnot
      rw [← e]; exact hmem c hc
    have hchS : chainO (NearS i j) none cells := by
      clear hpot hL hC hcl
      have : ∀ (cur : Option (ℕ × ℕ)) (l : List (ℕ × ℕ)), (∀ c ∈ cur.toList ++ l, c ≠ (i, j)) →
          chainO Near cur l → chainO (NearS i j) cur l := by
        intro cur l
        induction l generalizing cur with
        | nil => intro _ _; trivial
        | cons c t ih =>
          intro hn hc
          cases cur with
          | none =>
            exact ih (some c) (by simpa using hn) hc
          | some p =>
            obtain ⟨h1, h2⟩ := hc
            refine ⟨nearS_of_near h1 (hn p (by simp)) (hn c (by simp)), ?_⟩
            exact ih (some c) (fun x hx => hn x (by
              simp only [Option.toList_some, List.cons_append, List.nil_append, List.mem_cons] at hx ⊢
              rcases hx with hx | hx
              · exact Or.inr (Or.inl hx)
              · exact Or.inr (Or.inr hx))) h2
      exact this none cells (by simpa using hne) hch
    have hclS : ∀ c0 t, cells = c0 :: t → NearS i j (lastOf c0 t) c0 := by
      intro c0 t he
      refine nearS_of_near (hcl c0 t he) (hne _ ?_) (hne _ ?_)
      · rw [he]; exact lastOf_mem c0 t
      · rw [he]; exact List.mem_cons_self
    have hpar := ringIntersections_parity (rightOf i) j _ hC
    have hcnt := cycPar_eq_count i j (finalRing cells)
    have hfin := finalRing_cycPar i j cells hchS hclS
    have hfilter : (fun e : ℕ × ℕ => decide (e.2 = j ∧ i < e.1)) =
        (fun e => decide (e.2 = j) && rightOf i e) := by
      funext e; simp [rightOf]
    rw [hfilter, hpar, ← hcnt, hfin, hpot hne]

/-! ### all rings of a polygon -/

/-- parity of the number of edges of all rings crossed by the horizontal ray from `q` (even-odd rule over
    all rings: holes count) -/
def xParRings (q : Pt K) : List (List (Pt K)) → Bool
  | [] => false
  | r :: rs => xPar q r != xParRings q rs

theorem parity_add (a b : ℕ) : ((a + b) % 2 == 1) = ((a % 2 == 1) != (b % 2 == 1)) := by
  rcases Nat.mod_two_eq_zero_or_one a with ha | ha <;> rcases Nat.mod_two_eq_zero_or_one b with hb | hb <;>
    simp [Nat.add_mod, ha, hb]

/-- The ring loop of `polygon`: the set only grows, and the intersections added are visited cells, have an
    even number of entries in every row, and — when `(i, j)` is not visited — their entries of row `j`
    right of `i` count the crossings of the ray from `q` modulo 2. -/
theorem traceRings_spec (zoom fuel : Nat) (i j : ℕ) (q : Pt K)
    (hqx : (i : K) < q.x ∧ q.x < (i : K) + 1) (hqy : (j : K) < q.y ∧ q.y < (j : K) + 1) :
    ∀ (rings : List (List (Pt K))) (set : List Tile) (inter : List (ℕ × ℕ)) (set' : List Tile)
      (inter' : List (ℕ × ℕ)),
      (∀ r ∈ rings, r.head? = r.getLast? ∧ ∀ p ∈ r, 0 ≤ p.x ∧ 0 ≤ p.y) →
      traceRings (opsK K) zoom fuel set inter rings = .ok (set', inter') →
      (∀ t ∈ set, t ∈ set') ∧
      ∃ extra, inter' = inter ++ extra ∧ (∀ e ∈ extra, tileOf zoom e ∈ set') ∧
        (∀ y, (extra.filter (fun e => e.2 = y)).length % 2 = 0) ∧
        (tileOf zoom (i, j) ∉ set' →
          ((extra.filter (fun e => e.2 = j ∧ i < e.1)).length % 2 == 1) = xParRings q rings) := by
  intro rings
  induction rings with
  | nil =>
    intro set inter set' inter' _ h
    simp only [traceRings, Res.ok.injEq, Prod.mk.injEq] at h
    obtain ⟨h1, h2⟩ := h
    subst h1; subst h2
    exact ⟨fun t ht => ht, [], by simp, by simp, by simp, fun _ => rfl⟩
  | cons r rs ih =>
    intro set inter set' inter' hr h
    simp only [traceRings] at h
    cases hline : line (opsK K) zoom fuel set r (some []) with
    | err e => rw [hline] at h; simp at h
    | panic w => rw [hline] at h; simp at h
    | ok res =>
      obtain ⟨set1, ring⟩ := res
      rw [hline] at h
      simp only at h
      have hr0 := hr r List.mem_cons_self
      obtain ⟨A1, A2, A3, A4⟩ :=
        ring_intersections_spec zoom fuel i j q hqx hqy set r hr0.2 hr0.1 set1 ring hline
      obtain ⟨B1, extra2, B2, B3, B4, B5⟩ := ih set1 _ set' inter'
        (fun r' hr' => hr r' (List.mem_cons_of_mem _ hr')) h
      refine ⟨fun t ht => B1 t (A1 t ht), ringIntersections (ring.getD []) ++ extra2, ?_, ?_, ?_, ?_⟩
      · rw [B2, List.append_assoc]
      · intro e he
        rcases List.mem_append.mp he with he | he
        · exact B1 _ (A2 e he)
        · exact B3 e he
      · intro y
        rw [List.filter_append, List.length_append]
        have := A3 y
        have := B4 y
        omega
      · intro hnot
        rw [List.filter_append, List.length_append, parity_add]
        rw [A4 (fun hh => hnot (B1 _ hh)), B5 hnot]
        rfl

/-- **F3/F4 for the model.**  In exact arithmetic, for closed rings with non-negative tile-space
    coordinates: if the open square of the tile `(i, j)` contains a point `q` such that the horizontal ray
    from `q` crosses an odd number of edges of the rings (even-odd rule over all rings, i.e. holes are
    respected), the tile is in the polygon's cover.  No general-position hypothesis is needed. -/
theorem polygon_interior_cover (zoom fuel : Nat) (set : List Tile) (rings : List (List (Pt K)))
    (S : List Tile) (hr : ∀ r ∈ rings, r.head? = r.getLast? ∧ ∀ p ∈ r, 0 ≤ p.x ∧ 0 ≤ p.y)
    (h : polygon (opsK K) zoom fuel set rings = .ok S) (i j : ℕ) (q : Pt K)
    (hqx : (i : K) < q.x ∧ q.x < (i : K) + 1) (hqy : (j : K) < q.y ∧ q.y < (j : K) + 1)
    (hodd : xParRings q rings = true) : (⟨i, j, zoom⟩ : Tile) ∈ S := by
  unfold polygon at h
  cases ht : traceRings (opsK K) zoom fuel set [] rings with
  | err e => rw [ht] at h; simp at h
  | panic w => rw [ht] at h; simp at h
  | ok res =>
    obtain ⟨set', inter⟩ := res
    rw [ht] at h
    simp only at h
    split at h
    · cases h
    · simp only [Res.ok.injEq] at h
      subst h
      obtain ⟨_, extra, E1, E2, E3, E4⟩ := traceRings_spec zoom fuel i j q hqx hqy rings set [] set' inter hr ht
      simp only [List.nil_append] at E1
      subst E1
      by_cases hin : tileOf zoom (i, j) ∈ set'
      · exact List.mem_append_right _ hin
      · apply List.mem_append_left
        apply fillPairs_hit zoom i j (sortYX inter) (sortYX_sorted inter)
        · intro y
          rw [((sortYX_perm inter).filter _).length_eq]
          exact E3 y
        · intro hmem
          exact hin (E2 _ ((sortYX_perm inter).mem_iff.mp hmem))
        · rw [((sortYX_perm inter).filter _).length_eq]
          have := E4 hin
          rw [hodd] at this
          simpa using this

/-- a polygon's cover contains the set it started from -/
theorem polygon_mono (zoom fuel : Nat) (set : List Tile) (rings : List (List (Pt K)))
    (S : List Tile) (hr : ∀ r ∈ rings, r.head? = r.getLast? ∧ ∀ p ∈ r, 0 ≤ p.x ∧ 0 ≤ p.y)
    (h : polygon (opsK K) zoom fuel set rings = .ok S) : ∀ t ∈ set, t ∈ S := by
  unfold polygon at h
  cases ht : traceRings (opsK K) zoom fuel set [] rings with
  | err e => rw [ht] at h; simp at h
  | panic w => rw [ht] at h; simp at h
  | ok res =>
    obtain ⟨set', inter⟩ := res
    rw [ht] at h
    simp only at h
    split at h
    · cases h
    · simp only [Res.ok.injEq] at h
      subst h
      have hq : ((0 : ℕ) : K) < (1 / 2 : K) ∧ (1 / 2 : K) < ((0 : ℕ) : K) + 1 := by
        constructor <;> norm_num
      obtain ⟨M, _⟩ := traceRings_spec zoom fuel 0 0 (⟨1 / 2, 1 / 2⟩ : Pt K) hq hq rings set [] set' inter hr ht
      intro t ht'
      exact List.mem_append_right _ (M t ht')

/-! ### the crossing count of `polygon_interior_full` -/

theorem xPar_eq_count (q : Pt K) (r : List (Pt K)) :
    (((r.zip (r.drop 1)).filter fun e =>
        decide ((e.1.y > q.y) ≠ (e.2.y > q.y)) &&
        decide (q.x < e.1.x + (q.y - e.1.y) * (e.2.x - e.1.x) / (e.2.y - e.1.y))).length % 2 == 1) =
      xPar q r := by
  induction r with
  | nil => rfl
  | cons a t ih =>
    cases t with
    | nil => rfl
    | cons b t =>
      have hz : (a :: b :: t).zip ((a :: b :: t).drop 1) = (a, b) :: (b :: t).zip ((b :: t).drop 1) := by
        simp
      rw [hz, List.filter_cons, xPar, ← ih]
      by_cases hx : xCross q a b = true
      · have : (decide ((a.y > q.y) ≠ (b.y > q.y)) &&
            decide (q.x < a.x + (q.y - a.y) * (b.x - a.x) / (b.y - a.y))) = true := hx
        simp only [this, if_true, List.length_cons, hx]
        rw [parity_add]
        simp
      · have hx' : xCross q a b = false := by simpa using hx
        have : (decide ((a.y > q.y) ≠ (b.y > q.y)) &&
            decide (q.x < a.x + (q.y - a.y) * (b.x - a.x) / (b.y - a.y))) = false := hx'
        simp only [this, hx', Bool.false_eq_true, if_false, Bool.false_bne]

theorem xParRings_eq_count (q : Pt K) (rings : List (List (Pt K))) :
    ((rings.flatMap fun r => (r.zip (r.drop 1)).filter fun e =>
        decide ((e.1.y > q.y) ≠ (e.2.y > q.y)) &&
        decide (q.x < e.1.x + (q.y - e.1.y) * (e.2.x - e.1.x) / (e.2.y - e.1.y))).length % 2 == 1) =
      xParRings q rings := by
  induction rings with
  | nil => rfl
  | cons r rs ih =>
    rw [List.flatMap_cons, List.length_append, parity_add, xPar_eq_count, ih, xParRings]

end fill

/-- **The statement that `OrbProofs.C14` only states is a theorem** (its hypothesis that `q.y` avoids
    the vertices' ordinates is not even needed). -/
theorem polygon_interior_full_holds : polygon_interior_full := by
  intro K _ _ _ _ zoom fuel rings S hr h i j q h1 h2 h3 h4 _ hodd
  apply polygon_interior_cover zoom fuel [] rings S hr h i j q ⟨h1, h2⟩ ⟨h3, h4⟩
  rw [← xParRings_eq_count]
  simpa using hodd

end Orb.TileCover
