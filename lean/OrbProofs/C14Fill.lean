/-
  C14 fill — the polygon interior clause of C14 for the model `Orb.TileCover.polygon`
  (exact arithmetic: ordered field with floor).

  * F1 `ring_trace_rows_even`: after the extremum filter every row of the trace of a closed ring has an
    even number of entries (no general-position hypothesis).
  * F2 `fillPairs_hit` (in `C14FillComb`), `polygon_boundary_in_cover`.
  * F3/F4 `polygon_interior_cover`: every tile whose open square contains a point that the even-odd rule
    (crossing number of the horizontal ray, all rings together: holes) puts inside is in the cover;
    `polygon_interior_full_holds` proves the statement that `OrbProofs.C14` only states;
    `multiPolygon_interior_cover`, `cover_polygon_interior`, `cover_multiPolygon_interior`.
-/
import OrbProofs.C14
import OrbProofs.C14FillRing
import Mathlib.Data.Rat.Floor

namespace Orb.TileCover
open Orb Orb.Tile

section fill
variable {K : Type} [Field K] [LinearOrder K] [IsStrictOrderedRing K] [FloorRing K]
set_option linter.unusedSectionVars false

/-! ### one closed ring -/

theorem mem_rows (prev : Option ℕ) (l : List (ℕ × ℕ)) (e : ℕ × ℕ) (h : e ∈ rows prev l) : e ∈ l := by
  induction l generalizing prev with
  | nil => simp [rows] at h
  | cons c t ih =>
    simp only [rows, List.mem_append] at h
    rcases h with h | h
    · split at h
      · simp at h
      · rw [List.mem_singleton.mp h]; exact List.mem_cons_self
    · exact List.mem_cons_of_mem _ (ih _ h)

theorem mem_finalRing (cells : List (ℕ × ℕ)) (e : ℕ × ℕ) (h : e ∈ finalRing cells) : e ∈ cells := by
  cases cells with
  | nil => simp [finalRing] at h
  | cons c0 t =>
    simp only [finalRing] at h
    split at h
    · exact mem_rows _ _ _ (List.dropLast_subset _ h)
    · exact mem_rows _ _ _ h

/-- `line` on a closed ring with the ring flag, as a list of visited cells. -/
theorem line_ring_trace (zoom fuel : Nat) (i j : ℕ) (q : Pt K)
    (hqx : (i : K) < q.x ∧ q.x < (i : K) + 1) (hqy : (j : K) < q.y ∧ q.y < (j : K) + 1)
    (set : List Tile) (pts : List (Pt K)) (hnn : ∀ p ∈ pts, 0 ≤ p.x ∧ 0 ≤ p.y)
    (hclosed : pts.head? = pts.getLast?) (set' : List Tile) (ring : Option (List (ℕ × ℕ)))
    (h : line (opsK K) zoom fuel set pts (some []) = .ok (set', ring)) :
    ∃ cells : List (ℕ × ℕ), ring = some (finalRing cells) ∧
      (∀ c ∈ cells, tileOf zoom c ∈ set') ∧ (∀ t ∈ set, t ∈ set') ∧
      chainO Near none cells ∧ (∀ c0 t, cells = c0 :: t → Near (lastOf c0 t) c0) ∧
      ((∀ c ∈ cells, c ≠ (i, j)) → xPar q pts = cycPar i j cells) := by
  unfold line at h
  cases hl : lineSegs (opsK K) zoom fuel ⟨set, some [], -1, -1, 0, 0⟩ pts with
  | none => rw [hl] at h; simp at h
  | some s =>
    rw [hl] at h
    simp only at h
    obtain ⟨cells, c1, c2, c3, c4, c5, c6, c7, c8⟩ :=
      lineSegs_trace zoom fuel i j q hqx hqy pts ⟨set, some [], -1, -1, 0, 0⟩ s none hnn
        ⟨rfl, rfl⟩ (fun p v hp _ => by cases hp) hl
    simp only [Option.map_some, List.nil_append, Option.map_none] at c3
    rw [c3] at h
    simp only at h
    cases pts with
    | nil =>
      -- no vertex: nothing happens
      simp only [lineSegs, Option.some.injEq] at hl
      subst hl
      simp only at c3
      have hr : rows none cells = [] := by
        have := Option.some.inj c3
        exact this.symm
      rw [hr] at h
      simp only [List.head?_nil, Res.ok.injEq, Prod.mk.injEq] at h
      obtain ⟨h1, h2⟩ := h
      refine ⟨[], by rw [← h2]; rfl, by simp, fun t ht => by rw [← h1]; exact ht, trivial,
        by simp, fun _ => rfl⟩
    | cons v0 rest =>
      obtain ⟨vl, hvl⟩ : ∃ vl, (v0 :: rest).getLast? = some vl := by
        rw [← hclosed]; exact ⟨v0, rfl⟩
      have hv : vl = v0 := by
        rw [← hclosed] at hvl
        simpa using hvl.symm
      subst hv
      cases cells with
      | nil =>
        simp only [rows, List.head?_nil, Res.ok.injEq, Prod.mk.injEq] at h
        obtain ⟨h1, h2⟩ := h
        refine ⟨[], by rw [← h2]; rfl, by simp, fun t ht => by rw [← h1]; exact c2 t ht, trivial,
          by simp, ?_⟩
        intro hne
        have := c8 (by simp) vl vl rfl hvl
        simp only [raParO, lastO, Option.getD_none, bne_self_eq_false, Bool.bne_false] at this
        rw [this]; rfl
      | cons c0 t =>
        have hlast : lastO none (c0 :: t) = some (lastOf c0 t) := lastO_cons_eq _ _ _
        rw [hlast] at c4 c6
        obtain ⟨_, _, hy, _⟩ := c4
        have hc0 : c0 = cellOf vl := c7 rfl c0 vl rfl rfl
        have hinL : InSq (lastOf c0 t) vl.x vl.y := c6 _ vl rfl hvl
        have hin0 : InSq c0 vl.x vl.y := by
          rw [hc0]; exact inSq_cellOf vl (hnn vl List.mem_cons_self).1 (hnn vl List.mem_cons_self).2
        have hu : (opsK K).toU32 s.y = (lastOf c0 t).2 := by
          show ⌊s.y⌋.toNat = _
          rw [hy, Int.floor_natCast, Int.toNat_natCast]
        rw [rows_none_cons] at h
        simp only [List.head?_cons, hu] at h
        refine ⟨c0 :: t, ?_, ?_, ?_, c5, ?_, ?_⟩
        · simp only [finalRing, rows_none_cons]
          by_cases hd : (lastOf c0 t).2 = c0.2
          · simp only [hd, beq_self_eq_true, if_true, Res.ok.injEq, Prod.mk.injEq] at h
            simp only [hd, if_true]
            exact h.2.symm
          · have hd' : ((lastOf c0 t).2 == c0.2) = false := by simpa using hd
            simp only [hd', Bool.false_eq_true, if_false, Res.ok.injEq, Prod.mk.injEq] at h
            simp only [hd, if_false]
            exact h.2.symm
        · have hs : set' = s.set := by
            split at h <;> simp only [Res.ok.injEq, Prod.mk.injEq] at h <;> exact h.1.symm
          rw [hs]; exact c1
        · have hs : set' = s.set := by
            split at h <;> simp only [Res.ok.injEq, Prod.mk.injEq] at h <;> exact h.1.symm
          rw [hs]; exact c2
        · intro c0' t' he
          cases he
          exact near_of_inSq hinL hin0
        · intro hne
          have P := c8 (by simpa using hne) vl vl rfl hvl
          rw [hlast] at P
          simp only [Option.getD_some, Option.getD_none, raParO, ← hc0] at P
          have J := junction i j q hqy (lastOf c0 t) c0 vl.x vl.y hinL hin0
            (hne _ (lastOf_mem c0 t)) (hne _ List.mem_cons_self)
          simp only [cycPar]
          simp only [psi] at P
          revert P J
          generalize xPar q (vl :: rest) = X
          generalize raParO i j (some c0) t = T
          generalize (Rt i j (lastOf c0 t) && decide (q.y < vl.y)) = PL
          generalize (Rt i j c0 && decide (q.y < vl.y)) = P0
          generalize RA (rightOf i) j (lastOf c0 t) c0 = A
          cases X <;> cases T <;> cases PL <;> cases P0 <;> cases A <;> decide

/-- The filtered trace of one closed ring: (F1) every row has an even number of entries, the entries are
    visited cells, and — when `(i, j)` is not visited — the entries of row `j` right of `i` count the
    crossings of the ray from `q` modulo 2. -/
theorem ring_intersections_spec (zoom fuel : Nat) (i j : ℕ) (q : Pt K)
    (hqx : (i : K) < q.x ∧ q.x < (i : K) + 1) (hqy : (j : K) < q.y ∧ q.y < (j : K) + 1)
    (set : List Tile) (pts : List (Pt K)) (hnn : ∀ p ∈ pts, 0 ≤ p.x ∧ 0 ≤ p.y)
    (hclosed : pts.head? = pts.getLast?) (set' : List Tile) (ring : Option (List (ℕ × ℕ)))
    (h : line (opsK K) zoom fuel set pts (some []) = .ok (set', ring)) :
    (∀ t ∈ set, t ∈ set') ∧
    (∀ e ∈ ringIntersections (ring.getD []), tileOf zoom e ∈ set') ∧
    (∀ y, ((ringIntersections (ring.getD [])).filter (fun e => e.2 = y)).length % 2 = 0) ∧
    (tileOf zoom (i, j) ∉ set' →
      (((ringIntersections (ring.getD [])).filter (fun e => e.2 = j ∧ i < e.1)).length % 2 == 1) =
        xPar q pts) := by
  obtain ⟨cells, hr, hmem, hsup, hch, hcl, hpot⟩ :=
    line_ring_trace zoom fuel i j q hqx hqy set pts hnn hclosed set' ring h
  subst hr
  simp only [Option.getD_some]
  have hL := finalRing_cycStepL cells hch hcl
  have hC := cycStep_of_L _ hL
  refine ⟨hsup, ?_, ?_, ?_⟩
  · intro e he
    exact hmem e (mem_finalRing cells e (cov_ringIntersections_subset _ e he))
  · intro y
    exact ringIntersections_row_even y _ hC
  · intro hnot
    have hne : ∀ c ∈ cells, c ≠ (i, j) := by
      intro c hc e
      apply hnot
      rw [← e]; exact hmem c hc
    have hchS : chainO (NearS i j) none cells := by
      clear hpot hL hC hcl
      have : ∀ (cur : Option (ℕ × ℕ)) (l : List (ℕ × ℕ)), (∀ c ∈ cur.toList ++ l, c ≠ (i, j)) →
          chainO Near cur l → chainO (NearS i j) cur l := by
        intro cur l
        induction l generalizing cur with
        | nil => intro _ _; trivial
        | cons c t ih =>
          intro hn hc
          cases cur with
          | none =>
            exact ih (some c) (by simpa using hn) hc
          | some p =>
            obtain ⟨h1, h2⟩ := hc
            refine ⟨nearS_of_near h1 (hn p (by simp)) (hn c (by simp)), ?_⟩
            exact ih (some c) (fun x hx => hn x (by
              simp only [Option.toList_some, List.cons_append, List.nil_append, List.mem_cons] at hx ⊢
              rcases hx with hx | hx
              · exact Or.inr (Or.inl hx)
              · exact Or.inr (Or.inr hx))) h2
      exact this none cells (by simpa using hne) hch
    have hclS : ∀ c0 t, cells = c0 :: t → NearS i j (lastOf c0 t) c0 := by
      intro c0 t he
      refine nearS_of_near (hcl c0 t he) (hne _ ?_) (hne _ ?_)
      · rw [he]; exact lastOf_mem c0 t
      · rw [he]; exact List.mem_cons_self
    have hpar := ringIntersections_parity (rightOf i) j _ hC
    have hcnt := cycPar_eq_count i j (finalRing cells)
    have hfin := finalRing_cycPar i j cells hchS hclS
    have hfilter : (fun e : ℕ × ℕ => decide (e.2 = j ∧ i < e.1)) =
        (fun e => decide (e.2 = j) && rightOf i e) := by
      funext e; simp [rightOf]
    rw [hfilter, hpar, ← hcnt, hfin, hpot hne]

/-! ### all rings of a polygon -/

/-- parity of the number of edges of all rings crossed by the horizontal ray from `q` (even-odd rule over
    all rings: holes count) -/
def xParRings (q : Pt K) : List (List (Pt K)) → Bool
  | [] => false
  | r :: rs => xPar q r != xParRings q rs

theorem parity_add (a b : ℕ) : ((a + b) % 2 == 1) = ((a % 2 == 1) != (b % 2 == 1)) := by
  rcases Nat.mod_two_eq_zero_or_one a with ha | ha <;> rcases Nat.mod_two_eq_zero_or_one b with hb | hb <;>
    simp [Nat.add_mod, ha, hb]

/-- The ring loop of `polygon`: the set only grows, and the intersections added are visited cells, have an
    even number of entries in every row, and — when `(i, j)` is not visited — their entries of row `j`
    right of `i` count the crossings of the ray from `q` modulo 2. -/
theorem traceRings_spec (zoom fuel : Nat) (i j : ℕ) (q : Pt K)
    (hqx : (i : K) < q.x ∧ q.x < (i : K) + 1) (hqy : (j : K) < q.y ∧ q.y < (j : K) + 1) :
    ∀ (rings : List (List (Pt K))) (set : List Tile) (inter : List (ℕ × ℕ)) (set' : List Tile)
      (inter' : List (ℕ × ℕ)),
      (∀ r ∈ rings, r.head? = r.getLast? ∧ ∀ p ∈ r, 0 ≤ p.x ∧ 0 ≤ p.y) →
      traceRings (opsK K) zoom fuel set inter rings = .ok (set', inter') →
      (∀ t ∈ set, t ∈ set') ∧
      ∃ extra, inter' = inter ++ extra ∧ (∀ e ∈ extra, tileOf zoom e ∈ set') ∧
        (∀ y, (extra.filter (fun e => e.2 = y)).length % 2 = 0) ∧
        (tileOf zoom (i, j) ∉ set' →
          ((extra.filter (fun e => e.2 = j ∧ i < e.1)).length % 2 == 1) = xParRings q rings) := by
  intro rings
  induction rings with
  | nil =>
    intro set inter set' inter' _ h
    simp only [traceRings, Res.ok.injEq, Prod.mk.injEq] at h
    obtain ⟨h1, h2⟩ := h
    subst h1; subst h2
    exact ⟨fun t ht => ht, [], by simp, by simp, by simp, fun _ => rfl⟩
  | cons r rs ih =>
    intro set inter set' inter' hr h
    simp only [traceRings] at h
    cases hline : line (opsK K) zoom fuel set r (some []) with
    | err e => rw [hline] at h; simp at h
    | panic w => rw [hline] at h; simp at h
    | ok res =>
      obtain ⟨set1, ring⟩ := res
      rw [hline] at h
      simp only at h
      have hr0 := hr r List.mem_cons_self
      obtain ⟨A1, A2, A3, A4⟩ :=
        ring_intersections_spec zoom fuel i j q hqx hqy set r hr0.2 hr0.1 set1 ring hline
      obtain ⟨B1, extra2, B2, B3, B4, B5⟩ := ih set1 _ set' inter'
        (fun r' hr' => hr r' (List.mem_cons_of_mem _ hr')) h
      refine ⟨fun t ht => B1 t (A1 t ht), ringIntersections (ring.getD []) ++ extra2, ?_, ?_, ?_, ?_⟩
      · rw [B2, List.append_assoc]
      · intro e he
        rcases List.mem_append.mp he with he | he
        · exact B1 _ (A2 e he)
        · exact B3 e he
      · intro y
        rw [List.filter_append, List.length_append]
        have := A3 y
        have := B4 y
        omega
      · intro hnot
        rw [List.filter_append, List.length_append, parity_add]
        rw [A4 (fun hh => hnot (B1 _ hh)), B5 hnot]
        rfl

/-- **F3/F4 for the model.**  In exact arithmetic, for closed rings with non-negative tile-space
    coordinates: if the open square of the tile `(i, j)` contains a point `q` such that the horizontal ray
    from `q` crosses an odd number of edges of the rings (even-odd rule over all rings, i.e. holes are
    respected), the tile is in the polygon's cover.  No general-position hypothesis is needed. -/
theorem polygon_interior_cover (zoom fuel : Nat) (set : List Tile) (rings : List (List (Pt K)))
    (S : List Tile) (hr : ∀ r ∈ rings, r.head? = r.getLast? ∧ ∀ p ∈ r, 0 ≤ p.x ∧ 0 ≤ p.y)
    (h : polygon (opsK K) zoom fuel set rings = .ok S) (i j : ℕ) (q : Pt K)
    (hqx : (i : K) < q.x ∧ q.x < (i : K) + 1) (hqy : (j : K) < q.y ∧ q.y < (j : K) + 1)
    (hodd : xParRings q rings = true) : (⟨i, j, zoom⟩ : Tile) ∈ S := by
  unfold polygon at h
  cases ht : traceRings (opsK K) zoom fuel set [] rings with
  | err e => rw [ht] at h; simp at h
  | panic w => rw [ht] at h; simp at h
  | ok res =>
    obtain ⟨set', inter⟩ := res
    rw [ht] at h
    simp only at h
    split at h
    · cases h
    · simp only [Res.ok.injEq] at h
      subst h
      obtain ⟨_, extra, E1, E2, E3, E4⟩ := traceRings_spec zoom fuel i j q hqx hqy rings set [] set' inter hr ht
      simp only [List.nil_append] at E1
      subst E1
      by_cases hin : tileOf zoom (i, j) ∈ set'
      · exact List.mem_append_right _ hin
      · apply List.mem_append_left
        apply fillPairs_hit zoom i j (sortYX inter) (sortYX_sorted inter)
        · intro y
          rw [((sortYX_perm inter).filter _).length_eq]
          exact E3 y
        · intro hmem
          exact hin (E2 _ ((sortYX_perm inter).mem_iff.mp hmem))
        · rw [((sortYX_perm inter).filter _).length_eq]
          have := E4 hin
          rw [hodd] at this
          simpa using this

/-- a polygon's cover contains the set it started from -/
theorem polygon_mono (zoom fuel : Nat) (set : List Tile) (rings : List (List (Pt K)))
    (S : List Tile) (hr : ∀ r ∈ rings, r.head? = r.getLast? ∧ ∀ p ∈ r, 0 ≤ p.x ∧ 0 ≤ p.y)
    (h : polygon (opsK K) zoom fuel set rings = .ok S) : ∀ t ∈ set, t ∈ S := by
  unfold polygon at h
  cases ht : traceRings (opsK K) zoom fuel set [] rings with
  | err e => rw [ht] at h; simp at h
  | panic w => rw [ht] at h; simp at h
  | ok res =>
    obtain ⟨set', inter⟩ := res
    rw [ht] at h
    simp only at h
    split at h
    · cases h
    · simp only [Res.ok.injEq] at h
      subst h
      have hq : ((0 : ℕ) : K) < (1 / 2 : K) ∧ (1 / 2 : K) < ((0 : ℕ) : K) + 1 := by
        constructor <;> norm_num
      obtain ⟨M, _⟩ := traceRings_spec zoom fuel 0 0 (⟨1 / 2, 1 / 2⟩ : Pt K) hq hq rings set [] set' inter hr ht
      intro t ht'
      exact List.mem_append_right _ (M t ht')

/-! ### F1 stand-alone, and `ErrUnevenIntersections` -/

/-- **F1.**  After the extremum filter, every row of the trace of a closed ring (first vertex = last,
    non-negative tile-space coordinates, vertices anywhere — also on tile edges and corners) has an even
    number of entries. -/
theorem ring_trace_rows_even (zoom fuel : Nat) (set : List Tile) (pts : List (Pt K))
    (hnn : ∀ p ∈ pts, 0 ≤ p.x ∧ 0 ≤ p.y) (hclosed : pts.head? = pts.getLast?) (set' : List Tile)
    (ring : Option (List (ℕ × ℕ)))
    (h : line (opsK K) zoom fuel set pts (some []) = .ok (set', ring)) (y : ℕ) :
    ((ringIntersections (ring.getD [])).filter (fun e => e.2 = y)).length % 2 = 0 := by
  have hq : ((0 : ℕ) : K) < (1 / 2 : K) ∧ (1 / 2 : K) < ((0 : ℕ) : K) + 1 := by
    constructor <;> norm_num
  exact (ring_intersections_spec zoom fuel 0 0 (⟨1 / 2, 1 / 2⟩ : Pt K) hq hq set pts hnn hclosed set' ring h).2.2.1 y

/-- a list all of whose rows have an even number of entries has even length -/
theorem even_length_of_rows_even : ∀ (n : ℕ) (L : List (ℕ × ℕ)), L.length ≤ n →
    (∀ y, (L.filter (fun e => e.2 = y)).length % 2 = 0) → L.length % 2 = 0 := by
  intro n
  induction n with
  | zero =>
    intro L hL _
    have : L = [] := List.length_eq_zero_iff.mp (by omega)
    rw [this]; rfl
  | succ n ih =>
    intro L hL hrows
    cases L with
    | nil => rfl
    | cons a t =>
      set L' := (a :: t).filter (fun e => !decide (e.2 = a.2)) with hL'
      have hsplit : ((a :: t).filter (fun e => decide (e.2 = a.2))).length + L'.length = (a :: t).length := by
        rw [hL']
        exact (List.length_eq_length_filter_add _).symm
      have hpos : 0 < ((a :: t).filter (fun e => decide (e.2 = a.2))).length := by
        simp
      have hlen : L'.length ≤ n := by
        simp only [List.length_cons] at hsplit hL
        omega
      have hrows' : ∀ y, (L'.filter (fun e => e.2 = y)).length % 2 = 0 := by
        intro y
        rw [hL', List.filter_filter]
        by_cases hy : y = a.2
        · subst hy
          have : ((a :: t).filter (fun e => decide (e.2 = a.2) && !decide (e.2 = a.2))) = [] := by
            rw [List.filter_eq_nil_iff]
            intro e _
            simp
          rw [this]; rfl
        · have : (fun e : ℕ × ℕ => decide (e.2 = y) && !decide (e.2 = a.2)) = (fun e => decide (e.2 = y)) := by
            funext e
            by_cases he : e.2 = y
            · have : ¬ e.2 = a.2 := by rw [he]; exact hy
              simp [he, hy]
            · simp [he]
          rw [this]
          exact hrows y
      have := ih L' hlen hrows'
      have := hrows a.2
      omega

/-- For closed rings (exact arithmetic, non-negative coordinates) `polygon` never returns
    `ErrUnevenIntersections`. -/
theorem polygon_closed_not_uneven (zoom fuel : Nat) (set : List Tile) (rings : List (List (Pt K)))
    (hr : ∀ r ∈ rings, r.head? = r.getLast? ∧ ∀ p ∈ r, 0 ≤ p.x ∧ 0 ≤ p.y) :
    polygon (opsK K) zoom fuel set rings ≠ .err .unevenIntersections := by
  unfold polygon
  cases ht : traceRings (opsK K) zoom fuel set [] rings with
  | err e =>
    -- the only error of the ring loop is the model's fuel artefact
    simp only
    intro he
    have he' : e = CoverErr.unevenIntersections := by injection he
    subst he'
    exfalso
    clear hr
    have : ∀ (rings : List (List (Pt K))) (set : List Tile) (inter : List (ℕ × ℕ)),
        traceRings (opsK K) zoom fuel set inter rings ≠ .err .unevenIntersections := by
      intro rings
      induction rings with
      | nil => intro set inter h; simp [traceRings] at h
      | cons r rs ih =>
        intro set inter h
        simp only [traceRings] at h
        cases hline : line (opsK K) zoom fuel set r (some []) with
        | err e =>
          rw [hline] at h
          simp only [Res.err.injEq] at h
          subst h
          unfold line at hline
          cases hl : lineSegs (opsK K) zoom fuel ⟨set, some [], -1, -1, 0, 0⟩ r with
          | none => rw [hl] at hline; simp at hline
          | some s =>
            rw [hl] at hline
            simp only at hline
            split at hline
            · cases hline
            · split at hline
              · cases hline
              · split at hline <;> cases hline
        | panic w => rw [hline] at h; simp at h
        | ok res =>
          rw [hline] at h
          exact ih _ _ h
    exact this rings set [] ht
  | panic w => simp
  | ok res =>
    obtain ⟨set', inter⟩ := res
    simp only
    have hq : ((0 : ℕ) : K) < (1 / 2 : K) ∧ (1 / 2 : K) < ((0 : ℕ) : K) + 1 := by
      constructor <;> norm_num
    obtain ⟨_, extra, E1, _, E3, _⟩ :=
      traceRings_spec zoom fuel 0 0 (⟨1 / 2, 1 / 2⟩ : Pt K) hq hq rings set [] set' inter hr ht
    simp only [List.nil_append] at E1
    subst E1
    have hev := even_length_of_rows_even inter.length inter le_rfl E3
    split
    · rename_i hne
      simp [hev] at hne
    · simp

/-- … and with enough fuel for the longest edge (the fuel is a model artefact) it returns a cover. -/
theorem polygon_closed_ok (zoom fuel : Nat) (set : List Tile) (rings : List (List (Pt K)))
    (hr : ∀ r ∈ rings, r.head? = r.getLast? ∧ ∀ p ∈ r, 0 ≤ p.x ∧ 0 ≤ p.y)
    (hf : ∀ r ∈ rings, ∀ e ∈ r.zip (r.drop 1),
      (⌊e.2.x⌋ - ⌊e.1.x⌋).natAbs + (⌊e.2.y⌋ - ⌊e.1.y⌋).natAbs + 2 ≤ fuel) :
    ∃ S, polygon (opsK K) zoom fuel set rings = .ok S := by
  have hne := polygon_closed_not_uneven zoom fuel set rings hr
  have hT : ∀ (rings : List (List (Pt K))) (set : List Tile) (inter : List (ℕ × ℕ)),
      (∀ r ∈ rings, ∀ e ∈ r.zip (r.drop 1),
        (⌊e.2.x⌋ - ⌊e.1.x⌋).natAbs + (⌊e.2.y⌋ - ⌊e.1.y⌋).natAbs + 2 ≤ fuel) →
      ∃ res, traceRings (opsK K) zoom fuel set inter rings = .ok res := by
    intro rings
    induction rings with
    | nil => intro set inter _; exact ⟨_, rfl⟩
    | cons r rs ih =>
      intro set inter hf
      obtain ⟨s, hs⟩ := Option.isSome_iff_exists.mp
        (lineSegs_term zoom fuel r ⟨set, some [], -1, -1, 0, 0⟩ (hf r List.mem_cons_self))
      have hline : ∃ res, line (opsK K) zoom fuel set r (some []) = .ok res := by
        simp only [line, hs]
        cases hr : s.ring with
        | none => exact ⟨_, rfl⟩
        | some r' =>
          simp only []
          cases hh : r'.head? with
          | none => exact ⟨_, rfl⟩
          | some first =>
            simp only []
            split <;> exact ⟨_, rfl⟩
      obtain ⟨res, hres⟩ := hline
      obtain ⟨set1, ring⟩ := res
      simp only [traceRings, hres]
      exact ih _ _ (fun r' hr' => hf r' (List.mem_cons_of_mem _ hr'))
  obtain ⟨res, hres⟩ := hT rings set [] hf
  obtain ⟨set', inter⟩ := res
  unfold polygon at hne ⊢
  rw [hres] at hne ⊢
  simp only at hne ⊢
  split
  · rename_i hc
    exfalso
    apply hne
    simp [hc]
  · exact ⟨_, rfl⟩

/-! ### holes, multi-polygons, `tilecover.Geometry` -/

/-- inside the outer ring and outside every hole (each by the even-odd rule) is inside by the even-odd
    rule over all rings -/
theorem xParRings_outer_holes (q : Pt K) (outer : List (Pt K)) (holes : List (List (Pt K)))
    (ho : xPar q outer = true) (hh : ∀ r ∈ holes, xPar q r = false) :
    xParRings q (outer :: holes) = true := by
  have : xParRings q holes = false := by
    induction holes with
    | nil => rfl
    | cons r rs ih =>
      rw [xParRings, hh r List.mem_cons_self, ih (fun r' hr' => hh r' (List.mem_cons_of_mem _ hr'))]
      rfl
  rw [xParRings, ho, this]; rfl

/-- **F4 (multi-polygons).**  The cover of a multi-polygon contains, for each member polygon, every tile
    whose open square contains a point inside that polygon (even-odd rule over its rings). -/
theorem multiPolygon_interior_cover (zoom fuel : Nat) :
    ∀ (polys : List (List (List (Pt K)))) (set S : List Tile),
      (∀ pg ∈ polys, ∀ r ∈ pg, r.head? = r.getLast? ∧ ∀ p ∈ r, 0 ≤ p.x ∧ 0 ≤ p.y) →
      multiPolygon (opsK K) zoom fuel set polys = .ok S →
      (∀ t ∈ set, t ∈ S) ∧
      ∀ pg ∈ polys, ∀ (i j : ℕ) (q : Pt K), (i : K) < q.x ∧ q.x < (i : K) + 1 →
        (j : K) < q.y ∧ q.y < (j : K) + 1 → xParRings q pg = true → (⟨i, j, zoom⟩ : Tile) ∈ S := by
  intro polys
  induction polys with
  | nil =>
    intro set S _ h
    simp only [multiPolygon, Res.ok.injEq] at h
    subst h
    exact ⟨fun t ht => ht, by simp⟩
  | cons pg rest ih =>
    intro set S hr h
    simp only [multiPolygon] at h
    cases hp : polygon (opsK K) zoom fuel set pg with
    | err e => rw [hp] at h; simp at h
    | panic w => rw [hp] at h; simp at h
    | ok S1 =>
      rw [hp] at h
      simp only at h
      have hr0 := hr pg List.mem_cons_self
      obtain ⟨M, I⟩ := ih S1 S (fun pg' hpg' => hr pg' (List.mem_cons_of_mem _ hpg')) h
      refine ⟨fun t ht => M t (polygon_mono zoom fuel set pg S1 hr0 hp t ht), ?_⟩
      intro pg' hpg' i j q hqx hqy hodd
      rcases List.mem_cons.mp hpg' with he | he
      · subst he
        exact M _ (polygon_interior_cover zoom fuel set pg' S1 hr0 hp i j q hqx hqy hodd)
      · exact I pg' he i j q hqx hqy hodd

theorem closed_map (frac : Pt K → Pt K) (r : List (Pt K)) (h : r.head? = r.getLast?) :
    (r.map frac).head? = (r.map frac).getLast? := by
  rw [List.head?_map, List.getLast?_map, h]

/-- `tilecover.Geometry` on a polygon (`frac` = `maptile.Fraction(·, zoom)`, opaque). -/
theorem cover_polygon_interior (frac : Pt K → Pt K) (zoom fuel : Nat) (rs : List (List (Pt K)))
    (S : List Tile)
    (hr : ∀ r ∈ rs, r.head? = r.getLast? ∧ ∀ p ∈ r, 0 ≤ (frac p).x ∧ 0 ≤ (frac p).y)
    (h : cover (opsK K) frac zoom fuel (.polygon rs) = .ok S) (i j : ℕ) (q : Pt K)
    (hqx : (i : K) < q.x ∧ q.x < (i : K) + 1) (hqy : (j : K) < q.y ∧ q.y < (j : K) + 1)
    (hodd : xParRings q (rs.map (·.map frac)) = true) : (⟨i, j, zoom⟩ : Tile) ∈ S := by
  simp only [cover] at h
  refine polygon_interior_cover zoom fuel [] _ S ?_ h i j q hqx hqy hodd
  intro r hr'
  obtain ⟨r0, hr0, rfl⟩ := List.mem_map.mp hr'
  refine ⟨closed_map frac r0 (hr r0 hr0).1, ?_⟩
  intro p hp
  obtain ⟨p0, hp0, rfl⟩ := List.mem_map.mp hp
  exact (hr r0 hr0).2 p0 hp0

/-- `tilecover.Geometry` on a ring. -/
theorem cover_ring_interior (frac : Pt K → Pt K) (zoom fuel : Nat) (ps : List (Pt K)) (S : List Tile)
    (hc : ps.head? = ps.getLast?) (hnn : ∀ p ∈ ps, 0 ≤ (frac p).x ∧ 0 ≤ (frac p).y)
    (h : cover (opsK K) frac zoom fuel (.ring ps) = .ok S) (i j : ℕ) (q : Pt K)
    (hqx : (i : K) < q.x ∧ q.x < (i : K) + 1) (hqy : (j : K) < q.y ∧ q.y < (j : K) + 1)
    (hodd : xPar q (ps.map frac) = true) : (⟨i, j, zoom⟩ : Tile) ∈ S := by
  simp only [cover] at h
  split at h
  · rename_i he
    have : ps = [] := by simpa using he
    subst this
    simp [xPar] at hodd
  · refine polygon_interior_cover zoom fuel [] [ps.map frac] S ?_ h i j q hqx hqy ?_
    · intro r hr'
      rw [List.mem_singleton.mp hr']
      refine ⟨closed_map frac ps hc, ?_⟩
      intro p hp
      obtain ⟨p0, hp0, rfl⟩ := List.mem_map.mp hp
      exact hnn p0 hp0
    · rw [xParRings, xParRings, hodd]; rfl

/-- `tilecover.Geometry` on a multi-polygon. -/
theorem cover_multiPolygon_interior (frac : Pt K → Pt K) (zoom fuel : Nat)
    (mp : List (List (List (Pt K)))) (S : List Tile)
    (hr : ∀ pg ∈ mp, ∀ r ∈ pg, r.head? = r.getLast? ∧ ∀ p ∈ r, 0 ≤ (frac p).x ∧ 0 ≤ (frac p).y)
    (h : cover (opsK K) frac zoom fuel (.multiPolygon mp) = .ok S) (pg : List (List (Pt K)))
    (hpg : pg ∈ mp) (i j : ℕ) (q : Pt K)
    (hqx : (i : K) < q.x ∧ q.x < (i : K) + 1) (hqy : (j : K) < q.y ∧ q.y < (j : K) + 1)
    (hodd : xParRings q (pg.map (·.map frac)) = true) : (⟨i, j, zoom⟩ : Tile) ∈ S := by
  simp only [cover] at h
  have H := multiPolygon_interior_cover zoom fuel (mp.map (·.map (·.map frac))) [] S ?_ h
  · exact H.2 _ (List.mem_map.mpr ⟨pg, hpg, rfl⟩) i j q hqx hqy hodd
  · intro pg' hpg' r hr'
    obtain ⟨pg0, hpg0, rfl⟩ := List.mem_map.mp hpg'
    obtain ⟨r0, hr0, rfl⟩ := List.mem_map.mp hr'
    refine ⟨closed_map frac r0 (hr pg0 hpg0 r0 hr0).1, ?_⟩
    intro p hp
    obtain ⟨p0, hp0, rfl⟩ := List.mem_map.mp hp
    exact (hr pg0 hpg0 r0 hr0).2 p0 hp0

/-! ### the crossing count of `polygon_interior_full` -/

theorem xPar_eq_count (q : Pt K) (r : List (Pt K)) :
    (((r.zip (r.drop 1)).filter fun e =>
        decide ((e.1.y > q.y) ≠ (e.2.y > q.y)) &&
        decide (q.x < e.1.x + (q.y - e.1.y) * (e.2.x - e.1.x) / (e.2.y - e.1.y))).length % 2 == 1) =
      xPar q r := by
  induction r with
  | nil => rfl
  | cons a t ih =>
    cases t with
    | nil => rfl
    | cons b t =>
      have hz : (a :: b :: t).zip ((a :: b :: t).drop 1) = (a, b) :: (b :: t).zip ((b :: t).drop 1) := by
        simp
      rw [hz, List.filter_cons, xPar, ← ih]
      by_cases hx : xCross q a b = true
      · have : (decide ((a.y > q.y) ≠ (b.y > q.y)) &&
            decide (q.x < a.x + (q.y - a.y) * (b.x - a.x) / (b.y - a.y))) = true := hx
        simp only [this, if_true, List.length_cons, hx]
        rw [parity_add]
        simp
      · have hx' : xCross q a b = false := by simpa using hx
        have : (decide ((a.y > q.y) ≠ (b.y > q.y)) &&
            decide (q.x < a.x + (q.y - a.y) * (b.x - a.x) / (b.y - a.y))) = false := hx'
        simp only [this, hx', Bool.false_eq_true, if_false, Bool.false_bne]

theorem xParRings_eq_count (q : Pt K) (rings : List (List (Pt K))) :
    ((rings.flatMap fun r => (r.zip (r.drop 1)).filter fun e =>
        decide ((e.1.y > q.y) ≠ (e.2.y > q.y)) &&
        decide (q.x < e.1.x + (q.y - e.1.y) * (e.2.x - e.1.x) / (e.2.y - e.1.y))).length % 2 == 1) =
      xParRings q rings := by
  induction rings with
  | nil => rfl
  | cons r rs ih =>
    rw [List.flatMap_cons, List.length_append, parity_add, xPar_eq_count, ih, xParRings]

end fill

/-- **The statement that `OrbProofs.C14` only states is a theorem** (its hypothesis that `q.y` avoids
    the vertices' ordinates is not even needed). -/
theorem polygon_interior_full_holds : polygon_interior_full := by
  intro K _ _ _ _ zoom fuel rings S hr h i j q h1 h2 h3 h4 _ hodd
  apply polygon_interior_cover zoom fuel [] rings S hr h i j q ⟨h1, h2⟩ ⟨h3, h4⟩
  rw [← xParRings_eq_count]
  simpa using hodd

/-- Non-vacuity: the square ring `(0,0) (4,0) (4,4) (0,4) (0,0)` (vertices ON tile corners) at zoom 3 has a
    cover, and `polygon_interior_cover` puts the tile `(2, 2)` — which no edge touches — into it. -/
example : ∃ S, polygon (opsK ℚ) 3 20 []
      [[(⟨0, 0⟩ : Pt ℚ), ⟨4, 0⟩, ⟨4, 4⟩, ⟨0, 4⟩, ⟨0, 0⟩]] = .ok S ∧ (⟨2, 2, 3⟩ : Tile) ∈ S := by
  have hr : ∀ r ∈ [[(⟨0, 0⟩ : Pt ℚ), ⟨4, 0⟩, ⟨4, 4⟩, ⟨0, 4⟩, ⟨0, 0⟩]],
      r.head? = r.getLast? ∧ ∀ p ∈ r, 0 ≤ p.x ∧ 0 ≤ p.y := by
    intro r hr
    rw [List.mem_singleton.mp hr]
    refine ⟨rfl, ?_⟩
    intro p hp
    simp only [List.mem_cons, List.not_mem_nil, or_false] at hp
    rcases hp with rfl | rfl | rfl | rfl | rfl <;> norm_num
  obtain ⟨S, hS⟩ := polygon_closed_ok 3 20 [] _ hr (by
    intro r hr e he
    rw [List.mem_singleton.mp hr] at he
    simp only [List.drop_succ_cons, List.drop_zero, List.zip_cons_cons, List.zip_nil_right,
      List.mem_cons, List.not_mem_nil, or_false] at he
    rcases he with rfl | rfl | rfl | rfl <;> norm_num)
  refine ⟨S, hS, ?_⟩
  refine polygon_interior_cover 3 20 [] _ S hr hS 2 2 ⟨5/2, 5/2⟩ (by norm_num) (by norm_num) ?_
  simp only [xParRings, xPar, xCross]
  norm_num

/-- The hypothesis that `polygon_within_trace_bound` used to carry (`∀ v, toU32 v + 1 < 2^32`) is false for
    the exact instance — which is why it is now asked only of the intersection entries of the input. -/
example : ¬ ∀ v : ℚ, (opsK ℚ).toU32 v + 1 < 2 ^ 32 := by
  intro h
  have := h (2 ^ 32)
  have e : (opsK ℚ).toU32 (2 ^ 32) = 2 ^ 32 := by
    show ⌊((2 : ℚ) ^ 32)⌋.toNat = 2 ^ 32
    have : ((2 : ℚ) ^ 32) = ((2 ^ 32 : ℕ) : ℚ) := by norm_num
    rw [this, Int.floor_natCast, Int.toNat_natCast]
  omega

/-- Non-vacuity of `polygon_within_vertex_bound`, `polygon_within_trace_bound` and
    `polygon_boundary_complete`: the ring `(0,0) (4,1) (4,4) (0,4) (0,0)` at zoom 3 has a cover; every tile
    of it has zoom 3 and lies in columns / rows 0..4 (the no-wrap hypothesis of `polygon_within_trace_bound`
    is discharged inside `polygon_within_vertex_bound`), and the tile `(1, 0)` — whose open square the edge
    `(0,0) → (4,1)` enters at `t = 3/8` — is in it. -/
example : ∃ S, polygon (opsK ℚ) 3 20 []
      [[(⟨0, 0⟩ : Pt ℚ), ⟨4, 1⟩, ⟨4, 4⟩, ⟨0, 4⟩, ⟨0, 0⟩]] = .ok S ∧
    (∀ t ∈ S, t.z = 3 ∧ t.x ≤ 4 ∧ t.y ≤ 4) ∧ (⟨1, 0, 3⟩ : Tile) ∈ S := by
  have hr : ∀ r ∈ [[(⟨0, 0⟩ : Pt ℚ), ⟨4, 1⟩, ⟨4, 4⟩, ⟨0, 4⟩, ⟨0, 0⟩]],
      r.head? = r.getLast? ∧ ∀ p ∈ r, 0 ≤ p.x ∧ 0 ≤ p.y := by
    intro r hr
    rw [List.mem_singleton.mp hr]
    refine ⟨rfl, ?_⟩
    intro p hp
    simp only [List.mem_cons, List.not_mem_nil, or_false] at hp
    rcases hp with rfl | rfl | rfl | rfl | rfl <;> norm_num
  have hbox : ∀ r ∈ [[(⟨0, 0⟩ : Pt ℚ), ⟨4, 1⟩, ⟨4, 4⟩, ⟨0, 4⟩, ⟨0, 0⟩]], ∀ p ∈ r,
      (0 : ℚ) ≤ p.x ∧ p.x ≤ 4 ∧ (0 : ℚ) ≤ p.y ∧ p.y ≤ 4 := by
    intro r hr p hp
    rw [List.mem_singleton.mp hr] at hp
    simp only [List.mem_cons, List.not_mem_nil, or_false] at hp
    rcases hp with rfl | rfl | rfl | rfl | rfl <;> norm_num
  obtain ⟨S, hS⟩ := polygon_closed_ok 3 20 [] _ hr (by
    intro r hr e he
    rw [List.mem_singleton.mp hr] at he
    simp only [List.drop_succ_cons, List.drop_zero, List.zip_cons_cons, List.zip_nil_right,
      List.mem_cons, List.not_mem_nil, or_false] at he
    rcases he with rfl | rfl | rfl | rfl <;> norm_num)
  refine ⟨S, hS, ?_, ?_⟩
  · intro t ht
    obtain ⟨hz, _, hx, _, hy⟩ := polygon_within_vertex_bound 3 20 _ S 0 4 0 4
      (fun r hr' => (hr r hr').2) hbox (by norm_num) hS t ht
    exact ⟨hz, by exact_mod_cast hx, by exact_mod_cast hy⟩
  · exact polygon_boundary_complete 3 20 [] _ S (fun r hr' => (hr r hr').2) hS
      [⟨0, 0⟩, ⟨4, 1⟩, ⟨4, 4⟩, ⟨0, 4⟩, ⟨0, 0⟩] (by simp) (⟨0, 0⟩, ⟨4, 1⟩) (by simp) (by simp)
      1 0 (3 / 8) (by norm_num) (by norm_num) (by norm_num) (by norm_num) (by norm_num) (by norm_num)

/-- Non-vacuity of `cover_multiPolygon_union`: two closed squares (tile space, zoom 3, identity `frac`)
    have covers, so the multi-polygon's cover is their union. -/
example : ∃ S, cover (opsK ℚ) id 3 20 (.multiPolygon
      [[[(⟨0, 0⟩ : Pt ℚ), ⟨2, 0⟩, ⟨2, 2⟩, ⟨0, 2⟩, ⟨0, 0⟩]], [[⟨4, 4⟩, ⟨6, 4⟩, ⟨6, 6⟩, ⟨4, 6⟩, ⟨4, 4⟩]]]) = .ok S ∧
    ∀ t, t ∈ S ↔ ∃ p ∈ [[[(⟨0, 0⟩ : Pt ℚ), ⟨2, 0⟩, ⟨2, 2⟩, ⟨0, 2⟩, ⟨0, 0⟩]],
        [[⟨4, 4⟩, ⟨6, 4⟩, ⟨6, 6⟩, ⟨4, 6⟩, ⟨4, 4⟩]]],
      ∃ s, cover (opsK ℚ) id 3 20 (.polygon p) = .ok s ∧ t ∈ s := by
  apply cover_multiPolygon_union
  intro p hp
  rw [cover_polygon_eq]
  simp only [List.mem_cons, List.not_mem_nil, or_false] at hp
  rcases hp with rfl | rfl
  · apply polygon_closed_ok
    · intro r hr
      simp only [List.map_id_fun, id_eq, List.map_cons, List.map_nil, List.mem_cons, List.not_mem_nil,
        or_false] at hr
      subst hr
      refine ⟨rfl, ?_⟩
      intro q hq
      simp only [List.mem_cons, List.not_mem_nil, or_false] at hq
      rcases hq with rfl | rfl | rfl | rfl | rfl <;> norm_num
    · intro r hr e he
      simp only [List.map_id_fun, id_eq, List.map_cons, List.map_nil, List.mem_cons, List.not_mem_nil,
        or_false] at hr
      subst hr
      simp only [List.drop_succ_cons, List.drop_zero, List.zip_cons_cons, List.zip_nil_right,
        List.mem_cons, List.not_mem_nil, or_false] at he
      rcases he with rfl | rfl | rfl | rfl <;> norm_num
  · apply polygon_closed_ok
    · intro r hr
      simp only [List.map_id_fun, id_eq, List.map_cons, List.map_nil, List.mem_cons, List.not_mem_nil,
        or_false] at hr
      subst hr
      refine ⟨rfl, ?_⟩
      intro q hq
      simp only [List.mem_cons, List.not_mem_nil, or_false] at hq
      rcases hq with rfl | rfl | rfl | rfl | rfl <;> norm_num
    · intro r hr e he
      simp only [List.map_id_fun, id_eq, List.map_cons, List.map_nil, List.mem_cons, List.not_mem_nil,
        or_false] at hr
      subst hr
      simp only [List.drop_succ_cons, List.drop_zero, List.zip_cons_cons, List.zip_nil_right,
        List.mem_cons, List.not_mem_nil, or_false] at he
      rcases he with rfl | rfl | rfl | rfl <;> norm_num

end Orb.TileCover
