/-
  Helper lemmas for C10, part 3: the degenerate (zero-weight) centroid fall-backs, the centroid of a
  collection of top dimension 2, and the index reported by the fold-based kinds of
  `DistanceFromWithIndex` (MultiPoint, MultiLineString, MultiPolygon, Collection).
  The primed statements are re-exported by OrbProofs/C10.lean.
-/
import OrbProofs.C10Lemmas
import OrbProofs.C10DistLemmas

set_option linter.unusedSectionVars false

namespace Orb.Planar
open Orb Orb.Core

/-! ### spec-side vocabulary -/

/-- `r = (distance, index)` names the FIRST member attaining the minimum of the members' distances `ds`
    (`none` = +Inf: a member without any point or segment): when no member has a distance the answer is
    `(+Inf, -1)`; otherwise the distance is the minimum `m` of the defined distances, the member at the index
    has exactly that distance, and every earlier member has no distance or a strictly larger one. -/
def FirstMinIndex {α : Type} [Min α] [LT α] (ds : List (Option α)) (r : Option α × Int) : Prop :=
  ((∀ d ∈ ds, d = none) → r = (none, -1)) ∧
  ∀ m, (ds.filterMap id).min? = some m →
    ∃ i : Nat, r = (some m, (i : Int)) ∧ ds[i]? = some (some m) ∧
      ∀ j, j < i → ∀ x, ds[j]? = some (some x) → m < x

section degenerate
variable {α : Type} [Field α] [LinearOrder α] [IsStrictOrderedRing α]

theorem ring_degenerate_centroid' (o : Pt α) (rest : List (Pt α)) (h : ringArea (o :: rest) = 0) :
    ringCentroidArea (o :: rest) = (o, 0) := by
  rw [ringArea_cons] at h
  have hf : fan o rest = 0 := by
    have h2 : (2 : α) ≠ 0 := two_ne_zero
    rcases div_eq_zero_iff.1 h with h | h
    · exact h
    · exact absurd h h2
  rw [ringCentroidArea_cons, if_pos hf]

theorem polygon_degenerate_centroid' (sqrt : α → α) (v : Pt α) (rest : List (Pt α)) (hs : List (List (Pt α)))
    (h0 : (polygonCentroidArea sqrt ((v :: rest) :: hs)).2 = 0) :
    let segs := (v :: rest).zip rest
    let len := fun (ab : Pt α × Pt α) => sqrt ((ab.1.x - ab.2.x) * (ab.1.x - ab.2.x) + (ab.1.y - ab.2.y) * (ab.1.y - ab.2.y))
    let L := (segs.map len).sum
    (L = 0 → polygonCentroidArea sqrt ((v :: rest) :: hs) = (v, 0)) ∧
    (L ≠ 0 → polygonCentroidArea sqrt ((v :: rest) :: hs) =
      (⟨(segs.map fun ab => (ab.1.x + ab.2.x) / 2 * len ab).sum / L, (segs.map fun ab => (ab.1.y + ab.2.y) / 2 * len ab).sum / L⟩, 0)) := by
  rw [polygon_area_eq'] at h0
  intro segs len L
  obtain ⟨l1, l2⟩ := line_centroid_weighted' sqrt v rest
  rw [polygonCentroidArea_cons, if_pos h0]
  refine ⟨fun h => ?_, fun h => ?_⟩
  · simp only [lineFallback, l1 h]
  · simp only [lineFallback, l2 h]
    rfl

theorem polygon_degenerate_centroid_nil' (sqrt : α → α) (hs : List (List (Pt α)))
    (h0 : (polygonCentroidArea sqrt (([] : List (Pt α)) :: hs)).2 = 0) :
    polygonCentroidArea sqrt (([] : List (Pt α)) :: hs) = (⟨0, 0⟩, 0) := by
  rw [polygon_area_eq'] at h0
  rw [polygonCentroidArea_cons, if_pos h0]
  rfl

theorem multi_degenerate_centroid' (sqrt : α → α) (mp : List (List (List (Pt α))))
    (h0 : (multiPolygonCentroidArea sqrt mp).2 = 0) : multiPolygonCentroidArea sqrt mp = (⟨0, 0⟩, 0) := by
  unfold multiPolygonCentroidArea at h0 ⊢
  rw [finishWeighted_snd] at h0
  simp only [finishWeighted, h0, beq_self_eq_true, if_true]

/-- the loop of `collectionCentroidArea`, all three accumulators -/
theorem collLoop_full (sqrt : α → α) (mx : Int) (gs : List (Geom α)) (s : α × α × α) :
    centroidArea.collLoop sqrt mx gs s =
      (s.1 + ((gs.filter fun g => dimensions g == mx).map fun g => (centroidArea sqrt g).1.x * area sqrt g).sum,
       s.2.1 + ((gs.filter fun g => dimensions g == mx).map fun g => (centroidArea sqrt g).1.y * area sqrt g).sum,
       s.2.2 + ((gs.filter fun g => dimensions g == mx).map (area sqrt)).sum) := by
  induction gs generalizing s with
  | nil => simp [centroidArea.collLoop]
  | cons g t ih =>
    rw [centroidArea.collLoop]
    by_cases h : dimensions g = mx
    · simp only [h, bne_self_eq_false, Bool.false_eq_true, if_false, ih, List.filter_cons, beq_self_eq_true, if_true,
        List.map_cons, List.sum_cons, add_assoc, area]
    · have h1 : (dimensions g != mx) = true := by simpa using h
      have h2 : (dimensions g == mx) = false := by simpa using h
      simp only [h1, if_true, ih, List.filter_cons, h2, Bool.false_eq_true, if_false]

theorem collection_centroid_weighted' (sqrt : α → α) (gs : List (Geom α))
    (hA : area sqrt (.collection gs) ≠ 0) :
    let top := gs.filter fun g => dimensions g == maxDim gs
    (centroidArea sqrt (.collection gs)).1.x =
      (top.map fun g => (centroidArea sqrt g).1.x * area sqrt g).sum / (top.map (area sqrt)).sum ∧
    (centroidArea sqrt (.collection gs)).1.y =
      (top.map fun g => (centroidArea sqrt g).1.y * area sqrt g).sum / (top.map (area sqrt)).sum := by
  rw [collection_area_sum_topdim'] at hA
  intro top
  rw [centroidArea, collLoop_full]
  simp only [zero_add, finishWeighted, beq_iff_eq, if_neg hA]
  exact ⟨rfl, rfl⟩

theorem collection_degenerate_centroid' (sqrt : α → α) (gs : List (Geom α))
    (h0 : area sqrt (.collection gs) = 0) : centroidArea sqrt (.collection gs) = (⟨0, 0⟩, 0) := by
  rw [area, centroidArea, finishWeighted_snd] at h0
  rw [centroidArea, finishWeighted, h0]
  simp

end degenerate

section index
variable {α : Type} [Field α] [LinearOrder α] [IsStrictOrderedRing α]

/-- the running minimum with index over a list of optional distances -/
def optIdxLoop : List (Option α) → Nat → Option α × Int → Option α × Int
  | [], _, s => s
  | d :: t, i, s => optIdxLoop t (i + 1) (minStep s d (i : Int))

theorem optLt_irrefl' (a : Option α) : optLt a a = false := by
  cases a <;> simp [optLt]

theorem optLt_trans' {a b c : Option α} (h1 : optLt a b = true) (h2 : optLt b c = true) : optLt a c = true := by
  cases a <;> cases b <;> cases c <;> simp_all [optLt]
  exact lt_trans h1 h2

theorem optLt_asymm' {a b : Option α} (h : optLt a b = true) : optLt b a = false := by
  cases a <;> cases b <;> simp_all [optLt]
  exact le_of_lt h

theorem optLt_of_lt_of_not_lt' {a b c : Option α} (h1 : optLt a b = true) (h2 : optLt c b = false) :
    optLt a c = true := by
  cases a <;> cases b <;> cases c <;> simp_all [optLt]
  exact lt_of_lt_of_le h1 h2

/-- either nothing beats the seed, or the loop ends at the first position `k` whose value beats the seed and
    everything before it, and is not beaten by anything -/
theorem optIdxLoop_index (ds : List (Option α)) (i : Nat) (s : Option α × Int) :
    (optIdxLoop ds i s = s ∧ ∀ d ∈ ds, optLt d s.1 = false) ∨
    (∃ (k : Nat) (d : Option α), ds[k]? = some d ∧
      optIdxLoop ds i s = (d, ((i + k : Nat) : Int)) ∧ optLt d s.1 = true ∧
      (∀ j, j < k → ∀ x, ds[j]? = some x → optLt d x = true) ∧
      ∀ x ∈ ds, optLt x d = false) := by
  induction ds generalizing i s with
  | nil => left; exact ⟨rfl, by simp⟩
  | cons g t ih =>
    rw [optIdxLoop]
    by_cases hlt : optLt g s.1 = true
    · have hs' : minStep s g (i : Int) = (g, (i : Int)) := by
        simp [minStep, hlt]
      rw [hs']
      right
      rcases ih (i + 1) (g, (i : Int)) with ⟨hr, hall⟩ | ⟨k, d, hk, hr, hd, hbefore, hall⟩
      · refine ⟨0, g, by simp, by simpa using hr, hlt, fun j hj => absurd hj (Nat.not_lt_zero _), ?_⟩
        intro x hx
        rcases List.mem_cons.1 hx with rfl | hx
        · exact optLt_irrefl' _
        · exact hall x hx
      · refine ⟨k + 1, d, by simpa using hk, ?_, optLt_trans' hd hlt, ?_, ?_⟩
        · rw [hr]; congr 2; omega
        · intro j hj x hx
          cases j with
          | zero => simp at hx; rw [← hx]; exact hd
          | succ j => exact hbefore j (by omega) x (by simpa using hx)
        · intro x hx
          rcases List.mem_cons.1 hx with rfl | hx
          · exact optLt_asymm' hd
          · exact hall x hx
    · have hlt' : optLt g s.1 = false := by simpa using hlt
      have hs' : minStep s g (i : Int) = s := by simp [minStep, hlt']
      rw [hs']
      rcases ih (i + 1) s with ⟨hr, hall⟩ | ⟨k, d, hk, hr, hd, hbefore, hall⟩
      · left
        refine ⟨hr, ?_⟩
        intro x hx
        rcases List.mem_cons.1 hx with rfl | hx
        · exact hlt'
        · exact hall x hx
      · right
        have hdg' : optLt d g = true := optLt_of_lt_of_not_lt' hd hlt'
        refine ⟨k + 1, d, by simpa using hk, ?_, hd, ?_, ?_⟩
        · rw [hr]; congr 2; omega
        · intro j hj x hx
          cases j with
          | zero => simp at hx; rw [← hx]; exact hdg'
          | succ j => exact hbefore j (by omega) x (by simpa using hx)
        · intro x hx
          rcases List.mem_cons.1 hx with rfl | hx
          · exact optLt_asymm' hdg'
          · exact hall x hx

theorem mem_filterMap_id {ds : List (Option α)} {m : α} : m ∈ ds.filterMap id ↔ some m ∈ ds := by
  simp [List.mem_filterMap]

theorem optIdxLoop_firstMin (ds : List (Option α)) : FirstMinIndex ds (optIdxLoop ds 0 (none, -1)) := by
  rcases optIdxLoop_index ds 0 (none, -1) with ⟨hr, hall⟩ | ⟨k, d, hk, hr, hd, hbefore, hall⟩
  · have hnone : ∀ d ∈ ds, d = none := by
      intro d hd
      have := hall d hd
      cases d with
      | none => rfl
      | some v => simp [optLt] at this
    refine ⟨fun _ => hr, fun m hm => ?_⟩
    have hmem : m ∈ ds.filterMap id := (List.min?_eq_some_iff.1 hm).1
    have := hnone _ (mem_filterMap_id.1 hmem)
    cases this
  · cases d with
    | none => simp [optLt] at hd
    | some dv =>
      have hmemk : some dv ∈ ds := List.mem_of_getElem? hk
      refine ⟨fun hn => ?_, fun m hm => ?_⟩
      · have := hn _ hmemk
        cases this
      · have hmin : (ds.filterMap id).min? = some dv := by
          refine List.min?_eq_some_iff.2 ⟨mem_filterMap_id.2 hmemk, fun y hy => ?_⟩
          have := hall _ (mem_filterMap_id.1 hy)
          simp only [optLt, decide_eq_false_iff_not, not_lt] at this
          exact this
        rw [hmin, Option.some.injEq] at hm
        subst hm
        refine ⟨k, by simpa using hr, hk, fun j hj x hx => ?_⟩
        have := hbefore j hj _ hx
        simpa [optLt] using this

theorem foldl_zipIdx_eq_optIdxLoop {β : Type} (F : β → Option α) (l : List β) (k : Nat) (s : Option α × Int) :
    (l.zipIdx k).foldl (fun s (xi : β × Nat) => minStep s (F xi.1) (xi.2 : Int)) s = optIdxLoop (l.map F) k s := by
  induction l generalizing k s with
  | nil => rfl
  | cons a t ih => rw [List.zipIdx_cons, List.foldl_cons, ih, List.map_cons, optIdxLoop]

theorem collLoop_eq_optIdxLoop (sqrt : α → α) (p : Pt α) (gs : List (Geom α)) (i : Nat) (s : Option α × Int) :
    distanceFromWithIndex.collLoop sqrt p gs i s = optIdxLoop (gs.map fun g => distanceFrom sqrt g p) i s := by
  induction gs generalizing i s with
  | nil => rfl
  | cons g t ih => rw [distanceFromWithIndex.collLoop, ih, List.map_cons, optIdxLoop]; rfl

theorem multiLineString_index' (sqrt : α → α) (mls : List (List (Pt α))) (p : Pt α) :
    FirstMinIndex (mls.map fun l => (lineStringDistanceFrom sqrt l p).1)
      (distanceFromWithIndex sqrt p (.multiLineString mls)) := by
  rw [distanceFromWithIndex,
    foldl_zipIdx_eq_optIdxLoop (fun l => (lineStringDistanceFrom sqrt l p).1) mls 0 (none, -1)]
  exact optIdxLoop_firstMin _

theorem multiPolygon_index' (sqrt : α → α) (mp : List (List (List (Pt α)))) (p : Pt α) :
    FirstMinIndex (mp.map fun pg => (polygonDistanceFrom sqrt pg p).1)
      (distanceFromWithIndex sqrt p (.multiPolygon mp)) := by
  rw [distanceFromWithIndex,
    foldl_zipIdx_eq_optIdxLoop (fun pg => (polygonDistanceFrom sqrt pg p).1) mp 0 (none, -1)]
  exact optIdxLoop_firstMin _

theorem collection_index' (sqrt : α → α) (gs : List (Geom α)) (p : Pt α) :
    FirstMinIndex (gs.map fun g => distanceFrom sqrt g p) (distanceFromWithIndex sqrt p (.collection gs)) := by
  rw [distanceFromWithIndex, collLoop_eq_optIdxLoop]
  exact optIdxLoop_firstMin _

theorem multiPoint_index' (sqrt : α → α) (mp : List (Pt α)) (p : Pt α) :
    let at' := mp.map fun q => distanceSquared q p
    (at' = [] → multiPointDistanceFrom sqrt mp p = (none, -1)) ∧
    (∀ m, at'.min? = some m → ∃ i : Nat, multiPointDistanceFrom sqrt mp p = (some (sqrt m), (i : Int)) ∧
        at'[i]? = some m ∧ ∀ j, j < i → ∀ x, at'[j]? = some x → m < x) := by
  intro at'
  have hloop : multiPointDistanceFrom sqrt mp p =
      ((optIdxLoop (at'.map some) 0 (none, -1)).1.map sqrt, (optIdxLoop (at'.map some) 0 (none, -1)).2) := by
    rw [multiPointDistanceFrom]
    show ((List.foldl (fun (s : Option α × Int) (qi : Pt α × Nat) =>
        minStep s ((fun q => some (distanceSquared q p)) qi.1) (qi.2 : Int)) (none, -1) (mp.zipIdx 0)).1.map sqrt, _) = _
    rw [foldl_zipIdx_eq_optIdxLoop (fun q => some (distanceSquared q p)) mp 0 (none, -1)]
    simp only [at', List.map_map]
    rfl
  have hfm : (at'.map some).filterMap id = at' := by
    simp [List.filterMap_map]
  obtain ⟨f1, f2⟩ := optIdxLoop_firstMin (at'.map some)
  rw [hfm] at f2
  refine ⟨fun h => ?_, fun m hm => ?_⟩
  · rw [hloop, f1 (by simp [h])]
    rfl
  · obtain ⟨i, hi, hget, hbef⟩ := f2 m hm
    refine ⟨i, by rw [hloop, hi]; rfl, ?_, fun j hj x hx => ?_⟩
    · simpa [List.getElem?_map] using hget
    · exact hbef j hj x (by simp [List.getElem?_map, hx])

/-- the loop of `polygonDistanceFrom`: the running minimum carries the ring's whole answer `(distance, segment index)` -/
theorem pairLoop_index (p : Pt α) (sqrt : α → α) (l : List (List (Pt α))) (s : Option α × Int) :
    (l.foldl (fun s h => let di := lineStringDistanceFrom sqrt h p; if optLt di.1 s.1 then di else s) s = s ∧
      ∀ h ∈ l, optLt (lineStringDistanceFrom sqrt h p).1 s.1 = false) ∨
    (∃ (k : Nat) (r : List (Pt α)), l[k]? = some r ∧
      l.foldl (fun s h => let di := lineStringDistanceFrom sqrt h p; if optLt di.1 s.1 then di else s) s =
        lineStringDistanceFrom sqrt r p ∧
      optLt (lineStringDistanceFrom sqrt r p).1 s.1 = true ∧
      (∀ j, j < k → ∀ x, l[j]? = some x →
        optLt (lineStringDistanceFrom sqrt r p).1 (lineStringDistanceFrom sqrt x p).1 = true) ∧
      ∀ x ∈ l, optLt (lineStringDistanceFrom sqrt x p).1 (lineStringDistanceFrom sqrt r p).1 = false) := by
  induction l generalizing s with
  | nil => left; exact ⟨rfl, by simp⟩
  | cons g t ih =>
    rw [List.foldl_cons]
    by_cases hlt : optLt (lineStringDistanceFrom sqrt g p).1 s.1 = true
    · have hs' : (let di := lineStringDistanceFrom sqrt g p; if optLt di.1 s.1 then di else s) =
          lineStringDistanceFrom sqrt g p := by simp [hlt]
      rw [hs']
      right
      rcases ih (lineStringDistanceFrom sqrt g p) with ⟨hr, hall⟩ | ⟨k, d, hk, hr, hd, hbefore, hall⟩
      · refine ⟨0, g, by simp, hr, hlt, fun j hj => absurd hj (Nat.not_lt_zero _), ?_⟩
        intro x hx
        rcases List.mem_cons.1 hx with rfl | hx
        · exact optLt_irrefl' _
        · exact hall x hx
      · refine ⟨k + 1, d, by simpa using hk, hr, optLt_trans' hd hlt, ?_, ?_⟩
        · intro j hj x hx
          cases j with
          | zero => simp at hx; rw [← hx]; exact hd
          | succ j => exact hbefore j (by omega) x (by simpa using hx)
        · intro x hx
          rcases List.mem_cons.1 hx with rfl | hx
          · exact optLt_asymm' hd
          · exact hall x hx
    · have hlt' : optLt (lineStringDistanceFrom sqrt g p).1 s.1 = false := by simpa using hlt
      have hs' : (let di := lineStringDistanceFrom sqrt g p; if optLt di.1 s.1 then di else s) = s := by
        simp [hlt']
      rw [hs']
      rcases ih s with ⟨hr, hall⟩ | ⟨k, d, hk, hr, hd, hbefore, hall⟩
      · left
        refine ⟨hr, ?_⟩
        intro x hx
        rcases List.mem_cons.1 hx with rfl | hx
        · exact hlt'
        · exact hall x hx
      · right
        have hdg' := optLt_of_lt_of_not_lt' hd hlt'
        refine ⟨k + 1, d, by simpa using hk, hr, hd, ?_, ?_⟩
        · intro j hj x hx
          cases j with
          | zero => simp at hx; rw [← hx]; exact hdg'
          | succ j => exact hbefore j (by omega) x (by simpa using hx)
        · intro x hx
          rcases List.mem_cons.1 hx with rfl | hx
          · exact optLt_asymm' hdg'
          · exact hall x hx

theorem polygon_index' (sqrt : α → α) (pg : List (List (Pt α))) (p : Pt α) :
    (pg = [] → polygonDistanceFrom sqrt pg p = (none, -1)) ∧
    (pg ≠ [] → ∃ (k : Nat) (r : List (Pt α)), pg[k]? = some r ∧
      polygonDistanceFrom sqrt pg p = lineStringDistanceFrom sqrt r p ∧
      (∀ j, j < k → ∀ x, pg[j]? = some x →
        optLt (lineStringDistanceFrom sqrt r p).1 (lineStringDistanceFrom sqrt x p).1 = true) ∧
      ∀ x ∈ pg, optLt (lineStringDistanceFrom sqrt x p).1 (lineStringDistanceFrom sqrt r p).1 = false) := by
  refine ⟨fun h => by rw [h]; rfl, fun h => ?_⟩
  cases pg with
  | nil => exact absurd rfl h
  | cons o hs =>
    rw [polygonDistanceFrom]
    rcases pairLoop_index p sqrt hs (lineStringDistanceFrom sqrt o p) with ⟨hr, hall⟩ | ⟨k, d, hk, hr, hd, hbefore, hall⟩
    · refine ⟨0, o, by simp, hr, fun j hj => absurd hj (Nat.not_lt_zero _), ?_⟩
      intro x hx
      rcases List.mem_cons.1 hx with rfl | hx
      · exact optLt_irrefl' _
      · exact hall x hx
    · refine ⟨k + 1, d, by simpa using hk, hr, ?_, ?_⟩
      · intro j hj x hx
        cases j with
        | zero => simp at hx; rw [← hx]; exact hd
        | succ j => exact hbefore j (by omega) x (by simpa using hx)
      · intro x hx
        rcases List.mem_cons.1 hx with rfl | hx
        · exact optLt_asymm' hd
        · exact hall x hx


end index

end Orb.Planar
