/-
  C12 — Simplifiers only drop vertices, keep endpoints, and honour their bound.
  PROPERTY THEOREMS about the model `Orb.Simplify` (simplify/douglas_peucker.go, radial.go,
  visvalingam.go, helpers.go, planar.DistanceSquared / DistanceFromSegmentSquared).

  Two strengths:
  * section `anyArithmetic`: the coordinate type is ARBITRARY (only the operations the code uses, no
    laws) — these theorems therefore also hold for the `Float` instantiation that the driver
    compares bit-for-bit with the Go code: subsequence in order, end points kept, closed stays closed,
    radial spacing, Visvalingam minimum count and keep-N exactness.
  * section `orderedField`: coordinates in a linear ordered field (exact arithmetic): termination /
    no panic, Douglas-Peucker = its recursive definition, error bound (with `distSegSq` shown to be the
    exact squared point–segment distance), idempotence, nesting; the Visvalingam heap invariant under
    Push/Pop/Update, pop-min, totality and nesting.

  Vocabulary (`EndsKept`, `Closed`, `Adjacent`, `GoodS`, `HeapIdx`, `HeapOrd`, `ValidLine` …) is in
  OrbProofs/C12Basic.lean.
-/
import OrbProofs.C12Lemmas
import Orb.SimplifyFast

namespace Orb.Simplify
open Orb

section anyArithmetic
variable {α : Type} [Add α] [Sub α] [Mul α] [Div α] [Neg α] [LT α] [LE α] [DecidableLT α] [DecidableLE α] [BEq α] [OfNat α 0] [OfNat α 1] [OfNat α 2]

/-! ### Douglas-Peucker -/

/-- The result is the list of the input vertices at the masked indices: strictly increasing, in range. -/
theorem dp_kept_indices (t : α) (ls out : List (Pt α)) (h : dpSimplify t ls = .ok out) :
    ∃ idx, (dpMask distSegSq t ls).map maskIdx = some idx ∧ idx.Pairwise (· < ·) ∧ (∀ i ∈ idx, i < ls.length) ∧
      out = idx.filterMap (fun i => ls[i]?) := dp_kept_indices' t ls out h

theorem dp_subseq_in_order (t : α) (ls out : List (Pt α)) (h : dpSimplify t ls = .ok out) :
    out.Sublist ls := dp_subseq_in_order' t ls out h

theorem dp_endpoints_kept (t : α) (ls out : List (Pt α)) (h : dpSimplify t ls = .ok out) :
    EndsKept ls out := dp_endpoints_kept' t ls out h

theorem dp_closed_stays_closed (t : α) (ls out : List (Pt α)) (h : dpSimplify t ls = .ok out) (hc : Closed ls) :
    Closed out := dp_closed_stays_closed' t ls out h hc

/-- The compiled driver runs Douglas-Peucker with the vertex list held in an array (`dpSA`,
    Orb/SimplifyFast.lean; the `csimp` lemma `dpS_eq_dpSA` substitutes it for `dpS` in compiled code, so that
    vertex lists of thousands of vertices with the deepest nesting are compared in milliseconds): it is
    the model `dpS`, on every input, in every arithmetic. -/
theorem dp_array_twin (t : α) (ls : List (Pt α)) (area : Bool) : dpSA t ls area = dpS t ls area := by
  rw [dpS_eq_dpSA]

/-! ### Radial (any distance function) -/

theorem radial_subseq_in_order (df : Pt α → Pt α → α) (t : α) (ls out : List (Pt α))
    (h : radialSimplify df t ls = .ok out) : out.Sublist ls := radial_subseq_in_order' df t ls out h

theorem radial_endpoints_kept (df : Pt α → Pt α → α) (t : α) (ls out : List (Pt α))
    (h : radialSimplify df t ls = .ok out) : EndsKept ls out := radial_endpoints_kept' df t ls out h

theorem radial_closed_stays_closed (df : Pt α → Pt α → α) (t : α) (ls out : List (Pt α))
    (h : radialSimplify df t ls = .ok out) (hc : Closed ls) : Closed out :=
  radial_closed_stays_closed' df t ls out h hc

/-- Consecutive kept vertices are farther apart than the threshold, except possibly the last one. -/
theorem radial_spacing (df : Pt α → Pt α → α) (t : α) (ls out : List (Pt α))
    (h : radialSimplify df t ls = .ok out) : ∀ a b, Adjacent out.dropLast a b → t < df a b :=
  radial_spacing' df t ls out h

/-- Radial never panics on a non-empty line (and never loops). -/
theorem radial_total (df : Pt α → Pt α → α) (t : α) (ls : List (Pt α)) (h : ls ≠ []) :
    ∃ out, radialSimplify df t ls = .ok out := radial_total' df t ls h

/-! ### Visvalingam -/

theorem vis_subseq_in_order (thr : Option α) (toKeep : Nat) (ls out : List (Pt α)) (area : Bool)
    (h : visSimplify thr toKeep ls area = .ok out) : out.Sublist ls := vis_subseq_in_order' thr toKeep ls out area h

theorem vis_endpoints_kept (thr : Option α) (toKeep : Nat) (ls out : List (Pt α)) (area : Bool)
    (h : visSimplify thr toKeep ls area = .ok out) : EndsKept ls out := vis_endpoints_kept' thr toKeep ls out area h

theorem vis_closed_stays_closed (thr : Option α) (toKeep : Nat) (ls out : List (Pt α)) (area : Bool)
    (h : visSimplify thr toKeep ls area = .ok out) (hc : Closed ls) : Closed out :=
  vis_closed_stays_closed' thr toKeep ls out area h hc

/-- Never below the requested / default minimum count (2 lines, 3 open rings, 4 closed rings),
    nor below the input length when that is smaller. -/
theorem vis_min_count (thr : Option α) (toKeep : Nat) (ls out : List (Pt α)) (area : Bool)
    (h : visSimplify thr toKeep ls area = .ok out) :
    min ls.length (visToKeep toKeep ls area) ≤ out.length := vis_min_count' thr toKeep ls out area h

/-- The default minimum counts, exactly: 2 for a line, 4 for a CLOSED ring, 3 for an open ring (a ring
    is closed iff Go's `ls[0] == ls[len(ls)-1]`); a requested count is taken as it is.  (`visToKeep` is
    only reached with 2 or more vertices; for the empty list only "3 or 4" can be said, `0 == 0` not
    being a law of an arbitrary arithmetic.) -/
theorem vis_default_counts (ls : List (Pt α)) :
    visToKeep 0 ls false = 2 ∧
    (ls ≠ [] → (Closed ls → visToKeep 0 ls true = 4) ∧ (¬ Closed ls → visToKeep 0 ls true = 3)) ∧
    (visToKeep 0 ls true = 3 ∨ visToKeep 0 ls true = 4) ∧
    ∀ k, k ≠ 0 → ∀ area, visToKeep k ls area = k := vis_default_counts_exact' ls

/-- keep-N (`VisvalingamKeep`, threshold `+Inf`) returns exactly N vertices when the input is longer. -/
theorem vis_keep_exact (toKeep : Nat) (ls out : List (Pt α)) (area : Bool)
    (h : visSimplify none toKeep ls area = .ok out) (hk : visToKeep toKeep ls area < ls.length) :
    out.length = visToKeep toKeep ls area := vis_keep_exact' toKeep ls out area h hk

/-! ### the same clauses at the typed entry points (`lineString s ls = runSimplify s ls false`,
    `ring s r = runSimplify s r true`: `runSimplify` returns inputs of ≤ 2 points untouched) -/

theorem radial_spacing_run (df : Pt α → Pt α → α) (t : α) (ls out : List (Pt α)) (area : Bool)
    (h : runSimplify (radialS df t) ls area = .ok out) :
    ∀ a b, Adjacent out.dropLast a b → t < df a b := radial_spacing_run' df t ls out area h

theorem vis_min_count_run (thr : Option α) (toKeep : Nat) (ls out : List (Pt α)) (area : Bool)
    (h : runSimplify (visS thr toKeep) ls area = .ok out) :
    min ls.length (visToKeep toKeep ls area) ≤ out.length := vis_min_count_run' thr toKeep ls out area h

/-- keep-N at the entry point, for every N ≥ 2 (N = 1 on a 2-point line is returned untouched) -/
theorem vis_keep_exact_run (toKeep : Nat) (ls out : List (Pt α)) (area : Bool)
    (h : runSimplify (visS none toKeep) ls area = .ok out) (h2 : 2 ≤ visToKeep toKeep ls area)
    (hk : visToKeep toKeep ls area < ls.length) :
    out.length = visToKeep toKeep ls area := vis_keep_exact_run' toKeep ls out area h h2 hk

/-- `Ring` with the default count: a closed ring never goes below 4 vertices, an open one never below 3 -/
theorem vis_ring_default_min (thr : Option α) (ls out : List (Pt α)) (h : ring (visS thr 0) ls = .ok out) :
    (Closed ls → min ls.length 4 ≤ out.length) ∧ (¬ Closed ls → min ls.length 3 ≤ out.length) :=
  vis_ring_default_min' thr ls out h

/-- `LineString` with the default count: never below 2 vertices -/
theorem vis_line_default_min (thr : Option α) (ls out : List (Pt α)) (h : lineString (visS thr 0) ls = .ok out) :
    min ls.length 2 ≤ out.length := vis_line_default_min' thr ls out h

/-! ### helpers.go -/

theorem dpS_good (t : α) : GoodS (dpS t) := dpS_good' t
theorem radialS_good (df : Pt α → Pt α → α) (t : α) : GoodS (radialS df t) := radialS_good' df t
theorem visS_good (thr : Option α) (toKeep : Nat) : GoodS (visS thr toKeep) := visS_good' thr toKeep

/-- `LineString` / `Ring` (through `runSimplify`): a subsequence in order with the end points kept. -/
theorem lineString_good (s : Simplifier α) (hs : GoodS s) (ls out : List (Pt α)) (h : lineString s ls = .ok out) :
    ValidLine ls out := lineString_good' s hs ls out h
theorem ring_good (s : Simplifier α) (hs : GoodS s) (ls out : List (Pt α)) (h : ring s ls = .ok out) :
    ValidLine ls out := ring_good' s hs ls out h

/-- `MultiLineString`: member by member. -/
theorem multiLineString_good (s : Simplifier α) (hs : GoodS s) (mls out : List (List (Pt α)))
    (h : multiLineString s mls = .ok out) : List.Forall₂ ValidLine mls out := multiLineString_good' s hs mls out h

/-- `Polygon`: the outer ring is always kept; the other rings are kept in order or dropped, and
    every surviving inner ring has more than 2 points. -/
theorem polygon_good (s : Simplifier α) (hs : GoodS s) (p out : List (List (Pt α))) (h : polygon s p = .ok out) :
    ValidPolygon p out := polygon_good' s hs p out h

/-- `MultiPolygon`: polygons are kept in order or dropped; every survivor's outer ring has more than 2 points. -/
theorem multiPolygon_good (s : Simplifier α) (hs : GoodS s) (mp out : List (List (List (Pt α))))
    (h : multiPolygon s mp = .ok out) :
    ∃ kept, kept.Sublist mp ∧ List.Forall₂ ValidPolygon kept out ∧
      ∀ pg ∈ out, ∃ r0 rs, pg = r0 :: rs ∧ 2 < r0.length := multiPolygon_good' s hs mp out h

/-- `MultiLineString` runs every line. -/
theorem multiLineString_exact (s : Simplifier α) (mls out : List (List (Pt α))) (h : multiLineString s mls = .ok out) :
    List.Forall₂ (fun l l' => runSimplify s l false = .ok l') mls out := multiLineString_exact' s mls out h

/-- `Polygon`, exactly: EVERY ring is run; the output is the results of the first ring and of every
    later ring that still has more than 2 points, in order (kept ⇔ i = 0 ∨ 2 < len). -/
theorem polygon_exact (s : Simplifier α) (p out : List (List (Pt α))) (h : polygon s p = .ok out) :
    ∃ rs, List.Forall₂ (fun r r' => runSimplify s r true = .ok r') p rs ∧ out = keepRings rs :=
  polygon_exact' s p out h

/-- `MultiPolygon`, exactly: EVERY polygon is run; the output is the results that have a first ring of
    more than 2 points, in order. -/
theorem multiPolygon_exact (s : Simplifier α) (mp out : List (List (List (Pt α)))) (h : multiPolygon s mp = .ok out) :
    ∃ ps, List.Forall₂ (fun p p' => polygon s p = .ok p') mp ps ∧ out = keepPolys ps :=
  multiPolygon_exact' s mp out h

/-- The generic `Simplify` on every kind and any collection depth (induction over `Geom`): each member
    vertex list is the result of `runSimplify` on the corresponding input list and a valid simplification
    of it (`RunRel`); rings / polygons stay or vanish exactly by `keepRings` / `keepPolys`; every member of
    a collection has a result and the collection that comes back holds exactly the non-nil ones, in
    order; empty results (a collection none of whose members is left included) are nil interfaces. -/
theorem simplifyG_good (s : Simplifier α) (hs : GoodS s) (g : Geom α) (o : OGeom α) (h : simplifyG s g = .ok o) :
    ValidOut (RunRel s) g o := simplifyG_good' s hs g o h

/-- The generic `Simplify` is the typed method followed by the "empty ⇒ nil interface" rule. -/
theorem wrappers_agree (s : Simplifier α) :
    (∀ l, simplifyG s (.lineString l) = wrapLen .lineString (lineString s l)) ∧
    (∀ l, simplifyG s (.multiLineString l) = wrapLen .multiLineString (multiLineString s l)) ∧
    (∀ l, simplifyG s (.ring l) = wrapLen .ring (ring s l)) ∧
    (∀ l, simplifyG s (.polygon l) = wrapLen .polygon (polygon s l)) ∧
    (∀ l, simplifyG s (.multiPolygon l) = wrapLen .multiPolygon (multiPolygon s l)) ∧
    (∀ l, simplifyG s (.collection l) =
      match collection s l with
      | .ok m => if m.length = 0 then .ok .nil else .ok (.coll m)
      | .err e => .err e
      | .panic w => .panic w) := wrappers_agree' s

/-- No panic (and no non-termination) through the generic entry point, for EVERY value — every geometry
    kind, any collection depth, empty and degenerate members, nil interface and typed nil slices —
    provided the simplifier itself is total on inputs of more than 2 points (it is never called on
    shorter ones). -/
theorem simplify_total (s : Simplifier α) (hs : ∀ ls area, 2 < ls.length → (s ls area).isOk = true)
    (v : GVal α) : (simplifyV s v).isOk = true := simplify_total' s hs v

/-- Radial, through the generic entry point: total for every value and EVERY arithmetic (hence also in float64). -/
theorem radial_simplify_total (df : Pt α → Pt α → α) (t : α) (v : GVal α) :
    (simplifyV (radialS df t) v).isOk = true := radial_simplify_total' df t v

/-! ### Orb/SimplifyExt.lean: what the driver runs beyond Orb/Simplify.lean -/

/-- The parametrised Visvalingam (end-item area, `math.Max`, and the guard of the repaired code: a popped
    end item is skipped) at the model's parameters is the model wherever the model does not panic. -/
theorem visSimplifyP_eq (thr : Option α) (toKeep : Nat) (ls : List (Pt α)) (area : Bool) (res : R (List (Pt α)))
    (h : visSimplify thr toKeep ls area = res) (hnp : ∀ w, res ≠ .panic w) :
    visSimplifyP none aMax thr toKeep ls area = res :=
  visSimplifyP_eq' thr toKeep ls area res h hnp

/-- Values with nil members: a non-collection member goes through `simplifyG`, … -/
theorem simplifyO_geom (s : Simplifier α) (g : Geom α) : simplifyO s (.geom g) = simplifyG s g :=
  simplifyO_geom' s g

/-- … and a collection without nil members is `simplifyG`'s collection (both drop the members whose
    result is a nil interface). -/
theorem simplifyO_coll_geoms (s : Simplifier α) (gs : List (Geom α)) :
    simplifyO s (.coll (gs.map .geom)) = simplifyG s (.collection gs) := simplifyO_coll_geoms' s gs

/-- No panic with nil members (nil interfaces, nil multi points) at any depth. -/
theorem simplifyO_total (s : Simplifier α) (hs : ∀ ls area, 2 < ls.length → (s ls area).isOk = true)
    (v : OGeom α) : (simplifyO s v).isOk = true := simplifyO_total' s hs v

/-- `mvt.Layer.Simplify`: the kept features are exactly those whose result is not a nil interface, in
    order, each with its own result. -/
theorem layerSimplify_exact {β : Type} (s : Simplifier α) (fs out : List (β × OGeom α))
    (h : layerSimplify s fs = .ok out) :
    ∃ gs, List.Forall₂ (fun f g' => simplifyO s f.2 = .ok g') fs gs ∧
      out = ((fs.map Prod.fst).zip gs).filter (fun p => !p.2.isNil) := layerSimplify_exact' s fs out h

/-- `mvt.Layers.Simplify` does not panic. -/
theorem layersSimplify_total {β : Type} (s : Simplifier α)
    (hs : ∀ ls area, 2 < ls.length → (s ls area).isOk = true) (ls : List (List (β × OGeom α))) :
    (layersSimplify s ls).isOk = true := layersSimplify_total' s hs ls

end anyArithmetic

section orderedField
variable {α : Type} [Field α] [LinearOrder α] [IsStrictOrderedRing α]

/-! ### the distance used by Douglas-Peucker is the exact squared point–segment distance -/

theorem distSegSq_le (a b p : Pt α) (s : α) (h0 : 0 ≤ s) (h1 : s ≤ 1) :
    distSegSq a b p ≤ distSq p ⟨a.x + s * (b.x - a.x), a.y + s * (b.y - a.y)⟩ := distSegSq_le' a b p s h0 h1

theorem distSegSq_attained (a b p : Pt α) :
    ∃ s, 0 ≤ s ∧ s ≤ 1 ∧ distSegSq a b p = distSq p ⟨a.x + s * (b.x - a.x), a.y + s * (b.y - a.y)⟩ :=
  distSegSq_attained' a b p

/-! ### Douglas-Peucker -/

/-- The work-list loop terminates within its fuel and does not panic on a non-empty line. -/
theorem dp_total (t : α) (ls : List (Pt α)) (h : ls ≠ []) : ∃ out, dpSimplify t ls = .ok out := dp_total' t ls h

/-- The explicit stack computes the recursive definition. -/
theorem dp_eq_recursive (t : α) (ls : List (Pt α)) (h : 2 ≤ ls.length) :
    (dpMask distSegSq t ls).map maskIdx =
      some (0 :: dpRec distSegSq ls (t * t) ls.length 0 (ls.length - 1) ++ [ls.length - 1]) :=
  dp_eq_recursive' t ls h

/-- Every input vertex lying between two consecutive kept vertices is within the threshold of the
    segment joining them (squared: `≤ t*t`, with `distSegSq` the exact squared distance, above). -/
theorem dp_error_bound (t : α) (ls : List (Pt α)) (idx : List Nat)
    (h : (dpMask distSegSq t ls).map maskIdx = some idx) :
    ∀ i j, Adjacent idx i j → ∀ k, i < k → k < j → ∀ a b p, ls[i]? = some a → ls[j]? = some b → ls[k]? = some p →
      distSegSq a b p ≤ t * t := dp_error_bound' t ls idx h

/-- Simplifying a simplified line again changes nothing. -/
theorem dp_idempotent (t : α) (ls out : List (Pt α)) (h : dpSimplify t ls = .ok out) :
    dpSimplify t out = .ok out := dp_idempotent' t ls out h

/-- A larger threshold never keeps a vertex a smaller one dropped. -/
theorem dp_nested (t₁ t₂ : α) (h0 : 0 ≤ t₁) (h12 : t₁ ≤ t₂) (ls o₁ o₂ : List (Pt α))
    (h₁ : dpSimplify t₁ ls = .ok o₁) (h₂ : dpSimplify t₂ ls = .ok o₂) : o₂.Sublist o₁ :=
  dp_nested' t₁ t₂ h0 h12 ls o₁ o₂ h₁ h₂

/-! ### Douglas-Peucker and Visvalingam at the typed entry points -/

theorem dp_error_bound_run (t : α) (ls out : List (Pt α)) (area : Bool)
    (h : runSimplify (dpS t) ls area = .ok out) :
    ∃ idx : List Nat, idx.Pairwise (· < ·) ∧ (∀ i ∈ idx, i < ls.length) ∧
      out = idx.filterMap (fun i => ls[i]?) ∧
      ∀ i j, Adjacent idx i j → ∀ k, i < k → k < j → ∀ a b p,
        ls[i]? = some a → ls[j]? = some b → ls[k]? = some p → distSegSq a b p ≤ t * t :=
  dp_error_bound_run' t ls out area h

theorem dp_idempotent_run (t : α) (ls out : List (Pt α)) (area : Bool)
    (h : runSimplify (dpS t) ls area = .ok out) : runSimplify (dpS t) out area = .ok out :=
  dp_idempotent_run' t ls out area h

theorem dp_nested_run (t₁ t₂ : α) (h0 : 0 ≤ t₁) (h12 : t₁ ≤ t₂) (ls o₁ o₂ : List (Pt α)) (area : Bool)
    (h₁ : runSimplify (dpS t₁) ls area = .ok o₁) (h₂ : runSimplify (dpS t₂) ls area = .ok o₂) :
    o₂.Sublist o₁ := dp_nested_run' t₁ t₂ h0 h12 ls o₁ o₂ area h₁ h₂

theorem vis_nested_run (thr₁ thr₂ : Option α) (k₁ k₂ : Nat) (ls o₁ o₂ : List (Pt α)) (area : Bool)
    (ht : aLe thr₁ thr₂ = true) (hk : visToKeep k₂ ls area ≤ visToKeep k₁ ls area)
    (h₁ : runSimplify (visS thr₁ k₁) ls area = .ok o₁) (h₂ : runSimplify (visS thr₂ k₂) ls area = .ok o₂) :
    o₂.Sublist o₁ := vis_nested_run' thr₁ thr₂ k₁ k₂ ls o₁ o₂ area ht hk h₁ h₂

/-- … and over an ordered field the model never panics: there the two are equal outright. -/
theorem vis_twin_is_model (thr : Option α) (toKeep : Nat) (hk : toKeep = 0 ∨ 2 ≤ toKeep) (ls : List (Pt α)) (area : Bool) :
    visSimplifyP none aMax thr toKeep ls area = visSimplify thr toKeep ls area :=
  vis_twin_is_model' thr toKeep hk ls area

/-! ### Visvalingam: the hand-rolled heap -/

/-- `Push` keeps the invariant (every item knows its heap position; parents are not larger) and adds the item. -/
theorem push_heapInv (st : VS α) (id : Nat) (h : HeapInv st) (hid : id < st.items.size) (hnew : id ∉ st.heap.toList) :
    HeapInv (push st id) ∧ (push st id).heap.toList.Perm (id :: st.heap.toList) ∧
      ∀ j, (push st id).area j = st.area j := push_heapInv' st id h hid hnew

/-- `Pop` keeps the invariant, removes exactly the returned item, and that item has minimum area. -/
theorem pop_heapInv (st : VS α) (h : HeapInv st) (hne : 0 < st.heap.size) :
    HeapInv (pop st).2 ∧ st.heap.toList.Perm ((pop st).1 :: (pop st).2.heap.toList) ∧
      (∀ j, (pop st).2.area j = st.area j) ∧
      ∀ id ∈ st.heap.toList, aLe (st.area (pop st).1) (st.area id) = true := pop_heapInv' st h hne

/-- `Update` keeps the invariant and the contents, and sets the item's area. -/
theorem update_heapInv (st : VS α) (id : Nat) (a : Option α) (h : HeapInv st) (hin : id ∈ st.heap.toList) :
    HeapInv (update st id a) ∧ (update st id a).heap.toList.Perm st.heap.toList ∧
      (update st id a).area id = a ∧ ∀ j, j ≠ id → (update st id a).area j = st.area j :=
  update_heapInv' st id a h hin

/-- With a minimum count of 0 (defaults) or ≥ 2 Visvalingam neither panics nor runs out of fuel. -/
theorem vis_total (thr : Option α) (toKeep : Nat) (hk : toKeep = 0 ∨ 2 ≤ toKeep) (ls : List (Pt α)) (area : Bool) :
    ∃ out, visSimplify thr toKeep ls area = .ok out := vis_total' thr toKeep hk ls area

/-- A larger threshold (and a not larger minimum count) never keeps a vertex the smaller one dropped. -/
theorem vis_nested (thr₁ thr₂ : Option α) (k₁ k₂ : Nat) (ls o₁ o₂ : List (Pt α)) (area : Bool)
    (ht : aLe thr₁ thr₂ = true) (hk : visToKeep k₂ ls area ≤ visToKeep k₁ ls area)
    (h₁ : visSimplify thr₁ k₁ ls area = .ok o₁) (h₂ : visSimplify thr₂ k₂ ls area = .ok o₂) :
    o₂.Sublist o₁ := vis_nested' thr₁ thr₂ k₁ k₂ ls o₁ o₂ area ht hk h₁ h₂

/-! ### no panic, no non-termination: every value through `Simplify`, for each simplifier -/

theorem dp_simplify_total (t : α) (v : GVal α) : (simplifyV (dpS t) v).isOk = true := dp_simplify_total' t v

theorem vis_simplify_total (thr : Option α) (toKeep : Nat) (hk : toKeep = 0 ∨ 2 ≤ toKeep) (v : GVal α) :
    (simplifyV (visS thr toKeep) v).isOk = true := vis_simplify_total' thr toKeep hk v

end orderedField

/-- Non-vacuity: concrete runs of the three simplifiers that drop some vertices, a closed ring, and
    a polygon without rings inside a multi-polygon (dropped; it used to panic — DESIGN §7 #10). -/
example :
    visSimplify (some (1 : Int)) 0 [⟨0, 0⟩, ⟨1, 3⟩, ⟨2, 0⟩, ⟨3, 0⟩, ⟨4, 0⟩] false = .ok [⟨0, 0⟩, ⟨1, 3⟩, ⟨2, 0⟩, ⟨4, 0⟩] ∧
    radialSimplify distSq (4 : Int) [⟨0, 0⟩, ⟨1, 0⟩, ⟨3, 0⟩, ⟨4, 0⟩] = .ok [⟨0, 0⟩, ⟨3, 0⟩, ⟨4, 0⟩] ∧
    multiPolygon (dpS (1 : Int)) [[]] = .ok [] := by decide

/-- Non-vacuity of the exact statements: the default counts on a closed and on an open ring; a polygon
    whose FIRST hole collapses (and is dropped) while the second survives; keep-2 on a closed ring. -/
example :
    visToKeep 0 [(⟨0, 0⟩ : Pt Int), ⟨1, 0⟩, ⟨0, 0⟩] true = 4 ∧ visToKeep 0 [(⟨0, 0⟩ : Pt Int), ⟨1, 0⟩, ⟨2, 0⟩] true = 3 ∧
    polygon (dpS (1 : Int)) [[⟨0, 0⟩, ⟨9, 0⟩, ⟨9, 9⟩, ⟨0, 0⟩], [⟨1, 1⟩, ⟨2, 1⟩, ⟨1, 1⟩], [⟨3, 1⟩, ⟨6, 1⟩, ⟨6, 4⟩, ⟨3, 1⟩]] =
      .ok [[⟨0, 0⟩, ⟨9, 0⟩, ⟨9, 9⟩, ⟨0, 0⟩], [⟨3, 1⟩, ⟨6, 1⟩, ⟨6, 4⟩, ⟨3, 1⟩]] ∧
    ring (visS (none : Option Int) 2) [⟨0, 0⟩, ⟨4, 0⟩, ⟨4, 4⟩, ⟨0, 4⟩, ⟨0, 0⟩] = .ok [⟨0, 0⟩, ⟨0, 0⟩] := by decide

end Orb.Simplify
