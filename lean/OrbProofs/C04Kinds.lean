/-
  C04 — the keyword dispatch and the seven non-collection parsers on spelled texts.
  Helper file of OrbProofs.C04Lemmas.
-/
import OrbProofs.C04Base
import OrbProofs.C04Regex
import Mathlib.Tactic

namespace Orb.WKT

/-- keyword of the text of a value (ring and bound are printed as polygons) -/
def kwOf : G → Str
  | .point _ => kwPoint | .multiPoint _ => kwMultiPoint | .lineString _ => kwLineString
  | .multiLineString _ => kwMultiLineString | .ring _ | .polygon _ | .bound _ _ => kwPolygon
  | .multiPolygon _ => kwMultiPolygon | .collection _ => kwCollection

/-- the keywords in the order of `typedAll` -/
def kwAt : Nat → Str
  | 0 => kwPoint | 1 => kwMultiPoint | 2 => kwLineString | 3 => kwMultiLineString
  | 4 => kwPolygon | 5 => kwMultiPolygon | _ => kwCollection

theorem kwAt_kindIdx (g : G) : kwAt (kindIdx g) = kwOf g := by
  cases g <;> rfl

/-! ### bytes, ends -/

theorem kd_isBlank_iff (b : UInt8) : isBlank b = true ↔ b = 32 ∨ b = 9 ∨ b = 10 := by
  simp [isBlank, cSpace, cTab, cNL, or_assoc]

theorem kd_notBlank_of_upper {b : UInt8} (h : isBlank (upper b) = false) : isBlank b = false := by
  cases hb : isBlank b with
  | false => rfl
  | true =>
    rcases (kd_isBlank_iff b).1 hb with rfl | rfl | rfl <;> revert h <;> decide

theorem kd_allBlank_nil : AllBlank [] := fun _ h => by cases h

theorem kd_getLast?_snoc (l : Str) (a : UInt8) : (l ++ [a]).getLast? = some a := by simp

theorem kd_getLast?_snoc2 (b : UInt8) (l m : Str) (a : UInt8) :
    (b :: (l ++ (m ++ [a]))).getLast? = some a := by
  rw [← List.append_assoc, ← List.cons_append]; exact kd_getLast?_snoc _ _

theorem kd_goodEnds_mk {s : Str} (hl : 2 ≤ s.length) {x y : UInt8} (hh : s.head? = some x) (hx : isBlank x = false)
    (ht : s.getLast? = some y) (hy : isBlank y = false) : GoodEnds s :=
  ⟨hl, fun b hb => by rw [hh] at hb; cases hb; exact hx, fun b hb => by rw [ht] at hb; cases hb; exact hy⟩

theorem kd_caseVariant_cons {c : UInt8} {K k : Str} (h : CaseVariant (c :: K) k) :
    ∃ b k', k = b :: k' ∧ upper b = c ∧ CaseVariant K k' := by
  unfold CaseVariant at h
  obtain ⟨b, k', rfl, hb, hk⟩ := List.map_eq_cons_iff.1 h
  exact ⟨b, k', rfl, hb, hk⟩

theorem kd_caseVariant_append {A B t : Str} (h : CaseVariant (A ++ B) t) :
    ∃ k r, t = k ++ r ∧ CaseVariant A k ∧ CaseVariant B r := by
  unfold CaseVariant at h
  exact List.map_eq_append_iff.1 h

theorem kd_kwOf_head (g : G) : ∃ c kw', kwOf g = c :: kw' ∧ isBlank c = false := by
  cases g <;> exact ⟨_, _, rfl, by decide⟩

theorem kd_goodEnds_kw_rp {kw k mid kw' : Str} {c : UInt8} (hkw : kw = c :: kw') (hc : isBlank c = false)
    (hv : CaseVariant kw k) : GoodEnds (k ++ (mid ++ [cRP])) := by
  subst hkw
  obtain ⟨b, k', rfl, hb, _⟩ := kd_caseVariant_cons hv
  refine kd_goodEnds_mk (x := b) (y := cRP) ?_ rfl (kd_notBlank_of_upper (by rw [hb]; exact hc)) ?_ (by decide)
  · simp; omega
  · exact kd_getLast?_snoc2 _ _ _ _

theorem kd_goodEnds_empty {kw t kw' : Str} {c : UInt8} (hkw : kw = c :: kw') (hc : isBlank c = false)
    (hv : CaseVariant (kw ++ sEmpty) t) : GoodEnds t := by
  subst hkw
  have hl : t.length = (c :: kw' ++ sEmpty).length := caseVariant_length hv
  obtain ⟨b, k', rfl, hb, hk'⟩ := kd_caseVariant_cons hv
  have hlast : ((b :: k').map upper).getLast? = some 89 := by
    rw [hv]; exact kd_getLast?_snoc2 c kw' [32, 69, 77, 80, 84] 89
  rw [List.getLast?_map] at hlast
  cases hy : (b :: k').getLast? with
  | none => rw [hy] at hlast; simp at hlast
  | some y =>
    rw [hy] at hlast
    simp only [Option.map_some, Option.some.injEq] at hlast
    refine kd_goodEnds_mk (x := b) (y := y) ?_ rfl (kd_notBlank_of_upper (by rw [hb]; exact hc)) hy
      (kd_notBlank_of_upper (by rw [hlast]; decide))
    rw [hl]; simp [sEmpty]

section
variable (fmtF : UInt64 → Str) (parseF : Str → Option UInt64)

/-- outer shape of a spelling: `KW EMPTY`, or `KW … ( … )` -/
theorem kd_spelledCore_shape {g : G} {t : Str} (h : SpelledCore fmtF g t) :
    CaseVariant (kwOf g ++ sEmpty) t ∨
      ∃ k mid, CaseVariant (kwOf g) k ∧ cLP ∈ mid ∧ t = k ++ (mid ++ [cRP]) := by
  have kb : ∀ {kw body t}, KwBracketed kw body t →
      ∃ k mid, CaseVariant kw k ∧ cLP ∈ mid ∧ t = k ++ (mid ++ [cRP]) := by
    rintro kw body t ⟨k, a, b, c, hv, -, -, -, rfl⟩
    exact ⟨k, a ++ cLP :: (b ++ body ++ c), hv, by simp, by simp [bracketed]⟩
  have kp : ∀ {kw rs t}, KwRings fmtF kw rs t →
      ∃ k mid, CaseVariant kw k ∧ cLP ∈ mid ∧ t = k ++ (mid ++ [cRP]) := by
    rintro kw rs t ⟨_, _, _, _, h⟩
    exact kb h
  cases g with
  | point p => simp only [SpelledCore] at h; exact .inr (kb h)
  | multiPoint ps =>
    cases ps with
    | nil => simp only [SpelledCore] at h; exact .inl h
    | cons p ps => simp only [SpelledCore] at h; obtain ⟨_, _, _, _, h⟩ := h; exact .inr (kb h)
  | lineString ps =>
    cases ps with
    | nil => simp only [SpelledCore] at h; exact .inl h
    | cons p ps => simp only [SpelledCore] at h; obtain ⟨_, _, h⟩ := h; exact .inr (kb h)
  | multiLineString ps =>
    cases ps with
    | nil => simp only [SpelledCore] at h; exact .inl h
    | cons p ps => simp only [SpelledCore] at h; exact .inr (kp h)
  | ring r => simp only [SpelledCore] at h; exact .inr (kp h)
  | polygon ps =>
    cases ps with
    | nil => simp only [SpelledCore] at h; exact .inl h
    | cons p ps => simp only [SpelledCore] at h; exact .inr (kp h)
  | multiPolygon ps =>
    cases ps with
    | nil => simp only [SpelledCore] at h; exact .inl h
    | cons p ps => simp only [SpelledCore] at h; obtain ⟨_, _, _, _, h⟩ := h; exact .inr (kb h)
  | bound a b => simp only [SpelledCore] at h; exact .inr (kp h)
  | collection ps =>
    cases ps with
    | nil => simp only [SpelledCore] at h; exact .inl h
    | cons p ps => simp only [SpelledCore] at h; obtain ⟨_, _, _, _, h⟩ := h; exact .inr (kb h)

/-- a spelled text starts with a case variant of its keyword -/
theorem spelledCore_prefix {g : G} {t : Str} (h : SpelledCore fmtF g t) :
    ∃ k rest, CaseVariant (kwOf g) k ∧ t = k ++ rest := by
  rcases kd_spelledCore_shape fmtF h with h | ⟨k, mid, hv, -, rfl⟩
  · obtain ⟨k, r, rfl, hk, -⟩ := kd_caseVariant_append h
    exact ⟨k, r, hk, rfl⟩
  · exact ⟨k, _, hv, rfl⟩

/-- … starts with a letter, ends with `)` or a letter, and has at least two bytes -/
theorem spelledCore_goodEnds {g : G} {t : Str} (h : SpelledCore fmtF g t) : GoodEnds t := by
  obtain ⟨c, kw', hkw, hc⟩ := kd_kwOf_head g
  rcases kd_spelledCore_shape fmtF h with h | ⟨k, mid, hv, -, rfl⟩
  · exact kd_goodEnds_empty hkw hc h
  · exact kd_goodEnds_kw_rp hkw hc hv

/-- `Unmarshal`'s dispatch on a padded text that starts with a case variant `k` of the keyword of
    position `i` (order of `typedAll`): it takes the branch of that keyword, on the trimmed text. -/
theorem unmarshalF_dispatch {fuel i : Nat} {pre post k rest : Str} (hi : i < 7)
    (hpre : AllBlank pre) (hpost : AllBlank post) (hv : CaseVariant (kwAt i) k) (hge : GoodEnds (k ++ rest)) :
    unmarshalF parseF (fuel + 1) (pre ++ (k ++ rest) ++ post) =
      (match i with
       | 0 => (unmarshalPoint parseF (k ++ rest)).map .point
       | 1 => (unmarshalMultiPoint parseF (k ++ rest)).map .multiPoint
       | 2 => (unmarshalLineString parseF (k ++ rest)).map .lineString
       | 3 => (unmarshalMultiLineString parseF (k ++ rest)).map .multiLineString
       | 4 => (unmarshalPolygon parseF (k ++ rest)).map .polygon
       | 5 => (unmarshalMultiPolygon parseF (k ++ rest)).map .multiPolygon
       | _ => (unmarshalCollection (unmarshalF parseF fuel) (k ++ rest)).map .collection) := by
  have htrim := trimSpace_pad hpre hpost hge
  have hl : (kwAt i).length ≤ 20 := by interval_cases i <;> decide
  obtain ⟨tail, htail⟩ := upperPrefix_caseVariant (rest := rest) hv hl
  simp only [unmarshalF, htrim, htail]
  interval_cases i <;>
    simp [kwAt, hasPrefix, kwPoint, kwLineString, kwPolygon, kwMultiPoint, kwMultiLineString,
      kwMultiPolygon, kwCollection, List.isPrefixOf]

/-- the guard of the typed entry points on the same texts: own keyword passes, every other one is
    `ErrIncorrectGeometry` -/
theorem typed_dispatch {α : Type} {i j : Nat} {pre post k rest : Str} (hi : i < 7) (hj : j < 7)
    (hpre : AllBlank pre) (hpost : AllBlank post) (hv : CaseVariant (kwAt i) k) (hge : GoodEnds (k ++ rest))
    (body : Str → R α) :
    typed (kwAt j) body (pre ++ (k ++ rest) ++ post) = if j = i then body (k ++ rest) else .err .incorrect := by
  have htrim := trimSpace_pad hpre hpost hge
  have hl : (kwAt i).length ≤ 20 := by interval_cases i <;> decide
  obtain ⟨tail, htail⟩ := upperPrefix_caseVariant (rest := rest) hv hl
  simp only [typed, htrim, htail]
  interval_cases i <;> interval_cases j <;>
    simp [kwAt, hasPrefix, kwPoint, kwLineString, kwPolygon, kwMultiPoint, kwMultiLineString,
      kwMultiPolygon, kwCollection, List.isPrefixOf]

end

/-! ### helpers for the per-kind parsers -/

section helpers
variable {fmtF : UInt64 → Str} {parseF : Str → Option UInt64}

/-- both coordinates of a point are well-behaved float texts -/
def kd_GoodPt (fmtF : UInt64 → Str) (parseF : Str → Option UInt64) (p : P) : Prop :=
  FloatText fmtF parseF p.x ∧ FloatText fmtF parseF p.y

theorem kd_goodPts_of_coords {ps : List P} (h : ∀ x ∈ ptsCoords ps, FloatText fmtF parseF x) :
    ∀ p ∈ ps, kd_GoodPt fmtF parseF p := by
  intro p hp
  constructor
  · exact h _ (by simp only [ptsCoords, List.mem_flatMap]; exact ⟨p, hp, by simp [ptCoords]⟩)
  · exact h _ (by simp only [ptsCoords, List.mem_flatMap]; exact ⟨p, hp, by simp [ptCoords]⟩)

theorem kd_goodRings_of_coords {rs : List (List P)} (h : ∀ x ∈ ringsCoords rs, FloatText fmtF parseF x) :
    ∀ r ∈ rs, ∀ p ∈ r, kd_GoodPt fmtF parseF p := by
  intro r hr
  apply kd_goodPts_of_coords
  intro x hx
  exact h x (by simp only [ringsCoords, List.mem_flatMap]; exact ⟨r, hr, hx⟩)

theorem kd_foldlR_forall2 {α : Type} {r : α → Str → Prop} {f : List α → Str → R (List α)} {xs : List α}
    {pieces : List Str} (h : Forall2 r xs pieces)
    (hf : ∀ acc x p, x ∈ xs → r x p → f acc p = .ok (acc ++ [x])) (init : List α) :
    foldlR f init pieces = .ok (init ++ xs) := by
  induction h generalizing init with
  | nil => simp [foldlR]
  | @cons a b as bs hr _ ih =>
    simp only [foldlR, hf init a b (by simp) hr]
    rw [ih (fun acc x p hx => hf acc x p (by simp [hx]))]
    simp

theorem kd_forall2_map {α : Type} {r : α → Str → Prop} (g : α → Str) (xs : List α) (h : ∀ x ∈ xs, r x (g x)) :
    Forall2 r xs (xs.map g) := by
  induction xs with
  | nil => exact .nil
  | cons x xs ih =>
    exact .cons (h x (by simp)) (ih (fun y hy => h y (by simp [hy])))

theorem kd_forall2_right {α : Type} {r : α → Str → Prop} {xs : List α} {ys : List Str} (h : Forall2 r xs ys) :
    ∀ y ∈ ys, ∃ x ∈ xs, r x y := by
  induction h with
  | nil => intro y hy; cases hy
  | @cons a b as bs hr _ ih =>
    intro y hy
    rcases List.mem_cons.1 hy with rfl | hy
    · exact ⟨a, by simp, hr⟩
    · obtain ⟨x, hx, hxy⟩ := ih y hy
      exact ⟨x, by simp [hx], hxy⟩

theorem kd_sliceFrom_kw {kw k rest : Str} (hv : CaseVariant kw k) : sliceFrom (k ++ rest) kw.length = .ok rest := by
  rw [← caseVariant_length hv]; exact sliceFrom_append k rest

/-- the common head of the six list parsers on a bracketed spelling -/
theorem kd_head_kwBracketed {kw body t : Str} (n : Nat) (hn : kw.length = n) (hK : cLP ∉ kw ++ sEmpty)
    (h : KwBracketed kw body t) (hb : GoodEnds body) :
    equalFold t (kw ++ sEmpty) = false ∧ ∃ u, sliceFrom t n = .ok u ∧ trimSpaceBrackets u = .ok body := by
  obtain ⟨k, a, b, c, hv, ha, hb', hc, rfl⟩ := h
  refine ⟨equalFold_false_of_lp hK (by simp [bracketed]), bracketed a b c body, ?_,
    trimSpaceBrackets_bracketed ha hb' hc hb⟩
  rw [← hn]; exact kd_sliceFrom_kw hv

theorem kd_parsePoints_sepJoin {ps : List P} {body : Str} (hg : ∀ p ∈ ps, kd_GoodPt fmtF parseF p)
    (hj : SepJoin (ps.map (wCoord fmtF)) body) : parsePoints parseF body = .ok ps ∧ GoodEnds body := by
  have hpc : ∀ q ∈ ps.map (wCoord fmtF), IsPiece q := by
    intro q hq; obtain ⟨p, hp, rfl⟩ := List.mem_map.1 hq; exact wCoord_isPiece (hg p hp).1 (hg p hp).2
  constructor
  · unfold parsePoints
    rw [splitOnComma_sepJoin hj hpc]
    refine (kd_foldlR_forall2 (kd_forall2_map (r := fun p q => q = wCoord fmtF p) (wCoord fmtF) ps
      (fun _ _ => rfl)) ?_ []).trans (by simp)
    intro acc x p hx hp
    subst hp
    simp only [parsePoint_wCoord (hg x hx).1 (hg x hx).2]
  · refine sepJoin_goodEnds hj (fun q hq => ⟨(hpc q hq).1, (hpc q hq).2.2.1, (hpc q hq).2.2.2⟩) ?_
    intro q hq
    obtain ⟨p, hp, rfl⟩ := List.mem_map.1 hq
    exact (wCoord_goodEnds (hg p hp).1 (hg p hp).2).1

theorem kd_not_mem_of_allBlank {b : Str} (hb : AllBlank b) {x : UInt8} (hx : isBlank x = false) : x ∉ b := by
  intro h; rw [hb x h] at hx; cases hx

theorem kd_brPoint_isPiece {p : P} {q : Str} (hp : kd_GoodPt fmtF parseF p) (h : IsBrPoint fmtF p q) :
    IsPiece q ∧ 2 ≤ q.length := by
  obtain ⟨b, c, hb, hc, rfl⟩ := h
  have hcl := wCoord_clean hp.1 hp.2
  refine ⟨⟨by simp [bracketed], ?_, ?_, ?_⟩, by simp [bracketed]; omega⟩
  · simp only [bracketed, List.nil_append, List.mem_cons, List.mem_append, List.not_mem_nil, or_false]
    rintro (h | ((h | h) | h) | h)
    · revert h; decide
    · exact kd_not_mem_of_allBlank hb (by decide) h
    · exact hcl.1 h
    · exact kd_not_mem_of_allBlank hc (by decide) h
    · revert h; decide
  · intro x hx
    simp only [bracketed, List.nil_append, List.head?_cons, Option.some.injEq] at hx
    subst hx; decide
  · intro x hx
    have : bracketed [] b c (wCoord fmtF p) = (cLP :: (b ++ wCoord fmtF p ++ c)) ++ [cRP] := by
      simp [bracketed]
    rw [this, kd_getLast?_snoc] at hx
    cases hx; decide

theorem kd_mem_sepJoin {x : UInt8} {xs : List Str} {body : Str} (hj : SepJoin xs body) (hx : x ∈ body) :
    x = cComma ∨ isBlank x = true ∨ ∃ s ∈ xs, x ∈ s := by
  induction hj with
  | one p => exact .inr (.inr ⟨p, by simp, hx⟩)
  | cons p a b ps t ha hb _ ih =>
    simp only [List.mem_append, List.mem_cons] at hx
    rcases hx with (hx | hx) | rfl | hx | hx
    · exact .inr (.inr ⟨p, by simp, hx⟩)
    · exact .inr (.inl (ha x hx))
    · exact .inl rfl
    · exact .inr (.inl (hb x hx))
    · rcases ih hx with h | h | ⟨s, hs, hxs⟩
      · exact .inl h
      · exact .inr (.inl h)
      · exact .inr (.inr ⟨s, List.mem_cons_of_mem _ hs, hxs⟩)

/-- pieces of the shape `( … )` joined by re-spelled commas: the joined text has good ends -/
theorem kd_goodEnds_sepJoin_paren {xs : List Str} {body : Str} (hj : SepJoin xs body)
    (h : ∀ x ∈ xs, ∃ m, x = cLP :: (m ++ [cRP])) : GoodEnds body := by
  refine sepJoin_goodEnds hj ?_ ?_
  · intro x hx
    obtain ⟨m, rfl⟩ := h x hx
    refine ⟨by simp, ?_, ?_⟩
    · intro b hb
      simp only [List.head?_cons, Option.some.injEq] at hb
      subst hb; decide
    · intro b hb
      rw [show cLP :: (m ++ [cRP]) = (cLP :: m) ++ [cRP] from rfl, kd_getLast?_snoc] at hb
      cases hb; decide
  · intro x hx
    obtain ⟨m, rfl⟩ := h x hx
    simp

theorem kd_brPoints_paren {ps : List P} {t : Str} (h : IsBrPoints fmtF ps t) : ∃ m, t = cLP :: (m ++ [cRP]) := by
  rcases h with ⟨-, rfl⟩ | ⟨b, c, body, -, -, -, rfl⟩
  · exact ⟨[], rfl⟩
  · exact ⟨b ++ body ++ c, by simp [bracketed]⟩

theorem kd_brPoly_paren {rs : List (List P)} {t : Str} (h : IsBrPoly fmtF rs t) : ∃ m, t = cLP :: (m ++ [cRP]) := by
  rcases h with ⟨-, rfl⟩ | ⟨pieces, b, c, body, -, -, -, -, rfl⟩
  · exact ⟨[], rfl⟩
  · exact ⟨b ++ body ++ c, by simp [bracketed]⟩

/-- a re-spelled ring / line-string member contains no `)` before its last byte -/
theorem kd_isRingText_brPoints {ps : List P} {q : Str} (hg : ∀ p ∈ ps, kd_GoodPt fmtF parseF p)
    (h : IsBrPoints fmtF ps q) : IsRingText q := by
  rcases h with ⟨-, rfl⟩ | ⟨b, c, body, hb, hc, hj, rfl⟩
  · exact ⟨[], rfl, by simp⟩
  · refine ⟨b ++ body ++ c, by simp [bracketed], fun h => ?_⟩
    simp only [List.mem_append] at h
    rcases h with (h | h) | h
    · exact kd_not_mem_of_allBlank hb (by decide) h
    · rcases kd_mem_sepJoin hj h with h | h | ⟨s, hs, hx⟩
      · revert h; decide
      · revert h; decide
      · obtain ⟨p, hp, rfl⟩ := List.mem_map.1 hs
        exact (wCoord_clean (hg p hp).1 (hg p hp).2).2.2 hx
    · exact kd_not_mem_of_allBlank hc (by decide) h

theorem kd_parseBracketedPoints_brPoints {ps : List P} {q : Str} (hne : ps ≠ [])
    (hg : ∀ p ∈ ps, kd_GoodPt fmtF parseF p) (h : IsBrPoints fmtF ps q) (acc : List (List P)) :
    parseBracketedPoints parseF acc q = .ok (acc ++ [ps]) := by
  rcases h with ⟨rfl, -⟩ | ⟨b, c, body, hb, hc, hj, rfl⟩
  · exact absurd rfl hne
  · obtain ⟨h1, h2⟩ := kd_parsePoints_sepJoin hg hj
    simp only [parseBracketedPoints, trimSpaceBrackets_bracketed kd_allBlank_nil hb hc h2, h1]

theorem kd_rings_parse {rs : List (List P)} {pieces : List Str} {body : Str}
    (hf : Forall2 (IsBrPoints fmtF) rs pieces) (hj : SepJoin pieces body)
    (hr : ∀ r ∈ rs, r ≠ [] ∧ ∀ p ∈ r, kd_GoodPt fmtF parseF p) (init : List (List P)) :
    splitByRegexp body matchSingle (parseBracketedPoints parseF) init = .ok (init ++ rs) := by
  rw [splitByRegexp_rings_sep hj (by
    intro q hq; obtain ⟨r, hr', hrq⟩ := kd_forall2_right hf q hq
    exact kd_isRingText_brPoints (hr r hr').2 hrq)]
  refine kd_foldlR_forall2 hf ?_ init
  intro acc x p hx hp
  exact kd_parseBracketedPoints_brPoints (hr x hx).1 (hr x hx).2 hp acc

theorem kd_goodEnds_rings {rs : List (List P)} {pieces : List Str} {body : Str}
    (hf : Forall2 (IsBrPoints fmtF) rs pieces) (hj : SepJoin pieces body) : GoodEnds body := by
  refine kd_goodEnds_sepJoin_paren hj ?_
  intro x hx
  obtain ⟨r, -, hrx⟩ := kd_forall2_right hf x hx
  exact kd_brPoints_paren hrx

/-- the common body of `unmarshalMultiLineString` / `unmarshalPolygon` on a re-spelled text -/
theorem kd_kwRings_parse {kw t : Str} {rs : List (List P)} (n : Nat) (hn : kw.length = n) (hK : cLP ∉ kw ++ sEmpty)
    (h : KwRings fmtF kw rs t) (hr : ∀ r ∈ rs, r ≠ [] ∧ ∀ p ∈ r, kd_GoodPt fmtF parseF p) :
    equalFold t (kw ++ sEmpty) = false ∧ ∃ u body, sliceFrom t n = .ok u ∧ trimSpaceBrackets u = .ok body ∧
      splitByRegexp body matchSingle (parseBracketedPoints parseF) [] = .ok rs := by
  obtain ⟨pieces, body, hf, hj, hk⟩ := h
  obtain ⟨he, u, hu, htb⟩ := kd_head_kwBracketed n hn hK hk (kd_goodEnds_rings hf hj)
  exact ⟨he, u, body, hu, htb, (kd_rings_parse hf hj hr []).trans (by simp)⟩

theorem kd_isPolyTextS_brPoly {rs : List (List P)} {x : Str} (hne : rs ≠ [])
    (hg : ∀ r ∈ rs, ∀ p ∈ r, kd_GoodPt fmtF parseF p) (h : IsBrPoly fmtF rs x) : IsPolyTextS x := by
  rcases h with ⟨rfl, -⟩ | ⟨pieces, b, c, body, hb, hc, hf, hj, rfl⟩
  · exact absurd rfl hne
  · refine ⟨pieces, body, b, c, ?_, hj, hb, hc, rfl⟩
    intro q hq
    obtain ⟨r, hr, hrq⟩ := kd_forall2_right hf q hq
    exact kd_isRingText_brPoints (hg r hr) hrq

/-- the plain texts are instances of the re-spelled members (all blanks empty) -/
theorem kd_isBrPoints_wLineString (fmtF : UInt64 → Str) (ps : List P) : IsBrPoints fmtF ps (wLineString fmtF ps) := by
  cases ps with
  | nil => exact .inl ⟨rfl, by simp [wLineString, commaSep]⟩
  | cons p ps =>
    exact .inr ⟨[], [], _, kd_allBlank_nil, kd_allBlank_nil, sepJoin_commaSep (by simp),
      by simp [wLineString, bracketed]⟩

theorem kd_forall2_wLineString (fmtF : UInt64 → Str) (rs : List (List P)) :
    Forall2 (IsBrPoints fmtF) rs (rs.map (wLineString fmtF)) :=
  kd_forall2_map _ rs (fun r _ => kd_isBrPoints_wLineString fmtF r)

theorem kd_isBrPoly_wRings (fmtF : UInt64 → Str) (rs : List (List P)) : IsBrPoly fmtF rs (wRings fmtF rs) := by
  cases rs with
  | nil => exact .inl ⟨rfl, by simp [wRings, commaSep]⟩
  | cons r rs =>
    exact .inr ⟨_, [], [], _, kd_allBlank_nil, kd_allBlank_nil, kd_forall2_wLineString fmtF (r :: rs),
      sepJoin_commaSep (by simp), by simp [wRings, bracketed]⟩

end helpers

section
variable (fmtF : UInt64 → Str) (parseF : Str → Option UInt64)

/-! the seven non-collection parsers on spelled texts (no blanks at the ends) -/

theorem unmarshalPoint_spelled {p : P} {t : Str} (h : SpelledCore fmtF (.point p) t)
    (hc : GoodCoords fmtF parseF (.point p)) : unmarshalPoint parseF t = .ok p := by
  simp only [SpelledCore] at h
  have hp : kd_GoodPt fmtF parseF p := ⟨hc _ (by simp [coords, ptCoords]), hc _ (by simp [coords, ptCoords])⟩
  obtain ⟨-, u, hu, htb⟩ := kd_head_kwBracketed 5 rfl (by decide) h (wCoord_goodEnds hp.1 hp.2)
  simp only [unmarshalPoint, hu, htb, parsePoint_wCoord hp.1 hp.2]

theorem unmarshalMultiPoint_spelled {ps : List P} {t : Str} (h : SpelledCore fmtF (.multiPoint ps) t)
    (hc : GoodCoords fmtF parseF (.multiPoint ps)) : unmarshalMultiPoint parseF t = .ok ps := by
  cases ps with
  | nil =>
    simp only [SpelledCore] at h
    simp [unmarshalMultiPoint, equalFold_caseVariant h]
  | cons p ps =>
    simp only [SpelledCore] at h
    obtain ⟨pieces, body, hf, hj, hk⟩ := h
    have hg := kd_goodPts_of_coords (fmtF := fmtF) (parseF := parseF) (ps := p :: ps) hc
    have hpc : ∀ q ∈ pieces, IsPiece q ∧ 2 ≤ q.length := by
      intro q hq
      obtain ⟨x, hx, hxq⟩ := kd_forall2_right hf q hq
      exact kd_brPoint_isPiece (hg x hx) hxq
    have hge : GoodEnds body :=
      sepJoin_goodEnds hj (fun q hq => ⟨(hpc q hq).1.1, (hpc q hq).1.2.2.1, (hpc q hq).1.2.2.2⟩)
        (fun q hq => (hpc q hq).2)
    obtain ⟨he, u, hu, htb⟩ := kd_head_kwBracketed 10 rfl (by decide) hk hge
    simp only [unmarshalMultiPoint, he, hu, htb, Bool.false_eq_true, if_false]
    rw [splitOnComma_sepJoin hj (fun q hq => (hpc q hq).1)]
    refine (kd_foldlR_forall2 hf ?_ []).trans (by simp)
    intro acc x q hx hxq
    obtain ⟨b, c, hb, hc', rfl⟩ := hxq
    simp only [trimSpaceBrackets_bracketed kd_allBlank_nil hb hc' (wCoord_goodEnds (hg x hx).1 (hg x hx).2),
      parsePoint_wCoord (hg x hx).1 (hg x hx).2]

theorem unmarshalLineString_spelled {ps : List P} {t : Str} (h : SpelledCore fmtF (.lineString ps) t)
    (hc : GoodCoords fmtF parseF (.lineString ps)) : unmarshalLineString parseF t = .ok ps := by
  cases ps with
  | nil =>
    simp only [SpelledCore] at h
    simp [unmarshalLineString, equalFold_caseVariant h]
  | cons p ps =>
    simp only [SpelledCore] at h
    obtain ⟨body, hj, hk⟩ := h
    have hg := kd_goodPts_of_coords (fmtF := fmtF) (parseF := parseF) (ps := p :: ps) hc
    obtain ⟨h1, h2⟩ := kd_parsePoints_sepJoin hg hj
    obtain ⟨he, u, hu, htb⟩ := kd_head_kwBracketed 10 rfl (by decide) hk h2
    simp only [unmarshalLineString, he, hu, htb, Bool.false_eq_true, if_false, h1]

theorem unmarshalMultiLineString_spelled {ls : List (List P)} {t : Str} (h : SpelledCore fmtF (.multiLineString ls) t)
    (he : noEmptyMember (.multiLineString ls) = true)
    (hc : GoodCoords fmtF parseF (.multiLineString ls)) : unmarshalMultiLineString parseF t = .ok ls := by
  cases ls with
  | nil =>
    simp only [SpelledCore] at h
    simp [unmarshalMultiLineString, equalFold_caseVariant h]
  | cons l ls =>
    simp only [SpelledCore] at h
    have hg := kd_goodRings_of_coords (fmtF := fmtF) (parseF := parseF) (rs := l :: ls) hc
    have hne : ∀ r ∈ l :: ls, r ≠ [] := by
      simpa [noEmptyMember, List.all_eq_true] using he
    obtain ⟨he', u, body, hu, htb, hs⟩ := kd_kwRings_parse (parseF := parseF) 15 rfl (by decide) h
      (fun r hr => ⟨hne r hr, hg r hr⟩)
    simp only [unmarshalMultiLineString, he', hu, htb, Bool.false_eq_true, if_false, hs]

theorem unmarshalPolygon_spelled {rs : List (List P)} {t : Str} (h : SpelledCore fmtF (.polygon rs) t)
    (he : noEmptyMember (.polygon rs) = true)
    (hc : GoodCoords fmtF parseF (.polygon rs)) : unmarshalPolygon parseF t = .ok rs := by
  cases rs with
  | nil =>
    simp only [SpelledCore] at h
    simp [unmarshalPolygon, equalFold_caseVariant h]
  | cons l ls =>
    simp only [SpelledCore] at h
    have hg := kd_goodRings_of_coords (fmtF := fmtF) (parseF := parseF) (rs := l :: ls) hc
    have hne : ∀ r ∈ l :: ls, r ≠ [] := by
      simpa [noEmptyMember, List.all_eq_true] using he
    obtain ⟨he', u, body, hu, htb, hs⟩ := kd_kwRings_parse (parseF := parseF) 7 rfl (by decide) h
      (fun r hr => ⟨hne r hr, hg r hr⟩)
    simp only [unmarshalPolygon, he', hu, htb, Bool.false_eq_true, if_false, hs]

theorem unmarshalMultiPolygon_spelled {ps : List (List (List P))} {t : Str} (h : SpelledCore fmtF (.multiPolygon ps) t)
    (he : noEmptyMember (.multiPolygon ps) = true)
    (hc : GoodCoords fmtF parseF (.multiPolygon ps)) : unmarshalMultiPolygon parseF t = .ok ps := by
  cases ps with
  | nil =>
    simp only [SpelledCore] at h
    simp [unmarshalMultiPolygon, equalFold_caseVariant h]
  | cons q qs =>
    simp only [SpelledCore] at h
    have hg : ∀ rs ∈ q :: qs, ∀ r ∈ rs, ∀ p ∈ r, kd_GoodPt fmtF parseF p := by
      intro rs hrs
      apply kd_goodRings_of_coords
      intro x hx
      exact hc x (by simp only [coords, List.mem_flatMap]; exact ⟨rs, hrs, hx⟩)
    have hne : ∀ rs ∈ q :: qs, rs ≠ [] ∧ ∀ r ∈ rs, r ≠ [] := by
      simpa [noEmptyMember, List.all_eq_true] using he
    obtain ⟨pieces, body, hf, hj, hk⟩ := h
    have hge : GoodEnds body := kd_goodEnds_sepJoin_paren hj (fun x hx => by
      obtain ⟨rs, -, hrx⟩ := kd_forall2_right hf x hx; exact kd_brPoly_paren hrx)
    obtain ⟨he', u, hu, htb⟩ := kd_head_kwBracketed 12 rfl (by decide) hk hge
    simp only [unmarshalMultiPolygon, he', hu, htb, Bool.false_eq_true, if_false]
    rw [splitByRegexp_polys_sep hj (by
      intro x hx; obtain ⟨rs, hrs, hrx⟩ := kd_forall2_right hf x hx
      exact kd_isPolyTextS_brPoly (hne rs hrs).1 (hg rs hrs) hrx)]
    refine (kd_foldlR_forall2 hf ?_ []).trans (by simp)
    intro acc rs x hrs hx
    rcases hx with ⟨hnil, -⟩ | ⟨pcs, b, c, bd, hb, hc', hf', hj', rfl⟩
    · exact absurd hnil (hne rs hrs).1
    · simp only [trimSpaceBrackets_bracketed kd_allBlank_nil hb hc' (kd_goodEnds_rings hf' hj'),
        kd_rings_parse hf' hj' (fun r hr => ⟨(hne rs hrs).2 r hr, hg rs hrs r hr⟩) [], List.nil_append]

/-- the plain text is a spelling -/
theorem marshalG_spelledCore (g : G) : SpelledCore fmtF g (marshalG fmtF g) := by
  have kb : ∀ (kw body : Str), CaseVariant kw kw → KwBracketed kw body (kw ++ cLP :: (body ++ [cRP])) := by
    intro kw body h
    exact ⟨kw, [], [], [], h, kd_allBlank_nil, kd_allBlank_nil, kd_allBlank_nil, by simp [bracketed]⟩
  have kp : ∀ (kw : Str) (rs : List (List P)), rs ≠ [] → CaseVariant kw kw →
      KwRings fmtF kw rs (kw ++ wRings fmtF rs) := by
    intro kw rs hne h
    exact ⟨_, _, kd_forall2_wLineString fmtF rs, sepJoin_commaSep (by simpa using hne), kb _ _ h⟩
  refine Geom.rec (motive_1 := fun g => SpelledCore fmtF g (marshalG fmtF g))
    (motive_2 := fun gs => SpelledList fmtF gs (marshalG.marshalList fmtF gs))
    ?_ ?_ ?_ ?_ ?_ ?_ ?_ ?_ ?_ ?_ ?_ g
  · intro p
    simp only [SpelledCore, marshalG]
    exact kb _ _ (by unfold CaseVariant; decide)
  · intro ps
    cases ps with
    | nil => simp only [SpelledCore, marshalG, List.isEmpty_nil, if_true]; unfold CaseVariant; decide
    | cons p ps =>
      simp only [SpelledCore, marshalG, List.isEmpty_cons, Bool.false_eq_true, if_false]
      exact ⟨_, _, kd_forall2_map (fun p => cLP :: (wCoord fmtF p ++ [cRP])) (p :: ps)
        (fun x _ => ⟨[], [], kd_allBlank_nil, kd_allBlank_nil, by simp [bracketed]⟩),
        sepJoin_commaSep (by simp), kb _ _ (by unfold CaseVariant; decide)⟩
  · intro ps
    cases ps with
    | nil => simp only [SpelledCore, marshalG, List.isEmpty_nil, if_true]; unfold CaseVariant; decide
    | cons p ps =>
      simp only [SpelledCore, marshalG, List.isEmpty_cons, Bool.false_eq_true, if_false]
      exact ⟨_, sepJoin_commaSep (by simp), kb _ _ (by unfold CaseVariant; decide)⟩
  · intro ps
    cases ps with
    | nil => simp only [SpelledCore, marshalG, List.isEmpty_nil, if_true]; unfold CaseVariant; decide
    | cons p ps =>
      simp only [SpelledCore, marshalG, List.isEmpty_cons, Bool.false_eq_true, if_false]
      exact kp _ _ (by simp) (by unfold CaseVariant; decide)
  · intro r
    simp only [SpelledCore, marshalG]
    exact kp _ _ (by simp) (by unfold CaseVariant; decide)
  · intro ps
    cases ps with
    | nil => simp only [SpelledCore, marshalG, List.isEmpty_nil, if_true]; unfold CaseVariant; decide
    | cons p ps =>
      simp only [SpelledCore, marshalG, List.isEmpty_cons, Bool.false_eq_true, if_false]
      exact kp _ _ (by simp) (by unfold CaseVariant; decide)
  · intro ps
    cases ps with
    | nil => simp only [SpelledCore, marshalG, List.isEmpty_nil, if_true]; unfold CaseVariant; decide
    | cons p ps =>
      simp only [SpelledCore, marshalG, List.isEmpty_cons, Bool.false_eq_true, if_false]
      exact ⟨_, _, kd_forall2_map (wRings fmtF) (p :: ps) (fun rs _ => kd_isBrPoly_wRings fmtF rs),
        sepJoin_commaSep (by simp), kb _ _ (by unfold CaseVariant; decide)⟩
  · intro a b
    simp only [SpelledCore, marshalG]
    exact kp _ _ (by simp) (by unfold CaseVariant; decide)
  · intro gs ih
    cases gs with
    | nil => simp only [SpelledCore, marshalG, List.isEmpty_nil, if_true]; unfold CaseVariant; decide
    | cons g gs =>
      simp only [SpelledCore, marshalG, List.isEmpty_cons, Bool.false_eq_true, if_false]
      exact ⟨_, _, ih, sepJoin_commaSep (by simp [marshalG.marshalList]), kb _ _ (by unfold CaseVariant; decide)⟩
  · simp only [marshalG.marshalList, SpelledList]
  · intro g gs ih1 ih2
    simp only [marshalG.marshalList, SpelledList]
    exact ⟨ih1, ih2⟩

end

end Orb.WKT
