/-
  C10 — translation tie for planar/distance.go, planar/distance_from.go, planar/area.go
  (`multiPointCentroid`, `ringCentroidArea`) and internal/length/length.go (`lineStringLength`).
  `Generated/PlanarGo.lean` and `Generated/LengthGo.lean` are REGENERATED from /repo on every run
  by harness/cmd/factgen/translate_float.go; the theorems below prove each regenerated definition
  equal to the hand-written model definition of `Orb.Planar`, for every number type.
-/
import Orb.Planar
import Generated.PlanarGo
import Generated.LengthGo

namespace Orb.C10Tie
open Orb Orb.Core

set_option linter.unusedSectionVars false

variable {α : Type} [Add α] [Sub α] [Mul α] [Div α] [Neg α] [LT α] [LE α] [DecidableLT α] [DecidableLE α]
  [BEq α] [Min α] [Max α] [OfNat α 0] [OfNat α 1] [OfNat α 2] [OfNat α 6] [NatCast α]

/-! ### distance.go, distance_from.go -/

theorem distance_tie (sqrt : α → α) (p q : Pt α) :
    Generated.PlanarGo.distance sqrt p q = Planar.distance sqrt p q := rfl
theorem distanceSquared_tie (p q : Pt α) :
    Generated.PlanarGo.distanceSquared p q = Planar.distanceSquared p q := rfl

/-- `DistanceFromSegmentSquared` and `segmentDistanceFromSquared` are the same code twice; the
    model has it once -/
theorem distanceFromSegmentSquared_tie (a b p : Pt α) :
    Generated.PlanarGo.distanceFromSegmentSquared a b p = Planar.segmentDistanceFromSquared a b p := rfl
theorem segmentDistanceFromSquared_tie (a b p : Pt α) :
    Generated.PlanarGo.segmentDistanceFromSquared a b p = Planar.segmentDistanceFromSquared a b p := rfl
theorem distanceFromSegment_tie (sqrt : α → α) (a b p : Pt α) :
    Generated.PlanarGo.distanceFromSegment sqrt a b p = Planar.distanceFromSegment sqrt a b p := rfl

/-! ### area.go -/

theorem multiPointCentroid_tie (mp : List (Pt α)) :
    Generated.PlanarGo.multiPointCentroid mp = Planar.multiPointCentroid mp := by
  cases mp with
  | nil => rfl
  | cons a t => rfl

/-- the loop `for i := 1; i < len(r)-1; i++` of `ringCentroidArea`: the Go code keeps the state in
    `area` and the point `centroid`, the model in a triple -/
theorem ringLoop_eq (o : Pt α) (l : List (Pt α)) (cx cy area : α) :
    Generated.BoundGo.foldPairs (fun ((area, centroid) : α × Pt α) (p q : Pt α) =>
        let a : α := ((p.x - o.x) * (q.y - o.y)) - ((q.x - o.x) * (p.y - o.y))
        let area : α := area + a
        let centroid : Pt α := ⟨centroid.x + (((p.x + q.x) - (2 * o.x)) * a), centroid.y⟩
        let centroid : Pt α := ⟨centroid.x, centroid.y + (((p.y + q.y) - (2 * o.y)) * a)⟩
        (area, centroid)) l (area, ⟨cx, cy⟩)
      = ((Planar.ringLoop o l (cx, cy, area)).2.2,
          ⟨(Planar.ringLoop o l (cx, cy, area)).1, (Planar.ringLoop o l (cx, cy, area)).2.1⟩) := by
  induction l generalizing cx cy area with
  | nil => rfl
  | cons p t ih =>
    cases t with
    | nil => rfl
    | cons q t' =>
      simp only [Planar.ringLoop, Generated.BoundGo.foldPairs]
      exact ih _ _ _

theorem ringCentroidArea_tie (r : List (Pt α)) :
    Generated.PlanarGo.ringCentroidArea r = Planar.ringCentroidArea r := by
  cases r with
  | nil => simp [Generated.PlanarGo.ringCentroidArea, Planar.ringCentroidArea]
  | cons o rest =>
    simp only [Generated.PlanarGo.ringCentroidArea, Planar.ringCentroidArea, List.getD_cons_zero, List.drop_one,
      List.tail_cons, List.length_cons]
    rw [ringLoop_eq]
    simp

/-! ### internal/length/length.go -/

/-- the loop `for i := 1; i < len(ls); i++ { sum += df(ls[i], ls[i-1]) }` -/
theorem lineStringLength_loop (sqrt : α → α) (l : List (Pt α)) (acc : α) :
    Generated.BoundGo.foldPairs (fun (sum : α) (p q : Pt α) => sum + Planar.distance sqrt q p) l acc
      = Planar.lineStringLength sqrt l acc := by
  induction l generalizing acc with
  | nil => rfl
  | cons p t ih =>
    cases t with
    | nil => rfl
    | cons q t' =>
      simp only [Planar.lineStringLength, Generated.BoundGo.foldPairs]
      exact ih _

/-- `lineStringLength(ls, planar.Distance)` -/
theorem lineStringLength_tie (sqrt : α → α) (ls : List (Pt α)) :
    Generated.LengthGo.lineStringLength ls (Planar.distance sqrt) = Planar.lineStringLength sqrt ls 0 :=
  lineStringLength_loop sqrt ls 0

theorem all_translated_PlanarGo : Generated.PlanarGo.translated =
    ["distance", "distanceSquared", "distanceFromSegmentSquared", "distanceFromSegment",
     "segmentDistanceFromSquared", "multiPointCentroid", "ringCentroidArea", "rayIntersect"] := by
  decide

theorem all_translated_LengthGo : Generated.LengthGo.translated = ["lineStringLength"] := by
  decide

end Orb.C10Tie
