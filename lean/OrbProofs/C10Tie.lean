/-
  C10 — translation tie for planar/distance.go, planar/distance_from.go, planar/area.go
  (`multiPointCentroid`, `ringCentroidArea`, `lineStringCentroidDist`, `multiLineStringCentroid`,
  `polygonCentroidArea`, `multiPolygonCentroidArea`) and internal/length/length.go (`lineStringLength`,
  `polygonLength`, the LineString / MultiLineString / Ring / Polygon / MultiPolygon cases of `Length`).
  `Generated/PlanarGo.lean` and `Generated/LengthGo.lean` are REGENERATED from /repo on every run
  by harness/cmd/factgen/translate_float.go; the theorems below prove each regenerated definition
  equal to the hand-written model definition of `Orb.Planar`, for every number type.
-/
import Orb.Planar
import Generated.PlanarGo
import Generated.LengthGo

namespace Orb.C10Tie
open Orb Orb.Core

set_option linter.unusedSectionVars false

variable {α : Type} [Add α] [Sub α] [Mul α] [Div α] [Neg α] [LT α] [LE α] [DecidableLT α] [DecidableLE α]
  [BEq α] [Min α] [Max α] [OfNat α 0] [OfNat α 1] [OfNat α 2] [OfNat α 6] [NatCast α]

/-! ### distance.go, distance_from.go -/

theorem distance_tie (sqrt : α → α) (p q : Pt α) :
    Generated.PlanarGo.distance sqrt p q = Planar.distance sqrt p q := rfl
theorem distanceSquared_tie (p q : Pt α) :
    Generated.PlanarGo.distanceSquared p q = Planar.distanceSquared p q := rfl

/-- `DistanceFromSegmentSquared` and `segmentDistanceFromSquared` are the same code twice; the
    model has it once -/
theorem distanceFromSegmentSquared_tie (a b p : Pt α) :
    Generated.PlanarGo.distanceFromSegmentSquared a b p = Planar.segmentDistanceFromSquared a b p := rfl
theorem segmentDistanceFromSquared_tie (a b p : Pt α) :
    Generated.PlanarGo.segmentDistanceFromSquared a b p = Planar.segmentDistanceFromSquared a b p := rfl
theorem distanceFromSegment_tie (sqrt : α → α) (a b p : Pt α) :
    Generated.PlanarGo.distanceFromSegment sqrt a b p = Planar.distanceFromSegment sqrt a b p := rfl

/-! ### area.go -/

theorem multiPointCentroid_tie (mp : List (Pt α)) :
    Generated.PlanarGo.multiPointCentroid mp = Planar.multiPointCentroid mp := by
  cases mp with
  | nil => rfl
  | cons a t => rfl

/-- the loop `for i := 1; i < len(r)-1; i++` of `ringCentroidArea`: the Go code keeps the state in
    `area` and the point `centroid`, the model in a triple -/
theorem ringLoop_eq (o : Pt α) (l : List (Pt α)) (cx cy area : α) :
    Generated.BoundGo.foldPairs (fun ((area, centroid) : α × Pt α) (p q : Pt α) =>
        let a : α := ((p.x - o.x) * (q.y - o.y)) - ((q.x - o.x) * (p.y - o.y))
        let area : α := area + a
        let centroid : Pt α := ⟨centroid.x + (((p.x + q.x) - (2 * o.x)) * a), centroid.y⟩
        let centroid : Pt α := ⟨centroid.x, centroid.y + (((p.y + q.y) - (2 * o.y)) * a)⟩
        (area, centroid)) l (area, ⟨cx, cy⟩)
      = ((Planar.ringLoop o l (cx, cy, area)).2.2,
          ⟨(Planar.ringLoop o l (cx, cy, area)).1, (Planar.ringLoop o l (cx, cy, area)).2.1⟩) := by
  induction l generalizing cx cy area with
  | nil => rfl
  | cons p t ih =>
    cases t with
    | nil => rfl
    | cons q t' =>
      simp only [Planar.ringLoop, Generated.BoundGo.foldPairs]
      exact ih _ _ _

theorem ringCentroidArea_tie (r : List (Pt α)) :
    Generated.PlanarGo.ringCentroidArea r = Planar.ringCentroidArea r := by
  cases r with
  | nil => simp [Generated.PlanarGo.ringCentroidArea, Planar.ringCentroidArea]
  | cons o rest =>
    simp only [Generated.PlanarGo.ringCentroidArea, Planar.ringCentroidArea, List.getD_cons_zero, List.drop_one,
      List.tail_cons, List.length_cons]
    rw [ringLoop_eq]
    simp

/-! ### internal/length/length.go -/

/-- the loop `for i := 1; i < len(ls); i++ { sum += df(ls[i], ls[i-1]) }` -/
theorem lineStringLength_loop (sqrt : α → α) (l : List (Pt α)) (acc : α) :
    Generated.BoundGo.foldPairs (fun (sum : α) (p q : Pt α) => sum + Planar.distance sqrt q p) l acc
      = Planar.lineStringLength sqrt l acc := by
  induction l generalizing acc with
  | nil => rfl
  | cons p t ih =>
    cases t with
    | nil => rfl
    | cons q t' =>
      simp only [Planar.lineStringLength, Generated.BoundGo.foldPairs]
      exact ih _

/-- `lineStringLength(ls, planar.Distance)` -/
theorem lineStringLength_tie (sqrt : α → α) (ls : List (Pt α)) :
    Generated.LengthGo.lineStringLength ls (Planar.distance sqrt) = Planar.lineStringLength sqrt ls 0 :=
  lineStringLength_loop sqrt ls 0

/-- `polygonLength(p, planar.Distance)`: `for _, r := range p { sum += lineStringLength(r, df) }` -/
theorem polygonLength_tie (sqrt : α → α) (p : List (List (Pt α))) :
    Generated.LengthGo.polygonLength p (Planar.distance sqrt) = Planar.polygonLength sqrt p := by
  have hf : (fun (sum : α) (r : List (Pt α)) => sum + Generated.LengthGo.lineStringLength r (Planar.distance sqrt))
      = (fun sum r => sum + Planar.lineStringLength sqrt r 0) := by
    funext sum r; rw [lineStringLength_tie]
  show List.foldl _ 0 p = _
  rw [hf]; rfl

/-- the cases of the type switch of `length.Length(g, planar.Distance)` with a loop or a call of their own
    (`case orb.MultiLineString: for _, ls := range g { sum += lineStringLength(ls, df) }` …) -/
theorem length_cases_tie (sqrt : α → α) :
    (∀ g : List (Pt α),
      Generated.LengthGo.lengthLineString g (Planar.distance sqrt) = Planar.length sqrt (.lineString g)) ∧
    (∀ g : List (List (Pt α)),
      Generated.LengthGo.lengthMultiLineString g (Planar.distance sqrt) = Planar.length sqrt (.multiLineString g)) ∧
    (∀ g : List (Pt α),
      Generated.LengthGo.lengthRing g (Planar.distance sqrt) = Planar.length sqrt (.ring g)) ∧
    (∀ g : List (List (Pt α)),
      Generated.LengthGo.lengthPolygon g (Planar.distance sqrt) = Planar.length sqrt (.polygon g)) ∧
    (∀ g : List (List (List (Pt α))),
      Generated.LengthGo.lengthMultiPolygon g (Planar.distance sqrt) = Planar.length sqrt (.multiPolygon g)) := by
  refine ⟨fun g => ?_, fun g => ?_, fun g => ?_, fun g => ?_, fun g => ?_⟩
  · rw [Planar.length]; exact lineStringLength_tie sqrt g
  · rw [Planar.length]
    have hf : (fun (sum : α) (ls : List (Pt α)) => sum + Generated.LengthGo.lineStringLength ls (Planar.distance sqrt))
        = (fun sum ls => sum + Planar.lineStringLength sqrt ls 0) := by
      funext sum ls; rw [lineStringLength_tie]
    show List.foldl _ 0 g = _
    rw [hf]
  · rw [Planar.length]; exact lineStringLength_tie sqrt g
  · rw [Planar.length]; exact polygonLength_tie sqrt g
  · rw [Planar.length]
    have hf : (fun (sum : α) (p : List (List (Pt α))) => sum + Generated.LengthGo.polygonLength p (Planar.distance sqrt))
        = (fun sum p => sum + Planar.polygonLength sqrt p) := by
      funext sum p; rw [polygonLength_tie]
    show List.foldl _ 0 g = _
    rw [hf]

/-- `case orb.Bound: return Length(g.ToRing(), df)`: the call with a `Ring` runs the Ring case -/
theorem lengthBound_tie (sqrt : α → α) (lo hi : Pt α) :
    Generated.LengthGo.lengthBound ⟨lo, hi⟩ (Planar.distance sqrt) = Planar.length sqrt (.bound lo hi) := by
  rw [Planar.length]
  exact lineStringLength_tie sqrt (Planar.boundRing lo hi)

/-! ### area.go: the loops over lines, rings and polygons

`math.Inf(1)` is the explicit parameter `inf` of the translation; the models write it `none`. -/

/-- the loop `for i := 0; i < len(ls)-1; i++` of `lineStringCentroidDist` -/
theorem lineCentroidLoop_eq (sqrt : α → α) (o : Pt α) (l : List (Pt α)) (px py dist : α) :
    Generated.BoundGo.foldPairs (fun ((dist, point) : α × Pt α) (p q : Pt α) =>
        let p1 : Pt α := (⟨p.x - o.x, p.y - o.y⟩ : Pt α)
        let p2 : Pt α := (⟨q.x - o.x, q.y - o.y⟩ : Pt α)
        let d : α := Generated.PlanarGo.distance sqrt p1 p2
        let point : Pt α := ⟨point.x + (((p1.x + p2.x) / 2) * d), point.y⟩
        let point : Pt α := ⟨point.x, point.y + (((p1.y + p2.y) / 2) * d)⟩
        let dist : α := dist + d
        (dist, point)) l (dist, ⟨px, py⟩)
      = ((Planar.lineCentroidLoop sqrt o l (px, py, dist)).2.2,
          ⟨(Planar.lineCentroidLoop sqrt o l (px, py, dist)).1, (Planar.lineCentroidLoop sqrt o l (px, py, dist)).2.1⟩) := by
  induction l generalizing px py dist with
  | nil => rfl
  | cons p t ih =>
    cases t with
    | nil => rfl
    | cons q t' =>
      simp only [Planar.lineCentroidLoop, Generated.BoundGo.foldPairs]
      exact ih _ _ _

/-- `lineStringCentroidDist` of an empty line: `(Point{}, +Inf)` (the model's `none`) -/
theorem lineStringCentroidDist_nil (sqrt : α → α) (inf : α) :
    Generated.PlanarGo.lineStringCentroidDist sqrt inf [] = (⟨0, 0⟩, inf) := rfl

/-- `lineStringCentroidDist` of a line with at least one point -/
theorem lineStringCentroidDist_tie (sqrt : α → α) (inf : α) (o : Pt α) (t : List (Pt α)) :
    Planar.lineStringCentroidDist sqrt (o :: t) = some (Generated.PlanarGo.lineStringCentroidDist sqrt inf (o :: t)) := by
  simp only [Generated.PlanarGo.lineStringCentroidDist, Planar.lineStringCentroidDist, List.getD_cons_zero,
    List.length_cons]
  rw [lineCentroidLoop_eq]
  simp only []
  split <;> rfl

/-- the fall-back `c, _ := lineStringCentroidDist(orb.LineString(p[0]))` -/
theorem lineFallback_tie (sqrt : α → α) (inf : α) (r : List (Pt α)) :
    (Generated.PlanarGo.lineStringCentroidDist sqrt inf r).1 = Planar.lineFallback sqrt r := by
  cases r with
  | nil => rfl
  | cons o t => rw [Planar.lineFallback, lineStringCentroidDist_tie sqrt inf]

/-- the hole loop `for i := 1; i < len(p); i++` of `polygonCentroidArea`: the Go code keeps the state in
    `holeArea` and the point `weightedHoleCentroid`, the model in a triple -/
theorem holesFold_eq (rca : List (Pt α) → Pt α × α) (holes : List (List (Pt α))) (ha wx wy : α) :
    List.foldl (fun ((holeArea, weightedHoleCentroid) : α × Pt α) (x : List (Pt α)) =>
        let (hc, ha) := rca x
        let ha : α := Generated.BoundGo.fabs ha
        let holeArea : α := holeArea + ha
        let weightedHoleCentroid : Pt α := ⟨weightedHoleCentroid.x + (hc.x * ha), weightedHoleCentroid.y⟩
        let weightedHoleCentroid : Pt α := ⟨weightedHoleCentroid.x, weightedHoleCentroid.y + (hc.y * ha)⟩
        (holeArea, weightedHoleCentroid)) (ha, ⟨wx, wy⟩) holes
      = ((holes.foldl (fun (s : α × α × α) hr =>
            let hca := rca hr
            let ha := Planar.fabs hca.2
            (s.1 + ha, s.2.1 + hca.1.x * ha, s.2.2 + hca.1.y * ha)) (ha, wx, wy)).1,
         ⟨(holes.foldl (fun (s : α × α × α) hr =>
            let hca := rca hr
            let ha := Planar.fabs hca.2
            (s.1 + ha, s.2.1 + hca.1.x * ha, s.2.2 + hca.1.y * ha)) (ha, wx, wy)).2.1,
          (holes.foldl (fun (s : α × α × α) hr =>
            let hca := rca hr
            let ha := Planar.fabs hca.2
            (s.1 + ha, s.2.1 + hca.1.x * ha, s.2.2 + hca.1.y * ha)) (ha, wx, wy)).2.2⟩) := by
  induction holes generalizing ha wx wy with
  | nil => rfl
  | cons h t ih =>
    simp only [List.foldl_cons]
    exact ih _ _ _

theorem ringCentroidArea_fn : @Generated.PlanarGo.ringCentroidArea α _ _ _ _ _ _ _ _ = Planar.ringCentroidArea := by
  funext r; exact ringCentroidArea_tie r

/-- `polygonCentroidArea`, whatever `inf` is (the fall-back only looks at the point) -/
theorem polygonCentroidArea_tie (sqrt : α → α) (inf : α) (p : List (List (Pt α))) :
    Generated.PlanarGo.polygonCentroidArea sqrt inf p = Planar.polygonCentroidArea sqrt p := by
  cases p with
  | nil => rfl
  | cons outer holes =>
    unfold Generated.PlanarGo.polygonCentroidArea Planar.polygonCentroidArea
    rw [ringCentroidArea_fn]
    simp only [List.length_cons, List.getD_cons_zero, List.drop_one, List.tail_cons, Nat.succ_ne_zero, ↓reduceIte]
    rw [← lineFallback_tie sqrt inf]
    generalize Generated.PlanarGo.lineStringCentroidDist sqrt inf outer = cd
    generalize Planar.ringCentroidArea outer = ca
    obtain ⟨c, d⟩ := cd
    obtain ⟨centroid, area⟩ := ca
    cases holes with
    | nil => rfl
    | cons h t =>
      have hl : ¬ ((h :: t).length + 1 = 1) := by simp
      simp only [hl, ↓reduceIte]
      rw [holesFold_eq]
      rfl

/-- the loop `for _, p := range mp` of `multiPolygonCentroidArea`: the Go code keeps the state in `area`
    and the point `point`, the model in a triple -/
theorem weightedFold_eq (pca : List (List (Pt α)) → Pt α × α) (mp : List (List (List (Pt α)))) (px py area : α) :
    List.foldl (fun ((area, point) : α × Pt α) (p : List (List (Pt α))) =>
        let (c, a) := pca p
        let point : Pt α := ⟨point.x + (c.x * a), point.y⟩
        let point : Pt α := ⟨point.x, point.y + (c.y * a)⟩
        let area : α := area + a
        (area, point)) (area, ⟨px, py⟩) mp
      = ((mp.foldl (fun (s : α × α × α) p =>
            let ca := pca p
            (s.1 + ca.1.x * ca.2, s.2.1 + ca.1.y * ca.2, s.2.2 + ca.2)) (px, py, area)).2.2,
         ⟨(mp.foldl (fun (s : α × α × α) p =>
            let ca := pca p
            (s.1 + ca.1.x * ca.2, s.2.1 + ca.1.y * ca.2, s.2.2 + ca.2)) (px, py, area)).1,
          (mp.foldl (fun (s : α × α × α) p =>
            let ca := pca p
            (s.1 + ca.1.x * ca.2, s.2.1 + ca.1.y * ca.2, s.2.2 + ca.2)) (px, py, area)).2.1⟩) := by
  induction mp generalizing px py area with
  | nil => rfl
  | cons h t ih =>
    simp only [List.foldl_cons]
    exact ih _ _ _

theorem polygonCentroidArea_fn (sqrt : α → α) (inf : α) :
    Generated.PlanarGo.polygonCentroidArea sqrt inf = Planar.polygonCentroidArea sqrt := by
  funext p; exact polygonCentroidArea_tie sqrt inf p

/-- `multiPolygonCentroidArea` -/
theorem multiPolygonCentroidArea_tie (sqrt : α → α) (inf : α) (mp : List (List (List (Pt α)))) :
    Generated.PlanarGo.multiPolygonCentroidArea sqrt inf mp = Planar.multiPolygonCentroidArea sqrt mp := by
  unfold Generated.PlanarGo.multiPolygonCentroidArea Planar.multiPolygonCentroidArea Planar.finishWeighted
  rw [polygonCentroidArea_fn]
  simp only []
  rw [weightedFold_eq]

/-- the loop `for _, ls := range mls` of `multiLineStringCentroid`.  The Go code skips a line when
    `d == math.Inf(1)`, which is what `lineStringCentroidDist` answers for an EMPTY line; the model skips
    exactly the empty lines (`none`).  The two agree when `inf == inf` holds and no non-empty line has the
    length `inf` (an overflowing sum is outside the model, see the head of `Orb.Planar`). -/
theorem mlsFold_eq (sqrt : α → α) (inf : α) (hinf : (inf == inf) = true) (l : List (List (Pt α)))
    (hl : ∀ ls ∈ l, ls ≠ [] → ((Generated.PlanarGo.lineStringCentroidDist sqrt inf ls).2 == inf) = false)
    (dist fx fy px py : α) (vc : Nat) :
    List.foldl (fun ((dist, flat, point, validCount) : α × Pt α × Pt α × Nat) (ls : List (Pt α)) =>
        let (c, d) := Generated.PlanarGo.lineStringCentroidDist sqrt inf ls
        if d == inf then
          (dist, flat, point, validCount)
        else
          let dist : α := dist + d
          let validCount : Nat := validCount + 1
          let flat : Pt α := ⟨flat.x + c.x, flat.y⟩
          let flat : Pt α := ⟨flat.x, flat.y + c.y⟩
          let point : Pt α := ⟨point.x + (c.x * d), point.y⟩
          let point : Pt α := ⟨point.x, point.y + (c.y * d)⟩
          (dist, flat, point, validCount)) (dist, ⟨fx, fy⟩, ⟨px, py⟩, vc) l
      = ((l.foldl (Planar.mlsStep sqrt) ⟨px, py, fx, fy, dist, vc⟩).dist,
         ⟨(l.foldl (Planar.mlsStep sqrt) ⟨px, py, fx, fy, dist, vc⟩).fx, (l.foldl (Planar.mlsStep sqrt) ⟨px, py, fx, fy, dist, vc⟩).fy⟩,
         ⟨(l.foldl (Planar.mlsStep sqrt) ⟨px, py, fx, fy, dist, vc⟩).px, (l.foldl (Planar.mlsStep sqrt) ⟨px, py, fx, fy, dist, vc⟩).py⟩,
         (l.foldl (Planar.mlsStep sqrt) ⟨px, py, fx, fy, dist, vc⟩).valid) := by
  induction l generalizing dist fx fy px py vc with
  | nil => rfl
  | cons ls t ih =>
    have ht : ∀ ls ∈ t, ls ≠ [] → ((Generated.PlanarGo.lineStringCentroidDist sqrt inf ls).2 == inf) = false :=
      fun x hx => hl x (List.mem_cons_of_mem _ hx)
    simp only [List.foldl_cons]
    cases ls with
    | nil =>
      simp only [lineStringCentroidDist_nil, hinf, ↓reduceIte, Planar.mlsStep, Planar.lineStringCentroidDist]
      exact ih ht _ _ _ _ _ _
    | cons o r =>
      have h1 := hl (o :: r) (List.mem_cons_self) (by simp)
      simp only [Planar.mlsStep, lineStringCentroidDist_tie sqrt inf]
      generalize Generated.PlanarGo.lineStringCentroidDist sqrt inf (o :: r) = cd at h1 ⊢
      obtain ⟨c, d⟩ := cd
      simp only [] at h1
      simp only [h1, Bool.false_eq_true, ↓reduceIte]
      exact ih ht _ _ _ _ _ _

/-- `multiLineStringCentroid`, for `inf` an element with `inf == inf` that no line length and not the
    total length equals (`math.Inf(1)` when nothing overflows) -/
theorem multiLineStringCentroid_tie (sqrt : α → α) (inf : α) (hinf : (inf == inf) = true) (mls : List (List (Pt α)))
    (hl : ∀ ls ∈ mls, ls ≠ [] → ((Generated.PlanarGo.lineStringCentroidDist sqrt inf ls).2 == inf) = false)
    (ht : ((mls.foldl (Planar.mlsStep sqrt) ⟨0, 0, 0, 0, 0, 0⟩).dist == inf) = false) :
    Generated.PlanarGo.multiLineStringCentroid sqrt inf mls = Planar.multiLineStringCentroid sqrt mls := by
  cases mls with
  | nil => rfl
  | cons l t =>
    unfold Generated.PlanarGo.multiLineStringCentroid Planar.multiLineStringCentroid
    simp only [List.length_cons, Nat.succ_ne_zero, ↓reduceIte]
    rw [mlsFold_eq sqrt inf hinf (l :: t) hl]
    simp only [ht, Bool.false_or]
    generalize List.foldl (Planar.mlsStep sqrt) ⟨0, 0, 0, 0, 0, 0⟩ (l :: t) = s
    by_cases hv : s.valid = 0
    · simp [hv]
    · simp [hv]

theorem all_translated_PlanarGo : Generated.PlanarGo.translated =
    ["distance", "distanceSquared", "distanceFromSegmentSquared", "distanceFromSegment",
     "segmentDistanceFromSquared", "multiPointCentroid", "ringCentroidArea", "rayIntersect", "ringContains",
     "polygonContains", "multiPolygonContains", "lineStringCentroidDist", "multiLineStringCentroid",
     "polygonCentroidArea", "multiPolygonCentroidArea"] := by
  decide

theorem all_translated_LengthGo : Generated.LengthGo.translated =
    ["lineStringLength", "polygonLength", "lengthLineString", "lengthMultiLineString", "lengthRing", "lengthPolygon",
     "lengthMultiPolygon", "lengthBound"] := by
  decide

end Orb.C10Tie
