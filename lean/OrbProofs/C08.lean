/-
  C08 — Ring/polygon clipping keeps exactly the region inside the box.
  PROPERTY THEOREMS about the model `Orb.Clip` (clip/clip.go `ring`; clip/helpers.go Ring, Polygon,
  MultiPolygon, Collection, Geometry, Bound).  Exact arithmetic over an ordered field.
-/
import OrbProofs.C08Lemmas
import OrbProofs.C08Provenance
import Mathlib.Algebra.Order.Field.Rat

namespace Orb.Clip
open Orb Orb.Core

variable {α : Type} [Field α] [LinearOrder α] [IsStrictOrderedRing α]

/-- The four Sutherland–Hodgman passes never hit `panic("no edge??")`. -/
theorem ring_total (box : Bound α) (inp : List (Pt α)) : ∃ out, ring box inp = some out := ring_total' box inp

/-- PROVENANCE, FOR ANY ARITHMETIC (no exactness, no hypothesis on the box): every vertex of the clipped ring is
    an input vertex AS IT IS (a copy: `v ∈ inp`) or was computed by `intersect`, and then has a coordinate that
    IS an edge value of the box.  "Up to rounding" in the vertex clause can therefore only concern the other
    coordinate of such a point; a copied vertex was compared with the edges as it is and is held to the exact
    test (Driver/C08.lean, `vertsOK`: which coordinate of which pass is computed). -/
theorem ring_vertex_copy_or_computed {β : Type} [Add β] [Sub β] [Mul β] [Div β] [LT β] [LE β] [DecidableLT β]
    [DecidableLE β] [BEq β] [Min β] [Max β] (box : Bound β) (inp out : List (Pt β)) (h : ring box inp = some out) :
    ∀ v ∈ out, v ∈ inp ∨ OnEdgeValue box v := ring_prov' box inp out h

/-- … in particular on the floats the implementation runs on. -/
theorem ring_vertex_copy_or_computed_float (box : Bound Float) (inp out : List (Pt Float))
    (h : ring box inp = some out) : ∀ v ∈ out, v ∈ inp ∨ OnEdgeValue box v := ring_prov' box inp out h

/-- `clip.MultiPoint` returns points of its argument only (copies; any arithmetic). -/
theorem multiPoint_vertices_are_input {β : Type} [Add β] [Sub β] [Mul β] [Div β] [LT β] [LE β] [DecidableLT β]
    [DecidableLE β] [BEq β] [Min β] [Max β] (box : Bound β) (mp : List (Pt β)) :
    ∀ v ∈ multiPoint box mp, v ∈ mp := multiPoint_prov' box mp

/-- Every vertex of the clipped ring lies in the closed box (exact arithmetic: "up to rounding"). -/
theorem ring_vertices_in_box (box : Bound α) (hb : BoxOK box) (inp out : List (Pt α)) (h : ring box inp = some out) :
    ∀ v ∈ out, InBox box v := ring_vertices_in_box' box hb inp out h

/-- Every vertex of the clipped ring lies on a segment of the implicitly closed input chain, or is a
    corner of the box (Sutherland–Hodgman emits box corners that lie inside the region).
    [An earlier version of this statement omitted the corner case; it was FALSE of the code and of
    any correct clipper — `C08.ring_vertices_on_input_false` in C08Counter.lean is the kernel-checked
    refutation: box [0,2]², triangle (-3,1),(1,-3),(1,1) yields the corner (0,0).] -/
theorem ring_vertices_on_chain (box : Bound α) (hb : BoxOK box) (inp out : List (Pt α)) (h : ring box inp = some out) :
    ∀ v ∈ out, (∃ s ∈ C08.cycSegs inp, OnSeg s.1 s.2 v) ∨ C08.IsCorner box v :=
  C08.ring_vertices_on_chain box hb inp out h

/-- Every output vertex inherits every convex property shared by all input vertices (e.g. lying in
    any half-plane or any convex region that contains the input). -/
theorem ring_vertices_in_hull (box : Bound α) (inp out : List (Pt α)) (h : ring box inp = some out)
    (C : Pt α → Prop) (hC : C08.Conv C) (hin : ∀ v ∈ inp, C v) : ∀ v ∈ out, C v :=
  C08.ring_vertices_in_hull box inp out h C hC hin

/-- A ring wholly inside the box comes back unchanged. -/
theorem ring_inside_id (box : Bound α) (inp : List (Pt α)) (hin : ∀ v ∈ inp, InBox box v) :
    ring box inp = some inp := ring_inside_id' box inp hin

/-- A ring strictly on the outer side of one box edge yields nothing. -/
theorem ring_disjoint_nil (box : Bound α) (inp : List (Pt α))
    (h : (∀ v ∈ inp, v.x < box.lo.x) ∨ (∀ v ∈ inp, v.x > box.hi.x) ∨ (∀ v ∈ inp, v.y < box.lo.y) ∨ (∀ v ∈ inp, v.y > box.hi.y)) :
    ring box inp = some [] := ring_disjoint_nil' box inp h

/-- "A ring disjoint from the box yields nothing", in the strongest form that is TRUE of the code: a ring
    whose CONVEX HULL misses the box (any convex set `C` containing every vertex and no point of the box —
    a separating line of any direction, not only an edge line of the box) clips to nil.
    The unrestricted clause — "no point of the ring's region or boundary in the closed box ⇒ nil" — is
    FALSE of the code: `C08N.ring_disjoint_full_false` in OrbProofs/C08Nil.lean (a frame with a slit around
    the box; Sutherland–Hodgman leaves a zero-area ring along the box boundary; finding
    C08-sh-boundary-sliver).  The converse direction IS proved there: `C08N.ring_nil_nothing_remains`
    (nil ⇒ no point of the closed region in the open box), also through the bound pre-test of
    `clip.Geometry` (`C08N.geometry_ring_nil_nothing_remains`, `C08N.geometry_polygon_nil_nothing_remains`). -/
theorem ring_hull_disjoint_nil (box : Bound α) (inp : List (Pt α)) (C : Pt α → Prop) (hC : C08.Conv C)
    (hin : ∀ v ∈ inp, C v) (hno : ∀ v, InBox box v → ¬ C v) : ring box inp = some [] :=
  ring_hull_disjoint_nil' box inp C hC hin hno

/-- A closed ring stays closed. -/
theorem ring_closed (box : Bound α) (inp out : List (Pt α)) (hc : ClosedRing inp) (h : ring box inp = some out)
    (hne : out ≠ []) : ClosedRing out := ring_closed' box inp out hc h hne

/-- Polygon: nil exactly when the outer ring vanishes; vanished holes are dropped, order kept. -/
theorem polygon_spec (box : Bound α) (outer : List (Pt α)) (holes : List (List (Pt α))) :
    ∃ o hs, ring box outer = some o ∧ holes.mapM (ring box) = some hs ∧
      polygon box (outer :: holes) = some (if o = [] then [] else o :: hs.filter (· ≠ [])) :=
  polygon_spec' box outer holes

/-- `clip.Bound` of two non-empty boxes is their intersection.  The non-emptiness hypotheses cannot be
    dropped: with an EMPTY argument `clip.Bound` returns the other box (`C08N.clipBound_empty_arg`; the
    unrestricted statement is refuted, `C08N.clipBound_is_intersection_full_false`; the library's own test
    pins this).  `clip.Geometry` no longer hands an empty Bound argument to it (orb fix, former finding
    C08-empty-bound-returns-box): `C08N.geometry_bound_empty_nil`, and "nil ⇔ no common point" holds for
    EVERY Bound argument: `C08N.geometry_bound_nil_iff`. -/
theorem clipBound_is_intersection (b c : Bound α) (hb : b.isEmpty = false) (hc : c.isEmpty = false) (p : Pt α) :
    InBox (clipBound b c) p ↔ (InBox b p ∧ InBox c p) := clipBound_is_intersection' b c hb hc p

/-- The generic entry point never gets stuck, and never returns a vertex outside the box, for every
    geometry kind (collections nested to any depth). -/
theorem geometry_total (eb box : Bound α) (hb : BoxOK box) (g : Geom α) : ∃ r, geometry eb box g = some r :=
  geometry_total' eb box hb g

theorem geometry_vertices_in_box (eb box : Bound α) (hb : BoxOK box) (g r : Geom α)
    (h : geometry eb box g = some (some r)) : ∀ v ∈ gverts r, InBox box v := geometry_vertices_in_box' eb box hb g r h

/-- REGION EQUALITY (the headline clause), stated in full.  PROVED in OrbProofs/C08Region.lean, which
    imports this file: `C08R.sh_region` (this statement for the closed even-odd region of `Orb.EvenOdd`),
    `C08R.sh_region_crossings` (for the pure crossing parity) and the stronger `C08R.sh_region_strong`
    (crossing parity, boundary flag and `inside` agree at EVERY point of the open box, no hypothesis on
    `q` relative to the ring).  The definition stays here because C08Region refers to it.
    `inside r q` is the region predicate for a closed chain. -/
def sh_region_full (inside : List (Pt α) → Pt α → Prop) : Prop :=
  ∀ (box : Bound α) (inp out : List (Pt α)) (q : Pt α), BoxOK box → ClosedRing inp → ring box inp = some out →
    InOpenBox box q → (∀ a b, (a, b) ∈ segsOf inp → ¬ OnSeg a b q) → (inside out q ↔ inside inp q)

/-- Non-vacuity: a concrete cut over ℚ (a square cut at a box corner). -/
theorem ring_witness : ring (⟨⟨0, 0⟩, ⟨2, 2⟩⟩ : Bound ℚ) [⟨1, 1⟩, ⟨3, 1⟩, ⟨3, 3⟩, ⟨1, 3⟩, ⟨1, 1⟩] =
    some [⟨1, 1⟩, ⟨2, 1⟩, ⟨2, 2⟩, ⟨1, 2⟩, ⟨1, 1⟩] := ring_witness'

end Orb.Clip
