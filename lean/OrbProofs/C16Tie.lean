/-
  C16 — translation tie for clip/smartclip (`bitCodeOpen`, `pointSide`, `pointFor`) and for
  `Ring.Closed` (ring.go) as `clipRings` uses it.  `Generated/SmartclipGo.lean` and
  `Generated/BoundGo.lean` are REGENERATED from /repo on every run by
  harness/cmd/factgen/translate_float.go.
-/
import Orb.SmartClip
import Generated.SmartclipGo
import Generated.BoundGo

namespace Orb.C16Tie
open Orb Orb.Core

set_option linter.unusedSectionVars false

variable {α : Type} [Add α] [Sub α] [Mul α] [Div α] [Neg α] [LT α] [LE α] [DecidableLT α] [DecidableLE α]
  [BEq α] [Min α] [Max α] [OfNat α 0] [OfNat α 1] [OfNat α 2] [OfNat α 6] [NatCast α]

theorem bitCodeOpen_tie (b : Bound α) (p : Pt α) :
    Generated.SmartclipGo.bitCodeOpen b p = SmartClip.bitCodeOpen b p := by
  unfold Generated.SmartclipGo.bitCodeOpen SmartClip.bitCodeOpen
  split <;> split <;> (try split) <;> (try split) <;> rfl

/-- `pointSide` (`notOnSide` is read from the source: 0xFF) -/
theorem pointSide_tie (b : Bound α) (p : Pt α) :
    Generated.SmartclipGo.pointSide b p = SmartClip.pointSide b p := rfl

/-- `pointFor` (the `switch` is an if-chain, `panic("invalid code")` an explicit outcome) -/
theorem pointFor_tie (b : Bound α) (c : Int) :
    Generated.SmartclipGo.pointFor b c = SmartClip.pointFor b c := rfl

/-- `Ring.Closed`: the Go code indexes `r[0]` and `r[len(r)-1]`, the model uses `head?` / `getLast?` -/
theorem ringClosed_tie (r : List (Pt α)) : Generated.BoundGo.ringClosed r = SmartClip.ringClosed r := by
  cases r with
  | nil => simp [Generated.BoundGo.ringClosed, SmartClip.ringClosed]
  | cons a t =>
    have hl : (a :: t).getD ((a :: t).length - 1) ⟨0, 0⟩ = (a :: t).getLast (List.cons_ne_nil _ _) := by
      rw [List.getLast_eq_getElem, List.getD_eq_getElem?_getD, List.getElem?_eq_getElem (by simp)]
      rfl
    simp only [Generated.BoundGo.ringClosed, SmartClip.ringClosed, hl, List.head?_cons,
      List.getLast?_eq_some_getLast (List.cons_ne_nil a t), List.getD_cons_zero]
    rfl

theorem all_translated_SmartclipGo : Generated.SmartclipGo.translated =
    ["bitCodeOpen", "pointSide", "pointFor"] := by
  decide

end Orb.C16Tie
