/-
  C18 — translation tie for geo/area.go (`SignedArea`, `polygonArea`, `multiPolygonArea`, the Ring / Polygon /
  MultiPolygon / Bound cases of `Area`) and for internal/length/length.go as package geo uses it
  (`lineStringLength`, `polygonLength` and the cases of `Length`, for EVERY distance function).
  `Generated/GeoGo.lean` and `Generated/LengthGo.lean` are REGENERATED from /repo on every run by
  harness/cmd/factgen/translate_float.go.  The spherical-excess loop of `ringArea` (a counted loop with
  rewired indices) is outside the translated loop forms: it stays an opaque function parameter `ringArea`,
  instantiated below by the model's `Geo.ringArea F`; `math.Abs` is the model's `F.abs`.
-/
import Orb.Geo
import Generated.GeoGo
import Generated.LengthGo
import Orb.LoopForms

namespace Orb.C18Tie
open Orb Orb.Core Orb.Geo

set_option linter.unusedSectionVars false
set_option linter.unusedVariables false

variable {α : Type} [Add α] [Sub α] [Mul α] [Div α] [Neg α] [LT α] [LE α] [DecidableLT α] [DecidableLE α]
  [BEq α] [Min α] [Max α] [OfNat α 0] [OfNat α 1] [OfNat α 2] [OfNat α 6] [OfNat α 90] [OfNat α 180] [NatCast α]

/-! ### geo/bound.go (deg2rad, rad2deg), geo/distance.go

The straight-line functions are translated with libm's functions, `math.Abs` / `Min` / `Max`, `math.Pi` and
`orb.EarthRadius` as explicit parameters — the fields of the model's record `Fn`.  `2*math.Pi` and
`2.0*orb.EarthRadius`, which Go folds at compile time, are the products `2 * pi`, `2 * R` as in the model
(doubling is exact in binary floating point). -/

open Orb.LoopForms

theorem deg2rad_tie (F : Fn α) (d : α) : Generated.GeoGo.deg2rad F.pi d = deg2rad F d := rfl
theorem rad2deg_tie (F : Fn α) (r : α) : Generated.GeoGo.rad2deg F.pi r = rad2deg F r := rfl

theorem distance_tie (F : Fn α) (p1 p2 : Pt α) :
    Generated.GeoGo.distance F.sqrt F.abs F.cos F.R F.pi p1 p2 = distance F p1 p2 := rfl

theorem distanceHaversine_tie (F : Fn α) (p1 p2 : Pt α) :
    Generated.GeoGo.distanceHaversine F.sqrt F.cos F.atan2 F.min F.R F.sin F.pi p1 p2 = distanceHaversine F p1 p2 := rfl

theorem bearing_tie (F : Fn α) (a b : Pt α) :
    Generated.GeoGo.bearing F.cos F.atan2 F.sin F.pi a b = bearing F a b := rfl

theorem midpoint_tie (F : Fn α) (p p2 : Pt α) :
    Generated.GeoGo.midpoint F.sqrt F.cos F.atan2 F.sin F.pi p p2 = midpoint F p p2 := rfl

theorem pointAtBearingAndDistance_tie (F : Fn α) (p : Pt α) (brg dist : α) :
    Generated.GeoGo.pointAtBearingAndDistance F.cos F.asin F.atan2 F.max F.min F.R F.sin F.pi p brg dist
      = pointAtBearingAndDistance F p brg dist := rfl

/-- the loop `for i := 1; i < len(ls); i++` of `PointAtDistanceAlongLine`, which returns from inside -/
theorem alongLoop_tie (F : Fn α) (dist : α) (prev : Pt α) (rest : List (Pt α)) (travelled : α) (a b : Pt α) :
    (match foldPairsRet (ρ := Res Unit (Pt α × α)) (fun ((from_, to_, travelled) : Pt α × Pt α × α) (p_ q_ : Pt α) =>
        let (from_, to_) := ((p_, q_) : Pt α × Pt α)
        let actualSegmentDistance : α :=
          Generated.GeoGo.distanceHaversine F.sqrt F.cos F.atan2 F.min F.R F.sin F.pi from_ to_
        let expectedSegmentDistance : α := dist - travelled
        if expectedSegmentDistance < actualSegmentDistance then
          let bearing : α := Generated.GeoGo.bearing F.cos F.atan2 F.sin F.pi from_ to_
          Sum.inl (.ok (Generated.GeoGo.pointAtBearingAndDistance F.cos F.asin F.atan2 F.max F.min F.R F.sin F.pi
            from_ bearing expectedSegmentDistance, bearing))
        else
          let travelled : α := travelled + actualSegmentDistance
          Sum.inr (from_, to_, travelled)) (prev :: rest) (a, b, travelled) with
      | .inl r => r
      | .inr (from_, to_, _) => .ok (to_, Generated.GeoGo.bearing F.cos F.atan2 F.sin F.pi from_ to_))
      = .ok (alongLoop F dist prev rest travelled (a, b)) := by
  induction rest generalizing prev travelled a b with
  | nil => rfl
  | cons p t ih =>
    simp only [foldPairsRet, alongLoop]
    by_cases h : dist - travelled < distanceHaversine F prev p
    · have h' : dist - travelled <
          Generated.GeoGo.distanceHaversine F.sqrt F.cos F.atan2 F.min F.R F.sin F.pi prev p := h
      simp only [h, h', ↓reduceIte]
      rfl
    · have h' : ¬ dist - travelled <
          Generated.GeoGo.distanceHaversine F.sqrt F.cos F.atan2 F.min F.R F.sin F.pi prev p := h
      simp only [h, h', ↓reduceIte]
      exact ih p _ prev p

/-- `PointAtDistanceAlongLine`, the panic on the empty line string included -/
theorem pointAtDistanceAlongLine_tie (F : Fn α) (ls : List (Pt α)) (dist : α) :
    Generated.GeoGo.pointAtDistanceAlongLine F.sqrt F.cos F.asin F.atan2 F.max F.min F.R F.sin F.pi ls dist
      = pointAtDistanceAlongLine F ls dist := by
  cases ls with
  | nil => rfl
  | cons p0 rest =>
    cases rest with
    | nil =>
      unfold Generated.GeoGo.pointAtDistanceAlongLine pointAtDistanceAlongLine
      simp
    | cons q t =>
      by_cases hd : dist < 0
      · unfold Generated.GeoGo.pointAtDistanceAlongLine pointAtDistanceAlongLine
        simp [hd]
      · have hc1 : ¬ ((p0 :: q :: t).length = 0) := by simp
        have hc2 : ¬ (dist < 0 ∨ (p0 :: q :: t).length = 1) := by simp [hd]
        have hc3 : ¬ (dist < 0 ∨ (q :: t).isEmpty = true) := by simp [hd]
        simp only [pointAtDistanceAlongLine, hc3, ↓reduceIte]
        unfold Generated.GeoGo.pointAtDistanceAlongLine
        rw [if_neg hc1, if_neg hc2]
        exact alongLoop_tie F dist p0 (q :: t) 0 ⟨0, 0⟩ ⟨0, 0⟩

/-! ### geo/bound.go

The package variables `minLatitude = deg2rad(-90)` … (initialised once, never assigned) are translated by
their initialisers, as the model has them; the literal `111131.75` is the explicit parameter `mPerDeg`. -/

theorem newBoundAroundPoint_tie (F : Fn α) (c : Pt α) (dist : α) :
    Generated.GeoGo.newBoundAroundPoint F.cos F.asin F.max F.min F.R F.sin F.pi c dist
      = ⟨(newBoundAroundPoint F c dist).1, (newBoundAroundPoint F c dist).2⟩ := by
  have hd : Generated.GeoGo.deg2rad F.pi = deg2rad F := funext (deg2rad_tie F)
  have hr : Generated.GeoGo.rad2deg F.pi = rad2deg F := funext (rad2deg_tie F)
  unfold Generated.GeoGo.newBoundAroundPoint newBoundAroundPoint
  rw [hd, hr]
  by_cases h : deg2rad F (-90) < deg2rad F c.y - dist / F.R ∧ deg2rad F c.y + dist / F.R < deg2rad F 90
  · simp only [h, gt_iff_lt, and_self, ↓reduceIte]
  · simp only [h, gt_iff_lt, ↓reduceIte]

theorem boundPad_tie (F : Fn α) (mPerDeg : α) (lo hi : Pt α) (meters : α) :
    Generated.GeoGo.boundPad F.cos F.max F.min mPerDeg F.pi ⟨lo, hi⟩ meters
      = ⟨(boundPad F mPerDeg lo hi meters).1, (boundPad F mPerDeg lo hi meters).2⟩ := rfl

theorem boundHeight_tie (mPerDeg : α) (lo hi : Pt α) :
    Generated.GeoGo.boundHeight mPerDeg ⟨lo, hi⟩ = boundHeight mPerDeg lo hi := rfl

theorem boundWidth_tie (F : Fn α) (lo hi : Pt α) :
    Generated.GeoGo.boundWidth F.sqrt F.abs F.cos F.R F.pi ⟨lo, hi⟩ = boundWidth F lo hi := rfl

/-! ### geo/area.go -/

theorem signedArea_tie (F : Fn α) (r : List (Pt α)) :
    Generated.GeoGo.signedArea (ringArea F) r = ringArea F r := rfl

/-- `polygonArea`: `sum := math.Abs(ringArea(p[0])); for i := 1; i < len(p); i++ { sum -= math.Abs(ringArea(p[i])) }` -/
theorem polygonArea_tie (F : Fn α) (p : List (List (Pt α))) :
    Generated.GeoGo.polygonArea F.abs (ringArea F) p = polygonArea F p := by
  cases p with
  | nil => rfl
  | cons o hs => rfl

theorem polygonArea_fn (F : Fn α) : Generated.GeoGo.polygonArea F.abs (ringArea F) = polygonArea F := by
  funext p; exact polygonArea_tie F p

/-- `multiPolygonArea`: `for _, p := range mp { sum += polygonArea(p) }` -/
theorem multiPolygonArea_tie (F : Fn α) (mp : List (List (List (Pt α)))) :
    Generated.GeoGo.multiPolygonArea F.abs (ringArea F) mp = multiPolygonArea F mp := by
  unfold Generated.GeoGo.multiPolygonArea multiPolygonArea
  rw [polygonArea_fn]

/-- the Ring, Polygon, MultiPolygon and Bound cases of the type switch of `geo.Area` -/
theorem area_cases_tie (F : Fn α) :
    (∀ r : List (Pt α), Generated.GeoGo.areaRing F.abs (ringArea F) r = area F (.ring r)) ∧
    (∀ p : List (List (Pt α)), Generated.GeoGo.areaPolygon F.abs (ringArea F) p = area F (.polygon p)) ∧
    (∀ mp : List (List (List (Pt α))),
      Generated.GeoGo.areaMultiPolygon F.abs (ringArea F) mp = area F (.multiPolygon mp)) ∧
    (∀ lo hi : Pt α, Generated.GeoGo.areaBound F.abs (ringArea F) ⟨lo, hi⟩ = area F (.bound lo hi)) := by
  refine ⟨fun r => ?_, fun p => ?_, fun mp => ?_, fun lo hi => ?_⟩
  · rw [area]; rfl
  · rw [area]; exact polygonArea_tie F p
  · rw [area]; exact multiPolygonArea_tie F mp
  · rw [area]; rfl

/-! ### internal/length/length.go, for every distance function -/

/-- the loop `for i := 1; i < len(ls); i++ { sum += df(ls[i], ls[i-1]) }` -/
theorem lineLength_loop (df : Pt α → Pt α → α) (prev : Pt α) (rest : List (Pt α)) (acc : α) :
    Generated.BoundGo.foldPairs (fun (sum : α) (p q : Pt α) => sum + df q p) (prev :: rest) acc
      = lineLength.go df prev rest acc := by
  induction rest generalizing prev acc with
  | nil => rfl
  | cons q t ih =>
    simp only [lineLength.go, Generated.BoundGo.foldPairs]
    exact ih _ _

theorem lineStringLength_tie (df : Pt α → Pt α → α) (ls : List (Pt α)) :
    Generated.LengthGo.lineStringLength ls df = lineLength df ls := by
  cases ls with
  | nil => rfl
  | cons p t => exact lineLength_loop df p t 0

theorem polygonLength_tie (df : Pt α → Pt α → α) (p : List (List (Pt α))) :
    Generated.LengthGo.polygonLength p df = polygonLength df p := by
  have hf : (fun (sum : α) (r : List (Pt α)) => sum + Generated.LengthGo.lineStringLength r df)
      = (fun sum r => sum + lineLength df r) := by
    funext sum r; rw [lineStringLength_tie]
  show List.foldl _ 0 p = _
  rw [hf]; rfl

/-- the cases of the type switch of `length.Length(g, df)` -/
theorem length_cases_tie (df : Pt α → Pt α → α) :
    (∀ g : List (Pt α), Generated.LengthGo.lengthLineString g df = length df (.lineString g)) ∧
    (∀ g : List (List (Pt α)), Generated.LengthGo.lengthMultiLineString g df = length df (.multiLineString g)) ∧
    (∀ g : List (Pt α), Generated.LengthGo.lengthRing g df = length df (.ring g)) ∧
    (∀ g : List (List (Pt α)), Generated.LengthGo.lengthPolygon g df = length df (.polygon g)) ∧
    (∀ g : List (List (List (Pt α))), Generated.LengthGo.lengthMultiPolygon g df = length df (.multiPolygon g)) ∧
    (∀ lo hi : Pt α, Generated.LengthGo.lengthBound ⟨lo, hi⟩ df = length df (.bound lo hi)) := by
  refine ⟨fun g => ?_, fun g => ?_, fun g => ?_, fun g => ?_, fun g => ?_, fun lo hi => ?_⟩
  · rw [length]; exact lineStringLength_tie df g
  · rw [length]
    have hf : (fun (sum : α) (ls : List (Pt α)) => sum + Generated.LengthGo.lineStringLength ls df)
        = (fun sum l => sum + lineLength df l) := by
      funext sum ls; rw [lineStringLength_tie]
    show List.foldl _ 0 g = _
    rw [hf]
  · rw [length]; exact lineStringLength_tie df g
  · rw [length]; exact polygonLength_tie df g
  · rw [length]
    have hf : (fun (sum : α) (p : List (List (Pt α))) => sum + Generated.LengthGo.polygonLength p df)
        = (fun sum p => sum + polygonLength df p) := by
      funext sum p; rw [polygonLength_tie]
    show List.foldl _ 0 g = _
    rw [hf]
  · rw [length]; exact lineStringLength_tie df (toRing lo hi)

theorem all_translated_GeoGo : Generated.GeoGo.translated =
    ["deg2rad", "rad2deg", "distance", "distanceHaversine", "bearing", "midpoint", "pointAtBearingAndDistance",
     "pointAtDistanceAlongLine", "newBoundAroundPoint", "boundPad", "boundHeight", "boundWidth", "signedArea", "polygonArea", "multiPolygonArea", "areaRing", "areaPolygon", "areaMultiPolygon", "areaBound"] := by
  decide

end Orb.C18Tie
