/-
  C14 fill, part 4: from the list of visited cells of a closed ring to the ring trace that
  `polygon` filters (pure combinatorics).
-/
import OrbProofs.C14FillTrace

namespace Orb.TileCover
open Orb Orb.Tile

/-- consecutive rows differ by exactly one -/
def Step1 (a b : ℕ × ℕ) : Prop := a.2 + 1 = b.2 ∨ b.2 + 1 = a.2

/-- same row, same side of `(i, j)` -/
def Sim (i j : ℕ) (x y : ℕ × ℕ) : Prop := x.2 = y.2 ∧ Rt i j x = Rt i j y

/-- neighbours that are on the same side of `(i, j)` when they are in the same row -/
def NearS (i j : ℕ) (c c' : ℕ × ℕ) : Prop := Near c c' ∧ (c.2 = c'.2 → Rt i j c = Rt i j c')

theorem nearS_of_near {i j : ℕ} {c c' : ℕ × ℕ} (h : Near c c') (hc : c ≠ (i, j)) (hc' : c' ≠ (i, j)) :
    NearS i j c c' := by
  refine ⟨h, ?_⟩
  intro e
  obtain ⟨n1, n2, _, _⟩ := h
  have g1 : ¬ (c.1 = i ∧ c.2 = j) := fun ⟨e1, e2⟩ => hc (Prod.ext e1 e2)
  have g2 : ¬ (c'.1 = i ∧ c'.2 = j) := fun ⟨e1, e2⟩ => hc' (Prod.ext e1 e2)
  simp only [Rt]
  by_cases e1 : c.2 = j
  · have e2 : c'.2 = j := by omega
    have : (i < c.1) ↔ (i < c'.1) := by omega
    simp [e1, e2, this]
  · have e2 : ¬ c'.2 = j := by omega
    simp [e1, e2]

theorem RA_eq (i j : ℕ) (a b : ℕ × ℕ) :
    RA (rightOf i) j a b = ((Rt i j a && decide (b.2 = j + 1)) || (decide (a.2 = j + 1) && Rt i j b)) := by
  simp only [RA, Rt, rightOf, Bool.and_assoc]

theorem RA_congr_left {i j : ℕ} {x y : ℕ × ℕ} (h : Sim i j x y) (b : ℕ × ℕ) :
    RA (rightOf i) j x b = RA (rightOf i) j y b := by
  rw [RA_eq, RA_eq, h.1, h.2]

theorem RA_congr_right {i j : ℕ} {x y : ℕ × ℕ} (h : Sim i j x y) (a : ℕ × ℕ) :
    RA (rightOf i) j a x = RA (rightOf i) j a y := by
  rw [RA_eq, RA_eq, h.1, h.2]

theorem RA_same_row (i j : ℕ) {a b : ℕ × ℕ} (h : a.2 = b.2) : RA (rightOf i) j a b = false := by
  simp only [RA, h]
  by_cases e1 : b.2 = j <;> by_cases e2 : b.2 = j + 1 <;> simp [e1, e2]

theorem sim_refl (i j : ℕ) (x : ℕ × ℕ) : Sim i j x x := ⟨rfl, rfl⟩
theorem sim_trans {i j : ℕ} {x y z : ℕ × ℕ} (h1 : Sim i j x y) (h2 : Sim i j y z) : Sim i j x z :=
  ⟨h1.1.trans h2.1, h1.2.trans h2.2⟩
theorem sim_symm {i j : ℕ} {x y : ℕ × ℕ} (h1 : Sim i j x y) : Sim i j y x := ⟨h1.1.symm, h1.2.symm⟩

theorem step1_of_near {p c e : ℕ × ℕ} (h : Near p c) (hne : c.2 ≠ p.2) (he : e.2 = p.2) : Step1 e c := by
  obtain ⟨_, _, n3, n4⟩ := h
  unfold Step1
  omega

/-- (R1) consecutive entries of the trace are one row apart -/
theorem rows_step1 (t : List (ℕ × ℕ)) : ∀ (p e : ℕ × ℕ), e.2 = p.2 → chainO Near (some p) t →
    chainO Step1 (some e) (rows (some p.2) t) := by
  induction t with
  | nil => intro p e _ _; trivial
  | cons c t ih =>
    intro p e he h
    obtain ⟨hpc, hrest⟩ := h
    by_cases hc : c.2 = p.2
    · have : rows (some p.2) (c :: t) = rows (some c.2) t := by simp [rows, hc]
      rw [this]
      exact ih c e (he.trans hc.symm) hrest
    · have hc' : ¬ p.2 = c.2 := fun h => hc h.symm
      have : rows (some p.2) (c :: t) = c :: rows (some c.2) t := by simp [rows, hc']
      rw [this]
      exact ⟨step1_of_near hpc hc he, ih c c rfl hrest⟩

/-- (R2) the last entry of the trace stands for the last cell -/
theorem rows_last (i j : ℕ) (t : List (ℕ × ℕ)) : ∀ (p e : ℕ × ℕ), Sim i j e p →
    chainO (NearS i j) (some p) t →
    Sim i j (lastOf e (rows (some p.2) t)) (lastOf p t) := by
  induction t with
  | nil => intro p e he _; exact he
  | cons c t ih =>
    intro p e he h
    obtain ⟨hpc, hrest⟩ := h
    by_cases hc : c.2 = p.2
    · have : rows (some p.2) (c :: t) = rows (some c.2) t := by simp [rows, hc]
      rw [this, lastOf]
      exact ih c e (sim_trans he ⟨hc.symm, hpc.2 hc.symm⟩) hrest
    · have hc' : ¬ p.2 = c.2 := fun h => hc h.symm
      have : rows (some p.2) (c :: t) = c :: rows (some c.2) t := by simp [rows, hc']
      rw [this, lastOf, lastOf]
      exact ih c c (sim_refl i j c) hrest

/-- (R3) the trace has the same `RA` parity as the cells -/
theorem rows_raPar (i j : ℕ) (t : List (ℕ × ℕ)) : ∀ (p e : ℕ × ℕ), Sim i j e p →
    chainO (NearS i j) (some p) t →
    raParO i j (some e) (rows (some p.2) t) = raParO i j (some p) t := by
  induction t with
  | nil => intro p e _ _; rfl
  | cons c t ih =>
    intro p e he h
    obtain ⟨hpc, hrest⟩ := h
    by_cases hc : c.2 = p.2
    · have : rows (some p.2) (c :: t) = rows (some c.2) t := by simp [rows, hc]
      rw [this]
      simp only [raParO]
      rw [RA_same_row i j hc.symm, Bool.false_bne]
      exact ih c e (sim_trans he ⟨hc.symm, hpc.2 hc.symm⟩) hrest
    · have hc' : ¬ p.2 = c.2 := fun h => hc h.symm
      have : rows (some p.2) (c :: t) = c :: rows (some c.2) t := by simp [rows, hc']
      rw [this]
      simp only [raParO]
      rw [RA_congr_left he c, ih c c (sim_refl i j c) hrest]

/-- the ring trace handed to the filter: `line` drops the last entry when the path ends in the row in
    which it started -/
def finalRing : List (ℕ × ℕ) → List (ℕ × ℕ)
  | [] => []
  | c0 :: t => if (lastOf c0 t).2 = c0.2 then (rows none (c0 :: t)).dropLast else rows none (c0 :: t)

/-- parity of the cyclic number of `RA` transitions -/
def cycPar (i j : ℕ) : List (ℕ × ℕ) → Bool
  | [] => false
  | r0 :: t => raParO i j (some r0) t != RA (rightOf i) j (lastOf r0 t) r0

/-- cyclically, consecutive rows differ by exactly one (list form) -/
def CycStepL : List (ℕ × ℕ) → Prop
  | [] => True
  | r0 :: t => chainO Step1 (some r0) t ∧ Step1 (lastOf r0 t) r0

theorem rows_none_cons (c0 : ℕ × ℕ) (t : List (ℕ × ℕ)) :
    rows none (c0 :: t) = c0 :: rows (some c0.2) t := by
  simp [rows]

theorem lastOf_append_singleton {β : Type} (u : β) (l : List β) (x : β) : lastOf u (l ++ [x]) = x := by
  induction l generalizing u with
  | nil => rfl
  | cons b t ih => simp only [List.cons_append, lastOf]; exact ih b

theorem lastO_some_eq {β : Type} (u : β) (l : List β) : lastO (some u) l = some (lastOf u l) := by
  cases l with
  | nil => rfl
  | cons b t => rw [lastO_cons_eq, lastOf]

theorem finalRing_cycStepL (cells : List (ℕ × ℕ)) (h : chainO Near none cells)
    (hclose : ∀ c0 t, cells = c0 :: t → Near (lastOf c0 t) c0) : CycStepL (finalRing cells) := by
  cases cells with
  | nil => trivial
  | cons c0 t =>
    have hcl := hclose c0 t rfl
    have hch : chainO Near (some c0) t := h
    have R1 := rows_step1 t c0 c0 rfl hch
    have R2 := rows_last 0 0 t c0 c0 (sim_refl 0 0 c0)
    simp only [finalRing, rows_none_cons]
    -- the row of the last entry of the raw trace is the row of the last cell
    have hrow : (lastOf c0 (rows (some c0.2) t)).2 = (lastOf c0 t).2 := by
      clear R1 R2 hcl h hclose
      have : ∀ (t : List (ℕ × ℕ)) (p e : ℕ × ℕ), e.2 = p.2 →
          (lastOf e (rows (some p.2) t)).2 = (lastOf p t).2 := by
        intro t
        induction t with
        | nil => intro p e he; exact he
        | cons c t ih =>
          intro p e he
          by_cases hc : c.2 = p.2
          · have : rows (some p.2) (c :: t) = rows (some c.2) t := by simp [rows, hc]
            rw [this, lastOf]
            exact ih c e (he.trans hc.symm)
          · have hc' : ¬ p.2 = c.2 := fun h => hc h.symm
            have : rows (some p.2) (c :: t) = c :: rows (some c.2) t := by simp [rows, hc']
            rw [this, lastOf, lastOf]
            exact ih c c rfl
      exact this t c0 c0 rfl
    by_cases hd : (lastOf c0 t).2 = c0.2
    · simp only [hd, if_true]
      rcases List.eq_nil_or_concat (rows (some c0.2) t) with hnil | ⟨rr, rl, hrr⟩
      · rw [hnil]; trivial
      · rw [List.concat_eq_append] at hrr
        rw [hrr] at R1 hrow
        rw [hrr]
        have : (c0 :: (rr ++ [rl])).dropLast = c0 :: rr := by
          rw [← List.cons_append, List.dropLast_concat]
        rw [this]
        rw [chainO_append, lastO_some_eq] at R1
        obtain ⟨Ra, Rb, _⟩ := R1
        refine ⟨Ra, ?_⟩
        rw [lastOf_append_singleton] at hrow
        unfold Step1 at Rb ⊢
        omega
    · simp only [hd, if_false]
      refine ⟨R1, ?_⟩
      obtain ⟨_, _, n3, n4⟩ := hcl
      unfold Step1
      omega

theorem finalRing_cycPar (i j : ℕ) (cells : List (ℕ × ℕ)) (h : chainO (NearS i j) none cells)
    (hclose : ∀ c0 t, cells = c0 :: t → NearS i j (lastOf c0 t) c0) :
    cycPar i j (finalRing cells) = cycPar i j cells := by
  cases cells with
  | nil => rfl
  | cons c0 t =>
    have hcl := hclose c0 t rfl
    have hch : chainO (NearS i j) (some c0) t := h
    have R2 := rows_last i j t c0 c0 (sim_refl i j c0) hch
    have R3 := rows_raPar i j t c0 c0 (sim_refl i j c0) hch
    simp only [finalRing, rows_none_cons]
    by_cases hd : (lastOf c0 t).2 = c0.2
    · simp only [hd, if_true]
      have hlc : Sim i j (lastOf c0 t) c0 := ⟨hd, hcl.2 hd⟩
      have htarget : cycPar i j (c0 :: t) = raParO i j (some c0) t := by
        simp only [cycPar]
        rw [RA_same_row i j hd, Bool.bne_false]
      rw [htarget, ← R3]
      rcases List.eq_nil_or_concat (rows (some c0.2) t) with hnil | ⟨rr, rl, hrr⟩
      · rw [hnil]; rfl
      · rw [List.concat_eq_append] at hrr
        rw [hrr] at R2 ⊢
        have : (c0 :: (rr ++ [rl])).dropLast = c0 :: rr := by
          rw [← List.cons_append, List.dropLast_concat]
        rw [this]
        rw [lastOf_append_singleton] at R2
        simp only [cycPar]
        rw [raParO_append, lastO_some_eq]
        simp only [raParO, Bool.bne_false]
        rw [RA_congr_right (sim_trans R2 hlc)]
    · simp only [hd, if_false]
      simp only [cycPar]
      rw [R3, RA_congr_left R2]

/-! #### list form ↔ index form -/

theorem getD_cons_succ' (p : ℕ × ℕ) (t : List (ℕ × ℕ)) (m : ℕ) (d : ℕ × ℕ) :
    (p :: t).getD (m + 1) d = t.getD m d := by simp

theorem raParO_eq_count (i j : ℕ) (d : ℕ × ℕ) (t : List (ℕ × ℕ)) : ∀ p : ℕ × ℕ,
    raParO i j (some p) t =
      ((List.range t.length).countP
        (fun m => RA (rightOf i) j ((p :: t).getD m d) ((p :: t).getD (m + 1) d)) % 2 == 1) := by
  induction t with
  | nil => intro p; rfl
  | cons c t ih =>
    intro p
    simp only [raParO, List.length_cons]
    rw [List.range_succ_eq_map, List.countP_cons, List.countP_map, ih c]
    have hfun : ((fun m => RA (rightOf i) j ((p :: c :: t).getD m d) ((p :: c :: t).getD (m + 1) d)) ∘ Nat.succ)
        = (fun m => RA (rightOf i) j ((c :: t).getD m d) ((c :: t).getD (m + 1) d)) := by
      funext m
      simp
    rw [hfun]
    have h0 : RA (rightOf i) j ((p :: c :: t).getD 0 d) ((p :: c :: t).getD (0 + 1) d) =
        RA (rightOf i) j p c := by simp
    rw [h0]
    generalize (List.range t.length).countP
      (fun m => RA (rightOf i) j ((c :: t).getD m d) ((c :: t).getD (m + 1) d)) = N
    cases RA (rightOf i) j p c
    · simp
    · simp only [if_true]
      rcases Nat.mod_two_eq_zero_or_one N with hN | hN <;> simp [Nat.add_mod, hN]

theorem chainO_getD {R : ℕ × ℕ → ℕ × ℕ → Prop} (d : ℕ × ℕ) (t : List (ℕ × ℕ)) : ∀ p : ℕ × ℕ,
    chainO R (some p) t → ∀ m, m < t.length → R ((p :: t).getD m d) ((p :: t).getD (m + 1) d) := by
  induction t with
  | nil => intro p _ m hm; simp at hm
  | cons c t ih =>
    intro p h m hm
    obtain ⟨h1, h2⟩ := h
    cases m with
    | zero => simpa using h1
    | succ m =>
      have := ih c h2 m (by simpa using hm)
      simpa using this

theorem lastOf_eq_getD (d : ℕ × ℕ) (t : List (ℕ × ℕ)) : ∀ p : ℕ × ℕ,
    lastOf p t = (p :: t).getD t.length d := by
  induction t with
  | nil => intro p; rfl
  | cons c t ih => intro p; rw [lastOf, ih c]; simp

theorem cyY_lt (R : List (ℕ × ℕ)) (m : ℕ) (hm : m < R.length) : cyY R m = R.getD m (0, 0) := by
  unfold cyY; rw [Nat.mod_eq_of_lt hm]

theorem cyY_length (R : List (ℕ × ℕ)) : cyY R R.length = R.getD 0 (0, 0) := by
  unfold cyY; rw [Nat.mod_self]

theorem cycStep_of_L (R : List (ℕ × ℕ)) (h : CycStepL R) : CycStep R := by
  cases R with
  | nil => intro m hm; simp at hm
  | cons r0 t =>
    obtain ⟨h1, h2⟩ := h
    intro m hm
    rw [cyY_lt _ m hm]
    by_cases hm' : m + 1 < (r0 :: t).length
    · rw [cyY_lt _ (m + 1) hm']
      exact chainO_getD (0, 0) t r0 h1 m (by simpa using hm')
    · have hmt : m = t.length := by simp at hm hm'; omega
      have e : m + 1 = (r0 :: t).length := by simp [hmt]
      rw [e, cyY_length, hmt, ← lastOf_eq_getD (0, 0) t r0]
      simpa [Step1] using h2

theorem cycPar_eq_count (i j : ℕ) (R : List (ℕ × ℕ)) :
    cycPar i j R = ((List.range R.length).countP
      (fun m => RA (rightOf i) j (cyY R m) (cyY R (m + 1))) % 2 == 1) := by
  cases R with
  | nil => rfl
  | cons r0 t =>
    simp only [cycPar, List.length_cons]
    rw [List.range_succ, List.countP_append, raParO_eq_count i j (0, 0) t r0]
    have hA : (List.range t.length).countP (fun m => RA (rightOf i) j (cyY (r0 :: t) m) (cyY (r0 :: t) (m + 1)))
        = (List.range t.length).countP
          (fun m => RA (rightOf i) j ((r0 :: t).getD m (0, 0)) ((r0 :: t).getD (m + 1) (0, 0))) := by
      apply List.countP_congr
      intro m hm
      have hm' : m < t.length := List.mem_range.mp hm
      rw [cyY_lt _ m (by simp; omega), cyY_lt _ (m + 1) (by simp; omega)]
    rw [hA]
    have hB : cyY (r0 :: t) t.length = lastOf r0 t := by
      rw [cyY_lt _ _ (by simp), ← lastOf_eq_getD]
    have hC : cyY (r0 :: t) (t.length + 1) = r0 := by
      have := cyY_length (r0 :: t)
      simpa using this
    simp only [List.countP_cons, List.countP_nil, hB, hC]
    generalize (List.range t.length).countP
      (fun m => RA (rightOf i) j ((r0 :: t).getD m (0, 0)) ((r0 :: t).getD (m + 1) (0, 0))) = N
    cases RA (rightOf i) j (lastOf r0 t) r0
    · simp
    · simp only [if_true]
      rcases Nat.mod_two_eq_zero_or_one N with hN | hN <;> simp [Nat.add_mod, hN]

end Orb.TileCover
