/-
  Lemmas for C14, in five parts: covers, MergeUp, DDA (chain / termination), DDA (geometry), line strings.
-/
import OrbProofs.C14Cover
import OrbProofs.C14Merge
import OrbProofs.C14Dda
import OrbProofs.C14DdaGeom
import OrbProofs.C14Line
