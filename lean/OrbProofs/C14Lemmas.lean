/-
  Lemmas for C14, in six parts: covers, MergeUp, DDA (chain / termination), DDA (geometry), line strings,
  unions / polygon boundary / vertex bound.
-/
import OrbProofs.C14Cover
import OrbProofs.C14Merge
import OrbProofs.C14Dda
import OrbProofs.C14DdaGeom
import OrbProofs.C14Line
import OrbProofs.C14Unions
