/-
  Helper lemmas for C10, part 4: the clause "a polygon's area is never negative for nested rings".
  * the statement with `NestedHoles` alone (even-odd containment + pairwise disjoint even-odd interiors) is FALSE:
    a hole that runs twice round the outer triangle has an empty even-odd interior and twice the area
    (`cex_nested`, `cex_area`); the rings must be simple (`SimpleRing`);
  * a special case proved outright: ONE hole of at most four vertices whose vertices lie on one side of every edge
    line of the outer ring (for a convex outer ring: anywhere in it) — `range_le_ring_ccw` (a point of a convex
    polygon is never beyond all its vertices, `vertex_max`; positive variation round the closed chain, `pv_chain`).
  The primed statements are re-exported by OrbProofs/C10.lean.
-/
import OrbProofs.C10Lemmas
import Mathlib.Tactic.LinearCombination
import Mathlib.Tactic.Positivity

set_option linter.unusedSectionVars false

namespace Orb.Planar
open Orb Orb.Core

/-! ### spec-side vocabulary -/

/-- the vertex list of a ring without an explicit closing vertex -/
def openVerts {α : Type} [DecidableEq α] (r : List (Pt α)) : List (Pt α) :=
  match r with
  | [] => []
  | v :: t => if t.getLast? = some v then v :: t.dropLast else r

/-- a simple ring: at least three vertices, and two edges of the closed chain have a point in common only where
    cyclically consecutive edges share their vertex -/
def SimpleRing {α : Type} [DecidableEq α] [Sub α] [Mul α] [OfNat α 0] [LT α] [LE α] [DecidableLT α] [DecidableLE α]
    (r : List (Pt α)) : Prop :=
  let vs := openVerts r
  let n := vs.length
  3 ≤ n ∧ ∀ i j, i < n → j < n → i ≠ j → ∀ p,
    EvenOdd.onSeg (vs.getD i ⟨0, 0⟩) (vs.getD ((i + 1) % n) ⟨0, 0⟩) p = true →
    EvenOdd.onSeg (vs.getD j ⟨0, 0⟩) (vs.getD ((j + 1) % n) ⟨0, 0⟩) p = true →
    (j = (i + 1) % n ∧ p = vs.getD j ⟨0, 0⟩) ∨ (i = (j + 1) % n ∧ p = vs.getD i ⟨0, 0⟩)

section counterexample
variable {α : Type} [Field α] [LinearOrder α] [IsStrictOrderedRing α]

/-- the triangle (0,0) (4,0) (0,4) … -/
def cexOuter : List (Pt α) := [⟨0, 0⟩, ⟨4, 0⟩, ⟨0, 4⟩]
/-- … and the same triangle run round twice -/
def cexHole : List (Pt α) := [⟨0, 0⟩, ⟨4, 0⟩, ⟨0, 4⟩, ⟨0, 0⟩, ⟨4, 0⟩, ⟨0, 4⟩]

theorem cex_inside (p : Pt α) : EvenOdd.inside (cexHole : List (Pt α)) p = EvenOdd.onBoundary (cexOuter : List (Pt α)) p := by
  simp only [EvenOdd.inside, EvenOdd.onBoundary, EvenOdd.crossings, EvenOdd.edges, cexHole, cexOuter,
    List.getLast?_cons_cons, List.getLast?_singleton, Option.getD_some, List.zip_cons_cons, List.zip_nil_right,
    List.any_cons, List.any_nil, List.countP_cons, List.countP_nil]
  generalize EvenOdd.onSeg (⟨0, 4⟩ : Pt α) ⟨0, 0⟩ p = s1
  generalize EvenOdd.onSeg (⟨0, 0⟩ : Pt α) ⟨4, 0⟩ p = s2
  generalize EvenOdd.onSeg (⟨4, 0⟩ : Pt α) ⟨0, 4⟩ p = s3
  generalize EvenOdd.crossesAbove (⟨0, 4⟩ : Pt α) ⟨0, 0⟩ p = c1
  generalize EvenOdd.crossesAbove (⟨0, 0⟩ : Pt α) ⟨4, 0⟩ p = c2
  generalize EvenOdd.crossesAbove (⟨4, 0⟩ : Pt α) ⟨0, 4⟩ p = c3
  cases s1 <;> cases s2 <;> cases s3 <;> cases c1 <;> cases c2 <;> cases c3 <;> rfl

theorem cex_nested : NestedHoles (cexOuter : List (Pt α)) [cexHole] := by
  refine ⟨fun h hh p hp => ?_, List.pairwise_singleton _ _⟩
  rw [List.mem_singleton] at hh
  subst hh
  rw [cex_inside] at hp
  simp only [EvenOdd.inside, hp, Bool.true_or]

theorem cex_area (sqrt : α → α) : (polygonCentroidArea sqrt [(cexOuter : List (Pt α)), cexHole]).2 = -8 := by
  rw [polygon_area_eq']
  simp only [cexOuter, cexHole, ringArea_cons, fan, List.map_cons, List.map_nil, List.sum_cons, List.sum_nil]
  norm_num

end counterexample

section triangle
variable {α : Type} [Field α] [LinearOrder α] [IsStrictOrderedRing α]

local notation "cr" => EvenOdd.cross

/-- the edges of the implicitly closed ring `o :: rest`, spelled with `lastD` -/
def cedges (o : Pt α) (rest : List (Pt α)) : List (Pt α × Pt α) := (lastD o rest, o) :: (o :: rest).zip rest

theorem edges_cons (o : Pt α) (rest : List (Pt α)) : EvenOdd.edges (o :: rest) = cedges o rest := by
  simp only [EvenOdd.edges, cedges, getLast?_cons_lastD, Option.getD_some]

/-- the fan sum of the ring from an arbitrary point `q`: Σ over the closed chain's edges of `cross s e q` -/
def edgeSum (o : Pt α) (rest : List (Pt α)) (q : Pt α) : α := ((cedges o rest).map fun e => cr e.1 e.2 q).sum

theorem zip_sum_cross_sub (q q' : Pt α) (v : Pt α) (t : List (Pt α)) :
    (((v :: t).zip t).map fun e => cr e.1 e.2 q).sum - (((v :: t).zip t).map fun e => cr e.1 e.2 q').sum =
      ((lastD v t).x - v.x) * (q.y - q'.y) - ((lastD v t).y - v.y) * (q.x - q'.x) := by
  induction t generalizing v with
  | nil => simp [lastD]
  | cons u t ih =>
    simp only [List.zip_cons_cons, List.map_cons, List.sum_cons, lastD]
    have := ih u
    simp only [EvenOdd.cross] at this ⊢
    linear_combination this

/-- the edge sum does not depend on the point it is taken from … -/
theorem edgeSum_const (o : Pt α) (rest : List (Pt α)) (q q' : Pt α) : edgeSum o rest q = edgeSum o rest q' := by
  have h := zip_sum_cross_sub q q' o rest
  simp only [edgeSum, cedges, List.map_cons, List.sum_cons]
  simp only [EvenOdd.cross] at h ⊢
  linear_combination h

theorem zip_sum_cross_head (o : Pt α) (v : Pt α) (t : List (Pt α)) :
    (((v :: t).zip t).map fun e => cr e.1 e.2 o).sum = fan o (v :: t) := by
  induction t generalizing v with
  | nil => simp [fan]
  | cons u t ih =>
    rw [List.zip_cons_cons, List.map_cons, List.sum_cons, ih u, fan]
    simp only [EvenOdd.cross]
    ring

/-- … and is twice the ring's signed area -/
theorem edgeSum_eq_area (o : Pt α) (rest : List (Pt α)) (q : Pt α) : edgeSum o rest q = 2 * ringArea (o :: rest) := by
  rw [edgeSum_const o rest q o, ringArea_cons]
  simp only [edgeSum, cedges, List.map_cons, List.sum_cons]
  rw [zip_sum_cross_head]
  cases rest with
  | nil => simp [fan, EvenOdd.cross, lastD]
  | cons u t =>
    simp only [fan, EvenOdd.cross]
    ring

/-- positive variation: if along every consecutive pair `w ≥ max 0 (f t − f s)`, then any difference of `f` between two
    vertices of the chain is at most the sum of the `w` plus the closing rise -/
theorem pv_chain (f : Pt α → α) (w : Pt α → Pt α → α) (v : Pt α) (t : List (Pt α))
    (h : ∀ st ∈ (v :: t).zip t, 0 ≤ w st.1 st.2 ∧ f st.2 - f st.1 ≤ w st.1 st.2) :
    (∀ y ∈ v :: t, f y - f v ≤ (((v :: t).zip t).map fun st => w st.1 st.2).sum) ∧
    (∀ x ∈ v :: t, f (lastD v t) - f x ≤ (((v :: t).zip t).map fun st => w st.1 st.2).sum) ∧
    0 ≤ (((v :: t).zip t).map fun st => w st.1 st.2).sum ∧
    (∀ x ∈ v :: t, ∀ y ∈ v :: t,
      f y - f x ≤ (((v :: t).zip t).map fun st => w st.1 st.2).sum + max 0 (f v - f (lastD v t))) := by
  induction t generalizing v with
  | nil =>
    simp only [List.zip_nil_right, List.map_nil, List.sum_nil, lastD, List.mem_singleton]
    refine ⟨?_, ?_, le_rfl, ?_⟩
    · rintro y rfl; simp
    · rintro x rfl; simp
    · rintro x rfl y rfl; simp
  | cons u t ih =>
    have hvu := h (v, u) (by simp)
    obtain ⟨iA, iB, iN, iE⟩ := ih u (fun st hst => h st (by rw [List.zip_cons_cons]; exact List.mem_cons_of_mem _ hst))
    simp only [List.zip_cons_cons, List.map_cons, List.sum_cons, lastD]
    obtain ⟨hw0, hw1⟩ := hvu
    simp only [] at hw0 hw1
    refine ⟨?_, ?_, by linarith, ?_⟩
    · intro y hy
      rcases List.mem_cons.1 hy with rfl | hy
      · linarith
      · have := iA y hy; linarith
    · intro x hx
      rcases List.mem_cons.1 hx with rfl | hx
      · have := iB u (List.mem_cons_self ..); linarith
      · have := iB x hx; linarith
    · intro x hx y hy
      have hm0 : (0 : α) ≤ max 0 (f v - f (lastD u t)) := le_max_left _ _
      have hm1 : f v - f (lastD u t) ≤ max 0 (f v - f (lastD u t)) := le_max_right _ _
      rcases List.mem_cons.1 hx with hxv | hx
      · rcases List.mem_cons.1 hy with hyv | hy
        · rw [hxv, hyv]; linarith
        · have := iA y hy; rw [hxv]; linarith
      · rcases List.mem_cons.1 hy with hyv | hy
        · have := iB x hx; rw [hyv]; linarith
        · have := iE x hx y hy
          have hm' : max 0 (f u - f (lastD u t)) ≤ w v u + max 0 (f v - f (lastD u t)) := by
            apply max_le <;> linarith
          linarith

/-- a quantity that does not decrease along any consecutive pair lies between its first and last value -/
theorem mono_chain (r : Pt α → α) (v : Pt α) (t : List (Pt α))
    (h : ∀ st ∈ (v :: t).zip t, r st.1 ≤ r st.2) :
    ∀ x ∈ v :: t, r v ≤ r x ∧ r x ≤ r (lastD v t) := by
  induction t generalizing v with
  | nil => intro x hx; rw [List.mem_singleton] at hx; subst hx; exact ⟨le_rfl, le_rfl⟩
  | cons u t ih =>
    have hvu : r v ≤ r u := h (v, u) (by simp)
    have ih' := ih u (fun st hst => h st (by rw [List.zip_cons_cons]; exact List.mem_cons_of_mem _ hst))
    intro x hx
    simp only [lastD]
    rcases List.mem_cons.1 hx with rfl | hx
    · exact ⟨le_rfl, le_trans hvu (ih' u (List.mem_cons_self ..)).2⟩
    · exact ⟨le_trans hvu (ih' x hx).1, (ih' x hx).2⟩

theorem lastD_mem (v : Pt α) (t : List (Pt α)) : lastD v t ∈ v :: t := by
  induction t generalizing v with
  | nil => simp [lastD]
  | cons u t ih => simp only [lastD]; exact List.mem_cons_of_mem _ (ih u)

theorem mem_of_mem_cedges (o : Pt α) (rest : List (Pt α)) (e : Pt α × Pt α) (he : e ∈ cedges o rest) :
    e.1 ∈ o :: rest ∧ e.2 ∈ o :: rest := by
  rcases List.mem_cons.1 he with rfl | he
  · exact ⟨lastD_mem o rest, List.mem_cons_self ..⟩
  · obtain ⟨h1, h2⟩ := List.of_mem_zip he
    exact ⟨h1, List.mem_cons_of_mem _ h2⟩

/-- A point `c` on the inner (left) side of every edge line of a ring of positive area: every functional
    `v ↦ cross a b v` is at most its value at some vertex (a point of a convex polygon is not beyond all its vertices). -/
theorem vertex_max (o : Pt α) (rest : List (Pt α)) (c : Pt α)
    (hin : ∀ e ∈ cedges o rest, 0 ≤ cr e.1 e.2 c) (hS : 0 < edgeSum o rest c) (a b : Pt α) :
    ∃ v ∈ o :: rest, cr a b c ≤ cr a b v := by
  by_contra hcon
  have hlt : ∀ v ∈ o :: rest, cr a b v < cr a b c := by
    intro v hv
    by_contra h
    exact hcon ⟨v, hv, not_lt.1 h⟩
  -- coordinates of `v − c` along and across `β = b − a`
  let yv : Pt α → α := fun v => cr a b c - cr a b v
  let xv : Pt α → α := fun v => (b.x - a.x) * (v.x - c.x) + (b.y - a.y) * (v.y - c.y)
  let nb : α := (b.x - a.x) * (b.x - a.x) + (b.y - a.y) * (b.y - a.y)
  have hy : ∀ v ∈ o :: rest, 0 < yv v := fun v hv => sub_pos.2 (hlt v hv)
  have hid : ∀ s t : Pt α, nb * cr s t c = xv t * yv s - xv s * yv t := by
    intro s t
    simp only [nb, xv, yv, EvenOdd.cross]
    ring
  have hnb0 : 0 ≤ nb := by
    exact add_nonneg (mul_self_nonneg _) (mul_self_nonneg _)
  have hnb : 0 < nb := by
    rcases lt_or_eq_of_le hnb0 with h | h
    · exact h
    · exfalso
      have h1 : (b.x - a.x) * (b.x - a.x) = 0 := by
        have := mul_self_nonneg (b.x - a.x); have := mul_self_nonneg (b.y - a.y)
        simp only [nb] at h; linarith
      have h2 : (b.y - a.y) * (b.y - a.y) = 0 := by
        have := mul_self_nonneg (b.x - a.x); have := mul_self_nonneg (b.y - a.y)
        simp only [nb] at h; linarith
      have e1 := mul_self_eq_zero.1 h1
      have e2 := mul_self_eq_zero.1 h2
      have := hy o (List.mem_cons_self ..)
      simp only [yv, EvenOdd.cross, e1, e2] at this
      simp at this
  let r : Pt α → α := fun v => xv v / yv v
  have hstep : ∀ e ∈ cedges o rest, r e.1 ≤ r e.2 := by
    intro e he
    obtain ⟨m1, m2⟩ := mem_of_mem_cedges o rest e he
    have h0 := mul_nonneg hnb0 (hin e he)
    rw [hid] at h0
    simp only [r]
    rw [div_le_div_iff₀ (hy _ m1) (hy _ m2)]
    linarith
  have hmono := mono_chain r o rest (fun st hst => hstep st (List.mem_cons_of_mem _ hst))
  have hclose : r (lastD o rest) ≤ r o := hstep (lastD o rest, o) (List.mem_cons_self ..)
  have hconst : ∀ v ∈ o :: rest, r v = r o := by
    intro v hv
    obtain ⟨h1, h2⟩ := hmono v hv
    exact le_antisymm (le_trans h2 hclose) h1
  have hzero : ∀ e ∈ cedges o rest, cr e.1 e.2 c = 0 := by
    intro e he
    obtain ⟨m1, m2⟩ := mem_of_mem_cedges o rest e he
    have e1 := hconst _ m1
    have e2 := hconst _ m2
    have hy1 := (hy _ m1).ne'
    have hy2 := (hy _ m2).ne'
    have hx : xv e.2 * yv e.1 - xv e.1 * yv e.2 = 0 := by
      have : xv e.1 / yv e.1 = xv e.2 / yv e.2 := by
        simp only [r] at e1 e2; rw [e1, e2]
      rw [div_eq_div_iff hy1 hy2] at this
      linarith
    have := hid e.1 e.2
    rw [hx] at this
    rcases mul_eq_zero.1 this with h | h
    · exact absurd h hnb.ne'
    · exact h
  have : edgeSum o rest c = 0 := by
    simp only [edgeSum]
    exact sum_map_zero _ _ hzero
  linarith

theorem cross_flip (a b v : Pt α) : cr b a v = - cr a b v := by
  simp only [EvenOdd.cross]; ring

theorem cross_self (a b : Pt α) : cr a b a = 0 := by
  simp only [EvenOdd.cross]; ring

/-- For `a`, `b`, `p`, `q` all on the left of every edge line of a counter-clockwise ring of positive area, the rise of
    the functional `cross a b ·` from `p` to `q` is at most twice the ring's area.
    (`p = a`: twice the signed area of the triangle `a b q`; `a b` a diagonal: of the quadrilateral `a p b q`.) -/
theorem range_le_ring_ccw (o : Pt α) (rest : List (Pt α)) (a b p q : Pt α)
    (ha : ∀ e ∈ cedges o rest, 0 ≤ cr e.1 e.2 a) (hb : ∀ e ∈ cedges o rest, 0 ≤ cr e.1 e.2 b)
    (hp : ∀ e ∈ cedges o rest, 0 ≤ cr e.1 e.2 p) (hq : ∀ e ∈ cedges o rest, 0 ≤ cr e.1 e.2 q)
    (hA : 0 < ringArea (o :: rest)) :
    cr a b q - cr a b p ≤ 2 * ringArea (o :: rest) := by
  have hSp : 0 < edgeSum o rest p := by rw [edgeSum_eq_area]; linarith
  have hSq : 0 < edgeSum o rest q := by rw [edgeSum_eq_area]; linarith
  obtain ⟨v, hv, h1⟩ := vertex_max o rest q hq hSq a b
  obtain ⟨v', hv', h2⟩ := vertex_max o rest p hp hSp b a
  rw [cross_flip a b p, cross_flip a b v'] at h2
  -- the rise of `f = cross a b ·` between two vertices is at most the edge sum taken from `a`
  have hpair : ∀ st ∈ cedges o rest,
      0 ≤ cr st.1 st.2 a ∧ cr a b st.2 - cr a b st.1 ≤ cr st.1 st.2 a := by
    intro st hst
    refine ⟨ha st hst, ?_⟩
    have := hb st hst
    have hid : cr st.1 st.2 b = cr st.1 st.2 a - (cr a b st.2 - cr a b st.1) := by
      simp only [EvenOdd.cross]; ring
    linarith
  obtain ⟨_, _, _, hE⟩ := pv_chain (fun v => cr a b v) (fun s t => cr s t a) o rest
    (fun st hst => hpair st (List.mem_cons_of_mem _ hst))
  have hcl := hpair (lastD o rest, o) (List.mem_cons_self ..)
  have hmax : max 0 (cr a b o - cr a b (lastD o rest)) ≤ cr (lastD o rest) o a := max_le hcl.1 hcl.2
  have hS : edgeSum o rest a =
      cr (lastD o rest) o a + (((o :: rest).zip rest).map fun st => cr st.1 st.2 a).sum := by
    simp only [edgeSum, cedges, List.map_cons, List.sum_cons]
  have := hE v' hv' v hv
  rw [← edgeSum_eq_area o rest a, hS]
  linarith

/-! #### rings of at most four vertices inside a ring -/

/-- `p` lies on one and the same side of EVERY edge line of the implicitly closed ring (for a ring that is convex in
    the sense of `ConvexRing`, whose vertices all do: `p` is a point of the polygon; in general `p` is in its kernel) -/
def OneSide (r : List (Pt α)) (p : Pt α) : Prop :=
  (∀ e ∈ EvenOdd.edges r, 0 ≤ cr e.1 e.2 p) ∨ (∀ e ∈ EvenOdd.edges r, cr e.1 e.2 p ≤ 0)

/-- twice the area of a ring of at most four vertices as ONE rise of a functional `cross a b ·` -/
theorem small_ring_area (h : List (Pt α)) (hlen : h.length ≤ 4) (hne : h ≠ []) :
    ∃ a ∈ h, ∃ b ∈ h, ∃ p ∈ h, ∃ q ∈ h, 2 * ringArea h = cr a b q - cr a b p := by
  match h, hlen, hne with
  | [a], _, _ => exact ⟨a, by simp, a, by simp, a, by simp, a, by simp, by simp [ringArea_cons, fan]⟩
  | [a, b], _, _ => exact ⟨a, by simp, a, by simp, a, by simp, a, by simp, by simp [ringArea_cons, fan]⟩
  | [a, b, c], _, _ =>
    refine ⟨a, by simp, b, by simp, a, by simp, c, by simp, ?_⟩
    simp only [ringArea_cons, fan, EvenOdd.cross]; ring
  | [a, b, c, d], _, _ =>
    refine ⟨a, by simp, c, by simp, b, by simp, d, by simp, ?_⟩
    simp only [ringArea_cons, fan, EvenOdd.cross]; ring

theorem edgeSum_nonpos_of_right (o : Pt α) (rest : List (Pt α)) (p : Pt α)
    (h : ∀ e ∈ cedges o rest, cr e.1 e.2 p ≤ 0) : edgeSum o rest p ≤ 0 :=
  sum_map_nonpos _ _ h

theorem edgeSum_nonneg_of_left (o : Pt α) (rest : List (Pt α)) (p : Pt α)
    (h : ∀ e ∈ cedges o rest, 0 ≤ cr e.1 e.2 p) : 0 ≤ edgeSum o rest p :=
  sum_map_nonneg _ _ h

theorem small_le_ring_ccw (o : Pt α) (rest : List (Pt α)) (hA : 0 < ringArea (o :: rest))
    (h : List (Pt α)) (hlen : h.length ≤ 4) (hin : ∀ p ∈ h, OneSide (o :: rest) p) :
    |ringArea h| ≤ ringArea (o :: rest) := by
  by_cases hne : h = []
  · rw [hne, ringArea_nil, abs_zero]; exact hA.le
  have hleft : ∀ p ∈ h, ∀ e ∈ cedges o rest, 0 ≤ cr e.1 e.2 p := by
    intro p hp
    rcases hin p hp with hl | hr
    · rwa [edges_cons] at hl
    · rw [edges_cons] at hr
      have := edgeSum_nonpos_of_right o rest p hr
      rw [edgeSum_eq_area] at this
      linarith
  obtain ⟨a, ha, b, hb, p, hp, q, hq, e⟩ := small_ring_area h hlen hne
  have h1 := range_le_ring_ccw o rest a b p q (hleft a ha) (hleft b hb) (hleft p hp) (hleft q hq) hA
  have h2 := range_le_ring_ccw o rest a b q p (hleft a ha) (hleft b hb) (hleft q hq) (hleft p hp) hA
  rw [abs_le]
  constructor <;> linarith

/-- the mirror image `x ↦ −x` -/
def mirror (p : Pt α) : Pt α := ⟨-p.x, p.y⟩

theorem cross_mirror (s t p : Pt α) : cr (mirror s) (mirror t) (mirror p) = - cr s t p := by
  simp only [EvenOdd.cross, mirror]; ring

theorem lastD_map_mirror (o : Pt α) (rest : List (Pt α)) : lastD (mirror o) (rest.map mirror) = mirror (lastD o rest) := by
  induction rest generalizing o with
  | nil => rfl
  | cons u t ih => simp only [List.map_cons, lastD, ih]

theorem cedges_mirror (o : Pt α) (rest : List (Pt α)) :
    cedges (mirror o) (rest.map mirror) = (cedges o rest).map fun e => (mirror e.1, mirror e.2) := by
  simp only [cedges, lastD_map_mirror, List.map_cons]
  congr 1
  rw [← List.map_cons, List.zip_map]
  rfl

theorem edgeSum_mirror (o : Pt α) (rest : List (Pt α)) (q : Pt α) :
    edgeSum (mirror o) (rest.map mirror) (mirror q) = - edgeSum o rest q := by
  simp only [edgeSum, cedges_mirror, List.map_map]
  generalize cedges o rest = es
  induction es with
  | nil => simp
  | cons e t ih =>
    simp only [List.map_cons, List.sum_cons, ih, Function.comp, cross_mirror]
    ring

theorem ringArea_mirror (r : List (Pt α)) : ringArea (r.map mirror) = - ringArea r := by
  cases r with
  | nil => simp [ringArea_nil]
  | cons o rest =>
    have h1 := edgeSum_eq_area (mirror o) (rest.map mirror) (mirror o)
    have h2 := edgeSum_eq_area o rest o
    rw [edgeSum_mirror] at h1
    rw [List.map_cons]
    linarith

theorem oneSide_mirror (o : Pt α) (rest : List (Pt α)) (p : Pt α) (h : OneSide (o :: rest) p) :
    OneSide ((o :: rest).map mirror) (mirror p) := by
  simp only [OneSide, List.map_cons, edges_cons, cedges_mirror, List.mem_map] at h ⊢
  rcases h with h | h
  · right
    rintro e ⟨e', he', rfl⟩
    rw [cross_mirror]
    have := h e' he'
    linarith
  · left
    rintro e ⟨e', he', rfl⟩
    rw [cross_mirror]
    have := h e' he'
    linarith

/-- A ring of at most four vertices (a triangle, a quadrilateral — simple or not) whose vertices all lie on one side of
    every edge line of a ring of non-zero area has at most that ring's area. -/
theorem small_le_ring' (r : List (Pt α)) (hA : ringArea r ≠ 0)
    (h : List (Pt α)) (hlen : h.length ≤ 4) (hin : ∀ p ∈ h, OneSide r p) :
    |ringArea h| ≤ |ringArea r| := by
  cases r with
  | nil => exact absurd ringArea_nil hA
  | cons o rest =>
    rcases lt_or_gt_of_ne hA with hneg | hpos
    · -- clockwise: mirror
      have hA' : 0 < ringArea (mirror o :: rest.map mirror) := by
        have := ringArea_mirror (o :: rest)
        rw [List.map_cons] at this
        rw [this]; linarith
      have hin' : ∀ p ∈ h.map mirror, OneSide (mirror o :: rest.map mirror) p := by
        intro p hp
        obtain ⟨p', hp', rfl⟩ := List.mem_map.1 hp
        have := oneSide_mirror o rest p' (hin p' hp')
        rwa [List.map_cons] at this
      have := small_le_ring_ccw (mirror o) (rest.map mirror) hA' (h.map mirror) (by simpa using hlen) hin'
      rw [ringArea_mirror, abs_neg] at this
      have e := ringArea_mirror (o :: rest)
      rw [List.map_cons] at e
      rw [e] at this
      rw [abs_of_neg hneg]
      exact this
    · rw [abs_of_pos hpos]
      exact small_le_ring_ccw o rest hpos h hlen hin

/-- … also when it is explicitly closed (five listed vertices, the last repeating the first) -/
theorem small_closed_le_ring' (r : List (Pt α)) (hA : ringArea r ≠ 0)
    (v : Pt α) (t : List (Pt α)) (hlen : t.length ≤ 3) (hin : ∀ p ∈ v :: t, OneSide r p) :
    |ringArea (v :: t ++ [v])| ≤ |ringArea r| := by
  rw [area_close']
  exact small_le_ring' r hA (v :: t) (by simpa using hlen) hin

/-- SPECIAL CASE of "never negative for nested rings", proved outright: ONE hole of at most four vertices (optionally
    closed explicitly) all of whose vertices lie on one side of every edge line of the outer ring. -/
theorem polygon_area_nonneg_small_hole' (sqrt : α → α) (o : List (Pt α)) (hA : ringArea o ≠ 0)
    (h : List (Pt α)) (hin : ∀ p ∈ h, OneSide o p)
    (hlen : h.length ≤ 4 ∨ ∃ v t, h = v :: t ++ [v] ∧ t.length ≤ 3) :
    0 ≤ (polygonCentroidArea sqrt [o, h]).2 := by
  apply polygon_area_nonneg_partial'
  simp only [List.map_cons, List.map_nil, List.sum_cons, List.sum_nil, add_zero]
  rcases hlen with hlen | ⟨v, t, rfl, hlen⟩
  · exact small_le_ring' o hA h hlen hin
  · exact small_closed_le_ring' o hA v t hlen (fun p hp => hin p (by
      rcases List.mem_cons.1 hp with rfl | hp
      · simp
      · simp [hp]))

end triangle

end Orb.Planar
