/-
  C18 — Spherical measures are symmetric, mutually inverse and match closed forms.
  PROPERTY THEOREMS about the model `Orb.Geo` (geo/distance.go, area.go, length.go, bound.go).

  Numbers range over an arbitrary ordered field; `math.Sin/Cos/Asin/Atan2/Sqrt/Abs`, `math.Pi`
  and `orb.EarthRadius` are the uninterpreted fields of `F : Fn α`.  Whatever a theorem needs to
  know about them is a named hypothesis of that theorem (`sin` odd, `abs` even, range of
  `atan2` on the first quadrant, `sqrt ≥ 0`, `R ≥ 0`).  All theorems are algebraic identities of
  the code's formulas: exact arithmetic, every ring length, closed and unclosed input.

  NOT proved (spherical trigonometry over ℝ and a numeric error bound — kept visible below as
  `…_full : Prop`, measured by the correspondence check with the property's tolerances):
  destination-at-distance, midpoint equidistance, 1e-5 agreement of the two distances.
-/
import OrbProofs.C18Lemmas

namespace Orb.Geo

section ring
variable {α : Type} [Field α] [LinearOrder α] [IsStrictOrderedRing α] (F : Fn α)

/-- The hand-rewired `lo/mi/hi` triples never index outside the ring (no index panic),
    for closed and unclosed rings of every length ≥ 3. -/
theorem ringIdx_in_range (r : List (Pt α)) (h : 3 ≤ r.length) (i : Nat) (hi : i < ringL r) :
    (ringIdx (ringL r) i).1 < r.length ∧ (ringIdx (ringL r) i).2.1 < r.length ∧
    (ringIdx (ringL r) i).2.2 < r.length := ringIdx_in_range' r h i hi

/-- THE claim the property singles out: the rewired loop computes
    `−R²/2 · Σ_k (λ_{k+1} − λ_{k−1})·sin φ_k` over the cyclic list of distinct vertices
    (closing vertex dropped when present), for closed and unclosed input of every length ≥ 3. -/
theorem ringArea_eq_cyclic_sum (r : List (Pt α)) (h : 3 ≤ r.length) :
    ringArea F r = -(cyclicSum F (openVerts r)) * F.R * F.R / 2 := ringArea_eq_cyclic_sum' F r h

/-- The same value is the cyclic sum over the raw list: a repeated closing vertex, read as one
    more cyclic vertex, contributes nothing. -/
theorem ringArea_eq_cyclic_sum_raw (r : List (Pt α)) (h : 3 ≤ r.length) :
    ringArea F r = -(cyclicSum F r) * F.R * F.R / 2 := ringArea_eq_cyclic_sum_raw' F r h

/-- Closing a ring explicitly or leaving it to the implicit closing gives the same area. -/
theorem ringArea_close (v : List (Pt α)) :
    ringArea F (closeRing v) = ringArea F v := ringArea_close' F v

/-- Rotating the start of the vertex list (every rotation is `a ++ b ↦ b ++ a`) leaves the
    signed area unchanged … -/
theorem ringArea_rotate (a b : List (Pt α)) :
    ringArea F (b ++ a) = ringArea F (a ++ b) := ringArea_rotate' F a b

/-- … also for explicitly closed rings, where rotating the start means re-closing. -/
theorem ringArea_rotate_closed (a b : List (Pt α)) :
    ringArea F (closeRing (b ++ a)) = ringArea F (closeRing (a ++ b)) :=
  ringArea_rotate_closed' F a b

/-- Reversing the ring negates the signed area … -/
theorem ringArea_reverse (r : List (Pt α)) :
    ringArea F r.reverse = -ringArea F r := ringArea_reverse' F r

/-- … so `Area` (the absolute value) is unchanged by reversal and by rotation. -/
theorem area_ring_reverse (habs : ∀ x, F.abs (-x) = F.abs x) (r : List (Pt α)) :
    area F (.ring r.reverse) = area F (.ring r) := area_ring_reverse' F habs r

theorem area_ring_rotate (a b : List (Pt α)) :
    area F (.ring (b ++ a)) = area F (.ring (a ++ b)) := area_ring_rotate' F a b

/-- Closed form for a longitude/latitude box: `ToRing` of the box has signed area
    `R² · Δλ · (sin φ₂ − sin φ₁)` with `Δλ` the width in radians. -/
theorem box_area_closed_form (lo hi : Pt α) :
    ringArea F (toRing lo hi) =
      F.R * F.R * deg2rad F (hi.x - lo.x) * (F.sin (deg2rad F hi.y) - F.sin (deg2rad F lo.y)) :=
  box_area_closed_form' F lo hi

theorem area_bound (lo hi : Pt α) :
    area F (.bound lo hi) =
      F.abs (F.R * F.R * deg2rad F (hi.x - lo.x) * (F.sin (deg2rad F hi.y) - F.sin (deg2rad F lo.y))) :=
  area_bound' F lo hi

/-- Polygon area is the outer ring's absolute area minus the holes' absolute areas. -/
theorem polygon_area (o : List (Pt α)) (hs : List (List (Pt α))) :
    polygonArea F (o :: hs) = F.abs (ringArea F o) - (hs.map fun h => F.abs (ringArea F h)).sum :=
  polygon_area' F o hs

/-- Areas add over multi-polygons and collections. -/
theorem multi_area_sum (mp : List (List (List (Pt α)))) :
    multiPolygonArea F mp = (mp.map (polygonArea F)).sum := multi_area_sum' F mp

theorem collection_area_sum (gs : List (Geom α)) :
    area F (.collection gs) = (gs.map (area F)).sum := collection_area_sum' F gs

end ring

section length
variable {α : Type} [Field α] [LinearOrder α] [IsStrictOrderedRing α]

/-- Geodesic length is the sum of the segment distances `df(ls[i], ls[i-1])`. -/
theorem length_sum (df : Pt α → Pt α → α) (ls : List (Pt α)) :
    lineLength df ls = ((ls.zip ls.tail).map fun pq => df pq.2 pq.1).sum := length_sum' df ls

/-- … summed over the members of multi-geometries, polygons (every ring) and collections. -/
theorem length_multiLineString (df : Pt α → Pt α → α) (ls : List (List (Pt α))) :
    length df (.multiLineString ls) = (ls.map (lineLength df)).sum := length_multiLineString' df ls

theorem length_polygon (df : Pt α → Pt α → α) (p : List (List (Pt α))) :
    length df (.polygon p) = (p.map (lineLength df)).sum := length_polygon' df p

theorem length_multiPolygon (df : Pt α → Pt α → α) (mp : List (List (List (Pt α)))) :
    length df (.multiPolygon mp) = (mp.map fun p => (p.map (lineLength df)).sum).sum :=
  length_multiPolygon' df mp

theorem length_collection (df : Pt α → Pt α → α) (gs : List (Geom α)) :
    length df (.collection gs) = (gs.map (length df)).sum := length_collection' df gs

end length

section distance
variable {α : Type} [Field α] [LinearOrder α] [IsStrictOrderedRing α] (F : Fn α)

/-- Great-circle (haversine) distance is symmetric, given only that `sin` is odd. -/
theorem haversine_symm (hsin : ∀ x, F.sin (-x) = -F.sin x) (p q : Pt α) :
    distanceHaversine F p q = distanceHaversine F q p := haversine_symm' F hsin p q

/-- The equirectangular distance is symmetric, given only that `abs` is even. -/
theorem distance_symm (habs : ∀ x, F.abs (-x) = F.abs x) (p q : Pt α) :
    distance F p q = distance F q p := distance_symm' F habs p q

/-- Haversine distance is between 0 and half the circumference `π·R`, given `R ≥ 0`, `sqrt ≥ 0`
    and `0 ≤ atan2 y x ≤ π/2` on the closed first quadrant. -/
theorem haversine_le_half_circumference (hR : 0 ≤ F.R) (hsqrt : ∀ x, 0 ≤ F.sqrt x)
    (hatan : ∀ y x, 0 ≤ y → 0 ≤ x → F.atan2 y x ≤ F.pi / 2) (p q : Pt α) :
    distanceHaversine F p q ≤ F.pi * F.R := haversine_le_half_circumference' F hR hsqrt hatan p q

theorem haversine_nonneg (hR : 0 ≤ F.R) (hsqrt : ∀ x, 0 ≤ F.sqrt x)
    (hatan : ∀ y x, 0 ≤ y → 0 ≤ x → 0 ≤ F.atan2 y x) (p q : Pt α) :
    0 ≤ distanceHaversine F p q := haversine_nonneg' F hR hsqrt hatan p q

/-- The clamp `a = math.Min(a, 1)` (fix eb6ce31) keeps the argument of the second square root
    non-negative for every field value of `a`, given `min a b ≤ b` (the law is witnessed for
    `exampleFn` below): no negative argument of `sqrt(1 - a)` for (nearly) antipodal points, where `a`
    rounds to `1 + ulp`.  This is a statement over an ordered field, where there is no NaN; Go's
    `math.Min(NaN, 1)` is NaN, so on floats a NaN `a` (non-finite coordinates only) still propagates —
    the driver's clause `haversine-half-circumference nan-near-antipodal` judges the float outcome. -/
theorem haversine_sqrt_arg_nonneg (hmin : ∀ a b, F.min a b ≤ b) (p q : Pt α) :
    0 ≤ 1 - F.min (havA F p q) 1 := haversine_sqrt_arg_nonneg' F hmin p q

/-- Both square-root arguments of `DistanceHaversine` are non-negative for latitudes whose cosine is
    non-negative (±90°), given `min a b ≤ b` and `min` of non-negatives non-negative. -/
theorem haversine_sqrt_args_nonneg (hmin : ∀ a b, F.min a b ≤ b)
    (hmin0 : ∀ a b, 0 ≤ a → 0 ≤ b → 0 ≤ F.min a b) (p q : Pt α)
    (hp : 0 ≤ F.cos (deg2rad F p.y)) (hq : 0 ≤ F.cos (deg2rad F q.y)) :
    0 ≤ F.min (havA F p q) 1 ∧ 0 ≤ 1 - F.min (havA F p q) 1 :=
  haversine_sqrt_args_nonneg' F hmin hmin0 p q hp hq

/-- The antimeridian fold, stated on `distance` itself: for longitudes within ±180° (the property's
    quantifier) `geo.Distance` is `√(Δφ² + (f·cos φ_m)²)·R` where the folded longitude difference
    `f = lonFold F p q` lies in `[0, π]` — the short way round, also for pairs straddling the
    antimeridian.  Needs only `abs ≥ 0`, `abs x ∈ {x, −x}` and `π ≥ 0`. -/
theorem distance_fold_le_pi (habs0 : ∀ x, 0 ≤ F.abs x) (habs : ∀ x, F.abs x = x ∨ F.abs x = -x)
    (hpi : 0 ≤ F.pi) (p q : Pt α) (hp1 : -180 ≤ p.x) (hp2 : p.x ≤ 180) (hq1 : -180 ≤ q.x) (hq2 : q.x ≤ 180) :
    (0 ≤ lonFold F p q ∧ lonFold F p q ≤ F.pi) ∧
    distance F p q =
      F.sqrt (deg2rad F (p.y - q.y) * deg2rad F (p.y - q.y) +
        (lonFold F p q * F.cos (deg2rad F ((p.y + q.y) / 2))) *
        (lonFold F p q * F.cos (deg2rad F ((p.y + q.y) / 2)))) * F.R :=
  ⟨lonFold_range' F habs0 habs hpi p q hp1 hp2 hq1 hq2, distance_eq_lonFold' F p q⟩

/-- The bare inequality behind it, for any `x` with `abs x ≤ 2π` (kept: the earlier form of the clause). -/
theorem fold_le_pi (x : α) (h2 : F.abs x ≤ 2 * F.pi) (hpi : 0 ≤ F.pi) :
    (if F.pi < F.abs x then 2 * F.pi - F.abs x else F.abs x) ≤ F.pi ∧
    (0 ≤ F.abs x → 0 ≤ (if F.pi < F.abs x then 2 * F.pi - F.abs x else F.abs x)) :=
  distance_fold_le_pi' F x h2 hpi

/-! Full statements that are NOT proved here (measured by the correspondence check). -/

/-- Travelling `d` on bearing `β` lands at haversine distance `d` from the start. -/
def dest_distance_full (lim89 lim5000km : α) : Prop :=
  ∀ (p : Pt α) (β d : α), -lim89 ≤ p.y → p.y ≤ lim89 → 0 ≤ d → d ≤ lim5000km →
    distanceHaversine F p (pointAtBearingAndDistance F p β d) = d

/-- The midpoint is equidistant from both ends — for pairs at least `margin` short of antipodal
    (`H(p,q) < πR − margin`; the check uses `margin` = 1 km).  Without the exclusion the statement is
    false over ℝ: for `p = (0,0)`, `q = (180,0)` the formula gives `m = p`, and `0 ≠ πR`; close to
    antipodal the midpoint is ill-conditioned. -/
def midpoint_equidistant_full (margin : α) : Prop :=
  ∀ (p q : Pt α), distanceHaversine F p q < F.pi * F.R - margin →
    distanceHaversine F p (midpoint F p q) = distanceHaversine F (midpoint F p q) q

/-- … and half-way: twice its distance from either end is the distance between the ends. -/
def midpoint_halfway_full (margin : α) : Prop :=
  ∀ (p q : Pt α), distanceHaversine F p q < F.pi * F.R - margin →
    2 * distanceHaversine F p (midpoint F p q) = distanceHaversine F p q

/-- Haversine and equirectangular distance agree to one part in 10⁵ under 10 km below 80°. -/
def equirect_agreement_full (lim80 lim10km : α) : Prop :=
  ∀ (p q : Pt α), F.abs p.y < lim80 → F.abs q.y < lim80 → distanceHaversine F p q < lim10km →
    F.abs (distance F p q - distanceHaversine F p q) * 100000 ≤ distanceHaversine F p q

end distance

/-- Non-vacuity: `exampleFn` (C18Lemmas) is a concrete `Fn ℚ` satisfying every hypothesis used above (`sin` odd, `abs` even,
    `sqrt ≥ 0`, `atan2` within `[0, π/2]`, `R ≥ 0`; the `min` / `abs` / `π` / `cos` laws in the third example),
    and a concrete unclosed triangle with non-zero area. -/
example : ringArea exampleFn [⟨0, 0⟩, ⟨60, 0⟩, ⟨60, 60⟩] = 2 ∧
    ringArea exampleFn [⟨0, 0⟩, ⟨60, 0⟩, ⟨60, 60⟩, ⟨0, 0⟩] = 2 ∧
    ringArea exampleFn [⟨60, 60⟩, ⟨60, 0⟩, ⟨0, 0⟩] = -2 := by
  refine ⟨?_, ?_, ?_⟩ <;> decide +kernel

example : (∀ x, exampleFn.sin (-x) = -exampleFn.sin x) ∧ (∀ x, exampleFn.abs (-x) = exampleFn.abs x) ∧
    (0 : Rat) ≤ exampleFn.R ∧ (∀ x, 0 ≤ exampleFn.sqrt x) ∧
    (∀ y x : Rat, 0 ≤ y → 0 ≤ x → 0 ≤ exampleFn.atan2 y x ∧ exampleFn.atan2 y x ≤ exampleFn.pi / 2) :=
  exampleFn_laws

/-- … and the hypotheses of `haversine_sqrt_arg_nonneg`, `haversine_sqrt_args_nonneg` and
    `distance_fold_le_pi`: `min a b ≤ b`, `min` of non-negatives non-negative, `abs ≥ 0`,
    `abs x ∈ {x, −x}`, `π ≥ 0`, `cos ≥ 0`. -/
example : (∀ a b : Rat, exampleFn.min a b ≤ b) ∧
    (∀ a b : Rat, 0 ≤ a → 0 ≤ b → 0 ≤ exampleFn.min a b) ∧
    (∀ x : Rat, 0 ≤ exampleFn.abs x) ∧ (∀ x : Rat, exampleFn.abs x = x ∨ exampleFn.abs x = -x) ∧
    (0 : Rat) ≤ exampleFn.pi ∧ (∀ x : Rat, 0 ≤ exampleFn.cos x) := exampleFn_laws2

/-- The fold is exercised by a concrete pair straddling the antimeridian: 179° vs −179° folds
    `|358°|` to `2π − 358·π/180 = π/90` (with `π := 3`: `1/30`), not to `358·π/180`. -/
example : lonFold exampleFn ⟨179, 0⟩ ⟨-179, 0⟩ = 1 / 30 ∧ lonFold exampleFn ⟨10, 0⟩ ⟨-20, 0⟩ = 1 / 2 := by
  refine ⟨?_, ?_⟩ <;> decide +kernel

end Orb.Geo
