/-
  C08 — provenance of the output vertices of `clip.ring` (Sutherland–Hodgman), FOR ANY ARITHMETIC.

  Every vertex `ring` returns is an input vertex as it is (a COPY) or the result of an `intersect` call
  (COMPUTED), and a computed point has a coordinate that IS an edge value of the box.  No hypothesis on the
  box or on what `+ - * / < ≤` do on the coordinate type: it holds for the `Float` instance.  Likewise
  `multiPoint` (a filter) returns input points only and `clipBound` returns corner coordinates of its
  arguments.  Primed statements, re-exported by OrbProofs/C08.lean.
-/
import OrbProofs.C07Provenance

set_option linter.unusedSectionVars false
set_option linter.unusedVariables false

namespace Orb.Clip
open Orb Orb.Core

variable {α : Type} [Add α] [Sub α] [Mul α] [Div α] [LT α] [LE α] [DecidableLT α] [DecidableLE α] [BEq α]
  [Min α] [Max α]

theorem ringPass_go_prov (box : Bound α) (e : Nat) (P : Pt α → Prop)
    (hI : ∀ a b p, intersect box e a b = some p → P p) :
    ∀ (l : List (Pt α)) (prev : Pt α) (pi : Bool) (out res : List (Pt α)),
      (∀ v ∈ l, P v) → (∀ v ∈ out, P v) → ringPass.go box e l prev pi out = some res → ∀ v ∈ res, P v := by
  intro l
  induction l with
  | nil =>
    intro prev pi out res _ ho h
    rw [ringPass.go] at h
    obtain rfl := Option.some.inj h
    exact ho
  | cons p rest ih =>
    intro prev pi out res hl ho h
    have hp : P p := hl p (by simp)
    have hrest : ∀ v ∈ rest, P v := fun v hv => hl v (List.mem_cons_of_mem _ hv)
    rw [ringPass.go] at h
    simp only at h
    by_cases hc : (((bitCode box p &&& e) == 0) != pi) = true
    · rw [if_pos hc] at h
      cases hi : intersect box e prev p with
      | none => rw [hi] at h; exact absurd h (by simp)
      | some i =>
        rw [hi] at h
        simp only at h
        have ho1 : ∀ v ∈ out ++ [i], P v := by
          intro v hv
          rcases List.mem_append.1 hv with h1 | h1
          · exact ho v h1
          · simp at h1; subst h1; exact hI prev p _ hi
        refine ih _ _ _ _ hrest ?_ h
        split_ifs
        · intro v hv
          rcases List.mem_append.1 hv with h1 | h1
          · exact ho1 v h1
          · simp at h1; subst h1; exact hp
        · exact ho1
    · rw [if_neg hc] at h
      simp only at h
      refine ih _ _ _ _ hrest ?_ h
      split_ifs
      · intro v hv
        rcases List.mem_append.1 hv with h1 | h1
        · exact ho v h1
        · simp at h1; subst h1; exact hp
      · exact ho

theorem ringPass_prov (box : Bound α) (e : Nat) (ic : Bool) (P : Pt α → Prop)
    (hI : ∀ a b p, intersect box e a b = some p → P p) (inp res : List (Pt α))
    (hin : ∀ v ∈ inp, P v) (h : ringPass box e ic inp = some res) : ∀ v ∈ res, P v := by
  unfold ringPass at h
  cases inp with
  | nil => simp at h; subst h; intro v hv; simp at hv
  | cons f t =>
    simp only at h
    exact ringPass_go_prov box e P hI _ _ _ _ _ hin (by intro v hv; simp at hv) h

/-- one guarded pass of `ring` (nothing left: stop) -/
def passG (box : Bound α) (ic : Bool) (e : Nat) (cur : Option (List (Pt α))) : Option (List (Pt α)) :=
  match cur with
  | none => none
  | some [] => some []
  | some c => ringPass box e ic c

/-- the final re-closing step of `ring` -/
def recloseG (ic : Bool) (r : Option (List (Pt α))) : Option (List (Pt α)) :=
  match r with
  | none => none
  | some [] => some []
  | some out =>
    if ic then
      match out, out.getLast? with
      | f' :: _, some l' => if ptEqB f' l' then some out else some (out ++ [f'])
      | _, _ => some out
    else some out

theorem ring_eq_passG (box : Bound α) (f : Pt α) (t : List (Pt α)) :
    ring box (f :: t) =
      recloseG (ptEqB f ((f :: t).getLast?.getD f))
        (passG box (ptEqB f ((f :: t).getLast?.getD f)) 8 (passG box (ptEqB f ((f :: t).getLast?.getD f)) 4
          (passG box (ptEqB f ((f :: t).getLast?.getD f)) 2 (passG box (ptEqB f ((f :: t).getLast?.getD f)) 1 (some (f :: t)))))) := rfl

theorem passG_prov (box : Bound α) (ic : Bool) (e : Nat) (P : Pt α → Prop)
    (hI : ∀ a b p, intersect box e a b = some p → P p) (cur : Option (List (Pt α)))
    (hc : ∀ c, cur = some c → ∀ v ∈ c, P v) : ∀ res, passG box ic e cur = some res → ∀ v ∈ res, P v := by
  intro res hr
  unfold passG at hr
  cases cur with
  | none => simp at hr
  | some c =>
    cases c with
    | nil => simp at hr; subst hr; intro v hv; simp at hv
    | cons x xs =>
      simp only at hr
      exact ringPass_prov box e ic P hI _ _ (hc _ rfl) hr

theorem recloseG_prov (ic : Bool) (P : Pt α → Prop) (r : Option (List (Pt α)))
    (hc : ∀ c, r = some c → ∀ v ∈ c, P v) : ∀ res, recloseG ic r = some res → ∀ v ∈ res, P v := by
  intro res hr
  unfold recloseG at hr
  cases r with
  | none => simp at hr
  | some c =>
    have hcc := hc c rfl
    cases c with
    | nil => simp at hr; subst hr; intro v hv; simp at hv
    | cons x xs =>
      simp only at hr
      by_cases hic : ic = true
      · rw [if_pos hic] at hr
        cases hl : (x :: xs).getLast? with
        | none => rw [hl] at hr; simp only at hr; obtain rfl := Option.some.inj hr; exact hcc
        | some l' =>
          rw [hl] at hr
          simp only at hr
          by_cases he : ptEqB x l' = true
          · rw [if_pos he] at hr; obtain rfl := Option.some.inj hr; exact hcc
          · rw [if_neg he] at hr; obtain rfl := Option.some.inj hr
            intro v hv
            rcases List.mem_append.1 hv with hv | hv
            · exact hcc v hv
            · simp at hv; subst hv; exact hcc _ (by simp)
      · rw [if_neg hic] at hr; obtain rfl := Option.some.inj hr; exact hcc

/-- PROVENANCE, any arithmetic, any box: every vertex `ring` returns is an input vertex as it is, or has a
    coordinate that is an edge value of the box. -/
theorem ring_prov' (box : Bound α) (inp out : List (Pt α)) (h : ring box inp = some out) :
    ∀ v ∈ out, v ∈ inp ∨ OnEdgeValue box v := by
  cases inp with
  | nil =>
    have : ring box ([] : List (Pt α)) = some [] := rfl
    rw [this] at h; obtain rfl := Option.some.inj h; intro v hv; simp at hv
  | cons f t =>
    have hI : ∀ e a b p, intersect box e a b = some p → (p ∈ f :: t ∨ OnEdgeValue box p) :=
      fun e a b p hp => Or.inr (intersect_onEdgeValue box e a b p hp)
    rw [ring_eq_passG] at h
    refine recloseG_prov _ _ _ ?_ out h
    refine passG_prov box _ 8 _ (hI 8) _ ?_
    refine passG_prov box _ 4 _ (hI 4) _ ?_
    refine passG_prov box _ 2 _ (hI 2) _ ?_
    refine passG_prov box _ 1 _ (hI 1) _ ?_
    intro c hc v hv
    obtain rfl := Option.some.inj hc
    exact Or.inl hv

/-- `clip.MultiPoint` returns input points only (a filter): copies, no arithmetic. -/
theorem multiPoint_prov' (box : Bound α) (mp : List (Pt α)) : ∀ v ∈ multiPoint box mp, v ∈ mp := by
  intro v hv
  unfold multiPoint at hv
  exact (List.mem_filter.1 hv).1

end Orb.Clip
