/-
  C08 (area), split layer: an edge functional that is ADDITIVE under cutting an edge at one of its
  points stays so after being pulled back through a clamp (`splitAdd_pullK`).
-/
import OrbProofs.C08RegionAreaRing

namespace Orb.Clip.C08R
open Orb Orb.EvenOdd Orb.Contains Orb.Clip Orb.Clip.C08
open Orb.Core hiding chain

set_option linter.unusedSectionVars false
set_option linter.unusedSimpArgs false
set_option linter.unusedVariables false

variable {α : Type} [Field α] [LinearOrder α] [IsStrictOrderedRing α]

/-- additive under cutting an edge at a point of the edge -/
def SplitAdd (w : Pt α → Pt α → α) : Prop := ∀ a b i, OnSeg a b i → w a b = w a i + w i b

theorem splitAdd_sh : SplitAdd (sh (α := α)) := by
  rintro a b i ⟨t, _, _, rfl⟩
  simp only [sh, lerp_x, lerp_y]; ring

theorem SplitAdd.sub {w w' : Pt α → Pt α → α} (h : SplitAdd w) (h' : SplitAdd w') :
    SplitAdd (fun a b => w a b - w' a b) := by
  intro a b i hi
  simp only [h a b i hi, h' a b i hi]; ring

/-! ### the clamp and segments -/

theorem exc_convex_in (box : Bound α) (k : Nat) {a b i : Pt α} (ha : exc box k a ≤ 0) (hb : exc box k b ≤ 0)
    (hi : OnSeg a b i) : exc box k i ≤ 0 := by
  obtain ⟨t, t0, t1, rfl⟩ := hi
  rw [exc_lerp]
  nlinarith [mul_nonneg (sub_nonneg.2 t1) (neg_nonneg.2 ha), mul_nonneg t0 (neg_nonneg.2 hb)]

theorem exc_convex_out (box : Bound α) (k : Nat) {a b i : Pt α} (ha : 0 < exc box k a) (hb : 0 < exc box k b)
    (hi : OnSeg a b i) : 0 < exc box k i := by
  obtain ⟨t, t0, t1, rfl⟩ := hi
  rw [exc_lerp]
  rcases eq_or_lt_of_le t0 with h | h
  · rw [← h]; simpa using ha
  · nlinarith [mul_nonneg (sub_nonneg.2 t1) ha.le, mul_pos h hb]

theorem exc_convex_out' (box : Bound α) (k : Nat) {a b i : Pt α} (ha : 0 ≤ exc box k a) (hb : 0 ≤ exc box k b)
    (hi : OnSeg a b i) : 0 ≤ exc box k i := by
  obtain ⟨t, t0, t1, rfl⟩ := hi
  rw [exc_lerp]
  nlinarith [mul_nonneg (sub_nonneg.2 t1) ha, mul_nonneg t0 hb]

theorem flatK_lerp (box : Bound α) {k : Nat} (hk : Edge k) (a b : Pt α) (t : α) :
    flatK box k (lerp a b t) = lerp (flatK box k a) (flatK box k b) t := by
  rcases hk with rfl | rfl | rfl | rfl <;> apply pt_eq <;> simp [flatK]

theorem flatK_of_zero (box : Bound α) {k : Nat} (hk : Edge k) {p : Pt α} (h : exc box k p = 0) :
    flatK box k p = p := by
  rcases hk with rfl | rfl | rfl | rfl <;> apply pt_eq <;> simp [flatK] <;> simp at h <;> linarith

theorem projK_of_nonpos (box : Bound α) (k : Nat) {p : Pt α} (h : exc box k p ≤ 0) : projK box k p = p := by
  unfold projK; rw [if_pos h]

theorem projK_of_nonneg (box : Bound α) {k : Nat} (hk : Edge k) {p : Pt α} (h : 0 ≤ exc box k p) :
    projK box k p = flatK box k p := by
  unfold projK
  split_ifs with h'
  · exact (flatK_of_zero box hk (le_antisymm h' h)).symm
  · rfl

/-- the clamp maps a segment lying on one closed side of the line onto a segment, point by point -/
theorem proj_seg (box : Bound α) {k : Nat} (hk : Edge k) {u v p : Pt α}
    (hs : (exc box k u ≤ 0 ∧ exc box k v ≤ 0) ∨ (0 ≤ exc box k u ∧ 0 ≤ exc box k v)) (hp : OnSeg u v p) :
    OnSeg (projK box k u) (projK box k v) (projK box k p) := by
  rcases hs with ⟨hu, hv⟩ | ⟨hu, hv⟩
  · rw [projK_of_nonpos box k hu, projK_of_nonpos box k hv, projK_of_nonpos box k (exc_convex_in box k hu hv hp)]
    exact hp
  · rw [projK_of_nonneg box hk hu, projK_of_nonneg box hk hv,
      projK_of_nonneg box hk (exc_convex_out' box k hu hv hp)]
    obtain ⟨t, t0, t1, rfl⟩ := hp
    exact ⟨t, t0, t1, flatK_lerp box hk u v t⟩

theorem exc_zero_unique (box : Bound α) (k : Nat) {a b : Pt α} (hne : exc box k a ≠ exc box k b) {t t' : α}
    (h : exc box k (lerp a b t) = 0) (h' : exc box k (lerp a b t') = 0) : t = t' := by
  rw [exc_lerp] at h h'
  have : (t - t') * (exc box k b - exc box k a) = 0 := by linarith
  rcases mul_eq_zero.1 this with h1 | h1
  · exact sub_eq_zero.1 h1
  · exact absurd (sub_eq_zero.1 h1).symm hne

theorem insK_seg (box : Bound α) (k : Nat) {a b i : Pt α} (h : insK box k a = insK box k b) (hi : OnSeg a b i) :
    insK box k i = insK box k a := by
  cases ha : insK box k a
  · rw [ha] at h
    rw [insK_false] at ha ⊢
    exact exc_convex_out box k ha (insK_false.1 h.symm) hi
  · rw [ha] at h
    rw [insK_true] at ha ⊢
    exact exc_convex_in box k ha (insK_true.1 h.symm) hi

theorem exc_ne_of_insK_ne (box : Bound α) (k : Nat) {a b : Pt α} (h : insK box k a ≠ insK box k b) :
    exc box k a ≠ exc box k b := by
  intro he; apply h; unfold insK; rw [he]

/-- `a` and the crossing point of `a b` are on one closed side; so are the crossing point and `b` -/
theorem side_left (box : Bound α) (k : Nat) (a : Pt α) {x : Pt α} (hx : exc box k x = 0) :
    (exc box k a ≤ 0 ∧ exc box k x ≤ 0) ∨ (0 ≤ exc box k a ∧ 0 ≤ exc box k x) := by
  rcases le_total (exc box k a) 0 with h | h
  · exact Or.inl ⟨h, hx.le⟩
  · exact Or.inr ⟨h, hx.ge⟩

theorem side_right (box : Bound α) (k : Nat) (b : Pt α) {x : Pt α} (hx : exc box k x = 0) :
    (exc box k x ≤ 0 ∧ exc box k b ≤ 0) ∨ (0 ≤ exc box k x ∧ 0 ≤ exc box k b) := by
  rcases le_total (exc box k b) 0 with h | h
  · exact Or.inl ⟨hx.le, h⟩
  · exact Or.inr ⟨hx.ge, h⟩

theorem pullK_same (box : Bound α) (k : Nat) (w : Pt α → Pt α → α) {a b : Pt α} (h : insK box k a = insK box k b) :
    pullK box k w a b = w (projK box k a) (projK box k b) := by
  unfold pullK pull; rw [if_pos h]

theorem pullK_diff (box : Bound α) (k : Nat) (w : Pt α → Pt α → α) {a b : Pt α} (h : insK box k a ≠ insK box k b) :
    pullK box k w a b = w (projK box k a) (Orb.Clip.cross box k a b) + w (Orb.Clip.cross box k a b) (projK box k b) := by
  unfold pullK pull; rw [if_neg h]

/-- PULLING BACK THROUGH A CLAMP KEEPS SPLIT-ADDITIVITY -/
theorem splitAdd_pullK (box : Bound α) {k : Nat} (hk : Edge k) {w : Pt α → Pt α → α} (hw : SplitAdd w) :
    SplitAdd (pullK box k w) := by
  intro a b i hi
  by_cases hab : insK box k a = insK box k b
  · have hia : insK box k i = insK box k a := insK_seg box k hab hi
    have hs : (exc box k a ≤ 0 ∧ exc box k b ≤ 0) ∨ (0 ≤ exc box k a ∧ 0 ≤ exc box k b) := by
      cases ha : insK box k a
      · rw [ha] at hab
        exact Or.inr ⟨(insK_false.1 ha).le, (insK_false.1 hab.symm).le⟩
      · rw [ha] at hab
        exact Or.inl ⟨insK_true.1 ha, insK_true.1 hab.symm⟩
    rw [pullK_same box k w hab, pullK_same box k w hia.symm, pullK_same box k w (hia.trans hab)]
    exact hw _ _ _ (proj_seg box hk hs hi)
  · obtain ⟨T, T0, T1, hx, hxz⟩ := cross_param box hk a b hab
    have hne := exc_ne_of_insK_ne box k hab
    have hxz' : exc box k (lerp a b T) = 0 := by rw [← hx]; exact hxz
    have hpx : projK box k (Orb.Clip.cross box k a b) = Orb.Clip.cross box k a b :=
      projK_of_nonpos box k hxz.le
    obtain ⟨s, s0, s1, rfl⟩ := hi
    by_cases hia : insK box k (lerp a b s) = insK box k a
    · -- the cut point is on `a`'s side
      have hib : insK box k (lerp a b s) ≠ insK box k b := by rw [hia]; exact hab
      obtain ⟨T', T0', T1', hx', hxz'2⟩ := cross_param box hk (lerp a b s) b hib
      have e1 : lerp (lerp a b s) b T' = lerp a b (s + T' * (1 - s)) := by
        have := lerp_lerp a b s 1 T'
        rwa [lerp_one] at this
      have hT : s + T' * (1 - s) = T := by
        apply exc_zero_unique box k hne _ hxz'
        rw [← e1, ← hx']; exact hxz'2
      have hcx : Orb.Clip.cross box k (lerp a b s) b = Orb.Clip.cross box k a b := by
        rw [hx', e1, hT, hx]
      have hsT : s ≤ T := by rw [← hT]; nlinarith [mul_nonneg T0' (sub_nonneg.2 s1)]
      have hseg : OnSeg a (Orb.Clip.cross box k a b) (lerp a b s) := by
        have := onSeg_between a b (s := 0) (e := T) (t := s) s0 hsT
        rwa [lerp_zero, ← hx] at this
      have hseg' := proj_seg box hk (side_left box k a hxz) hseg
      rw [hpx] at hseg'
      rw [pullK_diff box k w hab, pullK_same box k w hia.symm, pullK_diff box k w hib, hcx,
        hw _ _ _ hseg']
      ring
    · -- the cut point is on `b`'s side
      have hib : insK box k (lerp a b s) = insK box k b := by
        cases h1 : insK box k (lerp a b s) <;> cases h2 : insK box k a <;> cases h3 : insK box k b <;> simp_all
      have hai : insK box k a ≠ insK box k (lerp a b s) := fun h => hia h.symm
      obtain ⟨T', T0', T1', hx', hxz'2⟩ := cross_param box hk a (lerp a b s) hai
      have e1 : lerp a (lerp a b s) T' = lerp a b (T' * s) := by
        have := lerp_lerp a b 0 s T'
        rw [lerp_zero] at this
        rw [this]; congr 1; ring
      have hT : T' * s = T := by
        apply exc_zero_unique box k hne _ hxz'
        rw [← e1, ← hx']; exact hxz'2
      have hcx : Orb.Clip.cross box k a (lerp a b s) = Orb.Clip.cross box k a b := by
        rw [hx', e1, hT, hx]
      have hTs : T ≤ s := by rw [← hT]; nlinarith [mul_nonneg (sub_nonneg.2 T1') s0]
      have hseg : OnSeg (Orb.Clip.cross box k a b) b (lerp a b s) := by
        have := onSeg_between a b (s := T) (e := 1) (t := s) hTs s1
        rwa [lerp_one, ← hx] at this
      have hseg' := proj_seg box hk (side_right box k b hxz) hseg
      rw [hpx] at hseg'
      rw [pullK_diff box k w hab, pullK_diff box k w hai, pullK_same box k w hib, hcx,
        hw _ _ _ hseg']
      ring

end Orb.Clip.C08R
