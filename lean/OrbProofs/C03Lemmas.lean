/- Lemma files of C03 (and the MVT share of C05), gathered for OrbProofs/C03.lean. -/
import OrbProofs.C03Layer
import OrbProofs.C03Total
