/-
  Helper lemmas for C18.  The primed statements are re-exported by OrbProofs/C18.lean.
-/
import Orb.Geo
import Mathlib.Algebra.Order.Field.Basic
import Mathlib.Algebra.BigOperators.Group.List.Basic
import Mathlib.Algebra.BigOperators.Group.Finset.Basic
import Mathlib.Data.List.GetD
import Mathlib.Tactic.Ring
import Mathlib.Tactic.Linarith
import Mathlib.Tactic.SplitIfs

namespace Orb.Geo

set_option linter.unusedSectionVars false

/-! ### generic fold / sum helpers -/

section generic
variable {α : Type} [Field α]

theorem foldl_add_eq {β : Type} (f : β → α) (l : List β) (acc : α) :
    l.foldl (fun s x => s + f x) acc = acc + (l.map f).sum := by
  induction l generalizing acc with
  | nil => simp
  | cons x l ih => simp only [List.foldl_cons, ih, List.map_cons, List.sum_cons]; ring

theorem foldl_sub_eq {β : Type} (f : β → α) (l : List β) (acc : α) :
    l.foldl (fun s x => s - f x) acc = acc - (l.map f).sum := by
  induction l generalizing acc with
  | nil => simp
  | cons x l ih => simp only [List.foldl_cons, ih, List.map_cons, List.sum_cons]; ring

theorem foldl_range_eq_sum (f : Nat → α) (n : Nat) :
    (List.range n).foldl (fun acc i => acc + f i) 0 = ∑ i ∈ Finset.range n, f i := by
  induction n with
  | zero => simp
  | succ n ih =>
    rw [List.range_succ, List.foldl_append, ih, Finset.sum_range_succ]; rfl

/-- cyclic shift of a sum over `range m` -/
theorem sum_shift (g : Nat → α) (m : Nat) (hm : 0 < m) :
    ∑ k ∈ Finset.range m, g ((k + 1) % m) = ∑ k ∈ Finset.range m, g k := by
  obtain ⟨n, rfl⟩ : ∃ n, m = n + 1 := ⟨m - 1, by omega⟩
  rw [Finset.sum_range_succ, Finset.sum_range_succ', Nat.mod_self]
  congr 1
  apply Finset.sum_congr rfl
  intro k hk
  rw [Finset.mem_range] at hk
  rw [Nat.mod_eq_of_lt (by omega)]

theorem mod_pred_succ (m k : Nat) (hk : k < m) : ((k + 1) % m + m - 1) % m = k := by
  rcases Nat.lt_or_ge (k + 1) m with h | h
  · rw [Nat.mod_eq_of_lt h]
    have : k + 1 + m - 1 = k + m := by omega
    rw [this, Nat.add_mod_right, Nat.mod_eq_of_lt hk]
  · have e : k + 1 = m := by omega
    rw [e, Nat.mod_self]
    have : 0 + m - 1 = m - 1 := by omega
    rw [this, Nat.mod_eq_of_lt (by omega)]; omega

end generic

/-! ### the edge sum -/

section edge
variable {α : Type} [Field α] [LinearOrder α] (F : Fn α)

/-- longitude in radians -/
def lam (p : Pt α) : α := deg2rad F p.x
/-- sine of the latitude -/
def sn (p : Pt α) : α := F.sin (deg2rad F p.y)

theorem ringTerm_eq (lo mi hi : Pt α) :
    ringTerm F lo mi hi = (lam F hi - lam F lo) * sn F mi := rfl

/-- contribution of the directed edge `(p, q)` -/
def edge (p q : Pt α) : α := lam F q * sn F p - lam F p * sn F q

theorem edge_self (p : Pt α) : edge F p p = 0 := by unfold edge; ring
theorem edge_swap (p q : Pt α) : edge F q p = -edge F p q := by unfold edge; ring

/-- sum of the edges of the path `p :: l` -/
def pathFrom (p : Pt α) : List (Pt α) → α
  | [] => 0
  | q :: rest => edge F p q + pathFrom q rest

def pathSum : List (Pt α) → α
  | [] => 0
  | p :: rest => pathFrom F p rest

/-- sum of the edges of the closed polygon `v` -/
def edgeSum : List (Pt α) → α
  | [] => 0
  | p :: rest => pathFrom F p (rest ++ [p])

theorem pathFrom_append (p q : Pt α) (a b : List (Pt α)) :
    pathFrom F p (a ++ q :: b) = pathFrom F p (a ++ [q]) + pathFrom F q b := by
  induction a generalizing p with
  | nil => simp [pathFrom]
  | cons x a ih => simp only [List.cons_append, pathFrom, ih]; ring

theorem edgeSum_rotate (a b : List (Pt α)) : edgeSum F (b ++ a) = edgeSum F (a ++ b) := by
  cases a with
  | nil => simp
  | cons x a =>
    cases b with
    | nil => simp
    | cons y b =>
      simp only [edgeSum, List.cons_append, List.append_assoc]
      rw [pathFrom_append F y x b (a ++ [y]), pathFrom_append F x y a (b ++ [x])]
      ring

theorem edgeSum_dup (p : Pt α) (w : List (Pt α)) :
    edgeSum F ((p :: w) ++ [p]) = edgeSum F (p :: w) := by
  simp only [edgeSum, List.cons_append, List.append_assoc]
  rw [pathFrom_append]
  simp [pathFrom, edge_self]

theorem pathSum_reverse (l : List (Pt α)) : pathSum F l.reverse = -pathSum F l := by
  induction l with
  | nil => simp [pathSum]
  | cons p l ih =>
    cases l with
    | nil => simp [pathSum, pathFrom]
    | cons q l =>
      have h1 : (p :: q :: l).reverse = l.reverse ++ q :: [p] := by simp
      rw [h1]
      have h2 : ∀ (a : List (Pt α)) (x : Pt α) (b : List (Pt α)),
          pathSum F (a ++ x :: b) = pathSum F (a ++ [x]) + pathFrom F x b := by
        intro a x b
        cases a with
        | nil => simp [pathSum, pathFrom]
        | cons y a => simp only [List.cons_append, pathSum]; exact pathFrom_append F y x a b
      rw [h2]
      have h3 : l.reverse ++ [q] = (q :: l).reverse := by simp
      rw [h3, ih]
      simp only [pathSum, pathFrom, edge_swap F p q]
      ring

theorem edgeSum_reverse (v : List (Pt α)) : edgeSum F v.reverse = -edgeSum F v := by
  cases v with
  | nil => simp [edgeSum]
  | cons x w =>
    rw [List.reverse_cons, edgeSum_rotate]
    have : edgeSum F ([x] ++ w.reverse) = pathSum F ((x :: (w ++ [x])).reverse) := by
      simp [edgeSum, pathSum]
    rw [this, pathSum_reverse]
    simp [edgeSum, pathSum]

/-! index form -/

theorem pathFrom_eq_sum (p : Pt α) (l : List (Pt α)) (d : Pt α) :
    pathFrom F p l = ∑ j ∈ Finset.range l.length,
      edge F ((p :: l).getD j d) ((p :: l).getD (j + 1) d) := by
  induction l generalizing p with
  | nil => simp [pathFrom]
  | cons q rest ih =>
    rw [List.length_cons, Finset.sum_range_succ', pathFrom, ih q]
    simp only [List.getD_cons_succ, List.getD_cons_zero]
    ring

theorem edgeSum_eq_sum (v : List (Pt α)) (d : Pt α) :
    edgeSum F v = ∑ j ∈ Finset.range v.length,
      edge F (v.getD j d) (v.getD ((j + 1) % v.length) d) := by
  cases v with
  | nil => simp [edgeSum]
  | cons p rest =>
    rw [edgeSum, pathFrom_eq_sum F p _ d]
    simp only [List.length_append, List.length_cons, List.length_nil, Nat.zero_add]
    apply Finset.sum_congr rfl
    intro j hj
    rw [Finset.mem_range] at hj
    have e1 : (p :: (rest ++ [p])).getD j d = (p :: rest).getD j d := by
      rw [← List.cons_append, List.getD_append _ _ _ _ (by simpa using hj)]
    rw [e1]
    congr 1
    rcases Nat.lt_or_ge (j + 1) (rest.length + 1) with h | h
    · rw [Nat.mod_eq_of_lt h, ← List.cons_append, List.getD_append _ _ _ _ (by simpa using h)]
    · have e : j + 1 = rest.length + 1 := by omega
      rw [e, Nat.mod_self, ← List.cons_append,
        List.getD_append_right _ _ _ _ (by simp)]
      simp

theorem cyclicSum_eq_sum (v : List (Pt α)) :
    cyclicSum F v = ∑ k ∈ Finset.range v.length,
      ringTerm F (v.getD ((k + v.length - 1) % v.length) ⟨0, 0⟩) (v.getD k ⟨0, 0⟩)
        (v.getD ((k + 1) % v.length) ⟨0, 0⟩) := by
  unfold cyclicSum
  exact foldl_range_eq_sum _ _

theorem cyclicSum_eq_edgeSum (v : List (Pt α)) : cyclicSum F v = edgeSum F v := by
  rw [cyclicSum_eq_sum, edgeSum_eq_sum F v ⟨0, 0⟩]
  rcases Nat.eq_zero_or_pos v.length with h0 | hm
  · rw [h0]; simp
  · generalize hmm : v.length = m at hm
    simp only [ringTerm_eq, edge, sub_mul, Finset.sum_sub_distrib]
    congr 1
    rw [← sum_shift (fun k => lam F (v.getD ((k + m - 1) % m) ⟨0, 0⟩) * sn F (v.getD k ⟨0, 0⟩)) m hm]
    apply Finset.sum_congr rfl
    intro k hk
    rw [Finset.mem_range] at hk
    simp only [mod_pred_succ m k hk]

end edge

/-! ### the rewired loop -/

section loop
variable {α : Type} [Field α] [LinearOrder α] (F : Fn α)

theorem ringIdx_lo (n i : Nat) (hi : i < n) : ringIdx (n + 3) i = (i, i + 1, i + 2) := by
  have h1 : ¬ i = n := by omega
  have h2 : ¬ i = n + 1 := by omega
  have h3 : ¬ i = n + 2 := by omega
  simp [ringIdx, h1, h2, h3]

theorem ringIdx_a (n : Nat) : ringIdx (n + 3) n = (n, n + 1, 0) := by
  simp [ringIdx]

theorem ringIdx_b (n : Nat) : ringIdx (n + 3) (n + 1) = (n + 1, 0, 0) := by
  simp [ringIdx]

theorem ringIdx_c (n : Nat) : ringIdx (n + 3) (n + 2) = (0, 0, 1) := by
  simp [ringIdx]

theorem ringL_cases (r : List (Pt α)) : ringL r = r.length ∨ ringL r = r.length + 1 := by
  unfold ringL; split_ifs <;> simp

theorem ringLoop_eq_sum (r : List (Pt α)) :
    ringLoop F r = ∑ i ∈ Finset.range (ringL r),
      ringTerm F (r.getD (ringIdx (ringL r) i).1 ⟨0, 0⟩) (r.getD (ringIdx (ringL r) i).2.1 ⟨0, 0⟩)
        (r.getD (ringIdx (ringL r) i).2.2 ⟨0, 0⟩) := by
  unfold ringLoop
  exact foldl_range_eq_sum _ _

theorem openVerts_facts (r : List (Pt α)) (h : 1 ≤ r.length) :
    ringL r = (openVerts r).length + 1 ∧
    ∀ i, i < (openVerts r).length → r.getD i ⟨0, 0⟩ = (openVerts r).getD i ⟨0, 0⟩ := by
  unfold ringL openVerts
  split_ifs with hc
  · exact ⟨rfl, fun _ _ => rfl⟩
  · refine ⟨by simp only [List.length_dropLast]; omega, fun i hi => ?_⟩
    simp only [List.length_dropLast] at hi
    rw [List.getD_eq_getElem?_getD, List.getD_eq_getElem?_getD, List.getElem?_dropLast]
    simp [hi]

theorem loop_eq_cyclic (r w : List (Pt α)) (n : Nat) (hw : w.length = n + 2)
    (hget : ∀ i, i < n + 2 → r.getD i ⟨0, 0⟩ = w.getD i ⟨0, 0⟩) :
    ∑ i ∈ Finset.range (n + 3),
      ringTerm F (r.getD (ringIdx (n + 3) i).1 ⟨0, 0⟩) (r.getD (ringIdx (n + 3) i).2.1 ⟨0, 0⟩)
        (r.getD (ringIdx (n + 3) i).2.2 ⟨0, 0⟩) = cyclicSum F w := by
  rw [cyclicSum_eq_sum, hw]
  rw [Finset.sum_range_succ, Finset.sum_range_succ, Finset.sum_range_succ,
    Finset.sum_range_succ _ (n + 1), Finset.sum_range_succ' _ n]
  rw [ringIdx_a, ringIdx_b, ringIdx_c]
  have m1 : (0 + (n + 2) - 1) % (n + 2) = n + 1 := by
    rw [Nat.mod_eq_of_lt (by omega)]; omega
  have m2 : (0 + 1) % (n + 2) = 1 := Nat.mod_eq_of_lt (by omega)
  have m3 : (n + 1 + (n + 2) - 1) % (n + 2) = n := by
    have : n + 1 + (n + 2) - 1 = n + (n + 2) := by omega
    rw [this, Nat.add_mod_right, Nat.mod_eq_of_lt (by omega)]
  have m4 : (n + 1 + 1) % (n + 2) = 0 := Nat.mod_self _
  rw [m1, m2, m3, m4]
  have hs : ∑ i ∈ Finset.range n,
      ringTerm F (r.getD (ringIdx (n + 3) i).1 ⟨0, 0⟩) (r.getD (ringIdx (n + 3) i).2.1 ⟨0, 0⟩)
        (r.getD (ringIdx (n + 3) i).2.2 ⟨0, 0⟩) =
      ∑ k ∈ Finset.range n,
        ringTerm F (w.getD ((k + 1 + (n + 2) - 1) % (n + 2)) ⟨0, 0⟩) (w.getD (k + 1) ⟨0, 0⟩)
          (w.getD ((k + 1 + 1) % (n + 2)) ⟨0, 0⟩) := by
    apply Finset.sum_congr rfl
    intro k hk
    rw [Finset.mem_range] at hk
    rw [ringIdx_lo n k hk]
    have a1 : (k + 1 + (n + 2) - 1) % (n + 2) = k := by
      have : k + 1 + (n + 2) - 1 = k + (n + 2) := by omega
      rw [this, Nat.add_mod_right, Nat.mod_eq_of_lt (by omega)]
    have a2 : (k + 1 + 1) % (n + 2) = k + 2 := Nat.mod_eq_of_lt (by omega)
    rw [a1, a2, hget k (by omega), hget (k + 1) (by omega), hget (k + 2) (by omega)]
  rw [hs, hget n (by omega), hget (n + 1) (by omega), hget 0 (by omega), hget 1 (by omega)]
  simp only [ringTerm_eq]
  ring

theorem ringLoop_eq_cyclic (r : List (Pt α)) (h : 3 ≤ r.length) :
    ringLoop F r = cyclicSum F (openVerts r) := by
  obtain ⟨hL, hget⟩ := openVerts_facts r (by omega)
  have hlen : 2 ≤ (openVerts r).length := by
    rcases ringL_cases r with h1 | h1 <;> omega
  obtain ⟨n, hn⟩ : ∃ n, (openVerts r).length = n + 2 := ⟨(openVerts r).length - 2, by omega⟩
  rw [ringLoop_eq_sum, hL, hn]
  exact loop_eq_cyclic F r (openVerts r) n hn (fun i hi => hget i (by omega))

theorem ptNe_eq_false {a b : Pt α} (h : ¬ ptNe a b = true) : a = b := by
  cases a; cases b
  simp [ptNe] at h
  simp [h]

theorem cyclicSum_openVerts (r : List (Pt α)) : cyclicSum F (openVerts r) = cyclicSum F r := by
  unfold openVerts
  split_ifs with hc
  · rfl
  · rcases r with _ | ⟨p, w⟩
    · rfl
    · have hne : (p :: w) ≠ [] := by simp
      have hl : (p :: w).getD ((p :: w).length - 1) ⟨0, 0⟩ = (p :: w).getLast hne := by
        rw [List.getD_eq_getElem _ _ (by simp), List.getLast_eq_getElem]
      have hp : (p :: w).getLast hne = p := by
        have := ptNe_eq_false hc
        rw [hl] at this
        simpa using this.symm
      have hr : (p :: w).dropLast ++ [p] = p :: w := by
        have := List.dropLast_append_getLast hne
        rwa [hp] at this
      cases w with
      | nil => simp [cyclicSum_eq_edgeSum, edgeSum, pathFrom, edge_self]
      | cons q w =>
        rw [List.dropLast_cons_cons] at hr ⊢
        conv_rhs => rw [← hr]
        rw [cyclicSum_eq_edgeSum, cyclicSum_eq_edgeSum, edgeSum_dup]

end loop

section ring
variable {α : Type} [Field α] [LinearOrder α] [IsStrictOrderedRing α] (F : Fn α)

theorem ringIdx_in_range' (r : List (Pt α)) (h : 3 ≤ r.length) (i : Nat) (hi : i < ringL r) :
    (ringIdx (ringL r) i).1 < r.length ∧ (ringIdx (ringL r) i).2.1 < r.length ∧
    (ringIdx (ringL r) i).2.2 < r.length := by
  have hL := ringL_cases r
  generalize ringL r = l at hL hi
  simp only [ringIdx, beq_iff_eq]
  split_ifs <;> refine ⟨?_, ?_, ?_⟩ <;> simp only <;> omega

theorem ringArea_eq_cyclic_sum' (r : List (Pt α)) (h : 3 ≤ r.length) :
    ringArea F r = -(cyclicSum F (openVerts r)) * F.R * F.R / 2 := by
  unfold ringArea
  rw [if_neg (by omega), ringLoop_eq_cyclic F r h]

theorem ringArea_eq_cyclic_sum_raw' (r : List (Pt α)) (h : 3 ≤ r.length) :
    ringArea F r = -(cyclicSum F r) * F.R * F.R / 2 := by
  rw [ringArea_eq_cyclic_sum' F r h, cyclicSum_openVerts]

theorem ringArea_eq_edge (v : List (Pt α)) :
    ringArea F v = if v.length < 3 then 0 else -(edgeSum F v) * F.R * F.R / 2 := by
  split_ifs with h
  · unfold ringArea; rw [if_pos h]
  · rw [ringArea_eq_cyclic_sum_raw' F v (by omega), cyclicSum_eq_edgeSum]

theorem ringArea_close' (v : List (Pt α)) :
    ringArea F (closeRing v) = ringArea F v := by
  rcases v with _ | ⟨p, _ | ⟨q, _ | ⟨t, w⟩⟩⟩
  · rfl
  · simp [closeRing, ringArea]
  · rw [ringArea_eq_edge, ringArea_eq_edge]
    simp only [closeRing]
    rw [edgeSum_dup]
    simp [edgeSum, pathFrom, edge_swap F p q]
  · rw [ringArea_eq_edge, ringArea_eq_edge]
    simp only [closeRing]
    rw [edgeSum_dup]
    simp only [List.length_cons, List.length_append, List.length_nil]
    rw [if_neg (by omega), if_neg (by omega)]

theorem ringArea_rotate' (a b : List (Pt α)) :
    ringArea F (b ++ a) = ringArea F (a ++ b) := by
  rw [ringArea_eq_edge, ringArea_eq_edge, edgeSum_rotate, List.length_append, List.length_append,
    Nat.add_comm]

theorem ringArea_rotate_closed' (a b : List (Pt α)) :
    ringArea F (closeRing (b ++ a)) = ringArea F (closeRing (a ++ b)) := by
  rw [ringArea_close', ringArea_close', ringArea_rotate']

theorem ringArea_reverse' (r : List (Pt α)) :
    ringArea F r.reverse = -ringArea F r := by
  rw [ringArea_eq_edge, ringArea_eq_edge, edgeSum_reverse, List.length_reverse]
  split_ifs
  · simp
  · ring

theorem area_ring_reverse' (habs : ∀ x, F.abs (-x) = F.abs x) (r : List (Pt α)) :
    area F (.ring r.reverse) = area F (.ring r) := by
  simp only [area, ringArea_reverse', habs]

theorem area_ring_rotate' (a b : List (Pt α)) :
    area F (.ring (b ++ a)) = area F (.ring (a ++ b)) := by
  simp only [area, ringArea_rotate']

theorem box_area_closed_form' (lo hi : Pt α) :
    ringArea F (toRing lo hi) =
      F.R * F.R * deg2rad F (hi.x - lo.x) * (F.sin (deg2rad F hi.y) - F.sin (deg2rad F lo.y)) := by
  rw [ringArea_eq_edge]
  simp only [toRing, List.length_cons, List.length_nil, edgeSum, pathFrom, edge, lam, sn, deg2rad,
    List.cons_append, List.nil_append]
  rw [if_neg (by omega)]
  ring

theorem area_bound' (lo hi : Pt α) :
    area F (.bound lo hi) =
      F.abs (F.R * F.R * deg2rad F (hi.x - lo.x) * (F.sin (deg2rad F hi.y) - F.sin (deg2rad F lo.y))) := by
  simp only [area, box_area_closed_form']

theorem polygon_area' (o : List (Pt α)) (hs : List (List (Pt α))) :
    polygonArea F (o :: hs) = F.abs (ringArea F o) - (hs.map fun h => F.abs (ringArea F h)).sum := by
  simp only [polygonArea]
  exact foldl_sub_eq _ _ _

theorem multi_area_sum' (mp : List (List (List (Pt α)))) :
    multiPolygonArea F mp = (mp.map (polygonArea F)).sum := by
  unfold multiPolygonArea
  rw [foldl_add_eq, zero_add]

theorem area_go_eq (gs : List (Geom α)) (acc : α) :
    area.go F gs acc = acc + (gs.map (area F)).sum := by
  induction gs generalizing acc with
  | nil => simp [area.go]
  | cons g gs ih => simp only [area.go, ih, List.map_cons, List.sum_cons]; ring

theorem collection_area_sum' (gs : List (Geom α)) :
    area F (.collection gs) = (gs.map (area F)).sum := by
  simp only [area, area_go_eq, zero_add]

end ring

section length
variable {α : Type} [Field α] [LinearOrder α] [IsStrictOrderedRing α]

theorem lineLength_go_eq (df : Pt α → Pt α → α) (p : Pt α) (rest : List (Pt α)) (acc : α) :
    lineLength.go df p rest acc =
      acc + (((p :: rest).zip rest).map fun pq => df pq.2 pq.1).sum := by
  induction rest generalizing p acc with
  | nil => simp [lineLength.go]
  | cons q rest ih =>
    simp only [lineLength.go, ih, List.zip_cons_cons, List.map_cons, List.sum_cons]; ring

theorem polygonLength_eq (df : Pt α → Pt α → α) (p : List (List (Pt α))) :
    polygonLength df p = (p.map (lineLength df)).sum := by
  unfold polygonLength; rw [foldl_add_eq, zero_add]

theorem length_go_eq (df : Pt α → Pt α → α) (gs : List (Geom α)) (acc : α) :
    length.go df gs acc = acc + (gs.map (length df)).sum := by
  induction gs generalizing acc with
  | nil => simp [length.go]
  | cons g gs ih => simp only [length.go, ih, List.map_cons, List.sum_cons]; ring

theorem length_sum' (df : Pt α → Pt α → α) (ls : List (Pt α)) :
    lineLength df ls = ((ls.zip ls.tail).map fun pq => df pq.2 pq.1).sum := by
  cases ls with
  | nil => simp [lineLength]
  | cons p rest => simp only [lineLength, lineLength_go_eq, zero_add, List.tail_cons]

theorem length_multiLineString' (df : Pt α → Pt α → α) (ls : List (List (Pt α))) :
    length df (.multiLineString ls) = (ls.map (lineLength df)).sum := by
  simp only [length]; rw [foldl_add_eq, zero_add]

theorem length_polygon' (df : Pt α → Pt α → α) (p : List (List (Pt α))) :
    length df (.polygon p) = (p.map (lineLength df)).sum := by
  simp only [length, polygonLength_eq]

theorem length_multiPolygon' (df : Pt α → Pt α → α) (mp : List (List (List (Pt α)))) :
    length df (.multiPolygon mp) = (mp.map fun p => (p.map (lineLength df)).sum).sum := by
  simp only [length]; rw [foldl_add_eq, zero_add]
  congr 2; funext p; exact polygonLength_eq df p

theorem length_collection' (df : Pt α → Pt α → α) (gs : List (Geom α)) :
    length df (.collection gs) = (gs.map (length df)).sum := by
  simp only [length, length_go_eq, zero_add]

end length

section distance
variable {α : Type} [Field α] [LinearOrder α] [IsStrictOrderedRing α] (F : Fn α)

theorem haversine_symm' (hsin : ∀ x, F.sin (-x) = -F.sin x) (p q : Pt α) :
    distanceHaversine F p q = distanceHaversine F q p := by
  have h : havA F p q = havA F q p := by
    unfold havA
    have e1 : deg2rad F (p.y - q.y) / 2 = -(deg2rad F (q.y - p.y) / 2) := by unfold deg2rad; ring
    have e2 : deg2rad F (p.x - q.x) / 2 = -(deg2rad F (q.x - p.x) / 2) := by unfold deg2rad; ring
    simp only [e1, e2, hsin]; ring
  unfold distanceHaversine
  simp only [h]

theorem distance_symm' (habs : ∀ x, F.abs (-x) = F.abs x) (p q : Pt α) :
    distance F p q = distance F q p := by
  unfold distance
  have e1 : deg2rad F (p.y - q.y) = -(deg2rad F (q.y - p.y)) := by unfold deg2rad; ring
  have e2 : deg2rad F (p.x - q.x) = -(deg2rad F (q.x - p.x)) := by unfold deg2rad; ring
  have e3 : p.y + q.y = q.y + p.y := add_comm _ _
  simp only [e1, e2, e3, habs, neg_mul_neg]

theorem haversine_le_half_circumference' (hR : 0 ≤ F.R) (hsqrt : ∀ x, 0 ≤ F.sqrt x)
    (hatan : ∀ y x, 0 ≤ y → 0 ≤ x → F.atan2 y x ≤ F.pi / 2) (p q : Pt α) :
    distanceHaversine F p q ≤ F.pi * F.R := by
  unfold distanceHaversine
  have h := hatan (F.sqrt (F.min (havA F p q) 1)) (F.sqrt (1 - F.min (havA F p q) 1)) (hsqrt _) (hsqrt _)
  have h2 := mul_le_mul_of_nonneg_left h hR
  simp only
  linarith

theorem haversine_nonneg' (hR : 0 ≤ F.R) (hsqrt : ∀ x, 0 ≤ F.sqrt x)
    (hatan : ∀ y x, 0 ≤ y → 0 ≤ x → 0 ≤ F.atan2 y x) (p q : Pt α) :
    0 ≤ distanceHaversine F p q := by
  unfold distanceHaversine
  have h := hatan (F.sqrt (F.min (havA F p q) 1)) (F.sqrt (1 - F.min (havA F p q) 1)) (hsqrt _) (hsqrt _)
  have h2 := mul_nonneg hR h
  simp only
  linarith

theorem haversine_sqrt_arg_nonneg' (hmin : ∀ a b, F.min a b ≤ b) (p q : Pt α) :
    0 ≤ 1 - F.min (havA F p q) 1 := sub_nonneg.mpr (hmin _ _)

/-- the haversine `a` term is non-negative when both cosines are (latitudes within ±90°) -/
theorem havA_nonneg (p q : Pt α) (hp : 0 ≤ F.cos (deg2rad F p.y)) (hq : 0 ≤ F.cos (deg2rad F q.y)) :
    0 ≤ havA F p q := by
  unfold havA
  have h1 := mul_self_nonneg (F.sin (deg2rad F (p.y - q.y) / 2))
  have h2 := mul_self_nonneg (F.sin (deg2rad F (p.x - q.x) / 2))
  have h3 := mul_nonneg (mul_nonneg hq hp) h2
  simp only
  nlinarith [h1, h3]

theorem haversine_sqrt_args_nonneg' (hmin : ∀ a b, F.min a b ≤ b)
    (hmin0 : ∀ a b, 0 ≤ a → 0 ≤ b → 0 ≤ F.min a b) (p q : Pt α)
    (hp : 0 ≤ F.cos (deg2rad F p.y)) (hq : 0 ≤ F.cos (deg2rad F q.y)) :
    0 ≤ F.min (havA F p q) 1 ∧ 0 ≤ 1 - F.min (havA F p q) 1 :=
  ⟨hmin0 _ _ (havA_nonneg F p q hp hq) zero_le_one, sub_nonneg.mpr (hmin _ _)⟩

theorem distance_fold_le_pi' (x : α) (h2 : F.abs x ≤ 2 * F.pi) (hpi : 0 ≤ F.pi) :
    (if F.pi < F.abs x then 2 * F.pi - F.abs x else F.abs x) ≤ F.pi ∧
    (0 ≤ F.abs x → 0 ≤ (if F.pi < F.abs x then 2 * F.pi - F.abs x else F.abs x)) := by
  have _ := hpi
  constructor
  · split_ifs with h
    · linarith
    · exact not_lt.mp h
  · intro h0
    split_ifs with h
    · linarith
    · exact h0

/-- The antimeridian fold of `geo.Distance`: the absolute longitude difference in radians,
    replaced by `2π − ·` when it exceeds `π` (distance.go:14-17). -/
def lonFold (F : Fn α) (p1 p2 : Pt α) : α :=
  let dLon := F.abs (deg2rad F (p1.x - p2.x))
  if F.pi < dLon then 2 * F.pi - dLon else dLon

/-- `geo.Distance` IS `√(Δφ² + (fold·cos φ_m)²)·R` with `fold = lonFold` (definitional). -/
theorem distance_eq_lonFold' (p q : Pt α) :
    distance F p q =
      F.sqrt (deg2rad F (p.y - q.y) * deg2rad F (p.y - q.y) +
        (lonFold F p q * F.cos (deg2rad F ((p.y + q.y) / 2))) *
        (lonFold F p q * F.cos (deg2rad F ((p.y + q.y) / 2)))) * F.R := rfl

/-- For longitudes within ±180° the folded difference used by `distance` lies in `[0, π]`. -/
theorem lonFold_range' (habs0 : ∀ x, 0 ≤ F.abs x) (habs : ∀ x, F.abs x = x ∨ F.abs x = -x)
    (hpi : 0 ≤ F.pi) (p q : Pt α) (hp1 : -180 ≤ p.x) (hp2 : p.x ≤ 180) (hq1 : -180 ≤ q.x) (hq2 : q.x ≤ 180) :
    0 ≤ lonFold F p q ∧ lonFold F p q ≤ F.pi := by
  have hx1 : deg2rad F (p.x - q.x) ≤ 2 * F.pi := by
    unfold deg2rad
    rw [div_le_iff₀ (by norm_num : (0 : α) < 180)]
    nlinarith
  have hx2 : -(2 * F.pi) ≤ deg2rad F (p.x - q.x) := by
    unfold deg2rad
    rw [le_div_iff₀ (by norm_num : (0 : α) < 180)]
    nlinarith
  have h2 : F.abs (deg2rad F (p.x - q.x)) ≤ 2 * F.pi := by
    rcases habs (deg2rad F (p.x - q.x)) with h | h <;> rw [h] <;> linarith
  have h := distance_fold_le_pi' F (deg2rad F (p.x - q.x)) h2 hpi
  exact ⟨h.2 (habs0 _), h.1⟩

end distance

/-- A concrete `Fn ℚ` for the non-vacuity examples. -/
def exampleFn : Fn Rat where
  sin := fun x => x
  cos := fun _ => 1
  asin := fun x => x
  atan2 := fun _ _ => 1
  sqrt := fun _ => 0
  abs := fun x => if x < 0 then -x else x
  max := fun a b => if a < b then b else a
  min := fun a b => if a < b then a else b
  pi := 3
  R := 2

theorem exampleFn_laws : (∀ x, exampleFn.sin (-x) = -exampleFn.sin x) ∧ (∀ x, exampleFn.abs (-x) = exampleFn.abs x) ∧
    (0 : Rat) ≤ exampleFn.R ∧ (∀ x, 0 ≤ exampleFn.sqrt x) ∧
    (∀ y x : Rat, 0 ≤ y → 0 ≤ x → 0 ≤ exampleFn.atan2 y x ∧ exampleFn.atan2 y x ≤ exampleFn.pi / 2) := by
  refine ⟨fun x => rfl, ?_, by decide +kernel, fun x => le_refl _,
    fun y x _ _ => ⟨by show (0 : Rat) ≤ 1; decide +kernel, by show (1 : Rat) ≤ 3 / 2; decide +kernel⟩⟩
  intro x
  simp only [exampleFn]
  split_ifs <;> linarith

/-- The remaining laws used as hypotheses: `min a b ≤ b`, `min` of non-negatives is non-negative,
    `abs ≥ 0`, `abs x ∈ {x, −x}`, `π ≥ 0`, `cos ≥ 0`. -/
theorem exampleFn_laws2 : (∀ a b : Rat, exampleFn.min a b ≤ b) ∧
    (∀ a b : Rat, 0 ≤ a → 0 ≤ b → 0 ≤ exampleFn.min a b) ∧
    (∀ x : Rat, 0 ≤ exampleFn.abs x) ∧ (∀ x : Rat, exampleFn.abs x = x ∨ exampleFn.abs x = -x) ∧
    (0 : Rat) ≤ exampleFn.pi ∧ (∀ x : Rat, 0 ≤ exampleFn.cos x) := by
  refine ⟨?_, ?_, ?_, ?_, by decide +kernel, fun _ => by show (0 : Rat) ≤ 1; decide +kernel⟩
  · intro a b; simp only [exampleFn]; split_ifs with h
    · exact le_of_lt h
    · exact le_refl _
  · intro a b ha hb; simp only [exampleFn]; split_ifs <;> assumption
  · intro x; simp only [exampleFn]; split_ifs with h
    · linarith
    · exact not_lt.mp h
  · intro x; simp only [exampleFn]; split_ifs
    · exact Or.inr rfl
    · exact Or.inl rfl

end Orb.Geo
