/-
  C16 (region), clipping layer: what the open-bound line clipper and `clipRings` do to the EDGES of a
  closed ring.

  * `seg_decomp` / `segs_decomp` / `line_decomp` — every input segment is cut by `Clip.line box true`
    into its accepted sub-segment (an edge of a piece) and at most two discarded end parts, each of
    which AVOIDS THE OPEN BOX (`OutE`).  Stated for the three functionals the region proof needs:
    crossing parity `crE`, boundary flag `onE`, coboundary `dE h` (every `h`).
  * `clipRings_decomp` — the same for `clipRings box [r]` of a ring closed in Go's sense
    (`ringClosed r`): the re-joining of the last piece with the first and the final partition do not
    change the edge multiset, zero-length touches of the boundary are discarded edges too; and either
    every piece has both ends on the boundary and there is no closed interior ring, or the ring is
    wholly inside (no open piece).
-/
import OrbProofs.C16RegionGeom
import OrbProofs.C16Lemmas

namespace Orb.Clip.C16R
open Orb Orb.EvenOdd Orb.Contains Orb.Clip Orb.Clip.C08 Orb.Clip.C08R
open Orb.Core hiding chain

set_option linter.unusedSectionVars false
set_option linter.unusedSimpArgs false
set_option linter.unusedVariables false

variable {α : Type} [Field α] [LinearOrder α] [IsStrictOrderedRing α]

/-! ### one segment -/

/-- the three decomposition identities for an edge list `S` cut into kept edges `K` and discarded `O` -/
structure Decomp (S K O : List (Pt α × Pt α)) : Prop where
  cr : ∀ q, crE S q = (crE K q != crE O q)
  on : ∀ q, onE S q = (onE K q || onE O q)
  d : ∀ h : Pt α → Bool, dE h S = (dE h K != dE h O)
  w : ∀ q, wE S q = wE K q + wE O q
  dz : ∀ P : Pt α → ℤ, dZ P S = dZ P K + dZ P O

theorem Decomp.nil : Decomp ([] : List (Pt α × Pt α)) [] [] :=
  ⟨fun _ => rfl, fun _ => rfl, fun _ => rfl, fun _ => rfl, fun _ => rfl⟩

theorem Decomp.append {S K O S' K' O' : List (Pt α × Pt α)} (h : Decomp S K O) (h' : Decomp S' K' O') :
    Decomp (S ++ S') (K ++ K') (O ++ O') := by
  refine ⟨fun q => ?_, fun q => ?_, fun g => ?_, fun q => ?_, fun P => ?_⟩
  · rw [crE_append, crE_append, crE_append, h.cr, h'.cr]
    cases crE K q <;> cases crE O q <;> cases crE K' q <;> cases crE O' q <;> rfl
  · rw [onE_append, onE_append, onE_append, h.on, h'.on]
    cases onE K q <;> cases onE O q <;> cases onE K' q <;> cases onE O' q <;> rfl
  · rw [dE_append, dE_append, dE_append, h.d, h'.d]
    cases dE g K <;> cases dE g O <;> cases dE g K' <;> cases dE g O' <;> rfl
  · rw [wE_append, wE_append, wE_append, h.w, h'.w]; ring
  · rw [dZ_append, dZ_append, dZ_append, h.dz, h'.dz]; ring

theorem Decomp.of_perm {S K O K' O' : List (Pt α × Pt α)} (h : Decomp S K O) (hk : K.Perm K') (ho : O.Perm O') :
    Decomp S K' O' :=
  ⟨fun q => by rw [h.cr, crE_perm hk, crE_perm ho], fun q => by rw [h.on, onE_perm hk, onE_perm ho],
    fun g => by rw [h.d, dE_perm hk, dE_perm ho], fun q => by rw [h.w, wE_perm hk, wE_perm ho],
    fun P => by rw [h.dz, dZ_perm hk, dZ_perm ho]⟩

theorem crE_single (s e q : Pt α) : crE [(s, e)] q = crossesAbove s e q := by
  rw [crE_cons, crE_nil]; cases crossesAbove s e q <;> rfl

theorem onE_single (s e q : Pt α) : onE [(s, e)] q = onSeg s e q := by
  rw [onE_cons, onE_nil, Bool.or_false]

theorem dE_single (h : Pt α → Bool) (s e : Pt α) : dE h [(s, e)] = (h s != h e) := by
  rw [dE_cons, dE_nil]; cases (h s != h e) <;> rfl

theorem wE_single (s e q : Pt α) : wE [(s, e)] q = sgnAbove s e q := by
  rw [wE_cons, wE_nil, add_zero]

theorem dZ_single (P : Pt α → ℤ) (s e : Pt α) : dZ P [(s, e)] = P e - P s := by
  rw [dZ_cons, dZ_nil, add_zero]

/-- cutting an edge at a point of the edge -/
theorem decomp_cut {a i b : Pt α} (h : OnSeg a b i) : Decomp [(a, b)] [(i, b)] [(a, i)] := by
  refine ⟨fun q => ?_, fun q => ?_, fun g => ?_, fun q => ?_, fun P => ?_⟩
  · rw [crE_single, crE_single, crE_single, crossesAbove_split h q]
    cases crossesAbove a i q <;> cases crossesAbove i b q <;> rfl
  · rw [onE_single, onE_single, onE_single, onSeg_split h q, Bool.or_comm]
  · rw [dE_single, dE_single, dE_single]
    cases g a <;> cases g i <;> cases g b <;> rfl
  · rw [wE_single, wE_single, wE_single, sgn_split h q]; ring
  · rw [dZ_single, dZ_single, dZ_single]; ring

theorem decomp_cut' {a i b : Pt α} (h : OnSeg a b i) : Decomp [(a, b)] [(a, i)] [(i, b)] := by
  refine ⟨fun q => ?_, fun q => ?_, fun g => ?_, fun q => ?_, fun P => ?_⟩
  · rw [crE_single, crE_single, crE_single, crossesAbove_split h q]
  · rw [onE_single, onE_single, onE_single, onSeg_split h q]
  · rw [dE_single, dE_single, dE_single]
    cases g a <;> cases g i <;> cases g b <;> rfl
  · rw [wE_single, wE_single, wE_single, sgn_split h q]
  · rw [dZ_single, dZ_single, dZ_single]; ring

/-- a degenerate discarded edge can be dropped when its point is the start of a kept edge -/
theorem decomp_drop_left {S K O : List (Pt α × Pt α)} {a b : Pt α} (h : Decomp S ((a, b) :: K) ((a, a) :: O)) :
    Decomp S ((a, b) :: K) O := by
  refine ⟨fun q => ?_, fun q => ?_, fun g => ?_, fun q => ?_, fun P => ?_⟩
  · rw [h.cr, crE_cons (a) (a), crossesAbove_self]
    cases crE O q <;> rfl
  · rw [h.on, onE_cons a a, onE_cons a b]
    cases hs : onSeg a a q with
    | false => rfl
    | true =>
      have := onSeg_self a q hs
      subst this
      rw [onSeg_of_OnSeg (onSeg_left q b)]; simp
  · rw [h.d, dE_cons g a a]
    cases g a <;> cases dE g O <;> rfl
  · rw [h.w, wE_cons a a, sgn_self, zero_add]
  · rw [h.dz, dZ_cons P a a, sub_self, zero_add]

theorem decomp_drop_right {S K O : List (Pt α × Pt α)} {a b : Pt α} (h : Decomp S ((a, b) :: K) ((b, b) :: O)) :
    Decomp S ((a, b) :: K) O := by
  refine ⟨fun q => ?_, fun q => ?_, fun g => ?_, fun q => ?_, fun P => ?_⟩
  · rw [h.cr, crE_cons (b) (b), crossesAbove_self]
    cases crE O q <;> rfl
  · rw [h.on, onE_cons b b, onE_cons a b]
    cases hs : onSeg b b q with
    | false => rfl
    | true =>
      have := onSeg_self b q hs
      subst this
      rw [onSeg_of_OnSeg (onSeg_right a q)]; simp
  · rw [h.d, dE_cons g b b]
    cases g b <;> cases dE g O <;> rfl
  · rw [h.w, wE_cons b b, sgn_self, zero_add]
  · rw [h.dz, dZ_cons P b b, sub_self, zero_add]

theorem reg_false_iff {box : Bound α} {q : Pt α} : Reg False box q ↔ InOpenBox box q :=
  ⟨fun h => h.elim id (fun h => h.1.elim), Or.inl⟩

/-- ONE SEGMENT: the open-bound clipper keeps the sub-segment `clipSeg box true (a, b)` (if any) and
    discards at most two end parts, each avoiding the open box. -/
theorem seg_decomp {box : Bound α} (hb : BoxOK box) (a b : Pt α) :
    ∃ O : List (Pt α × Pt α), (∀ se ∈ O, OutE box se.1 se.2) ∧
      Decomp [(a, b)] (clipSeg box true (a, b)).toList O := by
  have hWA := W_code hb true a
  have hWB := W_code hb true b
  have key := segLoop_spec hb False 8 a b _ _ hWA hWB (fun h => h.elim) (mu_lt_eight hWA.1 hWB.1)
  have ends := Orb.SmartClip.LE.segLoop_ends box 8 a b (code box true a) (code box true b)
  rcases segLoop_cases hb true a b with ⟨hr, hne⟩ | ⟨s, e, h0, hse, h1, hr, hs0, he1⟩
  · -- rejected: the whole segment avoids the open box
    rw [hr] at key
    refine ⟨[(a, b)], ?_, ?_⟩
    · intro se hse
      rw [List.mem_singleton] at hse; subst hse
      intro t t0 t1 hin
      exact key.2 _ (onSeg_lerp a b t0 t1) (Or.inl hin)
    · rw [clipSeg_of_reject hb hr]
      exact ⟨fun q => by simp [crE_nil], fun q => by simp [onE_nil], fun g => by simp [dE_nil],
        fun q => by simp [wE_nil], fun P => by simp [dZ_nil]⟩
  · -- accepted: `[s, e]`
    rw [hr] at key
    obtain ⟨_, hia, hib, hoa, hob, _, _, hcomp⟩ := key
    obtain ⟨_, eA, _, eB⟩ := ends _ _ _ hr
    rw [clipSeg_of_accept hb hr]
    have hcompl : ∀ t, 0 ≤ t → t ≤ 1 → InOpenBox box (lerp a b t) → a ≠ b → s ≤ t ∧ t ≤ e := by
      intro t t0 t1 hin hab
      obtain ⟨τ, τ0, τ1, hq⟩ := hcomp _ (onSeg_lerp a b t0 t1) (Or.inl hin)
      rw [lerp_lerp] at hq
      have := lerp_inj hab hq
      subst this
      constructor
      · nlinarith [mul_nonneg τ0 (sub_nonneg.2 hse)]
      · nlinarith [mul_nonneg (sub_nonneg.2 τ1) (sub_nonneg.2 hse)]
    have notOpen_of_onEdge : ∀ p : Pt α, Orb.SmartClip.LE.OnEdge box p → ¬ InOpenBox box p := by
      intro p hp ⟨h1, h2, h3, h4⟩
      rcases hp with h | h | h | h
      · rw [h] at h1; exact lt_irrefl _ h1
      · rw [h] at h2; exact lt_irrefl _ h2
      · rw [h] at h3; exact lt_irrefl _ h3
      · rw [h] at h4; exact lt_irrefl _ h4
    -- the discarded start part
    have hOa : a ≠ lerp a b s → OutE box a (lerp a b s) := by
      intro hne
      have hcode : code box true a ≠ 0 := by
        intro hc; apply hne; rw [hs0 hc, lerp_zero]
      have hab : a ≠ b := by
        rintro rfl; apply hne; rw [lerp_self]
      have hedge := eA hcode
      intro t t0 t1 hin
      have e1 : lerp a (lerp a b s) t = lerp a b (t * s) := by
        have := lerp_lerp a b 0 s t
        rw [lerp_zero] at this
        rw [this]; congr 1; ring
      rw [e1] at hin
      have hts : t * s ≤ s := by nlinarith
      obtain ⟨k1, _⟩ := hcompl (t * s) (mul_nonneg t0 h0) (le_trans hts (le_trans hse h1)) hin hab
      have : t * s = s := le_antisymm hts k1
      rw [this] at hin
      exact notOpen_of_onEdge _ hedge hin
    -- the discarded end part
    have hOb : lerp a b e ≠ b → OutE box (lerp a b e) b := by
      intro hne
      have hcode : code box true b ≠ 0 := by
        intro hc; apply hne; rw [he1 hc, lerp_one]
      have hab : a ≠ b := by
        rintro rfl; apply hne; rw [lerp_self]
      have hedge := eB hcode
      intro t t0 t1 hin
      have e1 : lerp (lerp a b e) b t = lerp a b (e + t * (1 - e)) := by
        have := lerp_lerp a b e 1 t
        rw [lerp_one] at this
        exact this
      rw [e1] at hin
      have hte : e ≤ e + t * (1 - e) := by nlinarith [mul_nonneg t0 (sub_nonneg.2 h1)]
      have hte1 : e + t * (1 - e) ≤ 1 := by nlinarith [mul_nonneg (sub_nonneg.2 t1) (sub_nonneg.2 h1)]
      obtain ⟨_, k2⟩ := hcompl _ (le_trans (le_trans h0 hse) hte) hte1 hin hab
      have : e + t * (1 - e) = e := le_antisymm k2 hte
      rw [this] at hin
      exact notOpen_of_onEdge _ hedge hin
    -- the cuts
    have hseg1 : OnSeg a b (lerp a b s) := onSeg_lerp a b h0 (le_trans hse h1)
    have hseg2 : OnSeg (lerp a b s) b (lerp a b e) := by
      have := onSeg_between a b (s := s) (e := 1) (t := e) hse h1
      rwa [lerp_one] at this
    -- [(a,b)] = kept [(a',b)] + discarded [(a,a')];  [(a',b)] = kept [(a',b')] + discarded [(b',b)]
    have D1 := decomp_cut hseg1
    have D2 := decomp_cut' hseg2
    have D : Decomp [(a, b)] [(lerp a b s, lerp a b e)] [(a, lerp a b s), (lerp a b e, b)] := by
      refine ⟨fun q => ?_, fun q => ?_, fun g => ?_, fun q => ?_, fun P => ?_⟩
      · rw [D1.cr, D2.cr]
        simp only [crE_cons, crE_nil]
        cases crossesAbove (lerp a b s) (lerp a b e) q <;> cases crossesAbove (lerp a b e) b q <;>
          cases crossesAbove a (lerp a b s) q <;> rfl
      · rw [D1.on, D2.on]
        simp only [onE_cons, onE_nil]
        cases onSeg (lerp a b s) (lerp a b e) q <;> cases onSeg (lerp a b e) b q <;>
          cases onSeg a (lerp a b s) q <;> rfl
      · rw [D1.d, D2.d]
        simp only [dE_cons, dE_nil]
        cases g a <;> cases g b <;> cases g (lerp a b s) <;> cases g (lerp a b e) <;> rfl
      · rw [D1.w, D2.w]
        simp only [wE_cons, wE_nil]; ring
      · rw [D1.dz, D2.dz]
        simp only [dZ_cons, dZ_nil]; ring
    show ∃ O : List (Pt α × Pt α), (∀ se ∈ O, OutE box se.1 se.2) ∧
      Decomp [(a, b)] [(lerp a b s, lerp a b e)] O
    by_cases ca : a = lerp a b s <;> by_cases cb : lerp a b e = b
    · refine ⟨[], by simp, ?_⟩
      have D' := D
      rw [← ca, cb] at D' ⊢
      have := decomp_drop_left (K := []) (O := [(b, b)]) D'
      exact decomp_drop_right (K := []) (O := []) this
    · refine ⟨[(lerp a b e, b)], ?_, ?_⟩
      · intro se hse; rw [List.mem_singleton] at hse; subst hse; exact hOb cb
      · have D' := D
        rw [← ca] at D' ⊢
        exact decomp_drop_left (K := []) D'
    · refine ⟨[(a, lerp a b s)], ?_, ?_⟩
      · intro se hse; rw [List.mem_singleton] at hse; subst hse; exact hOa ca
      · have D' := D
        rw [cb] at D' ⊢
        have D'' : Decomp [(a, b)] [(lerp a b s, b)] [(b, b), (a, lerp a b s)] :=
          D'.of_perm (List.Perm.refl _) (List.Perm.swap _ _ _)
        exact decomp_drop_right (K := []) D''
    · refine ⟨[(a, lerp a b s), (lerp a b e, b)], ?_, D⟩
      intro se hse
      simp only [List.mem_cons, List.not_mem_nil, or_false] at hse
      rcases hse with rfl | rfl
      · exact hOa ca
      · exact hOb cb

/-! ### a list of segments, a polyline -/

theorem segs_decomp {box : Bound α} (hb : BoxOK box) (S : List (Pt α × Pt α)) :
    ∃ O : List (Pt α × Pt α), (∀ se ∈ O, OutE box se.1 se.2) ∧
      Decomp S (S.filterMap (clipSeg box true)) O := by
  induction S with
  | nil => exact ⟨[], by simp, Decomp.nil⟩
  | cons x S ih =>
    obtain ⟨a, b⟩ := x
    obtain ⟨O1, h1, D1⟩ := seg_decomp hb a b
    obtain ⟨O2, h2, D2⟩ := ih
    refine ⟨O1 ++ O2, ?_, ?_⟩
    · intro se hse
      rcases List.mem_append.1 hse with h | h
      · exact h1 se h
      · exact h2 se h
    · have := D1.append D2
      have e : ((a, b) :: S).filterMap (clipSeg box true) =
          (clipSeg box true (a, b)).toList ++ S.filterMap (clipSeg box true) := by
        rw [List.filterMap_cons]
        cases clipSeg box true (a, b) <;> rfl
      rw [e]
      exact this

/-- THE LINE CLIPPER on a polyline: the edges of the input are the edges of the pieces plus discarded
    edges avoiding the open box. -/
theorem line_decomp {box : Bound α} (hb : BoxOK box) (inp : List (Pt α)) (out : List (List (Pt α)))
    (h : line box true inp = some out) :
    ∃ O : List (Pt α × Pt α), (∀ se ∈ O, OutE box se.1 se.2) ∧ Decomp (chain inp) (out.flatMap chain) O := by
  obtain ⟨O, hO, D⟩ := segs_decomp hb (segsOf inp)
  refine ⟨O, hO, ?_⟩
  have e1 := clip_segments_gen box hb true inp out h
  have e2 : out.flatMap segsOf = out.flatMap chain := by
    apply List.flatMap_congr
    intro x _
    exact segsOf_eq_chain x
  rw [← e1, e2, segsOf_eq_chain] at D
  exact D

end Orb.Clip.C16R

/-! ### `clipRings` of one closed ring -/

namespace Orb.SmartClip
open Orb Orb.Core
open Orb.Clip.C16R (OutE Decomp SameSide)

set_option linter.unusedSectionVars false
set_option linter.unusedSimpArgs false
set_option linter.unusedVariables false

variable {α : Type} [Field α] [LinearOrder α] [IsStrictOrderedRing α]

theorem chain_join (pl tl0 : List (Pt α)) (f : Pt α) (hpl : pl.getLast? = some f) :
    Contains.chain (pl ++ tl0) = Contains.chain pl ++ Contains.chain (f :: tl0) := by
  rcases eq_nil_or_snocD pl with rfl | ⟨m, x, rfl⟩
  · simp at hpl
  · rw [List.getLast?_concat] at hpl
    cases hpl
    rw [List.append_assoc, List.singleton_append, Contains.chain_append]

/-- the shape of what `clipOne` returns for an explicitly closed path: the pieces of the line clipper,
    the last one re-joined with the first when the path starts strictly inside the box -/
theorem clipTail_shape (box : Bound α) (hl : LineSpec box) (r' : List (Pt α)) (f : Pt α)
    (hf : r'.head? = some f) (hll : r'.getLast? = some f) (h2 : 2 ≤ r'.length) :
    ∃ out0 out1, Clip.line box true r' = some out0 ∧ clipTailD box r' = .ok out1 ∧
      (out1.flatMap Contains.chain).Perm (out0.flatMap Contains.chain) ∧
      ((∀ ls ∈ out1, PieceOK box ls) ∨ (∃ p0, out1 = [p0] ∧ InsideRing box p0 ∧ 2 ≤ p0.length)) := by
  obtain ⟨out, hline, hlen, hbox, hhead, hlast, hfirst, hend⟩ := hl r'
  unfold clipTailD
  rw [hline]
  cases out with
  | nil => exact ⟨[], [], rfl, rfl, List.Perm.refl _, Or.inl (by simp)⟩
  | cons p0 rest =>
  simp only [hf, hll]
  rw [if_pos ((ptEq_iffD f f).2 rfl)]
  by_cases hfo : InOpenBox box f
  · obtain ⟨pc, hpc, hp0⟩ := hfirst h2 f hf hfo
    simp only [List.getElem?_cons_zero, Option.some.injEq] at hpc
    subst hpc
    obtain ⟨pl, hpl1, hpl2⟩ := hend h2 f hll hfo
    rcases eq_nil_or_snocD rest with rfl | ⟨mid, pl', rfl⟩
    · simp only [List.getLast?_singleton, Option.some.injEq] at hpl1
      subst hpl1
      refine ⟨[p0], [p0], rfl, joinOuter_single box p0 f hpl2 _, List.Perm.refl _,
        Or.inr ⟨p0, rfl, ?_, hlen p0 List.mem_cons_self⟩⟩
      refine ⟨⟨?_, by rw [hp0, hpl2]⟩, ?_⟩
      · intro h; rw [h] at hp0; cases hp0
      · intro p hp; rw [hp0] at hp; cases hp; exact hfo
    · have : pl = pl' := by
        rw [← List.cons_append, List.getLast?_concat] at hpl1
        exact (Option.some.inj hpl1).symm
      subst this
      obtain ⟨tl0, rfl⟩ : ∃ tl0, p0 = f :: tl0 := by
        cases p0 with
        | nil => cases hp0
        | cons a t => simp only [List.head?_cons, Option.some.injEq] at hp0; exact ⟨t, by rw [hp0]⟩
      have hlenout : ((f :: tl0) :: (mid ++ [pl])).length = mid.length + 2 := by simp
      have hends : ∀ k ls, k < mid.length + 1 → ((f :: tl0) :: (mid ++ [pl]))[k]? = some ls →
          ∃ e, ls.getLast? = some e ∧ OnBoundary box e := by
        intro k ls hk hls
        have h2l := hlen ls (List.mem_of_getElem? hls)
        have hne : ls ≠ [] := by intro h; rw [h] at h2l; simp at h2l
        refine ⟨ls.getLast hne, List.getLast?_eq_some_getLast hne, ?_⟩
        rcases hlast k ls hls _ (List.getLast?_eq_some_getLast hne) with h | h
        · exact h
        · rw [hlenout] at h; omega
      have hheads : ∀ k ls, ((f :: tl0) :: (mid ++ [pl]))[k + 1]? = some ls →
          ∃ h tl, ls = h :: tl ∧ OnBoundary box h := by
        intro k ls hls
        have h2l := hlen ls (List.mem_of_getElem? hls)
        cases ls with
        | nil => simp at h2l
        | cons h tl =>
          refine ⟨h, tl, rfl, ?_⟩
          rcases hhead (k + 1) _ hls h rfl with h' | h'
          · exact h'
          · omega
      have hmidk : ∀ m ∈ mid, ∃ k, k < mid.length ∧ ((f :: tl0) :: (mid ++ [pl]))[k + 1]? = some m := by
        intro m hm
        obtain ⟨k, hk, rfl⟩ := List.getElem_of_mem hm
        exact ⟨k, hk, by rw [List.getElem?_cons_succ, List.getElem?_append_left hk, List.getElem?_eq_getElem hk]⟩
      have hplk : ((f :: tl0) :: (mid ++ [pl]))[mid.length + 1]? = some pl := by simp
      have hjoin := joinOuter_join box f hfo tl0 mid pl hpl2
        (by
          obtain ⟨e, he1, he2⟩ := hends 0 (f :: tl0) (by omega) rfl
          exact ⟨e, he1, onBoundary_of_onD box e he2⟩)
        (by
          intro m hm
          obtain ⟨k, hk, hmk⟩ := hmidk m hm
          obtain ⟨e, he1, he2⟩ := hends (k + 1) m (by omega) hmk
          obtain ⟨h, tl, hm1, hm2⟩ := hheads k m hmk
          refine ⟨⟨e, he1, onBoundary_of_onD box e he2⟩, h, tl, hm1, ?_⟩
          rintro rfl
          exact not_open_of_onD box _ hm2 hfo)
        (2 * ((f :: tl0) :: (mid ++ [pl])).length + 2) (by rw [hlenout]; omega)
      refine ⟨_, _, rfl, hjoin, ?_, Or.inl ?_⟩
      · -- the edges are the same
        simp only [List.flatMap_cons, List.flatMap_append, List.flatMap_nil, List.append_nil]
        rw [chain_join pl tl0 f hpl2]
        -- chain pl ++ chain (f :: tl0) ++ mid.. ~ chain (f :: tl0) ++ (mid.. ++ chain pl)
        have e1 : (Contains.chain pl ++ Contains.chain (f :: tl0) ++ mid.flatMap Contains.chain).Perm
            (Contains.chain pl ++ (Contains.chain (f :: tl0) ++ mid.flatMap Contains.chain)) := by
          rw [List.append_assoc]
        refine e1.trans ?_
        refine List.perm_append_comm.trans ?_
        rw [List.append_assoc]
      · intro ls hls
        rcases List.mem_cons.1 hls with rfl | hls
        · -- the joined piece
          obtain ⟨h, tl, hpl3, hpl4⟩ := hheads mid.length pl hplk
          obtain ⟨e, he1, he2⟩ := hends 0 (f :: tl0) (by omega) rfl
          have h2l := hlen (f :: tl0) (List.mem_cons_self)
          have htl0 : tl0 ≠ [] := by intro h; rw [h] at h2l; simp at h2l
          refine ⟨?_, ?_, ?_⟩
          · subst hpl3; simp only [List.length_append, List.length_cons] at *
            have := List.length_pos_iff.2 htl0
            omega
          · intro p hp; subst hpl3; simp only [List.cons_append, List.head?_cons, Option.some.injEq] at hp
            subst hp; exact hpl4
          · intro p hp
            cases tl0 with
            | nil => exact absurd rfl htl0
            | cons x t =>
              rw [getLast?_append_consD] at hp
              rw [List.getLast?_cons_cons, hp] at he1
              cases he1; exact he2
        · obtain ⟨k, hk, hmk⟩ := hmidk ls hls
          obtain ⟨e, he1, he2⟩ := hends (k + 1) ls (by omega) hmk
          obtain ⟨h, tl, hm1, hm2⟩ := hheads k ls hmk
          refine ⟨hlen ls (List.mem_of_getElem? hmk), ?_, ?_⟩
          · intro p hp; subst hm1; cases hp; exact hm2
          · intro p hp; rw [hp] at he1; cases he1; exact he2
  · -- every piece starts and ends on the boundary
    have hok : ∀ ls ∈ p0 :: rest, PieceOK box ls := by
      intro ls hls
      obtain ⟨k, hk⟩ := List.getElem?_of_mem hls
      refine ⟨hlen ls hls, ?_, ?_⟩
      · intro p hp
        rcases hhead k ls hk p hp with h | ⟨_, h1, h2⟩
        · exact h
        · rw [hf] at h1; cases h1
          exact absurd h2 hfo
      · intro p hp
        rcases hlast k ls hk p hp with h | ⟨_, h1, h2⟩
        · exact h
        · rw [hll] at h1; cases h1
          exact absurd h2 hfo
    refine ⟨p0 :: rest, p0 :: rest, rfl, ?_, List.Perm.refl _, Or.inl hok⟩
    apply joinOuter_all_boundary
    intro ls hls
    obtain ⟨h2l, _, h3⟩ := hok ls hls
    have hne : ls ≠ [] := by intro h; rw [h] at h2l; simp at h2l
    exact ⟨ls.getLast hne, List.getLast?_eq_some_getLast hne,
      onBoundary_of_onD box _ (h3 _ (List.getLast?_eq_some_getLast hne))⟩

theorem touchBD_spec (box : Bound α) (ls : List (Pt α)) (h : touchBD box ls = true) :
    ∃ p, ls = [p, p] ∧ ¬ InOpenBox box p := by
  unfold touchBD at h
  split at h
  · rename_i p q
    simp only [Bool.and_eq_true, ptEq_iffD, bne_iff_ne, ne_eq] at h
    obtain ⟨rfl, h2⟩ := h
    exact ⟨p, rfl, fun ho => h2 (pointSide_of_openD box p ho)⟩
  · cases h

/-- the final partition only re-orders the pieces and drops zero-length touches of the boundary -/
theorem partition_perm (box : Bound α) (all : List (List (Pt α))) : ∀ (op cl : List (List (Pt α))),
    partitionPieces box all = .ok (op, cl) →
    ∃ T : List (List (Pt α)), (op ++ cl ++ T).Perm all ∧ ∀ t ∈ T, ∃ p, t = [p, p] ∧ ¬ InOpenBox box p := by
  induction all with
  | nil =>
    intro op cl h
    simp only [partitionPieces, Res.ok.injEq, Prod.mk.injEq] at h
    obtain ⟨rfl, rfl⟩ := h
    exact ⟨[], List.Perm.refl _, by simp⟩
  | cons ls rest ih =>
    intro op cl h
    rw [partition_unfold] at h
    obtain ⟨c, hc, h⟩ := resD_bind_eq_ok h
    obtain ⟨⟨op0, cl0⟩, hr, h⟩ := resD_bind_eq_ok h
    obtain ⟨T, hT, hT2⟩ := ih op0 cl0 hr
    simp only [resD_pure] at h
    split_ifs at h with ht hcc
    · simp only [Res.ok.injEq, Prod.mk.injEq] at h
      obtain ⟨rfl, rfl⟩ := h
      refine ⟨ls :: T, ?_, ?_⟩
      · exact (List.perm_middle).trans (List.Perm.cons _ hT)
      · intro t ht'
        rcases List.mem_cons.1 ht' with rfl | ht'
        · exact touchBD_spec box _ ht
        · exact hT2 t ht'
    · simp only [Res.ok.injEq, Prod.mk.injEq] at h
      obtain ⟨rfl, rfl⟩ := h
      refine ⟨T, ?_, hT2⟩
      have e : (op0 ++ ls :: cl0 ++ T) = op0 ++ ls :: (cl0 ++ T) := by simp
      rw [e]
      refine (List.perm_middle).trans (List.Perm.cons _ ?_)
      rw [← List.append_assoc]; exact hT
    · simp only [Res.ok.injEq, Prod.mk.injEq] at h
      obtain ⟨rfl, rfl⟩ := h
      exact ⟨T, List.Perm.cons _ hT, hT2⟩

theorem Decomp.move {S K X O : List (Pt α × Pt α)} (h : Decomp S (K ++ X) O) : Decomp S K (O ++ X) := by
  refine ⟨fun q => ?_, fun q => ?_, fun g => ?_, fun q => ?_, fun P => ?_⟩
  · rw [h.cr, Clip.C16R.crE_append, Clip.C16R.crE_append]
    cases Clip.C08R.crE K q <;> cases Clip.C08R.crE X q <;> cases Clip.C08R.crE O q <;> rfl
  · rw [h.on, Clip.C16R.onE_append, Clip.C16R.onE_append]
    cases Clip.C08R.onE K q <;> cases Clip.C08R.onE X q <;> cases Clip.C08R.onE O q <;> rfl
  · rw [h.d, Clip.C16R.dE_append, Clip.C16R.dE_append]
    cases Clip.C16R.dE g K <;> cases Clip.C16R.dE g X <;> cases Clip.C16R.dE g O <;> rfl
  · rw [h.w, Clip.C16R.wE_append, Clip.C16R.wE_append]; ring
  · rw [h.dz, Clip.C16R.dZ_append, Clip.C16R.dZ_append]; ring

theorem ringClosed_spec (r : List (Pt α)) (h : ringClosed r = true) :
    4 ≤ r.length ∧ ∃ f, r.head? = some f ∧ r.getLast? = some f := by
  unfold ringClosed at h
  simp only [Bool.and_eq_true, decide_eq_true_eq] at h
  obtain ⟨h1, h2⟩ := h
  refine ⟨h1, ?_⟩
  cases hh : r.head? with
  | none => rw [hh] at h2; simp at h2
  | some f =>
    cases hl : r.getLast? with
    | none => rw [hh, hl] at h2; simp at h2
    | some l =>
      rw [hh, hl] at h2
      simp only [ptEq_iffD] at h2
      subst h2
      exact ⟨f, rfl, rfl⟩

/-- `clipRings box [r]` for a ring closed in Go's sense (`r.Closed()`): the edges of the ring are the
    edges of the returned pieces plus discarded edges avoiding the open box; and either there is no
    interior ring and every open piece has both ends on the boundary, or there is no open piece. -/
theorem clipRings_decomp (box : Bound α) (hb : BoxOK box) (r : List (Pt α)) (hrc : ringClosed r = true)
    (op cl : List (List (Pt α))) (h : clipRings box [r] = .ok (op, cl)) :
    (∃ O : List (Pt α × Pt α), (∀ se ∈ O, OutE box se.1 se.2) ∧
      Decomp (Contains.chain r) ((op ++ cl).flatMap Contains.chain) O) ∧
    ((cl = [] ∧ ∀ ls ∈ op, PieceOK box ls) ∨ (op = [] ∧ ∃ p0, cl = [p0] ∧ InsideRing box p0)) := by
  obtain ⟨h4, f, hf, hlast⟩ := ringClosed_spec r hrc
  have hne : r ≠ [] := by intro e; rw [e] at h4; simp at h4
  -- unfold the pipeline
  unfold clipRings at h
  obtain ⟨all, hall, hpart⟩ := resD_bind_eq_ok h
  have hall' : clipOne box r = .ok all := by
    simp only [clipAll] at hall
    obtain ⟨a, ha, hall⟩ := resD_bind_eq_ok hall
    simp only [resD_ok_bind, resD_pure, Res.ok.injEq, List.append_nil] at hall
    rw [← hall]; exact ha
  rw [clipOne_eq] at hall'
  have hemp : r.isEmpty = false := by
    cases r with
    | nil => exact absurd rfl hne
    | cons a t => rfl
  have hclosing : closingD box r = .ok r := by
    unfold closingD; rw [hrc]; rfl
  rw [hemp, hclosing] at hall'
  simp only [Bool.false_eq_true, if_false, resD_ok_bind] at hall'
  obtain ⟨out0, out1, hline, htail, hperm, hshape⟩ :=
    clipTail_shape box (line_spec' box hb) r f hf hlast (by omega)
  rw [hall'] at htail
  cases htail
  obtain ⟨O, hO, D⟩ := Clip.C16R.line_decomp (box := box) hb r out0 hline
  obtain ⟨T, hT, hT2⟩ := partition_perm box all op cl hpart
  constructor
  · -- the edges
    refine ⟨O ++ T.flatMap Contains.chain, ?_, ?_⟩
    · intro se hse
      rcases List.mem_append.1 hse with h' | h'
      · exact hO se h'
      · obtain ⟨t, ht, hse'⟩ := List.mem_flatMap.1 h'
        obtain ⟨p, rfl, hp⟩ := hT2 t ht
        simp only [Contains.chain, List.mem_singleton] at hse'
        subst hse'
        exact Clip.C16R.outE_self hp
    · apply Decomp.move
      refine D.of_perm ?_ (List.Perm.refl _)
      rw [← List.flatMap_append]
      exact hperm.symm.trans (List.Perm.flatMap_right _ hT.symm)
  · -- the shape
    obtain ⟨op', cl', hcr, hop', hcl'⟩ := clipRings_spec'' box hb [r]
    have : (op', cl') = (op, cl) := by
      have h' : clipRings box [r] = .ok (op, cl) := by
        unfold clipRings; rw [hall]; exact hpart
      rw [hcr] at h'; cases h'; rfl
    cases this
    obtain ⟨hsub1, hsub2⟩ := partition_spec_aux box all op cl hpart
    rcases hshape with hok | ⟨p0, rfl, hin, _⟩
    · left
      refine ⟨?_, hop'⟩
      cases cl with
      | nil => rfl
      | cons c cl0 =>
        exfalso
        obtain ⟨⟨hcne, _⟩, hco⟩ := hcl' c List.mem_cons_self
        obtain ⟨_, hch, _⟩ := hok c (hsub2 c List.mem_cons_self).1
        cases c with
        | nil => exact hcne rfl
        | cons a t =>
          exact not_open_of_onD box a (hch a rfl) (hco a rfl)
    · right
      have hopnil : op = [] := by
        cases op with
        | nil => rfl
        | cons a t =>
          exfalso
          have ha : a = p0 := by
            have := hsub1 a List.mem_cons_self
            simpa using this
          subst ha
          obtain ⟨_, hch, _⟩ := hop' a List.mem_cons_self
          obtain ⟨⟨hcne, _⟩, hco⟩ := hin
          cases a with
          | nil => exact hcne rfl
          | cons x t' => exact not_open_of_onD box x (hch x rfl) (hco x rfl)
      subst hopnil
      refine ⟨rfl, p0, ?_, hin⟩
      -- cl ++ T ~ [p0], and p0 is no touch
      simp only [List.nil_append] at hT
      have hlen := hT.length_eq
      simp only [List.length_append, List.length_singleton] at hlen
      cases cl with
      | nil =>
        exfalso
        simp only [List.nil_append] at hT
        have hTeq : T = [p0] := List.perm_singleton.1 hT
        obtain ⟨p, hp, hpo⟩ := hT2 p0 (by rw [hTeq]; exact List.mem_singleton.2 rfl)
        subst hp
        exact hpo (hin.2 p rfl)
      | cons c cl0 =>
        have hc : c = p0 := by
          have := hT.subset (List.mem_append_left _ List.mem_cons_self)
          simpa using this
        subst hc
        simp only [List.length_cons] at hlen
        have : cl0 = [] := List.eq_nil_of_length_eq_zero (by omega)
        rw [this]

/-! ### several rings (polygons, multi-polygons) -/

theorem clipOne_decomp (box : Bound α) (hb : BoxOK box) (r : List (Pt α)) (hrc : ringClosed r = true) :
    ∃ all O, clipOne box r = .ok all ∧ (∀ se ∈ O, OutE box se.1 se.2) ∧
      Decomp (Contains.chain r) (all.flatMap Contains.chain) O ∧ ∀ ls ∈ all, 2 ≤ ls.length := by
  obtain ⟨h4, f, hf, hlast⟩ := ringClosed_spec r hrc
  have hne : r ≠ [] := by intro e; rw [e] at h4; simp at h4
  have hemp : r.isEmpty = false := by
    cases r with
    | nil => exact absurd rfl hne
    | cons a t => rfl
  have hclosing : closingD box r = .ok r := by
    unfold closingD; rw [hrc]; rfl
  obtain ⟨out0, out1, hline, htail, hperm, hshape⟩ :=
    clipTail_shape box (line_spec' box hb) r f hf hlast (by omega)
  obtain ⟨O, hO, D⟩ := Clip.C16R.line_decomp (box := box) hb r out0 hline
  refine ⟨out1, O, ?_, hO, D.of_perm hperm.symm (List.Perm.refl _), ?_⟩
  · rw [clipOne_eq, hemp, hclosing]
    simp only [Bool.false_eq_true, if_false, resD_ok_bind]
    exact htail
  · rcases hshape with hok | ⟨p0, rfl, _, h2⟩
    · exact fun ls hls => (hok ls hls).1
    · intro ls hls
      rw [List.mem_singleton] at hls
      subst hls; exact h2

theorem clipAll_decomp (box : Bound α) (hb : BoxOK box) (rings : List (List (Pt α)))
    (hrc : ∀ r ∈ rings, ringClosed r = true) :
    ∃ all O, clipAll box rings = .ok all ∧ (∀ se ∈ O, OutE box se.1 se.2) ∧
      Decomp (rings.flatMap Contains.chain) (all.flatMap Contains.chain) O ∧ ∀ ls ∈ all, 2 ≤ ls.length := by
  induction rings with
  | nil => exact ⟨[], [], rfl, by simp, Decomp.nil, by simp⟩
  | cons r rest ih =>
    obtain ⟨a, O1, ha, hO1, D1, l1⟩ := clipOne_decomp box hb r (hrc r List.mem_cons_self)
    obtain ⟨b, O2, hb', hO2, D2, l2⟩ := ih (fun x hx => hrc x (List.mem_cons_of_mem _ hx))
    refine ⟨a ++ b, O1 ++ O2, by simp [clipAll, ha, hb'], ?_, ?_, ?_⟩
    · intro se hse
      rcases List.mem_append.1 hse with h | h
      · exact hO1 se h
      · exact hO2 se h
    · rw [List.flatMap_cons, List.flatMap_append]
      exact D1.append D2
    · intro ls hls
      rcases List.mem_append.1 hls with h | h
      · exact l1 ls h
      · exact l2 ls h

/-- `clipRings` of several rings, each closed in Go's sense: the edges of all the rings are the edges of
    the open pieces and of the interior rings plus discarded edges avoiding the open box -/
theorem clipRings_decomp_multi (box : Bound α) (hb : BoxOK box) (rings : List (List (Pt α)))
    (hrc : ∀ r ∈ rings, ringClosed r = true) (op cl : List (List (Pt α)))
    (h : clipRings box rings = .ok (op, cl)) :
    (∃ O : List (Pt α × Pt α), (∀ se ∈ O, OutE box se.1 se.2) ∧
      Decomp (rings.flatMap Contains.chain) ((op ++ cl).flatMap Contains.chain) O) ∧
    (∀ ls ∈ op, PieceOK box ls) ∧ (∀ ls ∈ cl, InsideRing box ls ∧ 2 ≤ ls.length) := by
  obtain ⟨all, O, hall, hO, D, hl2⟩ := clipAll_decomp box hb rings hrc
  have hpart : partitionPieces box all = .ok (op, cl) := by
    unfold clipRings at h
    rw [hall] at h
    exact h
  obtain ⟨T, hT, hT2⟩ := partition_perm box all op cl hpart
  obtain ⟨op', cl', hcr, hop', hcl'⟩ := clipRings_spec'' box hb rings
  have : (op', cl') = (op, cl) := by
    rw [hcr] at h; cases h; rfl
  cases this
  refine ⟨⟨O ++ T.flatMap Contains.chain, ?_, ?_⟩, hop', fun ls hls => ⟨hcl' ls hls, ?_⟩⟩
  · intro se hse
    rcases List.mem_append.1 hse with h' | h'
    · exact hO se h'
    · obtain ⟨t, ht, hse'⟩ := List.mem_flatMap.1 h'
      obtain ⟨p, rfl, hp⟩ := hT2 t ht
      simp only [Contains.chain, List.mem_singleton] at hse'
      subst hse'
      exact Clip.C16R.outE_self hp
  · apply Decomp.move
    refine D.of_perm ?_ (List.Perm.refl _)
    rw [← List.flatMap_append]
    exact List.Perm.flatMap_right _ hT.symm
  · exact hl2 ls ((partition_spec_aux box all op cl hpart).2 ls hls).1

end Orb.SmartClip
