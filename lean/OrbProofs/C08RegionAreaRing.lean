/-
  C08 (area), ring layer.  The signed shoelace area of the clipped ring is a sum over the INPUT edges of
  an explicit per-edge quantity `G box a b`: the shoelace form summed over the image of the edge under the
  four clamps (left, right, bottom, top), `G box = pull₁ (pull₂ (pull₄ (pull₈ sh)))`.
-/
import OrbProofs.C08RegionAreaPass
import OrbProofs.C08Region

namespace Orb.Clip.C08R
open Orb Orb.EvenOdd Orb.Contains Orb.Clip Orb.Clip.C08
open Orb.Core hiding chain

set_option linter.unusedSectionVars false
set_option linter.unusedSimpArgs false
set_option linter.unusedVariables false

variable {α : Type} [Field α] [LinearOrder α] [IsStrictOrderedRing α]

/-! ### shoelace area -/

/-- the shoelace form of one edge -/
def sh (s e : Pt α) : α := s.x * e.y - e.x * s.y

/-- TWICE the signed area of the implicitly closed ring (positive = counter-clockwise) -/
def area2 (r : List (Pt α)) : α := sumE sh (edges r)

/-! ### the pass for edge `k` of `box`, in the `exc` vocabulary of C07 -/

def insK (box : Bound α) (k : Nat) (p : Pt α) : Bool := decide (exc box k p ≤ 0)

/-- orthogonal projection onto the line of edge `k` -/
def flatK (box : Bound α) (k : Nat) (p : Pt α) : Pt α :=
  if k = 8 then ⟨p.x, box.hi.y⟩ else if k = 4 then ⟨p.x, box.lo.y⟩
  else if k = 2 then ⟨box.hi.x, p.y⟩ else ⟨box.lo.x, p.y⟩

/-- the clamp of edge `k`: kept points stay, dropped points go to the line -/
def projK (box : Bound α) (k : Nat) (p : Pt α) : Pt α := if exc box k p ≤ 0 then p else flatK box k p

def pullK (box : Bound α) (k : Nat) (w : Pt α → Pt α → α) : Pt α → Pt α → α :=
  pull (insK box k) (Orb.Clip.cross box k) (projK box k) w

theorem insK_true {box : Bound α} {k : Nat} {p : Pt α} : insK box k p = true ↔ exc box k p ≤ 0 := by
  simp [insK]

theorem insK_false {box : Bound α} {k : Nat} {p : Pt α} : insK box k p = false ↔ 0 < exc box k p := by
  simp [insK]

theorem insK_ne {box : Bound α} {k : Nat} {a b : Pt α} (h : insK box k a ≠ insK box k b) :
    (exc box k a ≤ 0 ∧ 0 < exc box k b) ∨ (0 < exc box k a ∧ exc box k b ≤ 0) := by
  rcases bool_ne_cases h with ⟨h1, h2⟩ | ⟨h1, h2⟩
  · exact Or.inl ⟨insK_true.1 h1, insK_false.1 (by simpa using h2)⟩
  · exact Or.inr ⟨insK_false.1 (by simpa using h1), insK_true.1 h2⟩

theorem exc_flatK (box : Bound α) {k : Nat} (hk : Edge k) (p : Pt α) : exc box k (flatK box k p) = 0 := by
  rcases hk with rfl | rfl | rfl | rfl <;> simp [flatK]

/-- the crossing point of an edge whose ends are on different sides -/
theorem cross_param (box : Bound α) {k : Nat} (hk : Edge k) (a b : Pt α) (h : insK box k a ≠ insK box k b) :
    ∃ T, 0 ≤ T ∧ T ≤ 1 ∧ Orb.Clip.cross box k a b = lerp a b T ∧ exc box k (Orb.Clip.cross box k a b) = 0 := by
  rcases insK_ne h with ⟨h1, h2⟩ | ⟨h1, h2⟩
  · obtain ⟨T, t0, t1, e, z, -⟩ := cross_farEnd box hk a b h1 h2.le
    exact ⟨T, t0, t1, e, by rw [e]; exact z⟩
  · obtain ⟨T, t0, t1, e, z, -⟩ := cross_startEnd box hk a b h1.le h2
    exact ⟨T, t0, t1, e, by rw [e]; exact z⟩

theorem areaHyp_K (box : Bound α) {k : Nat} (hk : Edge k) :
    AreaHyp (insK box k) (Orb.Clip.cross box k) (projK box k) (fun u => exc box k u = 0) where
  pin := fun p hp => by unfold projK; rw [if_pos (insK_true.1 hp)]
  pout := fun p hp => by
    unfold projK; rw [if_neg (not_le.2 (insK_false.1 hp))]; exact exc_flatK box hk p
  ixL := fun a b h => by
    obtain ⟨T, _, _, _, z⟩ := cross_param box hk a b h
    exact z

theorem insK_eq_bit (box : Bound α) (hb : BoxOK box) {k : Nat} (hk : Edge k) :
    (fun p => (bitCode box p &&& k) == 0) = insK box k := by
  funext p
  rw [Bool.eq_iff_iff, beq_iff_eq, insK_true, ← not_lt, ← bitCode_bit hb p hk, not_not]

theorem intersect_cross (box : Bound α) {k : Nat} (hk : Edge k) (a b : Pt α) :
    intersect box k a b = some (Orb.Clip.cross box k a b) := by
  rcases hk with rfl | rfl | rfl | rfl
  · rw [intersect_8]; simp [Orb.Clip.cross]
  · rw [intersect_4]; simp [Orb.Clip.cross]
  · rw [intersect_2]; simp [Orb.Clip.cross]
  · rw [intersect_1]; simp [Orb.Clip.cross]

/-- ONE PASS, sums: `w` over the output cycle = `pullK box k w` over the input cycle, for every edge
    functional `w` that is a coboundary along the clip line. -/
theorem pass_area (box : Bound α) (hb : BoxOK box) {k : Nat} (hk : Edge k) (w : Pt α → Pt α → α) (h : Pt α → α)
    (hw : ∀ u v, exc box k u = 0 → exc box k v = 0 → w u v = h v - h u) (inp out : List (Pt α))
    (hp : ringPass box k true inp = some out) : sumE w (edges out) = sumE (pullK box k w) (edges inp) := by
  cases inp with
  | nil =>
    have : out = [] := by simpa [ringPass] using hp.symm
    subst this; rfl
  | cons f t =>
    rw [ringPass_eq box k _ (intersect_cross box hk) true f t] at hp
    simp only [if_true, getLast?_getD_eq, Option.some.injEq] at hp
    subst hp
    rw [insK_eq_bit box hb hk]
    exact pass_cyc_area (areaHyp_K box hk) hw f t

theorem rpass_area (box : Bound α) (hb : BoxOK box) {k : Nat} (hk : Edge k) (w : Pt α → Pt α → α) (h : Pt α → α)
    (hw : ∀ u v, exc box k u = 0 → exc box k v = 0 → w u v = h v - h u) (l l' : List (Pt α))
    (hp : rpass box true k (some l) = some l') : sumE w (edges l') = sumE (pullK box k w) (edges l) := by
  cases l with
  | nil =>
    have : l' = [] := by simpa [rpass] using hp.symm
    subst this; rfl
  | cons f t => exact pass_area box hb hk w h hw (f :: t) l' hp

/-! ### linearity of an edge functional along vertical lines -/

/-- on every vertical line `x = c` the functional is `c` times the coboundary of `κ` -/
def XLin (w : Pt α → Pt α → α) (κ : Pt α → α) : Prop := ∀ u v, u.x = v.x → w u v = u.x * (κ v - κ u)

theorem xlin_sh : XLin (sh (α := α)) (fun p => p.y) := by
  intro u v h; simp only [sh, ← h]; ring

theorem projK_x (box : Bound α) {k : Nat} (hk : k = 4 ∨ k = 8) (p : Pt α) : (projK box k p).x = p.x := by
  unfold projK; split_ifs
  · rfl
  · rcases hk with rfl | rfl <;> simp [flatK]

theorem projK_y (box : Bound α) {k : Nat} (hk : k = 1 ∨ k = 2) (p : Pt α) : (projK box k p).y = p.y := by
  unfold projK; split_ifs
  · rfl
  · rcases hk with rfl | rfl <;> simp [flatK]

theorem cross_x_vert (box : Bound α) {k : Nat} (hk : k = 4 ∨ k = 8) (u v : Pt α) (h : u.x = v.x) :
    (Orb.Clip.cross box k u v).x = u.x := by
  rcases hk with rfl | rfl <;> simp [Orb.Clip.cross, h]

/-- a horizontal clamp keeps linearity along vertical lines (the potential is clamped) -/
theorem xlin_pullK (box : Bound α) {k : Nat} (hk : k = 4 ∨ k = 8) {w : Pt α → Pt α → α} {κ : Pt α → α}
    (hw : XLin w κ) : XLin (pullK box k w) (fun p => κ (projK box k p)) := by
  intro u v h
  have hu := projK_x box hk u
  have hv := projK_x box hk v
  have hc := cross_x_vert box hk u v h
  unfold pullK pull
  split_ifs
  · rw [hw _ _ (by rw [hu, hv, h]), hu]
  · rw [hw _ _ (by rw [hu, hc]), hw _ _ (by rw [hc, hv, h]), hu, hc]; ring

/-! ### the per-edge area functional of the clipped ring -/

/-- the two horizontal clamps applied to the shoelace form -/
def Vy (box : Bound α) : Pt α → Pt α → α := pullK box 4 (pullK box 8 sh)

/-- `y` clamped to the vertical range of the box -/
def κy (box : Bound α) (p : Pt α) : α := (projK box 8 (projK box 4 p)).y

theorem xlin_Vy (box : Bound α) : XLin (Vy box) (κy box) :=
  xlin_pullK box (Or.inl rfl) (xlin_pullK box (Or.inr rfl) xlin_sh)

/-- THE PER-EDGE AREA FUNCTIONAL: the shoelace form over the edge clamped to the box -/
def G (box : Bound α) : Pt α → Pt α → α := pullK box 1 (pullK box 2 (Vy box))

theorem pullK_inside (box : Bound α) (k : Nat) (w : Pt α → Pt α → α) (u v : Pt α)
    (hu : exc box k u ≤ 0) (hv : exc box k v ≤ 0) : pullK box k w u v = w u v := by
  unfold pullK pull
  rw [if_pos (by rw [insK_true.2 hu, insK_true.2 hv])]
  unfold projK; rw [if_pos hu, if_pos hv]

theorem rclose_area (l out : List (Pt α)) (h : rclose true (some l) = some out) : area2 out = area2 l := by
  cases l with
  | nil =>
    have : out = [] := by simpa [rclose] using h.symm
    subst this; rfl
  | cons f t =>
    simp only [rclose, if_true] at h
    cases hl : (f :: t).getLast? with
    | none => simp at hl
    | some l' =>
      rw [hl] at h
      simp only [] at h
      split_ifs at h with hq
      · cases h; rfl
      · cases h
        unfold area2
        have h1 : edges (f :: t ++ [f]) = (f, f) :: chain (f :: t ++ [f]) := by
          rw [List.cons_append, edges_cons, lastD'_snoc]
        rw [h1, chain_snoc, sumE_cons, sumE_append, edges_cons, sumE_cons, sumE_cons, sumE_nil]
        simp only [sh]; ring

/-- THE AREA FORMULA: twice the signed area of the clipped ring is the sum of `G box` over the edges of
    the (closed) input ring. -/
theorem ring_area2 (box : Bound α) (hb : BoxOK box) (inp out : List (Pt α)) (hc : ClosedRing inp)
    (h : ring box inp = some out) : area2 out = sumE (G box) (edges inp) := by
  obtain ⟨hn, hhl⟩ := hc
  cases inp with
  | nil => exact absurd rfl hn
  | cons f t =>
    rw [ring_cons_eq] at h
    have hic : ptEqB f ((f :: t).getLast?.getD f) = true := by
      rw [ptEqB_iff, ← hhl]; rfl
    rw [hic] at h
    have E1 : Edge 1 := Or.inr (Or.inr (Or.inr rfl))
    have E2 : Edge 2 := Or.inr (Or.inr (Or.inl rfl))
    have E4 : Edge 4 := Or.inr (Or.inl rfl)
    have E8 : Edge 8 := Or.inl rfl
    -- the four coboundary conditions
    have c8 : ∀ u v : Pt α, exc box 8 u = 0 → exc box 8 v = 0 →
        sh u v = (fun p : Pt α => -(box.hi.y * p.x)) v - (fun p : Pt α => -(box.hi.y * p.x)) u := by
      intro u v hu hv
      simp only [exc_8] at hu hv
      have hu' : u.y = box.hi.y := by linarith
      have hv' : v.y = box.hi.y := by linarith
      simp only [sh, hu', hv']; ring
    have c4 : ∀ u v : Pt α, exc box 4 u = 0 → exc box 4 v = 0 →
        pullK box 8 sh u v = (fun p : Pt α => -(box.lo.y * p.x)) v - (fun p : Pt α => -(box.lo.y * p.x)) u := by
      intro u v hu hv
      simp only [exc_4] at hu hv
      have hu' : u.y = box.lo.y := by linarith
      have hv' : v.y = box.lo.y := by linarith
      rw [pullK_inside box 8 sh u v (by rw [exc_8, hu']; linarith [hb.2]) (by rw [exc_8, hv']; linarith [hb.2])]
      simp only [sh, hu', hv']; ring
    have c2 : ∀ u v : Pt α, exc box 2 u = 0 → exc box 2 v = 0 →
        Vy box u v = (fun p : Pt α => box.hi.x * κy box p) v - (fun p : Pt α => box.hi.x * κy box p) u := by
      intro u v hu hv
      simp only [exc_2] at hu hv
      have hu' : u.x = box.hi.x := by linarith
      have hv' : v.x = box.hi.x := by linarith
      rw [xlin_Vy box u v (by rw [hu', hv']), hu']; ring
    have c1 : ∀ u v : Pt α, exc box 1 u = 0 → exc box 1 v = 0 →
        pullK box 2 (Vy box) u v =
          (fun p : Pt α => box.lo.x * κy box p) v - (fun p : Pt α => box.lo.x * κy box p) u := by
      intro u v hu hv
      simp only [exc_1] at hu hv
      have hu' : u.x = box.lo.x := by linarith
      have hv' : v.x = box.lo.x := by linarith
      rw [pullK_inside box 2 _ u v (by rw [exc_2, hu']; linarith [hb.1]) (by rw [exc_2, hv']; linarith [hb.1]),
        xlin_Vy box u v (by rw [hu', hv']), hu']; ring
    obtain ⟨l1, e1, -⟩ := rpass_conv (edge1 box) conv_true true (f :: t) (fun _ _ => trivial) (fun _ _ => trivial)
    cases e2 : rpass box true 2 (some l1) with
    | none => rw [e1, e2] at h; simp [rpass, rclose] at h
    | some l2 =>
      cases e3 : rpass box true 4 (some l2) with
      | none => rw [e1, e2, e3] at h; simp [rpass, rclose] at h
      | some l3 =>
        cases e4 : rpass box true 8 (some l3) with
        | none => rw [e1, e2, e3, e4] at h; simp [rpass, rclose] at h
        | some l4 =>
          rw [e1, e2, e3, e4] at h
          rw [rclose_area l4 out h]
          unfold area2
          rw [rpass_area box hb E8 sh _ c8 l3 l4 e4, rpass_area box hb E4 _ _ c4 l2 l3 e3]
          show sumE (Vy box) (edges l2) = _
          rw [rpass_area box hb E2 _ _ c2 l1 l2 e2, rpass_area box hb E1 _ _ c1 (f :: t) l1 e1]
          rfl

end Orb.Clip.C08R
