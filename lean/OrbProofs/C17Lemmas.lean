/-
  Helper lemmas for C17.  The primed statements are re-exported by OrbProofs/C17.lean.
-/
import Orb.Resample
import Mathlib.Algebra.Order.Field.Basic
import Mathlib.Algebra.BigOperators.Group.List.Basic
import Mathlib.Tactic.Ring
import Mathlib.Tactic.Linarith
import Mathlib.Tactic.FieldSimp
import Mathlib.Tactic.Positivity
import Mathlib.Tactic.SplitIfs
import Mathlib.Tactic.Choose
import Mathlib.Order.Monotone.Basic
import Mathlib.Algebra.Order.Ring.Abs

set_option linter.unusedSectionVars false

namespace Orb.Resample

/-! ### spec-side vocabulary -/

section vocabulary
variable {K : Type} [Field K] [LinearOrder K] [IsStrictOrderedRing K]

/-- hypothesis on the distance function: distances are non-negative -/
def NonNeg (df : Pt K → Pt K → K) : Prop := ∀ a b, 0 ≤ df a b

/-- hypothesis on `int(x)`: it is the floor on non-negative values -/
def IsFloor (trunc : K → Int) : Prop :=
  ∀ x, 0 ≤ x → ((trunc x : Int) : K) ≤ x ∧ x < ((trunc x : Int) : K) + 1

/-- cumulative length of the first `i` segments -/
def cum (df : Pt K → Pt K → K) (ps : List (Pt K)) (i : Nat) : K := ((dists df ps).take i).sum

/-- arc length from the start of the line to the point at parameter `τ` of segment `i` -/
def arcAt (df : Pt K → Pt K → K) (ps : List (Pt K)) (i : Nat) (τ : K) : K :=
  cum df ps i + τ * (dists df ps).getD i 0

/-- the `k`-th point of `out` is the point at parameter `par k ∈ [0,1]` of segment `seg k` of `ps` -/
def OnLine (ps out : List (Pt K)) (seg : Nat → Nat) (par : Nat → K) : Prop :=
  ∀ k, k < out.length → 0 ≤ par k ∧ par k ≤ 1 ∧
    ∃ a b, ps[seg k]? = some a ∧ ps[seg k + 1]? = some b ∧ out[k]? = some (lerp a b (par k))

/-- travel order: `(seg k, par k)` is lexicographically non-decreasing -/
def Ordered (n : Nat) (seg : Nat → Nat) (par : Nat → K) : Prop :=
  ∀ k k', k ≤ k' → k' < n → seg k < seg k' ∨ (seg k = seg k' ∧ par k ≤ par k')

/-- equal spacing: the `k`-th of `n` points is at arc length `k·total/(n-1)` -/
def Spaced (df : Pt K → Pt K → K) (ps : List (Pt K)) (n : Nat) (seg : Nat → Nat) (par : Nat → K) : Prop :=
  ∀ k, k < n → arcAt df ps (seg k) (par k) = (k : K) * lineLength df ps / ((n - 1 : Nat) : K)

/-- hypothesis on the distance function (needed for the spacing clause stated in terms of `df`
    itself): measured from the start vertex of a segment, the distance grows linearly with the
    interpolation parameter.  True of the planar distance (`linearAlong_of_euclid'`); false of
    `geo.Distance` on segments that are neither meridians nor parallels. -/
def LinearAlong (df : Pt K → Pt K → K) : Prop :=
  ∀ a b τ, 0 ≤ τ → τ ≤ 1 → df a (lerp a b τ) = τ * df a b

/-- distance travelled to reach `p` on segment `i`: the first `i` segments in full, then from
    the start vertex of segment `i` to `p` — everything measured with `df` -/
def alongDf (df : Pt K → Pt K → K) (ps : List (Pt K)) (i : Nat) (p : Pt K) : K :=
  cum df ps i + df (ps.getD i ⟨0, 0⟩) p

/-- equal spacing in terms of the distance function that was passed in: the `k`-th point of
    `out` (on segment `seg k`) is `k·total/(n-1)` along the line, `n = out.length` -/
def SpacedDf (df : Pt K → Pt K → K) (ps out : List (Pt K)) (seg : Nat → Nat) : Prop :=
  ∀ k, k < out.length →
    alongDf df ps (seg k) (out.getD k ⟨0, 0⟩) = (k : K) * lineLength df ps / ((out.length - 1 : Nat) : K)

end vocabulary

section walk
variable {K : Type} [Field K] [LinearOrder K] [IsStrictOrderedRing K]

/-- exact step target `T·s/(n-1)` -/
def tgt (T : K) (n s : Nat) : K := T * (s : K) / ((n - 1 : Nat) : K)

theorem cast_pred_pos (n : Nat) (hn : 2 ≤ n) : (0 : K) < ((n - 1 : Nat) : K) := by
  have : 0 < n - 1 := by omega
  exact_mod_cast this

theorem target_eq_tgt (T : K) (n s : Nat) (hn : 2 ≤ n) : target T n s = tgt T n s := by
  unfold target tgt
  have hm := (cast_pred_pos (K := K) n hn).ne'
  split_ifs with h
  · have : s = n - 1 := by simpa using h
    subst this; field_simp
  · rfl

theorem tgt_lt (T : K) (hT : 0 < T) (n : Nat) (hn : 2 ≤ n) {s s' : Nat} (h : s < s') :
    tgt T n s < tgt T n s' := by
  unfold tgt
  have hm := cast_pred_pos (K := K) n hn
  have : (s : K) < (s' : K) := by exact_mod_cast h
  exact div_lt_div_of_pos_right (mul_lt_mul_of_pos_left this hT) hm

theorem tgt_le (T : K) (hT : 0 < T) (n : Nat) (hn : 2 ≤ n) {s s' : Nat} (h : s ≤ s') :
    tgt T n s ≤ tgt T n s' := by
  rcases Nat.lt_or_eq_of_le h with h | h
  · exact (tgt_lt T hT n hn h).le
  · subst h; exact le_rfl

theorem tgt_pred (T : K) (n : Nat) (hn : 2 ≤ n) : tgt T n (n - 1) = T := by
  unfold tgt
  have hm := (cast_pred_pos (K := K) n hn).ne'
  field_simp

theorem tgt_zero (T : K) (n : Nat) : tgt T n 0 = 0 := by simp [tgt]

theorem tgt_le_T_iff (T : K) (hT : 0 < T) (n : Nat) (hn : 2 ≤ n) (s : Nat) : tgt T n s ≤ T ↔ s ≤ n - 1 := by
  constructor
  · intro h
    by_contra hc
    have : n - 1 < s := by omega
    have := tgt_lt T hT n hn this
    rw [tgt_pred T n hn] at this
    exact absurd h (not_le.mpr this)
  · intro h
    have := tgt_le T hT n hn h
    rwa [tgt_pred T n hn] at this


theorem inner_spec (T : K) (hT : 0 < T) (n : Nat) (hn : 2 ≤ n) (a b : Pt K) (segd dist : K)
    (hle : dist + segd ≤ T) :
    ∀ (fuel s : Nat), n + 1 ≤ s + fuel → dist < tgt T n s →
    ∃ (pts : List (Pt K)) (s' : Nat),
      inner T n a b segd dist (dist + segd) fuel s (tgt T n s) = some (pts, s', tgt T n s')
      ∧ s ≤ s' ∧ pts.length = s' - s ∧ dist + segd < tgt T n s' ∧
      (∀ j, j < s' - s → tgt T n (s + j) ≤ dist + segd ∧
        pts[j]? = some (lerp a b ((tgt T n (s + j) - dist) / segd))) := by
  intro fuel
  induction fuel with
  | zero =>
    intro s hs hd
    have hgt : dist + segd < tgt T n s := by
      have h1 : n - 1 < s := by omega
      have := tgt_lt T hT n hn h1
      rw [tgt_pred T n hn] at this
      exact lt_of_le_of_lt hle this
    refine ⟨[], s, ?_, le_rfl, by simp, hgt, ?_⟩
    · unfold inner
      simp [not_le.mpr hgt]
    · intro j hj; omega
  | succ fuel ih =>
    intro s hs hd
    by_cases hc : tgt T n s ≤ dist + segd
    · have hd' : dist < tgt T n (s + 1) := lt_trans hd (tgt_lt T hT n hn (Nat.lt_succ_self s))
      obtain ⟨pts, s', he, hss, hlen, hgt, hpt⟩ := ih (s + 1) (by omega) hd'
      have hsn : s < n := by
        have := (tgt_le_T_iff T hT n hn s).mp (le_trans hc hle)
        omega
      have hseg : 0 < segd := by linarith
      refine ⟨lerp a b ((tgt T n s - dist) / segd) :: pts, s', ?_, by omega, by simp [hlen]; omega, hgt, ?_⟩
      · rw [inner]
        simp only [hc, hsn, and_self, if_true, hseg]
        rw [target_eq_tgt T n (s + 1) hn, he]
      · intro j hj
        cases j with
        | zero => simpa using hc
        | succ j =>
          have := hpt j (by omega)
          have e : s + 1 + j = s + (j + 1) := by omega
          rw [e] at this
          simpa using this
    · have hgt := not_le.mp hc
      refine ⟨[], s, ?_, le_rfl, by simp, hgt, ?_⟩
      · rw [inner]
        simp [hc]
      · intro j hj; omega


theorem dists_cons2 (df : Pt K → Pt K → K) (a b : Pt K) (rest : List (Pt K)) :
    dists df (a :: b :: rest) = df a b :: dists df (b :: rest) := by
  simp [dists]

theorem dists_single (df : Pt K → Pt K → K) (a : Pt K) : dists df [a] = [] := by
  simp [dists]

theorem sum_dists_nonneg (df : Pt K → Pt K → K) (hdf : NonNeg df) (ps : List (Pt K)) :
    0 ≤ (dists df ps).sum := by
  apply List.sum_nonneg
  intro x hx
  simp only [dists, List.mem_iff_getElem, List.length_zipWith, List.getElem_zipWith] at hx
  obtain ⟨i, _, rfl⟩ := hx
  exact hdf _ _

theorem walk_spec (df : Pt K → Pt K → K) (hdf : NonNeg df) (T : K) (hT : 0 < T) (n : Nat) (hn : 2 ≤ n) :
    ∀ (qs : List (Pt K)) (dist : K) (s : Nat), qs ≠ [] → dist + (dists df qs).sum = T → 1 ≤ s →
      dist < tgt T n s → (s = 1 ∨ tgt T n (s - 1) ≤ dist) →
    ∃ out, walk T n (n + 1) qs (dists df qs) dist s (tgt T n s) = some out ∧ out.length = n - s ∧
      ∀ j, j < n - s → ∃ i a b, qs[i]? = some a ∧ qs[i + 1]? = some b ∧
        dist + ((dists df qs).take i).sum < tgt T n (s + j) ∧
        tgt T n (s + j) ≤ dist + ((dists df qs).take i).sum + df a b ∧
        out[j]? = some (lerp a b ((tgt T n (s + j) - (dist + ((dists df qs).take i).sum)) / df a b)) := by
  intro qs
  induction qs with
  | nil => intro _ _ h; exact absurd rfl h
  | cons a tl ih =>
    intro dist s _ hsum hs1 hd hinv
    have hsn : s ≤ n := by
      rcases hinv with h | h
      · omega
      · have h2 : tgt T n (s - 1) ≤ T := by
          have := sum_dists_nonneg df hdf (a :: tl)
          linarith
        have := (tgt_le_T_iff T hT n hn (s - 1)).mp h2
        omega
    cases tl with
    | nil =>
      rw [dists_single] at hsum ⊢
      simp only [List.sum_nil, add_zero] at hsum
      subst hsum
      have h1 : ¬ s ≤ n - 1 := fun h => absurd ((tgt_le_T_iff dist hT n hn s).mpr h) (not_le.mpr hd)
      have hsn' : n - s = 0 := by omega
      refine ⟨[], ?_, by simp [hsn'], ?_⟩
      · simp [walk]
      · intro j hj; omega
    | cons b rest =>
      rw [dists_cons2] at hsum ⊢
      simp only [List.sum_cons] at hsum
      have hrest := sum_dists_nonneg df hdf (b :: rest)
      have hab := hdf a b
      obtain ⟨pts, s', he, hss, hlen, hgt, hpt⟩ :=
        inner_spec T hT n hn a b (df a b) dist (by linarith) (n + 1) s (by omega) hd
      have hinv' : s' = 1 ∨ tgt T n (s' - 1) ≤ dist + df a b := by
        rcases Nat.lt_or_eq_of_le hss with h | h
        · right
          have := (hpt (s' - s - 1) (by omega)).1
          have e : s + (s' - s - 1) = s' - 1 := by omega
          rwa [e] at this
        · subst h
          rcases hinv with h | h
          · exact Or.inl h
          · right; linarith
      obtain ⟨out', hw, hlen', hpt'⟩ :=
        ih (dist + df a b) s' (by simp) (by linarith) (by omega) hgt hinv'
      have hs'n : s' ≤ n := by
        rcases hinv' with h | h
        · omega
        · have h2 : tgt T n (s' - 1) ≤ T := by linarith
          have := (tgt_le_T_iff T hT n hn (s' - 1)).mp h2
          omega
      refine ⟨pts ++ out', ?_, by simp [hlen, hlen']; omega, ?_⟩
      · rw [walk]
        simp only [he, hw]
      · intro j hj
        by_cases hj' : j < s' - s
        · obtain ⟨h1, h2⟩ := hpt j hj'
          refine ⟨0, a, b, by simp, by simp, ?_, ?_, ?_⟩
          · simp only [List.take_zero, List.sum_nil, add_zero]
            exact lt_of_lt_of_le hd (tgt_le T hT n hn (Nat.le_add_right s j))
          · simpa using h1
          · rw [List.getElem?_append_left (by omega)]
            simpa using h2
        · obtain ⟨i, a', b', ha', hb', h1, h2, h3⟩ := hpt' (j - (s' - s)) (by omega)
          have e : s' + (j - (s' - s)) = s + j := by omega
          rw [e] at h1 h2 h3
          have esum : dist + ((df a b :: dists df (b :: rest)).take (i + 1)).sum =
              dist + df a b + ((dists df (b :: rest)).take i).sum := by
            simp only [List.take_succ_cons, List.sum_cons]; ring
          refine ⟨i + 1, a', b', by simpa using ha', by simpa using hb', ?_, ?_, ?_⟩
          · rw [esum]; exact h1
          · rw [esum]; exact h2
          · rw [List.getElem?_append_right (by omega), hlen, esum]
            exact h3


/-! ### cumulative lengths -/

theorem sumDists_eq_sum (ds : List K) : sumDists ds = ds.sum := by
  have : ∀ (acc : K), ds.foldl (· + ·) acc = acc + ds.sum := by
    induction ds with
    | nil => intro acc; simp
    | cons d ds ih => intro acc; simp [ih, add_assoc]
  simpa [sumDists] using this 0

theorem lineLength_eq_sum (df : Pt K → Pt K → K) (ps : List (Pt K)) :
    lineLength df ps = (dists df ps).sum := sumDists_eq_sum _

theorem dists_getElem? (df : Pt K → Pt K → K) (ps : List (Pt K)) (i : Nat) (a b : Pt K)
    (ha : ps[i]? = some a) (hb : ps[i + 1]? = some b) : (dists df ps)[i]? = some (df a b) := by
  simp [dists, List.getElem?_zipWith, ha, hb]

theorem dists_length (df : Pt K → Pt K → K) (ps : List (Pt K)) : (dists df ps).length = ps.length - 1 := by
  simp [dists]

theorem cum_zero (df : Pt K → Pt K → K) (ps : List (Pt K)) : cum df ps 0 = 0 := by simp [cum]

theorem cum_succ (df : Pt K → Pt K → K) (ps : List (Pt K)) (i : Nat) (a b : Pt K)
    (ha : ps[i]? = some a) (hb : ps[i + 1]? = some b) : cum df ps (i + 1) = cum df ps i + df a b := by
  unfold cum
  rw [List.take_add_one, dists_getElem? df ps i a b ha hb]
  simp

theorem cum_le_succ (df : Pt K → Pt K → K) (hdf : NonNeg df) (ps : List (Pt K)) (i : Nat) :
    cum df ps i ≤ cum df ps (i + 1) := by
  unfold cum
  rw [List.take_add_one, List.sum_append]
  have : 0 ≤ ((dists df ps)[i]?.toList).sum := by
    apply List.sum_nonneg
    intro x hx
    simp only [Option.mem_toList] at hx
    have hm := List.mem_of_getElem? hx
    simp only [dists, List.mem_iff_getElem, List.length_zipWith, List.getElem_zipWith] at hm
    obtain ⟨j, _, rfl⟩ := hm
    exact hdf _ _
  linarith

theorem cum_mono (df : Pt K → Pt K → K) (hdf : NonNeg df) (ps : List (Pt K)) {i j : Nat} (h : i ≤ j) :
    cum df ps i ≤ cum df ps j :=
  monotone_nat_of_le_succ (cum_le_succ df hdf ps) h

theorem cum_full (df : Pt K → Pt K → K) (ps : List (Pt K)) (i : Nat) (h : ps.length ≤ i + 1) :
    cum df ps i = lineLength df ps := by
  rw [lineLength_eq_sum]
  unfold cum
  rw [List.take_of_length_le]
  rw [dists_length]; omega

theorem lerp_zero (a b : Pt K) : lerp a b 0 = a := by
  cases a; simp [lerp]

theorem lerp_one (a b : Pt K) : lerp a b 1 = b := by
  cases a; cases b; simp [lerp]

/-! ### the located sampling -/

/-- the `k`-th of the `N` points of `final` sits on segment `i` at parameter `τ`, at arc length `tgt T N k` -/
def Loc (df : Pt K → Pt K → K) (ps final : List (Pt K)) (T : K) (N k i : Nat) (τ : K) : Prop :=
  0 ≤ τ ∧ τ ≤ 1 ∧ ∃ a b, ps[i]? = some a ∧ ps[i + 1]? = some b ∧ final[k]? = some (lerp a b τ) ∧
    cum df ps i + τ * df a b = tgt T N k ∧
    ((k = 0 ∧ i = 0 ∧ τ = 0) ∨ (k + 1 = N ∧ i + 2 = ps.length ∧ τ = 1) ∨
     (cum df ps i < tgt T N k ∧ tgt T N k ≤ cum df ps i + df a b ∧ τ = (tgt T N k - cum df ps i) / df a b))

theorem loc_onLine (df : Pt K → Pt K → K) (ps final : List (Pt K)) (T : K) (N : Nat) (seg : Nat → Nat)
    (par : Nat → K) (hlen : final.length = N) (h : ∀ k, k < N → Loc df ps final T N k (seg k) (par k)) :
    OnLine ps final seg par := by
  intro k hk
  obtain ⟨h0, h1, a, b, ha, hb, hf, _⟩ := h k (hlen ▸ hk)
  exact ⟨h0, h1, a, b, ha, hb, hf⟩

theorem loc_spaced (df : Pt K → Pt K → K) (ps final : List (Pt K)) (N : Nat) (seg : Nat → Nat)
    (par : Nat → K) (h : ∀ k, k < N → Loc df ps final (lineLength df ps) N k (seg k) (par k)) :
    Spaced df ps N seg par := by
  intro k hk
  obtain ⟨_, _, a, b, ha, hb, _, harc, _⟩ := h k hk
  unfold arcAt
  have : (dists df ps).getD (seg k) 0 = df a b := by
    simp [List.getD, dists_getElem? df ps (seg k) a b ha hb]
  rw [this, harc, tgt, mul_comm]

theorem loc_ordered (df : Pt K → Pt K → K) (hdf : NonNeg df) (ps final : List (Pt K)) (T : K) (hT : 0 < T)
    (N : Nat) (hN : 2 ≤ N) (seg : Nat → Nat) (par : Nat → K)
    (h : ∀ k, k < N → Loc df ps final T N k (seg k) (par k)) :
    Ordered N seg par := by
  intro k k' hkk hk'
  rcases Nat.lt_or_eq_of_le hkk with hlt | heq
  swap
  · subst heq; exact Or.inr ⟨rfl, le_rfl⟩
  obtain ⟨h0, h1, a, b, ha, hb, _, _, hc⟩ := h k (by omega)
  obtain ⟨h0', h1', a', b', ha', hb', _, _, hc'⟩ := h k' hk'
  have hi : seg k + 1 < ps.length := by
    have := (List.getElem?_eq_some_iff.mp hb).1; exact this
  have hi' : seg k' + 1 < ps.length := (List.getElem?_eq_some_iff.mp hb').1
  rcases hc with ⟨_, hi0, hτ0⟩ | ⟨hkN, _, _⟩ | ⟨hc1, hc2, hc3⟩
  · -- first point: the smallest placement
    rw [hi0, hτ0]
    rcases Nat.eq_zero_or_pos (seg k') with hz | hp
    · exact Or.inr ⟨hz.symm, h0'⟩
    · exact Or.inl hp
  · omega
  · rcases hc' with ⟨hk0, _, _⟩ | ⟨_, hiL, hτ1⟩ | ⟨hc1', hc2', hc3'⟩
    · omega
    · -- last point: the largest placement
      rw [hτ1]
      rcases Nat.lt_or_eq_of_le (show seg k ≤ seg k' by omega) with hl | he
      · exact Or.inl hl
      · exact Or.inr ⟨he, h1⟩
    · have htt : tgt T N k ≤ tgt T N k' := tgt_le T hT N hN hkk
      rcases Nat.lt_trichotomy (seg k) (seg k') with hl | he | hg
      · exact Or.inl hl
      · right
        refine ⟨he, ?_⟩
        rw [he] at ha hb hc1 hc2 hc3
        have ea : a = a' := by rw [ha'] at ha; exact (Option.some.inj ha).symm
        have eb : b = b' := by rw [hb'] at hb; exact (Option.some.inj hb).symm
        subst ea; subst eb
        have hd : 0 < df a b := by linarith
        rw [hc3, hc3']
        exact div_le_div_of_nonneg_right (by linarith) hd.le
      · exfalso
        have h1 : cum df ps (seg k' + 1) ≤ cum df ps (seg k) := cum_mono df hdf ps (by omega)
        rw [cum_succ df ps (seg k') a' b' ha' hb'] at h1
        linarith


theorem resampleCore_spec (df : Pt K → Pt K → K) (hdf : NonNeg df) (p0 p1 : Pt K) (rest : List (Pt K))
    (n : Int) (hn : 1 ≤ n) (hT : 0 < lineLength df (p0 :: p1 :: rest)) :
    ∃ (out : List (Pt K)) (seg : Nat → Nat) (par : Nat → K),
      resampleCore (p0 :: p1 :: rest) (dists df (p0 :: p1 :: rest)) (lineLength df (p0 :: p1 :: rest)) n
        = .ok (some out) ∧
      out.length = n.toNat ∧ out.head? = some p0 ∧
      (2 ≤ n → out.getLast? = (p0 :: p1 :: rest).getLast?) ∧
      ∀ k, k < n.toNat →
        Loc df (p0 :: p1 :: rest) out (lineLength df (p0 :: p1 :: rest)) n.toNat k (seg k) (par k) := by
  obtain ⟨N, rfl⟩ := Int.eq_ofNat_of_zero_le (show 0 ≤ n by omega)
  have hN1 : 1 ≤ N := by exact_mod_cast hn
  simp only [Int.toNat_natCast]
  generalize hps : p0 :: p1 :: rest = ps at *
  generalize hTdef : lineLength df ps = T at *
  have hL : 2 ≤ ps.length := by rw [← hps]; simp
  have hps0 : ps[0]? = some p0 := by rw [← hps]; simp
  have hps1 : ps[1]? = some p1 := by rw [← hps]; simp
  by_cases h1 : N = 1
  · subst h1
    refine ⟨[p0], fun _ => 0, fun _ => 0, ?_, rfl, rfl, fun h => by omega, ?_⟩
    · rw [← hps]; simp [resampleCore]
    · intro k hk
      have : k = 0 := by omega
      subst this
      refine ⟨le_rfl, zero_le_one, p0, p1, hps0, hps1, by simp [lerp_zero], ?_, Or.inl ⟨rfl, rfl, rfl⟩⟩
      simp [cum_zero, tgt]
  · have hN : 2 ≤ N := by omega
    have hm := cast_pred_pos (K := K) N hN
    have hsum : (0 : K) + (dists df ps).sum = T := by rw [zero_add, ← lineLength_eq_sum, hTdef]
    have hd0 : (0 : K) < tgt T N 1 := by
      unfold tgt; simp only [Nat.cast_one, mul_one]; exact div_pos hT hm
    obtain ⟨out, hw, hlen, hpt⟩ :=
      walk_spec df hdf T hT N hN ps 0 1 (by rw [← hps]; simp) hsum le_rfl hd0 (Or.inl rfl)
    have hcur : T / ((N - 1 : Nat) : K) = tgt T N 1 := by simp [tgt]
    -- the last vertex
    have hlastne : ps ≠ [] := by rw [← hps]; simp
    set last := ps.getLast hlastne with hlastdef
    have hlast? : ps.getLast? = some last := List.getLast?_eq_some_getLast hlastne
    have hlastidx : ps[ps.length - 1]? = some last := by
      rw [hlastdef, List.getLast_eq_getElem]; simp
    set final := (p0 :: out).set (N - 1) last with hfinal
    have hflen : final.length = N := by simp [hfinal, hlen]; omega
    have hres : resampleCore ps (dists df ps) T (N : Int) = .ok (some final) := by
      subst hps
      unfold resampleCore
      have : ¬ ((N : Int) < 1) := by omega
      simp only [this, if_false, Int.toNat_natCast, beq_iff_eq, h1, walkFuel, hcur, hw]
      have : ¬ ((p0 :: out).length < N) := by simp [hlen]; omega
      simp only [this, if_false]
      rfl
    -- choose a placement for every middle point
    have hex : ∀ j, ∃ i a b, j < N - 1 → (ps[i]? = some a ∧ ps[i + 1]? = some b ∧
        0 + ((dists df ps).take i).sum < tgt T N (1 + j) ∧
        tgt T N (1 + j) ≤ 0 + ((dists df ps).take i).sum + df a b ∧
        out[j]? = some (lerp a b ((tgt T N (1 + j) - (0 + ((dists df ps).take i).sum)) / df a b))) := by
      intro j
      by_cases hj : j < N - 1
      · obtain ⟨i, a, b, h⟩ := hpt j hj
        exact ⟨i, a, b, fun _ => h⟩
      · exact ⟨0, p0, p0, fun h => absurd h hj⟩
    choose I A B hI using hex
    refine ⟨final,
      fun k => if k = 0 then 0 else if k + 1 = N then ps.length - 2 else I (k - 1),
      fun k => if k = 0 then 0 else if k + 1 = N then 1 else
        (tgt T N k - cum df ps (I (k - 1))) / df (A (k - 1)) (B (k - 1)),
      hres, hflen, ?_, ?_, ?_⟩
    · -- head
      rw [hfinal, List.head?_eq_getElem?, List.getElem?_set_ne (by omega)]; simp
    · intro _
      rw [hlast?, List.getLast?_eq_getElem?, hflen, hfinal, List.getElem?_set_self (by simp only [List.length_cons, hlen]; omega)]
    · intro k hk
      by_cases hk0 : k = 0
      · subst hk0
        simp only [if_true]
        refine ⟨le_rfl, zero_le_one, p0, p1, hps0, hps1, ?_, by simp [cum_zero, tgt], Or.inl ⟨rfl, rfl, rfl⟩⟩
        rw [hfinal, List.getElem?_set_ne (by omega)]; simp [lerp_zero]
      · by_cases hkN : k + 1 = N
        · simp only [hk0, hkN, if_false, if_true]
          -- last point: the end of the last segment
          obtain ⟨a, ha⟩ : ∃ a, ps[ps.length - 2]? = some a :=
            ⟨ps[ps.length - 2]'(by omega), List.getElem?_eq_getElem (by omega)⟩
          have hb : ps[ps.length - 2 + 1]? = some last := by
            have : ps.length - 2 + 1 = ps.length - 1 := by omega
            rw [this]; exact hlastidx
          refine ⟨zero_le_one, le_rfl, a, last, ha, hb, ?_, ?_, Or.inr (Or.inl ⟨hkN, by omega, rfl⟩)⟩
          · have : k = N - 1 := by omega
            rw [this, hfinal, List.getElem?_set_self (by simp only [List.length_cons, hlen]; omega), lerp_one]
          · rw [one_mul, ← cum_succ df ps _ a last ha hb, cum_full df ps _ (by omega), hTdef]
            have : k = N - 1 := by omega
            rw [this, tgt_pred T N hN]
        · simp only [hk0, hkN, if_false]
          obtain ⟨ha, hb, hlo, hhi, ho⟩ := hI (k - 1) (by omega)
          have e : 1 + (k - 1) = k := by omega
          rw [e] at hlo hhi ho
          have hcum : (0 : K) + ((dists df ps).take (I (k - 1))).sum = cum df ps (I (k - 1)) := by
            simp [cum]
          rw [hcum] at hlo hhi ho
          have hd : 0 < df (A (k - 1)) (B (k - 1)) := by linarith
          refine ⟨div_nonneg (by linarith) hd.le, (div_le_one hd).mpr (by linarith),
            A (k - 1), B (k - 1), ha, hb, ?_, ?_, Or.inr (Or.inr ⟨hlo, hhi, rfl⟩)⟩
          · have hk1 : (p0 :: out)[k]? = out[k - 1]? := by
              cases k with
              | zero => exact absurd rfl hk0
              | succ k' => simp
            rw [hfinal, List.getElem?_set_ne (by omega), hk1]
            exact ho
          · field_simp
            ring


/-! ### spacing in terms of the distance function itself -/

theorem spacedDf_of_spaced (df : Pt K → Pt K → K) (hlin : LinearAlong df) (ps out : List (Pt K))
    (seg : Nat → Nat) (par : Nat → K) (hon : OnLine ps out seg par)
    (hsp : Spaced df ps out.length seg par) : SpacedDf df ps out seg := by
  intro k hk
  obtain ⟨h0, h1, a, b, ha, hb, ho⟩ := hon k hk
  have h := hsp k hk
  unfold arcAt at h
  have hd : (dists df ps).getD (seg k) 0 = df a b := by
    simp [List.getD, dists_getElem? df ps (seg k) a b ha hb]
  have hpa : ps.getD (seg k) ⟨0, 0⟩ = a := by simp [List.getD, ha]
  have hpo : out.getD k ⟨0, 0⟩ = lerp a b (par k) := by simp [List.getD, ho]
  rw [hd] at h
  unfold alongDf
  rw [hpa, hpo, hlin a b (par k) h0 h1]
  exact h

/-- consecutive points are `total/(n-1)` apart (distance along the line, measured with `df`) -/
theorem gap_of_spacedDf (df : Pt K → Pt K → K) (ps out : List (Pt K)) (seg : Nat → Nat)
    (hsp : SpacedDf df ps out seg) (k : Nat) (hk : k + 1 < out.length) :
    alongDf df ps (seg (k + 1)) (out.getD (k + 1) ⟨0, 0⟩) - alongDf df ps (seg k) (out.getD k ⟨0, 0⟩)
      = lineLength df ps / ((out.length - 1 : Nat) : K) := by
  rw [hsp (k + 1) hk, hsp k (by omega)]
  have hm := (cast_pred_pos (K := K) out.length (by omega)).ne'
  field_simp
  push_cast
  ring

/-- a distance function whose square is the Euclidean squared distance is linear along segments -/
theorem linearAlong_of_euclid' (df : Pt K → Pt K → K) (hdf : NonNeg df)
    (hsq : ∀ a b, df a b * df a b = (a.x - b.x) * (a.x - b.x) + (a.y - b.y) * (a.y - b.y)) :
    LinearAlong df := by
  intro a b τ h0 _
  have h1 : df a (lerp a b τ) * df a (lerp a b τ) = (τ * df a b) * (τ * df a b) := by
    rw [hsq a (lerp a b τ)]
    have : (τ * df a b) * (τ * df a b) = τ * τ * (df a b * df a b) := by ring
    rw [this, hsq a b]
    simp only [lerp]
    ring
  exact (mul_self_inj (hdf _ _) (mul_nonneg h0 (hdf _ _))).mp h1

/-- the Manhattan distance is linear along segments -/
theorem linearAlong_manhattan' : LinearAlong (fun a b : Pt K => |a.x - b.x| + |a.y - b.y|) := by
  intro a b τ h0 _
  simp only [lerp]
  have e1 : a.x - (a.x + τ * (b.x - a.x)) = τ * (a.x - b.x) := by ring
  have e2 : a.y - (a.y + τ * (b.y - a.y)) = τ * (a.y - b.y) := by ring
  rw [e1, e2, abs_mul, abs_mul, abs_of_nonneg h0]
  ring

/-! ### edge cases -/

theorem ptEq_iff (p q : Pt K) : ptEq p q = true ↔ p = q := by
  cases p; cases q; simp [ptEq]

theorem allEq_cons_iff (p0 : Pt K) (rest : List (Pt K)) :
    allEq (p0 :: rest) = true ↔ ∀ p ∈ p0 :: rest, p = p0 := by
  simp only [allEq, List.all_eq_true, ptEq_iff]
  constructor
  · intro h p hp; exact (h p hp).symm
  · intro h p hp; exact (h p hp).symm

theorem edgeCases_short (ls : Line K) (n : Int) (h : ls.pts.length ≤ 1) : edgeCases ls n = .ok (some ls) := by
  simp [edgeCases, h]

theorem edgeCases_ne (ps : List (Pt K)) (n : Int) (hlen : 2 ≤ ps.length) (hne : allEq ps = false) :
    edgeCases (some ps) n = .ok none := by
  match ps, hlen, hne with
  | p0 :: rest, hlen, hne =>
    have : ¬ (rest.length + 1 ≤ 1) := by simp at hlen; omega
    simp [edgeCases, Line.pts, this, hne]

theorem edgeCases_eq (ps : List (Pt K)) (p0 : Pt K) (n : Int) (hlen : 2 ≤ ps.length)
    (heq : ∀ p ∈ ps, p = p0) (hn : 0 ≤ n) :
    edgeCases (some ps) n = .ok (some (some (if (ps.length : Int) < n then
      ps ++ List.replicate (n.toNat - ps.length) p0 else ps.take n.toNat))) := by
  match ps, hlen, heq with
  | q :: rest, hlen, heq =>
    have hq : q = p0 := heq q (by simp)
    subst hq
    have hall : allEq (q :: rest) = true := (allEq_cons_iff q rest).mpr heq
    have h1 : ¬ (rest.length + 1 ≤ 1) := by simp at hlen; omega
    have h2 : ¬ (n < 0) := by omega
    simp only [edgeCases, Line.pts, Option.getD_some, List.length_cons, h1, if_false, hall, if_true]
    simp only [Nat.cast_add, Nat.cast_one]
    by_cases h : (rest.length : Int) + 1 < n
    · simp [h]
    · simp [h, h2]

theorem precompute_cons (df : Pt K → Pt K → K) (p : Pt K) (rest : List (Pt K)) :
    precompute df (p :: rest) = .ok (lineLength df (p :: rest), dists df (p :: rest)) := rfl

theorem resample_main (df : Pt K → Pt K → K) (ps : List (Pt K)) (n : Int) (hlen : 2 ≤ ps.length)
    (hne : allEq ps = false) (hn : 1 ≤ n) :
    resample df (some ps) n = resampleCore ps (dists df ps) (lineLength df ps) n := by
  have h0 : ¬ n ≤ 0 := by omega
  match ps, hlen, hne with
  | p0 :: rest, hlen, hne =>
    simp [resample, h0, edgeCases_ne (p0 :: rest) n hlen hne, Line.pts, precompute_cons]

theorem resample_eq (df : Pt K → Pt K → K) (ps : List (Pt K)) (p0 : Pt K) (n : Int) (hlen : 2 ≤ ps.length)
    (heq : ∀ p ∈ ps, p = p0) (hn : 0 < n) :
    resample df (some ps) n = .ok (some (if (ps.length : Int) < n then
      ps ++ List.replicate (n.toNat - ps.length) p0 else ps.take n.toNat)) := by
  have h0 : ¬ n ≤ 0 := by omega
  simp [resample, h0, edgeCases_eq ps p0 n hlen heq (by omega)]

theorem eq_replicate_of_all (ps : List (Pt K)) (p0 : Pt K) (heq : ∀ p ∈ ps, p = p0) :
    ps = List.replicate ps.length p0 :=
  List.eq_replicate_iff.mpr ⟨rfl, heq⟩

theorem pad_trunc_replicate (ps : List (Pt K)) (p0 : Pt K) (n : Int) (heq : ∀ p ∈ ps, p = p0) (hn : 0 ≤ n) :
    (if (ps.length : Int) < n then ps ++ List.replicate (n.toNat - ps.length) p0 else ps.take n.toNat)
      = List.replicate n.toNat p0 := by
  obtain ⟨N, rfl⟩ := Int.eq_ofNat_of_zero_le hn
  simp only [Int.toNat_natCast, Nat.cast_lt]
  have hr := eq_replicate_of_all ps p0 heq
  generalize ps.length = L at hr
  subst hr
  split_ifs with h
  · rw [List.replicate_append_replicate]; congr 1; omega
  · rw [List.take_replicate]; congr 1; omega

theorem resampleCore_one (p0 : Pt K) (rest : List (Pt K)) (ds : List K) (T : K) :
    resampleCore (p0 :: rest) ds T 1 = .ok (some [p0]) := by
  simp [resampleCore]

theorem target_zero (n s : Nat) : target (0 : K) n s = 0 := by
  unfold target; split_ifs <;> simp

theorem lineLength_nonneg (df : Pt K → Pt K → K) (hdf : NonNeg df) (ps : List (Pt K)) :
    0 ≤ lineLength df ps := by
  rw [lineLength_eq_sum]; exact sum_dists_nonneg df hdf ps

theorem floor_nonneg (trunc : K → Int) (htr : IsFloor trunc) (x : K) (hx : 0 ≤ x) : 0 ≤ trunc x := by
  obtain ⟨_, h2⟩ := htr x hx
  have : (-1 : K) < ((trunc x : Int) : K) := by linarith
  have : (-1 : Int) < trunc x := by exact_mod_cast this
  omega

theorem floor_zero (trunc : K → Int) (htr : IsFloor trunc) : trunc 0 = 0 := by
  obtain ⟨h1, h2⟩ := htr 0 le_rfl
  have h3 : trunc (0 : K) ≤ 0 := by exact_mod_cast h1
  have := floor_nonneg trunc htr 0 le_rfl
  omega

end walk

/-! ### the primed statements -/

section field
variable {K : Type} [Field K] [LinearOrder K] [IsStrictOrderedRing K]

/-- everything about the main path at once -/
theorem resample_main_spec (df : Pt K → Pt K → K) (hdf : NonNeg df) (ps : List (Pt K)) (n : Int)
    (hlen : 2 ≤ ps.length) (hpos : 0 < lineLength df ps) (hne : allEq ps = false) (hn : 1 ≤ n) :
    ∃ (out : List (Pt K)) (seg : Nat → Nat) (par : Nat → K),
      resample df (some ps) n = .ok (some out) ∧ (out.length : Int) = n ∧
      out.head? = ps.head? ∧ (2 ≤ n → out.getLast? = ps.getLast?) ∧
      OnLine ps out seg par ∧ Ordered out.length seg par ∧ Spaced df ps out.length seg par := by
  match ps, hlen, hpos, hne with
  | p0 :: p1 :: rest, hlen, hpos, hne =>
    obtain ⟨out, seg, par, hres, hl, hh, hlast, hloc⟩ := resampleCore_spec df hdf p0 p1 rest n hn hpos
    refine ⟨out, seg, par, ?_, ?_, by simpa using hh, hlast, ?_, ?_, ?_⟩
    · rw [resample_main df _ n hlen hne hn, hres]
    · rw [hl]; exact Int.toNat_of_nonneg (by omega)
    · exact loc_onLine df _ out _ n.toNat seg par hl hloc
    · rw [hl]
      by_cases h1 : n.toNat = 1
      · rw [h1]
        intro k k' hk hk'
        have : k = k' := by omega
        subst this; exact Or.inr ⟨rfl, le_rfl⟩
      · exact loc_ordered df hdf _ out _ hpos n.toNat (by omega) seg par hloc
    · rw [hl]; exact loc_spaced df _ out n.toNat seg par hloc

theorem all_equal_pad_truncate' (df : Pt K → Pt K → K) (ps : List (Pt K)) (p0 : Pt K) (n : Int)
    (hlen : 2 ≤ ps.length) (heq : ∀ p ∈ ps, p = p0) (hn : 0 < n) :
    resample df (some ps) n = .ok (some (List.replicate n.toNat p0)) := by
  rw [resample_eq df ps p0 n hlen heq hn, pad_trunc_replicate ps p0 n heq (by omega)]

theorem all_equal_pad' (df : Pt K → Pt K → K) (ps : List (Pt K)) (p0 : Pt K) (n : Int)
    (hlen : 2 ≤ ps.length) (heq : ∀ p ∈ ps, p = p0) (hn : (ps.length : Int) < n) :
    resample df (some ps) n = .ok (some (ps ++ List.replicate (n.toNat - ps.length) p0)) := by
  rw [resample_eq df ps p0 n hlen heq (by omega), if_pos hn]

theorem all_equal_truncate' (df : Pt K → Pt K → K) (ps : List (Pt K)) (p0 : Pt K) (n : Int)
    (hlen : 2 ≤ ps.length) (heq : ∀ p ∈ ps, p = p0) (hn : 0 < n) (hn' : n ≤ (ps.length : Int)) :
    resample df (some ps) n = .ok (some (ps.take n.toNat)) := by
  rw [resample_eq df ps p0 n hlen heq hn, if_neg (by omega)]

/-- count and endpoints, in the all-equal case too -/
theorem resample_count_endpoints (df : Pt K → Pt K → K) (hdf : NonNeg df) (ps : List (Pt K)) (n : Int)
    (hlen : 2 ≤ ps.length) (hpos : 0 < lineLength df ps) (hn : 1 ≤ n) :
    ∃ out, resample df (some ps) n = .ok (some out) ∧ (out.length : Int) = n ∧ out.head? = ps.head? ∧
      (2 ≤ n → out.getLast? = ps.getLast?) := by
  cases hne : allEq ps with
  | false =>
    obtain ⟨out, _, _, h1, h2, h3, h4, _⟩ := resample_main_spec df hdf ps n hlen hpos hne hn
    exact ⟨out, h1, h2, h3, h4⟩
  | true =>
    match ps, hlen, hne with
    | p0 :: rest, hlen, hne =>
      have heq := (allEq_cons_iff p0 rest).mp hne
      have hN : 0 < n.toNat := by omega
      refine ⟨List.replicate n.toNat p0, all_equal_pad_truncate' df _ p0 n hlen heq (by omega), ?_, ?_, ?_⟩
      · simp; omega
      · rw [List.head?_replicate]; simp; omega
      · intro _
        have hr := eq_replicate_of_all (p0 :: rest) p0 heq
        rw [hr, List.getLast?_replicate, List.getLast?_replicate]
        simp; omega

theorem resample_count' (df : Pt K → Pt K → K) (hdf : NonNeg df) (ps : List (Pt K)) (n : Int)
    (hlen : 2 ≤ ps.length) (hpos : 0 < lineLength df ps) (hn : 1 ≤ n) :
    ∃ out, resample df (some ps) n = .ok (some out) ∧ (out.length : Int) = n := by
  obtain ⟨out, h1, h2, _⟩ := resample_count_endpoints df hdf ps n hlen hpos hn
  exact ⟨out, h1, h2⟩

theorem resample_endpoints' (df : Pt K → Pt K → K) (hdf : NonNeg df) (ps : List (Pt K)) (n : Int)
    (hlen : 2 ≤ ps.length) (hpos : 0 < lineLength df ps) (hn : 1 ≤ n) :
    ∃ out, resample df (some ps) n = .ok (some out) ∧ out.head? = ps.head? ∧
      (2 ≤ n → out.getLast? = ps.getLast?) := by
  obtain ⟨out, h1, _, h3, h4⟩ := resample_count_endpoints df hdf ps n hlen hpos hn
  exact ⟨out, h1, h3, h4⟩

theorem resample_on_line' (df : Pt K → Pt K → K) (hdf : NonNeg df) (ps : List (Pt K)) (n : Int)
    (hlen : 2 ≤ ps.length) (hpos : 0 < lineLength df ps) (hne : allEq ps = false) (hn : 1 ≤ n) :
    ∃ out seg par, resample df (some ps) n = .ok (some out) ∧ OnLine ps out seg par := by
  obtain ⟨out, seg, par, h1, _, _, _, h5, _⟩ := resample_main_spec df hdf ps n hlen hpos hne hn
  exact ⟨out, seg, par, h1, h5⟩

theorem resample_order' (df : Pt K → Pt K → K) (hdf : NonNeg df) (ps : List (Pt K)) (n : Int)
    (hlen : 2 ≤ ps.length) (hpos : 0 < lineLength df ps) (hne : allEq ps = false) (hn : 1 ≤ n) :
    ∃ out seg par, resample df (some ps) n = .ok (some out) ∧ OnLine ps out seg par ∧
      Ordered out.length seg par := by
  obtain ⟨out, seg, par, h1, _, _, _, h5, h6, _⟩ := resample_main_spec df hdf ps n hlen hpos hne hn
  exact ⟨out, seg, par, h1, h5, h6⟩

theorem resample_spacing' (df : Pt K → Pt K → K) (hdf : NonNeg df) (ps : List (Pt K)) (n : Int)
    (hlen : 2 ≤ ps.length) (hpos : 0 < lineLength df ps) (hne : allEq ps = false) (hn : 1 ≤ n) :
    ∃ out seg par, resample df (some ps) n = .ok (some out) ∧ (out.length : Int) = n ∧
      OnLine ps out seg par ∧ Ordered out.length seg par ∧ Spaced df ps out.length seg par := by
  obtain ⟨out, seg, par, h1, h2, _, _, h5, h6, h7⟩ := resample_main_spec df hdf ps n hlen hpos hne hn
  exact ⟨out, seg, par, h1, h2, h5, h6, h7⟩

theorem resample_spacing_df' (df : Pt K → Pt K → K) (hdf : NonNeg df) (hlin : LinearAlong df)
    (ps : List (Pt K)) (n : Int)
    (hlen : 2 ≤ ps.length) (hpos : 0 < lineLength df ps) (hne : allEq ps = false) (hn : 1 ≤ n) :
    ∃ out seg par, resample df (some ps) n = .ok (some out) ∧ (out.length : Int) = n ∧
      OnLine ps out seg par ∧ Ordered out.length seg par ∧ SpacedDf df ps out seg := by
  obtain ⟨out, seg, par, h1, h2, _, _, h5, h6, h7⟩ := resample_main_spec df hdf ps n hlen hpos hne hn
  exact ⟨out, seg, par, h1, h2, h5, h6, spacedDf_of_spaced df hlin ps out seg par h5 h7⟩

theorem resample_gap_df' (df : Pt K → Pt K → K) (hdf : NonNeg df) (hlin : LinearAlong df)
    (ps : List (Pt K)) (n : Int)
    (hlen : 2 ≤ ps.length) (hpos : 0 < lineLength df ps) (hne : allEq ps = false) (hn : 1 ≤ n) :
    ∃ out seg par, resample df (some ps) n = .ok (some out) ∧ (out.length : Int) = n ∧
      OnLine ps out seg par ∧ Ordered out.length seg par ∧
      ∀ k, k + 1 < out.length →
        alongDf df ps (seg (k + 1)) (out.getD (k + 1) ⟨0, 0⟩) - alongDf df ps (seg k) (out.getD k ⟨0, 0⟩)
          = lineLength df ps / ((out.length - 1 : Nat) : K) := by
  obtain ⟨out, seg, par, h1, h2, h3, h4, h5⟩ := resample_spacing_df' df hdf hlin ps n hlen hpos hne hn
  exact ⟨out, seg, par, h1, h2, h3, h4, fun k hk => gap_of_spacedDf df ps out seg h5 k hk⟩

theorem allEq_length_zero' (df : Pt K → Pt K → K) (h0 : ∀ p, df p p = 0) (ps : List (Pt K))
    (he : allEq ps = true) : lineLength df ps = 0 := by
  rw [lineLength_eq_sum]
  apply List.sum_eq_zero
  intro x hx
  match ps, he with
  | [], _ => simp [dists] at hx
  | p0 :: rest, he =>
    have heq := (allEq_cons_iff p0 rest).mp he
    simp only [dists, List.mem_iff_getElem, List.length_zipWith, List.getElem_zipWith] at hx
    obtain ⟨i, hi, rfl⟩ := hx
    rw [heq _ (List.getElem_mem _), heq _ (List.mem_of_mem_tail (List.getElem_mem _))]
    exact h0 p0

theorem resample_nonpos' (df : Pt K → Pt K → K) (ls : Line K) (n : Int) (hn : n ≤ 0) :
    resample df ls n = .ok none := by
  simp [resample, hn]

theorem interval_nonpos' (trunc : K → Int) (df : Pt K → Pt K → K) (ls : Line K) (d : K) (hd : d ≤ 0) :
    toInterval trunc df ls d = .ok none := by
  simp [toInterval, hd]

theorem short_identity' (df : Pt K → Pt K → K) (ls : Line K) (n : Int) (hlen : ls.pts.length ≤ 1) (hn : 0 < n) :
    resample df ls n = .ok ls := by
  have h0 : ¬ n ≤ 0 := by omega
  simp [resample, h0, edgeCases_short ls n hlen]

theorem interval_eq_resample' (trunc : K → Int) (df : Pt K → Pt K → K) (ls : Line K) (d : K)
    (hd : 0 < d) (hn : 0 < trunc (lineLength df ls.pts / d) + 1) :
    toInterval trunc df ls d = resample df ls (trunc (lineLength df ls.pts / d) + 1) := by
  have hd' : ¬ d ≤ 0 := not_le.mpr hd
  by_cases hlen : ls.pts.length ≤ 1
  · rw [short_identity' df ls _ hlen hn]
    simp [toInterval, hd', hlen]
  match hp : ls.pts, hlen, hn with
  | [], hlen, _ => simp at hlen
  | p :: rest, hlen, hn =>
    have h0 : ¬ (trunc (lineLength df (p :: rest) / d) + 1 ≤ 0) := by omega
    simp only [toInterval, resample, hd', h0, if_false, hp, hlen, precompute_cons]

theorem interval_short_identity' (trunc : K → Int) (df : Pt K → Pt K → K) (ls : Line K) (d : K)
    (hlen : ls.pts.length ≤ 1) (hd : 0 < d) :
    toInterval trunc df ls d = .ok ls := by
  have hd' : ¬ d ≤ 0 := not_le.mpr hd
  simp [toInterval, hd', hlen]

theorem interval_n_pos (trunc : K → Int) (htr : IsFloor trunc) (df : Pt K → Pt K → K) (hdf : NonNeg df)
    (ps : List (Pt K)) (d : K) (hd : 0 < d) : 0 ≤ trunc (lineLength df ps / d) :=
  floor_nonneg trunc htr _ (div_nonneg (lineLength_nonneg df hdf ps) hd.le)

theorem interval_count' (trunc : K → Int) (htr : IsFloor trunc) (df : Pt K → Pt K → K) (hdf : NonNeg df)
    (ps : List (Pt K)) (d : K) (hlen : 2 ≤ ps.length) (hpos : 0 < lineLength df ps) (hd : 0 < d) :
    ∃ out, toInterval trunc df (some ps) d = .ok (some out) ∧
      ∃ m : Nat, (m : K) ≤ lineLength df ps / d ∧ lineLength df ps / d < (m : K) + 1 ∧ out.length = m + 1 := by
  have hx : 0 ≤ lineLength df ps / d := div_nonneg hpos.le hd.le
  have hn0 := interval_n_pos trunc htr df hdf ps d hd
  rw [interval_eq_resample' trunc df (some ps) d hd (by simp only [Line.pts, Option.getD_some]; omega)]
  simp only [Line.pts, Option.getD_some]
  obtain ⟨out, h1, h2⟩ := resample_count' df hdf ps _ hlen hpos (show 1 ≤ trunc (lineLength df ps / d) + 1 by omega)
  obtain ⟨hf1, hf2⟩ := htr _ hx
  obtain ⟨m, hm⟩ := Int.eq_ofNat_of_zero_le hn0
  rw [hm] at hf1 hf2 h2
  refine ⟨out, h1, m, by exact_mod_cast hf1, by exact_mod_cast hf2, by exact_mod_cast h2⟩

theorem interval_sampling' (trunc : K → Int) (htr : IsFloor trunc) (df : Pt K → Pt K → K) (hdf : NonNeg df)
    (ps : List (Pt K)) (d : K) (hlen : 2 ≤ ps.length) (hpos : 0 < lineLength df ps)
    (hne : allEq ps = false) (hd : 0 < d) :
    ∃ out seg par, toInterval trunc df (some ps) d = .ok (some out) ∧
      out.head? = ps.head? ∧ (2 ≤ out.length → out.getLast? = ps.getLast?) ∧
      OnLine ps out seg par ∧ Ordered out.length seg par ∧ Spaced df ps out.length seg par := by
  have hn0 := interval_n_pos trunc htr df hdf ps d hd
  rw [interval_eq_resample' trunc df (some ps) d hd (by simp only [Line.pts, Option.getD_some]; omega)]
  simp only [Line.pts, Option.getD_some]
  obtain ⟨out, seg, par, h1, h2, h3, h4, h5, h6, h7⟩ :=
    resample_main_spec df hdf ps _ hlen hpos hne (show 1 ≤ trunc (lineLength df ps / d) + 1 by omega)
  refine ⟨out, seg, par, h1, h3, ?_, h5, h6, h7⟩
  intro h; apply h4; omega

theorem interval_spacing_df' (trunc : K → Int) (htr : IsFloor trunc) (df : Pt K → Pt K → K) (hdf : NonNeg df)
    (hlin : LinearAlong df) (ps : List (Pt K)) (d : K) (hlen : 2 ≤ ps.length) (hpos : 0 < lineLength df ps)
    (hne : allEq ps = false) (hd : 0 < d) :
    ∃ out seg par, toInterval trunc df (some ps) d = .ok (some out) ∧
      OnLine ps out seg par ∧ Ordered out.length seg par ∧ SpacedDf df ps out seg := by
  obtain ⟨out, seg, par, h1, _, _, h4, h5, h6⟩ := interval_sampling' trunc htr df hdf ps d hlen hpos hne hd
  exact ⟨out, seg, par, h1, h4, h5, spacedDf_of_spaced df hlin ps out seg par h4 h6⟩

theorem interval_all_equal' (trunc : K → Int) (htr : IsFloor trunc) (df : Pt K → Pt K → K) (hdf : NonNeg df)
    (ps : List (Pt K)) (p0 : Pt K) (d : K) (hlen : 2 ≤ ps.length) (heq : ∀ p ∈ ps, p = p0) (hd : 0 < d) :
    toInterval trunc df (some ps) d =
      .ok (some (List.replicate (trunc (lineLength df ps / d) + 1).toNat p0)) := by
  have hn0 := interval_n_pos trunc htr df hdf ps d hd
  rw [interval_eq_resample' trunc df (some ps) d hd (by simp only [Line.pts, Option.getD_some]; omega)]
  simp only [Line.pts, Option.getD_some]
  exact all_equal_pad_truncate' df ps p0 _ hlen heq (by omega)

/-- on a line of zero computed length every step target is `0`: the first segment takes all the
    remaining points, each equal to its start vertex -/
theorem inner_zero (n : Nat) (a b : Pt K) (segd next : K) (hnext : 0 ≤ next) :
    ∀ (fuel s : Nat), n + 1 ≤ s + fuel → s ≤ n →
      inner (0 : K) n a b segd 0 next fuel s 0 = some (List.replicate (n - s) a, n, 0) := by
  intro fuel
  induction fuel with
  | zero =>
    intro s h1 h2; omega
  | succ fuel ih =>
    intro s h1 h2
    rw [inner]
    by_cases hs : s < n
    · have hp : lerp a b (if 0 < segd then ((0 : K) - 0) / segd else 0) = a := by
        split_ifs <;> simp [lerp_zero]
      simp only [hnext, hs, and_self, if_true, target_zero, ih (s + 1) (by omega) (by omega), hp]
      have : n - s = (n - (s + 1)) + 1 := by omega
      rw [this, List.replicate_succ]
    · have : s = n := by omega
      subst this
      simp

theorem walk_done (T : K) (n fuel : Nat) :
    ∀ (qs : List (Pt K)) (ds : List K) (dist : K) (s : Nat) (cur : K), n ≤ s →
      walk T n fuel qs ds dist s cur = some [] := by
  intro qs
  induction qs with
  | nil => intro ds dist s cur _; simp [walk]
  | cons a tl ih =>
    intro ds dist s cur hs
    match tl, ds, ih with
    | [], _, _ => simp [walk]
    | b :: rest, [], _ => simp [walk]
    | b :: rest, d :: ds, ih =>
      rw [walk]
      have : inner T n a b d dist (dist + d) fuel s cur = some ([], s, cur) := by
        unfold inner; simp [not_lt.mpr hs]
      simp only [this, ih ds (dist + d) s cur hs, List.nil_append]

theorem resample_zero_length' (df : Pt K → Pt K → K) (hdf : NonNeg df) (ps : List (Pt K)) (n : Int)
    (hlen : 2 ≤ ps.length) (hne : allEq ps = false) (hzero : lineLength df ps = 0) (hn : 2 ≤ n) :
    ∃ p0 last, ps.head? = some p0 ∧ ps.getLast? = some last ∧
      resample df (some ps) n = .ok (some (List.replicate (n.toNat - 1) p0 ++ [last])) := by
  rw [resample_main df ps n hlen hne (by omega), hzero]
  match ps, hlen with
  | p0 :: p1 :: rest, _ =>
    obtain ⟨N, rfl⟩ := Int.eq_ofNat_of_zero_le (show 0 ≤ n by omega)
    have hN : 2 ≤ N := by exact_mod_cast hn
    have h1 : ¬ ((N : Int) < 1) := by omega
    have h2 : ¬ (N = 1) := by omega
    have hw : walk (0 : K) N (walkFuel N) (p0 :: p1 :: rest) (dists df (p0 :: p1 :: rest)) 0 1
        (0 / ((N - 1 : Nat) : K)) = some (List.replicate (N - 1) p0) := by
      rw [dists_cons2, walk, zero_div,
        inner_zero N p0 p1 (df p0 p1) (0 + df p0 p1) (by simpa using hdf p0 p1) (walkFuel N) 1
          (by simp [walkFuel]) (by omega)]
      simp only [walk_done (0 : K) N (walkFuel N) _ _ _ N _ le_rfl, List.append_nil]
    refine ⟨p0, (p0 :: p1 :: rest).getLast (by simp), rfl, List.getLast?_eq_some_getLast _, ?_⟩
    simp only [resampleCore, h1, if_false, Int.toNat_natCast, beq_iff_eq, h2, hw]
    have hl : ¬ ((p0 :: List.replicate (N - 1) p0).length < N) := by simp; omega
    simp only [hl, if_false]
    congr 2
    rw [← List.replicate_succ]
    have : N - 1 + 1 = (N - 1) + 1 := rfl
    apply List.ext_getElem?
    intro i
    rw [List.getElem?_set]
    by_cases hi : N - 1 = i
    · subst hi; simp
    · simp only [hi, if_false]
      by_cases hi2 : i < N - 1
      · rw [List.getElem?_append_left (by simpa using hi2)]
        simp [List.getElem?_replicate, hi2]; omega
      · rw [List.getElem?_append_right (by simp; omega)]
        simp [List.getElem?_replicate]
        have : ¬ i < N - 1 + 1 := by omega
        simp [this]; omega

theorem resample_total' (df : Pt K → Pt K → K) (hdf : NonNeg df) (ls : Line K) (n : Int) :
    (resample df ls n).isOk = true := by
  by_cases hn : n ≤ 0
  · rw [resample_nonpos' df ls n hn]; rfl
  by_cases hlen : ls.pts.length ≤ 1
  · rw [short_identity' df ls n hlen (by omega)]; rfl
  match ls, hlen with
  | none, hlen => simp [Line.pts] at hlen
  | some ps, hlen =>
    simp only [Line.pts, Option.getD_some] at hlen
    have hlen2 : 2 ≤ ps.length := by omega
    cases hne : allEq ps with
    | true =>
      match ps, hlen2, hne with
      | p0 :: rest, hlen2, hne =>
        rw [all_equal_pad_truncate' df _ p0 n hlen2 ((allEq_cons_iff p0 rest).mp hne) (by omega)]; rfl
    | false =>
      rcases (lineLength_nonneg df hdf ps).lt_or_eq with hpos | hz
      · obtain ⟨out, h1, _⟩ := resample_count' df hdf ps n hlen2 hpos (by omega)
        rw [h1]; rfl
      · by_cases hn1 : n = 1
        · subst hn1
          rw [resample_main df ps 1 hlen2 hne le_rfl]
          match ps, hlen2 with
          | p0 :: rest, _ => rw [resampleCore_one]; rfl
        · obtain ⟨_, _, _, _, h⟩ := resample_zero_length' df hdf ps n hlen2 hne hz.symm (by omega)
          rw [h]; rfl

theorem interval_total' (trunc : K → Int) (htr : IsFloor trunc) (df : Pt K → Pt K → K) (hdf : NonNeg df)
    (ls : Line K) (d : K) :
    (toInterval trunc df ls d).isOk = true := by
  by_cases hd : d ≤ 0
  · rw [interval_nonpos' trunc df ls d hd]; rfl
  have hd' : 0 < d := not_le.mp hd
  have hn0 := interval_n_pos trunc htr df hdf ls.pts d hd'
  rw [interval_eq_resample' trunc df ls d hd' (by omega)]
  exact resample_total' df hdf ls _

end field

end Orb.Resample
