/-
  C03 wire lemmas, part 3: the scanner terminates — with the number of bytes as fuel no loop of
  `Orb.ProtoWire` runs out of it (every round consumes the key, at least one byte), so
  `decodeTile` and `unmarshalBytes` never panic, on any byte string.
-/
import OrbProofs.C03WireVarint
import OrbProofs.C03Total

namespace Orb.ProtoWire
open Orb Orb.MVT

theorem packedLength_spec {bs r : Bytes} {l : Nat} (h : packedLength bs = some (l, r)) :
    r.length < bs.length ∧ l ≤ r.length := by
  unfold packedLength at h
  cases hv : varint64 bs with
  | none => simp [hv] at h
  | some lr =>
    obtain ⟨l0, r0⟩ := lr
    have hr := varint64_rest_lt hv
    simp only [hv] at h
    by_cases h1 : 2^63 ≤ l0
    · simp [h1] at h
    · by_cases h2 : r0.length < l0
      · simp [h1, h2] at h
      · simp only [h1, h2, if_false, Option.some.injEq, Prod.mk.injEq] at h
        obtain ⟨e1, e2⟩ := h
        subst e1 e2
        omega

theorem takeDelim_rest_le {bs p r : Bytes} (h : takeDelim bs = some (p, r)) :
    r.length ≤ bs.length ∧ p.length ≤ bs.length := by
  unfold takeDelim at h
  cases hv : packedLength bs with
  | none => simp [hv] at h
  | some lr =>
    obtain ⟨l, r0⟩ := lr
    have := packedLength_spec hv
    simp only [hv, Option.some.injEq, Prod.mk.injEq] at h
    obtain ⟨h1, h2⟩ := h
    subst h1 h2
    simp only [List.length_take, List.length_drop]
    omega

theorem skip_rest_le {wt : Nat} {bs r : Bytes} (h : skip wt bs = some r) : r.length ≤ bs.length := by
  unfold skip at h
  split at h
  · cases hv : varint64 bs with
    | none => simp [hv] at h
    | some lr =>
      obtain ⟨l, r0⟩ := lr
      have := varint64_rest_lt hv
      simp [hv] at h; subst h; omega
  · split at h
    · split at h
      · simp at h
      · simp at h; subst h; simp
    · split at h
      · cases hv : takeDelim bs with
        | none => simp [hv] at h
        | some pr =>
          obtain ⟨p, r0⟩ := pr
          have := (takeDelim_rest_le hv).1
          simp [hv] at h; subst h; omega
      · split at h
        · split at h
          · simp at h
          · simp at h; subst h; simp
        · simp at h; subst h; omega

theorem readString_rest_le {bs r : Bytes} {s : String} (h : readString bs = .ok (s, r)) :
    r.length ≤ bs.length := by
  unfold readString at h
  cases hv : takeDelim bs with
  | none => simp [hv] at h
  | some pr =>
    obtain ⟨p, r0⟩ := pr
    have := (takeDelim_rest_le hv).1
    simp only [hv] at h
    split at h
    · simp only [Res.ok.injEq, Prod.mk.injEq] at h; obtain ⟨_, h⟩ := h; subst h; omega
    · simp at h

theorem readString_ne_panic (bs : Bytes) (w : String) : readString bs ≠ .panic w := by
  unfold readString
  split
  · simp
  · split <;> simp

theorem unpackU32F_ne_panic (fuel : Nat) : ∀ (bs : Bytes) (w : String), bs.length ≤ fuel →
    unpackU32F fuel bs ≠ .panic w := by
  induction fuel with
  | zero =>
    intro bs w h
    cases bs with
    | nil => simp [unpackU32F]
    | cons _ _ => simp at h
  | succ f ih =>
    intro bs w h
    cases bs with
    | nil => simp [unpackU32F]
    | cons b bs =>
      unfold unpackU32F
      cases hv : varint32 (b :: bs) with
      | none => simp
      | some vr =>
        obtain ⟨v, r⟩ := vr
        have hr := varint32_rest_lt hv
        simp only [List.length_cons] at h hr
        simp only
        split
        · simp
        · simp
        · next s hs => exact absurd hs (ih _ _ (by omega))

theorem unpackU32_ne_panic (bs : Bytes) (w : String) : unpackU32 bs ≠ .panic w :=
  unpackU32F_ne_panic _ _ _ (Nat.le_refl _)

macro "rest_le" : tactic => `(tactic| first
  | (have := varint64_rest_lt (by assumption); omega)
  | (have := varint32_rest_lt (by assumption); omega)
  | (have := (takeDelim_rest_le (by assumption)).1; omega)
  | (have := skip_rest_le (by assumption); omega)
  | (have := readString_rest_le (by assumption); omega))

theorem decodeValueF_ne_panic (fuel : Nat) : ∀ (bs : Bytes) (w : String), bs.length ≤ fuel →
    decodeValueF fuel bs ≠ .panic w := by
  induction fuel with
  | zero =>
    intro bs w h
    cases bs with
    | nil => simp [decodeValueF]
    | cons _ _ => simp at h
  | succ f ih =>
    intro bs w h
    cases bs with
    | nil => simp [decodeValueF]
    | cons b bs =>
      unfold decodeValueF
      cases hk : varint64 (b :: bs) with
      | none => simp
      | some kr =>
        obtain ⟨k, r⟩ := kr
        have hr := varint64_rest_lt hk
        simp only [List.length_cons] at h hr
        dsimp only
        repeat' split
        all_goals first
          | (simp; done)
          | exact absurd (by assumption) (readString_ne_panic _ _)
          | (apply ih; rest_le)

theorem decodeValue_ne_panic (bs : Bytes) (w : String) : decodeValue bs ≠ .panic w :=
  decodeValueF_ne_panic _ _ _ (Nat.le_refl _)

theorem featLoop_ne_panic (fuel : Nat) : ∀ (bs : Bytes) (st : FeatSt) (w : String), bs.length ≤ fuel →
    featLoop fuel bs st ≠ .panic w := by
  induction fuel with
  | zero =>
    intro bs st w h
    cases bs with
    | nil => simp [featLoop]
    | cons _ _ => simp at h
  | succ f ih =>
    intro bs st w h
    cases bs with
    | nil => simp [featLoop]
    | cons b bs =>
      unfold featLoop
      cases hk : varint64 (b :: bs) with
      | none => simp
      | some kr =>
        obtain ⟨k, r⟩ := kr
        have hr := varint64_rest_lt hk
        simp only [List.length_cons] at h hr
        dsimp only
        repeat' split
        all_goals first
          | (simp; done)
          | exact absurd (by assumption) (unpackU32_ne_panic _ _)
          | (apply ih; rest_le)

theorem decodeFeatureMsg_ne_panic (bs : Bytes) (w : String) : decodeFeatureMsg bs ≠ .panic w := by
  unfold decodeFeatureMsg
  repeat' split
  all_goals first
    | (simp; done)
    | exact absurd (by assumption) (unpackU32_ne_panic _ _)
    | exact absurd (by assumption) (featLoop_ne_panic _ _ _ _ (Nat.le_refl _))

theorem decodeFeatureMsgs_ne_panic (ms : List Bytes) (w : String) : decodeFeatureMsgs ms ≠ .panic w := by
  induction ms generalizing w with
  | nil => simp [decodeFeatureMsgs]
  | cons m ms ih =>
    unfold decodeFeatureMsgs
    repeat' split
    all_goals first
      | (simp; done)
      | exact absurd (by assumption) (ih _)
      | exact absurd (by assumption) (decodeFeatureMsg_ne_panic _ _)

theorem layerLoop_ne_panic (fuel : Nat) : ∀ (bs : Bytes) (st : LayerSt) (w : String), bs.length ≤ fuel →
    layerLoop fuel bs st ≠ .panic w := by
  induction fuel with
  | zero =>
    intro bs st w h
    cases bs with
    | nil => simp [layerLoop]
    | cons _ _ => simp at h
  | succ f ih =>
    intro bs st w h
    cases bs with
    | nil => simp [layerLoop]
    | cons b bs =>
      unfold layerLoop
      cases hk : varint64 (b :: bs) with
      | none => simp
      | some kr =>
        obtain ⟨k, r⟩ := kr
        have hr := varint64_rest_lt hk
        simp only [List.length_cons] at h hr
        dsimp only
        repeat' split
        all_goals first
          | (simp; done)
          | exact absurd (by assumption) (readString_ne_panic _ _)
          | exact absurd (by assumption) (decodeValue_ne_panic _ _)
          | (apply ih; rest_le)

theorem decodeLayerMsg_ne_panic (bs : Bytes) (w : String) : decodeLayerMsg bs ≠ .panic w := by
  unfold decodeLayerMsg
  repeat' split
  all_goals first
    | (simp; done)
    | exact absurd (by assumption) (decodeFeatureMsgs_ne_panic _ _)
    | exact absurd (by assumption) (layerLoop_ne_panic _ _ _ _ (Nat.le_refl _))

theorem tileLoop_ne_panic (fuel : Nat) : ∀ (bs : Bytes) (acc : List VTLayer) (w : String), bs.length ≤ fuel →
    tileLoop fuel bs acc ≠ .panic w := by
  induction fuel with
  | zero =>
    intro bs acc w h
    cases bs with
    | nil => simp [tileLoop]
    | cons _ _ => simp at h
  | succ f ih =>
    intro bs acc w h
    cases bs with
    | nil => simp [tileLoop]
    | cons b bs =>
      unfold tileLoop
      cases hk : varint64 (b :: bs) with
      | none => simp
      | some kr =>
        obtain ⟨k, r⟩ := kr
        have hr := varint64_rest_lt hk
        simp only [List.length_cons] at h hr
        dsimp only
        repeat' split
        all_goals first
          | (simp; done)
          | exact absurd (by assumption) (decodeLayerMsg_ne_panic _ _)
          | (apply ih; rest_le)

/-- The scanner never runs out of fuel: `decodeTile` does not panic on any byte string. -/
theorem decodeTile_total' (bs : Bytes) : (decodeTile bs).isPanic = false := by
  cases h : decodeTile bs with
  | ok _ => rfl
  | err _ => rfl
  | panic w => exact absurd h (tileLoop_ne_panic _ _ _ _ (Nat.le_refl _))

/-- `mvt.Unmarshal` on bytes never panics (scanner, structure decoders, gzip test). -/
theorem unmarshalBytes_total' (bs : Bytes) : (unmarshalBytes bs).isPanic = false := by
  unfold unmarshalBytes unmarshalBytesWith
  apply unmarshal_top_total'
  cases h : decodeTile bs with
  | ok t => exact unmarshal_total' t
  | err _ => rfl
  | panic w => exact absurd h (tileLoop_ne_panic _ _ _ _ (Nat.le_refl _))

/-- … whatever orientation function the polygon decoder is run with. -/
theorem unmarshalBytesWith_total' (ori : List (Pt Int) → Int) (bs : Bytes) :
    (unmarshalBytesWith ori bs).isPanic = false := by
  unfold unmarshalBytesWith
  apply unmarshal_top_total'
  cases h : decodeTile bs with
  | ok t => exact (unmarshal_total_ori' ori t).1
  | err _ => rfl
  | panic w => exact absurd h (tileLoop_ne_panic _ _ _ _ (Nat.le_refl _))

end Orb.ProtoWire
