/-
  C01 helper lemmas: normal form of the encoder, lengths, and "consume" lemmas for the
  byte-slice decoder.
-/
import OrbProofs.C01Bytes

namespace Orb.WKB
open Orb Generated.Params

/-! ### normal form of the encoder -/

def tcode : G → Nat
  | .point _ => 1
  | .multiPoint _ => 4
  | .lineString _ => 2
  | .multiLineString _ => 5
  | .ring _ => 3
  | .polygon _ => 3
  | .multiPolygon _ => 6
  | .bound _ _ => 3
  | .collection _ => 7

def polyBody (o : Order) (rs : List (List (Pt UInt64))) : Bytes :=
  u32 o rs.length ++ rs.flatMap (encRingBody o)

def body (o : Order) : G → Bytes
  | .point p => encPt o p
  | .multiPoint ps => u32 o ps.length ++ ps.flatMap (encPoint o 0)
  | .lineString ps => encRingBody o ps
  | .multiLineString ls => u32 o ls.length ++ ls.flatMap (encLineString o 0)
  | .ring r => polyBody o [r]
  | .polygon rs => polyBody o rs
  | .multiPolygon ps => u32 o ps.length ++ ps.flatMap (encPolygon o 0)
  | .bound a b => polyBody o [boundRing a b]
  | .collection gs => u32 o gs.length ++ encGeom.encList o gs

theorem tcode_TC (g : G) : TC (tcode g) := by
  cases g <;> simp [tcode, TC]

theorem encPoint_eq (o : Order) (srid : Nat) (p : Pt UInt64) :
    encPoint o srid p = orderByte o :: (hdr o 1 srid ++ encPt o p) := by
  simp only [encPoint, hdr, wkb_pointType]

theorem encLineString_eq (o : Order) (srid : Nat) (ps : List (Pt UInt64)) :
    encLineString o srid ps = orderByte o :: (hdr o 2 srid ++ encRingBody o ps) := by
  simp [encLineString, typePrefix_eq, encRingBody, wkb_lineStringType]

theorem encPolygon_eq (o : Order) (srid : Nat) (rs : List (List (Pt UInt64))) :
    encPolygon o srid rs = orderByte o :: (hdr o 3 srid ++ polyBody o rs) := by
  simp [encPolygon, typePrefix_eq, polyBody, wkb_polygonType]

theorem encGeom_eq (o : Order) (srid : Nat) (g : G) :
    encGeom o srid g = orderByte o :: (hdr o (tcode g) srid ++ body o g) := by
  cases g <;>
    simp [encGeom, encPoint_eq, encLineString_eq, encPolygon_eq, encMultiPoint, encMultiLineString,
      encMultiPolygon, typePrefix_eq, tcode, body, wkb_multiPointType, wkb_multiLineStringType,
      wkb_multiPolygonType, wkb_geometryCollectionType]

/-! ### lengths -/

theorem flatMap_encPt_length (o : Order) (ps : List (Pt UInt64)) :
    (ps.flatMap (encPt o)).length = 16 * ps.length := by
  induction ps with
  | nil => rfl
  | cons p ps ih => simp only [List.flatMap_cons, List.length_append, encPt_length, ih, List.length_cons]; omega

theorem encRingBody_length (o : Order) (ps : List (Pt UInt64)) :
    (encRingBody o ps).length = 4 + 16 * ps.length := by
  simp only [encRingBody, List.length_append, u32_length, flatMap_encPt_length]

theorem encPoint0_length (o : Order) (p : Pt UInt64) : (encPoint o 0 p).length = 21 := by
  simp [encPoint_eq, hdr_zero, u32_length, encPt_length]

theorem encLineString0_length (o : Order) (ps : List (Pt UInt64)) :
    (encLineString o 0 ps).length = 16 * ps.length + 9 := by
  simp [encLineString_eq, hdr_zero, u32_length, encRingBody_length]; omega

theorem flatMap_encRingBody_length (o : Order) (rs : List (List (Pt UInt64))) :
    (rs.flatMap (encRingBody o)).length = (rs.map fun r => 4 + 16 * r.length).sum := by
  induction rs with
  | nil => rfl
  | cons r rs ih => simp [encRingBody_length, ih]

theorem encPolygon0_length (o : Order) (rs : List (List (Pt UInt64))) :
    (encPolygon o 0 rs).length = polyStride rs := by
  simp only [encPolygon_eq, hdr_zero, u32_length, polyBody, flatMap_encRingBody_length, polyStride,
    List.length_cons, List.length_append]; omega

theorem body_length_pos (o : Order) (g : G) : 4 ≤ (body o g).length := by
  cases g <;> simp only [body, polyBody, List.length_append, u32_length, encPt_length, encRingBody_length] <;> omega

/-! ### byte-slice decoder: consume lemmas -/

theorem rd64_encPt_x (o : Order) (p : Pt UInt64) (rest : Bytes) : rd64 o (encPt o p ++ rest) = p.x := by
  simp only [encPt, List.append_assoc, rd64_u64]

theorem drop8_encPt (o : Order) (p : Pt UInt64) (rest : Bytes) :
    (encPt o p ++ rest).drop 8 = u64 o p.y ++ rest := by
  simp only [encPt, List.append_assoc]
  exact List.drop_left' (u64_length o p.x)

theorem drop16_encPt (o : Order) (p : Pt UInt64) (rest : Bytes) : (encPt o p ++ rest).drop 16 = rest :=
  List.drop_left' (encPt_length o p)

theorem unmarshalPoint_encPt (o : Order) (p : Pt UInt64) (rest : Bytes) :
    unmarshalPoint o (encPt o p ++ rest) = .ok p := by
  unfold unmarshalPoint
  have : ¬ (encPt o p ++ rest).length < 16 := by
    simp only [List.length_append, encPt_length]; omega
  rw [if_neg this, rd64_encPt_x, drop8_encPt, rd64_u64]

theorem readPts_enc (o : Order) (ps : List (Pt UInt64)) (rest : Bytes) :
    readPts o (ps.flatMap (encPt o) ++ rest) ps.length = ps := by
  induction ps with
  | nil => rfl
  | cons p ps ih =>
    simp only [List.flatMap_cons, List.length_cons, readPts, List.append_assoc, rd64_encPt_x, drop8_encPt,
      rd64_u64, drop16_encPt, ih]

theorem unmarshalPoints_enc (o : Order) (ps : List (Pt UInt64)) (rest : Bytes) (h : ps.length < 2 ^ 32) :
    unmarshalPoints o (encRingBody o ps ++ rest) = .ok ps := by
  unfold unmarshalPoints
  have h1 : ¬ (encRingBody o ps ++ rest).length < 4 := by
    simp only [List.length_append, encRingBody_length]; omega
  rw [if_neg h1]
  simp only [encRingBody, List.append_assoc, rd32_u32' _ _ _ h, drop_u32]
  have h2 : ¬ (ps.flatMap (encPt o) ++ rest).length < ps.length * 16 := by
    simp only [List.length_append, flatMap_encPt_length]; omega
  rw [if_neg h2, readPts_enc]

theorem sliceFrom_append (l rest : Bytes) (n : Nat) (h : l.length = n) :
    sliceFrom (l ++ rest) n = .ok rest := by
  unfold sliceFrom
  have : n ≤ (l ++ rest).length := by simp only [List.length_append]; omega
  rw [if_pos this, List.drop_left' h]

theorem unmarshalPolygon_loop_enc (o : Order) (rs : List (List (Pt UInt64))) (rest : Bytes)
    (h : ∀ r ∈ rs, r.length < 2 ^ 32) :
    unmarshalPolygon.loop o rs.length (rs.flatMap (encRingBody o) ++ rest) = .ok rs := by
  induction rs with
  | nil => rfl
  | cons r rs ih =>
    have hr : r.length < 2 ^ 32 := h r (by simp)
    have hrs : ∀ r ∈ rs, r.length < 2 ^ 32 := fun r' hr' => h r' (by simp [hr'])
    simp only [List.flatMap_cons, List.length_cons, unmarshalPolygon.loop, List.append_assoc,
      unmarshalPoints_enc o r _ hr]
    rw [sliceFrom_append _ _ _ (by rw [encRingBody_length]; omega)]
    simp only [ih hrs]

theorem unmarshalPolygon_enc (o : Order) (rs : List (List (Pt UInt64))) (rest : Bytes)
    (hl : rs.length < 2 ^ 32) (h : ∀ r ∈ rs, r.length < 2 ^ 32) :
    unmarshalPolygon o (polyBody o rs ++ rest) = .ok rs := by
  unfold unmarshalPolygon
  have h1 : ¬ (polyBody o rs ++ rest).length < 4 := by
    simp only [polyBody, List.length_append, u32_length]; omega
  rw [if_neg h1]
  simp only [polyBody, List.append_assoc, rd32_u32' _ _ _ hl, drop_u32]
  exact unmarshalPolygon_loop_enc o rs rest h

theorem memberLoop_enc {β : Type} (scan : Bytes → R (β × Nat)) (stride : β → Nat) (enc : β → Bytes)
    (xs : List β) (rest : Bytes)
    (hscan : ∀ x ∈ xs, ∀ rest', scan (enc x ++ rest') = .ok (x, 0))
    (hstride : ∀ x ∈ xs, (enc x).length = stride x) :
    memberLoop scan stride xs.length (xs.flatMap enc ++ rest) = .ok xs := by
  induction xs with
  | nil => rfl
  | cons x xs ih =>
    have ih' := ih (fun y hy => hscan y (by simp [hy])) (fun y hy => hstride y (by simp [hy]))
    simp only [List.flatMap_cons, List.length_cons, memberLoop, List.append_assoc,
      hscan x (by simp)]
    rw [sliceFrom_append _ _ _ (hstride x (by simp))]
    simp only [ih']

theorem scanSingle_single {β : Type} (tS tM : Nat) (single : Order → Bytes → R β)
    (multi : Order → Bytes → R (List β)) (o : Order) (srid : Nat) (bdy : Bytes) (x : β)
    (ht : TC tS) (hs : srid < 2 ^ 32) (hb : 1 ≤ bdy.length) (h : single o bdy = .ok x) :
    scanSingle tS tM single multi (orderByte o :: (hdr o tS srid ++ bdy)) = .ok (x, srid) := by
  unfold scanSingle
  rw [unmarshalBOT_hdr o tS srid bdy ht hs hb]
  simp only [if_true, h]

theorem scanSingle_multi {β : Type} (tS tM : Nat) (single : Order → Bytes → R β)
    (multi : Order → Bytes → R (List β)) (o : Order) (srid : Nat) (bdy : Bytes) (xs : List β)
    (ht : TC tM) (hne : tM ≠ tS) (hs : srid < 2 ^ 32) (hb : 1 ≤ bdy.length) (h : multi o bdy = .ok xs) :
    scanSingle tS tM single multi (orderByte o :: (hdr o tM srid ++ bdy)) =
      (match xs with
       | [p] => .ok (p, srid)
       | _ => .err .incorrectGeometry) := by
  unfold scanSingle
  rw [unmarshalBOT_hdr o tM srid bdy ht hs hb]
  simp only [if_neg hne, if_true, h]
  match xs with
  | [] => rfl
  | [_] => rfl
  | _ :: _ :: _ => rfl

theorem scanSingle_other {β : Type} (tS tM : Nat) (single : Order → Bytes → R β)
    (multi : Order → Bytes → R (List β)) (o : Order) (srid t : Nat) (bdy : Bytes)
    (ht : TC t) (hne : t ≠ tS) (hne' : t ≠ tM) (hs : srid < 2 ^ 32) (hb : 1 ≤ bdy.length) :
    scanSingle tS tM single multi (orderByte o :: (hdr o t srid ++ bdy)) = .err .incorrectGeometry := by
  unfold scanSingle
  rw [unmarshalBOT_hdr o t srid bdy ht hs hb]
  simp only [if_neg hne, if_neg hne']

theorem scanMember_single {β : Type} (tS : Nat) (single : Order → Bytes → R β) (o : Order) (srid : Nat)
    (bdy : Bytes) (x : β) (ht : TC tS) (hs : srid < 2 ^ 32) (hb : 1 ≤ bdy.length) (h : single o bdy = .ok x) :
    scanMember tS single (orderByte o :: (hdr o tS srid ++ bdy)) = .ok (x, srid) := by
  unfold scanMember
  rw [unmarshalBOT_hdr o tS srid bdy ht hs hb]
  simp only [ne_eq, not_true_eq_false, if_false, h]

theorem unmarshalMultiF_enc {β : Type} (tS : Nat) (single : Order → Bytes → R β) (stride : β → Nat)
    (enc : β → Bytes) (o : Order) (xs : List β) (rest : Bytes)
    (hlen : xs.length < 2 ^ 32)
    (hscan : ∀ x ∈ xs, ∀ rest', scanMember tS single (enc x ++ rest') = .ok (x, 0))
    (hstride : ∀ x ∈ xs, (enc x).length = stride x) :
    unmarshalMultiF tS single stride o (u32 o xs.length ++ (xs.flatMap enc ++ rest)) = .ok xs := by
  unfold unmarshalMultiF
  have h1 : ¬ (u32 o xs.length ++ (xs.flatMap enc ++ rest)).length < 4 := by
    simp only [List.length_append, u32_length]; omega
  rw [if_neg h1, rd32_u32' _ _ _ hlen, drop_u32]
  exact memberLoop_enc _ _ enc xs rest hscan hstride

/-! ### byte path: the three multi decoders on encoder output -/

theorem scanMember_encPoint0 (o : Order) (p : Pt UInt64) (rest : Bytes) :
    scanMember 1 unmarshalPoint (encPoint o 0 p ++ rest) = .ok (p, 0) := by
  rw [encPoint_eq, List.cons_append, List.append_assoc]
  exact scanMember_single 1 _ o 0 _ p (by simp [TC]) (by decide)
    (by simp only [List.length_append, encPt_length]; omega) (unmarshalPoint_encPt o p rest)

theorem scanMember_encLineString0 (o : Order) (ps : List (Pt UInt64)) (rest : Bytes) (h : ps.length < 2 ^ 32) :
    scanMember 2 unmarshalPoints (encLineString o 0 ps ++ rest) = .ok (ps, 0) := by
  rw [encLineString_eq, List.cons_append, List.append_assoc]
  exact scanMember_single 2 _ o 0 _ ps (by simp [TC]) (by decide)
    (by simp only [List.length_append, encRingBody_length]; omega) (unmarshalPoints_enc o ps rest h)

theorem scanMember_encPolygon0 (o : Order) (rs : List (List (Pt UInt64))) (rest : Bytes)
    (hl : rs.length < 2 ^ 32) (h : ∀ r ∈ rs, r.length < 2 ^ 32) :
    scanMember 3 unmarshalPolygon (encPolygon o 0 rs ++ rest) = .ok (rs, 0) := by
  rw [encPolygon_eq, List.cons_append, List.append_assoc]
  exact scanMember_single 3 _ o 0 _ rs (by simp [TC]) (by decide)
    (by simp only [polyBody, List.length_append, u32_length]; omega) (unmarshalPolygon_enc o rs rest hl h)

theorem unmarshalMultiPoint_enc (o : Order) (ps : List (Pt UInt64)) (rest : Bytes)
    (h : ps.length < 2 ^ 32) :
    unmarshalMultiPoint o (u32 o ps.length ++ (ps.flatMap (encPoint o 0) ++ rest)) = .ok ps :=
  unmarshalMultiF_enc 1 unmarshalPoint (fun _ => 21) (encPoint o 0) o ps rest h
    (fun p _ rest' => scanMember_encPoint0 o p rest')
    (fun p _ => encPoint0_length o p)

theorem unmarshalMultiLineString_enc (o : Order) (ls : List (List (Pt UInt64))) (rest : Bytes)
    (h : ls.length < 2 ^ 32) (hl : ∀ l ∈ ls, l.length < 2 ^ 32) :
    unmarshalMultiLineString o (u32 o ls.length ++ (ls.flatMap (encLineString o 0) ++ rest)) = .ok ls :=
  unmarshalMultiF_enc 2 unmarshalPoints (fun ls => 16 * ls.length + 9) (encLineString o 0) o ls rest h
    (fun l hm rest' => scanMember_encLineString0 o l rest' (hl l hm))
    (fun l _ => encLineString0_length o l)

theorem unmarshalMultiPolygon_enc (o : Order) (ps : List (List (List (Pt UInt64)))) (rest : Bytes)
    (h : ps.length < 2 ^ 32) (hp : ∀ p ∈ ps, p.length < 2 ^ 32 ∧ ∀ r ∈ p, r.length < 2 ^ 32) :
    unmarshalMultiPolygon o (u32 o ps.length ++ (ps.flatMap (encPolygon o 0) ++ rest)) = .ok ps :=
  unmarshalMultiF_enc 3 unmarshalPolygon polyStride (encPolygon o 0) o ps rest h
    (fun p hm rest' => scanMember_encPolygon0 o p rest' (hp p hm).1 (hp p hm).2)
    (fun p _ => encPolygon0_length o p)

/-! ### stream decoder: consume lemmas -/

theorem readPtsLoop_enc (o : Order) (ps : List (Pt UInt64)) (rest : Bytes) :
    readPtsLoop o ps.length (ps.flatMap (encPt o) ++ rest) = .ok (ps, rest) := by
  induction ps with
  | nil => rfl
  | cons p ps ih =>
    simp only [List.flatMap_cons, List.length_cons, readPtsLoop, List.append_assoc, readPoint_encPt, ih]

theorem readLineString_enc (o : Order) (ps : List (Pt UInt64)) (rest : Bytes) (h : ps.length < 2 ^ 32) :
    readLineString o (encRingBody o ps ++ rest) = .ok (ps, rest) := by
  simp only [readLineString, encRingBody, List.append_assoc, readU32_u32' _ _ _ h, readPtsLoop_enc]

theorem readRingsLoop_enc (o : Order) (rs : List (List (Pt UInt64))) (rest : Bytes)
    (h : ∀ r ∈ rs, r.length < 2 ^ 32) :
    readRingsLoop o rs.length (rs.flatMap (encRingBody o) ++ rest) = .ok (rs, rest) := by
  induction rs with
  | nil => rfl
  | cons r rs ih =>
    have hr : r.length < 2 ^ 32 := h r (by simp)
    have hrs : ∀ r ∈ rs, r.length < 2 ^ 32 := fun r' hr' => h r' (by simp [hr'])
    simp only [List.flatMap_cons, List.length_cons, readRingsLoop, List.append_assoc,
      readLineString_enc o r _ hr, ih hrs]

theorem readPolygon_enc (o : Order) (rs : List (List (Pt UInt64))) (rest : Bytes)
    (hl : rs.length < 2 ^ 32) (h : ∀ r ∈ rs, r.length < 2 ^ 32) :
    readPolygon o (polyBody o rs ++ rest) = .ok (rs, rest) := by
  simp only [readPolygon, polyBody, List.append_assoc, readU32_u32' _ _ _ hl, readRingsLoop_enc o rs rest h]

theorem readMembers_enc {β : Type} (want : Nat) (rd : Order → Bytes → R (β × Bytes)) (o : Order)
    (encB : β → Bytes) (xs : List β) (rest : Bytes) (ht : TC want)
    (h : ∀ x ∈ xs, ∀ rest', rd o (encB x ++ rest') = .ok (x, rest')) :
    readMembers want rd xs.length
      (xs.flatMap (fun x => orderByte o :: (hdr o want 0 ++ encB x)) ++ rest) = .ok (xs, rest) := by
  induction xs with
  | nil => rfl
  | cons x xs ih =>
    have ih' := ih (fun y hy => h y (by simp [hy]))
    simp only [List.flatMap_cons, List.length_cons, readMembers, List.append_assoc, List.cons_append,
      readBOT_hdr o want 0 _ ht (by decide), ne_eq, not_true_eq_false, if_false, h x (by simp), ih']

theorem readMembers_points (o : Order) (ps : List (Pt UInt64)) (rest : Bytes) :
    readMembers 1 readPoint ps.length (ps.flatMap (encPoint o 0) ++ rest) = .ok (ps, rest) := by
  have : encPoint o 0 = fun p => orderByte o :: (hdr o 1 0 ++ encPt o p) := by
    funext p; exact encPoint_eq o 0 p
  rw [this]
  exact readMembers_enc 1 readPoint o (encPt o) ps rest (by simp [TC])
    (fun p _ rest' => readPoint_encPt o p rest')

theorem readMembers_lineStrings (o : Order) (ls : List (List (Pt UInt64))) (rest : Bytes)
    (hl : ∀ l ∈ ls, l.length < 2 ^ 32) :
    readMembers 2 readLineString ls.length (ls.flatMap (encLineString o 0) ++ rest) = .ok (ls, rest) := by
  have : encLineString o 0 = fun l => orderByte o :: (hdr o 2 0 ++ encRingBody o l) := by
    funext l; exact encLineString_eq o 0 l
  rw [this]
  exact readMembers_enc 2 readLineString o (encRingBody o) ls rest (by simp [TC])
    (fun l hm rest' => readLineString_enc o l rest' (hl l hm))

theorem readMembers_polygons (o : Order) (ps : List (List (List (Pt UInt64)))) (rest : Bytes)
    (hp : ∀ p ∈ ps, p.length < 2 ^ 32 ∧ ∀ r ∈ p, r.length < 2 ^ 32) :
    readMembers 3 readPolygon ps.length (ps.flatMap (encPolygon o 0) ++ rest) = .ok (ps, rest) := by
  have : encPolygon o 0 = fun p => orderByte o :: (hdr o 3 0 ++ polyBody o p) := by
    funext p; exact encPolygon_eq o 0 p
  rw [this]
  exact readMembers_enc 3 readPolygon o (polyBody o) ps rest (by simp [TC])
    (fun p hm rest' => readPolygon_enc o p rest' (hp p hm).1 (hp p hm).2)

/-! ### Scan framing: raw, hex, `\\x` + hex -/

theorem scan_raw (bnd : BoundFn) (d : Dest) (b0 b1 : UInt8) (tl : Bytes) (h92 : b0 ≠ 92) (h48 : b0 ≠ 48)
    (hlen : 3 ≤ tl.length) : scan bnd d (b0 :: b1 :: tl) = scanDest bnd d (b0 :: b1 :: tl) := by
  unfold scan
  have : ¬ (b0 :: b1 :: tl).length < 5 := by simp only [List.length_cons]; omega
  rw [if_neg this]
  simp only []
  split
  · rename_i data heq
    split at heq
    · rename_i rest h
      injection h with h _
      exact absurd h h92
    · injection heq with heq
      subst heq
      simp only [show ¬ (b0 = 48 ∧ (b1 = 48 ∨ b1 = 49)) from fun h => h48 h.1, if_false]
  · rename_i e heq
    split at heq
    · rename_i rest h
      injection h with h _
      exact absurd h h92
    · cases heq
  · rename_i e heq
    split at heq
    · rename_i rest h
      injection h with h _
      exact absurd h h92
    · cases heq

theorem hexVal_hexDigit (n : Nat) (up : Bool) (h : n < 16) : hexVal (hexDigit n up) = some n := by
  have : n = 0 ∨ n = 1 ∨ n = 2 ∨ n = 3 ∨ n = 4 ∨ n = 5 ∨ n = 6 ∨ n = 7 ∨ n = 8 ∨ n = 9 ∨ n = 10 ∨
      n = 11 ∨ n = 12 ∨ n = 13 ∨ n = 14 ∨ n = 15 := by omega
  rcases this with h | h | h | h | h | h | h | h | h | h | h | h | h | h | h | h <;> subst h <;>
    cases up <;> decide

theorem hexDecode_hexEncode (up : Bool) (bs : Bytes) : hexDecode (hexEncode up bs) = some bs := by
  induction bs with
  | nil => rfl
  | cons b bs ih =>
    have hb := b.toNat_lt
    have h1 : b.toNat / 16 < 16 := by omega
    have h2 : b.toNat % 16 < 16 := by omega
    simp only [hexEncode, hexDecode, hexVal_hexDigit _ up h1, hexVal_hexDigit _ up h2, ih,
      Nat.div_add_mod', UInt8.ofNat_toNat]

theorem scan_hex_gen (bnd : BoundFn) (d : Dest) (c : UInt8) (rest' Y : Bytes) (hc : c = 48 ∨ c = 49)
    (hdec : hexDecode (48 :: c :: rest') = some Y) (hlen : 3 ≤ rest'.length) :
    scan bnd d (48 :: c :: rest') = scanDest bnd d Y := by
  unfold scan
  have : ¬ (48 :: c :: rest').length < 5 := by simp only [List.length_cons]; omega
  rw [if_neg this]
  simp only []
  split
  · rename_i data heq
    split at heq
    · rename_i rest h
      injection h with h _
      exact absurd h (by decide)
    · injection heq with heq
      subst heq
      simp only [show ((48 : UInt8) = 48 ∧ (c = 48 ∨ c = 49)) from ⟨rfl, hc⟩, hdec, and_self, if_true]
  · rename_i e heq
    split at heq
    · rename_i rest h
      injection h with h _
      exact absurd h (by decide)
    · cases heq
  · rename_i e heq
    split at heq
    · rename_i rest h
      injection h with h _
      exact absurd h (by decide)
    · cases heq

theorem scan_bslash_gen (bnd : BoundFn) (d : Dest) (hx : Bytes) (b0 b1 : UInt8) (tl : Bytes)
    (hdec : hexDecode hx = some (b0 :: b1 :: tl)) (h48 : b0 ≠ 48) (hlen : 3 ≤ hx.length) :
    scan bnd d (92 :: 120 :: hx) = scanDest bnd d (b0 :: b1 :: tl) := by
  unfold scan
  have : ¬ (92 :: 120 :: hx).length < 5 := by simp only [List.length_cons]; omega
  rw [if_neg this]
  simp only []
  rw [hdec]
  simp only [show ¬ (b0 = 48 ∧ (b1 = 48 ∨ b1 = 49)) from fun h => h48 h.1, if_false]

/-! ### shape of an encoding; framing on encoder output -/

theorem encGeom_shape (o : Order) (srid : Nat) (g : G) :
    ∃ b1 tl, encGeom o srid g = orderByte o :: b1 :: tl ∧ 6 ≤ tl.length := by
  rw [encGeom_eq]
  have h1 := hdr_length_ge o (tcode g) srid
  have h2 := body_length_pos o g
  rcases hl : hdr o (tcode g) srid ++ body o g with _ | ⟨b1, tl⟩
  · have := congrArg List.length hl
    simp only [List.length_append, List.length_nil] at this; omega
  · refine ⟨b1, tl, rfl, ?_⟩
    have := congrArg List.length hl
    simp only [List.length_append, List.length_cons] at this; omega

theorem encGeom_length_succ (o : Order) (srid : Nat) (g : G) : ∃ n, (encGeom o srid g).length = n + 1 := by
  rw [encGeom_eq]; exact ⟨_, rfl⟩

theorem orderByte_ne92 (o : Order) : orderByte o ≠ 92 := by cases o <;> decide
theorem orderByte_ne48 (o : Order) : orderByte o ≠ 48 := by cases o <;> decide

theorem scan_enc (bnd : BoundFn) (d : Dest) (o : Order) (srid : Nat) (g : G) :
    scan bnd d (encGeom o srid g) = scanDest bnd d (encGeom o srid g) := by
  obtain ⟨b1, tl, he, hl⟩ := encGeom_shape o srid g
  rw [he]
  exact scan_raw bnd d _ b1 tl (orderByte_ne92 o) (orderByte_ne48 o) (by omega)

theorem hexEncode_length (up : Bool) (bs : Bytes) : (hexEncode up bs).length = 2 * bs.length := by
  induction bs with
  | nil => rfl
  | cons b bs ih => simp only [hexEncode, List.length_cons, ih]; omega

theorem scan_hex_enc (bnd : BoundFn) (d : Dest) (upper : Bool) (o : Order) (srid : Nat) (g : G) :
    scan bnd d (hexEncode upper (encGeom o srid g)) = scanDest bnd d (encGeom o srid g) := by
  obtain ⟨b1, tl, he, hl⟩ := encGeom_shape o srid g
  have hdec := hexDecode_hexEncode upper (encGeom o srid g)
  rw [he] at hdec ⊢
  simp only [hexEncode] at hdec ⊢
  have h1 : hexDigit ((orderByte o).toNat / 16) upper = 48 := by cases o <;> cases upper <;> decide
  have h2 : hexDigit ((orderByte o).toNat % 16) upper = 48 ∨ hexDigit ((orderByte o).toNat % 16) upper = 49 := by
    cases o <;> cases upper <;> decide
  rw [h1] at hdec ⊢
  exact scan_hex_gen bnd d _ _ _ h2 hdec (by simp only [List.length_cons, hexEncode_length]; omega)

theorem scan_bslash_enc (bnd : BoundFn) (d : Dest) (o : Order) (srid : Nat) (g : G) :
    scan bnd d (92 :: 120 :: hexEncode false (encGeom o srid g)) = scanDest bnd d (encGeom o srid g) := by
  obtain ⟨b1, tl, he, hl⟩ := encGeom_shape o srid g
  have hdec := hexDecode_hexEncode false (encGeom o srid g)
  have hlen : 3 ≤ (hexEncode false (encGeom o srid g)).length := by
    rw [hexEncode_length, he]; simp only [List.length_cons]; omega
  rw [he] at hdec hlen ⊢
  exact scan_bslash_gen bnd d _ _ _ _ hdec (orderByte_ne48 o) hlen

/-! ### byte path on `encGeom`: header, `scanSingle`, bodies -/

theorem unmarshalBOT_enc (o : Order) (srid : Nat) (g : G) (hs : srid < 2^32) :
    unmarshalBOT (encGeom o srid g) = .ok (o, tcode g, srid, body o g) := by
  rw [encGeom_eq]
  exact unmarshalBOT_hdr o _ srid _ (tcode_TC g) hs (by have := body_length_pos o g; omega)

theorem scanSingle_enc_single {β : Type} (tS tM : Nat) (single : Order → Bytes → R β)
    (multi : Order → Bytes → R (List β)) (o : Order) (srid : Nat) (g : G) (x : β) (hs : srid < 2 ^ 32)
    (ht : tcode g = tS) (h : single o (body o g) = .ok x) :
    scanSingle tS tM single multi (encGeom o srid g) = .ok (x, srid) := by
  unfold scanSingle
  rw [unmarshalBOT_enc o srid g hs]
  simp only [ht, if_true, h]

theorem scanSingle_enc_multi {β : Type} (tS tM : Nat) (single : Order → Bytes → R β)
    (multi : Order → Bytes → R (List β)) (o : Order) (srid : Nat) (g : G) (xs : List β) (hs : srid < 2 ^ 32)
    (ht : tcode g = tM) (hne : tM ≠ tS) (h : multi o (body o g) = .ok xs) :
    scanSingle tS tM single multi (encGeom o srid g) =
      (match xs with
       | [p] => .ok (p, srid)
       | _ => .err .incorrectGeometry) := by
  unfold scanSingle
  rw [unmarshalBOT_enc o srid g hs]
  simp only [ht, if_neg hne, if_true, h]
  match xs with
  | [] => rfl
  | [_] => rfl
  | _ :: _ :: _ => rfl

theorem scanSingle_enc_other {β : Type} (tS tM : Nat) (single : Order → Bytes → R β)
    (multi : Order → Bytes → R (List β)) (o : Order) (srid : Nat) (g : G) (hs : srid < 2 ^ 32)
    (h1 : tcode g ≠ tS) (h2 : tcode g ≠ tM) :
    scanSingle tS tM single multi (encGeom o srid g) = .err .incorrectGeometry := by
  unfold scanSingle
  rw [unmarshalBOT_enc o srid g hs]
  simp only [if_neg h1, if_neg h2]

theorem body_point (o : Order) (p : Pt UInt64) : unmarshalPoint o (body o (.point p)) = .ok p := by
  have := unmarshalPoint_encPt o p []
  simpa only [List.append_nil, body] using this

theorem body_lineString (o : Order) (ps : List (Pt UInt64)) (h : ps.length < 2 ^ 32) :
    unmarshalPoints o (body o (.lineString ps)) = .ok ps := by
  have := unmarshalPoints_enc o ps [] h
  simpa only [List.append_nil, body] using this

theorem body_polygon (o : Order) (rs : List (List (Pt UInt64))) (hl : rs.length < 2 ^ 32)
    (h : ∀ r ∈ rs, r.length < 2 ^ 32) : unmarshalPolygon o (body o (.polygon rs)) = .ok rs := by
  have := unmarshalPolygon_enc o rs [] hl h
  simpa only [List.append_nil, body] using this

theorem body_ring (o : Order) (r : List (Pt UInt64)) (h : r.length < 2 ^ 32) :
    unmarshalPolygon o (body o (.ring r)) = .ok [r] :=
  body_polygon o [r] (by simp) (by simpa using h)

theorem body_bound (o : Order) (a b : Pt UInt64) :
    unmarshalPolygon o (body o (.bound a b)) = .ok [boundRing a b] :=
  body_polygon o [boundRing a b] (by simp) (by simp [boundRing])

theorem body_multiPoint (o : Order) (ps : List (Pt UInt64)) (h : ps.length < 2 ^ 32) :
    unmarshalMultiPoint o (body o (.multiPoint ps)) = .ok ps := by
  have := unmarshalMultiPoint_enc o ps [] h
  simpa only [List.append_nil, body] using this

theorem body_multiLineString (o : Order) (ls : List (List (Pt UInt64)))
    (h : ls.length < 2 ^ 32) (hl : ∀ l ∈ ls, l.length < 2 ^ 32) :
    unmarshalMultiLineString o (body o (.multiLineString ls)) = .ok ls := by
  have := unmarshalMultiLineString_enc o ls [] h hl
  simpa only [List.append_nil, body] using this

theorem body_multiPolygon (o : Order) (ps : List (List (List (Pt UInt64))))
    (h : ps.length < 2 ^ 32) (hp : ∀ p ∈ ps, p.length < 2 ^ 32 ∧ ∀ r ∈ p, r.length < 2 ^ 32) :
    unmarshalMultiPolygon o (body o (.multiPolygon ps)) = .ok ps := by
  have := unmarshalMultiPolygon_enc o ps [] h hp
  simpa only [List.append_nil, body] using this

theorem scanPoint_def : scanPoint = scanSingle 1 4 unmarshalPoint unmarshalMultiPoint := rfl
theorem scanLineString_def : scanLineString = scanSingle 2 5 unmarshalPoints unmarshalMultiLineString := rfl
theorem scanPolygon_def : scanPolygon = scanSingle 3 6 unmarshalPolygon unmarshalMultiPolygon := rfl

end Orb.WKB
