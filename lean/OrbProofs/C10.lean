/-
  C10 — Planar area, centroid, length and distance equal their exact values.
  PROPERTY THEOREMS about the model `Orb.Planar` (planar/area.go, length.go, distance.go,
  distance_from.go, internal/length/length.go).

  Coordinates range over an arbitrary linearly ordered field; `math.Sqrt` is an arbitrary function
  `sqrt`, assumed monotone / `sqrt x = 0 ↔ x = 0` only where a theorem says so.  `math.Inf(1)` is `none`.
  Spec-side vocabulary (`ringArea`, `fanTris`, `segments`, `atoms`, …) is defined in the lemma files;
  the shoelace sums `cyc`, `cross` are those of C06.
-/
import OrbProofs.C10Lemmas
import OrbProofs.C10DistLemmas
import OrbProofs.C10MoreLemmas
import OrbProofs.C10NestLemmas
import OrbProofs.C10ScaleLemmas

namespace Orb.Planar
open Orb Orb.Core

section area
variable {α : Type} [Field α] [LinearOrder α] [IsStrictOrderedRing α]

/-- The area of a ring is half the cyclic shoelace sum over the implicitly closed chain … -/
theorem area_eq_shoelace (r : List (Pt α)) : ringArea r = cyc r / 2 := area_eq_shoelace' r

/-- … and an explicitly closed ring has the same area. -/
theorem area_close (v : Pt α) (t : List (Pt α)) : ringArea (v :: t ++ [v]) = ringArea (v :: t) := area_close' v t

/-- unchanged by rotating the start vertex -/
theorem area_rotate (a b : List (Pt α)) : ringArea (b ++ a) = ringArea (a ++ b) := area_rotate' a b

/-- negated by reversal -/
theorem area_reverse (r : List (Pt α)) : ringArea r.reverse = - ringArea r := area_reverse' r

/-- unchanged by translating -/
theorem area_translate (d : Pt α) (r : List (Pt α)) :
    ringArea (r.map fun p => ⟨p.x + d.x, p.y + d.y⟩) = ringArea r := area_translate' d r

/-- positive exactly when `Ring.Orientation` says counter-clockwise, negative exactly when clockwise -/
theorem orientation_sign (r : List (Pt α)) :
    (0 < ringArea r ↔ orientation r = 1) ∧ (ringArea r < 0 ↔ orientation r = -1) := orientation_sign' r

/-- A polygon's area is |outer| − Σ |holes|; no rings: 0. -/
theorem polygon_area_eq (sqrt : α → α) (o : List (Pt α)) (hs : List (List (Pt α))) :
    (polygonCentroidArea sqrt (o :: hs)).2 = |ringArea o| - (hs.map fun h => |ringArea h|).sum :=
  polygon_area_eq' sqrt o hs

/-- PARTIAL ("never negative for nested rings"): the algebraic core — the area is non-negative as soon as the
    holes' areas do not exceed the outer ring's.  That nested, mutually disjoint holes satisfy this
    (monotonicity of area under containment) is geometry, stated in `polygon_area_nonneg_full`
    and checked by the correspondence run on nested-by-construction polygons. -/
theorem polygon_area_nonneg_partial (sqrt : α → α) (o : List (Pt α)) (hs : List (List (Pt α)))
    (h : (hs.map fun h => |ringArea h|).sum ≤ |ringArea o|) : 0 ≤ (polygonCentroidArea sqrt (o :: hs)).2 :=
  polygon_area_nonneg_partial' sqrt o hs h

/-- A multi-polygon's area is the sum of its polygons' areas. -/
theorem multi_area_sum (sqrt : α → α) (mp : List (List (List (Pt α)))) :
    (multiPolygonCentroidArea sqrt mp).2 = (mp.map fun p => (polygonCentroidArea sqrt p).2).sum :=
  multi_area_sum' sqrt mp

/-- A collection's area is the sum over its members of top dimension … -/
theorem collection_area_sum_topdim (sqrt : α → α) (gs : List (Geom α)) :
    area sqrt (.collection gs) = ((gs.filter fun g => dimensions g == maxDim gs).map (area sqrt)).sum :=
  collection_area_sum_topdim' sqrt gs

/-- … and everything of dimension below 2 has area 0. -/
theorem area_lowerdim_zero (sqrt : α → α) (g : Geom α) (h : dimensions g < 2) : area sqrt g = 0 :=
  area_lowerdim_zero' sqrt g h

end area

/-- a polygon with no rings has area 0 -/
theorem polygon_area_nil {α : Type} [Field α] [LinearOrder α] (sqrt : α → α) :
    (polygonCentroidArea sqrt ([] : List (List (Pt α)))).2 = 0 := rfl

section centroid
variable {α : Type} [Field α] [LinearOrder α] [IsStrictOrderedRing α]

/-- The centroid of a ring is the area-weighted mean of the centroids of its fan triangles `(r[0], r[i], r[i+1])`
    (and its area their sum). -/
theorem centroid_is_weighted_mean (o : Pt α) (rest : List (Pt α)) (hA : ringArea (o :: rest) ≠ 0) :
    ringArea (o :: rest) = ((fanTris o rest).map (·.2)).sum ∧
    (ringCentroidArea (o :: rest)).1.x = ((fanTris o rest).map fun ta => ta.1.x * ta.2).sum / ((fanTris o rest).map (·.2)).sum ∧
    (ringCentroidArea (o :: rest)).1.y = ((fanTris o rest).map fun ta => ta.1.y * ta.2).sum / ((fanTris o rest).map (·.2)).sum :=
  centroid_is_weighted_mean' o rest hA

/-- polygon: area-weighted with the holes negative -/
theorem polygon_centroid_weighted (sqrt : α → α) (o : List (Pt α)) (hs : List (List (Pt α)))
    (hA : (polygonCentroidArea sqrt (o :: hs)).2 ≠ 0) :
    let w := |ringArea o| - (hs.map fun h => |ringArea h|).sum
    (polygonCentroidArea sqrt (o :: hs)).1.x =
      (|ringArea o| * (ringCentroidArea o).1.x - (hs.map fun h => (ringCentroidArea h).1.x * |ringArea h|).sum) / w ∧
    (polygonCentroidArea sqrt (o :: hs)).1.y =
      (|ringArea o| * (ringCentroidArea o).1.y - (hs.map fun h => (ringCentroidArea h).1.y * |ringArea h|).sum) / w :=
  polygon_centroid_weighted' sqrt o hs hA

/-- multi-polygon: area-weighted mean of the polygons' centroids -/
theorem multi_centroid_weighted (sqrt : α → α) (mp : List (List (List (Pt α))))
    (hA : (multiPolygonCentroidArea sqrt mp).2 ≠ 0) :
    (multiPolygonCentroidArea sqrt mp).1.x =
      (mp.map fun p => (polygonCentroidArea sqrt p).1.x * (polygonCentroidArea sqrt p).2).sum /
        (mp.map fun p => (polygonCentroidArea sqrt p).2).sum ∧
    (multiPolygonCentroidArea sqrt mp).1.y =
      (mp.map fun p => (polygonCentroidArea sqrt p).1.y * (polygonCentroidArea sqrt p).2).sum /
        (mp.map fun p => (polygonCentroidArea sqrt p).2).sum :=
  multi_centroid_weighted' sqrt mp hA

/-- collection whose top dimension is 2: the area-weighted mean of the centroids of its members of top dimension
    (`maxDim`), members of lower dimension are ignored (lower top dimensions: `collection_lowerdim_centroid_origin`) -/
theorem collection_centroid_weighted (sqrt : α → α) (gs : List (Geom α))
    (hA : area sqrt (.collection gs) ≠ 0) :
    let top := gs.filter fun g => dimensions g == maxDim gs
    (centroidArea sqrt (.collection gs)).1.x =
      (top.map fun g => (centroidArea sqrt g).1.x * area sqrt g).sum / (top.map (area sqrt)).sum ∧
    (centroidArea sqrt (.collection gs)).1.y =
      (top.map fun g => (centroidArea sqrt g).1.y * area sqrt g).sum / (top.map (area sqrt)).sum :=
  collection_centroid_weighted' sqrt gs hA

/-! The degenerate fall-backs (total weight 0), the complement of the `≠ 0` hypotheses above. -/

/-- a ring of area 0 answers its first vertex -/
theorem ring_degenerate_centroid (o : Pt α) (rest : List (Pt α)) (h : ringArea (o :: rest) = 0) :
    ringCentroidArea (o :: rest) = (o, 0) := ring_degenerate_centroid' o rest h

/-- a polygon of total area 0 (flat outer ring, or holes that use the outer ring up) falls back to the centroid of
    its OUTER RING AS A LINE: the length-weighted mean of the midpoints of the consecutive segments of the vertex
    list (the closing segment only when the ring is explicitly closed), the first vertex when that length is 0 … -/
theorem polygon_degenerate_centroid (sqrt : α → α) (v : Pt α) (rest : List (Pt α)) (hs : List (List (Pt α)))
    (h0 : (polygonCentroidArea sqrt ((v :: rest) :: hs)).2 = 0) :
    let segs := (v :: rest).zip rest
    let len := fun (ab : Pt α × Pt α) => sqrt ((ab.1.x - ab.2.x) * (ab.1.x - ab.2.x) + (ab.1.y - ab.2.y) * (ab.1.y - ab.2.y))
    let L := (segs.map len).sum
    (L = 0 → polygonCentroidArea sqrt ((v :: rest) :: hs) = (v, 0)) ∧
    (L ≠ 0 → polygonCentroidArea sqrt ((v :: rest) :: hs) =
      (⟨(segs.map fun ab => (ab.1.x + ab.2.x) / 2 * len ab).sum / L, (segs.map fun ab => (ab.1.y + ab.2.y) / 2 * len ab).sum / L⟩, 0)) :=
  polygon_degenerate_centroid' sqrt v rest hs h0

/-- … and to the origin when the outer ring has no vertex. -/
theorem polygon_degenerate_centroid_nil (sqrt : α → α) (hs : List (List (Pt α)))
    (h0 : (polygonCentroidArea sqrt (([] : List (Pt α)) :: hs)).2 = 0) :
    polygonCentroidArea sqrt (([] : List (Pt α)) :: hs) = (⟨0, 0⟩, 0) := polygon_degenerate_centroid_nil' sqrt hs h0

/-- a multi-polygon / a collection of total area 0 answers the origin -/
theorem multi_degenerate_centroid (sqrt : α → α) (mp : List (List (List (Pt α))))
    (h0 : (multiPolygonCentroidArea sqrt mp).2 = 0) : multiPolygonCentroidArea sqrt mp = (⟨0, 0⟩, 0) :=
  multi_degenerate_centroid' sqrt mp h0

theorem collection_degenerate_centroid (sqrt : α → α) (gs : List (Geom α))
    (h0 : area sqrt (.collection gs) = 0) : centroidArea sqrt (.collection gs) = (⟨0, 0⟩, 0) :=
  collection_degenerate_centroid' sqrt gs h0

/-- multi-point: count-weighted -/
theorem multiPoint_centroid_mean (ps : List (Pt α)) (h : ps ≠ []) :
    multiPointCentroid ps = ⟨(ps.map (·.x)).sum / (ps.length : α), (ps.map (·.y)).sum / (ps.length : α)⟩ :=
  multiPoint_centroid_mean' ps h

/-- line: length-weighted mean of the segment midpoints (the origin shift cancels) -/
theorem line_centroid_weighted (sqrt : α → α) (o : Pt α) (rest : List (Pt α)) :
    let segs := (o :: rest).zip rest
    let len := fun (ab : Pt α × Pt α) => sqrt ((ab.1.x - ab.2.x) * (ab.1.x - ab.2.x) + (ab.1.y - ab.2.y) * (ab.1.y - ab.2.y))
    let L := (segs.map len).sum
    (L = 0 → lineStringCentroidDist sqrt (o :: rest) = some (o, 0)) ∧
    (L ≠ 0 → lineStringCentroidDist sqrt (o :: rest) =
      some (⟨(segs.map fun ab => (ab.1.x + ab.2.x) / 2 * len ab).sum / L, (segs.map fun ab => (ab.1.y + ab.2.y) / 2 * len ab).sum / L⟩, L)) :=
  line_centroid_weighted' sqrt o rest

/-- PARTIAL ("the centroid of a convex ring lies in its bound"): the algebraic core — when all fan triangles have
    the same orientation the centroid is a convex combination of triangle centroids, hence within any
    coordinate range that contains every vertex. -/
theorem centroid_convex_in_bound_partial (o : Pt α) (rest : List (Pt α)) (hA : ringArea (o :: rest) ≠ 0)
    (hs : (∀ ta ∈ fanTris o rest, 0 ≤ ta.2) ∨ (∀ ta ∈ fanTris o rest, ta.2 ≤ 0))
    (lx hx ly hy : α) (hb : ∀ v ∈ o :: rest, lx ≤ v.x ∧ v.x ≤ hx ∧ ly ≤ v.y ∧ v.y ≤ hy) :
    let c := (ringCentroidArea (o :: rest)).1
    lx ≤ c.x ∧ c.x ≤ hx ∧ ly ≤ c.y ∧ c.y ≤ hy :=
  centroid_convex_in_bound_partial' o rest hA hs lx hx ly hy hb

/-- A ring that is convex in the sense "every vertex lies on one side of every edge of the closed chain"
    has fan triangles of one orientation, so the partial theorem applies to it. -/
theorem convex_fan_sign (o : Pt α) (rest : List (Pt α)) (hc : ConvexRing (o :: rest)) :
    (∀ ta ∈ fanTris o rest, 0 ≤ ta.2) ∨ (∀ ta ∈ fanTris o rest, ta.2 ≤ 0) :=
  convex_fan_sign' o rest hc

/-- KNOWN DEFECT (DESIGN §7 #20), as a theorem about the code: a collection whose members all have dimension
    below 2 is only ever area-weighted, so its "centroid" is the origin whatever the members are … -/
theorem collection_lowerdim_centroid_origin (sqrt : α → α) (gs : List (Geom α)) (h : maxDim gs < 2) :
    centroidArea sqrt (.collection gs) = (⟨0, 0⟩, 0) :=
  collection_lowerdim_centroid_origin' sqrt gs h

/-- … e.g. two horizontal unit-speed lines whose length-weighted mean is (1,1). -/
theorem collection_lines_witness (sqrt : α → α) :
    centroidArea sqrt (.collection [.lineString [⟨0, 0⟩, ⟨2, 0⟩], .lineString [⟨0, 2⟩, ⟨2, 2⟩]]) = ((⟨0, 0⟩ : Pt α), 0) :=
  collection_lines_witness' sqrt

/-- multi-line: the length-weighted mean of the member lines' centroids (members without a vertex are skipped;
    zero-length members carry weight 0); when no member has a length, the plain mean of their centroids.
    (The unchanged code counted a zero-length member with weight 1 in the numerator only; fixed in orb 495fe7f.) -/
theorem mls_centroid_weighted (sqrt : α → α) (mls : List (List (Pt α))) :
    let vs := mls.filterMap (lineStringCentroidDist sqrt)
    let L := (vs.map (·.2)).sum
    (vs = [] → multiLineStringCentroid sqrt mls = ⟨0, 0⟩) ∧
    (vs ≠ [] → L ≠ 0 → multiLineStringCentroid sqrt mls =
      ⟨(vs.map fun cd => cd.1.x * cd.2).sum / L, (vs.map fun cd => cd.1.y * cd.2).sum / L⟩) ∧
    (vs ≠ [] → L = 0 → multiLineStringCentroid sqrt mls =
      ⟨(vs.map (·.1.x)).sum / (vs.length : α), (vs.map (·.1.y)).sum / (vs.length : α)⟩) :=
  mls_centroid_weighted' sqrt mls

/-- the former witness of the defect: the line (0,0)-(2,0) plus the degenerate line at (10,10) now give the
    length-weighted mean (1,0) (the unchanged code gave (6,5)). -/
theorem mls_zero_length_line_example (sqrt : α → α) (h0 : sqrt 0 = 0) (h4 : sqrt 4 = 2) :
    multiLineStringCentroid sqrt [[⟨0, 0⟩, ⟨2, 0⟩], [⟨10, 10⟩, ⟨10, 10⟩]] = (⟨1, 0⟩ : Pt α) :=
  mls_zero_length_line_example' sqrt h0 h4

end centroid

section lengthdist
variable {α : Type} [Field α] [LinearOrder α] [IsStrictOrderedRing α]

/-- Length is the sum of `sqrt |segment|²` over every consecutive segment of every part
    (for a ring: the consecutive segments of its vertex list, the closing one when it is explicitly closed). -/
theorem length_sum (sqrt : α → α) (g : Geom α) :
    length sqrt g = ((segments g).map fun ab => sqrt (dist2 ab.1 ab.2)).sum := length_sum' sqrt g

/-- `segmentDistanceFromSquared a b p` is the minimum over `t ∈ [0,1]` of `|p − (a + t(b−a))|²`. -/
theorem segdist_min (a b p : Pt α) :
    (∃ t, 0 ≤ t ∧ t ≤ 1 ∧ segmentDistanceFromSquared a b p = dist2 p (lerp a b t)) ∧
    ∀ t, 0 ≤ t → t ≤ 1 → segmentDistanceFromSquared a b p ≤ dist2 p (lerp a b t) := segdist_min' a b p

/-- … hence zero exactly on the segment. -/
theorem segdist_zero_iff (a b p : Pt α) :
    segmentDistanceFromSquared a b p = 0 ↔ ∃ t, 0 ≤ t ∧ t ≤ 1 ∧ p = lerp a b t := segdist_zero_iff' a b p

theorem distanceSquared_zero_iff (q p : Pt α) : distanceSquared q p = 0 ↔ q = p := distanceSquared_zero_iff' q p

/-- Distance-from is `sqrt` of the minimum over ALL points / consecutive segments of the geometry
    (`none` = +Inf when there are none). -/
theorem distanceFrom_min (sqrt : α → α) (hm : Monotone sqrt) (g : Geom α) (p : Pt α) :
    distanceFrom sqrt g p = (atoms p g).min?.map sqrt := distanceFrom_min' sqrt hm g p

/-- The index reported for a line (or ring) is the first segment attaining the minimum; -1 when there is none. -/
theorem lineStringDistanceFrom_index (sqrt : α → α) (ls : List (Pt α)) (p : Pt α) :
    let at' := (ls.zip ls.tail).map fun ab => segmentDistanceFromSquared ab.1 ab.2 p
    (at' = [] → lineStringDistanceFrom sqrt ls p = (none, -1)) ∧
    (∀ m, at'.min? = some m → ∃ i : Nat, (lineStringDistanceFrom sqrt ls p) = (some (sqrt m), (i : Int)) ∧
        at'[i]? = some m ∧ ∀ j, j < i → ∀ x, at'[j]? = some x → m < x) :=
  lineStringDistanceFrom_index' sqrt ls p

omit [Field α] [IsStrictOrderedRing α] in
/-- What "the index names the first member attaining the minimum" means (`none` = +Inf, a member with no point or
    segment): no member has a distance and the answer is `(+Inf, -1)`; or the distance is the minimum `m` of the
    members' distances, the member at the index has exactly that distance and every earlier member has none or a
    strictly larger one. -/
theorem firstMinIndex_iff (ds : List (Option α)) (r : Option α × Int) :
    FirstMinIndex ds r ↔
      (((∀ d ∈ ds, d = none) → r = (none, -1)) ∧
       ∀ m, (ds.filterMap id).min? = some m →
         ∃ i : Nat, r = (some m, (i : Int)) ∧ ds[i]? = some (some m) ∧
           ∀ j, j < i → ∀ x, ds[j]? = some (some x) → m < x) := Iff.rfl

/-- The index reported for a MultiPoint is the first point attaining the minimum (squared distances are compared,
    `sqrt` is taken at the end); -1 when there is none. -/
theorem multiPointDistanceFrom_index (sqrt : α → α) (mp : List (Pt α)) (p : Pt α) :
    let at' := mp.map fun q => distanceSquared q p
    (at' = [] → multiPointDistanceFrom sqrt mp p = (none, -1)) ∧
    (∀ m, at'.min? = some m → ∃ i : Nat, multiPointDistanceFrom sqrt mp p = (some (sqrt m), (i : Int)) ∧
        at'[i]? = some m ∧ ∀ j, j < i → ∀ x, at'[j]? = some x → m < x) :=
  multiPoint_index' sqrt mp p

/-- The index reported for a MultiLineString is the first line attaining the minimum of the lines' distances … -/
theorem multiLineStringDistanceFrom_index (sqrt : α → α) (mls : List (List (Pt α))) (p : Pt α) :
    FirstMinIndex (mls.map fun l => (lineStringDistanceFrom sqrt l p).1)
      (distanceFromWithIndex sqrt p (.multiLineString mls)) := multiLineString_index' sqrt mls p

/-- … for a MultiPolygon the first polygon … -/
theorem multiPolygonDistanceFrom_index (sqrt : α → α) (mp : List (List (List (Pt α)))) (p : Pt α) :
    FirstMinIndex (mp.map fun pg => (polygonDistanceFrom sqrt pg p).1)
      (distanceFromWithIndex sqrt p (.multiPolygon mp)) := multiPolygon_index' sqrt mp p

/-- … and for a Collection the first member (each member's distance being its own `DistanceFrom`, see
    `distanceFrom_min`). -/
theorem collectionDistanceFrom_index (sqrt : α → α) (gs : List (Geom α)) (p : Pt α) :
    FirstMinIndex (gs.map fun g => distanceFrom sqrt g p) (distanceFromWithIndex sqrt p (.collection gs)) :=
  collection_index' sqrt gs p

/-- The index reported for a Polygon is NOT a ring index (the loop counter is shadowed in the code): the whole answer is
    `lineStringDistanceFrom`'s for the FIRST ring attaining the minimum of the rings' distances (`optLt` is `<` with
    `none` = +Inf) — hence, by `lineStringDistanceFrom_index`, the first nearest segment of the first nearest ring. -/
theorem polygonDistanceFrom_index (sqrt : α → α) (pg : List (List (Pt α))) (p : Pt α) :
    (pg = [] → polygonDistanceFrom sqrt pg p = (none, -1)) ∧
    (pg ≠ [] → ∃ (k : Nat) (r : List (Pt α)), pg[k]? = some r ∧
      polygonDistanceFrom sqrt pg p = lineStringDistanceFrom sqrt r p ∧
      (∀ j, j < k → ∀ x, pg[j]? = some x →
        optLt (lineStringDistanceFrom sqrt r p).1 (lineStringDistanceFrom sqrt x p).1 = true) ∧
      ∀ x ∈ pg, optLt (lineStringDistanceFrom sqrt x p).1 (lineStringDistanceFrom sqrt r p).1 = false) :=
  polygon_index' sqrt pg p

/-- Distance-from is zero exactly when the point is a point of the geometry or lies on one of its segments
    (an atom is zero; see `segdist_zero_iff`, `distanceSquared_zero_iff`). -/
theorem distanceFrom_zero_iff_on_boundary (sqrt : α → α) (hm : Monotone sqrt)
    (hz : ∀ x, 0 ≤ x → (sqrt x = 0 ↔ x = 0)) (g : Geom α) (p : Pt α) :
    distanceFrom sqrt g p = some 0 ↔ (0 : α) ∈ atoms p g := distanceFrom_zero_iff_on_boundary' sqrt hm hz g p

end lengthdist

/-! ### Scale invariance (white-box round)

Multiplying every coordinate of a geometry (and of the query point) by one positive factor `s` multiplies centroids,
lengths and distances by `s`, areas by `s²`, and leaves every reported index alone — for all nine kinds, nested
collections included.  No absolute threshold ("areas below 1e-9 count as empty", "segments shorter than 1e-9 carry no
weight") survives this: the degenerate fall-backs are taken exactly when the total weight IS zero, at every scale.
`sqrt` is abstract; the only thing assumed of it is `sqrt (s·s·x) = s·sqrt x`, which the real square root satisfies for
`s > 0` and float64's satisfies bit for bit for `s = 2^k` as long as nothing under- or overflows — there the whole
statement holds bit for bit, which is the executable clause `scale-invariance` of the correspondence run (op `scale`). -/
section scale
variable {α : Type} [Field α] [LinearOrder α] [IsStrictOrderedRing α]

/-- `CentroidArea (s·g) = (s·c, s²·a)` -/
theorem centroidArea_scale (sqrt : α → α) (s : α) (hs : 0 < s) (hq : ∀ x, sqrt (s * s * x) = s * sqrt x) (g : Geom α) :
    centroidArea sqrt (scaleGeom s g) = (scalePt s (centroidArea sqrt g).1, s * s * (centroidArea sqrt g).2) :=
  centroidArea_scale' sqrt s hs hq g

/-- `Area (s·g) = s²·Area g` -/
theorem area_scale (sqrt : α → α) (s : α) (hs : 0 < s) (hq : ∀ x, sqrt (s * s * x) = s * sqrt x) (g : Geom α) :
    area sqrt (scaleGeom s g) = s * s * area sqrt g := area_scale' sqrt s hs hq g

/-- the ring case needs no square root at all -/
theorem ringCentroidArea_scale (s : α) (hs : 0 < s) (r : List (Pt α)) :
    ringCentroidArea (r.map (scalePt s)) = (scalePt s (ringCentroidArea r).1, s * s * (ringCentroidArea r).2) :=
  ringCentroidArea_scale' s hs r

/-- `Length (s·g) = s·Length g` -/
theorem length_scale (sqrt : α → α) (s : α) (hq : ∀ x, sqrt (s * s * x) = s * sqrt x) (g : Geom α) :
    length sqrt (scaleGeom s g) = s * length sqrt g := length_scale' sqrt s hq g

/-- the squared point–segment distance scales by `s²` (the projection parameter `t` is scale-free) -/
theorem segmentDistanceFromSquared_scale (s : α) (hs : 0 < s) (a b p : Pt α) :
    segmentDistanceFromSquared (scalePt s a) (scalePt s b) (scalePt s p) = s * s * segmentDistanceFromSquared a b p :=
  segmentDistanceFromSquared_scale' s hs a b p

/-- `DistanceFromWithIndex (s·g, s·p) = (s·d, i)`: the same member / segment is reported (`none` = +Inf stays +Inf) -/
theorem distanceFromWithIndex_scale (sqrt : α → α) (s : α) (hs : 0 < s) (hq : ∀ x, sqrt (s * s * x) = s * sqrt x)
    (g : Geom α) (p : Pt α) :
    distanceFromWithIndex sqrt (scalePt s p) (scaleGeom s g) =
      ((distanceFromWithIndex sqrt p g).1.map (s * ·), (distanceFromWithIndex sqrt p g).2) :=
  distanceFromWithIndex_scale' sqrt s hs hq g p

/-- `DistanceFrom (s·g, s·p) = s·DistanceFrom (g, p)` -/
theorem distanceFrom_scale (sqrt : α → α) (s : α) (hs : 0 < s) (hq : ∀ x, sqrt (s * s * x) = s * sqrt x)
    (g : Geom α) (p : Pt α) :
    distanceFrom sqrt (scaleGeom s g) (scalePt s p) = (distanceFrom sqrt g p).map (s * ·) :=
  distanceFrom_scale' sqrt s hs hq g p

end scale

/-- scaling does not change `Dimensions()` (so the same members are the top-dimensional ones) -/
theorem dimensions_scaleGeom {α : Type} [Mul α] (s : α) (g : Geom α) : dimensions (scaleGeom s g) = dimensions g :=
  dimensions_scale s g

/-- Non-vacuity of the scale theorems: the hypothesis on `sqrt` is satisfiable with `s ≠ 1` (here `s = 1/1024` and a
    square root that is right on the squares that occur), and the adversary's witness — two unit boxes as a
    multi-polygon, shrunk by 2^-10 — keeps its centroid and (scaled) area instead of collapsing to ((0,0), 0); the
    1:3 multi-line keeps its length-weighted centroid. -/
example :
    centroidArea (fun _ => (0 : Rat)) (scaleGeom (1 / 1024) (.multiPolygon
      [[[⟨10, 20⟩, ⟨12, 20⟩, ⟨12, 22⟩, ⟨10, 22⟩, ⟨10, 20⟩]], [[⟨30, 40⟩, ⟨32, 40⟩, ⟨32, 42⟩, ⟨30, 42⟩, ⟨30, 40⟩]]])) =
      ((⟨21 / 1024, 31 / 1024⟩ : Pt Rat), 8 / (1024 * 1024)) ∧
    (let sq : Rat → Rat := fun x => if x = 1 then 1 else if x = 9 then 3 else if x = 1 / (1024 * 1024) then 1 / 1024
        else if x = 9 / (1024 * 1024) then 3 / 1024 else 0
     multiLineStringCentroid sq [[⟨0, 0⟩, ⟨1, 0⟩], [⟨100, 100⟩, ⟨100, 103⟩]] = ⟨(1 / 2 + 300) / 4, (0 + 3 * (203 / 2)) / 4⟩ ∧
     multiLineStringCentroid sq ([[⟨0, 0⟩, ⟨1, 0⟩], [⟨100, 100⟩, ⟨100, 103⟩]].map (·.map (scalePt (1 / 1024)))) =
       scalePt (1 / 1024) ⟨(1 / 2 + 300) / 4, (0 + 3 * (203 / 2)) / 4⟩) := by
  refine ⟨?_, ?_, ?_⟩ <;> decide +kernel

/-- the geometric halves of the two partial clauses, stated in full -/
def polygon_area_nonneg_full : Prop :=
  ∀ (α : Type) [Field α] [LinearOrder α] [IsStrictOrderedRing α] (sqrt : α → α) (o : List (Pt α)) (hs : List (List (Pt α))),
    NestedHoles o hs → 0 ≤ (polygonCentroidArea sqrt (o :: hs)).2

/-- `polygon_area_nonneg_full` AS STATED IS FALSE: `NestedHoles` speaks about even-odd regions, and a hole that runs
    twice round the outer triangle (0,0) (4,0) (0,4) has an empty even-odd interior (so it is "nested") and twice the
    area: the polygon's area is 8 − 16 = −8.  The rings of the clause must be simple. -/
theorem polygon_area_nonneg_full_false : ¬ polygon_area_nonneg_full := by
  intro h
  have := h Rat id cexOuter [cexHole] cex_nested
  rw [cex_area] at this
  norm_num at this

/-- the geometric half of "never negative for nested rings", corrected: SIMPLE rings (stated, not proved) -/
def polygon_area_nonneg_simple_full : Prop :=
  ∀ (α : Type) [Field α] [LinearOrder α] [IsStrictOrderedRing α] (sqrt : α → α) (o : List (Pt α)) (hs : List (List (Pt α))),
    SimpleRing o → (∀ h ∈ hs, SimpleRing h) → NestedHoles o hs → 0 ≤ (polygonCentroidArea sqrt (o :: hs)).2

section nonneg_special
variable {α : Type} [Field α] [LinearOrder α] [IsStrictOrderedRing α]

/-- A ring of at most four vertices (a triangle, a quadrilateral — simple or not, degenerate or not) whose vertices all
    lie on one and the same side of EVERY edge line of a ring `r` of non-zero area (`OneSide`; for a convex `r`:
    anywhere in the polygon) has at most the area of `r`. -/
theorem ring_small_le_ring (r : List (Pt α)) (hA : ringArea r ≠ 0)
    (h : List (Pt α)) (hlen : h.length ≤ 4) (hin : ∀ p ∈ h, OneSide r p) :
    |ringArea h| ≤ |ringArea r| := small_le_ring' r hA h hlen hin

omit [IsStrictOrderedRing α] in
/-- what `OneSide` says -/
theorem oneSide_iff (r : List (Pt α)) (p : Pt α) :
    OneSide r p ↔ ((∀ e ∈ EvenOdd.edges r, 0 ≤ EvenOdd.cross e.1 e.2 p) ∨
      (∀ e ∈ EvenOdd.edges r, EvenOdd.cross e.1 e.2 p ≤ 0)) := Iff.rfl

/-- SPECIAL CASE of "never negative for nested rings", proved outright (no geometry assumed): an outer ring of non-zero
    area and ONE hole of at most four vertices (optionally closed explicitly: five listed) all of which lie on one side
    of every edge line of the outer ring — e.g. a triangular or quadrilateral hole anywhere in a convex outer ring.
    (More holes need their disjointness to be turned into additivity of area: `polygon_area_nonneg_simple_full`.) -/
theorem polygon_area_nonneg_small_hole (sqrt : α → α) (o : List (Pt α)) (hA : ringArea o ≠ 0)
    (h : List (Pt α)) (hin : ∀ p ∈ h, OneSide o p)
    (hlen : h.length ≤ 4 ∨ ∃ v t, h = v :: t ++ [v] ∧ t.length ≤ 3) :
    0 ≤ (polygonCentroidArea sqrt [o, h]).2 := polygon_area_nonneg_small_hole' sqrt o hA h hin hlen

end nonneg_special

def centroid_convex_in_bound_full : Prop :=
  ∀ (α : Type) [Field α] [LinearOrder α] [IsStrictOrderedRing α] (r : List (Pt α)) (lx hx ly hy : α),
    ConvexRing r → ringArea r ≠ 0 → (∀ v ∈ r, lx ≤ v.x ∧ v.x ≤ hx ∧ ly ≤ v.y ∧ v.y ≤ hy) →
    lx ≤ (ringCentroidArea r).1.x ∧ (ringCentroidArea r).1.x ≤ hx ∧ ly ≤ (ringCentroidArea r).1.y ∧ (ringCentroidArea r).1.y ≤ hy

/-- with convexity in the edge-side sense the second one does follow from the algebraic core -/
theorem centroid_convex_in_bound : centroid_convex_in_bound_full :=
  fun _ _ _ _ r lx hx ly hy hc hA hb => centroid_convex_in_bound' r lx hx ly hy hc hA hb

/-- Non-vacuity: a concrete CCW triangle (area 8, centroid (8/3, 4/3)), a square with a square hole (area 12),
    a 3-4-5 segment distance. -/
example : ringCentroidArea ([⟨0, 0⟩, ⟨4, 0⟩, ⟨4, 4⟩, ⟨0, 0⟩] : List (Pt Rat)) = (⟨8/3, 4/3⟩, 8) ∧
    (polygonCentroidArea id ([[⟨0, 0⟩, ⟨4, 0⟩, ⟨4, 4⟩, ⟨0, 4⟩, ⟨0, 0⟩], [⟨1, 1⟩, ⟨1, 3⟩, ⟨3, 3⟩, ⟨3, 1⟩, ⟨1, 1⟩]] : List (List (Pt Rat)))).2 = 12 ∧
    segmentDistanceFromSquared (⟨0, 0⟩ : Pt Rat) ⟨10, 0⟩ ⟨3, 4⟩ = 16 := by
  refine ⟨?_, ?_, ?_⟩ <;> decide +kernel

/-- Non-vacuity of the additions: the flat polygon of the review (falls back to the length-weighted centroid (2,0) of
    its outer ring as a line), a collection of two squares of areas 4 and 16 (centroid = area-weighted mean), and a
    tie between two members of a multi-point / multi-line (the FIRST is reported). -/
example : polygonCentroidArea id ([[⟨0, 0⟩, ⟨2, 0⟩, ⟨4, 0⟩, ⟨0, 0⟩]] : List (List (Pt Rat))) = (⟨2, 0⟩, 0) ∧
    centroidArea id (.collection [.polygon [[⟨0, 0⟩, ⟨2, 0⟩, ⟨2, 2⟩, ⟨0, 2⟩, ⟨0, 0⟩]], .lineString [⟨9, 9⟩, ⟨8, 8⟩],
      .ring [⟨10, 0⟩, ⟨14, 0⟩, ⟨14, 4⟩, ⟨10, 4⟩, ⟨10, 0⟩]] : Geom Rat) = (⟨(1 * 4 + 12 * 16) / 20, (1 * 4 + 2 * 16) / 20⟩, 20) ∧
    multiPointDistanceFrom id ([⟨5, 0⟩, ⟨0, 3⟩, ⟨3, 0⟩, ⟨0, -3⟩] : List (Pt Rat)) ⟨0, 0⟩ = (some 9, 1) ∧
    distanceFromWithIndex id (⟨0, 0⟩ : Pt Rat) (.multiLineString [[], [⟨2, -1⟩, ⟨2, 1⟩], [⟨-2, -1⟩, ⟨-2, 1⟩]]) = (some 4, 1) := by
  refine ⟨?_, ?_, ?_, ?_⟩ <;> decide +kernel

/-- Non-vacuity of the special case: the closed box (0,0)-(6,6), clockwise or counter-clockwise, and a triangular hole
    in it satisfy its hypotheses (and the area is 36 − 2 = 34). -/
example : (∀ p ∈ ([⟨1, 1⟩, ⟨1, 3⟩, ⟨3, 1⟩] : List (Pt Rat)), OneSide [⟨0, 0⟩, ⟨6, 0⟩, ⟨6, 6⟩, ⟨0, 6⟩, ⟨0, 0⟩] p) ∧
    (∀ p ∈ ([⟨1, 1⟩, ⟨1, 3⟩, ⟨3, 1⟩] : List (Pt Rat)), OneSide [⟨0, 0⟩, ⟨0, 6⟩, ⟨6, 6⟩, ⟨6, 0⟩, ⟨0, 0⟩] p) ∧
    ringArea ([⟨0, 0⟩, ⟨6, 0⟩, ⟨6, 6⟩, ⟨0, 6⟩, ⟨0, 0⟩] : List (Pt Rat)) ≠ 0 ∧
    (polygonCentroidArea id ([[⟨0, 0⟩, ⟨6, 0⟩, ⟨6, 6⟩, ⟨0, 6⟩, ⟨0, 0⟩], [⟨1, 1⟩, ⟨1, 3⟩, ⟨3, 1⟩]] : List (List (Pt Rat)))).2 = 34 := by
  simp only [OneSide]
  refine ⟨?_, ?_, ?_, ?_⟩ <;> decide +kernel

end Orb.Planar
