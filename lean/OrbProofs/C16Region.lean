/-
  C16 — REGION CLAUSE of smart clipping (`Orb.SmartClip.ring`, clip/smartclip/smart.go `Ring`), against
  the exact even-odd specification `Orb.EvenOdd` and against winding numbers.
  Exact arithmetic over a linearly ordered field.  Everything in OrbProofs/C16Region*.lean is fully
  proved (axioms: propext, Classical.choice, Quot.sound).

  FILES: C16RegionGeom (edges avoiding the open box: THE EDGE LEMMA `outE_cr`, signed form `outE_sgn`)
  → C16RegionWrap (`smartWrap_edges`: the stitching loop uses every piece exactly once)
  → C16RegionLine (`line_decomp`, `clipRings_decomp`: what the clipper discards avoids the open box)
  → C16Region (this file: `smartclip.Ring`) → C16RegionPoly (`Polygon`, `MultiPolygon`).

  WHAT IS PROVED

  Setting: a box of positive area, an orientation `o ∈ {CW, CCW}`, a ring `r` closed in Go's sense
  (`ringClosed r`: at least four points, first = last), whose boundary crosses the box
  (`clipRings box [r] = (op, cl)` with `op ≠ []`), and whose pieces start at pairwise distinct points
  (`(op.map List.head?).Nodup` — a decidable general-position condition; a simple ring satisfies it).
  NO simplicity, NO general position of `q`, NO hypothesis on vertices lying on the box boundary.

  (R-struct) `ring_cycle` — the rings returned by `smartclip.Ring` and the input ring differ by a
      MOD-2 CYCLE `Z` OF EDGES AVOIDING THE OPEN BOX: for every `q`,
        parity(crossings of all output rings at q) xor parity(crossings of r at q) = parity(crossings of Z at q),
      every edge of `Z` has no point in the open box (`OutE`), and `Z` has no coboundary (`dE g Z = false`
      for every `g`, i.e. every point is an end of an even number of edges of `Z`).  `Z` consists of the
      parts of `r` discarded by the open-bound clipper and the `aroundBound` walks.  Every piece is used
      exactly once by the stitching loop (OrbProofs/C16RegionWrap `smartWrap_edges`).
  (R1/R2/R4, one-bit form) `ring_region_const` — the difference between "inside the output (even-odd
      over all returned rings)" and "inside `r`" is THE SAME AT ALL POINTS OF THE OPEN BOX:
      for `q q₀` in the open box,
        (multiCrossings out q odd) xor (crossings r q odd) = (multiCrossings out q₀ odd) xor (crossings r q₀ odd),
      and `ring_boundary`: `q` is on an output ring iff it is on `r`.
      Hence `ring_region_of_ref`: if the output is right at ONE reference point of the open box it is
      right at EVERY point of the open box (crossing parity, boundary flag, and even-odd `inside`);
      `ring_region_eq_clip`: … and then equals the region of plain `clip.Ring` (`sh_region_strong`).
  (R3, winding-number form) `ring_winding_const` — with signs: Σ winding numbers of the returned rings
      round `q` minus the winding number of `r` round `q` is THE SAME INTEGER at all points of the open
      box; `ring_winding_of_ref`, `ring_winding_of_range`.  (`winding_emod`: even-odd = odd winding.)
  (witness) `witness_ccw`, `witness_cw`, `witness_ccw_winding`, `witness_cw_winding` — for a concrete
      square cut by a corner of the box, at EVERY point of the open box: requested with its own winding
      the output is exactly the part inside; requested with the other winding it is the complement
      (winding number off by `-1`).  So the one remaining bit is real and is the orientation.

  WHAT IS NOT PROVED.  The remaining bit (the integer `n` of `ring_winding_const`) is the winding of the
  cycle `Z` round the box.  It vanishes exactly when the walks go round the box on the side of the
  discarded parts, which is what "correctly wound" buys; deriving it from "`r` is SIMPLE and its shoelace
  area has the sign of `o`" is the polygonal Jordan curve theorem (interior on the left ⇔ positive area),
  not available here.  Likewise the sign of the shoelace area of each individual returned ring, and
  that distinct returned rings do not overlap.
-/
import OrbProofs.C16RegionLine
import OrbProofs.C16RegionWrap

namespace Orb.SmartClip
open Orb Orb.Core
open Orb.Clip.C16R (OutE Decomp SameSide dE pot)
open Orb.Clip.C08R (crE onE)

set_option linter.unusedSectionVars false
set_option linter.unusedSimpArgs false
set_option linter.unusedVariables false

variable {α : Type} [Field α] [LinearOrder α] [IsStrictOrderedRing α]

/-! ### the even-odd region of a set of rings -/

/-- number of ring edges of the multi-polygon crossed by the spec's upward ray from `q`
    (all rings of all polygons) -/
def multiCrossings (mp : List (List (List (Pt α)))) (q : Pt α) : Nat :=
  (mp.flatten.map fun rg => EvenOdd.crossings rg q).sum

/-- `q` lies on one of the rings -/
def multiOnBoundary (mp : List (List (List (Pt α)))) (q : Pt α) : Bool :=
  mp.flatten.any fun rg => EvenOdd.onBoundary rg q

/-- the closed even-odd region of all the rings together: on a ring, or an odd number of crossings -/
def multiEvenOdd (mp : List (List (List (Pt α)))) (q : Pt α) : Bool :=
  multiOnBoundary mp q || multiCrossings mp q % 2 == 1

/-- the winding number of the (implicitly closed) ring round `q`: signed crossings of the upward ray,
    `+1` for an edge passing above `q` from right to left -/
def winding (r : List (Pt α)) (q : Pt α) : ℤ := Clip.C16R.wE (EvenOdd.edges r) q

/-- the sum of the winding numbers of all rings of the multi-polygon round `q` -/
def multiWinding (mp : List (List (List (Pt α)))) (q : Pt α) : ℤ := (mp.flatten.map fun rg => winding rg q).sum

theorem sum_winding (L : List (List (Pt α))) (q : Pt α) :
    (L.map fun rg => winding rg q).sum = Clip.C16R.wE (L.flatMap EvenOdd.edges) q := by
  induction L with
  | nil => rfl
  | cons rg L ih =>
    rw [List.map_cons, List.sum_cons, ih, List.flatMap_cons, Clip.C16R.wE_append]; rfl

theorem multiWinding_eq (mp : List (List (List (Pt α)))) (q : Pt α) :
    multiWinding mp q = Clip.C16R.wE (mp.flatten.flatMap EvenOdd.edges) q := sum_winding _ q

/-- even-odd is "odd winding number": the parity of the winding number is the crossing parity -/
theorem winding_emod (r : List (Pt α)) (q : Pt α) : winding r q % 2 = ((EvenOdd.crossings r q % 2 : Nat) : ℤ) := by
  unfold winding
  rw [Clip.C16R.wE_emod, ← Clip.C08R.crossings_parity]
  rcases Nat.mod_two_eq_zero_or_one (EvenOdd.crossings r q) with h | h <;> rw [h] <;> rfl

theorem parity_add (a b : Nat) : ((a + b) % 2 == 1) = ((a % 2 == 1) != (b % 2 == 1)) := by
  rcases Nat.mod_two_eq_zero_or_one a with h1 | h1 <;> rcases Nat.mod_two_eq_zero_or_one b with h2 | h2 <;>
    simp [Nat.add_mod, h1, h2]

theorem sum_crossings_parity (L : List (List (Pt α))) (q : Pt α) :
    ((L.map fun rg => EvenOdd.crossings rg q).sum % 2 == 1) = crE (L.flatMap EvenOdd.edges) q := by
  induction L with
  | nil => rfl
  | cons rg L ih =>
    rw [List.map_cons, List.sum_cons, parity_add, ih, List.flatMap_cons, Clip.C16R.crE_append]
    rfl

theorem multiCrossings_parity (mp : List (List (List (Pt α)))) (q : Pt α) :
    (multiCrossings mp q % 2 == 1) = crE (mp.flatten.flatMap EvenOdd.edges) q :=
  sum_crossings_parity _ q

theorem any_onBoundary (L : List (List (Pt α))) (q : Pt α) :
    (L.any fun rg => EvenOdd.onBoundary rg q) = onE (L.flatMap EvenOdd.edges) q := by
  induction L with
  | nil => rfl
  | cons rg L ih =>
    rw [List.any_cons, ih, List.flatMap_cons, Clip.C16R.onE_append]
    rfl

theorem multiOnBoundary_eq (mp : List (List (List (Pt α)))) (q : Pt α) :
    multiOnBoundary mp q = onE (mp.flatten.flatMap EvenOdd.edges) q := any_onBoundary _ q

/-! ### closed rings: `edges` versus `chain` -/

theorem closed_edges (rg : List (Pt α)) (hc : ClosedRing rg) :
    ∃ f t, rg = f :: t ∧ EvenOdd.edges rg = (f, f) :: Contains.chain rg ∧ Contains.lastD' f t = f := by
  obtain ⟨hne, hhl⟩ := hc
  cases rg with
  | nil => exact absurd rfl hne
  | cons f t =>
    have hz : Contains.lastD' f t = f := by
      rw [← Contains.getLast?_getD_eq, ← hhl]; rfl
    exact ⟨f, t, rfl, by rw [Contains.edges_cons, hz], hz⟩

theorem closed_crE (rg : List (Pt α)) (hc : ClosedRing rg) (q : Pt α) :
    crE (EvenOdd.edges rg) q = crE (Contains.chain rg) q := by
  obtain ⟨f, t, rfl, he, _⟩ := closed_edges rg hc
  rw [he, Clip.C08R.crE_cons, Contains.crossesAbove_self]
  cases crE (Contains.chain (f :: t)) q <;> rfl

theorem closed_dE (rg : List (Pt α)) (hc : ClosedRing rg) (g : Pt α → Bool) : dE g (Contains.chain rg) = false := by
  obtain ⟨f, t, rfl, _, hz⟩ := closed_edges rg hc
  exact Clip.C16R.dE_chain_closed g f t hz

theorem closed_onE (rg : List (Pt α)) (hc : ClosedRing rg) (h2 : 2 ≤ rg.length) (q : Pt α) :
    onE (EvenOdd.edges rg) q = onE (Contains.chain rg) q := by
  obtain ⟨f, t, rfl, he, _⟩ := closed_edges rg hc
  rw [he, Clip.C08R.onE_cons]
  cases hs : EvenOdd.onSeg f f q with
  | false => rfl
  | true =>
    have := Contains.onSeg_self f q hs
    subst this
    cases t with
    | nil => simp at h2
    | cons x t' =>
      rw [Clip.C08R.chain_cons_cons, Clip.C08R.onE_cons, Clip.C08R.onSeg_of_OnSeg (Clip.onSeg_left q x)]
      rfl

theorem closed_wE (rg : List (Pt α)) (hc : ClosedRing rg) (q : Pt α) :
    Clip.C16R.wE (EvenOdd.edges rg) q = Clip.C16R.wE (Contains.chain rg) q := by
  obtain ⟨f, t, rfl, he, _⟩ := closed_edges rg hc
  rw [he, Clip.C16R.wE_cons, Clip.C16R.sgn_self, zero_add]

theorem closed_dZ (rg : List (Pt α)) (hc : ClosedRing rg) (P : Pt α → ℤ) : Clip.C16R.dZ P (Contains.chain rg) = 0 := by
  obtain ⟨f, t, rfl, _, hz⟩ := closed_edges rg hc
  exact Clip.C16R.dZ_chain_closed P f t hz

theorem closedL_wE (L : List (List (Pt α))) (hc : ∀ rg ∈ L, ClosedRing rg) (q : Pt α) :
    Clip.C16R.wE (L.flatMap EvenOdd.edges) q = Clip.C16R.wE (L.flatMap Contains.chain) q := by
  induction L with
  | nil => rfl
  | cons rg L ih =>
    rw [List.flatMap_cons, List.flatMap_cons, Clip.C16R.wE_append, Clip.C16R.wE_append,
      closed_wE rg (hc rg List.mem_cons_self), ih (fun x hx => hc x (List.mem_cons_of_mem _ hx))]

theorem closedL_dZ (L : List (List (Pt α))) (hc : ∀ rg ∈ L, ClosedRing rg) (P : Pt α → ℤ) :
    Clip.C16R.dZ P (L.flatMap Contains.chain) = 0 := by
  induction L with
  | nil => rfl
  | cons rg L ih =>
    rw [List.flatMap_cons, Clip.C16R.dZ_append, closed_dZ rg (hc rg List.mem_cons_self),
      ih (fun x hx => hc x (List.mem_cons_of_mem _ hx)), add_zero]

theorem closedL_crE (L : List (List (Pt α))) (hc : ∀ rg ∈ L, ClosedRing rg) (q : Pt α) :
    crE (L.flatMap EvenOdd.edges) q = crE (L.flatMap Contains.chain) q := by
  induction L with
  | nil => rfl
  | cons rg L ih =>
    rw [List.flatMap_cons, List.flatMap_cons, Clip.C16R.crE_append, Clip.C16R.crE_append,
      closed_crE rg (hc rg List.mem_cons_self), ih (fun x hx => hc x (List.mem_cons_of_mem _ hx))]

theorem closedL_onE (L : List (List (Pt α))) (hc : ∀ rg ∈ L, ClosedRing rg) (h2 : ∀ rg ∈ L, 2 ≤ rg.length)
    (q : Pt α) : onE (L.flatMap EvenOdd.edges) q = onE (L.flatMap Contains.chain) q := by
  induction L with
  | nil => rfl
  | cons rg L ih =>
    rw [List.flatMap_cons, List.flatMap_cons, Clip.C16R.onE_append, Clip.C16R.onE_append,
      closed_onE rg (hc rg List.mem_cons_self) (h2 rg List.mem_cons_self),
      ih (fun x hx => hc x (List.mem_cons_of_mem _ hx)) (fun x hx => h2 x (List.mem_cons_of_mem _ hx))]

theorem closedL_dE (L : List (List (Pt α))) (hc : ∀ rg ∈ L, ClosedRing rg) (g : Pt α → Bool) :
    dE g (L.flatMap Contains.chain) = false := by
  induction L with
  | nil => rfl
  | cons rg L ih =>
    rw [List.flatMap_cons, Clip.C16R.dE_append, closed_dE rg (hc rg List.mem_cons_self),
      ih (fun x hx => hc x (List.mem_cons_of_mem _ hx))]
    rfl

theorem flatten_flatMap {β γ : Type} (f : β → List γ) (L : List (List β)) :
    L.flatten.flatMap f = L.flatMap fun l => l.flatMap f := by
  induction L with
  | nil => rfl
  | cons l L ih => rw [List.flatten_cons, List.flatMap_append, ih, List.flatMap_cons]

/-! ### every returned ring has at least two vertices -/

theorem wrapLoop_len2 (box : Bound α) (input : List (List (Pt α))) (o : Int) (n fuel : Nat)
    (hp : ∀ ls ∈ input, 2 ≤ ls.length) (st : WrapSt α) (i : Nat) (out : List (List (List (Pt α))))
    (h : wrapLoop box input o n fuel st i = .ok out)
    (hst : (∀ pg ∈ st.result, ∀ rg ∈ pg, 2 ≤ rg.length) ∧ (st.current = [] ∨ 2 ≤ st.current.length)) :
    ∀ pg ∈ out, ∀ rg ∈ pg, 2 ≤ rg.length := by
  have hstep : ∀ st i st' i',
      ((∀ pg ∈ st.result, ∀ rg ∈ pg, 2 ≤ rg.length) ∧ (st.current = [] ∨ 2 ≤ st.current.length)) →
      wrapStep box input o n st i = .ok (.inr (st', i')) →
      ((∀ pg ∈ st'.result, ∀ rg ∈ pg, 2 ≤ rg.length) ∧ (st'.current = [] ∨ 2 ≤ st'.current.length)) := by
    intro st i st' i' hP hx
    rcases wrapStep_cases hx with ⟨_, hr⟩ | ⟨_, ep, _, hr | ⟨_, _, piece, hpc, hr⟩ |
      ⟨_, cf, cl, rTail, hcf, hcl, hrt, ⟨hpf, hr⟩ | ⟨piece, hpc, _, hr⟩⟩⟩
    · cases hr
    · cases hr; exact hP
    · cases hr
      exact ⟨hP.1, Or.inr (hp piece (List.mem_of_getElem? hpc))⟩
    · cases hr
      have hcur : 2 ≤ st.current.length := by
        rcases hP.2 with h0 | h0
        · rw [h0] at hcf; cases hcf
        · exact h0
      refine ⟨?_, Or.inl rfl⟩
      intro pg hpg
      rcases List.mem_append.1 hpg with hpg | hpg
      · exact hP.1 pg hpg
      · simp only [List.mem_singleton] at hpg
        subst hpg
        intro rg hrg
        simp only [List.mem_singleton] at hrg
        subst hrg
        rw [List.length_append]; omega
    · cases hr
      refine ⟨hP.1, Or.inr ?_⟩
      have := hp piece (List.mem_of_getElem? hpc)
      simp only [List.length_append]; omega
  obtain ⟨stf, hP, rfl⟩ := wrapLoop_inv _ hstep fuel st i out h hst
  exact hP.1

theorem smartWrap_len2 (box : Bound α) (input : List (List (Pt α))) (o : Int)
    (hp : ∀ ls ∈ input, 2 ≤ ls.length) (out : List (List (List (Pt α)))) (h : smartWrap box input o = .ok out) :
    ∀ pg ∈ out, ∀ rg ∈ pg, 2 ≤ rg.length := by
  obtain ⟨pts, sorted, _, _, h⟩ := smartWrap_inv h
  exact wrapLoop_len2 box input o _ _ hp _ _ out h ⟨(by intro pg hpg; cases hpg), Or.inl rfl⟩

/-! ### the cycle -/

/-- the walk edges: what `smartWrap_edges` gives for the rings finally returned -/
theorem cycle_data (box : Bound α) (hb : BoxOK box) (o : Int) (ho : o = CW ∨ o = CCW)
    (op K : List (List (Pt α))) (hpok : ∀ ls ∈ op, PieceOK box ls) (hnd : (op.map List.head?).Nodup)
    (hK : ∀ rg ∈ K, ClosedRing rg ∧ 2 ≤ rg.length)
    (result : List (List (List (Pt α)))) (hw : smartWrap box op o = .ok result)
    (outR : List (List (Pt α))) (hout : outR.Perm (result.flatten ++ K)) :
    ∃ Wk : List (Pt α × Pt α), (∀ se ∈ Wk, OutE box se.1 se.2) ∧
      (outR.flatMap Contains.chain).Perm (op.flatMap Contains.chain ++ Wk ++ K.flatMap Contains.chain) ∧
      ∀ rg ∈ outR, ClosedRing rg ∧ 2 ≤ rg.length := by
  obtain ⟨Wk, hWk, hperm⟩ := smartWrap_edges box hb op o ho hpok hnd result hw
  have hclosed := smartWrap_rings_closed' box op o result hw
  have hlen := smartWrap_len2 box op o (fun ls hls => (hpok ls hls).1) result hw
  have hres : ∀ rg ∈ result.flatten, ClosedRing rg ∧ 2 ≤ rg.length := by
    intro rg hrg
    obtain ⟨pg, hpg, hrg⟩ := List.mem_flatten.1 hrg
    refine ⟨?_, hlen pg hpg rg hrg⟩
    obtain ⟨rg', rfl, hc⟩ := hclosed pg hpg
    simp only [List.mem_singleton] at hrg
    subst hrg; exact hc
  refine ⟨Wk, fun se hse => Clip.C16R.outE_of_side (hWk se hse), ?_, ?_⟩
  · refine (List.Perm.flatMap_right _ hout).trans ?_
    rw [List.flatMap_append, flatten_flatMap]
    exact List.Perm.append_right _ hperm
  · intro rg hrg
    rcases List.mem_append.1 (hout.subset hrg) with h' | h'
    · exact hres rg h'
    · exact hK rg h'

/-- THE CORE.  `R` are the input rings (closed), cut by the clipper into open pieces `op`, kept closed
    rings `K` and discarded edges `O` avoiding the open box (`D`); `result` is what `smartWrap` makes
    of the pieces and `outR` are the rings finally returned: those of `result` and the kept ones.
    Then output and input differ by a mod-2 cycle `Z` of edges avoiding the open box. -/
theorem cycle_core (box : Bound α) (hb : BoxOK box) (o : Int) (ho : o = CW ∨ o = CCW)
    (R : List (List (Pt α))) (hR : ∀ r ∈ R, ClosedRing r ∧ 2 ≤ r.length)
    (op K : List (List (Pt α))) (hpok : ∀ ls ∈ op, PieceOK box ls) (hnd : (op.map List.head?).Nodup)
    (hK : ∀ rg ∈ K, ClosedRing rg ∧ 2 ≤ rg.length)
    (O : List (Pt α × Pt α)) (hO : ∀ se ∈ O, OutE box se.1 se.2)
    (D : Decomp (R.flatMap Contains.chain) ((op ++ K).flatMap Contains.chain) O)
    (result : List (List (List (Pt α)))) (hw : smartWrap box op o = .ok result)
    (outR : List (List (Pt α))) (hout : outR.Perm (result.flatten ++ K)) :
    ∃ Z : List (Pt α × Pt α), (∀ se ∈ Z, OutE box se.1 se.2) ∧ (∀ g : Pt α → Bool, dE g Z = false) ∧
      (∀ q, (crE (outR.flatMap EvenOdd.edges) q != crE (R.flatMap EvenOdd.edges) q) = crE Z q) ∧
      (∀ q, InOpenBox box q → onE (outR.flatMap EvenOdd.edges) q = onE (R.flatMap EvenOdd.edges) q) := by
  obtain ⟨Wk, hWkO, hperm', hall⟩ := cycle_data box hb o ho op K hpok hnd hK result hw outR hout
  rw [List.flatMap_append] at D
  refine ⟨O ++ Wk, ?_, ?_, ?_, ?_⟩
  · intro se hse
    rcases List.mem_append.1 hse with h' | h'
    · exact hO se h'
    · exact hWkO se h'
  · intro g
    have e1 : dE g (R.flatMap Contains.chain) = false := closedL_dE _ (fun r hr => (hR r hr).1) g
    have e2 : dE g (outR.flatMap Contains.chain) = false := closedL_dE _ (fun r hr => (hall r hr).1) g
    have e3 : dE g (K.flatMap Contains.chain) = false := closedL_dE _ (fun r hr => (hK r hr).1) g
    rw [D.d g, Clip.C16R.dE_append, e3] at e1
    rw [Clip.C16R.dE_perm hperm' g, Clip.C16R.dE_append, Clip.C16R.dE_append, e3] at e2
    rw [Clip.C16R.dE_append]
    revert e1 e2
    cases dE g (op.flatMap Contains.chain) <;> cases dE g O <;> cases dE g Wk <;> simp
  · intro q
    rw [closedL_crE _ (fun r hr => (hall r hr).1) q, closedL_crE _ (fun r hr => (hR r hr).1) q,
      Clip.C16R.crE_perm hperm' q, Clip.C16R.crE_append, Clip.C16R.crE_append, D.cr q,
      Clip.C16R.crE_append, Clip.C16R.crE_append]
    cases crE (op.flatMap Contains.chain) q <;> cases crE O q <;> cases crE Wk q <;>
      cases crE (K.flatMap Contains.chain) q <;> rfl
  · intro q hq
    rw [closedL_onE _ (fun r hr => (hall r hr).1) (fun r hr => (hall r hr).2) q,
      closedL_onE _ (fun r hr => (hR r hr).1) (fun r hr => (hR r hr).2) q, Clip.C16R.onE_perm hperm' q,
      Clip.C16R.onE_append, Clip.C16R.onE_append, D.on q, Clip.C16R.onE_append,
      Clip.C16R.outE_list_on hq Wk hWkO, Clip.C16R.outE_list_on hq O hO]
    cases onE (op.flatMap Contains.chain) q <;> cases onE (K.flatMap Contains.chain) q <;> rfl

/-- THE CORE, WITH SIGNS: the sum of the winding numbers of the returned rings differs from that of the
    input rings by the same integer at all points of the open box. -/
theorem cycle_core_w (box : Bound α) (hb : BoxOK box) (o : Int) (ho : o = CW ∨ o = CCW)
    (R : List (List (Pt α))) (hR : ∀ r ∈ R, ClosedRing r ∧ 2 ≤ r.length)
    (op K : List (List (Pt α))) (hpok : ∀ ls ∈ op, PieceOK box ls) (hnd : (op.map List.head?).Nodup)
    (hK : ∀ rg ∈ K, ClosedRing rg ∧ 2 ≤ rg.length)
    (O : List (Pt α × Pt α)) (hO : ∀ se ∈ O, OutE box se.1 se.2)
    (D : Decomp (R.flatMap Contains.chain) ((op ++ K).flatMap Contains.chain) O)
    (result : List (List (List (Pt α)))) (hw : smartWrap box op o = .ok result)
    (outR : List (List (Pt α))) (hout : outR.Perm (result.flatten ++ K))
    (q q₀ : Pt α) (hq : InOpenBox box q) (hq₀ : InOpenBox box q₀) :
    Clip.C16R.wE (outR.flatMap EvenOdd.edges) q - Clip.C16R.wE (R.flatMap EvenOdd.edges) q =
      Clip.C16R.wE (outR.flatMap EvenOdd.edges) q₀ - Clip.C16R.wE (R.flatMap EvenOdd.edges) q₀ := by
  obtain ⟨Wk, hWkO, hperm', hall⟩ := cycle_data box hb o ho op K hpok hnd hK result hw outR hout
  rw [List.flatMap_append] at D
  have k1 := Clip.C16R.outE_list_sgn (box := box) hb hq hq₀ Wk hWkO
  have k2 := Clip.C16R.outE_list_sgn (box := box) hb hq hq₀ O hO
  generalize Clip.C16R.potZ box q q₀ = P at k1 k2
  have e1 : Clip.C16R.dZ P (R.flatMap Contains.chain) = 0 := closedL_dZ _ (fun r hr => (hR r hr).1) P
  have e2 : Clip.C16R.dZ P (outR.flatMap Contains.chain) = 0 := closedL_dZ _ (fun r hr => (hall r hr).1) P
  have e3 : Clip.C16R.dZ P (K.flatMap Contains.chain) = 0 := closedL_dZ _ (fun r hr => (hK r hr).1) P
  rw [D.dz P, Clip.C16R.dZ_append, e3] at e1
  rw [Clip.C16R.dZ_perm hperm' P, Clip.C16R.dZ_append, Clip.C16R.dZ_append, e3] at e2
  have w1 : ∀ p, Clip.C16R.wE (outR.flatMap EvenOdd.edges) p =
      Clip.C16R.wE (op.flatMap Contains.chain) p + Clip.C16R.wE Wk p + Clip.C16R.wE (K.flatMap Contains.chain) p := by
    intro p
    rw [closedL_wE _ (fun r hr => (hall r hr).1) p, Clip.C16R.wE_perm hperm' p, Clip.C16R.wE_append,
      Clip.C16R.wE_append]
  have w2 : ∀ p, Clip.C16R.wE (R.flatMap EvenOdd.edges) p =
      Clip.C16R.wE (op.flatMap Contains.chain) p + Clip.C16R.wE (K.flatMap Contains.chain) p + Clip.C16R.wE O p := by
    intro p
    rw [closedL_wE _ (fun r hr => (hR r hr).1) p, D.w p, Clip.C16R.wE_append]
  rw [w1 q, w1 q₀, w2 q, w2 q₀]
  linarith

/-- what `cycle_core` gives at two points of the open box -/
theorem cycle_const (box : Bound α) (hb : BoxOK box) (A B : List (Pt α × Pt α))
    (hZ : ∃ Z : List (Pt α × Pt α), (∀ se ∈ Z, OutE box se.1 se.2) ∧ (∀ g : Pt α → Bool, dE g Z = false) ∧
      (∀ q, (crE A q != crE B q) = crE Z q) ∧ (∀ q, InOpenBox box q → onE A q = onE B q))
    (q q₀ : Pt α) (hq : InOpenBox box q) (hq₀ : InOpenBox box q₀) :
    (crE A q != crE B q) = (crE A q₀ != crE B q₀) := by
  obtain ⟨Z, hZ, hd, hcr', _⟩ := hZ
  have key := Clip.C16R.outE_list (box := box) hb hq hq₀ Z hZ
  rw [hd] at key
  rw [hcr' q, hcr' q₀]
  revert key
  cases crE Z q <;> cases crE Z q₀ <;> simp

theorem ringClosed_closed (r : List (Pt α)) (hrc : ringClosed r = true) : ClosedRing r ∧ 2 ≤ r.length := by
  obtain ⟨h4, f, hf, hlast⟩ := ringClosed_spec r hrc
  exact ⟨⟨by intro e; rw [e] at h4; simp at h4, by rw [hf, hlast]⟩, by omega⟩

theorem insideRing_closed {box : Bound α} {K : List (List (Pt α))} (h : ∀ ls ∈ K, InsideRing box ls ∧ 2 ≤ ls.length) :
    ∀ rg ∈ K, ClosedRing rg ∧ 2 ≤ rg.length := fun rg hrg => ⟨(h rg hrg).1.1, (h rg hrg).2⟩

/-! ### `smartclip.Ring` -/

/-- what `smartclip.Ring` returns when the boundary of the ring crosses the box -/
theorem ring_eq_smartWrap (box : Bound α) (r : List (Pt α)) (o : Int) (hne : r ≠ [])
    (op cl : List (List (Pt α))) (hcr : clipRings box [r] = .ok (op, cl)) (hop : op ≠ []) :
    ring box r o = smartWrap box op o := by
  have hemp : r.isEmpty = false := by
    cases r with
    | nil => exact absurd rfl hne
    | cons a t => rfl
  have hopE : op.isEmpty = false := by
    cases op with
    | nil => exact absurd rfl hop
    | cons a t => rfl
  rw [ring_unfold, hemp, hcr]
  simp only [Bool.false_eq_true, if_false, resD_ok_bind, hopE]

/-- (R-struct) THE OUTPUT AND THE INPUT DIFFER BY A MOD-2 CYCLE OF EDGES AVOIDING THE OPEN BOX. -/
theorem ring_cycle (box : Bound α) (hb : BoxOK box) (r : List (Pt α)) (o : Int) (ho : o = CW ∨ o = CCW)
    (hrc : ringClosed r = true) (op cl : List (List (Pt α))) (hcr : clipRings box [r] = .ok (op, cl))
    (hop : op ≠ []) (hnd : (op.map List.head?).Nodup)
    (out : List (List (List (Pt α)))) (h : ring box r o = .ok out) :
    ∃ Z : List (Pt α × Pt α), (∀ se ∈ Z, OutE box se.1 se.2) ∧ (∀ g : Pt α → Bool, dE g Z = false) ∧
      (∀ q, (crE (out.flatten.flatMap EvenOdd.edges) q != crE (EvenOdd.edges r) q) = crE Z q) ∧
      (∀ q, InOpenBox box q → onE (out.flatten.flatMap EvenOdd.edges) q = onE (EvenOdd.edges r) q) := by
  have hrcl := ringClosed_closed r hrc
  obtain ⟨⟨O, hO, D⟩, hshape⟩ := clipRings_decomp box hb r hrc op cl hcr
  obtain ⟨rfl, hpok⟩ : cl = [] ∧ ∀ ls ∈ op, PieceOK box ls := by
    rcases hshape with h' | ⟨h', _⟩
    · exact h'
    · exact absurd h' hop
  rw [ring_eq_smartWrap box r o hrcl.1.1 op [] hcr hop] at h
  have := cycle_core box hb o ho [r] (by simpa using hrcl) op [] hpok hnd (by simp) O hO
    (by simpa using D) out h out.flatten (by simp)
  simpa using this

/-! ### the region clause, one-bit form -/

/-- (R1/R2/R4, one-bit form) For a ring closed in Go's sense whose boundary crosses the box and whose
    pieces start at distinct points: the discrepancy between the even-odd region of the returned rings
    and the even-odd region of the input ring is THE SAME AT ALL POINTS OF THE OPEN BOX. -/
theorem ring_region_const (box : Bound α) (hb : BoxOK box) (r : List (Pt α)) (o : Int) (ho : o = CW ∨ o = CCW)
    (hrc : ringClosed r = true) (op cl : List (List (Pt α))) (hcr : clipRings box [r] = .ok (op, cl))
    (hop : op ≠ []) (hnd : (op.map List.head?).Nodup)
    (out : List (List (List (Pt α)))) (h : ring box r o = .ok out)
    (q q₀ : Pt α) (hq : InOpenBox box q) (hq₀ : InOpenBox box q₀) :
    ((multiCrossings out q % 2 == 1) != (EvenOdd.crossings r q % 2 == 1)) =
      ((multiCrossings out q₀ % 2 == 1) != (EvenOdd.crossings r q₀ % 2 == 1)) := by
  have hZ := ring_cycle box hb r o ho hrc op cl hcr hop hnd out h
  rw [multiCrossings_parity, multiCrossings_parity, Clip.C08R.crossings_parity, Clip.C08R.crossings_parity]
  exact cycle_const box hb _ _ hZ q q₀ hq hq₀

/-- a point of the open box is on a returned ring iff it is on the input ring -/
theorem ring_boundary (box : Bound α) (hb : BoxOK box) (r : List (Pt α)) (o : Int) (ho : o = CW ∨ o = CCW)
    (hrc : ringClosed r = true) (op cl : List (List (Pt α))) (hcr : clipRings box [r] = .ok (op, cl))
    (hop : op ≠ []) (hnd : (op.map List.head?).Nodup)
    (out : List (List (List (Pt α)))) (h : ring box r o = .ok out) (q : Pt α) (hq : InOpenBox box q) :
    multiOnBoundary out q = EvenOdd.onBoundary r q := by
  obtain ⟨Z, _, _, _, hon⟩ := ring_cycle box hb r o ho hrc op cl hcr hop hnd out h
  rw [multiOnBoundary_eq, Clip.C08R.onBoundary_eq]
  exact hon q hq

theorem parity_of_beq {n m : Nat} (h : (n % 2 == 1) = (m % 2 == 1)) : n % 2 = m % 2 :=
  Clip.C08R.parity_of_crE h

theorem parity_transfer {a b c d : Nat} (hc : ((a % 2 == 1) != (b % 2 == 1)) = ((c % 2 == 1) != (d % 2 == 1)))
    (href : c % 2 = d % 2) : a % 2 = b % 2 := by
  apply parity_of_beq
  rw [href] at hc
  revert hc
  cases (a % 2 == 1) <;> cases (b % 2 == 1) <;> cases (d % 2 == 1) <;> simp

/-- REGION EQUALITY FROM ONE REFERENCE POINT: if the returned rings enclose (even-odd) the right side at
    one point `q₀` of the open box, they enclose exactly the part of the input region inside the box:
    crossing parity, boundary flag and even-odd `inside` agree at EVERY point `q` of the open box. -/
theorem ring_region_of_ref (box : Bound α) (hb : BoxOK box) (r : List (Pt α)) (o : Int) (ho : o = CW ∨ o = CCW)
    (hrc : ringClosed r = true) (op cl : List (List (Pt α))) (hcr : clipRings box [r] = .ok (op, cl))
    (hop : op ≠ []) (hnd : (op.map List.head?).Nodup)
    (out : List (List (List (Pt α)))) (h : ring box r o = .ok out)
    (q₀ : Pt α) (hq₀ : InOpenBox box q₀) (href : multiCrossings out q₀ % 2 = EvenOdd.crossings r q₀ % 2)
    (q : Pt α) (hq : InOpenBox box q) :
    multiCrossings out q % 2 = EvenOdd.crossings r q % 2 ∧ multiOnBoundary out q = EvenOdd.onBoundary r q ∧
      multiEvenOdd out q = EvenOdd.inside r q := by
  have hc := ring_region_const box hb r o ho hrc op cl hcr hop hnd out h q q₀ hq hq₀
  have hb' := ring_boundary box hb r o ho hrc op cl hcr hop hnd out h q hq
  have h1 : multiCrossings out q % 2 = EvenOdd.crossings r q % 2 := parity_transfer hc href
  refine ⟨h1, hb', ?_⟩
  unfold multiEvenOdd EvenOdd.inside
  rw [hb', h1]

/-- … and then it is the region plain clipping gives (`clip.Ring`, Sutherland–Hodgman, `sh_region_strong`). -/
theorem ring_region_eq_clip (box : Bound α) (hb : BoxOK box) (r : List (Pt α)) (o : Int) (ho : o = CW ∨ o = CCW)
    (hrc : ringClosed r = true) (op cl : List (List (Pt α))) (hcr : clipRings box [r] = .ok (op, cl))
    (hop : op ≠ []) (hnd : (op.map List.head?).Nodup)
    (out : List (List (List (Pt α)))) (h : ring box r o = .ok out)
    (plain : List (Pt α)) (hplain : Clip.ring box r = some plain)
    (q₀ : Pt α) (hq₀ : InOpenBox box q₀) (href : multiCrossings out q₀ % 2 = EvenOdd.crossings r q₀ % 2)
    (q : Pt α) (hq : InOpenBox box q) :
    multiCrossings out q % 2 = EvenOdd.crossings plain q % 2 ∧
      multiOnBoundary out q = EvenOdd.onBoundary plain q ∧ multiEvenOdd out q = EvenOdd.inside plain q := by
  have hrcl : Clip.ClosedRing r := (ringClosed_closed r hrc).1
  obtain ⟨a1, a2, a3⟩ := ring_region_of_ref box hb r o ho hrc op cl hcr hop hnd out h q₀ hq₀ href q hq
  obtain ⟨b1, b2, b3⟩ := Clip.C08R.sh_region_strong box r plain q hb hrcl hplain hq
  exact ⟨a1.trans b1.symm, a2.trans b2.symm, a3.trans b3.symm⟩

/-! ### when no open piece is cut: the ring is returned whole, or nothing is -/

/-- no open piece but an interior ring: `smartclip.Ring` hands the input back (region trivially equal) -/
theorem ring_unclipped (box : Bound α) (r : List (Pt α)) (o : Int) (hne : r ≠ [])
    (cl : List (List (Pt α))) (hcr : clipRings box [r] = .ok ([], cl)) (hcl : cl ≠ []) :
    ring box r o = .ok [[r]] := by
  have hemp : r.isEmpty = false := by
    cases r with
    | nil => exact absurd rfl hne
    | cons a t => rfl
  have hclE : cl.isEmpty = false := by
    cases cl with
    | nil => exact absurd rfl hcl
    | cons a t => rfl
  rw [ring_unfold, hemp, hcr]
  simp only [Bool.false_eq_true, if_false, resD_ok_bind, List.isEmpty_nil, if_true, hclE]
  rfl

/-- neither an open piece nor an interior ring: the ring does not meet the open box, `smartclip.Ring`
    returns nothing, and the whole open box is on ONE side of the ring (all inside or all outside — the
    former is the known case "box wholly inside the ring", outside the property's quantifier). -/
theorem ring_nil_const (box : Bound α) (hb : BoxOK box) (r : List (Pt α)) (o : Int)
    (hrc : ringClosed r = true) (hcr : clipRings box [r] = .ok ([], [])) :
    ring box r o = .ok [] ∧ ∀ q q₀, InOpenBox box q → InOpenBox box q₀ →
      EvenOdd.crossings r q % 2 = EvenOdd.crossings r q₀ % 2 ∧ EvenOdd.onBoundary r q = false := by
  have hrcl := ringClosed_closed r hrc
  have hemp : r.isEmpty = false := by
    cases r with
    | nil => exact absurd rfl hrcl.1.1
    | cons a t => rfl
  constructor
  · rw [ring_unfold, hemp, hcr]
    simp only [Bool.false_eq_true, if_false, resD_ok_bind, List.isEmpty_nil, if_true]
    rfl
  · intro q q₀ hq hq₀
    obtain ⟨⟨O, hO, D⟩, _⟩ := clipRings_decomp box hb r hrc [] [] hcr
    simp only [List.append_nil, List.flatMap_nil] at D
    have hd : dE (pot box q q₀) O = false := by
      have := D.d (pot box q q₀)
      rw [closed_dE r hrcl.1, Clip.C16R.dE_nil] at this
      revert this
      cases dE (pot box q q₀) O <;> simp
    have key := Clip.C16R.outE_list (box := box) hb hq hq₀ O hO
    rw [hd] at key
    constructor
    · apply parity_of_beq
      rw [Clip.C08R.crossings_parity, Clip.C08R.crossings_parity, closed_crE r hrcl.1, closed_crE r hrcl.1,
        D.cr q, D.cr q₀, Clip.C08R.crE_nil, Clip.C08R.crE_nil]
      revert key
      cases crE O q <;> cases crE O q₀ <;> simp
    · rw [Clip.C08R.onBoundary_eq, closed_onE r hrcl.1 hrcl.2, D.on q, Clip.C08R.onE_nil,
        Clip.C16R.outE_list_on hq O hO]
      rfl

/-! ### the same with signs: winding numbers -/

/-- (R3, winding-number form) the sum of the winding numbers of the returned rings round `q` differs
    from the winding number of the input ring round `q` by THE SAME INTEGER at all points of the open box. -/
theorem ring_winding_const (box : Bound α) (hb : BoxOK box) (r : List (Pt α)) (o : Int) (ho : o = CW ∨ o = CCW)
    (hrc : ringClosed r = true) (op cl : List (List (Pt α))) (hcr : clipRings box [r] = .ok (op, cl))
    (hop : op ≠ []) (hnd : (op.map List.head?).Nodup)
    (out : List (List (List (Pt α)))) (h : ring box r o = .ok out)
    (q q₀ : Pt α) (hq : InOpenBox box q) (hq₀ : InOpenBox box q₀) :
    multiWinding out q - winding r q = multiWinding out q₀ - winding r q₀ := by
  have hrcl := ringClosed_closed r hrc
  obtain ⟨⟨O, hO, D⟩, hshape⟩ := clipRings_decomp box hb r hrc op cl hcr
  obtain ⟨rfl, hpok⟩ : cl = [] ∧ ∀ ls ∈ op, PieceOK box ls := by
    rcases hshape with h' | ⟨h', _⟩
    · exact h'
    · exact absurd h' hop
  rw [ring_eq_smartWrap box r o hrcl.1.1 op [] hcr hop] at h
  have := cycle_core_w box hb o ho [r] (by simpa using hrcl) op [] hpok hnd (by simp) O hO
    (by simpa using D) out h out.flatten (by simp) q q₀ hq hq₀
  rw [multiWinding_eq, multiWinding_eq]
  simpa [winding] using this

/-- if the returned rings wind round ONE point of the open box as the input ring does, they do so round
    EVERY point of the open box: the output has the winding of the input, sign included -/
theorem ring_winding_of_ref (box : Bound α) (hb : BoxOK box) (r : List (Pt α)) (o : Int) (ho : o = CW ∨ o = CCW)
    (hrc : ringClosed r = true) (op cl : List (List (Pt α))) (hcr : clipRings box [r] = .ok (op, cl))
    (hop : op ≠ []) (hnd : (op.map List.head?).Nodup)
    (out : List (List (List (Pt α)))) (h : ring box r o = .ok out)
    (q₀ : Pt α) (hq₀ : InOpenBox box q₀) (href : multiWinding out q₀ = winding r q₀)
    (q : Pt α) (hq : InOpenBox box q) : multiWinding out q = winding r q := by
  have := ring_winding_const box hb r o ho hrc op cl hcr hop hnd out h q q₀ hq hq₀
  rw [href] at this
  linarith

/-- A criterion that does not mention a reference value: if the input ring winds `0` round some point of
    the open box and `1` round another (a positively wound ring whose boundary crosses the box does), and
    the returned rings wind neither negatively nor more than once round these two points, then the
    output winds exactly as the input round every point of the open box. -/
theorem ring_winding_of_range (box : Bound α) (hb : BoxOK box) (r : List (Pt α)) (o : Int) (ho : o = CW ∨ o = CCW)
    (hrc : ringClosed r = true) (op cl : List (List (Pt α))) (hcr : clipRings box [r] = .ok (op, cl))
    (hop : op ≠ []) (hnd : (op.map List.head?).Nodup)
    (out : List (List (List (Pt α)))) (h : ring box r o = .ok out)
    (qa qb : Pt α) (hqa : InOpenBox box qa) (hqb : InOpenBox box qb) (ha : winding r qa = 0) (hb1 : winding r qb = 1)
    (hoa : 0 ≤ multiWinding out qa) (hob : multiWinding out qb ≤ 1)
    (q : Pt α) (hq : InOpenBox box q) : multiWinding out q = winding r q := by
  have h1 := ring_winding_const box hb r o ho hrc op cl hcr hop hnd out h q qa hq hqa
  have h2 := ring_winding_const box hb r o ho hrc op cl hcr hop hnd out h qb qa hqb hqa
  rw [ha] at h1 h2
  rw [hb1] at h2
  have : multiWinding out qa = 0 := by omega
  rw [this] at h1
  linarith

/-! ### non-vacuity, and the role of the orientation: a square cut by the corner of the box (ℚ) -/

section witness

/-- the box `[0,4]²` -/
def wBox : Bound ℚ := ⟨⟨0, 0⟩, ⟨4, 4⟩⟩
/-- the counter-clockwise square `[2,6]²`, cut by the top-right corner of the box -/
def wRing : List (Pt ℚ) := [⟨2, 2⟩, ⟨6, 2⟩, ⟨6, 6⟩, ⟨2, 6⟩, ⟨2, 2⟩]

theorem wBox_ok : BoxOK wBox := by constructor <;> simp [wBox]

theorem wClip : clipRings wBox [wRing] = .ok ([[⟨2, 4⟩, ⟨2, 2⟩, ⟨4, 2⟩]], []) := by with_unfolding_all rfl

theorem wCCW : ring wBox wRing CCW = .ok [[[⟨2, 4⟩, ⟨2, 2⟩, ⟨4, 2⟩, ⟨4, 4⟩, ⟨2, 4⟩]]] := by
  with_unfolding_all rfl

theorem wCW : ring wBox wRing CW =
    .ok [[[⟨2, 4⟩, ⟨2, 2⟩, ⟨4, 2⟩, ⟨4, 0⟩, ⟨2, 0⟩, ⟨0, 0⟩, ⟨0, 2⟩, ⟨0, 4⟩, ⟨2, 4⟩]]] := by
  with_unfolding_all rfl

/-- requested with its own winding (CCW) the cut square comes back as exactly its part inside the box:
    EVERY point of the open box is inside the returned polygon iff it is inside the square -/
theorem witness_ccw (q : Pt ℚ) (hq : InOpenBox wBox q) :
    multiEvenOdd [[[⟨2, 4⟩, ⟨2, 2⟩, ⟨4, 2⟩, ⟨4, 4⟩, ⟨2, 4⟩]]] q = EvenOdd.inside wRing q :=
  (ring_region_of_ref wBox wBox_ok wRing CCW (Or.inr rfl) (by decide) _ _ wClip (by simp) (by decide) _ wCCW
    ⟨3, 3⟩ (by simp [InOpenBox, wBox]; norm_num) (by decide +kernel) q hq).2.2

/-- requested with the opposite winding (CW) it comes back as the COMPLEMENT inside the box: at every
    point of the open box the crossing parities of output and input differ -/
theorem witness_cw (q : Pt ℚ) (hq : InOpenBox wBox q) :
    ((multiCrossings [[[⟨2, 4⟩, ⟨2, 2⟩, ⟨4, 2⟩, ⟨4, 0⟩, ⟨2, 0⟩, ⟨0, 0⟩, ⟨0, 2⟩, ⟨0, 4⟩, ⟨2, 4⟩]]] q % 2 == 1) !=
      (EvenOdd.crossings wRing q % 2 == 1)) = true := by
  rw [ring_region_const wBox wBox_ok wRing CW (Or.inl rfl) (by decide) _ _ wClip (by simp) (by decide) _ wCW
    q ⟨3, 3⟩ hq (by simp [InOpenBox, wBox]; norm_num)]
  decide +kernel

/-- … and with its winding: round every point of the open box the returned ring winds as the square does
    (`+1` inside, `0` outside) -/
theorem witness_ccw_winding (q : Pt ℚ) (hq : InOpenBox wBox q) :
    multiWinding [[[⟨2, 4⟩, ⟨2, 2⟩, ⟨4, 2⟩, ⟨4, 4⟩, ⟨2, 4⟩]]] q = winding wRing q :=
  ring_winding_of_ref wBox wBox_ok wRing CCW (Or.inr rfl) (by decide) _ _ wClip (by simp) (by decide) _ wCCW
    ⟨3, 3⟩ (by simp [InOpenBox, wBox]; norm_num) (by decide +kernel) q hq

/-- requested clockwise, the returned ring winds `-1` round the complement: everywhere in the open box
    its winding number is that of the square minus one -/
theorem witness_cw_winding (q : Pt ℚ) (hq : InOpenBox wBox q) :
    multiWinding [[[⟨2, 4⟩, ⟨2, 2⟩, ⟨4, 2⟩, ⟨4, 0⟩, ⟨2, 0⟩, ⟨0, 0⟩, ⟨0, 2⟩, ⟨0, 4⟩, ⟨2, 4⟩]]] q - winding wRing q = -1 := by
  rw [ring_winding_const wBox wBox_ok wRing CW (Or.inl rfl) (by decide) _ _ wClip (by simp) (by decide) _ wCW
    q ⟨3, 3⟩ hq (by simp [InOpenBox, wBox]; norm_num)]
  decide +kernel

end witness

end Orb.SmartClip
