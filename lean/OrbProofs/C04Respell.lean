/-
  C04 — text-level re-spelling: every text obtained from a spelling by the property's own edits
  (insert a blank before / after a parenthesis or comma or at either end; flip the case of a keyword
  letter) is again a spelling (`Spelled`), hence parses to the same value.
  Helper file of OrbProofs.C04Lemmas.

  Architecture: `rs_Stable Q` = "one edit of a text of class `Q` gives a text of class `Q` with blanks
  at the ends".  Single bytes, keywords in any case and coordinate pairs are stable; stability is
  preserved by `rs_Cat` (two classes with a blank slot in between: the blanks produced at the ends of a
  part are absorbed by the slot), hence by brackets, keyword + brackets and comma-separated pieces.
-/
import OrbProofs.C04Round
namespace Orb.WKT

/-! ### byte facts -/
set_option maxRecDepth 100000 in
theorem rs_bytes_fin : ∀ n : Fin 256,
    (isBlank (UInt8.ofFin n) = true → isLetter (UInt8.ofFin n) = false) ∧
    (isBlank (UInt8.ofFin n) = true → isParenComma (UInt8.ofFin n) = false) ∧
    (isParenComma (UInt8.ofFin n) = true → isLetter (UInt8.ofFin n) = false) ∧
    (isLetter (UInt8.ofFin n) = true → upper (flipCase (UInt8.ofFin n)) = upper (UInt8.ofFin n)) ∧
    (isParenComma (upper (UInt8.ofFin n)) = isParenComma (UInt8.ofFin n)) ∧
    (isDelim (UInt8.ofFin n) = false → isParenComma (UInt8.ofFin n) = false) := by
  decide

theorem rs_bytes (b : UInt8) :
    (isBlank b = true → isLetter b = false) ∧
    (isBlank b = true → isParenComma b = false) ∧
    (isParenComma b = true → isLetter b = false) ∧
    (isLetter b = true → upper (flipCase b) = upper b) ∧
    (isParenComma (upper b) = isParenComma b) ∧
    (isDelim b = false → isParenComma b = false) := by
  have := rs_bytes_fin b.toFin
  simpa only [UInt8.ofFin_toFin] using this

theorem rs_blank_nl {b : UInt8} (h : isBlank b = true) : isLetter b = false := (rs_bytes b).1 h
theorem rs_blank_npc {b : UInt8} (h : isBlank b = true) : isParenComma b = false := (rs_bytes b).2.1 h
theorem rs_pc_nl {b : UInt8} (h : isParenComma b = true) : isLetter b = false := (rs_bytes b).2.2.1 h
theorem rs_upper_flip {b : UInt8} (h : isLetter b = true) : upper (flipCase b) = upper b := (rs_bytes b).2.2.2.1 h
theorem rs_pc_upper (b : UInt8) : isParenComma (upper b) = isParenComma b := (rs_bytes b).2.2.2.2.1
theorem rs_ndelim_npc {b : UInt8} (h : isDelim b = false) : isParenComma b = false := (rs_bytes b).2.2.2.2.2 h

/-! ### locating an edit in a concatenation -/

theorem rs_split {A B t' : Str} (h : RespellStep (A ++ B) t') :
    (∃ A', RespellStep A A' ∧ t' = A' ++ B) ∨ (∃ B', RespellStep B B' ∧ t' = A ++ B') ∨
    (∃ x y, A.getLast? = some x ∧ B.head? = some y ∧ isLetter x = true ∧ isLetter y = true) := by
  generalize hs : A ++ B = s at h
  cases h with
  | before u v d b hd hb =>
    rcases List.append_eq_append_iff.1 hs with ⟨a', rfl, rfl⟩ | ⟨c', rfl, hc⟩
    · exact Or.inr (Or.inl ⟨a' ++ b :: d :: v, .before a' v d b hd hb, by simp⟩)
    · cases c' with
      | nil =>
        simp only [List.nil_append] at hc; subst hc
        exact Or.inr (Or.inl ⟨b :: d :: v, .before [] v d b hd hb, by simp⟩)
      | cons e c'' =>
        simp only [List.cons_append, List.cons.injEq] at hc
        obtain ⟨rfl, rfl⟩ := hc
        exact Or.inl ⟨u ++ b :: d :: c'', .before u c'' d b hd hb, by simp⟩
  | after u v d b hd hb =>
    rcases List.append_eq_append_iff.1 hs with ⟨a', rfl, rfl⟩ | ⟨c', rfl, hc⟩
    · exact Or.inr (Or.inl ⟨a' ++ d :: b :: v, .after a' v d b hd hb, by simp⟩)
    · cases c' with
      | nil =>
        simp only [List.nil_append] at hc; subst hc
        exact Or.inr (Or.inl ⟨d :: b :: v, .after [] v d b hd hb, by simp⟩)
      | cons e c'' =>
        simp only [List.cons_append, List.cons.injEq] at hc
        obtain ⟨rfl, rfl⟩ := hc
        exact Or.inl ⟨u ++ d :: b :: c'', .after u c'' d b hd hb, by simp⟩
  | atStart _ b hb =>
    subst hs
    exact Or.inl ⟨b :: A, .atStart A b hb, by simp⟩
  | atEnd _ b hb =>
    subst hs
    exact Or.inr (Or.inl ⟨B ++ [b], .atEnd B b hb, by simp⟩)
  | caseL u v x y hx hy =>
    rcases List.append_eq_append_iff.1 hs with ⟨a', rfl, rfl⟩ | ⟨c', rfl, hc⟩
    · exact Or.inr (Or.inl ⟨a' ++ flipCase x :: y :: v, .caseL a' v x y hx hy, by simp⟩)
    · cases c' with
      | nil =>
        simp only [List.nil_append] at hc; subst hc
        exact Or.inr (Or.inl ⟨flipCase x :: y :: v, .caseL [] v x y hx hy, by simp⟩)
      | cons e c'' =>
        simp only [List.cons_append, List.cons.injEq] at hc
        obtain ⟨rfl, hc⟩ := hc
        cases c'' with
        | nil =>
          simp only [List.nil_append] at hc; subst hc
          exact Or.inr (Or.inr ⟨x, y, by simp, by simp, hx, hy⟩)
        | cons e' c3 =>
          simp only [List.cons_append, List.cons.injEq] at hc
          obtain ⟨rfl, rfl⟩ := hc
          exact Or.inl ⟨u ++ flipCase x :: y :: c3, .caseL u c3 x y hx hy, by simp⟩
  | caseR u v x y hx hy =>
    rcases List.append_eq_append_iff.1 hs with ⟨a', rfl, rfl⟩ | ⟨c', rfl, hc⟩
    · exact Or.inr (Or.inl ⟨a' ++ x :: flipCase y :: v, .caseR a' v x y hx hy, by simp⟩)
    · cases c' with
      | nil =>
        simp only [List.nil_append] at hc; subst hc
        exact Or.inr (Or.inl ⟨x :: flipCase y :: v, .caseR [] v x y hx hy, by simp⟩)
      | cons e c'' =>
        simp only [List.cons_append, List.cons.injEq] at hc
        obtain ⟨rfl, hc⟩ := hc
        cases c'' with
        | nil =>
          simp only [List.nil_append] at hc; subst hc
          exact Or.inr (Or.inr ⟨x, y, by simp, by simp, hx, hy⟩)
        | cons e' c3 =>
          simp only [List.cons_append, List.cons.injEq] at hc
          obtain ⟨rfl, rfl⟩ := hc
          exact Or.inl ⟨u ++ x :: flipCase y :: c3, .caseR u c3 x y hx hy, by simp⟩

/-! ### stability of a class of texts under one edit, up to blanks at the ends -/

def rs_Stable (Q : Str → Prop) : Prop := ∀ t t', Q t → RespellStep t t' → Padded Q t'

theorem rs_allBlank_single {b : UInt8} (h : isBlank b = true) : AllBlank [b] := by
  intro x hx; rw [List.mem_singleton.1 hx]; exact h

theorem rs_allBlank_cons {b : UInt8} {a : Str} (h : isBlank b = true) (ha : AllBlank a) : AllBlank (b :: a) := by
  intro x hx
  rcases List.mem_cons.1 hx with rfl | hx
  · exact h
  · exact ha x hx

theorem rs_padded_mono {Q Q' : Str → Prop} (h : ∀ t, Q t → Q' t) {t : Str} (hp : Padded Q t) : Padded Q' t := by
  obtain ⟨pre, post, c, h1, h2, hc, rfl⟩ := hp
  exact ⟨pre, post, c, h1, h2, h c hc, rfl⟩

theorem rs_padded_self {Q : Str → Prop} {t : Str} (h : Q t) : Padded Q t :=
  ⟨[], [], t, rd_allBlank_nil, rd_allBlank_nil, h, by simp⟩

theorem rs_stable_congr {Q Q' : Str → Prop} (h : ∀ t, Q t ↔ Q' t) (hs : rs_Stable Q) : rs_Stable Q' := by
  intro t t' ht hstep
  exact rs_padded_mono (fun t => (h t).1) (hs t t' ((h t).2 ht) hstep)

/-- an edit of a blank string gives a blank string -/
theorem rs_step_blank {a a' : Str} (ha : AllBlank a) (h : RespellStep a a') : AllBlank a' := by
  cases h with
  | before u v d b hd hb =>
    have := rs_blank_npc (ha d (by simp)); rw [hd] at this; cases this
  | after u v d b hd hb =>
    have := rs_blank_npc (ha d (by simp)); rw [hd] at this; cases this
  | atStart _ b hb => exact rs_allBlank_cons hb ha
  | atEnd _ b hb => exact rd_allBlank_append ha (rs_allBlank_single hb)
  | caseL u v x y hx hy =>
    have := rs_blank_nl (ha x (by simp)); rw [hx] at this; cases this
  | caseR u v x y hx hy =>
    have := rs_blank_nl (ha x (by simp)); rw [hx] at this; cases this

/-- a single byte -/
theorem rs_stable_single (d : UInt8) : rs_Stable (fun t => t = [d]) := by
  intro t t' ht h
  subst ht
  generalize hs : [d] = s at h
  cases h with
  | before u v d' b hd hb =>
    cases u with
    | nil =>
      simp only [List.nil_append, List.cons.injEq] at hs
      obtain ⟨rfl, rfl⟩ := hs
      exact ⟨[b], [], [d], rs_allBlank_single hb, rd_allBlank_nil, rfl, by simp⟩
    | cons e u' => cases u' <;> simp at hs
  | after u v d' b hd hb =>
    cases u with
    | nil =>
      simp only [List.nil_append, List.cons.injEq] at hs
      obtain ⟨rfl, rfl⟩ := hs
      exact ⟨[], [b], [d], rd_allBlank_nil, rs_allBlank_single hb, rfl, by simp⟩
    | cons e u' => cases u' <;> simp at hs
  | atStart _ b hb =>
    subst hs
    exact ⟨[b], [], [d], rs_allBlank_single hb, rd_allBlank_nil, rfl, by simp⟩
  | atEnd _ b hb =>
    subst hs
    exact ⟨[], [b], [d], rd_allBlank_nil, rs_allBlank_single hb, rfl, by simp⟩
  | caseL u v x y hx hy => cases u with
    | nil => simp at hs
    | cons e u' => cases u' <;> simp at hs
  | caseR u v x y hx hy => cases u with
    | nil => simp at hs
    | cons e u' => cases u' <;> simp at hs

/-- a keyword (or `<KEYWORD> EMPTY`) in any case -/
theorem rs_stable_cv {kw : Str} (hkw : ∀ b ∈ kw, isParenComma b = false) : rs_Stable (CaseVariant kw) := by
  intro k k' hv h
  have hno : ∀ d ∈ k, isParenComma d = false := by
    intro d hd
    have : upper d ∈ kw := by rw [← hv]; exact List.mem_map_of_mem hd
    rw [← rs_pc_upper]; exact hkw _ this
  cases h with
  | before u v d b hd hb => have := hno d (by simp); rw [hd] at this; cases this
  | after u v d b hd hb => have := hno d (by simp); rw [hd] at this; cases this
  | atStart _ b hb => exact ⟨[b], [], k, rs_allBlank_single hb, rd_allBlank_nil, hv, by simp⟩
  | atEnd _ b hb => exact ⟨[], [b], k, rd_allBlank_nil, rs_allBlank_single hb, hv, by simp⟩
  | caseL u v x y hx hy =>
    refine rs_padded_self ?_
    unfold CaseVariant at hv ⊢
    rw [← hv]; simp [rs_upper_flip hx]
  | caseR u v x y hx hy =>
    refine rs_padded_self ?_
    unfold CaseVariant at hv ⊢
    rw [← hv]; simp [rs_upper_flip hy]

theorem rs_nal_tail {a : UInt8} {s : Str} (h : NoAdjacentLetters (a :: s)) : NoAdjacentLetters s := by
  cases s with
  | nil => simp [NoAdjacentLetters]
  | cons b s => exact h.2

theorem rs_nal_mid : ∀ (u : Str) {v : Str} {x y : UInt8}, NoAdjacentLetters (u ++ x :: y :: v) →
    ¬(isLetter x = true ∧ isLetter y = true)
  | [], _, _, _, h => h.1
  | _ :: u, _, _, _, h => rs_nal_mid u (rs_nal_tail h)

theorem rs_nal_sep {c : UInt8} (hc : isLetter c = false) : ∀ (A B : Str), NoAdjacentLetters A → NoAdjacentLetters B →
    NoAdjacentLetters (A ++ c :: B)
  | [], [], _, _ => by simp [NoAdjacentLetters]
  | [], y :: B, _, hB => ⟨by simp [hc], hB⟩
  | [x], B, _, hB => ⟨by simp [hc], rs_nal_sep hc [] B (by simp [NoAdjacentLetters]) hB⟩
  | x :: x' :: A, B, hA, hB => ⟨hA.1, rs_nal_sep hc (x' :: A) B hA.2 hB⟩

/-- a text without parenthesis / comma and without two adjacent letters: nothing applies inside -/
theorem rs_stable_clean {s : Str} (h1 : ∀ b ∈ s, isParenComma b = false) (h2 : NoAdjacentLetters s) :
    rs_Stable (fun t => t = s) := by
  intro t t' ht h
  subst ht
  cases h with
  | before u v d b hd hb => have := h1 d (by simp); rw [hd] at this; cases this
  | after u v d b hd hb => have := h1 d (by simp); rw [hd] at this; cases this
  | atStart _ b hb => exact ⟨[b], [], _, rs_allBlank_single hb, rd_allBlank_nil, rfl, by simp⟩
  | atEnd _ b hb => exact ⟨[], [b], _, rd_allBlank_nil, rs_allBlank_single hb, rfl, by simp⟩
  | caseL u v x y hx hy => exact absurd ⟨hx, hy⟩ (rs_nal_mid u h2)
  | caseR u v x y hx hy => exact absurd ⟨hx, hy⟩ (rs_nal_mid u h2)

/-! ### concatenation with a blank slot in between -/

/-- `A m B` with `A ∈ QA`, blank `m`, `B ∈ QB` -/
def rs_Cat (QA QB : Str → Prop) (t : Str) : Prop := ∃ A m B, QA A ∧ AllBlank m ∧ QB B ∧ t = A ++ (m ++ B)

def rs_EndsNL (Q : Str → Prop) : Prop := ∀ A x, Q A → A.getLast? = some x → isLetter x = false
def rs_StartsNL (Q : Str → Prop) : Prop := ∀ B y, Q B → B.head? = some y → isLetter y = false

theorem rs_allBlank_getLast {m : Str} (hm : AllBlank m) {x : UInt8} (h : m.getLast? = some x) : isLetter x = false :=
  rs_blank_nl (hm x (List.mem_of_getLast? h))

theorem rs_allBlank_head {m : Str} (hm : AllBlank m) {x : UInt8} (h : m.head? = some x) : isLetter x = false :=
  rs_blank_nl (hm x (List.mem_of_head? h))

theorem rs_stable_cat {QA QB : Str → Prop} (hA : rs_Stable QA) (hB : rs_Stable QB)
    (hAB : rs_EndsNL QA ∨ rs_StartsNL QB) : rs_Stable (rs_Cat QA QB) := by
  intro t t' ht h
  obtain ⟨A, m, B, ha, hm, hb, rfl⟩ := ht
  rcases rs_split h with ⟨A', hs, rfl⟩ | ⟨R', hs, rfl⟩ | ⟨x, y, hx, hy, lx, ly⟩
  · obtain ⟨pre, post, A'', h1, h2, ha', rfl⟩ := hA A A' ha hs
    exact ⟨pre, [], A'' ++ ((post ++ m) ++ B), h1, rd_allBlank_nil,
      ⟨A'', post ++ m, B, ha', rd_allBlank_append h2 hm, hb, rfl⟩, by simp⟩
  · rcases rs_split hs with ⟨m', hs2, rfl⟩ | ⟨B', hs2, rfl⟩ | ⟨x, y, hx, hy, lx, ly⟩
    · exact rs_padded_self ⟨A, m', B, ha, rs_step_blank hm hs2, hb, rfl⟩
    · obtain ⟨pre, post, B'', h1, h2, hb', rfl⟩ := hB B B' hb hs2
      exact ⟨[], post, A ++ ((m ++ pre) ++ B''), rd_allBlank_nil, h2,
        ⟨A, m ++ pre, B'', ha, rd_allBlank_append hm h1, hb', rfl⟩, by simp⟩
    · rw [rs_allBlank_getLast hm hx] at lx; cases lx
  · cases m with
    | nil =>
      simp only [List.nil_append] at hy
      rcases hAB with hE | hS
      · rw [hE A x ha hx] at lx; cases lx
      · rw [hS B y hb hy] at ly; cases ly
    | cons bl m' =>
      simp only [List.cons_append, List.head?_cons, Option.some.injEq] at hy
      subst hy
      rw [rs_blank_nl (hm bl (by simp))] at ly; cases ly

theorem rs_endsNL_single {d : UInt8} (hd : isLetter d = false) : rs_EndsNL (fun t => t = [d]) := by
  intro A x hA hx; subst hA; simp at hx; subst hx; exact hd

theorem rs_startsNL_single {d : UInt8} (hd : isLetter d = false) : rs_StartsNL (fun t => t = [d]) := by
  intro A x hA hx; subst hA; simp at hx; subst hx; exact hd

theorem rs_startsNL_cat_single {d : UInt8} (hd : isLetter d = false) (Q : Str → Prop) :
    rs_StartsNL (rs_Cat (fun t => t = [d]) Q) := by
  intro B y hB hy
  obtain ⟨A, m, B', rfl, _, _, rfl⟩ := hB
  simp at hy; subst hy; exact hd

/-- `( b body c )` -/
def rs_Br (Q : Str → Prop) (t : Str) : Prop :=
  ∃ b c body, AllBlank b ∧ AllBlank c ∧ Q body ∧ t = bracketed [] b c body

theorem rs_br_iff (Q : Str → Prop) (t : Str) :
    rs_Br Q t ↔ rs_Cat (fun t => t = [cLP]) (rs_Cat Q (fun t => t = [cRP])) t := by
  constructor
  · rintro ⟨b, c, body, hb, hc, hq, rfl⟩
    exact ⟨[cLP], b, body ++ (c ++ [cRP]), rfl, hb, ⟨body, c, [cRP], hq, hc, rfl, rfl⟩, by simp [bracketed]⟩
  · rintro ⟨_, b, _, rfl, hb, ⟨body, c, _, hq, hc, rfl, rfl⟩, rfl⟩
    exact ⟨b, c, body, hb, hc, hq, by simp [bracketed]⟩

theorem rs_stable_br {Q : Str → Prop} (hQ : rs_Stable Q) : rs_Stable (rs_Br Q) := by
  refine rs_stable_congr (fun t => (rs_br_iff Q t).symm) ?_
  refine rs_stable_cat (rs_stable_single _) (rs_stable_cat hQ (rs_stable_single _) ?_) ?_
  · exact Or.inr (rs_startsNL_single (by decide))
  · exact Or.inl (rs_endsNL_single (by decide))

theorem rs_startsNL_br (Q : Str → Prop) : rs_StartsNL (rs_Br Q) := by
  intro B y hB hy
  obtain ⟨b, c, body, _, _, _, rfl⟩ := hB
  simp [bracketed] at hy; subst hy; decide

/-- keyword, then `a ( b body c )` -/
def rs_KwBr (kw : Str) (Q : Str → Prop) (t : Str) : Prop := ∃ body, Q body ∧ KwBracketed kw body t

theorem rs_kwbr_iff (kw : Str) (Q : Str → Prop) (t : Str) :
    rs_KwBr kw Q t ↔ rs_Cat (CaseVariant kw) (rs_Br Q) t := by
  constructor
  · rintro ⟨body, hq, k, a, b, c, hk, ha, hb, hc, rfl⟩
    exact ⟨k, a, bracketed [] b c body, hk, ha, ⟨b, c, body, hb, hc, hq, rfl⟩, by simp [bracketed]⟩
  · rintro ⟨k, a, _, hk, ha, ⟨b, c, body, hb, hc, hq, rfl⟩, rfl⟩
    exact ⟨body, hq, k, a, b, c, hk, ha, hb, hc, by simp [bracketed]⟩

theorem rs_stable_kwbr {kw : Str} (hkw : ∀ b ∈ kw, isParenComma b = false) {Q : Str → Prop} (hQ : rs_Stable Q) :
    rs_Stable (rs_KwBr kw Q) := by
  refine rs_stable_congr (fun t => (rs_kwbr_iff kw Q t).symm) ?_
  exact rs_stable_cat (rs_stable_cv hkw) (rs_stable_br hQ) (Or.inr (rs_startsNL_br Q))

/-! ### comma-separated pieces -/

def rs_SJ {α : Type} (r : α → Str → Prop) (xs : List α) (body : Str) : Prop :=
  ∃ pieces, Forall2 r xs pieces ∧ SepJoin pieces body

theorem rs_stable_sj {α : Type} {r : α → Str → Prop} : ∀ xs : List α, (∀ a ∈ xs, rs_Stable (r a)) →
    rs_Stable (rs_SJ r xs)
  | [], _ => by
    intro t t' ht _
    obtain ⟨pieces, hf, hj⟩ := ht
    cases hf
    cases hj
  | a :: xs, h => by
    have ih := rs_stable_sj xs (fun a' ha' => h a' (List.mem_cons_of_mem _ ha'))
    intro t t' ht hstep
    obtain ⟨pieces, hf, hj⟩ := ht
    cases hf with
    | cons hra hf' =>
      cases hj with
      | one p =>
        cases hf'
        refine rs_padded_mono ?_ (h a (by simp) _ _ hra hstep)
        intro c hc
        exact ⟨[c], .cons hc .nil, .one c⟩
      | cons p sa sb ps t0 hsa hsb hj' =>
        have hst : rs_Stable (rs_Cat (r a) (rs_Cat (fun t => t = [cComma]) (rs_SJ r xs))) :=
          rs_stable_cat (h a (by simp))
            (rs_stable_cat (rs_stable_single _) ih (Or.inl (rs_endsNL_single (by decide))))
            (Or.inr (rs_startsNL_cat_single (by decide) _))
        refine rs_padded_mono ?_ (hst _ _
          ⟨_, sa, cComma :: (sb ++ t0), hra, hsa, ⟨[cComma], sb, t0, rfl, hsb, ⟨_, hf', hj'⟩, rfl⟩, by simp⟩ hstep)
        rintro c ⟨p', sa', _, hra', hsa', ⟨_, sb', t0', rfl, hsb', ⟨ps', hf'', hj''⟩, rfl⟩, rfl⟩
        refine ⟨p' :: ps', .cons hra' hf'', ?_⟩
        have := SepJoin.cons p' sa' sb' ps' t0' hsa' hsb' hj''
        simpa using this

theorem rs_forall2_eq_map {α : Type} (f : α → Str) : ∀ (xs : List α) (pieces : List Str),
    Forall2 (fun a t => t = f a) xs pieces → pieces = xs.map f
  | [], _, h => by cases h; rfl
  | a :: xs, _, h => by
    cases h with
    | cons h1 h2 => rw [h1, rs_forall2_eq_map f xs _ h2]; rfl

theorem rs_sj_map_iff {α : Type} (f : α → Str) (xs : List α) (body : Str) :
    SepJoin (xs.map f) body ↔ rs_SJ (fun a t => t = f a) xs body := by
  constructor
  · intro h
    exact ⟨xs.map f, kd_forall2_map f xs (fun _ _ => rfl), h⟩
  · rintro ⟨pieces, hf, hj⟩
    rw [← rs_forall2_eq_map f xs pieces hf]; exact hj

/-! ### the spelling classes -/

/-- what the text-level argument needs of `%g` at one coordinate: non-empty, no delimiter byte,
    no two adjacent letters -/
def CleanText (s : Str) : Prop := s ≠ [] ∧ (∀ b ∈ s, isDelim b = false) ∧ NoAdjacentLetters s

theorem rs_kwbr_eq_iff (kw body0 t : Str) : rs_KwBr kw (fun b => b = body0) t ↔ KwBracketed kw body0 t := by
  constructor
  · rintro ⟨_, rfl, hk⟩; exact hk
  · intro hk; exact ⟨_, rfl, hk⟩

theorem rs_kwbr_sj_iff {α : Type} (kw : Str) (r : α → Str → Prop) (xs : List α) (t : Str) :
    rs_KwBr kw (rs_SJ r xs) t ↔ ∃ pieces body, Forall2 r xs pieces ∧ SepJoin pieces body ∧ KwBracketed kw body t := by
  constructor
  · rintro ⟨body, ⟨pieces, hf, hj⟩, hk⟩; exact ⟨pieces, body, hf, hj, hk⟩
  · rintro ⟨pieces, body, hf, hj, hk⟩; exact ⟨body, ⟨pieces, hf, hj⟩, hk⟩

theorem rs_kw_npc :
    (∀ b ∈ kwPoint, isParenComma b = false) ∧ (∀ b ∈ kwMultiPoint, isParenComma b = false) ∧
    (∀ b ∈ kwLineString, isParenComma b = false) ∧ (∀ b ∈ kwMultiLineString, isParenComma b = false) ∧
    (∀ b ∈ kwPolygon, isParenComma b = false) ∧ (∀ b ∈ kwMultiPolygon, isParenComma b = false) ∧
    (∀ b ∈ kwCollection, isParenComma b = false) ∧
    (∀ b ∈ kwMultiPoint ++ sEmpty, isParenComma b = false) ∧ (∀ b ∈ kwLineString ++ sEmpty, isParenComma b = false) ∧
    (∀ b ∈ kwMultiLineString ++ sEmpty, isParenComma b = false) ∧ (∀ b ∈ kwPolygon ++ sEmpty, isParenComma b = false) ∧
    (∀ b ∈ kwMultiPolygon ++ sEmpty, isParenComma b = false) ∧ (∀ b ∈ kwCollection ++ sEmpty, isParenComma b = false) := by
  decide

section
variable (fmtF : UInt64 → Str)

def rs_CleanPt (p : P) : Prop := CleanText (fmtF p.x) ∧ CleanText (fmtF p.y)

theorem rs_clean_pts {ps : List P} (h : ∀ x ∈ ptsCoords ps, CleanText (fmtF x)) : ∀ p ∈ ps, rs_CleanPt fmtF p := by
  intro p hp
  constructor
  · exact h p.x (by simp only [ptsCoords, List.mem_flatMap]; exact ⟨p, hp, by simp [ptCoords]⟩)
  · exact h p.y (by simp only [ptsCoords, List.mem_flatMap]; exact ⟨p, hp, by simp [ptCoords]⟩)

theorem rs_clean_rings {rs : List (List P)} (h : ∀ x ∈ ringsCoords rs, CleanText (fmtF x)) :
    ∀ r ∈ rs, ∀ p ∈ r, rs_CleanPt fmtF p := by
  intro r hr
  apply rs_clean_pts
  intro x hx
  exact h x (by simp only [ringsCoords, List.mem_flatMap]; exact ⟨r, hr, hx⟩)

theorem rs_stable_wCoord {p : P} (h : rs_CleanPt fmtF p) : rs_Stable (fun t => t = wCoord fmtF p) := by
  apply rs_stable_clean
  · intro b hb
    simp only [wCoord, List.mem_append, List.mem_cons] at hb
    rcases hb with hb | rfl | hb
    · exact rs_ndelim_npc (h.1.2.1 b hb)
    · decide
    · exact rs_ndelim_npc (h.2.2.1 b hb)
  · exact rs_nal_sep (by decide) _ _ h.1.2.2 h.2.2.2

theorem rs_stable_isBrPoint {p : P} (h : rs_CleanPt fmtF p) : rs_Stable (IsBrPoint fmtF p) := by
  refine rs_stable_congr ?_ (rs_stable_br (rs_stable_wCoord fmtF h))
  intro t; constructor
  · rintro ⟨b, c, _, hb, hc, rfl, rfl⟩; exact ⟨b, c, hb, hc, rfl⟩
  · rintro ⟨b, c, hb, hc, rfl⟩; exact ⟨b, c, _, hb, hc, rfl, rfl⟩

theorem rs_stable_sjCoords {ps : List P} (h : ∀ p ∈ ps, rs_CleanPt fmtF p) :
    rs_Stable (rs_SJ (fun p t => t = wCoord fmtF p) ps) :=
  rs_stable_sj (r := fun p t => t = wCoord fmtF p) ps (fun p hp => rs_stable_wCoord fmtF (h p hp))

theorem rs_stable_isBrPoints {ps : List P} (hne : ps ≠ []) (h : ∀ p ∈ ps, rs_CleanPt fmtF p) :
    rs_Stable (IsBrPoints fmtF ps) := by
  refine rs_stable_congr ?_ (rs_stable_br (rs_stable_sjCoords fmtF h))
  intro t; constructor
  · rintro ⟨b, c, body, hb, hc, hq, rfl⟩
    exact Or.inr ⟨b, c, body, hb, hc, (rs_sj_map_iff _ _ _).2 hq, rfl⟩
  · rintro (⟨rfl, _⟩ | ⟨b, c, body, hb, hc, hq, rfl⟩)
    · exact absurd rfl hne
    · exact ⟨b, c, body, hb, hc, (rs_sj_map_iff _ _ _).1 hq, rfl⟩

theorem rs_stable_sjRings {rs : List (List P)} (h : ∀ r ∈ rs, r ≠ [] ∧ ∀ p ∈ r, rs_CleanPt fmtF p) :
    rs_Stable (rs_SJ (IsBrPoints fmtF) rs) :=
  rs_stable_sj (r := IsBrPoints fmtF) rs (fun r hr => rs_stable_isBrPoints fmtF (h r hr).1 (h r hr).2)

theorem rs_stable_isBrPoly {rs : List (List P)} (hne : rs ≠ []) (h : ∀ r ∈ rs, r ≠ [] ∧ ∀ p ∈ r, rs_CleanPt fmtF p) :
    rs_Stable (IsBrPoly fmtF rs) := by
  refine rs_stable_congr ?_ (rs_stable_br (rs_stable_sjRings fmtF h))
  intro t; constructor
  · rintro ⟨b, c, body, hb, hc, ⟨pieces, hf, hj⟩, rfl⟩
    exact Or.inr ⟨pieces, b, c, body, hb, hc, hf, hj, rfl⟩
  · rintro (⟨rfl, _⟩ | ⟨pieces, b, c, body, hb, hc, hf, hj, rfl⟩)
    · exact absurd rfl hne
    · exact ⟨b, c, body, hb, hc, ⟨pieces, hf, hj⟩, rfl⟩

theorem rs_stable_kwRings {kw : Str} (hkw : ∀ b ∈ kw, isParenComma b = false) {rs : List (List P)}
    (h : ∀ r ∈ rs, r ≠ [] ∧ ∀ p ∈ r, rs_CleanPt fmtF p) : rs_Stable (KwRings fmtF kw rs) := by
  refine rs_stable_congr ?_ (rs_stable_kwbr hkw (rs_stable_sjRings fmtF h))
  intro t
  exact rs_kwbr_sj_iff kw _ rs t

theorem rs_spelledList_iff : ∀ (gs : List G) (ts : List Str), SpelledList fmtF gs ts ↔ Forall2 (SpelledCore fmtF) gs ts
  | [], [] => by simp only [SpelledList, true_iff]; exact .nil
  | [], _ :: _ => by simp only [SpelledList, false_iff]; intro h; cases h
  | _ :: _, [] => by simp only [SpelledList, false_iff]; intro h; cases h
  | g :: gs, t :: ts => by
    simp only [SpelledList]
    constructor
    · rintro ⟨h1, h2⟩; exact .cons h1 ((rs_spelledList_iff gs ts).1 h2)
    · intro h; cases h with
      | cons h1 h2 => exact ⟨h1, (rs_spelledList_iff gs ts).2 h2⟩

theorem rs_allDeep : ∀ {gs : List G}, noEmptyMemberDeep.allDeep gs = true → ∀ g ∈ gs, noEmptyMemberDeep g = true
  | [], _, g, hg => by cases hg
  | g' :: gs, h, g, hg => by
    simp only [noEmptyMemberDeep.allDeep, Bool.and_eq_true] at h
    rcases List.mem_cons.1 hg with rfl | hg
    · exact h.1
    · exact rs_allDeep h.2 g hg

theorem rs_stable_spelledCore (g : G) : (∀ x ∈ coords g, CleanText (fmtF x)) → noEmptyMemberDeep g = true →
    rs_Stable (SpelledCore fmtF g) := by
  induction g using rd_geom_ind with
  | h1 p =>
    intro hc he
    have hp : rs_CleanPt fmtF p := ⟨hc p.x (by simp [coords, ptCoords]), hc p.y (by simp [coords, ptCoords])⟩
    refine rs_stable_congr (fun t => ?_) (rs_stable_kwbr rs_kw_npc.1 (rs_stable_wCoord fmtF hp))
    simp only [SpelledCore]
    exact rs_kwbr_eq_iff _ _ _
  | h2 ps =>
    intro hc he
    cases ps with
    | nil =>
      refine rs_stable_congr (fun t => ?_) (rs_stable_cv (kw := kwMultiPoint ++ sEmpty) (by decide))
      simp only [SpelledCore]
    | cons p ps =>
      have hps := rs_clean_pts fmtF (ps := p :: ps) (by simpa only [coords] using hc)
      refine rs_stable_congr (fun t => ?_) (rs_stable_kwbr rs_kw_npc.2.1
        (rs_stable_sj (r := IsBrPoint fmtF) (p :: ps) (fun q hq => rs_stable_isBrPoint fmtF (hps q hq))))
      simp only [SpelledCore]
      exact rs_kwbr_sj_iff _ _ _ _
  | h3 ps =>
    intro hc he
    cases ps with
    | nil =>
      refine rs_stable_congr (fun t => ?_) (rs_stable_cv (kw := kwLineString ++ sEmpty) (by decide))
      simp only [SpelledCore]
    | cons p ps =>
      have hps := rs_clean_pts fmtF (ps := p :: ps) (by simpa only [coords] using hc)
      refine rs_stable_congr (fun t => ?_) (rs_stable_kwbr rs_kw_npc.2.2.1 (rs_stable_sjCoords fmtF hps))
      simp only [SpelledCore]
      constructor
      · rintro ⟨body, hq, hk⟩; exact ⟨body, (rs_sj_map_iff _ _ _).2 hq, hk⟩
      · rintro ⟨body, hq, hk⟩; exact ⟨body, (rs_sj_map_iff _ _ _).1 hq, hk⟩
  | h4 ls =>
    intro hc he
    cases ls with
    | nil =>
      refine rs_stable_congr (fun t => ?_) (rs_stable_cv (kw := kwMultiLineString ++ sEmpty) (by decide))
      simp only [SpelledCore]
    | cons l ls =>
      have hcl := rs_clean_rings fmtF (rs := l :: ls) (by simpa only [coords] using hc)
      simp only [noEmptyMemberDeep, noEmptyMember, List.all_eq_true, Bool.not_eq_true', List.isEmpty_eq_false_iff] at he
      refine rs_stable_congr (fun t => ?_) (rs_stable_kwRings fmtF rs_kw_npc.2.2.2.1 (rs := l :: ls)
        (fun r hr => ⟨he r hr, hcl r hr⟩))
      simp only [SpelledCore]
  | h5 r =>
    intro hc he
    have hcl := rs_clean_pts fmtF (ps := r) (by simpa only [coords] using hc)
    simp only [noEmptyMemberDeep, noEmptyMember, Bool.not_eq_true', List.isEmpty_eq_false_iff] at he
    refine rs_stable_congr (fun t => ?_) (rs_stable_kwRings fmtF rs_kw_npc.2.2.2.2.1 (rs := [r]) ?_)
    · simp only [SpelledCore]
    · intro r' hr'
      rw [List.mem_singleton.1 hr']
      exact ⟨he, hcl⟩
  | h6 rs =>
    intro hc he
    cases rs with
    | nil =>
      refine rs_stable_congr (fun t => ?_) (rs_stable_cv (kw := kwPolygon ++ sEmpty) (by decide))
      simp only [SpelledCore]
    | cons l ls =>
      have hcl := rs_clean_rings fmtF (rs := l :: ls) (by simpa only [coords] using hc)
      simp only [noEmptyMemberDeep, noEmptyMember, List.all_eq_true, Bool.not_eq_true', List.isEmpty_eq_false_iff] at he
      refine rs_stable_congr (fun t => ?_) (rs_stable_kwRings fmtF rs_kw_npc.2.2.2.2.1 (rs := l :: ls)
        (fun r hr => ⟨he r hr, hcl r hr⟩))
      simp only [SpelledCore]
  | h7 ps =>
    intro hc he
    cases ps with
    | nil =>
      refine rs_stable_congr (fun t => ?_) (rs_stable_cv (kw := kwMultiPolygon ++ sEmpty) (by decide))
      simp only [SpelledCore]
    | cons l ls =>
      simp only [noEmptyMemberDeep, noEmptyMember, List.all_eq_true, Bool.and_eq_true, Bool.not_eq_true',
        List.isEmpty_eq_false_iff] at he
      refine rs_stable_congr (fun t => ?_) (rs_stable_kwbr rs_kw_npc.2.2.2.2.2.1
        (rs_stable_sj (r := IsBrPoly fmtF) (l :: ls) (fun q hq => rs_stable_isBrPoly fmtF (he q hq).1 ?_)))
      · simp only [SpelledCore]
        exact rs_kwbr_sj_iff _ _ _ _
      · have hcl := rs_clean_rings fmtF (rs := q) (fun x hx => hc x (by
          simp only [coords, List.mem_flatMap]; exact ⟨q, hq, hx⟩))
        exact fun r hr => ⟨(he q hq).2 r hr, hcl r hr⟩
  | h8 a b =>
    intro hc he
    have ha : rs_CleanPt fmtF a := ⟨hc a.x (by simp [coords, ptCoords]), hc a.y (by simp [coords, ptCoords])⟩
    have hb : rs_CleanPt fmtF b := ⟨hc b.x (by simp [coords, ptCoords]), hc b.y (by simp [coords, ptCoords])⟩
    refine rs_stable_congr (fun t => ?_) (rs_stable_kwRings fmtF rs_kw_npc.2.2.2.2.1 (rs := [boundRing a b]) ?_)
    · simp only [SpelledCore]
    · intro r' hr'
      rw [List.mem_singleton.1 hr']
      refine ⟨by simp [boundRing], ?_⟩
      intro p hp
      simp only [boundRing, List.mem_cons, List.not_mem_nil, or_false] at hp
      rcases hp with rfl | rfl | rfl | rfl | rfl
      · exact ha
      · exact ⟨hb.1, ha.2⟩
      · exact hb
      · exact ⟨ha.1, hb.2⟩
      · exact ha
  | hc gs ih =>
    intro hc he
    cases gs with
    | nil =>
      refine rs_stable_congr (fun t => ?_) (rs_stable_cv (kw := kwCollection ++ sEmpty) (by decide))
      simp only [SpelledCore]
    | cons g gs =>
      simp only [noEmptyMemberDeep] at he
      refine rs_stable_congr (fun t => ?_) (rs_stable_kwbr rs_kw_npc.2.2.2.2.2.2.1
        (rs_stable_sj (r := SpelledCore fmtF) (g :: gs) (fun q hq => ih q hq ?_ (rs_allDeep he q hq))))
      · simp only [SpelledCore]
        rw [rs_kwbr_sj_iff]
        constructor
        · rintro ⟨ts, body, hf, hj, hk⟩; exact ⟨ts, body, (rs_spelledList_iff fmtF _ _).2 hf, hj, hk⟩
        · rintro ⟨ts, body, hf, hj, hk⟩; exact ⟨ts, body, (rs_spelledList_iff fmtF _ _).1 hf, hj, hk⟩
      · intro x hx
        exact hc x (rd_mem_coordsList hq hx)

theorem rs_stable_padded {Q : Str → Prop} (hQ : rs_Stable Q) : rs_Stable (Padded Q) := by
  intro t t' ht h
  obtain ⟨pre, post, c, hpre, hpost, hc, rfl⟩ := ht
  refine rs_padded_self ?_
  rw [List.append_assoc] at h
  rcases rs_split h with ⟨pre', hs, rfl⟩ | ⟨R', hs, rfl⟩ | ⟨x, y, hx, hy, lx, ly⟩
  · exact ⟨pre', post, c, rs_step_blank hpre hs, hpost, hc, by simp⟩
  · rcases rs_split hs with ⟨c', hs2, rfl⟩ | ⟨post', hs2, rfl⟩ | ⟨x, y, hx, hy, lx, ly⟩
    · obtain ⟨x, y, c'', h1, h2, hc', rfl⟩ := hQ c c' hc hs2
      exact ⟨pre ++ x, y ++ post, c'', rd_allBlank_append hpre h1, rd_allBlank_append h2 hpost, hc', by simp⟩
    · exact ⟨pre, post', c, hpre, rs_step_blank hpost hs2, hc, by simp⟩
    · rw [rs_allBlank_head hpost hy] at ly; cases ly
  · rw [rs_allBlank_getLast hpre hx] at lx; cases lx

/-- one text edit keeps a spelling a spelling -/
theorem spelled_step' (g : G) (t t' : Str) (hc : ∀ x ∈ coords g, CleanText (fmtF x))
    (he : noEmptyMemberDeep g = true) (hs : Spelled fmtF g t) (h : RespellStep t t') : Spelled fmtF g t' := by
  obtain ⟨pre, post, c, hpre, hpost, hcore, rfl⟩ := rs_stable_padded (rs_stable_spelledCore fmtF g hc he) t t' hs h
  obtain ⟨x, y, c', hx, hy, hc', rfl⟩ := hcore
  exact ⟨pre ++ x, y ++ post, c', rd_allBlank_append hpre hx, rd_allBlank_append hy hpost, hc', by simp⟩

theorem spelled_star' (g : G) (t t' : Str) (hc : ∀ x ∈ coords g, CleanText (fmtF x))
    (he : noEmptyMemberDeep g = true) (hs : Spelled fmtF g t) (h : RespellStar t t') : Spelled fmtF g t' := by
  induction h with
  | refl => exact hs
  | step _ hstep ih => exact spelled_step' fmtF g _ _ hc he ih hstep

/-- the property's re-spelling clause in its own wording -/
theorem respell_invariant' (parseF : Str → Option UInt64) (g : G) (t : Str)
    (he : noEmptyMemberDeep g = true) (hc : GoodCoords fmtF parseF g)
    (hl : ∀ x ∈ coords g, NoAdjacentLetters (fmtF x)) (h : RespellStar (marshalG fmtF g) t) :
    unmarshal parseF t = unmarshal parseF (marshalG fmtF g) := by
  have hclean : ∀ x ∈ coords g, CleanText (fmtF x) :=
    fun x hx => ⟨(hc x hx).nonempty, (hc x hx).clean, hl x hx⟩
  have hs := spelled_star' fmtF g _ t hclean he (marshalG_spelled' fmtF g) h
  rw [unmarshal_spelled' fmtF parseF g t hs he hc, unmarshal_marshal' fmtF parseF g he hc]

end

end Orb.WKT
