/-
  C16 lemmas, part C: the stitching loop (`wrapLoop`, `smartWrap`).
-/
import OrbProofs.C16Sort
import Mathlib.Tactic.NormNum

set_option linter.unusedSectionVars false
set_option linter.unusedSimpArgs false

namespace Orb.SmartClip
open Orb Orb.Core

variable {α : Type} [Field α] [LinearOrder α] [IsStrictOrderedRing α]

/-- a piece as `smartWrap` needs it: at least two points, both ends on the boundary of the box -/
def PieceOK (box : Bound α) (ls : List (Pt α)) : Prop :=
  2 ≤ ls.length ∧ (∀ p, ls.head? = some p → OnBoundary box p) ∧ (∀ p, ls.getLast? = some p → OnBoundary box p)

/-- every polygon is a single explicitly closed ring -/
def SingleClosed (mp : List (List (List (Pt α)))) : Prop := ∀ pg ∈ mp, ∃ rg, pg = [rg] ∧ ClosedRing rg

theorem ptEq_iff_C (p q : Pt α) : Core.ptEq p q = true ↔ p = q := by
  cases p; cases q
  simp [Core.ptEq]

/-- one iteration of the stitching loop: either the final value or the next state and loop index -/
def wrapStep (box : Bound α) (input : List (List (Pt α))) (o : Int) (n : Nat) (st : WrapSt α) (i : Nat) :
    Res String (List (List (List (Pt α))) ⊕ (WrapSt α × Nat)) :=
  if i ≥ 2 * n then .ok (.inl st.result) else
  match st.points[i % n]? with
  | none => .panic "index out of range"
  | some ep =>
    if ep.used then .ok (.inr (st, i+1))
    else if !ep.start then
      if st.current.isEmpty then
        match input[ep.index]? with
        | none => .panic "index out of range"
        | some piece =>
          .ok (.inr ({ st with current := piece, first := ep.index, points := st.points.set (i % n) { ep with used := true } }, i+1))
      else .ok (.inr (st, i+1))
    else if st.current.isEmpty then .ok (.inr (st, i+1))
    else
      match st.current.head?, st.current.getLast? with
      | some cf, some cl =>
        Res.bind (if Core.ptEq ep.point cl then .ok []
            else Res.bind (aroundBound box [ep.point, cl] o) fun r => .ok (r.drop 2) : Res String (List (Pt α)))
          fun rTail =>
          if ep.index == st.first && Core.ptEq ep.point cf then
            .ok (.inr ({ points := st.points.set (i % n) { ep with used := true }, current := [],
                         result := st.result ++ [[st.current ++ rTail]], first := st.first }, 0))
          else
            match input[ep.index]? with
            | none => .panic "index out of range"
            | some piece =>
              if ep.otherEnd ≥ (st.points.set (i % n) { ep with used := true }).length then .panic "index out of range" else
              .ok (.inr ({ points := (st.points.set (i % n) { ep with used := true }).modify ep.otherEnd
                                        fun e => { e with used := true },
                           current := st.current ++ (if rTail.isEmpty then [] else rTail.dropLast) ++ piece,
                           result := st.result, first := st.first }, ep.otherEnd + 1))
      | _, _ => .panic "index out of range"

/-- continuation of the loop after one step -/
def wrapCont (box : Bound α) (input : List (List (Pt α))) (o : Int) (n fuel : Nat) :
    List (List (List (Pt α))) ⊕ (WrapSt α × Nat) → Res String (List (List (List (Pt α))))
  | .inl r => .ok r
  | .inr (st, i) => wrapLoop box input o n fuel st i

theorem wrapLoop_succ (box : Bound α) (input : List (List (Pt α))) (o : Int) (n fuel : Nat) (st : WrapSt α) (i : Nat) :
    wrapLoop box input o n (fuel+1) st i = Res.bind (wrapStep box input o n st i) (wrapCont box input o n fuel) := by
  rw [wrapLoop, wrapStep]
  by_cases h1 : i ≥ 2 * n
  · rw [if_pos h1, if_pos h1]; rfl
  · rw [if_neg h1, if_neg h1]
    dsimp only []
    cases h2 : st.points[i % n]? with
    | none => rfl
    | some ep =>
      simp only []
      by_cases h3 : ep.used = true
      · rw [if_pos h3, if_pos h3]; rfl
      · rw [if_neg h3, if_neg h3]
        by_cases h4 : (!ep.start) = true
        · rw [if_pos h4, if_pos h4]
          by_cases h5 : st.current.isEmpty = true
          · rw [if_pos h5, if_pos h5]
            cases h6 : input[ep.index]? <;> rfl
          · rw [if_neg h5, if_neg h5]; rfl
        · rw [if_neg h4, if_neg h4]
          by_cases h5 : st.current.isEmpty = true
          · rw [if_pos h5, if_pos h5]; rfl
          · rw [if_neg h5, if_neg h5]
            cases h6 : st.current.head? with
            | none => rfl
            | some cf =>
              cases h7 : st.current.getLast? with
              | none => rfl
              | some cl =>
                simp only []
                have key : ∀ (x : Res String (List (Pt α))) f g, (∀ t, f t = Res.bind (g t) (wrapCont box input o n fuel)) →
                    (x >>= f) = Res.bind (Res.bind x g) (wrapCont box input o n fuel) := by
                  intro x f g hfg
                  cases x with
                  | ok a => exact hfg a
                  | err e => rfl
                  | panic w => rfl
                refine key _ _ _ ?_
                intro rTail
                by_cases h8 : (ep.index == st.first && Core.ptEq ep.point cf) = true
                · rw [if_pos h8, if_pos h8]; rfl
                · rw [if_neg h8, if_neg h8]
                  cases h9 : input[ep.index]? with
                  | none => rfl
                  | some piece =>
                    simp only []
                    split_ifs <;> rfl


theorem resBind_ok_invW {ε β γ : Type} {x : Res ε β} {f : β → Res ε γ} {b : γ} (h : Res.bind x f = .ok b) :
    ∃ a, x = .ok a ∧ f a = .ok b := by
  cases x with
  | ok a => exact ⟨a, rfl, h⟩
  | err e => cases h
  | panic w => cases h

/-- mark an endpoint as used -/
def usedT (e : Endpoint α) : Endpoint α := { e with used := true }

/-- all the ways one iteration can succeed -/
theorem wrapStep_cases {box : Bound α} {input : List (List (Pt α))} {o : Int} {n : Nat} {st : WrapSt α} {i : Nat}
    {x : List (List (List (Pt α))) ⊕ (WrapSt α × Nat)} (h : wrapStep box input o n st i = .ok x) :
    (2 * n ≤ i ∧ x = .inl st.result) ∨
    (i < 2 * n ∧ ∃ ep, st.points[i % n]? = some ep ∧
      (x = .inr (st, i+1) ∨
       (ep.used = false ∧ st.current = [] ∧ ∃ piece, input[ep.index]? = some piece ∧
          x = .inr ({ st with current := piece, first := ep.index, points := st.points.set (i % n) (usedT ep) }, i+1)) ∨
       (ep.used = false ∧ ∃ cf cl rTail, st.current.head? = some cf ∧ st.current.getLast? = some cl ∧
          ((ep.point = cl ∧ rTail = []) ∨
           (ep.point ≠ cl ∧ ∃ r, aroundBound box [ep.point, cl] o = .ok r ∧ rTail = r.drop 2)) ∧
          ((ep.point = cf ∧ x = .inr ({ points := st.points.set (i % n) (usedT ep), current := [],
                                        result := st.result ++ [[st.current ++ rTail]], first := st.first }, 0)) ∨
           (∃ piece, input[ep.index]? = some piece ∧ ep.otherEnd < st.points.length ∧
              x = .inr ({ points := (st.points.set (i % n) (usedT ep)).modify ep.otherEnd usedT,
                          current := st.current ++ (if rTail.isEmpty then [] else rTail.dropLast) ++ piece,
                          result := st.result, first := st.first }, ep.otherEnd + 1)))))) := by
  rw [wrapStep] at h
  by_cases h1 : i ≥ 2 * n
  · rw [if_pos h1] at h
    left; exact ⟨h1, by cases h; rfl⟩
  · rw [if_neg h1] at h
    right
    refine ⟨by omega, ?_⟩
    cases h2 : st.points[i % n]? with
    | none => rw [h2] at h; cases h
    | some ep =>
      rw [h2] at h
      refine ⟨ep, rfl, ?_⟩
      simp only [] at h
      by_cases h3 : ep.used = true
      · rw [if_pos h3] at h; left; cases h; rfl
      · rw [if_neg h3] at h
        have hu : ep.used = false := by simpa using h3
        by_cases h4 : (!ep.start) = true
        · rw [if_pos h4] at h
          by_cases h5 : st.current.isEmpty = true
          · rw [if_pos h5] at h
            cases h6 : input[ep.index]? with
            | none => rw [h6] at h; cases h
            | some piece =>
              rw [h6] at h
              right; left
              refine ⟨hu, by simpa using h5, piece, rfl, ?_⟩
              cases h; rfl
          · rw [if_neg h5] at h; left; cases h; rfl
        · rw [if_neg h4] at h
          by_cases h5 : st.current.isEmpty = true
          · rw [if_pos h5] at h; left; cases h; rfl
          · rw [if_neg h5] at h
            cases h6 : st.current.head? with
            | none => rw [h6] at h; cases h7 : st.current.getLast? <;> rw [h7] at h <;> cases h
            | some cf =>
              cases h7 : st.current.getLast? with
              | none => rw [h6, h7] at h; cases h
              | some cl =>
                rw [h6, h7] at h
                simp only [] at h
                right; right
                obtain ⟨rTail, hr, h⟩ := resBind_ok_invW h
                refine ⟨hu, cf, cl, rTail, rfl, rfl, ?_, ?_⟩
                · by_cases h8 : Core.ptEq ep.point cl = true
                  · rw [if_pos h8] at hr
                    left; exact ⟨(ptEq_iff_C _ _).1 h8, by cases hr; rfl⟩
                  · rw [if_neg h8] at hr
                    right
                    obtain ⟨r, hr1, hr2⟩ := resBind_ok_invW hr
                    exact ⟨fun hh => h8 ((ptEq_iff_C _ _).2 hh), r, hr1, by cases hr2; rfl⟩
                · by_cases h8 : (ep.index == st.first && Core.ptEq ep.point cf) = true
                  · rw [if_pos h8] at h
                    left; exact ⟨(ptEq_iff_C _ _).1 (Bool.and_eq_true_iff.1 h8).2, by cases h; rfl⟩
                  · rw [if_neg h8] at h
                    right
                    cases h9 : input[ep.index]? with
                    | none => rw [h9] at h; cases h
                    | some piece =>
                      rw [h9] at h
                      simp only [] at h
                      by_cases h10 : ep.otherEnd ≥ (st.points.set (i % n) { ep with used := true }).length
                      · rw [if_pos h10] at h; cases h
                      · rw [if_neg h10] at h
                        refine ⟨piece, rfl, by simpa using h10, ?_⟩
                        cases h; rfl


/-- a state invariant preserved by every iteration holds in the state whose `result` is returned -/
theorem wrapLoop_inv {box : Bound α} {input : List (List (Pt α))} {o : Int} {n : Nat} (P : WrapSt α → Prop)
    (hstep : ∀ st i st' i', P st → wrapStep box input o n st i = .ok (.inr (st', i')) → P st') :
    ∀ fuel st i out, wrapLoop box input o n fuel st i = .ok out → P st → ∃ stf, P stf ∧ out = stf.result := by
  intro fuel
  induction fuel with
  | zero => intro st i out h; rw [wrapLoop] at h; cases h
  | succ fuel ih =>
    intro st i out h hP
    rw [wrapLoop_succ] at h
    obtain ⟨x, hx, h⟩ := resBind_ok_invW h
    cases x with
    | inl r =>
      rcases wrapStep_cases hx with ⟨_, hr⟩ | ⟨_, ep, _, hr | ⟨_, _, _, _, hr⟩ | ⟨_, _, _, _, _, _, _, ⟨_, hr⟩ | ⟨_, _, _, hr⟩⟩⟩
      all_goals cases hr
      rw [wrapCont] at h
      cases h
      exact ⟨st, hP, rfl⟩
    | inr p =>
      obtain ⟨st', i'⟩ := p
      rw [wrapCont] at h
      exact ih st' i' out h (hstep st i st' i' hP hx)

theorem closedRing_stitch {cur rTail : List (Pt α)} {cf cl p : Pt α} {box : Bound α} {o : Int}
    (hcf : cur.head? = some cf) (hcl : cur.getLast? = some cl) (hp : p = cf)
    (hr : (p = cl ∧ rTail = []) ∨ (p ≠ cl ∧ ∃ r, aroundBound box [p, cl] o = .ok r ∧ rTail = r.drop 2)) :
    ClosedRing (cur ++ rTail) := by
  have hne : cur ≠ [] := by intro h; rw [h] at hcf; cases hcf
  refine ⟨by simp [hne], ?_⟩
  rw [List.head?_append, hcf, Option.some_or]
  rcases hr with ⟨h1, h2⟩ | ⟨h1, r, h2, h3⟩
  · subst h2; rw [List.append_nil, hcl, ← h1, hp]
  · obtain ⟨hpre, _, hlast⟩ := aroundBound_closed' box _ r o h2 (by simp)
    obtain ⟨t, ht⟩ := hpre
    subst ht
    have : rTail = t := by rw [h3]; simp
    subst this
    cases ht : rTail with
    | nil =>
      rw [ht] at hlast
      simp at hlast
      exact absurd hlast.symm h1
    | cons a t' =>
      rw [ht] at hlast
      have hl : (a :: t').getLast? = some p := by
        simpa [List.getLast?_cons_cons] using hlast
      rw [List.getLast?_append, hl, Option.some_or, hp]

theorem wrapLoop_rings_closed' (box : Bound α) (input : List (List (Pt α))) (o : Int) (n fuel : Nat)
    (st : WrapSt α) (i : Nat) (out : List (List (List (Pt α))))
    (h : wrapLoop box input o n fuel st i = .ok out) (hst : SingleClosed st.result) : SingleClosed out := by
  refine (fun hstep => ?_ : (∀ st i st' i', SingleClosed st.result →
      wrapStep box input o n st i = .ok (.inr (st', i')) → SingleClosed st'.result) → _) ?_
  · obtain ⟨stf, hP, rfl⟩ := wrapLoop_inv (fun st => SingleClosed st.result) hstep fuel st i out h hst
    exact hP
  · intro st i st' i' hP hx
    rcases wrapStep_cases hx with ⟨_, hr⟩ | ⟨_, ep, _, hr | ⟨_, _, _, _, hr⟩ | ⟨_, cf, cl, rTail, hcf, hcl, hrt, ⟨hpf, hr⟩ | ⟨_, _, _, hr⟩⟩⟩
    all_goals cases hr
    all_goals try exact hP
    intro pg hpg
    rcases List.mem_append.1 hpg with hpg | hpg
    · exact hP pg hpg
    · simp only [List.mem_singleton] at hpg
      exact ⟨_, hpg, closedRing_stitch hcf hcl hpf hrt⟩

theorem smartWrap_inv {box : Bound α} {input : List (List (Pt α))} {o : Int} {out : List (List (List (Pt α)))}
    (h : smartWrap box input o = .ok out) :
    ∃ pts sorted, mkEndpoints box 0 input = .ok pts ∧ sortE input (o != CCW) pts = .ok sorted ∧
      wrapLoop box input o sorted.length ((2*sorted.length+2)*(2*sorted.length+2))
        { points := sorted, current := [], result := [] } 0 = .ok out := by
  unfold smartWrap at h
  obtain ⟨pts, h1, h⟩ := resBind_ok_invW h
  obtain ⟨sorted, h2, h⟩ := resBind_ok_invW h
  exact ⟨pts, sorted, h1, h2, h⟩

theorem smartWrap_rings_closed' (box : Bound α) (input : List (List (Pt α))) (o : Int)
    (out : List (List (List (Pt α)))) (h : smartWrap box input o = .ok out) : SingleClosed out := by
  obtain ⟨pts, sorted, _, _, h⟩ := smartWrap_inv h
  exact wrapLoop_rings_closed' _ _ _ _ _ _ _ _ h (by intro pg hpg; cases hpg)

theorem smartWrap_nil' (box : Bound α) (o : Int) : smartWrap box ([] : List (List (Pt α))) o = .ok [] := by
  rfl

theorem smartWrap_invalid_orientation_witness' :
    smartWrap (⟨⟨0, 0⟩, ⟨4, 4⟩⟩ : Bound ℚ) [[⟨0, 1⟩, ⟨2, 2⟩, ⟨0, 3⟩]] 0 = .panic "invalid orientation" := by
  decide

/-! ### endpoint facts that survive the sort -/

theorem forall_set_usedT {Q : Endpoint α → Prop} (hQ : ∀ e, Q e → Q (usedT e)) {l : List (Endpoint α)} {k : Nat}
    {ep : Endpoint α} (hk : l[k]? = some ep) (h : ∀ e ∈ l, Q e) : ∀ e ∈ l.set k (usedT ep), Q e := by
  intro e he
  rcases List.mem_or_eq_of_mem_set he with he | rfl
  · exact h e he
  · exact hQ _ (h _ (List.mem_of_getElem? hk))

theorem forall_modify_usedT {Q : Endpoint α → Prop} (hQ : ∀ e, Q e → Q (usedT e)) {l : List (Endpoint α)} {k : Nat}
    (h : ∀ e ∈ l, Q e) : ∀ e ∈ l.modify k usedT, Q e := by
  induction l generalizing k with
  | nil => intro e he; simp at he
  | cons a l ih =>
    cases k with
    | zero =>
      rw [List.modify_zero_cons]
      intro e he
      rcases List.mem_cons.1 he with rfl | he
      · exact hQ _ (h _ (List.mem_cons_self))
      · exact h _ (List.mem_cons_of_mem _ he)
    | succ k =>
      rw [List.modify_succ_cons]
      intro e he
      rcases List.mem_cons.1 he with rfl | he
      · exact h _ (List.mem_cons_self)
      · exact ih (fun e he => h e (List.mem_cons_of_mem _ he)) e he

theorem mkEndpoints_ok_neW {box : Bound α} : ∀ (input : List (List (Pt α))) (i : Nat) (pts : List (Endpoint α)),
    mkEndpoints box i input = .ok pts → ∀ ls ∈ input, ls ≠ [] := by
  intro input
  induction input with
  | nil => intro i pts _ ls hls; cases hls
  | cons r rest ih =>
    intro i pts h ls hls
    rw [mkEndpoints] at h
    cases r with
    | nil => cases h
    | cons a r' =>
      rcases List.mem_cons.1 hls with rfl | hls
      · simp
      · cases hh : (a :: r').getLast? with
        | none => simp at hh
        | some l =>
          rw [hh] at h
          simp only [List.head?_cons] at h
          obtain ⟨tl, htl, _⟩ := resBind_ok_invW h
          exact ih (i+1) tl htl ls hls

/-- what the stitching loop needs to know about the sorted endpoint slice -/
theorem wrapSorted_facts {box : Bound α} {input : List (List (Pt α))} {rev : Bool} {pts sorted : List (Endpoint α)}
    (h1 : mkEndpoints box 0 input = .ok pts) (h2 : sortE input rev pts = .ok sorted) :
    sorted.length = 2 * input.length ∧
    ∀ e ∈ sorted, ∃ ls, input[e.index]? = some ls ∧
      (if e.start then ls.head? = some e.point else ls.getLast? = some e.point) := by
  obtain ⟨eps, he, hlen, _, hspec⟩ := mkEndpoints_spec' box input (mkEndpoints_ok_neW input 0 pts h1)
  rw [h1] at he
  cases he
  obtain ⟨hl, hperm⟩ := sortE_perm' input rev pts sorted h2
  refine ⟨by rw [hl, hlen], ?_⟩
  intro e he
  have : epKey e ∈ pts.map epKey := hperm.subset (List.mem_map_of_mem he)
  obtain ⟨e0, he0, hk⟩ := List.mem_map.1 this
  obtain ⟨_, _, _, ls, hls, hif⟩ := hspec e0 he0
  simp only [epKey, Prod.mk.injEq] at hk
  obtain ⟨hp, hs, _, _, hi⟩ := hk
  rw [← hi, ← hs, ← hp]
  exact ⟨ls, hls, hif⟩

/-! ### vertices -/

/-- a vertex of an input piece or one of the eight `pointFor` points -/
def GoodV (box : Bound α) (input : List (List (Pt α))) (v : Pt α) : Prop :=
  (∃ ls ∈ input, v ∈ ls) ∨ ∃ c ∈ ccwOrder, pointFor box c = .ok v

def VInv (box : Bound α) (input : List (List (Pt α))) (st : WrapSt α) : Prop :=
  (∀ e ∈ st.points, ∃ ls ∈ input, e.point ∈ ls) ∧ (∀ v ∈ st.current, GoodV box input v) ∧
  (∀ pg ∈ st.result, ∀ rg ∈ pg, ∀ v ∈ rg, GoodV box input v)

theorem rTail_good {box : Bound α} {input : List (List (Pt α))} {o : Int} {p cl : Pt α} {rTail : List (Pt α)}
    (hp : GoodV box input p) (hcl : GoodV box input cl)
    (hr : (p = cl ∧ rTail = []) ∨ (p ≠ cl ∧ ∃ r, aroundBound box [p, cl] o = .ok r ∧ rTail = r.drop 2)) :
    ∀ v ∈ rTail, GoodV box input v := by
  intro v hv
  rcases hr with ⟨_, rfl⟩ | ⟨_, r, hr, rfl⟩
  · cases hv
  · rcases aroundBound_points' box _ r o hr v (List.mem_of_mem_drop hv) with hm | hm
    · simp only [List.mem_cons, List.not_mem_nil, or_false] at hm
      rcases hm with rfl | rfl
      · exact hp
      · exact hcl
    · exact Or.inr hm

theorem VInv_step {box : Bound α} {input : List (List (Pt α))} {o : Int} {n : Nat} :
    ∀ st i st' i', VInv box input st → wrapStep box input o n st i = .ok (.inr (st', i')) → VInv box input st' := by
  intro st i st' i' hP hx
  obtain ⟨hpts, hcur, hres⟩ := hP
  have hQ : ∀ e : Endpoint α, (∃ ls ∈ input, e.point ∈ ls) → ∃ ls ∈ input, (usedT e).point ∈ ls := fun e h => h
  rcases wrapStep_cases hx with ⟨_, hr⟩ | ⟨_, ep, hep, hr | ⟨_, _, piece, hpiece, hr⟩ |
    ⟨_, cf, cl, rTail, hcf, hcl, hrt, ⟨hpf, hr⟩ | ⟨piece, hpiece, _, hr⟩⟩⟩
  · cases hr
  · cases hr; exact ⟨hpts, hcur, hres⟩
  · cases hr
    refine ⟨forall_set_usedT hQ hep hpts, ?_, hres⟩
    intro v hv
    exact Or.inl ⟨piece, List.mem_of_getElem? hpiece, hv⟩
  · cases hr
    have hgp : GoodV box input ep.point := Or.inl (hpts ep (List.mem_of_getElem? hep))
    have hgcl : GoodV box input cl := hcur cl (List.mem_of_getLast? hcl)
    refine ⟨forall_set_usedT hQ hep hpts, ⟨fun v hv => (by cases hv), ?_⟩⟩
    intro pg hpg
    rcases List.mem_append.1 hpg with hpg | hpg
    · exact hres pg hpg
    · simp only [List.mem_singleton] at hpg
      subst hpg
      intro rg hrg v hv
      simp only [List.mem_singleton] at hrg
      subst hrg
      rcases List.mem_append.1 hv with hv | hv
      · exact hcur v hv
      · exact rTail_good hgp hgcl hrt v hv
  · cases hr
    have hgp : GoodV box input ep.point := Or.inl (hpts ep (List.mem_of_getElem? hep))
    have hgcl : GoodV box input cl := hcur cl (List.mem_of_getLast? hcl)
    refine ⟨forall_modify_usedT hQ (forall_set_usedT hQ hep hpts), ?_, hres⟩
    intro v hv
    rcases List.mem_append.1 hv with hv | hv
    · rcases List.mem_append.1 hv with hv | hv
      · exact hcur v hv
      · split_ifs at hv
        · cases hv
        · exact rTail_good hgp hgcl hrt v (List.dropLast_subset _ hv)
    · exact Or.inl ⟨piece, List.mem_of_getElem? hpiece, hv⟩

/-- every output vertex is a vertex of an input piece or one of the eight `pointFor` points -/
theorem smartWrap_vertices' (box : Bound α) (input : List (List (Pt α))) (o : Int)
    (out : List (List (List (Pt α)))) (h : smartWrap box input o = .ok out) :
    ∀ pg ∈ out, ∀ rg ∈ pg, ∀ v ∈ rg, (∃ ls ∈ input, v ∈ ls) ∨ ∃ c ∈ ccwOrder, pointFor box c = .ok v := by
  obtain ⟨pts, sorted, h1, h2, h⟩ := smartWrap_inv h
  obtain ⟨_, hs⟩ := wrapSorted_facts h1 h2
  have h0 : VInv box input { points := sorted, current := [], result := [] } := by
    refine ⟨?_, ⟨fun v hv => (by cases hv), fun pg hpg => (by cases hpg)⟩⟩
    intro e he
    obtain ⟨ls, hls, hif⟩ := hs e he
    refine ⟨ls, List.mem_of_getElem? hls, ?_⟩
    split_ifs at hif
    · exact List.mem_of_head? hif
    · exact List.mem_of_getLast? hif
  obtain ⟨stf, hP, rfl⟩ := wrapLoop_inv (VInv box input) VInv_step _ _ _ _ h h0
  exact hP.2.2

theorem smartWrap_in_box' (box : Bound α) (hb : BoxOK box) (input : List (List (Pt α))) (o : Int)
    (out : List (List (List (Pt α)))) (h : smartWrap box input o = .ok out)
    (hin : ∀ ls ∈ input, ∀ v ∈ ls, InBox box v) : ∀ pg ∈ out, ∀ rg ∈ pg, ∀ v ∈ rg, InBox box v := by
  intro pg hpg rg hrg v hv
  rcases smartWrap_vertices' box input o out h pg hpg rg hrg v hv with ⟨ls, hls, hvl⟩ | ⟨c, hc, hpc⟩
  · exact hin ls hls v hvl
  · obtain ⟨p, hp1, hp2, _⟩ := pointFor_on_side' box hb c hc
    rw [hp1] at hpc
    cases hpc
    exact hp2.1

/-! ### absence of panics and termination -/

/-- number of endpoints not yet used -/
def unusedCount (l : List (Endpoint α)) : Nat := l.countP (fun e => !e.used)

theorem unusedCount_set {l : List (Endpoint α)} {k : Nat} {ep : Endpoint α} (hk : l[k]? = some ep)
    (hu : ep.used = false) : unusedCount (l.set k (usedT ep)) + 1 = unusedCount l := by
  induction l generalizing k with
  | nil => simp at hk
  | cons a l ih =>
    cases k with
    | zero =>
      simp only [List.getElem?_cons_zero, Option.some.injEq] at hk
      subst hk
      simp [unusedCount, List.countP_cons, usedT, hu]
    | succ k =>
      simp only [List.getElem?_cons_succ] at hk
      have := ih hk
      simp only [unusedCount, List.set_cons_succ, List.countP_cons] at this ⊢
      omega

theorem unusedCount_modify (l : List (Endpoint α)) (k : Nat) : unusedCount (l.modify k usedT) ≤ unusedCount l := by
  induction l generalizing k with
  | nil => simp [unusedCount]
  | cons a l ih =>
    cases k with
    | zero =>
      rw [List.modify_zero_cons]
      simp only [unusedCount, List.countP_cons, usedT]
      simp
    | succ k =>
      rw [List.modify_succ_cons]
      have := ih k
      simp only [unusedCount, List.countP_cons] at this ⊢
      omega

/-- the invariant of the stitching loop that excludes panics -/
def WInv (box : Bound α) (input : List (List (Pt α))) (n : Nat) (st : WrapSt α) : Prop :=
  st.points.length = n ∧
  (∀ e ∈ st.points, OnBoundary box e.point ∧ e.otherEnd < n ∧ ∃ piece, input[e.index]? = some piece) ∧
  (∀ cl, st.current.getLast? = some cl → OnBoundary box cl)

theorem resOk_bindW {ε β γ : Type} (a : β) (f : β → Res ε γ) : Res.bind (.ok a) f = f a := rfl

theorem wrapStep_ok {box : Bound α} (hb : BoxOK box) {input : List (List (Pt α))} {o : Int}
    (ho : o = CW ∨ o = CCW) {n : Nat} {st : WrapSt α} (i : Nat)
    (hI : WInv box input n st) : ∃ x, wrapStep box input o n st i = .ok x := by
  obtain ⟨hlen, hpts, hcur⟩ := hI
  rw [wrapStep]
  by_cases h1 : i ≥ 2 * n
  · rw [if_pos h1]; exact ⟨_, rfl⟩
  · rw [if_neg h1]
    have hn : 0 < n := by omega
    have hk : i % n < st.points.length := by rw [hlen]; exact Nat.mod_lt _ hn
    rw [List.getElem?_eq_getElem hk]
    simp only []
    generalize hep : st.points[i % n] = ep
    have hmem : ep ∈ st.points := by rw [← hep]; exact List.getElem_mem hk
    obtain ⟨hob, hoe, piece, hpiece⟩ := hpts ep hmem
    by_cases h3 : ep.used = true
    · rw [if_pos h3]; exact ⟨_, rfl⟩
    · rw [if_neg h3]
      by_cases h4 : (!ep.start) = true
      · rw [if_pos h4]
        by_cases h5 : st.current.isEmpty = true
        · rw [if_pos h5, hpiece]; exact ⟨_, rfl⟩
        · rw [if_neg h5]; exact ⟨_, rfl⟩
      · rw [if_neg h4]
        by_cases h5 : st.current.isEmpty = true
        · rw [if_pos h5]; exact ⟨_, rfl⟩
        · rw [if_neg h5]
          have hne : st.current ≠ [] := by simpa using h5
          obtain ⟨cf, hcf⟩ : ∃ cf, st.current.head? = some cf := by
            cases hc : st.current with
            | nil => exact absurd hc hne
            | cons a t => exact ⟨a, rfl⟩
          obtain ⟨cl, hcl⟩ : ∃ cl, st.current.getLast? = some cl :=
            ⟨_, List.getLast?_eq_some_getLast hne⟩
          rw [hcf, hcl]
          simp only []
          have hr : ∃ rTail, (if Core.ptEq ep.point cl then Res.ok []
              else Res.bind (aroundBound box [ep.point, cl] o) fun r => Res.ok (r.drop 2) : Res String (List (Pt α)))
              = .ok rTail := by
            by_cases h8 : Core.ptEq ep.point cl = true
            · rw [if_pos h8]; exact ⟨_, rfl⟩
            · rw [if_neg h8]
              obtain ⟨r, hr⟩ := aroundBound_total' box hb [ep.point, cl] o ep.point cl ho (by simp) rfl rfl hob
                (hcur cl hcl)
              rw [hr]; exact ⟨_, rfl⟩
          obtain ⟨rTail, hr⟩ := hr
          rw [hr, resOk_bindW]
          by_cases h8 : (ep.index == st.first && Core.ptEq ep.point cf) = true
          · rw [if_pos h8]; exact ⟨_, rfl⟩
          · rw [if_neg h8, hpiece]
            simp only []
            rw [if_neg (by rw [List.length_set, hlen]; omega)]
            exact ⟨_, rfl⟩

theorem WInv_step {box : Bound α} {input : List (List (Pt α))} (hp : ∀ ls ∈ input, PieceOK box ls) {o : Int} {n : Nat} :
    ∀ st i st' i', WInv box input n st → wrapStep box input o n st i = .ok (.inr (st', i')) → WInv box input n st' := by
  intro st i st' i' hP hx
  obtain ⟨hlen, hpts, hcur⟩ := hP
  have hQ : ∀ e : Endpoint α, (OnBoundary box e.point ∧ e.otherEnd < n ∧ ∃ piece, input[e.index]? = some piece) →
      (OnBoundary box (usedT e).point ∧ (usedT e).otherEnd < n ∧ ∃ piece, input[(usedT e).index]? = some piece) :=
    fun e h => h
  have hlast : ∀ piece : List (Pt α), ∀ k, input[k]? = some piece → ∀ cl, piece.getLast? = some cl → OnBoundary box cl :=
    fun piece k hk cl hcl => (hp piece (List.mem_of_getElem? hk)).2.2 cl hcl
  rcases wrapStep_cases hx with ⟨_, hr⟩ | ⟨_, ep, hep, hr | ⟨_, _, piece, hpiece, hr⟩ |
    ⟨_, cf, cl, rTail, hcf, hcl, hrt, ⟨hpf, hr⟩ | ⟨piece, hpiece, _, hr⟩⟩⟩
  · cases hr
  · cases hr; exact ⟨hlen, hpts, hcur⟩
  · cases hr
    exact ⟨by rw [List.length_set]; exact hlen, forall_set_usedT hQ hep hpts, hlast piece _ hpiece⟩
  · cases hr
    exact ⟨by rw [List.length_set]; exact hlen, forall_set_usedT hQ hep hpts, fun cl h => (by cases h)⟩
  · cases hr
    refine ⟨by rw [List.length_modify, List.length_set]; exact hlen,
      forall_modify_usedT hQ (forall_set_usedT hQ hep hpts), ?_⟩
    intro c hc
    have h2 : 2 ≤ piece.length := (hp piece (List.mem_of_getElem? hpiece)).1
    have hne : piece ≠ [] := by intro h; rw [h] at h2; simp at h2
    rw [List.getLast?_append, List.getLast?_eq_some_getLast hne, Option.some_or] at hc
    exact hlast piece _ hpiece c (by rw [List.getLast?_eq_some_getLast hne]; exact hc)

/-- the termination measure: (unused endpoints, remaining indices) lexicographically -/
def wrapMu (n : Nat) (st : WrapSt α) (i : Nat) : Nat := unusedCount st.points * (2 * n + 1) + (2 * n - i)

theorem wrapMu_aux {n U U' i i' : Nat} (h : U' + 1 ≤ U) : U' * (2 * n + 1) + (2 * n - i') < U * (2 * n + 1) + (2 * n - i) := by
  have : (U' + 1) * (2 * n + 1) ≤ U * (2 * n + 1) := Nat.mul_le_mul_right _ h
  have h2 : (U' + 1) * (2 * n + 1) = U' * (2 * n + 1) + (2 * n + 1) := by ring
  omega

theorem wrapMu_step {box : Bound α} {input : List (List (Pt α))} {o : Int} {n : Nat} :
    ∀ st i st' i', wrapStep box input o n st i = .ok (.inr (st', i')) → wrapMu n st' i' < wrapMu n st i := by
  intro st i st' i' hx
  rcases wrapStep_cases hx with ⟨_, hr⟩ | ⟨hi, ep, hep, hr | ⟨hu, _, piece, hpiece, hr⟩ |
    ⟨hu, cf, cl, rTail, hcf, hcl, hrt, ⟨hpf, hr⟩ | ⟨piece, hpiece, _, hr⟩⟩⟩
  · cases hr
  · cases hr; unfold wrapMu; omega
  · cases hr
    exact wrapMu_aux (le_of_eq (unusedCount_set hep hu))
  · cases hr
    exact wrapMu_aux (le_of_eq (unusedCount_set hep hu))
  · cases hr
    refine wrapMu_aux ?_
    have h1 := unusedCount_set hep hu
    have h2 := unusedCount_modify (st.points.set (i % n) (usedT ep)) ep.otherEnd
    show unusedCount ((st.points.set (i % n) (usedT ep)).modify ep.otherEnd usedT) + 1 ≤ unusedCount st.points
    omega

theorem wrapLoop_total {box : Bound α} (hb : BoxOK box) {input : List (List (Pt α))}
    (hp : ∀ ls ∈ input, PieceOK box ls) {o : Int} (ho : o = CW ∨ o = CCW) {n : Nat} :
    ∀ fuel st i, WInv box input n st → wrapMu n st i < fuel → ∃ out, wrapLoop box input o n fuel st i = .ok out := by
  intro fuel
  induction fuel with
  | zero => intro st i _ h; omega
  | succ fuel ih =>
    intro st i hI hmu
    rw [wrapLoop_succ]
    obtain ⟨x, hx⟩ := wrapStep_ok hb ho i hI
    rw [hx, resOk_bindW]
    cases x with
    | inl r => exact ⟨r, rfl⟩
    | inr p =>
      obtain ⟨st', i'⟩ := p
      have := wrapMu_step st i st' i' hx
      exact ih st' i' (WInv_step hp st i st' i' hI hx) (by omega)

/-- … and the loop's fuel is sufficient: it returns a value -/
theorem smartWrap_total' (box : Bound α) (hb : BoxOK box) (input : List (List (Pt α))) (o : Int)
    (ho : o = CW ∨ o = CCW) (hp : ∀ ls ∈ input, PieceOK box ls) : ∃ out, smartWrap box input o = .ok out := by
  have hne : ∀ ls ∈ input, ls ≠ [] := by
    intro ls hls h
    have := (hp ls hls).1
    rw [h] at this; simp at this
  obtain ⟨eps, he, hlen, _, hspec⟩ := mkEndpoints_spec' box input hne
  -- facts about the unsorted endpoints
  have hfacts : ∀ e ∈ eps, OnBoundary box e.point ∧ ∃ ls, input[e.index]? = some ls ∧ 2 ≤ ls.length := by
    intro e hmem
    obtain ⟨_, _, _, ls, hls, hif⟩ := hspec e hmem
    have hok := hp ls (List.mem_of_getElem? hls)
    refine ⟨?_, ls, hls, hok.1⟩
    split_ifs at hif
    · exact hok.2.1 _ hif
    · exact hok.2.2 _ hif
  have hEp : ∀ e ∈ eps, EpOK input e := by
    intro e hmem
    obtain ⟨_, _, hside, _⟩ := hspec e hmem
    obtain ⟨hob, hls⟩ := hfacts e hmem
    exact ⟨by rw [hside]; exact pointSide_onBoundary' box e.point hob, hls⟩
  obtain ⟨sorted, hs, hslen, hperm, hoe⟩ := sortE_ok' input (o != CCW) eps hEp (fun e hmem => (hspec e hmem).2.1)
  have hI : WInv box input sorted.length { points := sorted, current := [], result := [] } := by
    refine ⟨rfl, ?_, fun cl h => (by cases h)⟩
    intro e hmem
    have : epKey e ∈ eps.map epKey := hperm.subset (List.mem_map_of_mem hmem)
    obtain ⟨e0, he0, hk⟩ := List.mem_map.1 this
    obtain ⟨hob, ls, hls, _⟩ := hfacts e0 he0
    simp only [epKey, Prod.mk.injEq] at hk
    obtain ⟨hpt, _, _, _, hi⟩ := hk
    rw [← hi, ← hpt]
    exact ⟨hob, hoe e hmem, ls, hls⟩
  have hfuel : wrapMu sorted.length ({ points := sorted, current := [], result := [] } : WrapSt α) 0 <
      (2 * sorted.length + 2) * (2 * sorted.length + 2) := by
    have h1 : unusedCount sorted ≤ sorted.length := List.countP_le_length
    have h2 : unusedCount sorted * (2 * sorted.length + 1) ≤ sorted.length * (2 * sorted.length + 1) :=
      Nat.mul_le_mul_right _ h1
    unfold wrapMu
    show unusedCount sorted * (2 * sorted.length + 1) + (2 * sorted.length - 0) < _
    have h3 : sorted.length * (2 * sorted.length + 1) = 2 * (sorted.length * sorted.length) + sorted.length := by ring
    have h4 : (2 * sorted.length + 2) * (2 * sorted.length + 2) =
        4 * (sorted.length * sorted.length) + 8 * sorted.length + 4 := by ring
    rw [h4, Nat.sub_zero]
    omega
  obtain ⟨out, hout⟩ := wrapLoop_total hb hp ho _ _ 0 hI hfuel
  refine ⟨out, ?_⟩
  unfold smartWrap
  show Res.bind (mkEndpoints box 0 input) _ = _
  rw [he, resOk_bindW]
  show Res.bind (sortE input (o != CCW) eps) _ = _
  rw [hs, resOk_bindW]
  exact hout

/-- with well-formed pieces and a valid orientation the stitching never panics -/
theorem smartWrap_no_panic' (box : Bound α) (hb : BoxOK box) (input : List (List (Pt α))) (o : Int)
    (ho : o = CW ∨ o = CCW) (hp : ∀ ls ∈ input, PieceOK box ls) : ∀ w, smartWrap box input o ≠ .panic w := by
  intro w h
  obtain ⟨out, hout⟩ := smartWrap_total' box hb input o ho hp
  rw [hout] at h
  cases h

end Orb.SmartClip
