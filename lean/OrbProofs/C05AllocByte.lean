/-
  C05 allocation accounting, byte-slice path (`Unmarshal`, the unmarshal* / Scan* functions):
  LINEAR for every input.  A member of a multi is decoded by the plain decoder of its type
  (`scanMember`), a succeeding member scan is paid for by the bytes the loop then skips (the re-derived
  stride), and a failing one ends the loop.
-/
import OrbProofs.C05AllocStream

namespace Orb.WKB
open Orb Generated.Params

/-! ### leaves -/

theorem unmarshalPointsAlloc_le (o : Order) (d : Bytes) : unmarshalPointsAlloc o d ≤ d.length := by
  unfold unmarshalPointsAlloc
  simp only [lenLt_eq, decide_eq_true_eq, szPoint, wkb_MaxPointsAlloc]
  split
  · omega
  · split
    · omega
    · rename_i h1 h2
      have := (allocCap_le' (rd32 o d) 10000).2
      simp only [List.length_drop] at h2
      omega

theorem unmarshalPointsAlloc_ok {o : Order} {d : Bytes} {ps : List (Pt UInt64)}
    (h : unmarshalPoints o d = .ok ps) : unmarshalPointsAlloc o d ≤ 16 * ps.length := by
  unfold unmarshalPoints at h
  split at h
  · contradiction
  · simp only [] at h
    split at h
    · contradiction
    · injection h with h
      subst h
      rw [readPts_length]
      unfold unmarshalPointsAlloc
      simp only [lenLt_eq, decide_eq_true_eq, szPoint, wkb_MaxPointsAlloc]
      have := (allocCap_le' (rd32 o d) 10000).2
      repeat' split
      all_goals omega

theorem unmarshalPolygonAlloc_loop_le (o : Order) (n : Nat) :
    ∀ d : Bytes, unmarshalPolygonAlloc.loop o n d ≤ d.length := by
  induction n with
  | zero => intro d; simp only [unmarshalPolygonAlloc.loop]; omega
  | succ n ih =>
    intro d
    simp only [unmarshalPolygonAlloc.loop]
    have ha := unmarshalPointsAlloc_le o d
    split
    · rename_i ps hps
      have hb := unmarshalPointsAlloc_ok hps
      split
      · rename_i rest hrest
        have := sliceFrom_len hrest
        have := ih rest
        omega
      · omega
    · omega

theorem unmarshalPolygonAlloc_le (o : Order) (d : Bytes) : unmarshalPolygonAlloc o d ≤ d.length + 2400 := by
  unfold unmarshalPolygonAlloc
  simp only [lenLt_eq, decide_eq_true_eq, szSlice, wkb_MaxMultiAlloc]
  split
  · omega
  · have := (allocCap_le' (rd32 o d) 100).1
    have := unmarshalPolygonAlloc_loop_le o (rd32 o d) (d.drop 4)
    simp only [List.length_drop] at this
    omega

theorem unmarshalPolygon_loop_count {o : Order} (n : Nat) : ∀ {d : Bytes} {rs : List (List (Pt UInt64))},
    unmarshalPolygon.loop o n d = .ok rs → 4 * n ≤ d.length := by
  induction n with
  | zero => intro d rs _; omega
  | succ n ih =>
    intro d rs h
    simp only [unmarshalPolygon.loop] at h
    split at h
    · rename_i ps hps
      split at h
      · rename_i rest hrest
        split at h
        · rename_i rs' hrs'
          have := ih hrs'
          have := sliceFrom_len hrest
          omega
        all_goals contradiction
      all_goals contradiction
    all_goals contradiction

theorem unmarshalPolygonAlloc_ok {o : Order} {d : Bytes} {rs : List (List (Pt UInt64))}
    (h : unmarshalPolygon o d = .ok rs) : unmarshalPolygonAlloc o d ≤ 7 * d.length := by
  unfold unmarshalPolygon at h
  split at h
  · contradiction
  · have hc := unmarshalPolygon_loop_count _ h
    unfold unmarshalPolygonAlloc
    simp only [lenLt_eq, decide_eq_true_eq, szSlice, wkb_MaxMultiAlloc]
    split
    · omega
    · have := (allocCap_le' (rd32 o d) 100).2
      have := unmarshalPolygonAlloc_loop_le o (rd32 o d) (d.drop 4)
      simp only [List.length_drop] at this hc
      omega

theorem unmarshalPolygonAlloc_loop_ok {o : Order} (n : Nat) :
    ∀ {d : Bytes} {rs : List (List (Pt UInt64))}, unmarshalPolygon.loop o n d = .ok rs →
      unmarshalPolygonAlloc.loop o n d ≤ 16 * (rs.map List.length).sum := by
  induction n with
  | zero => intro d rs _; simp only [unmarshalPolygonAlloc.loop]; exact Nat.zero_le _
  | succ n ih =>
    intro d rs h
    simp only [unmarshalPolygon.loop] at h
    simp only [unmarshalPolygonAlloc.loop]
    split at h
    · rename_i ps hps
      have hb := unmarshalPointsAlloc_ok hps
      split at h
      · rename_i rest hrest
        split at h
        · rename_i rs' hrs'
          injection h with h
          subst h
          have := ih hrs'
          simp only [hps, hrest, List.map_cons, List.sum_cons]
          omega
        all_goals contradiction
      all_goals contradiction
    all_goals contradiction

/-- a succeeding polygon decode requested at most 6 bytes per byte of its re-derived stride -/
theorem unmarshalPolygonAlloc_stride {o : Order} {d : Bytes} {rs : List (List (Pt UInt64))}
    (h : unmarshalPolygon o d = .ok rs) : unmarshalPolygonAlloc o d ≤ 6 * polyStride rs := by
  unfold unmarshalPolygon at h
  split at h
  · contradiction
  · have hn := (unmarshalPolygon_loop_ok _ h).1
    have hl := unmarshalPolygonAlloc_loop_ok _ h
    unfold unmarshalPolygonAlloc
    simp only [lenLt_eq, decide_eq_true_eq, szSlice]
    split
    · exact Nat.zero_le _
    · have := (allocCap_le' (rd32 o d) wkb_MaxMultiAlloc).2
      have hs : (rs.map fun r => 4 + 16 * r.length).sum = 16 * (rs.map List.length).sum + 4 * rs.length := by
        clear h hn hl
        induction rs with
        | nil => simp
        | cons r rs ih => simp only [List.map_cons, List.sum_cons, List.length_cons, ih]; omega
      unfold polyStride
      omega

/-! ### the member loop and the multi decoders, generically -/

/-- the member loop: `c` bytes per input byte plus, once, what a failing scan may request -/
theorem memberLoopAlloc_lin {β : Type} (scan : Bytes → R (β × Nat)) (scanAlloc : Bytes → Nat) (stride : β → Nat)
    (c K : Nat)
    (hF : ∀ d, scanAlloc d ≤ c * d.length + K)
    (hS : ∀ d x s, scan d = .ok (x, s) → scanAlloc d ≤ c * stride x) (n : Nat) :
    ∀ e : Bytes, memberLoopAlloc scan scanAlloc stride n e ≤ c * e.length + K := by
  induction n with
  | zero => intro e; simp only [memberLoopAlloc]; exact Nat.zero_le _
  | succ n ih =>
    intro e
    simp only [memberLoopAlloc]
    have hf := hF e
    split
    · rename_i x s hx
      have hs := hS _ _ _ hx
      split
      · rename_i rest hrest
        have hl := sliceFrom_len hrest
        have := ih rest
        rw [← hl, Nat.mul_add]
        omega
      · omega
    · omega

theorem scanMemberAlloc_F (tS : Nat) (singleAlloc : Order → Bytes → Nat) (c K : Nat)
    (H1 : ∀ o d, singleAlloc o d ≤ c * d.length + K) (d : Bytes) :
    scanMemberAlloc tS singleAlloc d ≤ c * d.length + K := by
  unfold scanMemberAlloc
  split
  · rename_i o typ srid gd hb
    have hl := (unmarshalBOT_len hb).1
    split
    · exact Nat.zero_le _
    · have := H1 o gd
      have : c * gd.length ≤ c * d.length := Nat.mul_le_mul_left c (by omega)
      omega
  · exact Nat.zero_le _

theorem scanMemberAlloc_S {β : Type} (tS : Nat) (single : Order → Bytes → R β)
    (singleAlloc : Order → Bytes → Nat) (stride : β → Nat) (c : Nat)
    (H2 : ∀ o d x, single o d = .ok x → singleAlloc o d ≤ c * stride x)
    (d : Bytes) (x : β) (s : Nat) (h : scanMember tS single d = .ok (x, s)) :
    scanMemberAlloc tS singleAlloc d ≤ c * stride x := by
  unfold scanMember at h
  unfold scanMemberAlloc
  split at h
  · rename_i o typ srid gd hb
    rw [hb]
    simp only []
    split at h
    · contradiction
    · rename_i ht
      rw [if_neg ht]
      split at h
      · rename_i p hp
        injection h with h; injection h with h _; subst h
        exact H2 _ _ _ hp
      all_goals contradiction
  all_goals contradiction

/-- a multi decoder, every outcome: its own capped `make`, `c` bytes per input byte for the members
    that were skipped over, and what the last, failing member may request -/
theorem unmarshalMultiFAlloc_lin {β : Type} (sz tS : Nat) (single : Order → Bytes → R β)
    (singleAlloc : Order → Bytes → Nat) (stride : β → Nat) (c K : Nat)
    (H1 : ∀ o d, singleAlloc o d ≤ c * d.length + K)
    (H2 : ∀ o d x, single o d = .ok x → singleAlloc o d ≤ c * stride x) (o : Order) (d : Bytes) :
    unmarshalMultiFAlloc sz tS single singleAlloc stride o d ≤ sz * wkb_MaxMultiAlloc + c * d.length + K := by
  unfold unmarshalMultiFAlloc
  simp only [lenLt_eq, decide_eq_true_eq]
  split
  · exact Nat.zero_le _
  · have hLA := memberLoopAlloc_lin (scanMember tS single) (scanMemberAlloc tS singleAlloc) stride c K
      (scanMemberAlloc_F tS singleAlloc c K H1) (scanMemberAlloc_S tS single singleAlloc stride c H2)
      (rd32 o d) (d.drop 4)
    have hc : sz * allocCap (rd32 o d) wkb_MaxMultiAlloc ≤ sz * wkb_MaxMultiAlloc :=
      Nat.mul_le_mul_left sz (allocCap_le' _ _).1
    have : c * (d.drop 4).length ≤ c * d.length := Nat.mul_le_mul_left c (by simp only [List.length_drop]; omega)
    omega

/-! ### the three instantiations -/

theorem unmarshalMultiPointAlloc_le (o : Order) (d : Bytes) : unmarshalMultiPointAlloc o d ≤ 1600 := by
  have := unmarshalMultiFAlloc_lin szPoint wkb_pointType unmarshalPoint (fun _ _ => 0) (fun _ => 21) 0 0
    (fun _ _ => Nat.zero_le _) (fun _ _ _ _ => Nat.zero_le _) o d
  simp only [szPoint, wkb_MaxMultiAlloc] at this
  unfold unmarshalMultiPointAlloc
  simp only [szPoint]
  omega

theorem unmarshalMultiLineStringAlloc_le (o : Order) (d : Bytes) :
    unmarshalMultiLineStringAlloc o d ≤ d.length + 2400 := by
  have := unmarshalMultiFAlloc_lin szSlice wkb_lineStringType unmarshalPoints unmarshalPointsAlloc
    (fun ls => 16 * ls.length + 9) 1 0
    (fun o d => by have := unmarshalPointsAlloc_le o d; omega)
    (fun o d x h => by have := unmarshalPointsAlloc_ok h; omega) o d
  simp only [szSlice, wkb_MaxMultiAlloc] at this
  unfold unmarshalMultiLineStringAlloc
  simp only [szSlice]
  omega

theorem unmarshalMultiPolygonAlloc_le (o : Order) (d : Bytes) :
    unmarshalMultiPolygonAlloc o d ≤ 6 * d.length + 4800 := by
  have := unmarshalMultiFAlloc_lin szSlice wkb_polygonType unmarshalPolygon unmarshalPolygonAlloc polyStride 6 2400
    (fun o d => by have := unmarshalPolygonAlloc_le o d; omega)
    (fun o d x h => unmarshalPolygonAlloc_stride h) o d
  simp only [szSlice, wkb_MaxMultiAlloc] at this
  unfold unmarshalMultiPolygonAlloc
  simp only [szSlice]
  omega

/-- `ScanPoint` / `ScanLineString` / `ScanPolygon`: the plain decoder or the multi decoder -/
theorem scanSingleAlloc_lin (tS tM : Nat) (singleAlloc multiAlloc : Order → Bytes → Nat) (c K : Nat)
    (H1 : ∀ o d, singleAlloc o d ≤ c * d.length + K)
    (hM : ∀ o d, multiAlloc o d ≤ c * d.length + K) (d : Bytes) :
    scanSingleAlloc tS tM singleAlloc multiAlloc d ≤ c * d.length + K := by
  unfold scanSingleAlloc
  split
  · rename_i o typ srid gd hb
    have hl := (unmarshalBOT_len hb).1
    have : c * gd.length ≤ c * d.length := Nat.mul_le_mul_left c (by omega)
    split
    · have := H1 o gd; omega
    · split
      · have := hM o gd; omega
      · exact Nat.zero_le _
  · exact Nat.zero_le _

theorem allocFixed_eq : allocFixed = 164808 := by decide

/-- `Unmarshal`: every input, every outcome -/
theorem unmarshalAlloc_le' (bs : Bytes) : unmarshalAlloc bs ≤ allocPerByte * bs.length + allocFixed := by
  unfold unmarshalAlloc
  rw [allocFixed_eq]
  unfold allocPerByte
  split
  · rename_i o typ srid gd hb
    have hl := (unmarshalBOT_len hb).1
    split
    · omega
    · split
      · have := unmarshalMultiPointAlloc_le o gd; omega
      · split
        · have := unmarshalPointsAlloc_le o gd; omega
        · split
          · have := unmarshalMultiLineStringAlloc_le o gd; omega
          · split
            · have := unmarshalPolygonAlloc_le o gd; omega
            · split
              · have := unmarshalMultiPolygonAlloc_le o gd; omega
              · split
                · have := decodeAlloc_le' bs
                  rw [allocFixed_eq] at this
                  unfold allocPerByte at this
                  exact this
                · omega
  · omega

/-- `wkbcommon.Scan` into any destination, after the framing has been removed -/
theorem scanDestAlloc_le' (d : Dest) (bs : Bytes) :
    scanDestAlloc d bs ≤ allocPerByte * bs.length + allocFixed := by
  have hu := unmarshalAlloc_le' bs
  have hd := decodeAlloc_le' bs
  rw [allocFixed_eq] at hu hd ⊢
  unfold allocPerByte at hu hd ⊢
  cases d <;> simp only [scanDestAlloc]
  case any => exact hu
  case multiPoint => exact hu
  case ring => exact hu
  case bound => exact hu
  case collection => exact hd
  case point =>
    have := scanSingleAlloc_lin wkb_pointType wkb_multiPointType (fun _ _ => 0) unmarshalMultiPointAlloc 0 1600
      (fun _ _ => Nat.zero_le _) (fun o d => by have := unmarshalMultiPointAlloc_le o d; omega) bs
    omega
  case lineString =>
    have := scanSingleAlloc_lin wkb_lineStringType wkb_multiLineStringType unmarshalPointsAlloc
      unmarshalMultiLineStringAlloc 1 2400
      (fun o d => by have := unmarshalPointsAlloc_le o d; omega)
      (fun o d => by have := unmarshalMultiLineStringAlloc_le o d; omega) bs
    omega
  case multiLineString =>
    have := scanSingleAlloc_lin wkb_lineStringType wkb_multiLineStringType unmarshalPointsAlloc
      unmarshalMultiLineStringAlloc 1 2400
      (fun o d => by have := unmarshalPointsAlloc_le o d; omega)
      (fun o d => by have := unmarshalMultiLineStringAlloc_le o d; omega) bs
    omega
  case polygon =>
    have := scanSingleAlloc_lin wkb_polygonType wkb_multiPolygonType unmarshalPolygonAlloc
      unmarshalMultiPolygonAlloc 6 4800
      (fun o d => by have := unmarshalPolygonAlloc_le o d; omega)
      (fun o d => by have := unmarshalMultiPolygonAlloc_le o d; omega) bs
    omega
  case multiPolygon =>
    have := scanSingleAlloc_lin wkb_polygonType wkb_multiPolygonType unmarshalPolygonAlloc
      unmarshalMultiPolygonAlloc 6 4800
      (fun o d => by have := unmarshalPolygonAlloc_le o d; omega)
      (fun o d => by have := unmarshalMultiPolygonAlloc_le o d; omega) bs
    omega

end Orb.WKB
