/-
  C05 allocation accounting, byte-slice path (`Unmarshal`, the unmarshal* / Scan* functions):
  linear for every top-level type except the three multis, whose member scans recurse into nested
  one-member multis and re-derive the stride: there the bound is quadratic (and `C05AllocLower`
  shows that it cannot be improved to the property's linear bound).
-/
import OrbProofs.C05AllocStream

namespace Orb.WKB
open Orb Generated.Params

/-- bytes per input byte in the linear term of the quadratic bound -/
def allocQuadLin : Nat := 300

/-! ### arithmetic of the quadratic envelope -/

/-- `Λ m = m² + 300 m + 2400` -/
def allocLam (m : Nat) : Nat := m * m + 300 * m + 2400

theorem allocLam_mono {a b : Nat} (h : a ≤ b) : allocLam a ≤ allocLam b := by
  unfold allocLam
  have := Nat.mul_le_mul h h
  omega

theorem allocLam_shift (n : Nat) : allocLam (n + 9) = allocLam n + 18 * n + 2781 := by
  unfold allocLam
  have : (n + 9) * (n + 9) = n * n + 18 * n + 81 := by
    rw [Nat.add_mul, Nat.mul_add]; omega
  omega

theorem allocLam_step {a m : Nat} (h : a + 9 ≤ m) : 7 * m + allocLam a ≤ allocLam m := by
  obtain ⟨n, rfl⟩ : ∃ n, m = n + 9 := ⟨m - 9, by omega⟩
  have h1 : allocLam a ≤ allocLam n := allocLam_mono (by omega)
  have := allocLam_shift n
  omega

theorem allocLam_step2 {a m : Nat} (h : a + 9 ≤ m) : 2400 + allocLam a ≤ allocLam m := by
  obtain ⟨n, rfl⟩ : ∃ n, m = n + 9 := ⟨m - 9, by omega⟩
  have h1 : allocLam a ≤ allocLam n := allocLam_mono (by omega)
  have := allocLam_shift n
  omega

theorem allocLam_lin (m : Nat) : m + 2400 ≤ allocLam m := by
  unfold allocLam; omega

/-! ### leaves -/

theorem unmarshalPointsAlloc_le (o : Order) (d : Bytes) : unmarshalPointsAlloc o d ≤ d.length := by
  unfold unmarshalPointsAlloc
  simp only [lenLt_eq, decide_eq_true_eq, szPoint, wkb_MaxPointsAlloc]
  split
  · omega
  · split
    · omega
    · rename_i h1 h2
      have := (allocCap_le' (rd32 o d) 10000).2
      simp only [List.length_drop] at h2
      omega

theorem unmarshalPointsAlloc_ok {o : Order} {d : Bytes} {ps : List (Pt UInt64)}
    (h : unmarshalPoints o d = .ok ps) : unmarshalPointsAlloc o d ≤ 16 * ps.length := by
  unfold unmarshalPoints at h
  split at h
  · contradiction
  · simp only [] at h
    split at h
    · contradiction
    · injection h with h
      subst h
      rw [readPts_length]
      unfold unmarshalPointsAlloc
      simp only [lenLt_eq, decide_eq_true_eq, szPoint, wkb_MaxPointsAlloc]
      have := (allocCap_le' (rd32 o d) 10000).2
      repeat' split
      all_goals omega

theorem unmarshalPolygonAlloc_loop_le (o : Order) (n : Nat) :
    ∀ d : Bytes, unmarshalPolygonAlloc.loop o n d ≤ d.length := by
  induction n with
  | zero => intro d; simp only [unmarshalPolygonAlloc.loop]; omega
  | succ n ih =>
    intro d
    simp only [unmarshalPolygonAlloc.loop]
    have ha := unmarshalPointsAlloc_le o d
    split
    · rename_i ps hps
      have hb := unmarshalPointsAlloc_ok hps
      split
      · rename_i rest hrest
        have := sliceFrom_len hrest
        have := ih rest
        omega
      · omega
    · omega

theorem unmarshalPolygonAlloc_le (o : Order) (d : Bytes) : unmarshalPolygonAlloc o d ≤ d.length + 2400 := by
  unfold unmarshalPolygonAlloc
  simp only [lenLt_eq, decide_eq_true_eq, szSlice, wkb_MaxMultiAlloc]
  split
  · omega
  · have := (allocCap_le' (rd32 o d) 100).1
    have := unmarshalPolygonAlloc_loop_le o (rd32 o d) (d.drop 4)
    simp only [List.length_drop] at this
    omega

theorem unmarshalPolygon_loop_count {o : Order} (n : Nat) : ∀ {d : Bytes} {rs : List (List (Pt UInt64))},
    unmarshalPolygon.loop o n d = .ok rs → 4 * n ≤ d.length := by
  induction n with
  | zero => intro d rs _; omega
  | succ n ih =>
    intro d rs h
    simp only [unmarshalPolygon.loop] at h
    split at h
    · rename_i ps hps
      split at h
      · rename_i rest hrest
        split at h
        · rename_i rs' hrs'
          have := ih hrs'
          have := sliceFrom_len hrest
          omega
        all_goals contradiction
      all_goals contradiction
    all_goals contradiction

theorem unmarshalPolygonAlloc_ok {o : Order} {d : Bytes} {rs : List (List (Pt UInt64))}
    (h : unmarshalPolygon o d = .ok rs) : unmarshalPolygonAlloc o d ≤ 7 * d.length := by
  unfold unmarshalPolygon at h
  split at h
  · contradiction
  · have hc := unmarshalPolygon_loop_count _ h
    unfold unmarshalPolygonAlloc
    simp only [lenLt_eq, decide_eq_true_eq, szSlice, wkb_MaxMultiAlloc]
    split
    · omega
    · have := (allocCap_le' (rd32 o d) 100).2
      have := unmarshalPolygonAlloc_loop_le o (rd32 o d) (d.drop 4)
      simp only [List.length_drop] at this hc
      omega

/-! ### the member loop and the scan / multi pair, generically -/

theorem memberLoop_length {β : Type} (scan : Bytes → R (β × Nat)) (stride : β → Nat) (n : Nat) :
    ∀ {data : Bytes} {xs : List β}, memberLoop scan stride n data = .ok xs → xs.length = n := by
  induction n with
  | zero =>
    intro data xs h
    simp only [memberLoop] at h
    injection h with h; subst h; rfl
  | succ n ih =>
    intro data xs h
    simp only [memberLoop] at h
    split at h
    · split at h
      · split at h
        · rename_i xs' hxs'
          injection h with h
          subst h
          have := ih hxs'
          simp only [List.length_cons]; omega
        all_goals contradiction
      all_goals contradiction
    all_goals contradiction

/-- the member loop stays under the envelope when every scan does and a succeeding scan is cheap -/
theorem memberLoopAlloc_le {β : Type} (scan : Bytes → R (β × Nat)) (scanAlloc : Bytes → Nat) (stride : β → Nat)
    (hQ : ∀ d, scanAlloc d ≤ allocLam d.length)
    (hS : ∀ d x s, scan d = .ok (x, s) → scanAlloc d ≤ 7 * d.length)
    (H3 : ∀ x, 9 ≤ stride x) (n : Nat) :
    ∀ e : Bytes, memberLoopAlloc scan scanAlloc stride n e ≤ allocLam e.length := by
  induction n with
  | zero => intro e; simp only [memberLoopAlloc]; unfold allocLam; omega
  | succ n ih =>
    intro e
    simp only [memberLoopAlloc]
    have hq := hQ e
    split
    · rename_i x s hx
      have hs := hS _ _ _ hx
      split
      · rename_i rest hrest
        have hl := sliceFrom_len hrest
        have h3 := H3 x
        have := ih rest
        have := @allocLam_step rest.length e.length (by omega)
        omega
      · omega
    · omega

/-- Q2: a scan stays under the envelope when its multi decoder does -/
theorem scanSingleAlloc_le (tS tM : Nat) (singleAlloc multiAlloc : Order → Bytes → Nat)
    (H1 : ∀ o d, singleAlloc o d ≤ d.length + 2400)
    (hM : ∀ o d, multiAlloc o d ≤ allocLam (d.length + 5)) (d : Bytes) :
    scanSingleAlloc tS tM singleAlloc multiAlloc d ≤ allocLam d.length := by
  unfold scanSingleAlloc
  split
  · rename_i o typ srid gd hb
    have hl := (unmarshalBOT_len hb).1
    split
    · have := H1 o gd
      have := allocLam_lin d.length
      omega
    · split
      · have := hM o gd
        have := @allocLam_mono (gd.length + 5) d.length hl
        omega
      · omega
  · omega

section generic
variable {β : Type} (sz tS tM : Nat) (single : Order → Bytes → R β)
  (singleAlloc : Order → Bytes → Nat) (stride : β → Nat)

/-- S, one level: a succeeding scan is cheap when a succeeding one-member multi is -/
theorem scanSingleAlloc_ok (multi : Order → Bytes → R (List β)) (multiAlloc : Order → Bytes → Nat)
    (H2 : ∀ o d x, single o d = .ok x → singleAlloc o d ≤ 7 * d.length)
    (hM : ∀ o d p, multi o d = .ok [p] → multiAlloc o d ≤ 7 * d.length)
    (d : Bytes) (x : β) (s : Nat) (h : scanSingle tS tM single multi d = .ok (x, s)) :
    scanSingleAlloc tS tM singleAlloc multiAlloc d ≤ 7 * d.length := by
  unfold scanSingle at h
  unfold scanSingleAlloc
  split at h
  · rename_i o typ srid gd hb
    have hl := (unmarshalBOT_len hb).1
    rw [hb]
    simp only []
    split at h
    · rename_i ht
      rw [if_pos ht]
      split at h
      · rename_i p hp
        have := H2 _ _ _ hp
        omega
      all_goals contradiction
    · rename_i ht
      rw [if_neg ht]
      split at h
      · rename_i ht2
        rw [if_pos ht2]
        split at h
        · rename_i p hp
          have := hM _ _ _ hp
          omega
        all_goals contradiction
      · contradiction
  all_goals contradiction

/-- S, the multi side: a one-member multi costs its `make` plus the member's scan -/
theorem unmarshalMultiFAlloc_ok (hsz : sz ≤ 24)
    (H2 : ∀ o d x, single o d = .ok x → singleAlloc o d ≤ 7 * d.length) (f : Nat) :
    ∀ (o : Order) (d : Bytes) (p : β), unmarshalMultiF tS tM single stride f o d = .ok [p] →
      unmarshalMultiFAlloc sz tS tM single singleAlloc stride f o d ≤ 7 * d.length := by
  induction f with
  | zero => intro o d p _; simp only [unmarshalMultiFAlloc]; omega
  | succ f ih =>
    intro o d p h
    simp only [unmarshalMultiF] at h
    simp only [unmarshalMultiFAlloc, lenLt_eq, decide_eq_true_eq, wkb_MaxMultiAlloc]
    split at h
    · contradiction
    · rename_i h4
      rw [if_neg h4]
      have hn := memberLoop_length _ _ _ h
      simp only [List.length_cons, List.length_nil] at hn
      rw [← hn] at h ⊢
      simp only [memberLoop] at h
      simp only [memberLoopAlloc]
      split at h
      · rename_i x s hx
        have hS := scanSingleAlloc_ok tS tM single singleAlloc _
          (unmarshalMultiFAlloc sz tS tM single singleAlloc stride f) H2 ih _ _ _ hx
        split at h
        · rename_i rest hrest
          simp only [hx, hrest]
          simp only [List.length_drop] at hS
          have := (allocCap_le' (0 + 1) 100).2
          have : sz * allocCap (0 + 1) 100 ≤ 24 := by
            calc sz * allocCap (0 + 1) 100 ≤ 24 * 1 := Nat.mul_le_mul hsz this
              _ = 24 := rfl
          omega
        all_goals contradiction
      all_goals contradiction

/-- S: a succeeding scan of a member costs at most 7 bytes per input byte -/
theorem scanSingleFAlloc_ok (hsz : sz ≤ 24)
    (H2 : ∀ o d x, single o d = .ok x → singleAlloc o d ≤ 7 * d.length) (f : Nat)
    (d : Bytes) (x : β) (s : Nat)
    (h : scanSingle tS tM single (unmarshalMultiF tS tM single stride f) d = .ok (x, s)) :
    scanSingleAlloc tS tM singleAlloc (unmarshalMultiFAlloc sz tS tM single singleAlloc stride f) d
      ≤ 7 * d.length :=
  scanSingleAlloc_ok tS tM single singleAlloc _ _ H2
    (unmarshalMultiFAlloc_ok sz tS tM single singleAlloc stride hsz H2 f) d x s h

/-- Q1: every outcome of a multi decoder stays under the envelope of its frame -/
theorem unmarshalMultiFAlloc_le (hsz : sz ≤ 24)
    (H1 : ∀ o d, singleAlloc o d ≤ d.length + 2400)
    (H2 : ∀ o d x, single o d = .ok x → singleAlloc o d ≤ 7 * d.length)
    (H3 : ∀ x, 9 ≤ stride x) (f : Nat) :
    ∀ (o : Order) (d : Bytes),
      unmarshalMultiFAlloc sz tS tM single singleAlloc stride f o d ≤ allocLam (d.length + 5) := by
  induction f with
  | zero => intro o d; simp only [unmarshalMultiFAlloc]; unfold allocLam; omega
  | succ f ih =>
    intro o d
    simp only [unmarshalMultiFAlloc, lenLt_eq, decide_eq_true_eq, wkb_MaxMultiAlloc]
    split
    · unfold allocLam; omega
    · rename_i h4
      have hLA := memberLoopAlloc_le
        (scanSingle tS tM single (unmarshalMultiF tS tM single stride f))
        (scanSingleAlloc tS tM singleAlloc (unmarshalMultiFAlloc sz tS tM single singleAlloc stride f))
        stride
        (scanSingleAlloc_le tS tM singleAlloc _ H1 ih)
        (scanSingleFAlloc_ok sz tS tM single singleAlloc stride hsz H2 f)
        H3 (rd32 o d) (d.drop 4)
      simp only [List.length_drop] at hLA
      have hc := (allocCap_le' (rd32 o d) 100).1
      have : sz * allocCap (rd32 o d) 100 ≤ 2400 := by
        calc sz * allocCap (rd32 o d) 100 ≤ 24 * 100 := Nat.mul_le_mul hsz hc
          _ = 2400 := rfl
      have := @allocLam_step2 (d.length - 4) (d.length + 5) (by omega)
      omega

/-- Q2 at any fuel -/
theorem scanSingleFAlloc_le (hsz : sz ≤ 24)
    (H1 : ∀ o d, singleAlloc o d ≤ d.length + 2400)
    (H2 : ∀ o d x, single o d = .ok x → singleAlloc o d ≤ 7 * d.length)
    (H3 : ∀ x, 9 ≤ stride x) (f : Nat) (d : Bytes) :
    scanSingleAlloc tS tM singleAlloc (unmarshalMultiFAlloc sz tS tM single singleAlloc stride f) d
      ≤ allocLam d.length :=
  scanSingleAlloc_le tS tM singleAlloc _ H1
    (unmarshalMultiFAlloc_le sz tS tM single singleAlloc stride hsz H1 H2 H3 f) d

end generic

/-! ### the three instantiations -/

theorem polyStride_ge (p : List (List (Pt UInt64))) : 9 ≤ polyStride p := by
  unfold polyStride; omega

theorem unmarshalMultiPointAlloc_le (f : Nat) (o : Order) (d : Bytes) :
    unmarshalMultiPointAlloc f o d ≤ allocLam (d.length + 5) :=
  unmarshalMultiFAlloc_le szPoint wkb_pointType wkb_multiPointType unmarshalPoint (fun _ _ => 0) (fun _ => 21)
    (by decide) (fun _ _ => Nat.zero_le _) (fun _ _ _ _ => Nat.zero_le _) (fun _ => by decide) f o d

theorem unmarshalMultiLineStringAlloc_le (f : Nat) (o : Order) (d : Bytes) :
    unmarshalMultiLineStringAlloc f o d ≤ allocLam (d.length + 5) :=
  unmarshalMultiFAlloc_le szSlice wkb_lineStringType wkb_multiLineStringType unmarshalPoints unmarshalPointsAlloc
    (fun ls => 16 * ls.length + 9)
    (by decide) (fun o d => by have := unmarshalPointsAlloc_le o d; omega)
    (fun o d _ _ => by have := unmarshalPointsAlloc_le o d; omega) (fun _ => by omega) f o d

theorem unmarshalMultiPolygonAlloc_le (f : Nat) (o : Order) (d : Bytes) :
    unmarshalMultiPolygonAlloc f o d ≤ allocLam (d.length + 5) :=
  unmarshalMultiFAlloc_le szSlice wkb_polygonType wkb_multiPolygonType unmarshalPolygon unmarshalPolygonAlloc
    polyStride
    (by decide) unmarshalPolygonAlloc_le (fun _ _ _ h => unmarshalPolygonAlloc_ok h) polyStride_ge f o d

theorem scanPointAlloc_le (f : Nat) (d : Bytes) :
    scanSingleAlloc wkb_pointType wkb_multiPointType (fun _ _ => 0) (unmarshalMultiPointAlloc f) d
      ≤ allocLam d.length :=
  scanSingleAlloc_le _ _ _ _ (fun _ _ => Nat.zero_le _) (unmarshalMultiPointAlloc_le f) d

theorem scanLineStringAlloc_le (f : Nat) (d : Bytes) :
    scanSingleAlloc wkb_lineStringType wkb_multiLineStringType unmarshalPointsAlloc
      (unmarshalMultiLineStringAlloc f) d ≤ allocLam d.length :=
  scanSingleAlloc_le _ _ _ _ (fun o d => by have := unmarshalPointsAlloc_le o d; omega)
    (unmarshalMultiLineStringAlloc_le f) d

theorem scanPolygonAlloc_le (f : Nat) (d : Bytes) :
    scanSingleAlloc wkb_polygonType wkb_multiPolygonType unmarshalPolygonAlloc
      (unmarshalMultiPolygonAlloc f) d ≤ allocLam d.length :=
  scanSingleAlloc_le _ _ _ _ unmarshalPolygonAlloc_le (unmarshalMultiPolygonAlloc_le f) d

theorem allocFixed_eq : allocFixed = 164808 := by decide

theorem allocLam_le_quad (m : Nat) : allocLam m ≤ m * m + allocQuadLin * m + allocFixed := by
  rw [allocFixed_eq]; unfold allocLam allocQuadLin; omega

theorem allocLin_le_quad (m : Nat) :
    allocPerByte * m + allocFixed ≤ m * m + allocQuadLin * m + allocFixed := by
  unfold allocPerByte allocQuadLin; omega

/-- the non-multi part of `Unmarshal`: linear -/
theorem unmarshalAlloc_cases (bs : Bytes) :
    unmarshalAlloc bs ≤ allocPerByte * bs.length + allocFixed ∨
    ((∃ o typ srid gd, unmarshalBOT bs = .ok (o, typ, srid, gd) ∧
        (typ = wkb_multiPointType ∨ typ = wkb_multiLineStringType ∨ typ = wkb_multiPolygonType)) ∧
      unmarshalAlloc bs ≤ allocLam bs.length) := by
  unfold unmarshalAlloc
  split
  · rename_i o typ srid gd hb
    have hl := (unmarshalBOT_len hb).1
    have hmono := @allocLam_mono (gd.length + 5) bs.length hl
    simp only []
    rw [allocFixed_eq]
    unfold allocPerByte
    split
    · left; omega
    · split
      · rename_i ht
        right
        exact ⟨⟨o, typ, srid, gd, hb, Or.inl ht⟩, Nat.le_trans (unmarshalMultiPointAlloc_le _ o gd) hmono⟩
      · split
        · left
          have := unmarshalPointsAlloc_le o gd
          omega
        · split
          · rename_i ht
            right
            exact ⟨⟨o, typ, srid, gd, hb, Or.inr (Or.inl ht)⟩,
              Nat.le_trans (unmarshalMultiLineStringAlloc_le _ o gd) hmono⟩
          · split
            · left
              have := unmarshalPolygonAlloc_le o gd
              omega
            · split
              · rename_i ht
                right
                exact ⟨⟨o, typ, srid, gd, hb, Or.inr (Or.inr ht)⟩,
                  Nat.le_trans (unmarshalMultiPolygonAlloc_le _ o gd) hmono⟩
              · split
                · left
                  have := decodeAlloc_le' bs
                  rw [allocFixed_eq] at this
                  unfold allocPerByte at this
                  exact this
                · left; omega
  · left; omega

/-- every input, every outcome -/
theorem unmarshalAlloc_quadratic' (bs : Bytes) :
    unmarshalAlloc bs ≤ bs.length * bs.length + allocQuadLin * bs.length + allocFixed := by
  rcases unmarshalAlloc_cases bs with h | ⟨_, h⟩
  · exact Nat.le_trans h (allocLin_le_quad _)
  · exact Nat.le_trans h (allocLam_le_quad _)

/-- the property's linear bound, for every input whose top-level type is not one of the three multis
    (point, line string, polygon, collection, unknown types, unreadable headers) -/
theorem unmarshalAlloc_le_of_not_multi' (bs : Bytes)
    (h : ∀ o typ srid gd, unmarshalBOT bs = .ok (o, typ, srid, gd) →
      typ ≠ wkb_multiPointType ∧ typ ≠ wkb_multiLineStringType ∧ typ ≠ wkb_multiPolygonType) :
    unmarshalAlloc bs ≤ allocPerByte * bs.length + allocFixed := by
  rcases unmarshalAlloc_cases bs with h' | ⟨⟨o, typ, srid, gd, hb, ht⟩, _⟩
  · exact h'
  · have := h o typ srid gd hb
    rcases ht with ht | ht | ht
    · exact absurd ht this.1
    · exact absurd ht this.2.1
    · exact absurd ht this.2.2

/-- `wkbcommon.Scan` into any destination, after the framing has been removed -/
theorem scanDestAlloc_quadratic' (d : Dest) (bs : Bytes) :
    scanDestAlloc d bs ≤ bs.length * bs.length + allocQuadLin * bs.length + allocFixed := by
  cases d <;> simp only [scanDestAlloc]
  case any => exact unmarshalAlloc_quadratic' bs
  case multiPoint => exact unmarshalAlloc_quadratic' bs
  case ring => exact unmarshalAlloc_quadratic' bs
  case bound => exact unmarshalAlloc_quadratic' bs
  case point => exact Nat.le_trans (scanPointAlloc_le _ bs) (allocLam_le_quad _)
  case lineString => exact Nat.le_trans (scanLineStringAlloc_le _ bs) (allocLam_le_quad _)
  case multiLineString => exact Nat.le_trans (scanLineStringAlloc_le _ bs) (allocLam_le_quad _)
  case polygon => exact Nat.le_trans (scanPolygonAlloc_le _ bs) (allocLam_le_quad _)
  case multiPolygon => exact Nat.le_trans (scanPolygonAlloc_le _ bs) (allocLam_le_quad _)
  case collection => exact Nat.le_trans (decodeAlloc_le' bs) (allocLin_le_quad _)

end Orb.WKB
