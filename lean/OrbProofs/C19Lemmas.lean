/-
  Helper lemmas for C19.  The primed statements are re-exported by OrbProofs/C19.lean.
-/
import Orb.Conc
import Generated.Writes

namespace Orb.C19
open Orb.Conc

theorem step_tree {T S : Type} (f : T → S → S) (s : Sys T S) (i : Nat) : (step f s i).tree = s.tree := rfl

theorem schedule_independent' {T S : Type} (f : T → S → S) (s : Sys T S) (σ : List Nat) :
    (run f s σ).tree = s.tree ∧ ∀ i, (run f s σ).st i = iter (f s.tree) (σ.count i) (s.st i) := by
  induction σ generalizing s with
  | nil => exact ⟨rfl, fun i => by simp [run, iter]⟩
  | cons j rest ih =>
    obtain ⟨ht, hs⟩ := ih (step f s j)
    refine ⟨by simpa [run, step_tree] using ht, fun i => ?_⟩
    have h := hs i
    simp only [run]
    rw [h, step_tree]
    by_cases hji : j = i
    · subst hji
      simp [step, List.count_cons_self, iter]
    · have : i ≠ j := fun h => hji h.symm
      simp [step, this, List.count_cons_of_ne hji]

/-- answering all remaining queries -/
theorem iter_answer {T Q A : Type} (answer : T → Q → A) (t : T) (qs : List Q) (done : List A) (n : Nat)
    (h : qs.length ≤ n) :
    iter (answerStep answer t) n ⟨qs, done⟩ = ⟨[], done ++ qs.map (answer t)⟩ := by
  induction n generalizing qs done with
  | zero =>
    have : qs = [] := List.length_eq_zero_iff.mp (Nat.le_zero.mp h)
    subst this
    simp [iter]
  | succ n ih =>
    cases qs with
    | nil =>
      simp only [iter, answerStep]
      have := ih [] done (Nat.zero_le _)
      simpa using this
    | cons q rest =>
      simp only [iter, answerStep]
      have := ih rest (done ++ [answer t q]) (by simpa using h)
      simpa [List.append_assoc] using this

theorem concurrent_answers_eq_sequential' {T Q A : Type} (answer : T → Q → A) (t : T) (qs : Nat → List Q)
    (σ : List Nat) (i : Nat) (h : (qs i).length ≤ σ.count i) :
    ((run (answerStep answer) ⟨t, fun j => ⟨qs j, []⟩⟩ σ).st i).done = (qs i).map (answer t) ∧
    (run (answerStep answer) ⟨t, fun j => ⟨qs j, []⟩⟩ σ).tree = t := by
  obtain ⟨ht, hs⟩ := schedule_independent' (answerStep answer) ⟨t, fun j => ⟨qs j, []⟩⟩ σ
  refine ⟨?_, ht⟩
  rw [hs i]
  simp only
  rw [iter_answer answer t (qs i) [] _ h]
  simp

/-! ### steps that may write the shared structure -/

theorem schedule_independent_W' {T S : Type} (P : S → Prop) (f : T → S → T × S) (hf : FrameOn P f)
    (s : Sys T S) (hP : ∀ i, P (s.st i)) (σ : List Nat) :
    (runW f s σ).tree = s.tree ∧
    (∀ i, (runW f s σ).st i = iter (fun x => (f s.tree x).2) (σ.count i) (s.st i)) ∧
    ∀ i, P ((runW f s σ).st i) := by
  induction σ generalizing s with
  | nil => exact ⟨rfl, fun i => by simp [runW, iter], hP⟩
  | cons j rest ih =>
    obtain ⟨h1, h2⟩ := hf s.tree (s.st j) (hP j)
    have htree : (stepW f s j).tree = s.tree := h1
    have hP' : ∀ i, P ((stepW f s j).st i) := by
      intro i
      by_cases hij : i = j
      · subst hij; simpa [stepW] using h2
      · simpa [stepW, hij] using hP i
    obtain ⟨ht, hs, hp⟩ := ih (stepW f s j) hP'
    refine ⟨by simpa [runW, htree] using ht, fun i => ?_, fun i => by simpa [runW] using hp i⟩
    have h := hs i
    simp only [runW]
    rw [h, htree]
    by_cases hji : j = i
    · subst hji
      simp [stepW, List.count_cons_self, iter]
    · have : i ≠ j := fun h => hji h.symm
      simp [stepW, this, List.count_cons_of_ne hji]

/-- what a thread ends with is what it ends with when the SAME number of its steps run alone -/
theorem same_as_alone' {T S : Type} (P : S → Prop) (f : T → S → T × S) (hf : FrameOn P f)
    (s : Sys T S) (hP : ∀ i, P (s.st i)) (σ : List Nat) (i : Nat) :
    (runW f s σ).st i = (runW f s (List.replicate (σ.count i) i)).st i := by
  obtain ⟨_, h1, _⟩ := schedule_independent_W' P f hf s hP σ
  obtain ⟨_, h2, _⟩ := schedule_independent_W' P f hf s hP (List.replicate (σ.count i) i)
  rw [h1 i, h2 i, List.count_replicate_self]

/-- instructions that all land in private memory satisfy the frame condition, at instruction
    granularity -/
theorem instr_frame_of {Sh Pr : Type} (Q : Instr Sh Pr → Prop) (hQ : ∀ ins, Q ins → ins.target = .priv) :
    FrameOn (fun th : Thread Sh Pr => ∀ ins ∈ th.prog, Q ins) instrStep := by
  intro sh th hth
  cases hprog : th.prog with
  | nil =>
    refine ⟨by simp [instrStep, hprog], ?_⟩
    simp [instrStep, hprog]
  | cons ins rest =>
    have hin : ins ∈ th.prog := by simp [hprog]
    have hpriv := hQ ins (hth ins hin)
    refine ⟨by simp [instrStep, hprog, Instr.exec, hpriv], ?_⟩
    intro ins' hins'
    have : ins' ∈ rest := by simpa [instrStep, hprog] using hins'
    exact hth ins' (by simp [hprog, this])

end Orb.C19
