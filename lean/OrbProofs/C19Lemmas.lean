/-
  Helper lemmas for C19.  The primed statements are re-exported by OrbProofs/C19.lean.
-/
import Orb.Conc
import Generated.Writes

namespace Orb.C19
open Orb.Conc

theorem step_tree {T S : Type} (f : T → S → S) (s : Sys T S) (i : Nat) : (step f s i).tree = s.tree := rfl

theorem schedule_independent' {T S : Type} (f : T → S → S) (s : Sys T S) (σ : List Nat) :
    (run f s σ).tree = s.tree ∧ ∀ i, (run f s σ).st i = iter (f s.tree) (σ.count i) (s.st i) := by
  induction σ generalizing s with
  | nil => exact ⟨rfl, fun i => by simp [run, iter]⟩
  | cons j rest ih =>
    obtain ⟨ht, hs⟩ := ih (step f s j)
    refine ⟨by simpa [run, step_tree] using ht, fun i => ?_⟩
    have h := hs i
    simp only [run]
    rw [h, step_tree]
    by_cases hji : j = i
    · subst hji
      simp [step, List.count_cons_self, iter]
    · have : i ≠ j := fun h => hji h.symm
      simp [step, this, List.count_cons_of_ne hji]

/-- answering all remaining queries -/
theorem iter_answer {T Q A : Type} (answer : T → Q → A) (t : T) (qs : List Q) (done : List A) (n : Nat)
    (h : qs.length ≤ n) :
    iter (answerStep answer t) n ⟨qs, done⟩ = ⟨[], done ++ qs.map (answer t)⟩ := by
  induction n generalizing qs done with
  | zero =>
    have : qs = [] := List.length_eq_zero_iff.mp (Nat.le_zero.mp h)
    subst this
    simp [iter]
  | succ n ih =>
    cases qs with
    | nil =>
      simp only [iter, answerStep]
      have := ih [] done (Nat.zero_le _)
      simpa using this
    | cons q rest =>
      simp only [iter, answerStep]
      have := ih rest (done ++ [answer t q]) (by simpa using h)
      simpa [List.append_assoc] using this

theorem concurrent_answers_eq_sequential' {T Q A : Type} (answer : T → Q → A) (t : T) (qs : Nat → List Q)
    (σ : List Nat) (i : Nat) (h : (qs i).length ≤ σ.count i) :
    ((run (answerStep answer) ⟨t, fun j => ⟨qs j, []⟩⟩ σ).st i).done = (qs i).map (answer t) ∧
    (run (answerStep answer) ⟨t, fun j => ⟨qs j, []⟩⟩ σ).tree = t := by
  obtain ⟨ht, hs⟩ := schedule_independent' (answerStep answer) ⟨t, fun j => ⟨qs j, []⟩⟩ σ
  refine ⟨?_, ht⟩
  rw [hs i]
  simp only
  rw [iter_answer answer t (qs i) [] _ h]
  simp

end Orb.C19
