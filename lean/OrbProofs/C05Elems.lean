/-
  C05: a successfully decoded value holds no more ELEMENTS than the input paid for: 16 bytes per point
  and at least 4 bytes per ring, line, polygon and collection member (whatever counts the input claims).
-/
import OrbProofs.C05Lemmas

namespace Orb.WKB
open Orb Generated.Params

/-- number of slice elements of a geometry value that are not points: lines of a multi line string,
    rings of a polygon, polygons of a multi polygon and their rings, members of a collection (deep) -/
def memberCount : G → Nat
  | .point _ | .multiPoint _ | .lineString _ | .ring _ | .bound _ _ => 0
  | .multiLineString ls | .polygon ls => ls.length
  | .multiPolygon ps => ps.length + (ps.map List.length).sum
  | .collection gs => mcList gs
where
  mcList : List G → Nat
    | [] => 0
    | g :: gs => 1 + memberCount g + mcList gs

section elemHelpers

theorem sum_lin16 (c : Nat) (ls : List (List (Pt UInt64))) :
    (ls.map fun l => 16 * l.length + c).sum = 16 * (ls.map List.length).sum + c * ls.length := by
  induction ls with
  | nil => simp
  | cons l ls ih =>
    simp only [List.map_cons, List.sum_cons, List.length_cons, ih, Nat.mul_add, Nat.mul_one]; omega

theorem sum_lin16' (ls : List (List (Pt UInt64))) :
    (ls.map fun l => 4 + 16 * l.length).sum = 16 * (ls.map List.length).sum + 4 * ls.length := by
  induction ls with
  | nil => simp
  | cons l ls ih =>
    simp only [List.map_cons, List.sum_cons, List.length_cons, ih]; omega

theorem sum_polyStride (ps : List (List (List (Pt UInt64)))) :
    (ps.map polyStride).sum =
      16 * (ps.map fun p => (p.map List.length).sum).sum + 4 * (ps.map List.length).sum + 9 * ps.length := by
  induction ps with
  | nil => simp
  | cons p ps ih =>
    have := sum_lin16' p
    simp only [List.map_cons, List.sum_cons, List.length_cons, ih, polyStride, this]; omega

theorem sum_polyElems (ps : List (List (List (Pt UInt64)))) :
    (ps.map fun p => 16 * (p.map List.length).sum + 4 * p.length + 4).sum =
      16 * (ps.map fun p => (p.map List.length).sum).sum + 4 * (ps.map List.length).sum + 4 * ps.length := by
  induction ps with
  | nil => simp
  | cons p ps ih =>
    simp only [List.map_cons, List.sum_cons, List.length_cons, ih]; omega

theorem sum_const16 {α : Type} (xs : List α) : (xs.map fun _ => 16).sum = 16 * xs.length := by
  induction xs with
  | nil => rfl
  | cons x xs ih => simp only [List.map_cons, List.sum_cons, List.length_cons, ih]; omega

/-! ### stream path -/

theorem readRingsLoop_elems {o : Order} (n : Nat) : ∀ {s r : Bytes} {rs : List (List (Pt UInt64))},
    readRingsLoop o n s = .ok (rs, r) →
      16 * (rs.map List.length).sum + 4 * rs.length + r.length ≤ s.length := by
  induction n with
  | zero =>
    intro s r rs h
    simp only [readRingsLoop] at h
    injection h with h; injection h with h1 h2; subst h1; subst h2; simp
  | succ n ih =>
    intro s r rs h
    simp only [readRingsLoop] at h
    split at h
    · rename_i hp
      split at h
      · rename_i hps
        injection h with h; injection h with h1 h2; subst h1; subst h2
        have := ih hps
        have := readLineString_len hp
        simp only [List.map_cons, List.sum_cons, List.length_cons]; omega
      all_goals contradiction
    all_goals contradiction

theorem readPolygon_elems {o : Order} {s r : Bytes} {rs : List (List (Pt UInt64))}
    (h : readPolygon o s = .ok (rs, r)) :
    16 * (rs.map List.length).sum + 4 * rs.length + r.length + 4 ≤ s.length := by
  unfold readPolygon at h
  split at h
  · rename_i hn
    have := readU32_len hn
    have := readRingsLoop_elems _ h
    omega
  all_goals contradiction

theorem decodeWith_elems (coll : Order → Bytes → R (List G × Bytes))
    (hcoll : ∀ o s gs r, coll o s = .ok (gs, r) →
      16 * pointCount.pcList gs + 4 * memberCount.mcList gs + r.length ≤ s.length)
    {s r : Bytes} {g : G} {srid : Nat} (h : decodeWith coll s = .ok (g, srid, r)) :
    16 * pointCount g + 4 * memberCount g + 5 + r.length ≤ s.length := by
  unfold decodeWith at h
  split at h
  · rename_i hb
    have hl := readBOT_len hb
    split at h
    · -- point
      split at h
      · rename_i hp
        injection h with h; injection h with h1 h; injection h with _ h; subst h1; subst h
        have := readPoint_len hp
        simp only [pointCount, memberCount]; omega
      all_goals contradiction
    · split at h
      · -- multiPoint
        split at h
        · rename_i hn
          split at h
          · rename_i hm
            injection h with h; injection h with h1 h; injection h with _ h; subst h1; subst h
            have h1 := readMembers_len (fun _ => 16) _ _
              (fun _ _ _ _ hx => by have := readPoint_len hx; omega) _ hm
            rw [sum_const16] at h1
            have := readU32_len hn
            simp only [pointCount, memberCount]; omega
          all_goals contradiction
        all_goals contradiction
      · split at h
        · -- lineString
          split at h
          · rename_i hp
            injection h with h; injection h with h1 h; injection h with _ h; subst h1; subst h
            have := readLineString_len hp
            simp only [pointCount, memberCount]; omega
          all_goals contradiction
        · split at h
          · -- multiLineString
            split at h
            · rename_i hn
              split at h
              · rename_i hm
                injection h with h; injection h with h1 h; injection h with _ h; subst h1; subst h
                have h1 := readMembers_len (fun l : List (Pt UInt64) => 16 * l.length + 4) _ _
                  (fun _ _ _ _ hx => by have := readLineString_len hx; omega) _ hm
                rw [sum_lin16] at h1
                have := readU32_len hn
                simp only [pointCount, memberCount]; omega
              all_goals contradiction
            all_goals contradiction
          · split at h
            · -- polygon
              split at h
              · rename_i hp
                injection h with h; injection h with h1 h; injection h with _ h; subst h1; subst h
                have := readPolygon_elems hp
                simp only [pointCount, memberCount]; omega
              all_goals contradiction
            · split at h
              · -- multiPolygon
                split at h
                · rename_i hn
                  split at h
                  · rename_i hm
                    injection h with h; injection h with h1 h; injection h with _ h; subst h1; subst h
                    have h1 := readMembers_len
                      (fun p : List (List (Pt UInt64)) => 16 * (p.map List.length).sum + 4 * p.length + 4) _ _
                      (fun _ _ _ _ hx => by have := readPolygon_elems hx; omega) _ hm
                    rw [sum_polyElems] at h1
                    have := readU32_len hn
                    simp only [pointCount, memberCount]; omega
                  all_goals contradiction
                all_goals contradiction
              · split at h
                · -- collection
                  split at h
                  · rename_i hc
                    injection h with h; injection h with h1 h; injection h with _ h; subst h1; subst h
                    have := hcoll _ _ _ _ hc
                    simp only [pointCount, memberCount]; omega
                  all_goals contradiction
                · contradiction
  all_goals contradiction

theorem readCollectionF_elems (fuel : Nat) : ∀ (o : Order) (s : Bytes) (gs : List G) (r : Bytes),
    readCollectionF fuel o s = .ok (gs, r) →
      16 * pointCount.pcList gs + 4 * memberCount.mcList gs + r.length ≤ s.length := by
  induction fuel with
  | zero => intro o s gs r h; simp only [readCollectionF] at h; contradiction
  | succ fuel ih =>
    intro o s gs r h
    simp only [readCollectionF] at h
    split at h
    · rename_i hn
      have := readU32_len hn
      have := collLoop_len (fun g => 16 * pointCount g + 4 * memberCount g + 4)
        (fun gs => 16 * pointCount.pcList gs + 4 * memberCount.mcList gs) rfl
        (fun g gs => by simp only [pointCount.pcList, memberCount.mcList]; omega) _
        (fun t g sr r hd => by have := decodeWith_elems _ ih hd; omega) _ h
      omega
    all_goals contradiction

theorem decode_elems_aux {bs : Bytes} {g : G} {s : Nat} (h : decode bs = .ok (g, s)) :
    16 * pointCount g + 4 * memberCount g ≤ bs.length := by
  unfold decode at h
  split at h
  · rename_i hd
    injection h with h; injection h with h _; subst h
    have := decodeWith_elems _ (readCollectionF_elems _) hd
    omega
  all_goals contradiction

end elemHelpers

theorem unmarshal_elems_le' (bs : Bytes) (g : G) (s : Nat) (h : unmarshal bs = .ok (g, s)) :
    16 * pointCount g + 4 * memberCount g ≤ bs.length := by
  unfold unmarshal at h
  split at h
  · rename_i o typ srid' gd hb
    have hl := unmarshalBOT_len hb
    simp only [] at h
    split at h
    · -- point
      split at h
      · rename_i hm
        injection h with h; injection h with h h'; subst h; subst h'
        have := unmarshalPoint_len hm
        simp only [pointCount, memberCount]; omega
      all_goals contradiction
    · split at h
      · -- multiPoint
        split at h
        · rename_i hm
          injection h with h; injection h with h h'; subst h; subst h'
          have h1 := unmarshalMultiF_len _ _ _ _ _ _ hm
          have h2 := sum_map_le16 (fun _ => 1) (fun _ : Pt UInt64 => 21) ‹_› (fun _ => by simp)
          rw [sum_map_one] at h2
          simp only [pointCount, memberCount]; omega
        all_goals contradiction
      · split at h
        · -- lineString
          split at h
          · rename_i hm
            injection h with h; injection h with h h'; subst h; subst h'
            have := unmarshalPoints_len hm
            simp only [pointCount, memberCount]; omega
          all_goals contradiction
        · split at h
          · -- multiLineString
            split at h
            · rename_i hm
              injection h with h; injection h with h h'; subst h; subst h'
              have h1 := unmarshalMultiF_len _ _ _ _ _ _ hm
              rw [sum_lin16] at h1
              simp only [pointCount, memberCount]; omega
            all_goals contradiction
          · split at h
            · -- polygon
              split at h
              · rename_i hm
                injection h with h; injection h with h h'; subst h; subst h'
                have h1 := unmarshalPolygon_len hm
                unfold polyStride at h1
                rw [sum_lin16'] at h1
                simp only [pointCount, memberCount]; omega
              all_goals contradiction
            · split at h
              · -- multiPolygon
                split at h
                · rename_i hm
                  injection h with h; injection h with h h'; subst h; subst h'
                  have h1 := unmarshalMultiF_len _ _ _ _ _ _ hm
                  rw [sum_polyStride] at h1
                  simp only [pointCount, memberCount]; omega
                all_goals contradiction
              · split at h
                · -- collection
                  split at h
                  · rename_i hd
                    injection h with h; injection h with h h'; subst h; subst h'
                    exact decode_elems_aux hd
                  all_goals contradiction
                · contradiction
  all_goals contradiction

theorem decode_elems_le' (bs : Bytes) (g : G) (s : Nat) (h : decode bs = .ok (g, s)) :
    16 * pointCount g + 4 * memberCount g ≤ bs.length :=
  decode_elems_aux h

end Orb.WKB
