/-
  C12 lemmas: the typed entry points (`runSimplify` in front of every simplifier), the exact
  keep/drop rule of `polygon` / `multiPolygon`, the generic entry point by induction over `Geom`,
  Visvalingam's default counts, and the additions of Orb/SimplifyExt.lean (parametrised Visvalingam,
  nil members, mvt layers).  The primed statements are re-exported by OrbProofs/C12.lean.
-/
import OrbProofs.C12Wrap
import Orb.SimplifyExt

namespace Orb.Simplify
open Orb

/-! ### vocabulary -/

/-- `polygon`'s rule on the simplified rings: the first ring always stays, every other ring stays iff it
    has more than 2 points -/
def keepRings {α : Type} (rs : List (List (Pt α))) : List (List (Pt α)) :=
  match rs with
  | [] => []
  | r0 :: rest => r0 :: rest.filter (fun r => decide (2 < r.length))

/-- `multiPolygon`'s rule on the simplified polygons: a polygon stays iff it has a first ring with more
    than 2 points -/
def keepPolys {α : Type} (ps : List (List (List (Pt α)))) : List (List (List (Pt α))) :=
  ps.filter fun p =>
    match p with
    | [] => false
    | r0 :: _ => decide (2 < r0.length)

/-- the type switch's "empty ⇒ nil interface" rule -/
def wrapO {α β : Type} (mk : List β → Geom α) (l : List β) : OGeom α :=
  if l.length = 0 then .nil else .geom (mk l)

/-- `collection` + the type switch: no member left ⇒ nil interface -/
def wrapColl {α : Type} (o : List (OGeom α)) : OGeom α := if o.length = 0 then .nil else .coll o

/-- What the generic `Simplify` returns for a value, member by member.  `L area inp out` is the relation
    between a member vertex list and its result (`area = true` for rings); every input ring / line has
    a result, and WHICH of them appear in the output is fixed by `keepRings` / `keepPolys`; EVERY member
    `i[k]` of a collection has a result `l[k]`, and the output holds exactly the non-nil ones, in order. -/
inductive ValidOut {α : Type} (L : Bool → List (Pt α) → List (Pt α) → Prop) : Geom α → OGeom α → Prop
  | point (p : Pt α) : ValidOut L (.point p) (.geom (.point p))
  | multiPoint (ps : List (Pt α)) : ValidOut L (.multiPoint ps) (.geom (.multiPoint ps))
  | bound (a b : Pt α) : ValidOut L (.bound a b) (.geom (.bound a b))
  | lineString (i o : List (Pt α)) : L false i o → ValidOut L (.lineString i) (wrapO .lineString o)
  | ring (i o : List (Pt α)) : L true i o → ValidOut L (.ring i) (wrapO .ring o)
  | multiLineString (i o : List (List (Pt α))) : List.Forall₂ (L false) i o →
      ValidOut L (.multiLineString i) (wrapO .multiLineString o)
  | polygon (i rs : List (List (Pt α))) : List.Forall₂ (L true) i rs →
      ValidOut L (.polygon i) (wrapO .polygon (keepRings rs))
  | multiPolygon (i pss : List (List (List (Pt α)))) : List.Forall₂ (List.Forall₂ (L true)) i pss →
      ValidOut L (.multiPolygon i) (wrapO .multiPolygon (keepPolys (pss.map keepRings)))
  | collection (i : List (Geom α)) (l : List (OGeom α)) : i.length = l.length →
      (∀ p ∈ i.zip l, ValidOut L p.1 p.2) →
      ValidOut L (.collection i) (wrapColl (l.filter fun g => !g.isNil))

/-- the member relation of a simplifier: the result of `runSimplify`, which is a valid simplification -/
def RunRel {α : Type} (s : Simplifier α) (area : Bool) (inp out : List (Pt α)) : Prop :=
  runSimplify s inp area = .ok out ∧ ValidLine inp out

/-- structural induction for the nested inductive `OGeom` -/
theorem OGeom.ind' {α : Type} {motive : OGeom α → Prop}
    (h1 : motive .nil) (h2 : ∀ g, motive (.geom g))
    (hc : ∀ gs, (∀ g ∈ gs, motive g) → motive (.coll gs)) : ∀ g, motive g := by
  intro g
  refine OGeom.rec (motive_1 := motive) (motive_2 := fun gs => ∀ g ∈ gs, motive g)
    h1 h2 hc ?_ ?_ g
  · intro g hg; cases hg
  · intro head tail hh ht g hg
    rcases List.mem_cons.1 hg with rfl | hg
    · exact hh
    · exact ht g hg

section anyArithmetic
variable {α : Type} [Add α] [Sub α] [Mul α] [Div α] [Neg α] [LT α] [LE α] [DecidableLT α] [DecidableLE α] [BEq α] [OfNat α 0] [OfNat α 1] [OfNat α 2]

/-! ### Visvalingam's default counts, exactly -/

omit [Add α] [Sub α] [Mul α] [Div α] [Neg α] [LT α] [LE α] [DecidableLT α] [DecidableLE α] [OfNat α 1] [OfNat α 2] in
theorem closed_iff_ptEq (ls : List (Pt α)) (hne : ls ≠ []) :
    Closed ls ↔ Core.ptEq (ls.getD 0 ⟨0, 0⟩) (ls.getD (ls.length - 1) ⟨0, 0⟩) = true := by
  have hpos : 0 < ls.length := List.length_pos_iff.2 hne
  have hh : ls.head? = some (ls.getD 0 ⟨0, 0⟩) := by
    cases ls with
    | nil => exact absurd rfl hne
    | cons a t => simp
  have hl : ls.getLast? = some (ls.getD (ls.length - 1) ⟨0, 0⟩) := by
    rw [List.getLast?_eq_getElem?]
    rw [List.getD_eq_getElem?_getD, List.getElem?_eq_getElem (by omega)]
    simp
  constructor
  · rintro ⟨a, b, ha, hb, hab⟩
    rw [hh] at ha; rw [hl] at hb
    injection ha with ha; injection hb with hb
    rw [ha, hb]; exact hab
  · intro h
    exact ⟨_, _, hh, hl, h⟩

theorem vis_default_counts_exact' (ls : List (Pt α)) :
    visToKeep 0 ls false = 2 ∧
    (ls ≠ [] → (Closed ls → visToKeep 0 ls true = 4) ∧ (¬ Closed ls → visToKeep 0 ls true = 3)) ∧
    (visToKeep 0 ls true = 3 ∨ visToKeep 0 ls true = 4) ∧
    ∀ k, k ≠ 0 → ∀ area, visToKeep k ls area = k := by
  refine ⟨(vis_default_counts' ls).1, ?_, (vis_default_counts' ls).2.1, (vis_default_counts' ls).2.2⟩
  intro hne
  have hc := closed_iff_ptEq ls hne
  constructor
  · intro h
    have := hc.1 h
    unfold visToKeep
    rw [if_pos rfl, if_pos rfl, if_pos this]; rfl
  · intro h
    have : ¬ Core.ptEq (ls.getD 0 ⟨0, 0⟩) (ls.getD (ls.length - 1) ⟨0, 0⟩) = true := fun h' => h (hc.2 h')
    unfold visToKeep
    rw [if_pos rfl, if_pos rfl, if_neg this]; rfl

/-! ### the seven clauses across `runSimplify` (hence for `lineString` / `ring`, the typed entry points) -/

omit [Add α] [Sub α] [Mul α] [Div α] [Neg α] [LT α] [LE α] [DecidableLT α] [DecidableLE α] [BEq α]
  [OfNat α 0] [OfNat α 1] [OfNat α 2] in
theorem runSimplify_cases (s : Simplifier α) (ls out : List (Pt α)) (area : Bool)
    (h : runSimplify s ls area = .ok out) :
    (ls.length ≤ 2 ∧ out = ls) ∨ (2 < ls.length ∧ s ls area = .ok out) := by
  unfold runSimplify at h
  split at h
  · rename_i hl
    injection h with h
    exact Or.inl ⟨hl, h.symm⟩
  · rename_i hl
    exact Or.inr ⟨by omega, h⟩

omit [Add α] [Sub α] [Mul α] [Div α] [Neg α] [LT α] [LE α] [DecidableLT α] [DecidableLE α] [BEq α]
  [OfNat α 0] [OfNat α 1] [OfNat α 2] in
theorem adjacent_dropLast_short {β : Type} (l : List β) (hl : l.length ≤ 2) (a b : β) :
    ¬ Adjacent l.dropLast a b := by
  rintro ⟨l1, l2, h⟩
  have := congrArg List.length h
  simp at this
  omega

theorem radial_spacing_run' (df : Pt α → Pt α → α) (t : α) (ls out : List (Pt α)) (area : Bool)
    (h : runSimplify (radialS df t) ls area = .ok out) :
    ∀ a b, Adjacent out.dropLast a b → t < df a b := by
  rcases runSimplify_cases _ ls out area h with ⟨hl, rfl⟩ | ⟨_, hs⟩
  · intro a b hab
    exact absurd hab (adjacent_dropLast_short _ hl a b)
  · exact radial_spacing' df t ls out hs

theorem vis_min_count_run' (thr : Option α) (toKeep : Nat) (ls out : List (Pt α)) (area : Bool)
    (h : runSimplify (visS thr toKeep) ls area = .ok out) :
    min ls.length (visToKeep toKeep ls area) ≤ out.length := by
  rcases runSimplify_cases _ ls out area h with ⟨_, rfl⟩ | ⟨_, hs⟩
  · exact Nat.min_le_left _ _
  · exact vis_min_count' thr toKeep ls out area hs

theorem vis_keep_exact_run' (toKeep : Nat) (ls out : List (Pt α)) (area : Bool)
    (h : runSimplify (visS none toKeep) ls area = .ok out) (h2 : 2 ≤ visToKeep toKeep ls area)
    (hk : visToKeep toKeep ls area < ls.length) :
    out.length = visToKeep toKeep ls area := by
  rcases runSimplify_cases _ ls out area h with ⟨hl, _⟩ | ⟨_, hs⟩
  · omega
  · exact vis_keep_exact' toKeep ls out area hs hk

/-- rings through the typed entry point with the DEFAULT count: a closed ring keeps at least 4 vertices,
    an open ring at least 3 (or all of them if it has fewer) -/
theorem vis_ring_default_min' (thr : Option α) (ls out : List (Pt α))
    (h : ring (visS thr 0) ls = .ok out) :
    (Closed ls → min ls.length 4 ≤ out.length) ∧ (¬ Closed ls → min ls.length 3 ≤ out.length) := by
  have hm := vis_min_count_run' thr 0 ls out true h
  by_cases hne : ls = []
  · subst hne; simp
  · obtain ⟨h4, h3⟩ := (vis_default_counts_exact' ls).2.1 hne
    constructor
    · intro hc; rw [h4 hc] at hm; exact hm
    · intro hc; rw [h3 hc] at hm; exact hm

theorem vis_line_default_min' (thr : Option α) (ls out : List (Pt α))
    (h : lineString (visS thr 0) ls = .ok out) : min ls.length 2 ≤ out.length := by
  have hm := vis_min_count_run' thr 0 ls out false h
  rw [(vis_default_counts_exact' ls).1] at hm
  exact hm

/-! ### `multiLineString`, `polygon`, `multiPolygon`: every member is run, and exactly which results stay -/

omit [Add α] [Sub α] [Mul α] [Div α] [Neg α] [LT α] [LE α] [DecidableLT α] [DecidableLE α] [BEq α]
  [OfNat α 0] [OfNat α 1] [OfNat α 2] in
theorem multiLineString_exact' (s : Simplifier α) (mls out : List (List (Pt α)))
    (h : multiLineString s mls = .ok out) :
    List.Forall₂ (fun l l' => runSimplify s l false = .ok l') mls out := by
  induction mls generalizing out with
  | nil =>
    simp only [multiLineString] at h
    injection h with h; subst h; exact List.Forall₂.nil
  | cons l rest ih =>
    simp only [multiLineString] at h
    split at h
    · rename_i l' hl
      split at h
      · rename_i rest' hr
        injection h with h; subst h
        exact List.Forall₂.cons hl (ih rest' hr)
      · cases h
      · cases h
    · cases h
    · cases h

omit [Add α] [Sub α] [Mul α] [Div α] [Neg α] [LT α] [LE α] [DecidableLT α] [DecidableLE α] [BEq α]
  [OfNat α 0] [OfNat α 1] [OfNat α 2] in
theorem polygonFrom_succ_exact (s : Simplifier α) :
    ∀ (p : List (List (Pt α))) (i : Nat) (out : List (List (Pt α))),
      polygonFrom s (i + 1) p = .ok out →
      ∃ rs, List.Forall₂ (fun r r' => runSimplify s r true = .ok r') p rs ∧
        out = rs.filter (fun r => decide (2 < r.length)) := by
  intro p
  induction p with
  | nil =>
    intro i out h
    simp only [polygonFrom] at h
    injection h with h; subst h
    exact ⟨[], List.Forall₂.nil, rfl⟩
  | cons r rest ih =>
    intro i out h
    simp only [polygonFrom] at h
    split at h
    · rename_i r' hr
      split at h
      · rename_i rest' hrest
        obtain ⟨rs, hk1, hk2⟩ := ih (i + 1) rest' hrest
        split at h
        · rename_i hc
          injection h with h; subst h
          refine ⟨r' :: rs, List.Forall₂.cons hr hk1, ?_⟩
          have : ¬ 2 < r'.length := by omega
          simp [this, hk2]
        · rename_i hc
          injection h with h; subst h
          refine ⟨r' :: rs, List.Forall₂.cons hr hk1, ?_⟩
          have : 2 < r'.length := by
            by_contra h2
            exact hc ⟨by omega, by omega⟩
          simp [this, hk2]
      · cases h
      · cases h
    · cases h
    · cases h

omit [Add α] [Sub α] [Mul α] [Div α] [Neg α] [LT α] [LE α] [DecidableLT α] [DecidableLE α] [BEq α]
  [OfNat α 0] [OfNat α 1] [OfNat α 2] in
/-- `polygon`: EVERY ring is run through `runSimplify`; the output is exactly the results with the
    first ring and every later ring of more than 2 points, in order (kept ⇔ i = 0 ∨ 2 < len). -/
theorem polygon_exact' (s : Simplifier α) (p out : List (List (Pt α))) (h : polygon s p = .ok out) :
    ∃ rs, List.Forall₂ (fun r r' => runSimplify s r true = .ok r') p rs ∧ out = keepRings rs := by
  unfold polygon at h
  cases p with
  | nil =>
    simp only [polygonFrom] at h
    injection h with h; subst h
    exact ⟨[], List.Forall₂.nil, rfl⟩
  | cons r rest =>
    simp only [polygonFrom] at h
    split at h
    · rename_i r' hr
      split at h
      · rename_i rest' hrest
        obtain ⟨rs, hk1, hk2⟩ := polygonFrom_succ_exact s rest 0 rest' hrest
        simp only [ne_eq, not_true_eq_false, false_and, if_false] at h
        injection h with h; subst h
        exact ⟨r' :: rs, List.Forall₂.cons hr hk1, by simp [keepRings, hk2]⟩
      · cases h
      · cases h
    · cases h
    · cases h

omit [Add α] [Sub α] [Mul α] [Div α] [Neg α] [LT α] [LE α] [DecidableLT α] [DecidableLE α] [BEq α]
  [OfNat α 0] [OfNat α 1] [OfNat α 2] in
/-- `multiPolygon`: EVERY polygon is run through `polygon`; the output is exactly the results that have
    a first ring of more than 2 points, in order. -/
theorem multiPolygon_exact' (s : Simplifier α) (mp out : List (List (List (Pt α))))
    (h : multiPolygon s mp = .ok out) :
    ∃ ps, List.Forall₂ (fun p p' => polygon s p = .ok p') mp ps ∧ out = keepPolys ps := by
  induction mp generalizing out with
  | nil =>
    simp only [multiPolygon] at h
    injection h with h; subst h
    exact ⟨[], List.Forall₂.nil, rfl⟩
  | cons p rest ih =>
    simp only [multiPolygon] at h
    split at h
    · rename_i p' hp
      split at h
      · rename_i rest' hrest
        obtain ⟨ps, hk1, hk2⟩ := ih rest' hrest
        split at h
        · injection h with h; subst h
          exact ⟨[] :: ps, List.Forall₂.cons hp hk1, by simp [keepPolys, hk2]⟩
        · rename_i r0 tl
          split at h
          · rename_i hc
            injection h with h; subst h
            refine ⟨(r0 :: tl) :: ps, List.Forall₂.cons hp hk1, ?_⟩
            have : ¬ 2 < r0.length := by omega
            simp [keepPolys, this, hk2]
          · rename_i hc
            injection h with h; subst h
            refine ⟨(r0 :: tl) :: ps, List.Forall₂.cons hp hk1, ?_⟩
            have : 2 < r0.length := by omega
            simp [keepPolys, this, hk2]
      · cases h
      · cases h
    · cases h
    · cases h

omit [Add α] [Sub α] [Mul α] [Div α] [Neg α] [LT α] [LE α] [DecidableLT α] [DecidableLE α] [BEq α]
  [OfNat α 0] [OfNat α 1] [OfNat α 2] in
theorem mem_keepRings_tail (r0 r : List (Pt α)) (rest : List (List (Pt α))) :
    r ∈ (keepRings (r0 :: rest)).tail ↔ r ∈ rest ∧ 2 < r.length := by
  simp [keepRings, List.mem_filter]

/-! ### the generic entry point, by induction over `Geom` -/

omit [Add α] [Sub α] [Mul α] [Div α] [Neg α] [LT α] [LE α] [DecidableLT α] [DecidableLE α] [BEq α]
  [OfNat α 0] [OfNat α 1] [OfNat α 2] in
theorem wrapLen_ok_eq {β : Type} (mk : List β → Geom α) (l : List β) :
    wrapLen mk (.ok l) = .ok (wrapO mk l) := by
  simp only [wrapLen, wrapO]
  split <;> rfl

omit [Add α] [Sub α] [Mul α] [Div α] [Neg α] [LT α] [LE α] [DecidableLT α] [DecidableLE α] [BEq α]
  [OfNat α 0] [OfNat α 1] [OfNat α 2] in
theorem wrapLen_eq_ok {β : Type} (mk : List β → Geom α) (r : R (List β)) (o : OGeom α)
    (h : wrapLen mk r = .ok o) : ∃ l, r = .ok l ∧ o = wrapO mk l := by
  cases r with
  | ok l =>
    rw [wrapLen_ok_eq] at h
    injection h with h
    exact ⟨l, rfl, h.symm⟩
  | err e => simp [wrapLen] at h
  | panic w => simp [wrapLen] at h

omit [Add α] [Sub α] [Mul α] [Div α] [Neg α] [LT α] [LE α] [DecidableLT α] [DecidableLE α] [BEq α]
  [OfNat α 0] [OfNat α 1] [OfNat α 2] in
theorem go_ok (s : Simplifier α) : ∀ (gs : List (Geom α)) (o : List (OGeom α)),
    simplifyG.go s gs = .ok o → ∃ l, gs.length = l.length ∧ (∀ p ∈ gs.zip l, simplifyG s p.1 = .ok p.2) ∧
      o = l.filter (fun g => !g.isNil) := by
  intro gs
  induction gs with
  | nil =>
    intro o h
    simp only [simplifyG.go] at h
    injection h with h; subst h
    exact ⟨[], rfl, by simp, rfl⟩
  | cons g rest ih =>
    intro o h
    simp only [simplifyG.go] at h
    split at h
    · rename_i g' hg
      split at h
      · rename_i rest' hrest
        obtain ⟨l, h1, h2, h3⟩ := ih rest' hrest
        have hmem : ∀ p ∈ (g :: rest).zip (g' :: l), simplifyG s p.1 = .ok p.2 := by
          intro p hp
          simp only [List.zip_cons_cons, List.mem_cons] at hp
          rcases hp with rfl | hp
          · exact hg
          · exact h2 p hp
        refine ⟨g' :: l, by simp [h1], hmem, ?_⟩
        by_cases hn : g'.isNil = true
        · rw [if_pos hn] at h
          injection h with h; subst h
          simp [List.filter_cons, hn, h3]
        · rw [if_neg hn] at h
          injection h with h; subst h
          simp [List.filter_cons, hn, h3]
      · cases h
      · cases h
    · cases h
    · cases h

omit [Add α] [Sub α] [Mul α] [Div α] [Neg α] [LT α] [LE α] [DecidableLT α] [DecidableLE α] [BEq α]
  [OfNat α 0] [OfNat α 1] [OfNat α 2] in
theorem forall₂_runRel (s : Simplifier α) (hs : GoodS s) (area : Bool) (i o : List (List (Pt α)))
    (h : List.Forall₂ (fun l l' => runSimplify s l area = .ok l') i o) : List.Forall₂ (RunRel s area) i o := by
  induction h with
  | nil => exact List.Forall₂.nil
  | cons h1 _ ih => exact List.Forall₂.cons ⟨h1, runSimplify_good s hs _ _ area h1⟩ ih

omit [Add α] [Sub α] [Mul α] [Div α] [Neg α] [LT α] [LE α] [DecidableLT α] [DecidableLE α] [BEq α]
  [OfNat α 0] [OfNat α 1] [OfNat α 2] in
theorem forall₂_polygon (s : Simplifier α) (hs : GoodS s) (mp ps : List (List (List (Pt α))))
    (h : List.Forall₂ (fun p p' => polygon s p = .ok p') mp ps) :
    ∃ pss, List.Forall₂ (List.Forall₂ (RunRel s true)) mp pss ∧ ps = pss.map keepRings := by
  induction h with
  | nil => exact ⟨[], List.Forall₂.nil, rfl⟩
  | cons h1 _ ih =>
    obtain ⟨pss, h2, h3⟩ := ih
    obtain ⟨rs, hr1, hr2⟩ := polygon_exact' s _ _ h1
    exact ⟨rs :: pss, List.Forall₂.cons (forall₂_runRel s hs true _ _ hr1) h2, by simp [hr2, h3]⟩

omit [Add α] [Sub α] [Mul α] [Div α] [Neg α] [LT α] [LE α] [DecidableLT α] [DecidableLE α] [BEq α]
  [OfNat α 0] [OfNat α 1] [OfNat α 2] in
/-- The generic `Simplify`, every kind, any collection depth: every member vertex list goes through
    `runSimplify` and comes back as a valid simplification; rings and polygons stay or vanish exactly by
    the ≤ 2-point rules; empty results become nil interfaces. -/
theorem simplifyG_good' (s : Simplifier α) (hs : GoodS s) :
    ∀ (g : Geom α) (o : OGeom α), simplifyG s g = .ok o → ValidOut (RunRel s) g o := by
  apply Geom.ind'
  · intro p o h
    simp only [simplifyG] at h; injection h with h; subst h; exact ValidOut.point p
  · intro ps o h
    simp only [simplifyG] at h; injection h with h; subst h; exact ValidOut.multiPoint ps
  · intro ls o h
    simp only [simplifyG] at h
    obtain ⟨l, hl, rfl⟩ := wrapLen_eq_ok _ _ _ h
    exact ValidOut.lineString ls l ⟨hl, runSimplify_good s hs ls l false hl⟩
  · intro mls o h
    simp only [simplifyG] at h
    obtain ⟨l, hl, rfl⟩ := wrapLen_eq_ok _ _ _ h
    exact ValidOut.multiLineString mls l (forall₂_runRel s hs false _ _ (multiLineString_exact' s mls l hl))
  · intro r o h
    simp only [simplifyG] at h
    obtain ⟨l, hl, rfl⟩ := wrapLen_eq_ok _ _ _ h
    exact ValidOut.ring r l ⟨hl, runSimplify_good s hs r l true hl⟩
  · intro p o h
    simp only [simplifyG] at h
    obtain ⟨l, hl, rfl⟩ := wrapLen_eq_ok _ _ _ h
    obtain ⟨rs, hr1, rfl⟩ := polygon_exact' s p l hl
    exact ValidOut.polygon p rs (forall₂_runRel s hs true _ _ hr1)
  · intro mp o h
    simp only [simplifyG] at h
    obtain ⟨l, hl, rfl⟩ := wrapLen_eq_ok _ _ _ h
    obtain ⟨ps, hp1, rfl⟩ := multiPolygon_exact' s mp l hl
    obtain ⟨pss, hq1, rfl⟩ := forall₂_polygon s hs mp ps hp1
    exact ValidOut.multiPolygon mp pss hq1
  · intro a b o h
    simp only [simplifyG] at h; injection h with h; subst h; exact ValidOut.bound a b
  · intro gs ih o h
    simp only [simplifyG] at h
    split at h
    · rename_i k hk
      obtain ⟨l, h1, h2, rfl⟩ := go_ok s gs k hk
      have ho : o = wrapColl (l.filter fun g => !g.isNil) := by
        unfold wrapColl
        by_cases hz : (l.filter fun g => !g.isNil).length = 0
        · rw [if_pos hz] at h ⊢; injection h with h; exact h.symm
        · rw [if_neg hz] at h ⊢; injection h with h; exact h.symm
      rw [ho]
      refine ValidOut.collection gs l h1 ?_
      intro p hp
      exact ih p.1 (List.of_mem_zip hp).1 p.2 (h2 p hp)
    · cases h
    · cases h

/-! ### Orb/SimplifyExt.lean -/

theorem visLoopP_succ (ls : List (Pt α)) (thr2 : Option α) (k fuel : Nat) (st : VS α) (r : Nat) :
  visLoopP aMax ls thr2 k (fuel+1) st r =
    if st.heap.size = 0 then .ok st else
    if aLt thr2 ((pop st).2.get (pop st).1).area || decide (ls.length ≤ k + r) then .ok (pop st).2 else
    match ((pop st).2.get (pop st).1).prev, ((pop st).2.get (pop st).1).next with
    | none, _ => visLoopP aMax ls thr2 k fuel (pop st).2 r
    | some _, none => visLoopP aMax ls thr2 k fuel (pop st).2 r
    | some p, some nx => visLoopP aMax ls thr2 k fuel (Vis.visStep ls (pop st).2 (pop st).1 p nx) (r+1) := by
  rw [visLoopP]
  generalize pop st = q
  obtain ⟨cur, st1⟩ := q
  by_cases h1 : st.heap.size = 0
  · simp [h1]
  · rw [if_neg h1, if_neg h1]
    by_cases h2 : (aLt thr2 (st1.get cur).area || decide (ls.length ≤ k + r)) = true
    · show (if _ then _ else _) = _
      rw [if_pos h2, if_pos h2]
    · show (if _ then _ else _) = _
      rw [if_neg h2, if_neg h2]
      rfl

/-- wherever the model's loop does not panic, the loop of the repaired code (a popped end item is
    skipped) computes the same -/
theorem visLoopP_eq (ls : List (Pt α)) (thr2 : Option α) (k : Nat) :
    ∀ (fuel : Nat) (st : VS α) (r : Nat) (res : R (VS α)), visLoop ls thr2 k fuel st r = res →
      (∀ w, res ≠ .panic w) → visLoopP aMax ls thr2 k fuel st r = res := by
  intro fuel
  induction fuel with
  | zero => intro st r res h _; rw [← h]; rfl
  | succ n ih =>
    intro st r res h hnp
    rw [Vis.visLoop_succ] at h
    rw [visLoopP_succ]
    by_cases h1 : st.heap.size = 0
    · rw [if_pos h1] at h ⊢; exact h
    · rw [if_neg h1] at h ⊢
      by_cases h2 : (aLt thr2 ((pop st).2.get (pop st).1).area || decide (ls.length ≤ k + r)) = true
      · rw [if_pos h2] at h ⊢; exact h
      · rw [if_neg h2] at h ⊢
        cases hp : ((pop st).2.get (pop st).1).prev with
        | none =>
          simp only [hp] at h
          exact absurd h.symm (hnp _)
        | some p =>
          cases hn : ((pop st).2.get (pop st).1).next with
          | none =>
            simp only [hp, hn] at h
            exact absurd h.symm (hnp _)
          | some nx =>
            simp only [hp, hn] at h ⊢
            exact ih _ _ _ h hnp

/-- with an infinity above every area for the end items and the model's `aMax`, the parametrised
    Visvalingam (with the guard of the repaired code) IS the model the theorems are about, wherever the
    model does not panic -/
theorem visSimplifyP_eq' (thr : Option α) (toKeep : Nat) (ls : List (Pt α)) (area : Bool) (res : R (List (Pt α)))
    (h : visSimplify thr toKeep ls area = res) (hnp : ∀ w, res ≠ .panic w) :
    visSimplifyP none aMax thr toKeep ls area = res := by
  have hi : visInitP (none : Option α) ls = visInit ls := rfl
  unfold visSimplify at h
  unfold visSimplifyP
  by_cases h1 : ls.length ≤ 1
  · rw [if_pos h1] at h ⊢; exact h
  · rw [if_neg h1] at h ⊢
    by_cases h2 : ls.length ≤ visToKeep toKeep ls area
    · simp only [h2, if_true] at h ⊢; exact h
    · simp only [h2, if_false] at h ⊢
      unfold visKept at h
      unfold visKeptP
      rw [hi]
      dsimp only at h ⊢
      cases hl : visLoop ls (Option.map (fun x => x * 2) thr) (visToKeep toKeep ls area) (ls.length + 1) (visInit ls) 0 with
      | ok st =>
        rw [visLoopP_eq ls _ _ _ _ _ _ hl (by intro w hw; cases hw)]
        rw [hl] at h
        exact h
      | err e =>
        rw [visLoopP_eq ls _ _ _ _ _ _ hl (by intro w hw; cases hw)]
        rw [hl] at h
        exact h
      | panic w =>
        rw [hl] at h
        exact absurd h.symm (hnp _)

omit [Add α] [Sub α] [Mul α] [Div α] [Neg α] [LT α] [LE α] [DecidableLT α] [DecidableLE α] [BEq α]
  [OfNat α 0] [OfNat α 1] [OfNat α 2] in
theorem simplifyO_geom' (s : Simplifier α) (g : Geom α) : simplifyO s (.geom g) = simplifyG s g := by
  simp only [simplifyO]

omit [Add α] [Sub α] [Mul α] [Div α] [Neg α] [LT α] [LE α] [DecidableLT α] [DecidableLE α] [BEq α]
  [OfNat α 0] [OfNat α 1] [OfNat α 2] in
theorem simplifyO_go_geoms (s : Simplifier α) (gs : List (Geom α)) :
    simplifyO.go s (gs.map .geom) = simplifyG.go s gs := by
  induction gs with
  | nil => simp only [List.map_nil, simplifyO.go, simplifyG.go]
  | cons g rest ih =>
    simp only [List.map_cons, simplifyO.go, simplifyG.go, simplifyO, ih]
    cases simplifyG s g with
    | ok g' => cases simplifyG.go s rest <;> rfl
    | err e => rfl
    | panic w => rfl

omit [Add α] [Sub α] [Mul α] [Div α] [Neg α] [LT α] [LE α] [DecidableLT α] [DecidableLE α] [BEq α]
  [OfNat α 0] [OfNat α 1] [OfNat α 2] in
/-- a collection without nil members: `simplifyO` is `simplifyG` -/
theorem simplifyO_coll_geoms' (s : Simplifier α) (gs : List (Geom α)) :
    simplifyO s (.coll (gs.map .geom)) = simplifyG s (.collection gs) := by
  simp only [simplifyO, simplifyG, simplifyO_go_geoms]
  cases simplifyG.go s gs <;> rfl

section totalO
omit [Add α] [Sub α] [Mul α] [Div α] [Neg α] [LT α] [LE α] [DecidableLT α] [DecidableLE α] [BEq α]
  [OfNat α 0] [OfNat α 1] [OfNat α 2]
variable (s : Simplifier α) (hs : ∀ ls area, 2 < ls.length → (s ls area).isOk = true)
include hs

/-- no panic with nil members at any depth -/
theorem simplifyO_total' : ∀ v : OGeom α, (simplifyO s v).isOk = true := by
  apply OGeom.ind'
  · simp only [simplifyO]; rfl
  · intro g; simp only [simplifyO]; exact simplifyG_ok s hs g
  · intro gs ih
    have hgo : (simplifyO.go s gs).isOk = true := by
      induction gs with
      | nil => simp only [simplifyO.go]; rfl
      | cons g rest ihr =>
        obtain ⟨g', hg'⟩ := (isOk_iff _).1 (ih g (by simp))
        obtain ⟨rest', hrest⟩ := (isOk_iff _).1 (ihr (fun x hx => ih x (by simp [hx])))
        simp only [simplifyO.go, hg', hrest]
        split <;> rfl
    obtain ⟨l, hl⟩ := (isOk_iff _).1 hgo
    simp only [simplifyO, hl]
    split <;> rfl

theorem layerSimplify_total' {β : Type} (fs : List (β × OGeom α)) : (layerSimplify s fs).isOk = true := by
  induction fs with
  | nil => rfl
  | cons f rest ih =>
    obtain ⟨b, g⟩ := f
    obtain ⟨g', hg'⟩ := (isOk_iff _).1 (simplifyO_total' s hs g)
    obtain ⟨rest', hrest⟩ := (isOk_iff _).1 ih
    simp only [layerSimplify, hg', hrest]
    cases g' <;> rfl

theorem layersSimplify_total' {β : Type} (ls : List (List (β × OGeom α))) : (layersSimplify s ls).isOk = true := by
  induction ls with
  | nil => rfl
  | cons l rest ih =>
    obtain ⟨l', hl'⟩ := (isOk_iff _).1 (layerSimplify_total' s hs l)
    obtain ⟨rest', hrest⟩ := (isOk_iff _).1 ih
    simp only [layersSimplify, hl', hrest]
    rfl

end totalO

omit [Add α] [Sub α] [Mul α] [Div α] [Neg α] [LT α] [LE α] [DecidableLT α] [DecidableLE α] [BEq α]
  [OfNat α 0] [OfNat α 1] [OfNat α 2] in
/-- `mvt.Layer.Simplify`: every feature's geometry goes through `Simplify`; the output is exactly the
    features whose result is not a nil interface, in order, each with its own result and everything
    else (`β`) untouched. -/
theorem layerSimplify_exact' {β : Type} (s : Simplifier α) (fs out : List (β × OGeom α))
    (h : layerSimplify s fs = .ok out) :
    ∃ gs, List.Forall₂ (fun f g' => simplifyO s f.2 = .ok g') fs gs ∧
      out = ((fs.map Prod.fst).zip gs).filter (fun p => !p.2.isNil) := by
  induction fs generalizing out with
  | nil =>
    simp only [layerSimplify] at h
    injection h with h; subst h
    exact ⟨[], List.Forall₂.nil, rfl⟩
  | cons f rest ih =>
    obtain ⟨b, g⟩ := f
    simp only [layerSimplify] at h
    split at h
    · rename_i g' hg
      split at h
      · rename_i rest' hrest
        obtain ⟨gs, h1, h2⟩ := ih rest' hrest
        refine ⟨g' :: gs, List.Forall₂.cons hg h1, ?_⟩
        cases g' with
        | nil =>
          simp only at h
          injection h with h; subst h
          simp [OGeom.isNil, h2]
        | geom x =>
          simp only at h
          injection h with h; subst h
          simp [OGeom.isNil, h2]
        | coll x =>
          simp only at h
          injection h with h; subst h
          simp [OGeom.isNil, h2]
      · cases h
      · cases h
    · cases h
    · cases h

end anyArithmetic

section orderedField
variable {α : Type} [Field α] [LinearOrder α] [IsStrictOrderedRing α]

/-- Douglas-Peucker through the typed entry point: the kept vertices are the input vertices at strictly
    increasing indices, and every input vertex between two consecutive kept ones is within the
    threshold of the segment joining them. -/
theorem filterMap_getElem?_range {β : Type} (l : List β) :
    (List.range l.length).filterMap (fun i => l[i]?) = l := by
  induction l using List.reverseRecOn with
  | nil => rfl
  | append_singleton l a ih =>
    rw [List.length_append, List.length_singleton, List.range_succ, List.filterMap_append]
    have h1 : (List.range l.length).filterMap (fun i => (l ++ [a])[i]?) =
        (List.range l.length).filterMap (fun i => l[i]?) := by
      apply List.filterMap_congr
      intro i hi
      rw [List.getElem?_append_left (List.mem_range.1 hi)]
    rw [h1, ih]
    simp

theorem dp_error_bound_run' (t : α) (ls out : List (Pt α)) (area : Bool)
    (h : runSimplify (dpS t) ls area = .ok out) :
    ∃ idx : List Nat, idx.Pairwise (· < ·) ∧ (∀ i ∈ idx, i < ls.length) ∧
      out = idx.filterMap (fun i => ls[i]?) ∧
      ∀ i j, Adjacent idx i j → ∀ k, i < k → k < j → ∀ a b p,
        ls[i]? = some a → ls[j]? = some b → ls[k]? = some p → distSegSq a b p ≤ t * t := by
  rcases runSimplify_cases _ ls out area h with ⟨hl, rfl⟩ | ⟨_, hs⟩
  · refine ⟨List.range out.length, List.pairwise_lt_range, fun i hi => List.mem_range.1 hi, ?_, ?_⟩
    · exact (filterMap_getElem?_range out).symm
    · rintro i j ⟨l1, l2, hadj⟩ k hik hkj
      -- consecutive entries of `range n` are consecutive numbers: nothing lies strictly between
      exfalso
      have h1 : (List.range out.length)[l1.length]? = some i := by rw [hadj]; simp
      have h2 : (List.range out.length)[l1.length + 1]? = some j := by
        rw [hadj]; simp
      have hi : i = l1.length := by
        have := List.getElem?_eq_some_iff.1 h1
        obtain ⟨hlt, he⟩ := this
        simpa using he.symm
      have hj : j = l1.length + 1 := by
        have := List.getElem?_eq_some_iff.1 h2
        obtain ⟨hlt, he⟩ := this
        simpa using he.symm
      omega
  · obtain ⟨idx, h1, h2, h3, h4⟩ := dp_kept_indices' t ls out hs
    exact ⟨idx, h2, h3, h4, dp_error_bound' t ls idx h1⟩

theorem dp_idempotent_run' (t : α) (ls out : List (Pt α)) (area : Bool)
    (h : runSimplify (dpS t) ls area = .ok out) : runSimplify (dpS t) out area = .ok out := by
  rcases runSimplify_cases _ ls out area h with ⟨hl, rfl⟩ | ⟨_, hs⟩
  · exact h
  · unfold runSimplify
    split
    · rfl
    · exact dp_idempotent' t ls out hs

theorem dp_nested_run' (t₁ t₂ : α) (h0 : 0 ≤ t₁) (h12 : t₁ ≤ t₂) (ls o₁ o₂ : List (Pt α)) (area : Bool)
    (h₁ : runSimplify (dpS t₁) ls area = .ok o₁) (h₂ : runSimplify (dpS t₂) ls area = .ok o₂) :
    o₂.Sublist o₁ := by
  rcases runSimplify_cases _ ls o₁ area h₁ with ⟨hl, rfl⟩ | ⟨hl, hs₁⟩
  · rcases runSimplify_cases _ o₁ o₂ area h₂ with ⟨_, rfl⟩ | ⟨hl2, _⟩
    · exact List.Sublist.refl _
    · omega
  · rcases runSimplify_cases _ ls o₂ area h₂ with ⟨hl2, _⟩ | ⟨_, hs₂⟩
    · omega
    · exact dp_nested' t₁ t₂ h0 h12 ls o₁ o₂ hs₁ hs₂

theorem vis_nested_run' (thr₁ thr₂ : Option α) (k₁ k₂ : Nat) (ls o₁ o₂ : List (Pt α)) (area : Bool)
    (ht : aLe thr₁ thr₂ = true) (hk : visToKeep k₂ ls area ≤ visToKeep k₁ ls area)
    (h₁ : runSimplify (visS thr₁ k₁) ls area = .ok o₁) (h₂ : runSimplify (visS thr₂ k₂) ls area = .ok o₂) :
    o₂.Sublist o₁ := by
  rcases runSimplify_cases _ ls o₁ area h₁ with ⟨hl, rfl⟩ | ⟨hl, hs₁⟩
  · rcases runSimplify_cases _ o₁ o₂ area h₂ with ⟨_, rfl⟩ | ⟨hl2, _⟩
    · exact List.Sublist.refl _
    · omega
  · rcases runSimplify_cases _ ls o₂ area h₂ with ⟨hl2, _⟩ | ⟨_, hs₂⟩
    · omega
    · exact vis_nested' thr₁ thr₂ k₁ k₂ ls o₁ o₂ area ht hk hs₁ hs₂

/-- over an ordered field (minimum count 0 or ≥ 2) the model never panics, so the parametrised
    Visvalingam with the guard of the repaired code is the model, outright -/
theorem vis_twin_is_model' (thr : Option α) (toKeep : Nat) (hk : toKeep = 0 ∨ 2 ≤ toKeep) (ls : List (Pt α)) (area : Bool) :
    visSimplifyP none aMax thr toKeep ls area = visSimplify thr toKeep ls area := by
  obtain ⟨out, ho⟩ := vis_total' thr toKeep hk ls area
  rw [visSimplifyP_eq' thr toKeep ls area _ ho (by intro w hw; cases hw), ho]

end orderedField

end Orb.Simplify
