/-
  C11 — the searches started from an explicit initial limit (`minDistSquared: math.MaxFloat64`,
  `maxDistSquared: math.MaxFloat64` in the Go code; `matchingFrom` / `removeFrom` / `kNearestFrom` in
  the model, the form the Float twin runs) against the unlimited searches the refinement theorems
  are about (`matching` / `remove` / `kNearest`).

  * `matchingFrom_none`, `removeFrom_none`, `kNearestFrom_none`: started from "no limit" they ARE the
    unlimited searches;
  * `matchingFrom_eq`, `removeFrom_eq`, `kNearestFrom_eq`: started from any limit `M` they give the same
    answer (and the same tree) as the unlimited searches whenever every stored pointer the filter
    accepts is strictly nearer than `M` (squared distance `< M`) — so the refinement theorems carry
    over to the code's `MaxFloat64` start for every history whose squared distances stay below it;
  * `kNearestFrom_some`: with an explicit `maxDistance` the initial limit is overwritten, whatever it was.

  The excluded situation (an accepted pointer with squared distance `≥ M`: overflow to +Inf in
  float64) is the one listed under `partial`: there the code skips the pointer
  (`matchingFrom_skips_far`).
-/
import OrbProofs.C11Lemmas

namespace Orb.Quadtree
open Orb Orb.Core

set_option linter.unusedSectionVars false

section sim
variable {α : Type} [Add α] [Sub α] [Mul α] [Div α] [OfNat α 2] [LT α] [LE α] [DecidableLT α] [DecidableLE α]
  [Min α] [Max α]

/-- Simulation of two visitors on the same tree: if a relation `R` between their states implies equal
    pruning boxes and is preserved by visiting any value of the tree (values satisfying `Q`), it is
    preserved by the whole pruned traversal.  Needs no order axioms: both runs take the same branches. -/
theorem visit_sim {σ τ : Type} (V : Visitor α σ) (W : Visitor α τ) (R : σ → τ → Prop) (Q : Ptr α → Prop)
    (hpt : V.point = W.point)
    (hb : ∀ s t, R s t → V.bound s = W.bound t)
    (hv : ∀ s t p path, Q p → R s t → R (V.visit s p path) (W.visit t p path)) :
    ∀ (t : Tree α) (c : Cell α) (path : List Nat) (s : σ) (s' : τ), (∀ y ∈ contents t, Q y) → R s s' →
      R (visit V t c path s) (visit W t c path s') := by
  intro t
  induction t with
  | nil => intro c path s s' _ h; simpa [visit] using h
  | node v c0 c1 c2 c3 ih0 ih1 ih2 ih3 =>
    intro c path s s' hQ h
    have hQ0 : ∀ y ∈ contents c0, Q y := fun y hy => hQ y (by simp [contents, hy])
    have hQ1 : ∀ y ∈ contents c1, Q y := fun y hy => hQ y (by simp [contents, hy])
    have hQ2 : ∀ y ∈ contents c2, Q y := fun y hy => hQ y (by simp [contents, hy])
    have hQ3 : ∀ y ∈ contents c3, Q y := fun y hy => hQ y (by simp [contents, hy])
    simp only [visit]
    rw [hb s s' h, hpt]
    split
    · exact h
    · cases v with
      | none =>
        dsimp only
        split
        · exact h
        · split
          · exact ih3 _ _ _ _ hQ3 (ih2 _ _ _ _ hQ2 (ih1 _ _ _ _ hQ1 (ih0 _ _ _ _ hQ0 h)))
          · exact ih0 _ _ _ _ hQ0 (ih3 _ _ _ _ hQ3 (ih2 _ _ _ _ hQ2 (ih1 _ _ _ _ hQ1 h)))
          · exact ih1 _ _ _ _ hQ1 (ih0 _ _ _ _ hQ0 (ih3 _ _ _ _ hQ3 (ih2 _ _ _ _ hQ2 h)))
          · exact ih2 _ _ _ _ hQ2 (ih1 _ _ _ _ hQ1 (ih0 _ _ _ _ hQ0 (ih3 _ _ _ _ hQ3 h)))
      | some p =>
        have h1 := hv s s' p path.reverse (hQ p (by simp [contents])) h
        dsimp only
        split
        · exact h1
        · split
          · exact ih3 _ _ _ _ hQ3 (ih2 _ _ _ _ hQ2 (ih1 _ _ _ _ hQ1 (ih0 _ _ _ _ hQ0 h1)))
          · exact ih0 _ _ _ _ hQ0 (ih3 _ _ _ _ hQ3 (ih2 _ _ _ _ hQ2 (ih1 _ _ _ _ hQ1 h1)))
          · exact ih1 _ _ _ _ hQ1 (ih0 _ _ _ _ hQ0 (ih3 _ _ _ _ hQ3 (ih2 _ _ _ _ hQ2 h1)))
          · exact ih2 _ _ _ _ hQ2 (ih1 _ _ _ _ hQ1 (ih0 _ _ _ _ hQ0 (ih3 _ _ _ _ hQ3 h1)))

/-! ### started from "no limit" the new forms are the old ones -/

theorem findRawFrom_none (sqrt : α → α) (q : QT α) (pt : Pt α) (f : Ptr α → Bool) :
    findRawFrom none sqrt q pt f = findRaw sqrt q pt f := rfl

theorem matchingFrom_none (sqrt : α → α) (q : QT α) (pt : Pt α) (f : Ptr α → Bool) :
    matchingFrom none sqrt q pt f = matching sqrt q pt f := rfl

theorem removeFrom_none (sqrt : α → α) (q : QT α) (pt : Pt α) (eq : Ptr α → Bool) :
    removeFrom none sqrt q pt eq = remove sqrt q pt eq := rfl

theorem kNearestFrom_none (sqrt : α → α) (q : QT α) (pt : Pt α) (k : Nat) (f : Ptr α → Bool) (md : Option α) :
    kNearestFrom none sqrt q pt k f md = kNearest sqrt q pt k f md := by
  unfold kNearestFrom kNearest
  cases md <;> rfl

/-- an explicit `maxDistance` overwrites the initial limit -/
theorem kNearestFrom_some (init : Option α) (sqrt : α → α) (q : QT α) (pt : Pt α) (k : Nat) (f : Ptr α → Bool)
    (m : α) : kNearestFrom init sqrt q pt k f (some m) = kNearest sqrt q pt k f (some m) := rfl

/-! ### started from a limit that every accepted pointer beats -/

/-- relation between the find visitor started from `some M` and the one started from `none` -/
def FindSim (M : α) (s t : FindSt α) : Prop :=
  s.closest = t.closest ∧ s.bnd = t.bnd ∧ (s.minD = t.minD ∨ (s.minD = some M ∧ t.minD = none))

theorem findRawFrom_sim (M : α) (sqrt : α → α) (q : QT α) (pt : Pt α) (f : Ptr α → Bool)
    (h : ∀ y ∈ contents q.root, f y = true → distSq y.p pt < M) :
    FindSim M (findRawFrom (some M) sqrt q pt f) (findRaw sqrt q pt f) := by
  unfold findRawFrom findRaw
  refine visit_sim (findVisitor sqrt pt f) (findVisitor sqrt pt f) (FindSim M)
    (fun y => f y = true → distSq y.p pt < M) rfl ?_ ?_ q.root _ _ _ _ h ⟨rfl, rfl, Or.inr ⟨rfl, rfl⟩⟩
  · intro s t hR; exact hR.2.1
  · intro s t p path hQ hR
    obtain ⟨hc, hbd, hm⟩ := hR
    show FindSim M
      (if (!f p) = true then s else
        if (match s.minD with | none => true | some m => decide (distSq p.p pt < m)) = true then
          { closest := some (p, path), bnd := boxAround pt (sqrt (distSq p.p pt)), minD := some (distSq p.p pt) }
        else s)
      (if (!f p) = true then t else
        if (match t.minD with | none => true | some m => decide (distSq p.p pt < m)) = true then
          { closest := some (p, path), bnd := boxAround pt (sqrt (distSq p.p pt)), minD := some (distSq p.p pt) }
        else t)
    cases hf : f p with
    | false => simpa using ⟨hc, hbd, hm⟩
    | true =>
      simp only [Bool.not_true, Bool.false_eq_true, if_false]
      rcases hm with hm | ⟨hs, ht⟩
      · rw [hm]
        by_cases hd : (match t.minD with | none => true | some m => decide (distSq p.p pt < m)) = true
        · rw [if_pos hd, if_pos hd]; exact ⟨rfl, rfl, Or.inl rfl⟩
        · rw [if_neg hd, if_neg hd]; exact ⟨hc, hbd, Or.inl hm⟩
      · rw [hs, ht]
        have : decide (distSq p.p pt < M) = true := decide_eq_true (hQ hf)
        simp only [this, if_true]
        exact ⟨rfl, rfl, Or.inl rfl⟩

/-- `Matching` / `Find` started from the limit `M` = the unlimited search, when every accepted stored
    pointer is nearer than `M` -/
theorem matchingFrom_eq (M : α) (sqrt : α → α) (q : QT α) (pt : Pt α) (f : Ptr α → Bool)
    (h : ∀ y ∈ contents q.root, f y = true → distSq y.p pt < M) :
    matchingFrom (some M) sqrt q pt f = matching sqrt q pt f := by
  have hs := (findRawFrom_sim M sqrt q pt f h).1
  unfold matchingFrom matching
  cases q.root <;> simp [hs]

/-- `Remove` started from the limit `M` = the unlimited one (same flag, same tree) -/
theorem removeFrom_eq (M : α) (sqrt : α → α) (q : QT α) (pt : Pt α) (eq : Ptr α → Bool)
    (h : ∀ y ∈ contents q.root, eq y = true → distSq y.p pt < M) :
    removeFrom (some M) sqrt q pt eq = remove sqrt q pt eq := by
  have hs := (findRawFrom_sim M sqrt q pt eq h).1
  unfold removeFrom remove
  cases q.root <;> simp [hs]

/-- relation between the nearest visitor started from `some M` and from `none` -/
def NearSim (M : α) (s t : NearSt α) : Prop :=
  s.heap = t.heap ∧ s.bnd = t.bnd ∧ (s.maxD = t.maxD ∨ (s.maxD = some M ∧ t.maxD = none))

/-- `KNearest` / `KNearestMatching` without a `maxDistance`, started from the limit `M` = the
    unlimited search, when every accepted stored pointer is nearer than `M` -/
theorem kNearestFrom_eq (M : α) (sqrt : α → α) (q : QT α) (pt : Pt α) (k : Nat) (f : Ptr α → Bool)
    (h : ∀ y ∈ contents q.root, f y = true → distSq y.p pt < M) :
    kNearestFrom (some M) sqrt q pt k f none = kNearest sqrt q pt k f none := by
  have key : NearSim M
      (visit (nearestVisitor sqrt pt f k) q.root (rootCell q.bound) [] ⟨#[], q.bound, some M⟩)
      (visit (nearestVisitor sqrt pt f k) q.root (rootCell q.bound) [] ⟨#[], q.bound, none⟩) := by
    refine visit_sim (nearestVisitor sqrt pt f k) (nearestVisitor sqrt pt f k) (NearSim M)
      (fun y => f y = true → distSq y.p pt < M) rfl ?_ ?_ q.root _ _ _ _ h ⟨rfl, rfl, Or.inr ⟨rfl, rfl⟩⟩
    · intro s t hR; exact hR.2.1
    · intro s t p path hQ hR
      obtain ⟨hh, hbd, hm⟩ := hR
      show NearSim M
        (if (!f p) = true then s else
          if (!(match s.maxD with | none => true | some m => decide (distSq p.p pt < m))) = true then s else
          if (heapPush s.heap p (distSq p.p pt)).size > k then
            match (heapPop (heapPush s.heap p (distSq p.p pt)))[0]? with
            | some top => { heap := heapPop (heapPush s.heap p (distSq p.p pt)),
                            bnd := boxAround pt (sqrt top.2), maxD := some top.2 }
            | none => { s with heap := heapPop (heapPush s.heap p (distSq p.p pt)) }
          else { s with heap := heapPush s.heap p (distSq p.p pt) })
        (if (!f p) = true then t else
          if (!(match t.maxD with | none => true | some m => decide (distSq p.p pt < m))) = true then t else
          if (heapPush t.heap p (distSq p.p pt)).size > k then
            match (heapPop (heapPush t.heap p (distSq p.p pt)))[0]? with
            | some top => { heap := heapPop (heapPush t.heap p (distSq p.p pt)),
                            bnd := boxAround pt (sqrt top.2), maxD := some top.2 }
            | none => { t with heap := heapPop (heapPush t.heap p (distSq p.p pt)) }
          else { t with heap := heapPush t.heap p (distSq p.p pt) })
      cases hf : f p with
      | false => simpa using ⟨hh, hbd, hm⟩
      | true =>
        simp only [Bool.not_true, Bool.false_eq_true, if_false]
        -- both runs take the same decision on the limit
        have hdec : (match s.maxD with | none => true | some m => decide (distSq p.p pt < m)) =
                    (match t.maxD with | none => true | some m => decide (distSq p.p pt < m)) := by
          rcases hm with hm | ⟨hs, ht⟩
          · rw [hm]
          · rw [hs, ht]; exact decide_eq_true (hQ hf)
        rw [hdec, hh]
        by_cases hd : (!(match t.maxD with | none => true | some m => decide (distSq p.p pt < m))) = true
        · rw [if_pos hd, if_pos hd]; exact ⟨hh, hbd, hm⟩
        · rw [if_neg hd, if_neg hd]
          by_cases ho : (heapPush t.heap p (distSq p.p pt)).size > k
          · rw [if_pos ho, if_pos ho]
            cases (heapPop (heapPush t.heap p (distSq p.p pt)))[0]? with
            | some top => exact ⟨rfl, rfl, Or.inl rfl⟩
            | none => exact ⟨rfl, hbd, hm⟩
          · rw [if_neg ho, if_neg ho]; exact ⟨rfl, hbd, hm⟩
  unfold kNearestFrom kNearest
  cases hr : q.root with
  | nil => rfl
  | node v c0 c1 c2 c3 =>
    rw [hr] at key
    simp only [Option.map_none]
    split
    · rfl
    · simp only [key.1]

end sim

/-! ### consequences over an ordered field -/

variable {α : Type} [Field α] [LinearOrder α] [IsStrictOrderedRing α]

/-- The refinement theorem for `Find` / `Matching` as the CODE runs it (initial limit `M`): on a tree
    satisfying the invariant whose accepted pointers are all nearer than `M`, the answer is one the
    plain list allows. -/
theorem matchingFrom_spec' (M : α) (sqrt : α → α) (hs : SqrtUp sqrt) (q : QT α) (pt : Pt α) (f : Ptr α → Bool)
    (h : QInv q) (hM : ∀ y ∈ contents q.root, f y = true → distSq y.p pt < M) :
    Spec q.bound (contents q.root) (.matching pt f) (.ptr (matchingFrom (some M) sqrt q pt f)) (contents q.root) := by
  rw [matchingFrom_eq M sqrt q pt f hM]
  exact matching_spec' sqrt hs q pt f h

theorem removeFrom_spec' (M : α) (sqrt : α → α) (hs : SqrtUp sqrt) (q : QT α) (pt : Pt α) (eq : Ptr α → Bool)
    (h : QInv q) (hM : ∀ y ∈ contents q.root, eq y = true → distSq y.p pt < M) :
    Spec q.bound (contents q.root) (.remove pt eq) (.flag (removeFrom (some M) sqrt q pt eq).2)
      (contents (removeFrom (some M) sqrt q pt eq).1.root) ∧ QInv (removeFrom (some M) sqrt q pt eq).1 := by
  rw [removeFrom_eq M sqrt q pt eq hM]
  exact ⟨(remove_spec' sqrt hs q pt eq h).1, (remove_spec' sqrt hs q pt eq h).2.1⟩

theorem kNearestFrom_spec' (M : α) (sqrt : α → α) (hs : SqrtUp sqrt) (q : QT α) (pt : Pt α) (k : Nat)
    (f : Ptr α → Bool) (md : Option α) (h : QInv q)
    (hM : md = none → ∀ y ∈ contents q.root, f y = true → distSq y.p pt < M) :
    Spec q.bound (contents q.root) (.kNearest pt k f md) (.ptrs (kNearestFrom (some M) sqrt q pt k f md))
      (contents q.root) := by
  cases md with
  | none => rw [kNearestFrom_eq M sqrt q pt k f (hM rfl)]; exact kNearest_spec' sqrt hs q pt k f none h
  | some m => rw [kNearestFrom_some]; exact kNearest_spec' sqrt hs q pt k f (some m) h

/-- What the code does OUTSIDE that hypothesis (the situation listed under `partial`): a tree holding a
    single pointer at squared distance `≥ M` — `Find` started from `M` answers nil although the tree is
    not empty. -/
theorem matchingFrom_skips_far (M : α) (sqrt : α → α) (b : Bound α) (x : Ptr α) (pt : Pt α)
    (hfar : ¬ distSq x.p pt < M) (hin : ¬ miss (rootCell b) b) :
    matchingFrom (some M) sqrt ⟨b, .node (some x) .nil .nil .nil .nil⟩ pt (fun _ => true) = none := by
  unfold miss at hin
  simp [matchingFrom, findRawFrom, visit, findVisitor, hin, hfar, Tree.isNil]

end Orb.Quadtree
