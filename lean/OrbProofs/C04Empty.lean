/-
  C04 — the EMPTY form and the blank in front of `EMPTY`.

  `<KEYWORD> EMPTY` is recognised by `strings.EqualFold(s, "<KEYWORD> EMPTY")`: exactly ONE space.
  With anything else between keyword and `EMPTY` (nothing, two spaces, a tab, a newline, …) the text
  falls through to the bracket parser, which finds `E` where it wants `(`: `ErrNotWKT`, for all six
  kinds with an EMPTY form — and `POINT`, which has none, rejects `POINT EMPTY` with any blanks.
  Such texts are OUTSIDE the quantifier of C04 (its re-spellings put blanks next to commas and
  parentheses and at both ends of the text only); this file pins down what the code does there.
  Helper file of OrbProofs.C04Lemmas.
-/
import OrbProofs.C04Round
namespace Orb.WKT

def kwEmptyWord : Str := [69, 77, 80, 84, 89]   -- EMPTY

section
variable (parseF : Str → Option UInt64)

/-- a case variant of `EMPTY` is five bytes, the first neither blank nor `(`, the last not blank -/
theorem ef_word {e : Str} (he : CaseVariant kwEmptyWord e) :
    ∃ b1 b2 b3 b4 b5, e = [b1, b2, b3, b4, b5] ∧ isBlank b1 = false ∧ b1 ≠ cLP ∧ isBlank b5 = false := by
  obtain ⟨b1, e1, rfl, h1, he⟩ := kd_caseVariant_cons he
  obtain ⟨b2, e2, rfl, -, he⟩ := kd_caseVariant_cons he
  obtain ⟨b3, e3, rfl, -, he⟩ := kd_caseVariant_cons he
  obtain ⟨b4, e4, rfl, -, he⟩ := kd_caseVariant_cons he
  obtain ⟨b5, e5, rfl, h5, he⟩ := kd_caseVariant_cons he
  have : e5 = [] := by
    unfold CaseVariant at he
    exact List.map_eq_nil_iff.1 he
  subst this
  refine ⟨b1, b2, b3, b4, b5, rfl, kd_notBlank_of_upper (by rw [h1]; decide), ?_,
    kd_notBlank_of_upper (by rw [h5]; decide)⟩
  rintro rfl
  revert h1; decide

/-- `trimSpaceBrackets` on `<blanks>EMPTY`: the first byte is not `(` -/
theorem ef_trimSpaceBrackets {a e : Str} (ha : AllBlank a) (he : CaseVariant kwEmptyWord e) :
    trimSpaceBrackets (a ++ e) = .err .notWKT := by
  obtain ⟨b1, b2, b3, b4, b5, rfl, hb1, hlp, hb5⟩ := ef_word he
  have hge : GoodEnds [b1, b2, b3, b4, b5] :=
    kd_goodEnds_mk (by simp) (x := b1) (y := b5) rfl hb1 rfl hb5
  have ht : trimSpace (a ++ [b1, b2, b3, b4, b5]) = b1 :: [b2, b3, b4, b5] := by
    have := trimSpace_pad ha kd_allBlank_nil hge
    simpa using this
  rw [bs_trimSpaceBrackets_cons ht, if_pos (by simpa using hlp)]

theorem ef_foldByte_blank {b : UInt8} (hb : isBlank b = true) (h : foldByte b = 32) : b = 32 := by
  rcases (kd_isBlank_iff b).1 hb with rfl | rfl | rfl
  · rfl
  · revert h; decide
  · revert h; decide

/-- `EqualFold(k ++ blanks ++ EMPTY, "<KW> EMPTY")` holds only for the single space -/
theorem ef_equalFold_false {kw k a e : Str} (hk : k.length = kw.length) (ha : AllBlank a)
    (he : CaseVariant kwEmptyWord e) (hne : a ≠ [cSpace]) : equalFold (k ++ (a ++ e)) (kw ++ sEmpty) = false := by
  obtain ⟨b1, b2, b3, b4, b5, rfl, -, -, -⟩ := ef_word he
  unfold equalFold
  rw [beq_eq_false_iff_ne]
  intro heq
  simp only [List.map_append] at heq
  have hlen : (k.map foldByte).length = (kw.map foldByte).length := by simp [hk]
  have h2 := (List.append_inj heq hlen).2
  have hl := congrArg List.length h2
  simp only [List.length_append, List.length_map, List.length_cons, List.length_nil, sEmpty] at hl
  have hal : a.length = 1 := by omega
  obtain ⟨b, rfl⟩ := List.length_eq_one_iff.1 hal
  have hb : foldByte b = 32 := by
    simp only [List.map_cons, List.map_nil, List.cons_append, List.nil_append, sEmpty] at h2
    have := (List.cons.inj h2).1
    rw [this]; decide
  exact hne (by rw [ef_foldByte_blank (ha b (by simp)) hb]; rfl)

/-- Anything but exactly one space between the keyword and `EMPTY` is `ErrNotWKT`, for each of the six
    kinds with an EMPTY form (positions 1..6 of `typedAll`), in any letter case and with blanks at
    both ends; `POINT` (position 0) rejects `POINT<blanks>EMPTY` whatever the blanks. -/
theorem empty_form_needs_single_space' (i : Nat) (hi : i < 7) (k a e pre post : Str)
    (hk : CaseVariant (kwAt i) k) (he : CaseVariant kwEmptyWord e) (ha : AllBlank a)
    (hne : i = 0 ∨ a ≠ [cSpace]) (hpre : AllBlank pre) (hpost : AllBlank post) :
    unmarshal parseF (pre ++ (k ++ (a ++ e)) ++ post) = .err .notWKT := by
  have htsb := ef_trimSpaceBrackets ha he
  have hkl := caseVariant_length hk
  have hsl : sliceFrom (k ++ (a ++ e)) (kwAt i).length = .ok (a ++ e) := kd_sliceFrom_kw hk
  -- the ends of `k ++ a ++ e`
  obtain ⟨b1, b2, b3, b4, b5, hE, -, -, hb5⟩ := ef_word he
  have hge : GoodEnds (k ++ (a ++ e)) := by
    have hkne : ∃ c k', k = c :: k' ∧ isBlank c = false := by
      have : ∃ c kw', kwAt i = c :: kw' ∧ isBlank c = false := by
        interval_cases i <;> exact ⟨_, _, rfl, by decide⟩
      obtain ⟨c, kw', hkw, hc⟩ := this
      rw [hkw] at hk
      obtain ⟨b, k', rfl, hb, -⟩ := kd_caseVariant_cons hk
      exact ⟨b, k', rfl, kd_notBlank_of_upper (by rw [hb]; exact hc)⟩
    obtain ⟨c, k', rfl, hc⟩ := hkne
    refine kd_goodEnds_mk (x := c) (y := b5) (by subst hE; simp; omega) rfl hc ?_ hb5
    subst hE
    rw [show c :: k' ++ (a ++ [b1, b2, b3, b4, b5]) = (c :: k' ++ (a ++ [b1, b2, b3, b4])) ++ [b5] by simp]
    exact kd_getLast?_snoc _ _
  unfold unmarshal
  rw [unmarshalF_dispatch parseF hi hpre hpost hk hge]
  have hef : i ≠ 0 → equalFold (k ++ (a ++ e)) (kwAt i ++ sEmpty) = false := by
    intro h0
    exact ef_equalFold_false hkl ha he (hne.resolve_left h0)
  interval_cases i
  · have h2 : sliceFrom (k ++ (a ++ e)) 5 = .ok (a ++ e) := hsl
    simp [unmarshalPoint, h2, htsb, Res.map]
  · have h1 : equalFold (k ++ (a ++ e)) (kwMultiPoint ++ sEmpty) = false := hef (by decide)
    have h2 : sliceFrom (k ++ (a ++ e)) 10 = .ok (a ++ e) := hsl
    simp [unmarshalMultiPoint, h1, h2, htsb, Res.map]
  · have h1 : equalFold (k ++ (a ++ e)) (kwLineString ++ sEmpty) = false := hef (by decide)
    have h2 : sliceFrom (k ++ (a ++ e)) 10 = .ok (a ++ e) := hsl
    simp [unmarshalLineString, h1, h2, htsb, Res.map]
  · have h1 : equalFold (k ++ (a ++ e)) (kwMultiLineString ++ sEmpty) = false := hef (by decide)
    have h2 : sliceFrom (k ++ (a ++ e)) 15 = .ok (a ++ e) := hsl
    simp [unmarshalMultiLineString, h1, h2, htsb, Res.map]
  · have h1 : equalFold (k ++ (a ++ e)) (kwPolygon ++ sEmpty) = false := hef (by decide)
    have h2 : sliceFrom (k ++ (a ++ e)) 7 = .ok (a ++ e) := hsl
    simp [unmarshalPolygon, h1, h2, htsb, Res.map]
  · have h1 : equalFold (k ++ (a ++ e)) (kwMultiPolygon ++ sEmpty) = false := hef (by decide)
    have h2 : sliceFrom (k ++ (a ++ e)) 12 = .ok (a ++ e) := hsl
    simp [unmarshalMultiPolygon, h1, h2, htsb, Res.map]
  · have h1 : equalFold (k ++ (a ++ e)) (kwCollection ++ sEmpty) = false := hef (by decide)
    have h2 : sliceFrom (k ++ (a ++ e)) 18 = .ok (a ++ e) := hsl
    simp [unmarshalCollection, h1, h2, splitGeometryCollection, htsb, Res.map]

end

end Orb.WKT
