/-
  The inner loop of clip/clip.go `line` with its two rounding guards (two clips per end, then
  `clampToBound`; open bound: a far end on the boundary is kept as its own intersection) — facts that
  hold for ANY arithmetic, and the bridge to the loop without the guards.

  * `segLoopU` / `lineStepU`: the loop and the outer step WITHOUT counters and clamp branch (the code
    before the guard was added).  The C07 and C16 developments reason about these; they reach the
    model (`segLoop`, `lineStep`) through `segLoop_eq_segLoopU_of` (the clamp branch is never taken
    when every `intersect` strictly lowers the number of region-code bits, and the own-intersection arm
    returns what `intersect` returns — which is what exact arithmetic gives) and `lineStep_eq_lineStepU`.
  * `segLoop_ne_stuck`, `line_total_any'`: with the guard the loop ends within its fuel of 8 rounds
    whatever the coordinate type does (floats, NaN, a box of any shape): `line` never gets stuck.
-/
import Orb.Clip
import Mathlib.Tactic.SplitIfs
import Mathlib.Tactic.IntervalCases

set_option linter.unusedSectionVars false
set_option linter.unusedVariables false

namespace Orb.Clip
open Orb Orb.Core Generated.Params

variable {α : Type} [Add α] [Sub α] [Mul α] [Div α] [LT α] [LE α] [DecidableLT α] [DecidableLE α] [BEq α]
  [Min α] [Max α]

/-! ### the loop without the guard -/

/-- inner loop without counters and clamp branch -/
def segLoopU (box : Bound α) : Nat → Pt α → Pt α → Nat → Nat → Seg α
  | 0, _, _, _, _ => .stuck
  | fuel+1, a, b, codeA, codeB =>
    if codeA ||| codeB = 0 then .accept a b codeB
    else if codeA &&& codeB ≠ 0 then .reject
    else if codeA ≠ 0 then
      match intersect box codeA a b with
      | some a' => segLoopU box fuel a' b (bitCode box a') codeB
      | none => .stuck
    else
      match intersect box codeB a b with
      | some b' => segLoopU box fuel a b' codeA (bitCode box b')
      | none => .stuck

/-- `lineStep` over `segLoopU` -/
def lineStepU (box : Bound α) (isOpen : Bool) (st : LineSt α) (a b : Pt α) (last : Bool) : LineSt α :=
  let codeB := if isOpen then bitCodeOpen box b else bitCode box b
  let endCode := codeB
  match segLoopU box 8 a b st.codeA codeB with
  | .accept a' b' codeB' =>
    let out := push st.out st.line a'
    if codeB' ≠ endCode then
      let out := push out st.line b'
      { out := out, line := if last then st.line else st.line + 1, codeA := endCode, stuck := st.stuck }
    else if last then
      { out := push out st.line b', line := st.line, codeA := endCode, stuck := st.stuck }
    else { out := out, line := st.line, codeA := endCode, stuck := st.stuck }
  | .reject => { st with codeA := endCode }
  | .stuck => { st with codeA := endCode, stuck := true }

/-- the outer step agrees as soon as the inner loops agree on this segment -/
theorem lineStep_eq_lineStepU {box : Bound α} {isOpen : Bool} {st : LineSt α} {a b : Pt α} (last : Bool)
    (h : segLoop box isOpen 8 a b st.codeA (if isOpen then bitCodeOpen box b else bitCode box b) 0 0 =
      segLoopU box 8 a b st.codeA (if isOpen then bitCodeOpen box b else bitCode box b)) :
    lineStep box isOpen st a b last = lineStepU box isOpen st a b last := by
  unfold lineStep lineStepU
  simp only [h]
  generalize segLoopU box 8 a b st.codeA (if isOpen then bitCodeOpen box b else bitCode box b) = r
  cases r <;> rfl

/-! ### the sixteen codes -/

/-- number of bits of a region code -/
def bitCount (c : Nat) : Nat := c % 2 + c / 2 % 2 + c / 4 % 2 + c / 8 % 2

theorem bitCode_lt16 (box : Bound α) (p : Pt α) : bitCode box p < 16 := by
  unfold bitCode
  simp only [clip_codeLeft, clip_codeRight, clip_codeBottom, clip_codeTop]
  split_ifs <;> decide

theorem bitCodeOpen_lt16 (box : Bound α) (p : Pt α) : bitCodeOpen box p < 16 := by
  unfold bitCodeOpen
  simp only [clip_codeLeft, clip_codeRight, clip_codeBottom, clip_codeTop]
  split_ifs <;> decide

/-- a code computed by `bitCode` has at most one bit per axis -/
theorem bitCount_bitCode_le (box : Bound α) (p : Pt α) : bitCount (bitCode box p) ≤ 2 := by
  unfold bitCode
  simp only [clip_codeLeft, clip_codeRight, clip_codeBottom, clip_codeTop]
  split_ifs <;> decide

theorem bitCount_bitCodeOpen_le (box : Bound α) (p : Pt α) : bitCount (bitCodeOpen box p) ≤ 2 := by
  unfold bitCodeOpen
  simp only [clip_codeLeft, clip_codeRight, clip_codeBottom, clip_codeTop]
  split_ifs <;> decide

theorem bitCount_or_le : ∀ c < 16, ∀ c' < 16, bitCount (c ||| c') ≤ bitCount c + bitCount c' := by decide

theorem bitCount_or_gt : ∀ c < 16, ∀ c' < 16, c ≠ 0 → c &&& c' = 0 → bitCount c' < bitCount (c ||| c') := by
  decide

theorem bitCount_eq_zero : ∀ c < 16, bitCount c = 0 → c = 0 := by decide

/-- `intersect` finds an edge for every non-zero code (`panic("no edge??")` is unreachable) -/
theorem intersect_isSome (box : Bound α) {c : Nat} (hc : c < 16) (h0 : c ≠ 0) (a b : Pt α) :
    ∃ p, intersect box c a b = some p := by
  unfold intersect
  simp only [clip_codeLeft, clip_codeRight, clip_codeBottom, clip_codeTop]
  interval_cases c <;> first | exact absurd rfl h0 | exact ⟨_, rfl⟩

/-! ### with the guard the loop always ends: any arithmetic -/

/-- rounds an end can still cost: three (two clips and the snap) minus the clips made, none once its code is 0 -/
def endPot (c n : Nat) : Nat := if c = 0 then 0 else 3 - n

theorem endPot_zero (n : Nat) : endPot 0 n = 0 := rfl
theorem endPot_ne {c : Nat} (h : c ≠ 0) (n : Nat) : endPot c n = 3 - n := if_neg h
theorem endPot_le (c n : Nat) : endPot c n ≤ 3 - n := by
  unfold endPot; split_ifs <;> omega

theorem segLoop_ne_stuck (box : Bound α) (isOpen : Bool) :
    ∀ (fuel : Nat) (a b : Pt α) (cA cB nA nB : Nat), cA < 16 → cB < 16 → nA ≤ 2 → nB ≤ 2 →
      endPot cA nA + endPot cB nB < fuel → segLoop box isOpen fuel a b cA cB nA nB ≠ .stuck := by
  intro fuel
  induction fuel with
  | zero => intro a b cA cB nA nB _ _ _ _ h; omega
  | succ n ih =>
    intro a b cA cB nA nB hA hB hnA hnB hpot
    rw [segLoop]
    split_ifs with h1 h2 h3 h4 h5 h6
    · simp
    · simp
    · -- start end snapped
      refine ih _ _ _ _ _ _ (by decide) hB hnA hnB ?_
      rw [endPot_ne h3, h4] at hpot
      rw [endPot_zero]
      omega
    · -- start end clipped
      obtain ⟨p, hp⟩ := intersect_isSome box hA h3 a b
      rw [hp]
      refine ih _ _ _ _ _ _ (bitCode_lt16 box p) hB (by omega) hnB ?_
      rw [endPot_ne h3] at hpot
      have := endPot_le (bitCode box p) (nA + 1)
      omega
    · -- far end on the boundary kept (open bound)
      have hA0 : cA = 0 := not_not.1 h3
      have hB0 : cB ≠ 0 := by
        rintro rfl; apply h1; rw [hA0]; rfl
      refine ih _ _ _ _ _ _ hA (by decide) hnA hnB ?_
      rw [endPot_ne hB0] at hpot
      rw [endPot_zero]
      omega
    · -- far end snapped
      have hA0 : cA = 0 := not_not.1 h3
      have hB0 : cB ≠ 0 := by
        rintro rfl; apply h1; rw [hA0]; rfl
      refine ih _ _ _ _ _ _ hA (by decide) hnA hnB ?_
      rw [endPot_ne hB0, h6] at hpot
      rw [endPot_zero]
      omega
    · -- far end clipped
      have hA0 : cA = 0 := not_not.1 h3
      have hB0 : cB ≠ 0 := by
        rintro rfl; apply h1; rw [hA0]; rfl
      obtain ⟨p, hp⟩ := intersect_isSome box hB hB0 a b
      rw [hp]
      refine ih _ _ _ _ _ _ hA (bitCode_lt16 box p) hnA (by omega) ?_
      rw [endPot_ne hB0] at hpot
      have := endPot_le (bitCode box p) (nB + 1)
      omega

/-- eight rounds are enough from the start of a segment -/
theorem segLoop_start_ne_stuck (box : Bound α) (isOpen : Bool) (a b : Pt α) {cA cB : Nat} (hA : cA < 16)
    (hB : cB < 16) : segLoop box isOpen 8 a b cA cB 0 0 ≠ .stuck := by
  refine segLoop_ne_stuck box isOpen 8 a b cA cB 0 0 hA hB (by omega) (by omega) ?_
  have := endPot_le cA 0
  have := endPot_le cB 0
  omega

theorem lineStep_any (box : Bound α) (isOpen : Bool) (st : LineSt α) (a b : Pt α) (last : Bool)
    (hc : st.codeA < 16) :
    (lineStep box isOpen st a b last).stuck = st.stuck ∧ (lineStep box isOpen st a b last).codeA < 16 := by
  have hB : (if isOpen then bitCodeOpen box b else bitCode box b) < 16 := by
    cases isOpen
    · exact bitCode_lt16 box b
    · exact bitCodeOpen_lt16 box b
  have hns := segLoop_start_ne_stuck box isOpen a b hc hB
  unfold lineStep
  simp only []
  generalize (if isOpen then bitCodeOpen box b else bitCode box b) = cb at hB hns ⊢
  generalize segLoop box isOpen 8 a b st.codeA cb 0 0 = r at hns
  cases r with
  | accept a' b' c => dsimp only; split_ifs <;> exact ⟨rfl, hB⟩
  | reject => exact ⟨rfl, hB⟩
  | stuck => exact absurd rfl hns

theorem lineLoop_any (box : Bound α) (isOpen : Bool) :
    ∀ (inp : List (Pt α)) (st : LineSt α), st.codeA < 16 →
      (lineLoop box isOpen st inp).stuck = st.stuck := by
  intro inp
  induction inp with
  | nil => intro st _; rw [lineLoop]; intro _ _ _ h; simp at h
  | cons a rest ih =>
    intro st hc
    cases rest with
    | nil => rw [lineLoop]; intro _ _ _ h; simp at h
    | cons b rest =>
      rw [lineLoop]
      obtain ⟨h1, h2⟩ := lineStep_any box isOpen st a b rest.isEmpty hc
      rw [ih _ h2, h1]

/-- TOTALITY FOR ANY ARITHMETIC: `line` returns a value for every box (of any shape), every option and
    every input, whatever `+ - * / < ≤` do on the coordinate type — in particular on `Float`. -/
theorem line_total_any' (box : Bound α) (isOpen : Bool) (inp : List (Pt α)) :
    ∃ out, line box isOpen inp = some out := by
  unfold line
  cases inp with
  | nil => exact ⟨[], rfl⟩
  | cons p rest =>
    have hc : (if isOpen then bitCodeOpen box p else bitCode box p) < 16 := by
      cases isOpen
      · exact bitCode_lt16 box p
      · exact bitCodeOpen_lt16 box p
    have := lineLoop_any box isOpen (p :: rest) ⟨[], 0, if isOpen then bitCodeOpen box p else bitCode box p, false⟩ hc
    simp only [this]
    exact ⟨_, rfl⟩

/-! ### the bridge: when every clip lowers the bit count, the guard is never used -/

/-- a segment decided in the first round: both loops do the same, whatever the arithmetic -/
theorem segLoop_eq_segLoopU_decided (box : Bound α) (isOpen : Bool) (n : Nat) (a b : Pt α) {cA cB : Nat}
    (nA nB : Nat) (h : cA ||| cB = 0 ∨ cA &&& cB ≠ 0) :
    segLoop box isOpen (n + 1) a b cA cB nA nB = segLoopU box (n + 1) a b cA cB := by
  rw [segLoop, segLoopU]
  rcases h with h | h
  · rw [if_pos h, if_pos h]
  · by_cases h1 : cA ||| cB = 0
    · rw [if_pos h1, if_pos h1]
    · rw [if_neg h1, if_neg h1, if_pos h, if_pos h]

/-- `Inv` is kept by a clip of either end and every clip strictly lowers the number of code bits
    (`hA`, `hB`: what exact arithmetic provides).  Then an end is clipped at most as often as its code
    has bits — at most twice — and the clamp branch of `segLoop` is unreachable.
    `Fresh` holds as long as the far end has not been clipped and is kept by a clip of the start end
    (`hFA`); under it the own-intersection arm of the open bound agrees with `intersect` (`hArm`). -/
theorem segLoop_eq_segLoopU_of (box : Bound α) (isOpen : Bool) (Inv Fresh : Pt α → Pt α → Nat → Nat → Prop)
    (hlt : ∀ a b cA cB, Inv a b cA cB → cA < 16 ∧ cB < 16)
    (hA : ∀ a b cA cB, Inv a b cA cB → cA ≠ 0 → cA &&& cB = 0 → ∀ a', intersect box cA a b = some a' →
      Inv a' b (bitCode box a') cB ∧ bitCount (bitCode box a' ||| cB) < bitCount (cA ||| cB))
    (hFA : ∀ a b cA cB, Inv a b cA cB → Fresh a b cA cB → cA ≠ 0 → cA &&& cB = 0 →
      ∀ a', intersect box cA a b = some a' → Fresh a' b (bitCode box a') cB)
    (hB : ∀ a b cB, Inv a b 0 cB → cB ≠ 0 → ∀ b', intersect box cB a b = some b' →
      Inv a b' 0 (bitCode box b') ∧ bitCount (bitCode box b') < bitCount cB)
    (hArm : isOpen = true → ∀ a b cB, Inv a b 0 cB → Fresh a b 0 cB → cB ≠ 0 → bitCode box b = 0 →
      intersect box cB a b = some b) :
    ∀ (fuel : Nat) (a b : Pt α) (cA cB nA nB : Nat), Inv a b cA cB → (nB = 0 → Fresh a b cA cB) →
      nA + bitCount (cA ||| cB) ≤ 2 + bitCount cB → nB + bitCount cB ≤ 2 →
      segLoop box isOpen fuel a b cA cB nA nB = segLoopU box fuel a b cA cB := by
  intro fuel
  induction fuel with
  | zero => intro a b cA cB nA nB _ _ _ _; rfl
  | succ n ih =>
    intro a b cA cB nA nB hI hF hiA hiB
    obtain ⟨hcA, hcB⟩ := hlt a b cA cB hI
    rw [segLoop, segLoopU]
    split_ifs with h1 h2 h3 h4 h5 h6
    · rfl
    · rfl
    · -- start end already clipped twice: impossible
      exfalso
      have := bitCount_or_gt cA hcA cB hcB h3 (not_not.1 h2)
      omega
    · cases hint : intersect box cA a b with
      | none => rfl
      | some a' =>
        obtain ⟨hI', hdec⟩ := hA a b cA cB hI h3 (not_not.1 h2) a' hint
        exact ih a' b _ cB (nA + 1) nB hI'
          (fun h0 => hFA a b cA cB hI (hF h0) h3 (not_not.1 h2) a' hint) (by omega) hiB
    · -- open bound, far end on the boundary: `intersect` returns it
      have hA0 : cA = 0 := not_not.1 h3
      subst hA0
      have hB0 : cB ≠ 0 := by
        rintro rfl; exact h1 rfl
      obtain ⟨ho, hn0, hbc⟩ := h5
      have hint := hArm ho a b cB hI (hF hn0) hB0 hbc
      simp only [hint, hbc]
      cases n with
      | zero => rfl
      | succ m => exact segLoop_eq_segLoopU_decided box isOpen m a b (cA := 0) (cB := 0) nA nB (Or.inl rfl)
    · -- far end already clipped twice: impossible
      exfalso
      have hA0 : cA = 0 := not_not.1 h3
      have hB0 : cB ≠ 0 := by
        rintro rfl; apply h1; rw [hA0]; rfl
      have : bitCount cB = 0 := by omega
      exact hB0 (bitCount_eq_zero cB hcB this)
    · have hA0 : cA = 0 := not_not.1 h3
      subst hA0
      have hB0 : cB ≠ 0 := by
        rintro rfl; exact h1 rfl
      cases hint : intersect box cB a b with
      | none => rfl
      | some b' =>
        obtain ⟨hI', hdec⟩ := hB a b cB hI hB0 b' hint
        rw [Nat.zero_or] at hiA
        exact ih a b' 0 _ nA (nB + 1) hI' (fun h0 => by omega) (by rw [Nat.zero_or]; omega) (by omega)

end Orb.Clip
