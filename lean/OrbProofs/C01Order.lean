/-
  C01 — the byte-order VALUE given to the encoder (`Orb.WKBOrder`): primed lemmas.
  The headline statements are in OrbProofs/C01.lean.
-/
import OrbProofs.C01Lemmas
import Orb.WKBOrder

namespace Orb.WKB
open Orb

theorem encPointM_same (o : Order) (srid : Nat) (p : Pt UInt64) : encPointM o o srid p = encPoint o srid p := rfl

theorem encLineStringM_same (o : Order) (srid : Nat) (ps : List (Pt UInt64)) :
    encLineStringM o o srid ps = encLineString o srid ps := rfl

theorem encPolygonM_same (o : Order) (srid : Nat) (rs : List (List (Pt UInt64))) :
    encPolygonM o o srid rs = encPolygon o srid rs := rfl

theorem encMultiPointM_same (o : Order) (srid : Nat) (ps : List (Pt UInt64)) :
    encMultiPointM o o srid ps = encMultiPoint o srid ps := rfl

theorem encMultiLineStringM_same (o : Order) (srid : Nat) (ls : List (List (Pt UInt64))) :
    encMultiLineStringM o o srid ls = encMultiLineString o srid ls := rfl

theorem encMultiPolygonM_same (o : Order) (srid : Nat) (ps : List (List (List (Pt UInt64)))) :
    encMultiPolygonM o o srid ps = encMultiPolygon o srid ps := rfl

/-- Mark and payload in the same order: the encoder of `Orb.WKB`. -/
theorem encGeomM_same' (o : Order) : ∀ (srid : Nat) (g : G), encGeomM o o srid g = encGeom o srid g
  | srid, .collection gs => by simp only [encGeomM, encGeom, encListM_same o gs]
  | _, .point _ => by simp only [encGeomM, encGeom, encPointM_same]
  | _, .multiPoint _ => by simp only [encGeomM, encGeom, encMultiPointM_same]
  | _, .lineString _ => by simp only [encGeomM, encGeom, encLineStringM_same]
  | _, .multiLineString _ => by simp only [encGeomM, encGeom, encMultiLineStringM_same]
  | _, .ring _ => by simp only [encGeomM, encGeom, encPolygonM_same]
  | _, .polygon _ => by simp only [encGeomM, encGeom, encPolygonM_same]
  | _, .multiPolygon _ => by simp only [encGeomM, encGeom, encMultiPolygonM_same]
  | _, .bound _ _ => by simp only [encGeomM, encGeom, encPolygonM_same]
where
  encListM_same (o : Order) : ∀ (gs : List G), encGeomM.encListM o o gs = encGeom.encList o gs
    | [] => by simp only [encGeomM.encListM, encGeom.encList]
    | g :: gs => by simp only [encGeomM.encListM, encGeom.encList, encGeomM_same' o 0 g, encListM_same o gs]

/-- Whatever the byte-order value is, the mark is the order of its payload: the encoder of `Orb.WKB`. -/
theorem encodeBO_eq' (isLE : Bool) (o : Order) (srid : Nat) (g : G) :
    encodeBO isLE o srid (.val g) = encGeom o srid g := by
  simp [encodeBO, codeMark, encGeomM_same']

theorem byte_order_roundtrip' (isLE : Bool) (o : Order) (srid : Nat) (g : G) (hw : WF32 g) (hs : srid < 2^32)
    (hd : collDepth g ≤ Generated.Params.wkb_MaxCollectionDepth) :
    unmarshal (encodeBO isLE o srid (.val g)) = .ok (canon g, srid) ∧
    decode (encodeBO isLE o srid (.val g)) = .ok (canon g, srid) := by
  rw [encodeBO_eq']
  exact ⟨unmarshal_encode' o srid g hw hs hd, decode_encode' o srid g hw hs hd⟩

end Orb.WKB
