/-
  C15, the memory clause — "applying a projection to a geometry transforms every vertex IN PLACE":
  theorems about the heap-level model `Orb.HeapOps.projectH` of project.Geometry
  (project/helpers.go: every helper is `for i := range s { s[i] = proj(s[i]) }` and returns `s`).

  A geometry is a tree of Go slice headers (array identity, offset, length, capacity) into a store
  of backing arrays; `projectH σ g f` is the store afterwards and the returned value.

  * `project_cell`      THE law, for every argument whatsoever (overlapping, repeated, nested slices):
                        afterwards each cell of the heap holds `f` applied once per header occurrence
                        that covers it — 0 times: frame; once: in place; twice: see `project_aliasing`.
  * `project_in_place`  the returned value has the SAME headers as the argument (identities, offsets,
                        lengths, capacities; points and bounds come back by value), and when no cell
                        is reachable twice every slice of the argument reads `map f` of its old
                        contents.
  * `project_frame`     arrays not reachable from the argument are unchanged (cell-level:
                        `project_frame_cell`); no array changes its size, none is allocated.
  * `project_denote`    link to the value-level model of C15 (`Orb.Project.geometry`, about which
                        OrbProofs.C15 proves `project_map`, `project_pure`, `project_shape`, …): without
                        overlap, the returned headers denote, in the new store, exactly the value-level
                        projection of what the argument denoted in the old store.
  * `project_aliasing`  what really happens when members share memory: a slice whose cells are each
                        covered k times holds `f^k` of its old contents.  The same ring twice in a
                        polygon, the same line twice in a collection: every vertex is projected TWICE
                        (`project_aliasing_same_twice`); a line and its own sub-slice: the shared
                        vertices twice, the others once (`project_aliasing_subslice`).  The value
                        returned is then NOT the value-level projection (`project_aliasing_not_value`).

  Stated for the raw order instances `projectH` needs (they only serve `project.Bound`), hence in
  particular over every linear order.  Proofs: OrbProofs/C15HeapLemmas.lean (core Lean only).
-/
import OrbProofs.C15HeapLemmas

namespace Orb.HeapOps
open Orb Orb.Heap Orb.Core

variable {α : Type} [LT α] [LE α] [DecidableLT α] [DecidableLE α] [Min α] [Max α]

/-- Every cell afterwards holds `f` applied once per header occurrence covering it. -/
theorem project_cell (σ : Store α) (g : SGeom α) (f : Pt α → Pt α) (a i : Nat) :
    cell (projectH σ g f).1 a i = (cell σ a i).map (iter f (coverCount (hdrs g) a i)) :=
  project_cell' σ g f a i

/-- The returned value is the argument's headers with points / bounds projected by value … -/
theorem project_returns (σ : Store α) (g : SGeom α) (f : Pt α → Pt α) :
    (projectH σ g f).2 = retS f g := projectH_snd' σ g f

/-- … so it has the SAME slice headers as the argument (array identities, offsets, lengths,
    capacities, in the same order), and without overlap each of them reads `map f` of its old
    contents. -/
theorem project_in_place (σ : Store α) (g : SGeom α) (f : Pt α → Pt α) :
    hdrs (projectH σ g f).2 = hdrs g ∧
    (NoOverlap g → ∀ h ∈ hdrs g, readH (projectH σ g f).1 h = (readH σ h).map f) :=
  ⟨by rw [projectH_snd', hdrs_retS'], fun hno h hm => project_in_place_contents' σ g f hno h hm⟩

/-- Nothing is allocated and no array changes its size. -/
theorem project_sizes (σ : Store α) (g : SGeom α) (f : Pt α → Pt α) :
    (projectH σ g f).1.length = σ.length ∧
    ∀ a, (read (projectH σ g f).1 a).length = (read σ a).length :=
  ⟨length_projectH' σ g f, read_length_projectH' σ g f⟩

/-- Frame: an array no header of the argument points into is unchanged. -/
theorem project_frame (σ : Store α) (g : SGeom α) (f : Pt α → Pt α) (a : Nat)
    (h : ∀ x ∈ hdrs g, x.arr ≠ a) : read (projectH σ g f).1 a = read σ a :=
  project_frame' σ g f a h

/-- Frame, cell by cell: a cell no slice of the argument covers is unchanged (also inside an array
    the argument does point into: before a slice's offset, beyond its length). -/
theorem project_frame_cell (σ : Store α) (g : SGeom α) (f : Pt α → Pt α) (a i : Nat)
    (h : coverCount (hdrs g) a i = 0) : cell (projectH σ g f).1 a i = cell σ a i :=
  project_frame_cell' σ g f a i h

/-- Link to the value level: without overlap, result-in-new-store = `Project.geometry f` of
    argument-in-old-store. -/
theorem project_denote (σ : Store α) (g : SGeom α) (f : Pt α → Pt α) (hno : NoOverlap g) :
    denoteS (projectH σ g f).1 (projectH σ g f).2 = Project.geometry f (denoteS σ g) :=
  project_denote' σ g f hno

/-- Aliasing: a slice each of whose cells is covered by `k` header occurrences of the argument
    holds `f` applied `k` times. -/
theorem project_aliasing (σ : Store α) (g : SGeom α) (f : Pt α → Pt α) (h : Hdr) (k : Nat)
    (hk : ∀ j, j < h.len → coverCount (hdrs g) h.arr (h.off + j) = k) :
    readH (projectH σ g f).1 h = (readH σ h).map (iter f k) :=
  project_aliasing' σ g f h k hk

/-- The same ring twice in a polygon, the same line twice in a collection, …: projected TWICE. -/
theorem project_aliasing_same_twice (σ : Store α) (f : Pt α → Pt α) (h : Hdr) :
    readH (projectH σ (.polygon [h, h]) f).1 h = (readH σ h).map (fun p => f (f p)) ∧
    readH (projectH σ (.multiLineString [h, h]) f).1 h = (readH σ h).map (fun p => f (f p)) ∧
    readH (projectH σ (.multiPolygon [[h], [h]]) f).1 h = (readH σ h).map (fun p => f (f p)) ∧
    readH (projectH σ (.collection [.lineString h, .lineString h]) f).1 h =
      (readH σ h).map (fun p => f (f p)) :=
  ⟨project_aliasing_same_twice' σ f h _ rfl, project_aliasing_same_twice' σ f h _ rfl,
   project_aliasing_same_twice' σ f h _ rfl, project_aliasing_same_twice' σ f h _ rfl⟩

/-- A line and its own sub-slice `h[s : s+n]` in a collection: vertex `j` of the line is projected
    twice if it lies in the sub-slice, once otherwise. -/
theorem project_aliasing_subslice (σ : Store α) (f : Pt α → Pt α) (h : Hdr) (s n c : Nat) (j : Nat) :
    (readH (projectH σ (.collection [.lineString h, .lineString ⟨h.arr, h.off + s, n, c⟩]) f).1 h)[j]? =
      ((readH σ h)[j]?).map (iter f (if s ≤ j ∧ j < s + n then 2 else 1)) :=
  project_aliasing_subslice' σ f h s n c _ rfl j

omit [LT α] [LE α] [DecidableLT α] [DecidableLE α] [Min α] [Max α] in
/-- The whole-array heap geometries of `Orb.Heap` (the model of C06, "Clone shares no memory")
    embed: same store, same denotation — so a clone (`Orb.Heap.clone`, fresh arrays only) can be
    projected without the original noticing, by `project_frame`. -/
theorem heap_embedding (σ : Store α) (g : HGeom α) : denoteS σ (ofHGeom σ g) = Heap.denote σ g :=
  denoteS_ofHGeom' σ g

/-- With shared memory the result is not the value-level projection: a polygon holding the same
    two-vertex ring twice, `f = (+1, ·2)` over the integers. -/
theorem project_aliasing_not_value :
    let σ : Store Int := [[⟨0, 1⟩, ⟨2, 3⟩]]
    let g : SGeom Int := .polygon [⟨0, 0, 2, 2⟩, ⟨0, 0, 2, 2⟩]
    let f : Pt Int → Pt Int := fun p => ⟨p.x + 1, p.y * 2⟩
    Project.verts (denoteS (projectH σ g f).1 (projectH σ g f).2) =
      [⟨2, 4⟩, ⟨4, 12⟩, ⟨2, 4⟩, ⟨4, 12⟩] ∧
    Project.verts (Project.geometry f (denoteS σ g)) = [⟨1, 2⟩, ⟨3, 6⟩, ⟨1, 2⟩, ⟨3, 6⟩] := by
  decide

/-- non-vacuity: a disjoint argument (two lines in two arrays and a point) satisfies `NoOverlap`,
    and `project_denote` computes on it -/
example :
    let σ : Store Int := [[⟨0, 1⟩, ⟨2, 3⟩, ⟨9, 9⟩], [⟨5, 5⟩]]
    let g : SGeom Int := .collection [.lineString ⟨0, 0, 2, 3⟩, .point ⟨7, 7⟩, .multiPoint ⟨1, 0, 1, 1⟩]
    let f : Pt Int → Pt Int := fun p => ⟨p.x + 1, p.y * 2⟩
    (projectH σ g f).1 = [[⟨1, 2⟩, ⟨3, 6⟩, ⟨9, 9⟩], [⟨6, 10⟩]] ∧
    Project.verts (denoteS (projectH σ g f).1 (projectH σ g f).2) =
      Project.verts (Project.geometry f (denoteS σ g)) := by
  decide

end Orb.HeapOps
