/-
  Helper lemmas for C10, part 2: length and distance.  The primed statements are re-exported by OrbProofs/C10.lean.
-/
import Orb.Planar
import OrbProofs.C06Lemmas
import Mathlib.Algebra.Order.Field.Basic
import Mathlib.Algebra.BigOperators.Group.List.Basic
import Mathlib.Order.Monotone.Basic
import Mathlib.Tactic.Ring
import Mathlib.Tactic.Linarith
import Mathlib.Tactic.FieldSimp
import Mathlib.Tactic.SplitIfs
import Mathlib.Tactic.LinearCombination

namespace Orb.Planar
open Orb Orb.Core

/-! ### spec-side vocabulary -/

/-- squared euclidean distance -/
def dist2 {α : Type} [Add α] [Sub α] [Mul α] (a b : Pt α) : α :=
  (a.x - b.x) * (a.x - b.x) + (a.y - b.y) * (a.y - b.y)

/-- the point `a + t (b − a)` -/
def lerp {α : Type} [Add α] [Sub α] [Mul α] (a b : Pt α) (t : α) : Pt α :=
  ⟨a.x + t * (b.x - a.x), a.y + t * (b.y - a.y)⟩

/-- consecutive pairs of a vertex list -/
def pairs {β : Type} (l : List β) : List (β × β) := l.zip l.tail

/-- every consecutive segment of every part of the geometry -/
def segments {α : Type} : Geom α → List (Pt α × Pt α)
  | .point _ | .multiPoint _ => []
  | .lineString l | .ring l => pairs l
  | .multiLineString ls | .polygon ls => ls.flatMap pairs
  | .multiPolygon mp => mp.flatMap fun pg => pg.flatMap pairs
  | .bound lo hi => pairs (boundRing lo hi)
  | .collection gs => segmentsL gs
where
  segmentsL {α : Type} : List (Geom α) → List (Pt α × Pt α)
    | [] => []
    | g :: t => segments g ++ segmentsL t

section
variable {α : Type} [Add α] [Sub α] [Mul α] [Div α] [OfNat α 0] [OfNat α 1] [BEq α] [LT α] [DecidableLT α]

/-- squared distances from `p` to the consecutive segments of a vertex list -/
def lineAtoms (p : Pt α) (l : List (Pt α)) : List α := (pairs l).map fun ab => segmentDistanceFromSquared ab.1 ab.2 p

/-- squared distances from `p` to every point (point kinds) / every consecutive segment (all other kinds) -/
def atoms (p : Pt α) : Geom α → List α
  | .point g => [distanceSquared g p]
  | .multiPoint mp => mp.map fun q => distanceSquared q p
  | .lineString l | .ring l => lineAtoms p l
  | .multiLineString ls | .polygon ls => ls.flatMap (lineAtoms p)
  | .multiPolygon mp => mp.flatMap fun pg => pg.flatMap (lineAtoms p)
  | .bound lo hi => lineAtoms p (boundRing lo hi)
  | .collection gs => atomsL gs
where
  atomsL : List (Geom α) → List α
    | [] => []
    | g :: t => atoms p g ++ atomsL t
end

section lengthdist
set_option linter.unusedSectionVars false
variable {α : Type} [Field α] [LinearOrder α] [IsStrictOrderedRing α]

/-! ### squared distances -/

theorem dist2_nonneg (p q : Pt α) : 0 ≤ dist2 p q := by
  unfold dist2
  nlinarith [mul_self_nonneg (p.x - q.x), mul_self_nonneg (p.y - q.y)]

theorem dist2_eq_zero_iff (p q : Pt α) : dist2 p q = 0 ↔ p = q := by
  obtain ⟨px, py⟩ := p
  obtain ⟨qx, qy⟩ := q
  simp only [dist2, Pt.mk.injEq]
  constructor
  · intro h
    have h1 : (px - qx) * (px - qx) = 0 := by
      nlinarith [mul_self_nonneg (px - qx), mul_self_nonneg (py - qy)]
    have h2 : (py - qy) * (py - qy) = 0 := by
      nlinarith [mul_self_nonneg (px - qx), mul_self_nonneg (py - qy)]
    exact ⟨sub_eq_zero.1 (mul_self_eq_zero.1 h1), sub_eq_zero.1 (mul_self_eq_zero.1 h2)⟩
  · rintro ⟨rfl, rfl⟩
    ring

theorem distanceSquared_eq_dist2 (q p : Pt α) : distanceSquared q p = dist2 q p := rfl

/-- the quadratic `t ↦ |p − lerp a b t|²` -/
theorem dist2_lerp_sub (a b p : Pt α) (t0 : α)
    (h : t0 * ((b.x - a.x) * (b.x - a.x) + (b.y - a.y) * (b.y - a.y)) =
      (p.x - a.x) * (b.x - a.x) + (p.y - a.y) * (b.y - a.y)) (s t : α) :
    dist2 p (lerp a b t) - dist2 p (lerp a b s) =
      ((b.x - a.x) * (b.x - a.x) + (b.y - a.y) * (b.y - a.y)) * ((t - s) * (t + s - 2 * t0)) := by
  simp only [dist2, lerp]
  linear_combination (2 * (t - s)) * h


/-! ### length -/

theorem pairs_cons_cons {β : Type} (a b : β) (t : List β) : pairs (a :: b :: t) = (a, b) :: pairs (b :: t) := rfl

theorem pairs_nil {β : Type} : pairs ([] : List β) = [] := rfl

theorem pairs_singleton {β : Type} (a : β) : pairs [a] = [] := rfl

theorem lineStringLength_eq (sqrt : α → α) (l : List (Pt α)) (acc : α) :
    lineStringLength sqrt l acc = acc + ((pairs l).map fun ab => sqrt (dist2 ab.1 ab.2)).sum := by
  induction l generalizing acc with
  | nil => simp [lineStringLength, pairs_nil]
  | cons a t ih =>
    cases t with
    | nil => simp [lineStringLength, pairs_singleton]
    | cons b t =>
      rw [lineStringLength, ih, pairs_cons_cons, List.map_cons, List.sum_cons, add_assoc]
      congr 2
      simp only [distance, dist2]
      congr 1
      ring

theorem foldl_add_eq {β : Type} (f : β → α) (l : List β) (acc : α) :
    l.foldl (fun sum x => sum + f x) acc = acc + (l.map f).sum := by
  induction l generalizing acc with
  | nil => simp
  | cons a t ih => rw [List.foldl_cons, ih, List.map_cons, List.sum_cons, add_assoc]

theorem sum_map_flatMap {β γ : Type} (g : γ → α) (f : β → List γ) (l : List β) :
    ((l.flatMap f).map g).sum = (l.map fun x => ((f x).map g).sum).sum := by
  induction l with
  | nil => simp
  | cons a t ih => simp [List.flatMap_cons, ih]

theorem polygonLength_eq (sqrt : α → α) (pg : List (List (Pt α))) :
    polygonLength sqrt pg = ((pg.flatMap pairs).map fun ab => sqrt (dist2 ab.1 ab.2)).sum := by
  rw [polygonLength, foldl_add_eq, sum_map_flatMap, zero_add]
  congr 1
  apply List.map_congr_left
  intro r _
  rw [lineStringLength_eq, zero_add]

theorem lenLoop_eq (sqrt : α → α) (gs : List (Geom α))
    (h : ∀ g ∈ gs, length sqrt g = ((segments g).map fun ab => sqrt (dist2 ab.1 ab.2)).sum) (acc : α) :
    length.lenLoop sqrt gs acc = acc + ((segments.segmentsL gs).map fun ab => sqrt (dist2 ab.1 ab.2)).sum := by
  induction gs generalizing acc with
  | nil => simp [length.lenLoop, segments.segmentsL]
  | cons g t ih =>
    rw [length.lenLoop, ih (fun g hg => h g (List.mem_cons_of_mem _ hg)), h g List.mem_cons_self,
      segments.segmentsL, List.map_append, List.sum_append, add_assoc]

theorem length_sum' (sqrt : α → α) (g : Geom α) :
    length sqrt g = ((segments g).map fun ab => sqrt (dist2 ab.1 ab.2)).sum := by
  induction g using Geom.ind with
  | h1 p => simp [length, segments]
  | h2 ps => simp [length, segments]
  | h3 ps => rw [length, segments, lineStringLength_eq, zero_add]
  | h4 ls => exact polygonLength_eq sqrt ls
  | h5 ps => rw [length, segments, lineStringLength_eq, zero_add]
  | h6 rs => rw [length, segments, polygonLength_eq]
  | h7 mp =>
    rw [length, segments, foldl_add_eq, sum_map_flatMap, zero_add]
    congr 1
    apply List.map_congr_left
    intro pg _
    rw [polygonLength_eq]
  | h8 a b => rw [length, segments, lineStringLength_eq, zero_add]
  | hc gs ih => rw [length, segments, lenLoop_eq sqrt gs ih, zero_add]

theorem segdist_min' (a b p : Pt α) :
    (∃ t, 0 ≤ t ∧ t ≤ 1 ∧ segmentDistanceFromSquared a b p = dist2 p (lerp a b t)) ∧
    ∀ t, 0 ≤ t → t ≤ 1 → segmentDistanceFromSquared a b p ≤ dist2 p (lerp a b t) := by
  by_cases hd : (b.x - a.x != 0 || b.y - a.y != 0) = true
  · -- proper segment
    have hd' : b.x - a.x ≠ 0 ∨ b.y - a.y ≠ 0 := by
      simpa only [Bool.or_eq_true, bne_iff_ne] using hd
    have hL : 0 < (b.x - a.x) * (b.x - a.x) + (b.y - a.y) * (b.y - a.y) := by
      rcases hd' with h | h
      · nlinarith [mul_self_pos.2 h, mul_self_nonneg (b.y - a.y)]
      · nlinarith [mul_self_pos.2 h, mul_self_nonneg (b.x - a.x)]
    obtain ⟨t0, ht0⟩ : ∃ t0, t0 = ((p.x - a.x) * (b.x - a.x) + (p.y - a.y) * (b.y - a.y)) /
        ((b.x - a.x) * (b.x - a.x) + (b.y - a.y) * (b.y - a.y)) := ⟨_, rfl⟩
    have h0 : t0 * ((b.x - a.x) * (b.x - a.x) + (b.y - a.y) * (b.y - a.y)) =
        (p.x - a.x) * (b.x - a.x) + (p.y - a.y) * (b.y - a.y) := by
      rw [ht0]; exact div_mul_cancel₀ _ hL.ne'
    have key := dist2_lerp_sub a b p t0 h0
    have hval : ∀ s, segmentDistanceFromSquared a b p = dist2 p (lerp a b s) →
        (∀ t, 0 ≤ t → t ≤ 1 → 0 ≤ (t - s) * (t + s - 2 * t0)) → 0 ≤ s → s ≤ 1 →
        (∃ t, 0 ≤ t ∧ t ≤ 1 ∧ segmentDistanceFromSquared a b p = dist2 p (lerp a b t)) ∧
        ∀ t, 0 ≤ t → t ≤ 1 → segmentDistanceFromSquared a b p ≤ dist2 p (lerp a b t) := by
      intro s hs hq h0s hs1
      refine ⟨⟨s, h0s, hs1, hs⟩, fun t ht0' ht1 => ?_⟩
      rw [hs]
      have := key s t
      have h2 := mul_nonneg hL.le (hq t ht0' ht1)
      linarith
    by_cases h1 : 1 < t0
    · refine hval 1 ?_ ?_ zero_le_one le_rfl
      · simp only [segmentDistanceFromSquared, hd, if_true, ← ht0, h1, dist2, lerp]
        ring
      · intro t _ ht1
        nlinarith
    · by_cases h2 : 0 < t0
      · refine hval t0 ?_ ?_ h2.le (not_lt.1 h1)
        · simp only [segmentDistanceFromSquared, hd, if_true, ← ht0, h1, h2, if_false, dist2, lerp]
          ring
        · intro t _ _
          nlinarith [mul_self_nonneg (t - t0)]
      · refine hval 0 ?_ ?_ le_rfl zero_le_one
        · simp only [segmentDistanceFromSquared, hd, if_true, ← ht0, h1, h2, if_false, dist2, lerp]
          ring
        · intro t ht _
          have := not_lt.1 h2
          nlinarith
  · -- degenerate segment
    have hd' : b.x - a.x = 0 ∧ b.y - a.y = 0 := by
      have : ¬ (b.x - a.x ≠ 0 ∨ b.y - a.y ≠ 0) := by
        simpa only [Bool.or_eq_true, bne_iff_ne] using hd
      exact ⟨not_not.1 fun h => this (Or.inl h), not_not.1 fun h => this (Or.inr h)⟩
    have hv : ∀ t, segmentDistanceFromSquared a b p = dist2 p (lerp a b t) := by
      intro t
      simp only [segmentDistanceFromSquared, dist2, lerp, hd'.1, hd'.2]
      simp
    exact ⟨⟨0, le_rfl, zero_le_one, hv 0⟩, fun t _ _ => (hv t).le⟩

theorem segdist_zero_iff' (a b p : Pt α) :
    segmentDistanceFromSquared a b p = 0 ↔ ∃ t, 0 ≤ t ∧ t ≤ 1 ∧ p = lerp a b t := by
  obtain ⟨⟨s, hs0, hs1, hs⟩, hmin⟩ := segdist_min' a b p
  constructor
  · intro h
    exact ⟨s, hs0, hs1, (dist2_eq_zero_iff _ _).1 (hs ▸ h)⟩
  · rintro ⟨t, ht0, ht1, ht⟩
    have h1 := hmin t ht0 ht1
    rw [(dist2_eq_zero_iff p (lerp a b t)).2 ht] at h1
    have h2 : 0 ≤ segmentDistanceFromSquared a b p := hs ▸ dist2_nonneg _ _
    exact le_antisymm h1 h2

theorem segdist_nonneg (a b p : Pt α) : 0 ≤ segmentDistanceFromSquared a b p := by
  obtain ⟨⟨s, _, _, hs⟩, _⟩ := segdist_min' a b p
  exact hs ▸ dist2_nonneg _ _

theorem distanceSquared_zero_iff' (q p : Pt α) : distanceSquared q p = 0 ↔ q = p :=
  dist2_eq_zero_iff q p

theorem distanceSquared_nonneg (q p : Pt α) : 0 ≤ distanceSquared q p := dist2_nonneg q p

/-! ### running minimum -/

/-- minimum of two optional values, `none` = +∞ -/
def omin {β : Type} [Min β] : Option β → Option β → Option β
  | none, y => y
  | some a, none => some a
  | some a, some b => some (min a b)

omit [Field α] [IsStrictOrderedRing α] in
theorem omin_none_right (x : Option α) : omin x none = x := by cases x <;> rfl

omit [Field α] [IsStrictOrderedRing α] in
theorem omin_assoc (x y z : Option α) : omin (omin x y) z = omin x (omin y z) := by
  cases x <;> cases y <;> cases z <;> simp [omin, min_assoc]

omit [Field α] [IsStrictOrderedRing α] in
theorem omin_some_min? (a : α) (l : List α) : omin (some a) l.min? = (a :: l).min? := by
  rw [List.min?_cons]
  cases l.min? <;> simp [omin]

omit [Field α] [IsStrictOrderedRing α] in
theorem min?_append_eq (l₁ l₂ : List α) : (l₁ ++ l₂).min? = omin l₁.min? l₂.min? := by
  induction l₁ with
  | nil => simp [omin]
  | cons a t ih => rw [List.cons_append, ← omin_some_min?, ih, ← omin_assoc, omin_some_min?]

omit [Field α] [IsStrictOrderedRing α] in
theorem omin_map {f : α → α} (hf : Monotone f) (x y : Option α) :
    omin (x.map f) (y.map f) = (omin x y).map f := by
  cases x <;> cases y <;> simp [omin, hf.map_min]

omit [Field α] [IsStrictOrderedRing α] in
theorem minStep_fst (s : Option α × Int) (d : Option α) (i : Int) : (minStep s d i).1 = omin s.1 d := by
  obtain ⟨s1, s2⟩ := s
  unfold minStep
  cases s1 <;> cases d <;> simp only [optLt, omin]
  · simp
  · simp
  · simp
  · rename_i a b
    by_cases h : b < a
    · simp [h, min_eq_right h.le]
    · simp [h, min_eq_left (not_lt.1 h)]

omit [Field α] [IsStrictOrderedRing α] in
theorem optLt_ite_fst (s d : Option α × Int) : (if optLt d.1 s.1 then d else s).1 = omin s.1 d.1 := by
  have := minStep_fst s d.1 d.2
  unfold minStep at this
  rw [← this]

theorem lineAtoms_nil (p : Pt α) : lineAtoms p [] = [] := rfl

theorem lineAtoms_singleton (p a : Pt α) : lineAtoms p [a] = [] := rfl

theorem lineAtoms_cons_cons (p a b : Pt α) (t : List (Pt α)) :
    lineAtoms p (a :: b :: t) = segmentDistanceFromSquared a b p :: lineAtoms p (b :: t) := rfl

theorem lineDistLoop_fst (p : Pt α) (l : List (Pt α)) (i : Nat) (s : Option α × Int) :
    (lineDistLoop p l i s).1 = omin s.1 (lineAtoms p l).min? := by
  induction l generalizing i s with
  | nil => simp [lineDistLoop, lineAtoms_nil, omin_none_right]
  | cons a t ih =>
    cases t with
    | nil => simp [lineDistLoop, lineAtoms_singleton, omin_none_right]
    | cons b t =>
      rw [lineDistLoop, ih, minStep_fst, omin_assoc, lineAtoms_cons_cons, omin_some_min?]

theorem lineStringDistanceFrom_fst (sqrt : α → α) (l : List (Pt α)) (p : Pt α) :
    (lineStringDistanceFrom sqrt l p).1 = (lineAtoms p l).min?.map sqrt := by
  simp only [lineStringDistanceFrom, lineDistLoop_fst, omin]

theorem foldl_zipIdx_minStep_fst {β : Type} (sqrt : α → α) (hm : Monotone sqrt) (F : β → Option α)
    (g : β → List α) (hF : ∀ x, F x = (g x).min?.map sqrt) (l : List β) (k : Nat) (s : Option α × Int)
    (X : Option α) (hs : s.1 = X.map sqrt) :
    ((l.zipIdx k).foldl (fun s (xi : β × Nat) => minStep s (F xi.1) xi.2) s).1 =
      (omin X (l.flatMap g).min?).map sqrt := by
  induction l generalizing k s X with
  | nil => simp [hs, omin_none_right]
  | cons a t ih =>
    rw [List.zipIdx_cons, List.foldl_cons, ih (k + 1) _ (omin X (g a).min?), List.flatMap_cons,
      min?_append_eq, omin_assoc]
    rw [minStep_fst, hs, hF, omin_map hm]

theorem foldl_optLt_fst (sqrt : α → α) (hm : Monotone sqrt) (p : Pt α) (l : List (List (Pt α)))
    (s : Option α × Int) (X : Option α) (hs : s.1 = X.map sqrt) :
    (l.foldl (fun s h =>
      let di := lineStringDistanceFrom sqrt h p
      if optLt di.1 s.1 then di else s) s).1 = (omin X (l.flatMap (lineAtoms p)).min?).map sqrt := by
  induction l generalizing s X with
  | nil => simp [hs, omin_none_right]
  | cons a t ih =>
    rw [List.foldl_cons, ih _ (omin X (lineAtoms p a).min?), List.flatMap_cons,
      min?_append_eq, omin_assoc]
    simp only []
    rw [optLt_ite_fst, hs, lineStringDistanceFrom_fst, omin_map hm]

theorem polygonDistanceFrom_fst (sqrt : α → α) (hm : Monotone sqrt) (pg : List (List (Pt α))) (p : Pt α) :
    (polygonDistanceFrom sqrt pg p).1 = (pg.flatMap (lineAtoms p)).min?.map sqrt := by
  cases pg with
  | nil => simp [polygonDistanceFrom]
  | cons o hs =>
    rw [polygonDistanceFrom, foldl_optLt_fst sqrt hm p hs _ _ (lineStringDistanceFrom_fst sqrt o p),
      List.flatMap_cons, min?_append_eq]

theorem collLoop_fst (sqrt : α → α) (hm : Monotone sqrt) (p : Pt α) (gs : List (Geom α))
    (h : ∀ g ∈ gs, distanceFrom sqrt g p = (atoms p g).min?.map sqrt)
    (i : Nat) (s : Option α × Int) (X : Option α) (hs : s.1 = X.map sqrt) :
    (distanceFromWithIndex.collLoop sqrt p gs i s).1 = (omin X (atoms.atomsL p gs).min?).map sqrt := by
  induction gs generalizing i s X with
  | nil => simp [distanceFromWithIndex.collLoop, atoms.atomsL, hs, omin_none_right]
  | cons g t ih =>
    rw [distanceFromWithIndex.collLoop, ih (fun g hg => h g (List.mem_cons_of_mem _ hg)) _ _
      (omin X (atoms p g).min?), atoms.atomsL, min?_append_eq, omin_assoc]
    have := h g List.mem_cons_self
    unfold distanceFrom at this
    rw [minStep_fst, hs, this, omin_map hm]

theorem distanceFrom_min' (sqrt : α → α) (hm : Monotone sqrt) (g : Geom α) (p : Pt α) :
    distanceFrom sqrt g p = (atoms p g).min?.map sqrt := by
  induction g using Geom.ind with
  | h1 q => simp [distanceFrom, distanceFromWithIndex, atoms, distance, distanceSquared]
  | h2 ps =>
    rw [distanceFrom, distanceFromWithIndex, atoms, multiPointDistanceFrom]
    simp only []
    rw [foldl_zipIdx_minStep_fst id monotone_id (fun q => some (distanceSquared q p))
      (fun q => [distanceSquared q p]) (by simp) ps 0 (none, -1) none rfl]
    have hfm : ∀ l : List (Pt α), l.flatMap (fun q => [distanceSquared q p]) = l.map fun q => distanceSquared q p := by
      intro l
      induction l with
      | nil => rfl
      | cons a t ih => simp [List.flatMap_cons, ih]
    simp [omin, hfm]
  | h3 ps => rw [distanceFrom, distanceFromWithIndex, atoms, lineStringDistanceFrom_fst]
  | h4 ls =>
    rw [distanceFrom, distanceFromWithIndex, atoms,
      foldl_zipIdx_minStep_fst sqrt hm (fun l => (lineStringDistanceFrom sqrt l p).1) (lineAtoms p)
        (fun l => lineStringDistanceFrom_fst sqrt l p) ls 0 (none, -1) none rfl]
    simp [omin]
  | h5 ps => rw [distanceFrom, distanceFromWithIndex, atoms, lineStringDistanceFrom_fst]
  | h6 rs => rw [distanceFrom, distanceFromWithIndex, atoms, polygonDistanceFrom_fst sqrt hm]
  | h7 mp =>
    rw [distanceFrom, distanceFromWithIndex, atoms,
      foldl_zipIdx_minStep_fst sqrt hm (fun pg => (polygonDistanceFrom sqrt pg p).1)
        (fun pg => pg.flatMap (lineAtoms p))
        (fun pg => polygonDistanceFrom_fst sqrt hm pg p) mp 0 (none, -1) none rfl]
    simp [omin]
  | h8 a b => rw [distanceFrom, distanceFromWithIndex, atoms, lineStringDistanceFrom_fst]
  | hc gs ih =>
    rw [distanceFrom, distanceFromWithIndex, atoms, collLoop_fst sqrt hm p gs ih 0 (none, -1) none rfl]
    simp [omin]

/-! ### the index of the nearest segment -/

/-- `lineDistLoop` on the list of atoms -/
def idxLoop : List α → Nat → Option α × Int → Option α × Int
  | [], _, s => s
  | x :: t, i, s => idxLoop t (i + 1) (minStep s (some x) i)

theorem lineDistLoop_eq_idxLoop (p : Pt α) (l : List (Pt α)) (i : Nat) (s : Option α × Int) :
    lineDistLoop p l i s = idxLoop (lineAtoms p l) i s := by
  induction l generalizing i s with
  | nil => simp [lineDistLoop, lineAtoms_nil, idxLoop]
  | cons a t ih =>
    cases t with
    | nil => simp [lineDistLoop, lineAtoms_singleton, idxLoop]
    | cons b t => rw [lineDistLoop, ih, lineAtoms_cons_cons, idxLoop]

theorem idxLoop_some (xs : List α) (i : Nat) (m : α) (j : Int) :
    ∃ m' j', idxLoop xs i (some m, j) = (some m', j') ∧ (m :: xs).min? = some m' ∧
      ((j' = j ∧ m' = m) ∨
        ∃ k : Nat, j' = ((i + k : Nat) : Int) ∧ xs[k]? = some m' ∧ m' < m ∧
          ∀ k', k' < k → ∀ x, xs[k']? = some x → m' < x) := by
  induction xs generalizing i m j with
  | nil => exact ⟨m, j, rfl, rfl, Or.inl ⟨rfl, rfl⟩⟩
  | cons y t ih =>
    by_cases hy : y < m
    · have hstep : minStep (some m, j) (some y) (i : Int) = (some y, (i : Int)) := by
        simp [minStep, optLt, hy]
      obtain ⟨m', j', h1, h2, h3⟩ := ih (i + 1) y (i : Int)
      refine ⟨m', j', by rw [idxLoop, hstep, h1], ?_, Or.inr ?_⟩
      · rw [List.min?_cons', List.foldl_cons, min_eq_right hy.le, ← List.min?_cons', h2]
      · rcases h3 with ⟨rfl, rfl⟩ | ⟨k, hk1, hk2, hk3, hk4⟩
        · exact ⟨0, by simp, by simp, hy, fun k' hk' => absurd hk' (Nat.not_lt_zero _)⟩
        · refine ⟨k + 1, by rw [hk1]; push_cast; ring, by simpa using hk2, hk3.trans hy, ?_⟩
          intro k' hk' x hx
          cases k' with
          | zero =>
            simp only [List.getElem?_cons_zero, Option.some.injEq] at hx
            exact hx ▸ hk3
          | succ k' =>
            simp only [List.getElem?_cons_succ] at hx
            exact hk4 k' (Nat.lt_of_succ_lt_succ hk') x hx
    · have hstep : minStep (some m, j) (some y) (i : Int) = (some m, j) := by
        simp [minStep, optLt, hy]
      obtain ⟨m', j', h1, h2, h3⟩ := ih (i + 1) m j
      refine ⟨m', j', by rw [idxLoop, hstep, h1], ?_, ?_⟩
      · rw [List.min?_cons', List.foldl_cons, min_eq_left (not_lt.1 hy), ← List.min?_cons', h2]
      · rcases h3 with h3 | ⟨k, hk1, hk2, hk3, hk4⟩
        · exact Or.inl h3
        · refine Or.inr ⟨k + 1, by rw [hk1]; push_cast; ring, by simpa using hk2, hk3, ?_⟩
          intro k' hk' x hx
          cases k' with
          | zero =>
            simp only [List.getElem?_cons_zero, Option.some.injEq] at hx
            exact hx ▸ lt_of_lt_of_le hk3 (not_lt.1 hy)
          | succ k' =>
            simp only [List.getElem?_cons_succ] at hx
            exact hk4 k' (Nat.lt_of_succ_lt_succ hk') x hx

theorem lineStringDistanceFrom_index' (sqrt : α → α) (ls : List (Pt α)) (p : Pt α) :
    let at' := (ls.zip ls.tail).map fun ab => segmentDistanceFromSquared ab.1 ab.2 p
    (at' = [] → lineStringDistanceFrom sqrt ls p = (none, -1)) ∧
    (∀ m, at'.min? = some m → ∃ i : Nat, (lineStringDistanceFrom sqrt ls p) = (some (sqrt m), (i : Int)) ∧
        at'[i]? = some m ∧ ∀ j, j < i → ∀ x, at'[j]? = some x → m < x) := by
  show (lineAtoms p ls = [] → _) ∧ ∀ m, (lineAtoms p ls).min? = some m → ∃ i : Nat, _ ∧
    (lineAtoms p ls)[i]? = some m ∧ ∀ j, j < i → ∀ x, (lineAtoms p ls)[j]? = some x → m < x
  simp only [lineStringDistanceFrom, lineDistLoop_eq_idxLoop]
  generalize lineAtoms p ls = xs
  refine ⟨fun h => by rw [h]; rfl, fun m hmin => ?_⟩
  cases xs with
  | nil => simp at hmin
  | cons y t =>
    have hstep : minStep ((none : Option α), (-1 : Int)) (some y) ((0 : Nat) : Int) = (some y, ((0 : Nat) : Int)) := by
      simp [minStep, optLt]
    obtain ⟨m', j', h1, h2, h3⟩ := idxLoop_some t 1 y ((0 : Nat) : Int)
    rw [idxLoop, hstep, h1]
    rw [hmin, Option.some.injEq] at h2
    subst h2
    rcases h3 with ⟨rfl, rfl⟩ | ⟨k, hk1, hk2, hk3, hk4⟩
    · exact ⟨0, rfl, by simp, fun k' hk' => absurd hk' (Nat.not_lt_zero _)⟩
    · refine ⟨k + 1, by rw [hk1]; simp [add_comm], by simpa using hk2, ?_⟩
      intro k' hk' x hx
      cases k' with
      | zero =>
        simp only [List.getElem?_cons_zero, Option.some.injEq] at hx
        exact hx ▸ hk3
      | succ k' =>
        simp only [List.getElem?_cons_succ] at hx
        exact hk4 k' (Nat.lt_of_succ_lt_succ hk') x hx

/-! ### zero distance -/

theorem lineAtoms_nonneg (p : Pt α) (l : List (Pt α)) : ∀ x ∈ lineAtoms p l, 0 ≤ x := by
  intro x hx
  simp only [lineAtoms, List.mem_map] at hx
  obtain ⟨ab, _, rfl⟩ := hx
  exact segdist_nonneg _ _ _

theorem atomsL_nonneg (p : Pt α) (gs : List (Geom α)) (h : ∀ g ∈ gs, ∀ x ∈ atoms p g, 0 ≤ x) :
    ∀ x ∈ atoms.atomsL p gs, 0 ≤ x := by
  induction gs with
  | nil => intro x hx; simp [atoms.atomsL] at hx
  | cons g t ih =>
    intro x hx
    rw [atoms.atomsL, List.mem_append] at hx
    rcases hx with hx | hx
    · exact h g List.mem_cons_self x hx
    · exact ih (fun g hg => h g (List.mem_cons_of_mem _ hg)) x hx

theorem atoms_nonneg (p : Pt α) (g : Geom α) : ∀ x ∈ atoms p g, 0 ≤ x := by
  induction g using Geom.ind with
  | h1 q =>
    intro x hx
    simp only [atoms, List.mem_singleton] at hx
    exact hx ▸ distanceSquared_nonneg _ _
  | h2 ps =>
    intro x hx
    simp only [atoms, List.mem_map] at hx
    obtain ⟨q, _, rfl⟩ := hx
    exact distanceSquared_nonneg _ _
  | h3 ps => rw [atoms]; exact lineAtoms_nonneg p ps
  | h4 ls =>
    intro x hx
    simp only [atoms, List.mem_flatMap] at hx
    obtain ⟨l, _, hx⟩ := hx
    exact lineAtoms_nonneg p l x hx
  | h5 ps => rw [atoms]; exact lineAtoms_nonneg p ps
  | h6 ls =>
    intro x hx
    simp only [atoms, List.mem_flatMap] at hx
    obtain ⟨l, _, hx⟩ := hx
    exact lineAtoms_nonneg p l x hx
  | h7 mp =>
    intro x hx
    simp only [atoms, List.mem_flatMap] at hx
    obtain ⟨pg, _, l, _, hx⟩ := hx
    exact lineAtoms_nonneg p l x hx
  | h8 a b => rw [atoms]; exact lineAtoms_nonneg p _
  | hc gs ih => rw [atoms]; exact atomsL_nonneg p gs ih

theorem distanceFrom_zero_iff_on_boundary' (sqrt : α → α) (hm : Monotone sqrt)
    (hz : ∀ x, 0 ≤ x → (sqrt x = 0 ↔ x = 0)) (g : Geom α) (p : Pt α) :
    distanceFrom sqrt g p = some 0 ↔ (0 : α) ∈ atoms p g := by
  rw [distanceFrom_min' sqrt hm g p]
  have hnn := atoms_nonneg p g
  generalize atoms p g = xs at hnn
  constructor
  · intro h
    rw [Option.map_eq_some_iff] at h
    obtain ⟨m, hmin, hm0⟩ := h
    have hmem : m ∈ xs := (List.min?_eq_some_iff.1 hmin).1
    rw [hz m (hnn m hmem)] at hm0
    exact hm0 ▸ hmem
  · intro h
    have hmin : xs.min? = some 0 := List.min?_eq_some_iff.2 ⟨h, hnn⟩
    rw [hmin, Option.map_some, (hz 0 le_rfl).2 rfl]

end lengthdist

end Orb.Planar
