/-
  C14 fill, part 6: the horizontal-ray crossing parity used by `polygon_interior_cover` agrees with the
  even-odd specification `Orb.EvenOdd.inside` (upward ray, C09) for every point off the boundary of a
  closed ring; hence the interior clause in terms of `EvenOdd.inside` / `EvenOdd.polyInside` /
  `EvenOdd.multiInside`.
-/
import OrbProofs.C14Fill
import OrbProofs.C09Lemmas

namespace Orb.TileCover
open Orb Orb.Tile Orb.EvenOdd Orb.Contains

section evenodd
variable {K : Type} [Field K] [LinearOrder K] [IsStrictOrderedRing K] [FloorRing K]
set_option linter.unusedSectionVars false

/-- `v` lies in the open quadrant right of and below `q` (between the two rays) -/
def Qd (q v : Pt K) : Bool := decide (q.x < v.x) && decide (q.y < v.y)

/-- For an edge that does not contain `q`: it crosses the horizontal ray or the vertical ray from `q`
    (exactly one of the two) iff exactly one end point lies in the quadrant between the rays. -/
theorem edge_quadrant (q a b : Pt K) (hon : onSeg a b q = false) :
    (xCross q a b != crossesAbove a b q) = (Qd q a != Qd q b) := by
  set c := EvenOdd.cross a b q with hc
  have hcv : c = (a.x - q.x) * (b.y - q.y) - (b.x - q.x) * (a.y - q.y) := by
    simp only [hc, EvenOdd.cross]; ring
  -- the horizontal ray in terms of the sign of `c`
  have hX : xCross q a b = decide ((¬ q.y < a.y ∧ q.y < b.y ∧ 0 < c) ∨ (q.y < a.y ∧ ¬ q.y < b.y ∧ c < 0)) := by
    simp only [xCross, gt_iff_lt]
    by_cases sa : q.y < a.y <;> by_cases sb : q.y < b.y
    · simp [sa, sb]
    · have hdy : b.y - a.y < 0 := by linarith [not_lt.mp sb]
      have hiff : (q.x < a.x + (q.y - a.y) * (b.x - a.x) / (b.y - a.y)) ↔ c < 0 := by
        rw [← sub_lt_iff_lt_add', lt_div_iff_of_neg hdy]
        simp only [hc, EvenOdd.cross]
        constructor <;> intro h <;> linarith
      simp [sa, sb, hiff]
    · have hdy : 0 < b.y - a.y := by linarith [not_lt.mp sa]
      have hiff : (q.x < a.x + (q.y - a.y) * (b.x - a.x) / (b.y - a.y)) ↔ 0 < c := by
        rw [← sub_lt_iff_lt_add', lt_div_iff₀ hdy]
        simp only [hc, EvenOdd.cross]
        constructor <;> intro h <;> linarith
      simp [sa, sb, hiff]
    · simp [sa, sb]
  have hV : crossesAbove a b q = decide ((¬ q.x < a.x ∧ q.x < b.x ∧ c < 0) ∨ (¬ q.x < b.x ∧ q.x < a.x ∧ 0 < c)) := by
    simp only [crossesAbove, not_lt, ← hc]
  have hon' : ¬ (c = 0 ∧ ((a.x ≤ q.x ∧ q.x ≤ b.x) ∨ (b.x ≤ q.x ∧ q.x ≤ a.x)) ∧
      ((a.y ≤ q.y ∧ q.y ≤ b.y) ∨ (b.y ≤ q.y ∧ q.y ≤ a.y))) := by
    intro h
    have := (onSeg_iff a b q).mpr h
    rw [hon] at this
    cases this
  -- sign of `c` in the configurations that matter
  have A1 : q.x < a.x → q.x < b.x → ¬ q.y < a.y → q.y < b.y → 0 < c := by
    intro h1 h2 h3 h4
    rw [hcv]
    nlinarith [mul_pos (sub_pos.mpr h1) (sub_pos.mpr h4),
      mul_nonneg (sub_pos.mpr h2).le (sub_nonneg.mpr (not_lt.mp h3))]
  have A2 : q.x < a.x → q.x < b.x → q.y < a.y → ¬ q.y < b.y → c < 0 := by
    intro h1 h2 h3 h4
    rw [hcv]
    nlinarith [mul_pos (sub_pos.mpr h2) (sub_pos.mpr h3),
      mul_nonneg (sub_pos.mpr h1).le (sub_nonneg.mpr (not_lt.mp h4))]
  have A3 : ¬ q.x < a.x → ¬ q.x < b.x → ¬ q.y < a.y → q.y < b.y → ¬ 0 < c := by
    intro h1 h2 h3 h4
    rw [hcv, not_lt]
    nlinarith [mul_nonneg (sub_nonneg.mpr (not_lt.mp h1)) (sub_pos.mpr h4).le,
      mul_nonneg (sub_nonneg.mpr (not_lt.mp h2)) (sub_nonneg.mpr (not_lt.mp h3))]
  have A4 : ¬ q.x < a.x → ¬ q.x < b.x → q.y < a.y → ¬ q.y < b.y → ¬ c < 0 := by
    intro h1 h2 h3 h4
    rw [hcv, not_lt]
    nlinarith [mul_nonneg (sub_nonneg.mpr (not_lt.mp h1)) (sub_nonneg.mpr (not_lt.mp h4)),
      mul_nonneg (sub_nonneg.mpr (not_lt.mp h2)) (sub_pos.mpr h3).le]
  have B1 : q.y < a.y → q.y < b.y → ¬ q.x < a.x → q.x < b.x → c < 0 := by
    intro h1 h2 h3 h4
    rw [hcv]
    nlinarith [mul_pos (sub_pos.mpr h4) (sub_pos.mpr h1),
      mul_nonneg (sub_nonneg.mpr (not_lt.mp h3)) (sub_pos.mpr h2).le]
  have B2 : q.y < a.y → q.y < b.y → q.x < a.x → ¬ q.x < b.x → 0 < c := by
    intro h1 h2 h3 h4
    rw [hcv]
    nlinarith [mul_pos (sub_pos.mpr h3) (sub_pos.mpr h2),
      mul_nonneg (sub_nonneg.mpr (not_lt.mp h4)) (sub_pos.mpr h1).le]
  have B3 : ¬ q.y < a.y → ¬ q.y < b.y → ¬ q.x < a.x → q.x < b.x → ¬ c < 0 := by
    intro h1 h2 h3 h4
    rw [hcv, not_lt]
    nlinarith [mul_nonneg (sub_nonneg.mpr (not_lt.mp h3)) (sub_nonneg.mpr (not_lt.mp h2)),
      mul_nonneg (sub_pos.mpr h4).le (sub_nonneg.mpr (not_lt.mp h1))]
  have B4 : ¬ q.y < a.y → ¬ q.y < b.y → q.x < a.x → ¬ q.x < b.x → ¬ 0 < c := by
    intro h1 h2 h3 h4
    rw [hcv, not_lt]
    nlinarith [mul_nonneg (sub_pos.mpr h3).le (sub_nonneg.mpr (not_lt.mp h2)),
      mul_nonneg (sub_nonneg.mpr (not_lt.mp h4)) (sub_nonneg.mpr (not_lt.mp h1))]
  have D1 : ¬ q.x < a.x → ¬ q.y < a.y → q.x < b.x → q.y < b.y → c ≠ 0 := by
    intro h1 h2 h3 h4 h0
    exact hon' ⟨h0, Or.inl ⟨not_lt.mp h1, h3.le⟩, Or.inl ⟨not_lt.mp h2, h4.le⟩⟩
  have D2 : q.x < a.x → q.y < a.y → ¬ q.x < b.x → ¬ q.y < b.y → c ≠ 0 := by
    intro h1 h2 h3 h4 h0
    exact hon' ⟨h0, Or.inr ⟨not_lt.mp h3, h1.le⟩, Or.inr ⟨not_lt.mp h4, h2.le⟩⟩
  have T1 : ¬ (c < 0 ∧ 0 < c) := fun h => lt_asymm h.1 h.2
  have T3 : c ≠ 0 → c < 0 ∨ 0 < c := lt_or_gt_of_ne
  rw [hX, hV]
  simp only [Qd, ← Bool.decide_and]
  rw [Bool.eq_iff_iff]
  simp only [bne_iff_ne, ne_eq, decide_eq_decide]
  clear_value c
  clear hX hV hon' hcv hc hon
  by_cases ra : q.x < a.x <;> by_cases rb : q.x < b.x <;> by_cases sa : q.y < a.y <;> by_cases sb : q.y < b.y
  all_goals simp only [ra, rb, sa, sb, not_true_eq_false, not_false_eq_true, true_and, false_and,
    and_false, and_true, or_false, false_or, forall_const, IsEmpty.forall_iff, iff_true, iff_false,
    false_iff, not_not, iff_self] at A1 A2 A3 A4 B1 B2 B3 B4 D1 D2 ⊢
  all_goals tauto

/-- parity of the number of edges of an open chain crossed by the upward ray of `EvenOdd` -/
def vPar (q : Pt K) : List (Pt K) → Bool
  | a :: b :: t => crossesAbove a b q != vPar q (b :: t)
  | _ => false

/-- along an open chain that avoids `q` the two crossing parities differ by the quadrant indicator of the
    end points -/
theorem open_chain_quadrant (q : Pt K) : ∀ (t : List (Pt K)) (a : Pt K),
    (∀ e ∈ (a :: t).zip t, onSeg e.1 e.2 q = false) →
    (xPar q (a :: t) != vPar q (a :: t)) = (Qd q a != Qd q (lastOf a t)) := by
  intro t
  induction t with
  | nil => intro a _; simp [xPar, vPar, lastOf]
  | cons b t ih =>
    intro a h
    have h1 := edge_quadrant q a b (h (a, b) (by simp))
    have h2 := ih b (fun e he => h e (by simp only [List.zip_cons_cons, List.mem_cons]; exact Or.inr he))
    simp only [xPar, vPar, lastOf]
    revert h1 h2
    generalize xCross q a b = X1
    generalize crossesAbove a b q = V1
    generalize xPar q (b :: t) = X2
    generalize vPar q (b :: t) = V2
    generalize Qd q a = Qa
    generalize Qd q b = Qb
    generalize Qd q (lastOf b t) = Ql
    cases X1 <;> cases V1 <;> cases X2 <;> cases V2 <;> cases Qa <;> cases Qb <;> cases Ql <;> decide

theorem vPar_eq_count (q : Pt K) : ∀ (t : List (Pt K)) (a : Pt K),
    (((a :: t).zip t).countP (fun se => crossesAbove se.1 se.2 q) % 2 == 1) = vPar q (a :: t) := by
  intro t
  induction t with
  | nil => intro a; rfl
  | cons b t ih =>
    intro a
    rw [List.zip_cons_cons, List.countP_cons, vPar, ← ih b]
    cases crossesAbove a b q
    · simp
    · simp only [if_true]
      rw [parity_add]
      simp

theorem getLast?_eq_lastOf {β : Type} (a : β) (t : List β) : (a :: t).getLast? = some (lastOf a t) := by
  induction t generalizing a with
  | nil => rfl
  | cons b t ih => rw [List.getLast?_cons_cons, ih, lastOf]

/-- For a closed ring and a point off its boundary, the horizontal-ray crossing parity of the fill is the
    crossing parity of the even-odd specification `Orb.EvenOdd` (upward ray). -/
theorem xPar_eq_evenOdd (q : Pt K) (r : List (Pt K)) (hclosed : r.head? = r.getLast?)
    (hb : onBoundary r q = false) : xPar q r = (crossings r q % 2 == 1) := by
  cases r with
  | nil => rfl
  | cons a t =>
    have hl : lastOf a t = a := by
      rw [getLast?_eq_lastOf] at hclosed
      simpa using hclosed.symm
    have hedges : edges (a :: t) = ((a :: t).getLast?.getD a, a) :: (a :: t).zip t := rfl
    have hb' : ∀ e ∈ (a :: t).zip t, onSeg e.1 e.2 q = false := by
      intro e he
      unfold onBoundary at hb
      rw [hedges, List.any_eq_false] at hb
      have := hb e (List.mem_cons_of_mem _ he)
      simpa using this
    have hq := open_chain_quadrant q t a hb'
    rw [hl, bne_self_eq_false] at hq
    have hx : xPar q (a :: t) = vPar q (a :: t) := by
      revert hq
      cases xPar q (a :: t) <;> cases vPar q (a :: t) <;> simp
    rw [hx, ← vPar_eq_count]
    unfold crossings
    rw [hedges, List.countP_cons, getLast?_eq_lastOf, Option.getD_some, hl, crossesAbove_self]
    simp

/-- inside / outside by the even-odd specification, for points off the boundary of a closed ring -/
theorem xPar_of_inside (q : Pt K) (r : List (Pt K)) (hclosed : r.head? = r.getLast?)
    (hb : onBoundary r q = false) : xPar q r = inside r q := by
  rw [xPar_eq_evenOdd q r hclosed hb]
  unfold inside
  rw [hb, Bool.false_or]

/-- **The interior clause against the even-odd specification of C09.**  A tile whose open square
    contains a point `q` that `EvenOdd.polyInside` puts inside the polygon (inside the outer ring, in no
    hole) and that lies on no ring is in the polygon's cover. -/
theorem polygon_interior_cover_evenOdd (zoom fuel : Nat) (set : List Tile) (rings : List (List (Pt K)))
    (S : List Tile) (hr : ∀ r ∈ rings, r.head? = r.getLast? ∧ ∀ p ∈ r, 0 ≤ p.x ∧ 0 ≤ p.y)
    (h : polygon (opsK K) zoom fuel set rings = .ok S) (i j : ℕ) (q : Pt K)
    (hqx : (i : K) < q.x ∧ q.x < (i : K) + 1) (hqy : (j : K) < q.y ∧ q.y < (j : K) + 1)
    (hoff : ∀ r ∈ rings, onBoundary r q = false) (hin : polyInside rings q = true) :
    (⟨i, j, zoom⟩ : Tile) ∈ S := by
  cases rings with
  | nil => simp [polyInside] at hin
  | cons o hs =>
    simp only [polyInside, Bool.and_eq_true, List.all_eq_true, Bool.not_eq_eq_eq_not, Bool.not_true] at hin
    obtain ⟨h1, h2⟩ := hin
    apply polygon_interior_cover zoom fuel set (o :: hs) S hr h i j q hqx hqy
    apply xParRings_outer_holes
    · rw [xPar_of_inside q o (hr o List.mem_cons_self).1 (hoff o List.mem_cons_self)]; exact h1
    · intro r' hr'
      rw [xPar_of_inside q r' (hr r' (List.mem_cons_of_mem _ hr')).1 (hoff r' (List.mem_cons_of_mem _ hr'))]
      exact h2 r' hr'

/-- … and for multi-polygons (`EvenOdd.multiInside`: inside any member). -/
theorem multiPolygon_interior_cover_evenOdd (zoom fuel : Nat) (polys : List (List (List (Pt K))))
    (S : List Tile)
    (hr : ∀ pg ∈ polys, ∀ r ∈ pg, r.head? = r.getLast? ∧ ∀ p ∈ r, 0 ≤ p.x ∧ 0 ≤ p.y)
    (h : multiPolygon (opsK K) zoom fuel [] polys = .ok S) (i j : ℕ) (q : Pt K)
    (hqx : (i : K) < q.x ∧ q.x < (i : K) + 1) (hqy : (j : K) < q.y ∧ q.y < (j : K) + 1)
    (hoff : ∀ pg ∈ polys, ∀ r ∈ pg, onBoundary r q = false) (hin : multiInside polys q = true) :
    (⟨i, j, zoom⟩ : Tile) ∈ S := by
  simp only [multiInside, List.any_eq_true] at hin
  obtain ⟨pg, hpg, hpin⟩ := hin
  have H := (multiPolygon_interior_cover zoom fuel polys [] S hr h).2 pg hpg i j q hqx hqy
  apply H
  cases pg with
  | nil => simp [polyInside] at hpin
  | cons o hs =>
    simp only [polyInside, Bool.and_eq_true, List.all_eq_true, Bool.not_eq_eq_eq_not, Bool.not_true] at hpin
    obtain ⟨h1, h2⟩ := hpin
    have hr' := hr _ hpg
    have hoff' := hoff _ hpg
    apply xParRings_outer_holes
    · rw [xPar_of_inside q o (hr' o List.mem_cons_self).1 (hoff' o List.mem_cons_self)]; exact h1
    · intro r' hr''
      rw [xPar_of_inside q r' (hr' r' (List.mem_cons_of_mem _ hr'')).1
        (hoff' r' (List.mem_cons_of_mem _ hr''))]
      exact h2 r' hr''

end evenodd
end Orb.TileCover
