/-
  C13 — translation tie for the floating-point half of maptile/tile.go: `Fraction`.
  `Generated/TileGeoGo.lean` is REGENERATED from /repo on every run by
  harness/cmd/factgen/translate_float.go (the integer half of tile.go is tied in C13Tie.lean through
  the other translator).  The Go function is translated as it is written — the uint32 shift, the
  longitude line, the clamp decided ON THE LATITUDE `ll[1]` against the literal 85.0511, the
  `math.Sin` / `math.Log` expression of the unclamped branch — with libm's functions, `math.Pi`, the
  folded constant `2*math.Pi`, the literal `85.0511` and `float64(uint32)` as explicit parameters,
  which are the symbols the model `Orb.TileGeo` keeps in its records `Env` / `Libm`.
-/
import Orb.TileGeo
import Generated.TileGeoGo
import Generated.MercatorGo

namespace Orb.C13FloatTie
open Orb Orb.Tile Orb.TileGeo

set_option linter.unusedSectionVars false

variable {α : Type} [Add α] [Sub α] [Mul α] [Div α] [Neg α] [LT α] [DecidableLT α]
  [OfNat α 0] [OfNat α 1] [OfNat α 2] [OfNat α 90] [OfNat α 180] [OfNat α 360]

/-- `maptile.Fraction`: the regenerated translation is the model, for every environment whose `mercY` is the
    libm expression `mercYGo` (`siny := math.Sin(ll[1] * math.Pi / 180.0)`,
    `0.5 + 0.5*math.Log((1.0+siny)/(1.0-siny))/(-2*math.Pi)`) -/
theorem fraction_tie (E : Env α) (L : Libm α) (hE : E.mercY = mercYGo L) (ll : Pt α) (z : Nat) :
    Generated.TileGeoGo.fraction L.sin L.log L.pi L.twoPi E.latMax E.ofNat ll z = fraction E ll z := by
  unfold Generated.TileGeoGo.fraction fraction
  rw [hE]
  by_cases h1 : ll.y < -E.latMax
  · simp only [h1, ↓reduceIte]; rfl
  · by_cases h2 : E.latMax < ll.y
    · simp only [h1, h2, ↓reduceIte]; rfl
    · simp only [h1, h2, ↓reduceIte]; rfl

/-- `mercator.ToGeo` (what `Tile.Bound` / `Tile.Center` go through): the regenerated translation is the model,
    for every environment whose `latOf` is the libm expression `latOfGo` -/
theorem toGeo_tie (E : Env α) (L : Libm α) (hE : E.latOf = latOfGo L) (x y : α) (level : Nat) :
    Generated.MercatorGo.toGeo L.atan L.exp L.pi L.twoPi L.d180pi E.ofNat x y level
      = ((toGeo E x y level).x, (toGeo E x y level).y) := by
  unfold Generated.MercatorGo.toGeo toGeo lonOfX latOfY maxTiles64
  rw [hE, Nat.one_shiftLeft]
  rfl

theorem all_translated_TileGeoGo : Generated.TileGeoGo.translated = ["fraction"] := by
  decide

end Orb.C13FloatTie
