/-
  C13 — translation tie for the floating-point half of maptile/tile.go: `Fraction`.
  `Generated/TileGeoGo.lean` is REGENERATED from /repo on every run by
  harness/cmd/factgen/translate_float.go (the integer half of tile.go is tied in C13Tie.lean through
  the other translator).  The Go function is translated as it is written — the uint32 shift, the
  longitude line, the clamp decided ON THE LATITUDE `ll[1]` against the literal 85.0511, the
  `math.Sin` / `math.Log` expression of the unclamped branch — with libm's functions, `math.Pi`, the
  folded constant `2*math.Pi`, the literal `85.0511` and `float64(uint32)` as explicit parameters,
  which are the symbols the model `Orb.TileGeo` keeps in its records `Env` / `Libm`.
-/
import Orb.TileGeo
import Generated.TileGeoGo
import Generated.MercatorGo

namespace Orb.C13FloatTie
open Orb Orb.Tile Orb.TileGeo

set_option linter.unusedSectionVars false

variable {α : Type} [Add α] [Sub α] [Mul α] [Div α] [Neg α] [LT α] [DecidableLT α]
  [OfNat α 0] [OfNat α 1] [OfNat α 2] [OfNat α 90] [OfNat α 180] [OfNat α 360]

/-- `maptile.Fraction`: the regenerated translation is the model, for every environment whose `mercY` is the
    libm expression `mercYGo` (`siny := math.Sin(ll[1] * math.Pi / 180.0)`,
    `0.5 + 0.5*math.Log((1.0+siny)/(1.0-siny))/(-2*math.Pi)`) -/
theorem fraction_tie (E : Env α) (L : Libm α) (hE : E.mercY = mercYGo L) (ll : Pt α) (z : Nat) :
    Generated.TileGeoGo.fraction L.sin L.log L.pi L.twoPi E.latMax E.ofNat ll z = fraction E ll z := by
  unfold Generated.TileGeoGo.fraction fraction
  rw [hE]
  by_cases h1 : ll.y < -E.latMax
  · simp only [h1, ↓reduceIte]; rfl
  · by_cases h2 : E.latMax < ll.y
    · simp only [h1, h2, ↓reduceIte]; rfl
    · simp only [h1, h2, ↓reduceIte]; rfl

/-- `mercator.ToGeo` (what `Tile.Bound` / `Tile.Center` go through): the regenerated translation is the model,
    for every environment whose `latOf` is the libm expression `latOfGo` -/
theorem toGeo_tie (E : Env α) (L : Libm α) (hE : E.latOf = latOfGo L) (x y : α) (level : Nat) :
    Generated.MercatorGo.toGeo L.atan L.exp L.pi L.twoPi L.d180pi E.ofNat x y level
      = ((toGeo E x y level).x, (toGeo E x y level).y) := by
  unfold Generated.MercatorGo.toGeo toGeo lonOfX latOfY maxTiles64
  rw [hE, Nat.one_shiftLeft]
  rfl

theorem u32_pred (n : Nat) (h0 : 0 < n) (h : n < 2 ^ 32) : (n + 2 ^ 32 - 1) % 2 ^ 32 = n - 1 := by
  have e : n + 2 ^ 32 - 1 = (n - 1) + 2 ^ 32 := by omega
  rw [e, Nat.add_mod_right, Nat.mod_eq_of_lt (by omega)]

/-- `maptile.At`: truncation to uint32 (the explicit parameter `floorU32`), the last-column clamp and the west-edge
    step-back, both under `max != 0`; uint32 `x - 1` wraps in the translation, hence the range hypothesis -/
theorem at_tie (E : Env α) (L : Libm α) (hE : E.mercY = mercYGo L) (hu : ∀ a, E.floorU32 a < 2 ^ 32)
    (ll : Pt α) (z : Nat) :
    Generated.TileGeoGo.at_ L.sin L.log E.floorU32 L.pi L.twoPi E.latMax E.ofNat ll z = at_ E ll z := by
  unfold Generated.TileGeoGo.at_ at_
  rw [fraction_tie E L hE]
  simp only []
  generalize fraction E ll z = f
  have hx := hu f.x
  generalize E.floorU32 f.x = x at hx ⊢
  generalize E.floorU32 f.y = y
  have hm : shl32 1 z < 2 ^ 32 := Nat.mod_lt _ (by decide)
  generalize shl32 1 z = mx at hm ⊢
  by_cases h0 : mx = 0
  · subst h0; simp
  · have hpos : 0 < mx := Nat.pos_of_ne_zero h0
    simp only [ne_eq, h0, not_false_eq_true, ↓reduceIte, true_and, ge_iff_le, gt_iff_lt]
    rw [u32_pred mx hpos hm]
    by_cases h1 : mx ≤ x
    · simp only [h1, ↓reduceIte]
      have hlt : mx - 1 < 2 ^ 32 := by omega
      by_cases h2 : 0 < mx - 1 ∧ ll.x < 360 * (E.ofNat (mx - 1) / E.ofNat mx - 1 / 2)
      · simp only [h2, and_self, ↓reduceIte]
        rw [u32_pred (mx - 1) h2.1 hlt]
      · simp only [h2, ↓reduceIte]
    · simp only [h1, ↓reduceIte]
      by_cases h2 : 0 < x ∧ ll.x < 360 * (E.ofNat x / E.ofNat mx - 1 / 2)
      · simp only [h2, and_self, ↓reduceIte]
        rw [u32_pred x h2.1 hx]
      · simp only [h2, ↓reduceIte]

theorem all_translated_TileGeoGo : Generated.TileGeoGo.translated = ["fraction", "at_"] := by
  decide

end Orb.C13FloatTie
