/-
  C03 — MVT tiles round-trip layers exactly and marshal deterministically; plus the MVT share
  of C05 (decoders never panic / never over-allocate).
  PROPERTY THEOREMS about the model `Orb.MVT` (encoding/mvt: geometry.go, marshal.go,
  unmarshal.go, layer.go).  `VTTile` mirrors vector_tile.proto; the protobuf wire encoding itself is
  modelled in `Orb.ProtoWire` and its theorems are in `OrbProofs/C03Wire.lean` (not in this file).

  `mvtWF` is the property's quantifier as a decidable predicate: integer coordinates
  |v| < 2^28, non-empty parts, closed rings of non-zero shoelace area, outer rings
  counter-clockwise and holes clockwise, ids absent or non-negative integers < 2^53, property
  maps with distinct keys over the stated value universe, version ∈ {1,2}.
  `exactDomain` is the sub-domain on which the code is exact: collections of exactly one
  member, no ring with a doubled closing vertex, no negative float zero among the property
  values.  For each excluded class the `_full` statement is kept and its negation proved.
  `exactDomainZ` weakens the zero clause to what the code needs (no +0 / −0 pair of one float
  type within one layer), and the `_ori` / `_exact` theorems are stated for the decoder run with
  ANY orientation function that is exact on the rings of the input (`oriAgree`): Go runs the
  float64 shoelace of `Ring.Orientation`, which is not exact for thin rings at |v| ≥ 2^27 (known
  finding regroup-rounding) — the theorems with `oriInt` built in are the instance `ori = oriInt`
  and say nothing about those inputs beyond the model.
  Ids: the model keeps the uint64 id; `Unmarshal` hands it out as `float64(id)` (`idFloat`), exact
  below 2^53 — the bound in `idWF`.
-/
import OrbProofs.C03Lemmas
import OrbProofs.C03Ori

namespace Orb.MVT

/-! ### zigzag -/

/-- `unzigzag ∘ zigzag = id` on all 2^32 words. -/
theorem zigzag_roundtrip (x : BitVec 32) : unzigzag (zigzag x) = x := zigzag_roundtrip' x

/-- A delta between two coordinates of the quantifier survives the 32-bit zigzag. -/
theorem delta_roundtrip (a b : Int) (ha : coordOK a = true) (hb : coordOK b = true) :
    unzigzagI (zigzag (i32 a - i32 b)) = a - b := delta_roundtrip' a b ha hb

/-! ### geometry -/

/-- Encoding then decoding a geometry of the quantifier gives its normal form: a one-member
    multi is its member, rings and bounds come back as (closed) polygons, polygons are
    regrouped by ring winding. -/
theorem geometry_roundtrip_partial (g : Geom Int) (h : geomWF g = true) (hd : geomNoDupClose g = true) :
    geometryRT g = .ok (normG g) := geometry_roundtrip_partial' g h hd

/-- The same for the decoder run with any orientation function `ori` that gives the exact sign
    on the rings of `g` (Go: the float64 shoelace; not exact for some rings with |v| ≥ 2^27). -/
theorem geometry_roundtrip_ori (ori : List (Pt Int) → Int) (g : Geom Int) (h : geomWF g = true)
    (hd : geomNoDupClose g = true) (hori : ∀ r ∈ ringsOf g, ori r = oriInt r) :
    ∃ t ws, encodeGeometry g = .ok (t, ws) ∧ (decodeGeometryIter ori t ws 0).1 = .ok (normG g) :=
  geometry_roundtrip_ori' ori g h hd hori

/-- Where Go's float64 shoelace IS exact (so that `hori` of `geometry_roundtrip_ori` holds for the
    real decoder): `Ring.Orientation` moves the ring to its first vertex before multiplying, and on
    a ring of small own extent (`oriExactDomain`: 2·len·extent² ≤ 2^53) every number it computes —
    differences, products, terms, partial sums (`ringTrace`) — is an integer of magnitude ≤ 2^53,
    i.e. a float64 value, HOWEVER FAR the ring lies from the origin.  (The driver demands
    `oriFloat r = oriInt r` on this domain; regroup-rounding is confined to its complement.) -/
theorem orientation_intermediates_fit (r : List (Pt Int)) (h : oriExactDomain r = true) :
    ∀ v ∈ ringTrace r, |v| ≤ 2 ^ 53 := orientTrace_fits r h

/-- `ringTrace` is the run of `Ring.Orientation`: its last number is the shoelace sum whose sign
    is taken. -/
theorem orientation_trace_last (o : Pt Int) (rest : List (Pt Int)) :
    Core.orientArea (o :: rest) = ((ringTrace (o :: rest)).getLast?).getD 0 := ringTrace_last o rest

/-- `Ring.Closed()` is decided by Go on the float64 points, the command words are built from
    their int32 truncations: `encRingG cl`.  On integer coordinates that is `encRing` … -/
theorem encRing_eq_encRingG (c : Cur) (r : List (Pt Int)) : encRing c r = encRingG (closed r) c r :=
  encRing_eq_encRingG' c r

/-- … and a ring that is open as floats but whose truncations close is written like the
    truncated ring with its first vertex appended once more (what the driver feeds the model). -/
theorem encRingG_false_eq_reopen (c : Cur) (r : List (Pt Int)) (h : closed r = true) :
    encRingG false c r = encRing c (reopen r) := encRingG_false_eq_reopen' c h

/-- Without the side condition the statement (`geometry_roundtrip_full`) is false. -/
theorem ring_reclose_witness : ¬ geometry_roundtrip_full := ring_reclose_witness'

/-! ### properties -/

/-- The tags written for a property map decode — against the tables of any later state of the
    layer's encoder — to the map with sorted keys and widened values. -/
theorem properties_roundtrip (e : KVE) (ps : List (String × PVal))
    (hn : nodupKeys ps = true) (hv : ∀ p ∈ ps, pvalWF p.2 = true) (hz : noNegZero ps = true)
    (hi : KVE.Inv e) (hk : e.keys.length + ps.length ≤ 2^32) (hl : e.vals.length + ps.length ≤ 2^32) :
    ∃ tags e', encodeProperties e ps = .ok (tags, e') ∧ KVE.Inv e' ∧ KVE.le e e' ∧
      e'.keys.length ≤ e.keys.length + ps.length ∧ e'.vals.length ≤ e.vals.length + ps.length ∧
      ∀ e'', KVE.le e' e'' → decodeTags e''.keys e''.dvals tags [] = .ok (expectProps ps) :=
  encodeProperties_decode e ps hn hv hz hi hk hl

/-- The same under the weakest zero condition: the values of the map are among the values `vs`
    of a layer in which no +0 / −0 pair of one float type occurs (negative zeros allowed). -/
theorem properties_roundtrip_zero (vs : List PVal) (e : KVE) (ps : List (String × PVal))
    (hn : nodupKeys ps = true) (hv : ∀ p ∈ ps, pvalWF p.2 = true)
    (hsub : ∀ p ∈ ps, p.2 ∈ vs) (hnc : noZeroClash vs = true)
    (hi : KVE.InvZ vs e) (hk : e.keys.length + ps.length ≤ 2^32) (hl : e.vals.length + ps.length ≤ 2^32) :
    ∃ tags e', encodeProperties e ps = .ok (tags, e') ∧ KVE.InvZ vs e' ∧ KVE.le e e' ∧
      e'.keys.length ≤ e.keys.length + ps.length ∧ e'.vals.length ≤ e.vals.length + ps.length ∧
      ∀ e'', KVE.le e' e'' → decodeTags e''.keys e''.dvals tags [] = .ok (expectProps ps) :=
  encodeProperties_decodeZ vs e ps hn hv hsub hnc hi hk hl

/-- Every iteration order of the Go map gives the same tags and the same tables. -/
theorem marshal_deterministic (e : KVE) (l l' : List (String × PVal)) (hp : l.Perm l')
    (hn : nodupKeys l = true) : encodeProperties e l = encodeProperties e l' :=
  marshal_deterministic' e l l' hp hn

/-- … hence the same tile structure (and, by the proto hypothesis, the same bytes). -/
theorem marshalVT_deterministic (ls ls' : List Layer) (h : layersPermEq ls ls')
    (hn : ∀ l ∈ ls, ∀ f ∈ l.features, nodupKeys f.props = true) : marshalVT ls = marshalVT ls' :=
  marshalVT_deterministic' ls ls' h hn

/-! ### layers -/

/-- Name, version, extent, feature order, ids, geometries and properties all come back;
    nil geometries are skipped. -/
theorem layer_roundtrip_partial (ls : List Layer) (h : mvtWF ls = true) (hx : exactDomain ls = true) :
    ∃ t, marshalVT ls = .ok t ∧ unmarshalVT t = .ok (expectLayers ls) :=
  layer_roundtrip_partial' ls h hx

/-- The round trip at full strength, for what Go runs: `unmarshalVTWith ori` with any orientation
    function that is exact on the rings of the input (`oriAgree` — an explicit hypothesis: the
    float64 shoelace violates it on the thin-triangle witnesses of regroup-rounding, which satisfy
    `mvtWF ∧ exactDomain`), and layers without a +0 / −0 clash (a lone −0.0 comes back bit for bit). -/
theorem layer_roundtrip_exact (ori : List (Pt Int) → Int) (ls : List Layer) (h : mvtWF ls = true)
    (hx : exactDomainZ ls = true) (ho : oriAgree ori ls) :
    ∃ t, marshalVT ls = .ok t ∧ (unmarshalVTWith ori t).1 = .ok (expectLayers ls) :=
  layer_roundtrip_exact' ori ls h hx ho

/-- `exactDomain` is inside `exactDomainZ`. -/
theorem exactDomain_le_exactDomainZ (ls : List Layer) (hx : exactDomain ls = true) :
    exactDomainZ ls = true := exactDomainZ_of_exactDomain ls hx

/-- "Every member of a collection becomes its own feature" holds for one-member collections: the
    feature counts agree (no well-formedness needed) … -/
theorem collection_members_partial (ls : List Layer) (t : VTTile)
    (hs : ∀ l ∈ ls, ∀ f ∈ l.features, singleColl f.geom = true) (hm : marshalVT ls = .ok t) :
    t.map (fun l => l.features.length) = ls.map fun l => (l.features.flatMap expectFeature).length :=
  collection_members_partial' ls t hs hm

/-- … a one-member collection is marshalled exactly like its member (same feature, same table
    updates), so that `layer_roundtrip_exact` gives the member's id, geometry and properties back … -/
theorem collection_single_as_member (fs : List VTFeature) (e : KVE) (id : IdVal)
    (props : List (String × PVal)) (g : Geom Int) (hg : ∀ gs, g ≠ .collection gs) :
    addFeature fs e ⟨id, .val (.collection [g]), props⟩ = addFeature fs e ⟨id, .val g, props⟩ :=
  collection_single_as_member' fs e id props g hg

/-- … and is false of the code in general (`addFeature` returns after the first member). -/
theorem collection_witness : ¬ collection_members_full := collection_witness'

/-! ### C05: no panic, bounded allocation -/

/-- `int(2*count)` does not wrap. -/
theorem two_mul_count_nowrap (v : W) : (2#32 * (v >>> 3)).toNat = 2 * (v >>> 3).toNat :=
  two_mul_count_nowrap' v

/-- The geometry decoder never panics and its loops terminate (running out of fuel is a panic
    of the model), for every type, every word list and every orientation function. -/
theorem geometry_total_iter (ori : List (Pt Int) → Int) (gt : Int) (ws : List W) (a : Nat) :
    (decodeGeometryIter ori gt ws a).1.isPanic = false := geometry_total_iter' ori gt ws a

theorem geometry_total (gt : Int) (ws : List W) : (decodeGeometry gt ws).isPanic = false :=
  geometry_total' gt ws

/-- The capacity requested by the geometry decoder's own `make` calls is at most the number of
    words of the field, whatever counts the words claim. -/
theorem geometry_alloc_bound (gt : Int) (ws : List W) : geometryAlloc gt ws ≤ ws.length :=
  geometry_alloc_bound' gt ws

/-- `unmarshalTile` never panics on any tile structure … -/
theorem unmarshal_total (t : VTTile) : (unmarshalVT t).isPanic = false := unmarshal_total' t

/-- … and requests at most one slot per feature plus one per command word. -/
theorem unmarshal_alloc_bound (t : VTTile) : unmarshalAlloc t ≤ vtSize t := unmarshal_alloc_bound' t

/-- Both for the decoder run with ANY orientation function (what Go runs is `ori = ` the float64
    shoelace, not the exact `oriInt` of the two theorems above). -/
theorem unmarshal_total_ori (ori : List (Pt Int) → Int) (t : VTTile) :
    (unmarshalVTWith ori t).1.isPanic = false ∧ (unmarshalVTWith ori t).2 ≤ vtSize t :=
  unmarshal_total_ori' ori t

/-- `Unmarshal` (the gzip magic test included) panics only if `unmarshalTile` does. -/
theorem unmarshal_top_total {α : Type} (data : List UInt8) (r : R α) (h : r.isPanic = false) :
    (unmarshalTop data r).isPanic = false := unmarshal_top_total' data r h

/-- Non-vacuity: a well-formed layer in the exact domain (a polygon with a hole, an id, properties). -/
example : mvtWF [{ name := "a", version := 2, extent := 4096, features :=
    [{ id := .int 7, props := [("k", .sint .int8 (-3)), ("b", .nil)],
       geom := .val (.polygon [[⟨0,0⟩,⟨4,0⟩,⟨4,4⟩,⟨0,4⟩,⟨0,0⟩], [⟨1,1⟩,⟨1,2⟩,⟨2,2⟩,⟨2,1⟩,⟨1,1⟩]]) }] }] = true ∧
  exactDomain [{ name := "a", version := 2, extent := 4096, features :=
    [{ id := .int 7, props := [("k", .sint .int8 (-3)), ("b", .nil)],
       geom := .val (.polygon [[⟨0,0⟩,⟨4,0⟩,⟨4,4⟩,⟨0,4⟩,⟨0,0⟩], [⟨1,1⟩,⟨1,2⟩,⟨2,2⟩,⟨2,1⟩,⟨1,1⟩]]) }] }] = true := by
  decide

/-- Non-vacuity of the weakened zero clause: a lone −0.0 (float64) next to a +0.0 of the OTHER
    float type is in `exactDomainZ` but not in `exactDomain`. -/
example : exactDomainZ [{ name := "z", version := 1, extent := 4096, features :=
    [{ id := .none, props := [("a", .f64 0x8000000000000000), ("b", .f32 0)], geom := .val (.point ⟨1, 1⟩) }] }] = true ∧
  exactDomain [{ name := "z", version := 1, extent := 4096, features :=
    [{ id := .none, props := [("a", .f64 0x8000000000000000), ("b", .f32 0)], geom := .val (.point ⟨1, 1⟩) }] }] = false ∧
  mvtWF [{ name := "z", version := 1, extent := 4096, features :=
    [{ id := .none, props := [("a", .f64 0x8000000000000000), ("b", .f32 0)], geom := .val (.point ⟨1, 1⟩) }] }] = true := by
  decide

/-- Non-vacuity of `oriAgree`: it holds of the exact orientation for every input, and the rings it
    speaks about are the ones of the input (here: outer ring and hole of a polygon). -/
example : gvalRings (.val (.polygon [[⟨0,0⟩,⟨4,0⟩,⟨4,4⟩,⟨0,4⟩,⟨0,0⟩], [⟨1,1⟩,⟨1,2⟩,⟨2,2⟩,⟨2,1⟩,⟨1,1⟩]])) =
    [[⟨0,0⟩,⟨4,0⟩,⟨4,4⟩,⟨0,4⟩,⟨0,0⟩], [⟨1,1⟩,⟨1,2⟩,⟨2,2⟩,⟨2,1⟩,⟨1,1⟩]] ∧
    ∀ ls, oriAgree oriInt ls := ⟨rfl, oriAgree_oriInt⟩

/-- The fractional-ring witness of the review: (0.5,0),(4,0),(4,4),(0,0) truncates to a closed
    ring; Go (Closed() = false on the floats) writes MoveTo, LineTo×3, ClosePath. -/
example : encRingG false cur0 [⟨0,0⟩,⟨4,0⟩,⟨4,4⟩,⟨0,0⟩] =
    .ok (⟨0, 0⟩, [9, 0, 0, 26, 8, 0, 0, 8, 7, 7, 15]) := by decide

end Orb.MVT
