/-
  C03 — MVT tiles round-trip layers exactly and marshal deterministically; plus the MVT share
  of C05 (decoders never panic / never over-allocate).
  PROPERTY THEOREMS about the model `Orb.MVT` (encoding/mvt: geometry.go, marshal.go,
  unmarshal.go, layer.go).  The protobuf wire encoding is outside the model (`VTTile` mirrors
  vector_tile.proto).

  `mvtWF` is the property's quantifier as a decidable predicate: integer coordinates
  |v| < 2^28, non-empty parts, closed rings of non-zero shoelace area, outer rings
  counter-clockwise and holes clockwise, ids absent or non-negative integers < 2^53, property
  maps with distinct keys over the stated value universe, version ∈ {1,2}.
  `exactDomain` is the sub-domain on which the code is exact: collections of exactly one
  member, no ring with a doubled closing vertex, no negative float zero among the property
  values.  For each excluded class the `_full` statement is kept and its negation proved.
-/
import OrbProofs.C03Lemmas

namespace Orb.MVT

/-! ### zigzag -/

/-- `unzigzag ∘ zigzag = id` on all 2^32 words. -/
theorem zigzag_roundtrip (x : BitVec 32) : unzigzag (zigzag x) = x := zigzag_roundtrip' x

/-- A delta between two coordinates of the quantifier survives the 32-bit zigzag. -/
theorem delta_roundtrip (a b : Int) (ha : coordOK a = true) (hb : coordOK b = true) :
    unzigzagI (zigzag (i32 a - i32 b)) = a - b := delta_roundtrip' a b ha hb

/-! ### geometry -/

/-- Encoding then decoding a geometry of the quantifier gives its normal form: a one-member
    multi is its member, rings and bounds come back as (closed) polygons, polygons are
    regrouped by ring winding. -/
theorem geometry_roundtrip_partial (g : Geom Int) (h : geomWF g = true) (hd : geomNoDupClose g = true) :
    geometryRT g = .ok (normG g) := geometry_roundtrip_partial' g h hd

/-- Without the side condition the statement (`geometry_roundtrip_full`) is false. -/
theorem ring_reclose_witness : ¬ geometry_roundtrip_full := ring_reclose_witness'

/-! ### properties -/

/-- The tags written for a property map decode — against the tables of any later state of the
    layer's encoder — to the map with sorted keys and widened values. -/
theorem properties_roundtrip (e : KVE) (ps : List (String × PVal))
    (hn : nodupKeys ps = true) (hv : ∀ p ∈ ps, pvalWF p.2 = true) (hz : noNegZero ps = true)
    (hi : KVE.Inv e) (hk : e.keys.length + ps.length ≤ 2^32) (hl : e.vals.length + ps.length ≤ 2^32) :
    ∃ tags e', encodeProperties e ps = .ok (tags, e') ∧ KVE.Inv e' ∧ KVE.le e e' ∧
      e'.keys.length ≤ e.keys.length + ps.length ∧ e'.vals.length ≤ e.vals.length + ps.length ∧
      ∀ e'', KVE.le e' e'' → decodeTags e''.keys e''.dvals tags [] = .ok (expectProps ps) :=
  encodeProperties_decode e ps hn hv hz hi hk hl

/-- Every iteration order of the Go map gives the same tags and the same tables. -/
theorem marshal_deterministic (e : KVE) (l l' : List (String × PVal)) (hp : l.Perm l')
    (hn : nodupKeys l = true) : encodeProperties e l = encodeProperties e l' :=
  marshal_deterministic' e l l' hp hn

/-- … hence the same tile structure (and, by the proto hypothesis, the same bytes). -/
theorem marshalVT_deterministic (ls ls' : List Layer) (h : layersPermEq ls ls')
    (hn : ∀ l ∈ ls, ∀ f ∈ l.features, nodupKeys f.props = true) : marshalVT ls = marshalVT ls' :=
  marshalVT_deterministic' ls ls' h hn

/-! ### layers -/

/-- Name, version, extent, feature order, ids, geometries and properties all come back;
    nil geometries are skipped. -/
theorem layer_roundtrip_partial (ls : List Layer) (h : mvtWF ls = true) (hx : exactDomain ls = true) :
    ∃ t, marshalVT ls = .ok t ∧ unmarshalVT t = .ok (expectLayers ls) :=
  layer_roundtrip_partial' ls h hx

/-- "Every member of a collection becomes its own feature" holds for one-member collections … -/
theorem collection_members_partial (ls : List Layer) (t : VTTile) (h : mvtWF ls = true)
    (hs : ∀ l ∈ ls, ∀ f ∈ l.features, singleColl f.geom = true) (hm : marshalVT ls = .ok t) :
    t.map (fun l => l.features.length) = ls.map fun l => (l.features.flatMap expectFeature).length :=
  collection_members_partial' ls t h hs hm

/-- … and is false of the code in general (`addFeature` returns after the first member). -/
theorem collection_witness : ¬ collection_members_full := collection_witness'

/-! ### C05: no panic, bounded allocation -/

/-- `int(2*count)` does not wrap. -/
theorem two_mul_count_nowrap (v : W) : (2#32 * (v >>> 3)).toNat = 2 * (v >>> 3).toNat :=
  two_mul_count_nowrap' v

/-- The geometry decoder never panics and its loops terminate (running out of fuel is a panic
    of the model), for every type, every word list and every orientation function. -/
theorem geometry_total_iter (ori : List (Pt Int) → Int) (gt : Int) (ws : List W) (a : Nat) :
    (decodeGeometryIter ori gt ws a).1.isPanic = false := geometry_total_iter' ori gt ws a

theorem geometry_total (gt : Int) (ws : List W) : (decodeGeometry gt ws).isPanic = false :=
  geometry_total' gt ws

/-- The capacity requested by the geometry decoder's own `make` calls is at most the number of
    words of the field, whatever counts the words claim. -/
theorem geometry_alloc_bound (gt : Int) (ws : List W) : geometryAlloc gt ws ≤ ws.length :=
  geometry_alloc_bound' gt ws

/-- `unmarshalTile` never panics on any tile structure … -/
theorem unmarshal_total (t : VTTile) : (unmarshalVT t).isPanic = false := unmarshal_total' t

/-- … and requests at most one slot per feature plus one per command word. -/
theorem unmarshal_alloc_bound (t : VTTile) : unmarshalAlloc t ≤ vtSize t := unmarshal_alloc_bound' t

/-- `Unmarshal` (the gzip magic test included) panics only if `unmarshalTile` does. -/
theorem unmarshal_top_total {α : Type} (data : List UInt8) (r : R α) (h : r.isPanic = false) :
    (unmarshalTop data r).isPanic = false := unmarshal_top_total' data r h

/-- Non-vacuity: a well-formed layer in the exact domain (a polygon with a hole, an id, properties). -/
example : mvtWF [{ name := "a", version := 2, extent := 4096, features :=
    [{ id := .int 7, props := [("k", .sint .int8 (-3)), ("b", .nil)],
       geom := .val (.polygon [[⟨0,0⟩,⟨4,0⟩,⟨4,4⟩,⟨0,4⟩,⟨0,0⟩], [⟨1,1⟩,⟨1,2⟩,⟨2,2⟩,⟨2,1⟩,⟨1,1⟩]]) }] }] = true ∧
  exactDomain [{ name := "a", version := 2, extent := 4096, features :=
    [{ id := .int 7, props := [("k", .sint .int8 (-3)), ("b", .nil)],
       geom := .val (.polygon [[⟨0,0⟩,⟨4,0⟩,⟨4,4⟩,⟨0,4⟩,⟨0,0⟩], [⟨1,1⟩,⟨1,2⟩,⟨2,2⟩,⟨2,1⟩,⟨1,1⟩]]) }] }] = true := by
  decide

end Orb.MVT
