/-
  C20 — Generic geometry entry points are total and agree with typed ones: THE BEHAVIOURAL CLAUSES,
  as theorems about the per-package models (OrbProofs/C20.lean holds the theorems about the
  regenerated type-switch list).

  For every modelled function `f` that takes the `orb.Geometry` interface:
    (a) `f_total`          no panic on ANY value — all nine kinds, the nil interface and typed nil slices
                           where the model takes a `GVal`, collections nested to any depth, zero-ring
                           polygons inside multi-polygons, zero-vertex rings inside polygons, one-vertex
                           lines.  The hypotheses are: a box of positive size for clipping and smart
                           clipping (`BoxOK` — NOT a precondition the Go functions document: the exact-field
                           termination argument of the line clipper needs it; point, flat and inverted
                           boxes are outside these theorems and are only exercised on the real code, entries
                           `clip.degbox` / `smartclip.degbox` of the C20 cross product), a CW/CCW orientation
                           for smart clipping, a simplifier that is itself total on lines of more than two
                           points.  Totality is proved in exact ordered fields, not in float64.
                           Models that are PLAIN TOTAL LEAN FUNCTIONS (no `Res`/`Option` outcome: every
                           Go path returns, there is no `panic` arm to exclude) have no such theorem; each
                           section says so.
    (b) `f_agrees_typed`   the type switch hands each kind to the kind-specific function and returns its
                           result (with the nil / single-member unwrapping the code applies, spelled out
                           by the `wrap…` functions of C20ModelsClip).
    (c) `f_collection`     the result for a collection is the combination of the members' results:
                           map (clone, project, simplify, clip / smart clip with nil members dropped and a
                           single survivor unwrapped), sum (lengths, geodesic area; planar area over the
                           members of top dimension, as coded), minimum (distance-from, with the index of
                           the first member attaining it), union (bound, tile cover), nesting (WKB, WKT,
                           GeoJSON: the members' encodings in order inside the collection's).

  `orb.Round` is NOT covered here (it stays with the dynamic check): its Lean model, `Orb/Round.lean`
  with the theorems of `OrbProofs/C06Round.lean`, is not used by this file nor by Driver/C20.
  Many of the (b)/(c) statements below are proved by `rfl` / unfolding: they RESTATE the model's own
  dispatch in the vocabulary of the property, so their content is the fidelity of the model, which is
  established by the correspondence runs (C06–C18 for the packages, and the C20 cross product, whose
  driver judges the implementation against exactly these statements: `relate`, `clipColl`, `smartColl`,
  … in Driver/C20.lean), not by these proofs.
  Where the code makes a clause false the true behaviour is stated and the finding named
  (`planar_centroid_collection_lowerdim`: finding C10-collection-lowerdim-centroid).

  Proofs that need more than a line are the primed lemmas of C20ModelsCore / C20ModelsClip /
  C20ModelsPlanar; theorems that already exist in C06 – C18 are re-used as they are.
-/
import OrbProofs.C20ModelsCore
import OrbProofs.C20ModelsClip
import OrbProofs.C20ModelsPlanar
import OrbProofs.C14Lemmas
import OrbProofs.C18Lemmas
import Mathlib.Algebra.Order.Field.Rat

set_option linter.unusedSectionVars false

namespace Orb.C20M
open Orb

/-! ## orb.Clone  (`Orb.Core.cloneV`, heap level `Orb.Heap.clone`)

(a) Both models are plain total functions.  At the value level a clone IS the value
(`clone_value_id`); what is worth stating lives at the heap level, where `clone` allocates. -/

section secClone
variable {α : Type}

/-- Value level: every kind, the nil interface and typed nil slices come back as they are. -/
theorem clone_value_id (v : GVal α) : Core.cloneV v = v := by cases v <;> rfl

/-- (b) Heap level: the type switch hands each kind to its `Clone` method — points and bounds are
    copied by value, the three one-slice kinds go through `MultiPoint.Clone` (`cloneArr`), multi-line
    and polygon through the member loop `cloneArrs`, multi-polygon through `cloneArrss`. -/
theorem clone_agrees_typed (σ : Heap.Store α) :
    (∀ p, Heap.clone σ (.point p) = (σ, .point p)) ∧
    (∀ a, Heap.clone σ (.multiPoint a) = ((Heap.cloneArr σ a).1, .multiPoint (Heap.cloneArr σ a).2)) ∧
    (∀ a, Heap.clone σ (.lineString a) = ((Heap.cloneArr σ a).1, .lineString (Heap.cloneArr σ a).2)) ∧
    (∀ as, Heap.clone σ (.multiLineString as) = ((Heap.cloneArrs σ as).1, .multiLineString (Heap.cloneArrs σ as).2)) ∧
    (∀ a, Heap.clone σ (.ring a) = ((Heap.cloneArr σ a).1, .ring (Heap.cloneArr σ a).2)) ∧
    (∀ as, Heap.clone σ (.polygon as) = ((Heap.cloneArrs σ as).1, .polygon (Heap.cloneArrs σ as).2)) ∧
    (∀ ass, Heap.clone σ (.multiPolygon ass) = ((Heap.cloneArrss σ ass).1, .multiPolygon (Heap.cloneArrss σ ass).2)) ∧
    (∀ a b, Heap.clone σ (.bound a b) = (σ, .bound a b)) :=
  ⟨fun _ => rfl, fun _ => rfl, fun _ => rfl, fun _ => rfl, fun _ => rfl, fun _ => rfl, fun _ => rfl,
    fun _ _ => rfl⟩

/-- (c) A collection is cloned member by member, first to last, each member with the store the
    previous clones left behind … -/
theorem clone_collection (σ : Heap.Store α) (g : Heap.HGeom α) (gs : List (Heap.HGeom α)) :
    Heap.clone σ (.collection gs) = ((Heap.cloneList σ gs).1, .collection (Heap.cloneList σ gs).2) ∧
    Heap.cloneList σ ([] : List (Heap.HGeom α)) = (σ, []) ∧
    Heap.cloneList σ (g :: gs) =
      ((Heap.cloneList (Heap.clone σ g).1 gs).1, (Heap.clone σ g).2 :: (Heap.cloneList (Heap.clone σ g).1 gs).2) :=
  ⟨rfl, rfl, rfl⟩

/-- … and the members of the clone denote, in the store after the call, exactly what the members of
    the original denoted: the collection's clone is the map of `Clone` over its members. -/
theorem clone_collection_denote (σ : Heap.Store α) (gs : List (Heap.HGeom α)) (h : Heap.WF σ (.collection gs)) :
    (Heap.cloneList σ gs).2.map (Heap.denote (Heap.cloneList σ gs).1) = gs.map (Heap.denote σ) :=
  clone_collection_denote' σ gs h

end secClone

/-! ## orb.Equal  (`Orb.Core.equalV`, `Orb.Core.equal`)

(a) Plain total functions into `Bool`. -/

section secEqual
variable {α : Type} [BEq α]

/-- Nil handling: only a nil interface equals a nil interface; a typed nil slice is compared as the
    empty value of its kind. -/
theorem equal_nil (k k' : Kind) (g : Geom α) :
    Core.equalV (.nilIface : GVal α) .nilIface = true ∧
    Core.equalV (.nilIface : GVal α) (.val g) = false ∧ Core.equalV (.val g) (.nilIface : GVal α) = false ∧
    Core.equalV (.nilIface : GVal α) (.nilSlice k) = false ∧ Core.equalV (.nilSlice k) (.nilIface : GVal α) = false ∧
    Core.equalV (.nilSlice k) (.val g) = Core.equal (Core.emptyOf k) g ∧
    Core.equalV (.val g) (.nilSlice k) = Core.equal g (Core.emptyOf k) ∧
    Core.equalV (.nilSlice k : GVal α) (.nilSlice k') = Core.equal (Core.emptyOf (α := α) k) (Core.emptyOf k') :=
  ⟨rfl, rfl, rfl, rfl, rfl, rfl, rfl, rfl⟩

/-- (b) Same kind: the kind's own `Equal` method. -/
theorem equal_agrees_typed :
    (∀ p q : Pt α, Core.equal (.point p) (.point q) = Core.ptEq p q) ∧
    (∀ p q : List (Pt α), Core.equal (.multiPoint p) (.multiPoint q) = Core.ptsEq p q) ∧
    (∀ p q : List (Pt α), Core.equal (.lineString p) (.lineString q) = Core.ptsEq p q) ∧
    (∀ p q : List (List (Pt α)), Core.equal (.multiLineString p) (.multiLineString q) = Core.ptssEq p q) ∧
    (∀ p q : List (Pt α), Core.equal (.ring p) (.ring q) = Core.ptsEq p q) ∧
    (∀ p q : List (List (Pt α)), Core.equal (.polygon p) (.polygon q) = Core.ptssEq p q) ∧
    (∀ p q : List (List (List (Pt α))), Core.equal (.multiPolygon p) (.multiPolygon q) = Core.ptsssEq p q) ∧
    (∀ a b c d : Pt α, Core.equal (.bound a b) (.bound c d) = (Core.ptEq a c && Core.ptEq b d)) :=
  ⟨fun _ _ => rfl, fun _ _ => rfl, fun _ _ => rfl, fun _ _ => rfl, fun _ _ => rfl, fun _ _ => rfl,
    fun _ _ => rfl, fun _ _ _ _ => rfl⟩

/-- … different kinds are never equal (a ring, a one-ring polygon and a bound included). -/
theorem equal_kind_mismatch (g h : Geom α) (hk : g.kind ≠ h.kind) : Core.equal g h = false :=
  equal_kind_mismatch' g h hk

/-- (c) Two collections are equal iff they have the same number of members and the members are
    pairwise equal, in order. -/
theorem equal_collection (gs hs : List (Geom α)) :
    Core.equal (.collection gs) (.collection hs) =
      (decide (gs.length = hs.length) && (List.zipWith Core.equal gs hs).all id) :=
  equal_collection' gs hs

end secEqual

/-! ## Geometry.Bound  (`Orb.Core.bound`)

(a) A plain total function (`eb` is the package's empty-bound sentinel). -/

section secBound
variable {α : Type} [LT α] [LE α] [DecidableLT α] [DecidableLE α] [Min α] [Max α]

/-- (b) Each kind's `Bound()` method. -/
theorem bound_agrees_typed (eb : Core.Bound α) :
    (∀ p, Core.bound eb (.point p) = ⟨p, p⟩) ∧
    (∀ ps, Core.bound eb (.multiPoint ps) = Core.multiPointBound eb ps) ∧
    (∀ ps, Core.bound eb (.lineString ps) = Core.multiPointBound eb ps) ∧
    (∀ ls, Core.bound eb (.multiLineString ls) = Core.multiLineStringBound eb ls) ∧
    (∀ ps, Core.bound eb (.ring ps) = Core.multiPointBound eb ps) ∧
    (∀ rs, Core.bound eb (.polygon rs) = Core.polygonBound eb rs) ∧
    (∀ ps, Core.bound eb (.multiPolygon ps) = Core.multiPolygonBound eb ps) ∧
    (∀ a b, Core.bound eb (.bound a b) = ⟨a, b⟩) := by
  refine ⟨?_, ?_, ?_, ?_, ?_, ?_, ?_, ?_⟩ <;> intros <;> rw [Core.bound]

/-- (c) `Collection.Bound`, as coded: the empty sentinel without members, otherwise the first
    member's bound united with the others', left to right. -/
theorem bound_collection_fold (eb : Core.Bound α) (g : Geom α) (rest : List (Geom α)) :
    Core.bound eb (.collection []) = eb ∧
    Core.bound eb (.collection (g :: rest)) =
      rest.foldl (fun b x => b.union (Core.bound eb x)) (Core.bound eb g) := by
  constructor <;> rw [Core.bound]

end secBound

section secBoundOrder
variable {α : Type} [LinearOrder α]

/-- (c) … which is the UNION of the members' bounds in the only sense a box can be: the least box
    that contains every member's box (for zero members: no point at all). -/
theorem bound_collection_union (eb : Core.Bound α) (he : eb.isEmpty = true) (gs : List (Geom α)) :
    (∀ g ∈ gs, ∀ p, Core.Mem p (Core.bound eb g) → Core.Mem p (Core.bound eb (.collection gs))) ∧
    (∀ c : Core.Bound α, (∀ g ∈ gs, ∀ p, Core.Mem p (Core.bound eb g) → Core.Mem p c) →
      ∀ p, Core.Mem p (Core.bound eb (.collection gs)) → Core.Mem p c) :=
  bound_collection_union' eb he gs

end secBoundOrder

/-! ## clip.Geometry  (`Orb.Clip.geometry`; outer `none` = the Go code would panic / not return)

The model takes a non-nil `Geom` (`clip.Geometry(nil)` returns nil before the type switch; typed nil
slices behave as the empty value of their kind). -/

section secClipTotal
variable {α : Type} [Field α] [LinearOrder α] [IsStrictOrderedRing α]

/-- (a) For every box of positive size and EVERY geometry value the call returns (C08). -/
theorem clip_geometry_total (eb box : Core.Bound α) (hb : Clip.BoxOK box) (g : Geom α) :
    ∃ r, Clip.geometry eb box g = some r := Clip.geometry_total' eb box hb g

/-- (c) with (a): every member has a result `rᵢ` (`none` = Go `nil`), and the collection's result is
    `nil` when the bound pre-test fails, otherwise the non-nil member results in order — `nil` when
    none is left, the survivor ITSELF when exactly one is left, a collection otherwise. -/
theorem clip_geometry_collection_total (eb box : Core.Bound α) (hb : Clip.BoxOK box) (gs : List (Geom α)) :
    ∃ rs, List.Forall₂ (fun g r => Clip.geometry eb box g = some r) gs rs ∧
      Clip.geometry eb box (.collection gs) =
        some (if !(box.intersects (Core.bound eb (.collection gs))) then none else wrapColl (rs.filterMap id)) :=
  clip_collection_total' eb box hb gs

end secClipTotal

section secClip
variable {α : Type} [Add α] [Sub α] [Mul α] [Div α] [LT α] [LE α] [DecidableLT α] [DecidableLE α] [BEq α]
  [Min α] [Max α]

/-- (b) After the bound pre-test (`clipPre`) each kind goes to its typed clipper, and the result is
    wrapped as the code does: no piece ⇒ nil; ONE point / line / polygon left of a multi-geometry ⇒
    that single geometry; an emptied ring / polygon / bound ⇒ nil; an EMPTY Bound argument ⇒ nil
    (`wrapBoundArg`).  (Any arithmetic, so also the
    float64 instance.) -/
theorem clip_geometry_agrees_typed (eb box : Core.Bound α) :
    (∀ p, Clip.geometry eb box (.point p) = clipPre eb box (.point p) (some (some (.point p)))) ∧
    (∀ ps, Clip.geometry eb box (.multiPoint ps) =
      clipPre eb box (.multiPoint ps) (some (wrapPts (Clip.multiPoint box ps)))) ∧
    (∀ ps, Clip.geometry eb box (.lineString ps) =
      clipPre eb box (.lineString ps) ((Clip.lineString box false ps).map wrapLines)) ∧
    (∀ ls, Clip.geometry eb box (.multiLineString ls) =
      clipPre eb box (.multiLineString ls) ((Clip.multiLineString box false ls).map wrapLines)) ∧
    (∀ r, Clip.geometry eb box (.ring r) = clipPre eb box (.ring r) ((Clip.ring box r).map wrapRing)) ∧
    (∀ p, Clip.geometry eb box (.polygon p) = clipPre eb box (.polygon p) ((Clip.polygon box p).map wrapPoly)) ∧
    (∀ mp, Clip.geometry eb box (.multiPolygon mp) =
      clipPre eb box (.multiPolygon mp) ((Clip.multiPolygon box mp).map wrapPolys)) ∧
    (∀ a b, Clip.geometry eb box (.bound a b) =
      clipPre eb box (.bound a b) (some (wrapBoundArg ⟨a, b⟩ (Clip.clipBound box ⟨a, b⟩)))) :=
  ⟨clip_point' eb box, clip_multiPoint' eb box, clip_lineString' eb box, clip_multiLineString' eb box,
    clip_ring' eb box, clip_polygon' eb box, clip_multiPolygon' eb box, clip_bound' eb box⟩

/-- (c) The collection case in any arithmetic: the members are clipped first to last (`mapM`: the
    first member that does not return decides), nil results dropped, a single survivor unwrapped. -/
theorem clip_geometry_collection (eb box : Core.Bound α) (gs : List (Geom α)) :
    Clip.geometry eb box (.collection gs) =
      clipPre eb box (.collection gs)
        ((gs.mapM (Clip.geometry eb box)).map fun rs => wrapColl (rs.filterMap id)) :=
  clip_collection' eb box gs

end secClip

/-! ## smartclip.Geometry  (`Orb.SmartClip.geometryV` / `geometry`) -/

section secSmartTotal
variable {α : Type} [Field α] [LinearOrder α] [IsStrictOrderedRing α]

/-- (a) For every box of positive size, both orientations and EVERY value — nil interface, typed nil
    slices, any kind, any nesting, zero-ring polygons, zero-vertex rings — the call returns (C16). -/
theorem smartclip_geometry_total (eb box : Core.Bound α) (hb : SmartClip.BoxOK box) (o : Int)
    (ho : o = SmartClip.CW ∨ o = SmartClip.CCW) (v : GVal α) :
    ∃ r, SmartClip.geometryV eb box o v = .ok r := SmartClip.geometry_total'' eb box hb o ho v

end secSmartTotal

section secSmart
variable {α : Type} [Add α] [Sub α] [Mul α] [Div α] [LT α] [LE α] [DecidableLT α] [DecidableLE α] [BEq α]
  [OfNat α 0] [OfNat α 2] [Min α] [Max α]

/-- Nil handling: a nil interface is returned as it is, a typed nil slice is the empty value. -/
theorem smartclip_geometry_nil (eb box : Core.Bound α) (o : Int) (k : Kind) :
    SmartClip.geometryV eb box o (.nilIface : GVal α) = .ok .nilIface ∧
    SmartClip.geometryV eb box o (.nilSlice k : GVal α) = SmartClip.geometry eb box o (Core.emptyOf k) :=
  ⟨rfl, rfl⟩

/-- (b) The three two-dimensional kinds go to `smartclip.Ring` / `Polygon` / `MultiPolygon` and the
    multi-polygon that comes back is returned as nil / its single polygon / itself (`wrapMP`); every
    other kind (bound included) is clipped by plain `clip.Geometry`. -/
theorem smartclip_geometry_agrees_typed (eb box : Core.Bound α) (o : Int) :
    (∀ r, SmartClip.geometry eb box o (.ring r) = (SmartClip.ring box r o).map SmartClip.wrapMP) ∧
    (∀ p, SmartClip.geometry eb box o (.polygon p) = (SmartClip.polygon box p o).map SmartClip.wrapMP) ∧
    (∀ mp, SmartClip.geometry eb box o (.multiPolygon mp) =
      (SmartClip.multiPolygon box mp o).map SmartClip.wrapMP) ∧
    (∀ a b, SmartClip.geometry eb box o (.bound a b) = SmartClip.plainClip eb box (.bound a b)) ∧
    (∀ p, SmartClip.geometry eb box o (.point p) = SmartClip.plainClip eb box (.point p)) ∧
    (∀ ps, SmartClip.geometry eb box o (.multiPoint ps) = SmartClip.plainClip eb box (.multiPoint ps)) ∧
    (∀ ps, SmartClip.geometry eb box o (.lineString ps) = SmartClip.plainClip eb box (.lineString ps)) ∧
    (∀ ls, SmartClip.geometry eb box o (.multiLineString ls) = SmartClip.plainClip eb box (.multiLineString ls)) :=
  ⟨smart_ring' eb box o, smart_polygon' eb box o, smart_multiPolygon' eb box o,
    fun _ _ => by rw [SmartClip.geometry], fun _ => by rw [SmartClip.geometry], fun _ => by rw [SmartClip.geometry],
    fun _ => by rw [SmartClip.geometry], fun _ => by rw [SmartClip.geometry]⟩

/-- … where plain clipping is `clip.Geometry` read as a top-level value. -/
theorem smartclip_plainClip_eq (eb box : Core.Bound α) (g : Geom α) :
    SmartClip.plainClip eb box g =
      match Clip.geometry eb box g with
      | none => .err "clip stuck"
      | some none => .ok .nilIface
      | some (some r) => .ok (.val r) := rfl

/-- (c) A collection without a two-dimensional member is clipped plainly as a whole; otherwise
    member by member, first to last (`resMapM`: the first member that does not return decides), nil
    results dropped, a nested collection that lost all members kept as an empty collection
    (`scMember`), and NO survivor ⇒ a typed nil collection, ONE survivor ⇒ that member itself,
    several ⇒ a collection (`scWrap`). -/
theorem smartclip_geometry_collection (eb box : Core.Bound α) (o : Int) (gs : List (Geom α)) :
    SmartClip.geometry eb box o (.collection gs) =
      if SmartClip.dimensions.dimsList gs != 2 then SmartClip.plainClip eb box (.collection gs)
      else (resMapM (SmartClip.geometry eb box o) gs).map fun cs => scWrap (cs.filterMap scMember) :=
  smart_collection' eb box o gs

end secSmart

/-! ## simplify.Simplify  (`Orb.Simplify.simplifyV` / `simplifyG`; all three simplifiers) -/

section secSimplifyTotal
variable {α : Type} [Add α] [Sub α] [Mul α] [Div α] [Neg α] [LT α] [LE α] [DecidableLT α] [DecidableLE α] [BEq α]
  [OfNat α 0] [OfNat α 1] [OfNat α 2]

/-- (a) No panic and no non-termination for EVERY value (ring-less polygon inside a multi-polygon,
    zero-vertex ring, one-vertex line, nil interface, typed nils …), whatever the simplifier, as long
    as the simplifier itself is total on lines of more than two points (C12) … -/
theorem simplify_total (s : Simplify.Simplifier α)
    (hs : ∀ ls area, 2 < ls.length → (s ls area).isOk = true) (v : GVal α) :
    (Simplify.simplifyV s v).isOk = true := Simplify.simplify_total' s hs v

/-- … which radial is, for any distance function and ANY arithmetic (so also float64) … -/
theorem simplify_total_radial (df : Pt α → Pt α → α) (t : α) (v : GVal α) :
    (Simplify.simplifyV (Simplify.radialS df t) v).isOk = true := Simplify.radial_simplify_total' df t v

end secSimplifyTotal

section secSimplify
variable {α : Type}

/-- Nil handling: a nil interface and every typed nil come back as a nil interface. -/
theorem simplify_nil (s : Simplify.Simplifier α) (k : Kind) :
    Simplify.simplifyV s (.nilIface : GVal α) = .ok .nil ∧ Simplify.simplifyV s (.nilSlice k : GVal α) = .ok .nil :=
  ⟨rfl, rfl⟩

/-- (b) Points, multi-points and bounds are returned as they are; the five line-based kinds go to the
    typed method and an EMPTY result becomes a nil interface (`wrapLen`) (C12 `wrappers_agree`). -/
theorem simplify_agrees_typed (s : Simplify.Simplifier α) :
    (∀ p, Simplify.simplifyG s (.point p) = .ok (.geom (.point p))) ∧
    (∀ ps, Simplify.simplifyG s (.multiPoint ps) = .ok (.geom (.multiPoint ps))) ∧
    (∀ a b, Simplify.simplifyG s (.bound a b) = .ok (.geom (.bound a b))) ∧
    (∀ l, Simplify.simplifyG s (.lineString l) = Simplify.wrapLen .lineString (Simplify.lineString s l)) ∧
    (∀ l, Simplify.simplifyG s (.multiLineString l) =
      Simplify.wrapLen .multiLineString (Simplify.multiLineString s l)) ∧
    (∀ l, Simplify.simplifyG s (.ring l) = Simplify.wrapLen .ring (Simplify.ring s l)) ∧
    (∀ l, Simplify.simplifyG s (.polygon l) = Simplify.wrapLen .polygon (Simplify.polygon s l)) ∧
    (∀ l, Simplify.simplifyG s (.multiPolygon l) = Simplify.wrapLen .multiPolygon (Simplify.multiPolygon s l)) :=
  ⟨fun _ => rfl, fun _ => rfl, fun _ _ => rfl, fun _ => rfl, fun _ => rfl, fun _ => rfl, fun _ => rfl,
    fun _ => rfl⟩

/-- (c) A collection is simplified member by member, first to last; a member that simplified to nothing
    (a nil interface) is DROPPED, the others keep their order; a collection none of whose members is
    left — in particular one without members — becomes a nil interface, never an empty collection. -/
theorem simplify_collection (s : Simplify.Simplifier α) (gs : List (Geom α)) :
    Simplify.simplifyG s (.collection gs) =
      match resMapM (Simplify.simplifyG s) gs with
      | .ok l =>
        if (l.filter fun g => !g.isNil).length = 0 then .ok .nil else .ok (.coll (l.filter fun g => !g.isNil))
      | .err e => .err e
      | .panic w => .panic w := simplify_collection' s gs

end secSimplify

section secSimplifyInst
variable {α : Type} [Field α] [LinearOrder α] [IsStrictOrderedRing α]

/-- (a) … and which Douglas-Peucker and Visvalingam are in exact arithmetic (Visvalingam with the
    default or a minimum count of at least 2). -/
theorem simplify_total_douglasPeucker (t : α) (v : GVal α) :
    (Simplify.simplifyV (Simplify.dpS t) v).isOk = true := Simplify.dp_simplify_total' t v

theorem simplify_total_visvalingam (thr : Option α) (toKeep : Nat) (hk : toKeep = 0 ∨ 2 ≤ toKeep) (v : GVal α) :
    (Simplify.simplifyV (Simplify.visS thr toKeep) v).isOk = true := Simplify.vis_simplify_total' thr toKeep hk v

end secSimplifyInst

/-! ## project.Geometry  (`Orb.Project.geometryVM` / `geometryM` / `geometry`)

(a) Plain total functions (the projection itself is an arbitrary, possibly stateful, Go closure). -/

section secProject
variable {σ α : Type} [LT α] [LE α] [DecidableLT α] [DecidableLE α] [Min α] [Max α]

/-- Nil handling: a nil interface and typed nil slices are returned as they are, `proj` is not called. -/
theorem project_nil (proj : Project.Proj σ α) (s : σ) (k : Kind) :
    Project.geometryVM proj .nilIface s = (.nilIface, s) ∧
    Project.geometryVM proj (.nilSlice k) s = (.nilSlice k, s) := ⟨rfl, rfl⟩

/-- (b) Each kind goes to its typed helper (`ptsM` = `MultiPoint`/`LineString`/`Ring`, `ptssM` =
    `MultiLineString`/`Polygon`, `ptsssM` = `MultiPolygon`, `boundOf` = `Bound`). -/
theorem project_agrees_typed (proj : Project.Proj σ α) (s : σ) :
    (∀ p, Project.geometryM proj (.point p) s = (.point (proj p s).1, (proj p s).2)) ∧
    (∀ ps, Project.geometryM proj (.multiPoint ps) s = (.multiPoint (Project.ptsM proj ps s).1, (Project.ptsM proj ps s).2)) ∧
    (∀ ps, Project.geometryM proj (.lineString ps) s = (.lineString (Project.ptsM proj ps s).1, (Project.ptsM proj ps s).2)) ∧
    (∀ ps, Project.geometryM proj (.ring ps) s = (.ring (Project.ptsM proj ps s).1, (Project.ptsM proj ps s).2)) ∧
    (∀ ls, Project.geometryM proj (.multiLineString ls) s =
      (.multiLineString (Project.ptssM proj ls s).1, (Project.ptssM proj ls s).2)) ∧
    (∀ rs, Project.geometryM proj (.polygon rs) s = (.polygon (Project.ptssM proj rs s).1, (Project.ptssM proj rs s).2)) ∧
    (∀ ps, Project.geometryM proj (.multiPolygon ps) s =
      (.multiPolygon (Project.ptsssM proj ps s).1, (Project.ptsssM proj ps s).2)) ∧
    (∀ lo hi, Project.geometryM proj (.bound lo hi) s =
      (.bound (Project.boundOf (proj lo s).1 (proj hi (proj lo s).2).1).lo
              (Project.boundOf (proj lo s).1 (proj hi (proj lo s).2).1).hi, (proj hi (proj lo s).2).2)) :=
  ⟨fun _ => rfl, fun _ => rfl, fun _ => rfl, fun _ => rfl, fun _ => rfl, fun _ => rfl, fun _ => rfl,
    fun _ _ => rfl⟩

/-- (c) A collection is projected member by member, first to last, the closure's state handed from
    each member to the next … -/
theorem project_collection (proj : Project.Proj σ α) (g : Geom α) (gs : List (Geom α)) (s : σ) :
    Project.geometryM proj (.collection gs) s =
      (.collection (Project.geometryM.go proj gs s).1, (Project.geometryM.go proj gs s).2) ∧
    Project.geometryM.go proj [] s = ([], s) ∧
    Project.geometryM.go proj (g :: gs) s =
      ((Project.geometryM proj g s).1 :: (Project.geometryM.go proj gs (Project.geometryM proj g s).2).1,
       (Project.geometryM.go proj gs (Project.geometryM proj g s).2).2) := ⟨rfl, rfl, rfl⟩

/-- … so with a pure point function it is the map of `project.Geometry` over the members. -/
theorem project_collection_pure (f : Pt α → Pt α) (gs : List (Geom α)) :
    Project.geometry f (.collection gs) = .collection (gs.map (Project.geometry f)) :=
  project_collection_pure' f gs

end secProject

/-! ## planar.Area / CentroidArea / Length / DistanceFrom(WithIndex)  (`Orb.Planar`)

(a) Plain total functions (`math.Inf(1)` is `none`).  `planar.CentroidArea(nil)` and a nil MEMBER
are outside the model (`Geom` has no nil members). -/

section secPlanarTyped
variable {α : Type} [Add α] [Sub α] [Mul α] [Div α] [Neg α] [OfNat α 0] [OfNat α 1] [OfNat α 2] [OfNat α 6]
  [NatCast α] [BEq α] [LT α] [DecidableLT α]

/-- (b) `CentroidArea`: each kind's own centroid/area function (a point is a one-point multi-point, a
    line a one-line multi-line, a bound its ring; dimensions 0 and 1 report area 0). -/
theorem planar_centroidArea_agrees_typed (sqrt : α → α) :
    (∀ p, Planar.centroidArea sqrt (.point p) = (Planar.multiPointCentroid [p], 0)) ∧
    (∀ ps, Planar.centroidArea sqrt (.multiPoint ps) = (Planar.multiPointCentroid ps, 0)) ∧
    (∀ ps, Planar.centroidArea sqrt (.lineString ps) = (Planar.multiLineStringCentroid sqrt [ps], 0)) ∧
    (∀ ls, Planar.centroidArea sqrt (.multiLineString ls) = (Planar.multiLineStringCentroid sqrt ls, 0)) ∧
    (∀ r, Planar.centroidArea sqrt (.ring r) = Planar.ringCentroidArea r) ∧
    (∀ p, Planar.centroidArea sqrt (.polygon p) = Planar.polygonCentroidArea sqrt p) ∧
    (∀ mp, Planar.centroidArea sqrt (.multiPolygon mp) = Planar.multiPolygonCentroidArea sqrt mp) ∧
    (∀ lo hi, Planar.centroidArea sqrt (.bound lo hi) = Planar.ringCentroidArea (Planar.boundRing lo hi)) ∧
    (∀ g, Planar.area sqrt g = (Planar.centroidArea sqrt g).2) :=
  ⟨fun _ => rfl, fun _ => rfl, fun _ => rfl, fun _ => rfl, fun _ => rfl, fun _ => rfl, fun _ => rfl,
    fun _ _ => rfl, fun _ => rfl⟩

/-- (b) `Length`: 0 for points; the line length for lines and rings; the sum over the members / rings
    for multi-lines, polygons, multi-polygons; the perimeter ring for a bound. -/
theorem planar_length_agrees_typed (sqrt : α → α) :
    (∀ p, Planar.length sqrt (.point p) = 0) ∧
    (∀ ps, Planar.length sqrt (.multiPoint ps) = 0) ∧
    (∀ ls, Planar.length sqrt (.lineString ls) = Planar.lineStringLength sqrt ls 0) ∧
    (∀ mls, Planar.length sqrt (.multiLineString mls) =
      mls.foldl (fun sum ls => sum + Planar.lineStringLength sqrt ls 0) 0) ∧
    (∀ r, Planar.length sqrt (.ring r) = Planar.lineStringLength sqrt r 0) ∧
    (∀ p, Planar.length sqrt (.polygon p) = Planar.polygonLength sqrt p) ∧
    (∀ mp, Planar.length sqrt (.multiPolygon mp) = mp.foldl (fun sum p => sum + Planar.polygonLength sqrt p) 0) ∧
    (∀ lo hi, Planar.length sqrt (.bound lo hi) = Planar.lineStringLength sqrt (Planar.boundRing lo hi) 0) :=
  ⟨fun _ => rfl, fun _ => rfl, fun _ => rfl, fun _ => rfl, fun _ => rfl, fun _ => rfl, fun _ => rfl,
    fun _ _ => rfl⟩

/-- (b) `DistanceFromWithIndex`: each kind's own distance function; for the two multi-kinds of lines
    and polygons the running minimum over the members with the member index. -/
theorem planar_distanceFrom_agrees_typed (sqrt : α → α) (p : Pt α) :
    (∀ g, Planar.distanceFromWithIndex sqrt p (.point g) = (some (Planar.distance sqrt g p), 0)) ∧
    (∀ mp, Planar.distanceFromWithIndex sqrt p (.multiPoint mp) = Planar.multiPointDistanceFrom sqrt mp p) ∧
    (∀ ls, Planar.distanceFromWithIndex sqrt p (.lineString ls) = Planar.lineStringDistanceFrom sqrt ls p) ∧
    (∀ mls, Planar.distanceFromWithIndex sqrt p (.multiLineString mls) =
      mls.zipIdx.foldl (fun s (li : List (Pt α) × Nat) =>
        Planar.minStep s (Planar.lineStringDistanceFrom sqrt li.1 p).1 li.2) (none, -1)) ∧
    (∀ r, Planar.distanceFromWithIndex sqrt p (.ring r) = Planar.lineStringDistanceFrom sqrt r p) ∧
    (∀ pg, Planar.distanceFromWithIndex sqrt p (.polygon pg) = Planar.polygonDistanceFrom sqrt pg p) ∧
    (∀ mp, Planar.distanceFromWithIndex sqrt p (.multiPolygon mp) =
      mp.zipIdx.foldl (fun s (gi : List (List (Pt α)) × Nat) =>
        Planar.minStep s (Planar.polygonDistanceFrom sqrt gi.1 p).1 gi.2) (none, -1)) ∧
    (∀ lo hi, Planar.distanceFromWithIndex sqrt p (.bound lo hi) =
      Planar.lineStringDistanceFrom sqrt (Planar.boundRing lo hi) p) ∧
    (∀ g, Planar.distanceFrom sqrt g p = (Planar.distanceFromWithIndex sqrt p g).1) :=
  ⟨fun _ => rfl, fun _ => rfl, fun _ => rfl, fun _ => rfl, fun _ => rfl, fun _ => rfl, fun _ => rfl,
    fun _ _ => rfl, fun _ => rfl⟩

end secPlanarTyped

section secPlanar
variable {α : Type} [Field α] [LinearOrder α] [IsStrictOrderedRing α]

/-- (c) Area: the sum over the members of TOP dimension (as coded: members of lower dimension are
    skipped, and have area 0 anyway) (C10). -/
theorem planar_area_collection (sqrt : α → α) (gs : List (Geom α)) :
    Planar.area sqrt (.collection gs) =
      ((gs.filter fun g => Planar.dimensions g == Planar.maxDim gs).map (Planar.area sqrt)).sum :=
  Planar.collection_area_sum_topdim' sqrt gs

/-- (c) Centroid and area together, as coded: the AREA-weighted combination of the members of top
    dimension (`finishWeighted`: the weighted sums divided by the total area; the origin when that is 0). -/
theorem planar_centroid_collection (sqrt : α → α) (gs : List (Geom α)) :
    Planar.centroidArea sqrt (.collection gs) =
      Planar.finishWeighted
        (((gs.filter fun g => Planar.dimensions g == Planar.maxDim gs).map fun g =>
            (Planar.centroidArea sqrt g).1.x * (Planar.centroidArea sqrt g).2).sum,
         ((gs.filter fun g => Planar.dimensions g == Planar.maxDim gs).map fun g =>
            (Planar.centroidArea sqrt g).1.y * (Planar.centroidArea sqrt g).2).sum,
         ((gs.filter fun g => Planar.dimensions g == Planar.maxDim gs).map fun g =>
            (Planar.centroidArea sqrt g).2).sum) :=
  planar_centroid_collection' sqrt gs

/-- (c), where the clause "a collection is the combination of its members" is FALSE of the code
    (known finding C10-collection-lowerdim-centroid): members of dimension 0 or 1 all weigh 0, so a
    collection of points and lines has "centroid" (0,0) whatever its members are — not the count- or
    length-weighted mean the typed functions compute for a multi-point / multi-line (C10). -/
theorem planar_centroid_collection_lowerdim (sqrt : α → α) (gs : List (Geom α)) (h : Planar.maxDim gs < 2) :
    Planar.centroidArea sqrt (.collection gs) = (⟨0, 0⟩, 0) :=
  Planar.collection_lowerdim_centroid_origin' sqrt gs h

/-- (c) Length: the sum of the members' lengths. -/
theorem planar_length_collection (sqrt : α → α) (gs : List (Geom α)) :
    Planar.length sqrt (.collection gs) = (gs.map (Planar.length sqrt)).sum :=
  planar_length_collection' sqrt gs

/-- (c) Distance-from: the minimum of the members' distances (`none` = +Inf for no members / only
    empty members; `omin` is the minimum with `none` as +Inf) … -/
theorem planar_distanceFrom_collection (sqrt : α → α) (gs : List (Geom α)) (p : Pt α) :
    Planar.distanceFrom sqrt (.collection gs) p =
      gs.foldl (fun m g => Planar.omin m (Planar.distanceFrom sqrt g p)) none :=
  planar_distanceFrom_collection' sqrt gs p

/-- … reported with the index of the FIRST member that attains it (strictly closer than every member
    before it, no member after it closer), and `(+Inf, -1)` when every member is at +Inf. -/
theorem planar_distanceFromWithIndex_collection (sqrt : α → α) (gs : List (Geom α)) (p : Pt α) :
    (Planar.distanceFromWithIndex sqrt p (.collection gs) = (none, -1) ∧
      ∀ g ∈ gs, Planar.distanceFrom sqrt g p = none) ∨
    (∃ (k : Nat) (d : α), (gs.map fun g => Planar.distanceFrom sqrt g p)[k]? = some (some d) ∧
      Planar.distanceFromWithIndex sqrt p (.collection gs) = (some d, (k : Int)) ∧
      (∀ j, j < k → ∀ x, (gs.map fun g => Planar.distanceFrom sqrt g p)[j]? = some x →
        Planar.optLt (some d) x = true) ∧
      ∀ g ∈ gs, Planar.optLt (Planar.distanceFrom sqrt g p) (some d) = false) :=
  planar_distanceFromWithIndex_collection' sqrt gs p

end secPlanar

/-! ## geo.Area / geo.Length / geo.LengthHaversine  (`Orb.Geo`)

(a) Plain total functions (`math.Sin`, … are the opaque fields of `F`). -/

section secGeoTyped
variable {α : Type} [Add α] [Sub α] [Mul α] [Div α] [Neg α] [LT α] [DecidableLT α] [BEq α]
  [OfNat α 0] [OfNat α 1] [OfNat α 2] [OfNat α 90] [OfNat α 180]

/-- Nil handling: the nil interface and every typed nil have area 0 (a nil ring: `math.Abs(0)`). -/
theorem geo_area_nil (F : Geo.Fn α) (k : Kind) (hk : k ≠ .ring) :
    Geo.areaV F .nilIface = 0 ∧ Geo.areaV F (.nilSlice .ring) = F.abs 0 ∧ Geo.areaV F (.nilSlice k) = 0 := by
  refine ⟨rfl, rfl, ?_⟩
  cases k <;> first | rfl | exact absurd rfl hk

/-- (b) `Area`: 0 below dimension 2; `|ringArea|` for a ring and for a bound's ring; the typed polygon
    and multi-polygon areas. -/
theorem geo_area_agrees_typed (F : Geo.Fn α) :
    (∀ p, Geo.area F (.point p) = 0) ∧ (∀ ps, Geo.area F (.multiPoint ps) = 0) ∧
    (∀ ps, Geo.area F (.lineString ps) = 0) ∧ (∀ ls, Geo.area F (.multiLineString ls) = 0) ∧
    (∀ r, Geo.area F (.ring r) = F.abs (Geo.ringArea F r)) ∧
    (∀ p, Geo.area F (.polygon p) = Geo.polygonArea F p) ∧
    (∀ mp, Geo.area F (.multiPolygon mp) = Geo.multiPolygonArea F mp) ∧
    (∀ lo hi, Geo.area F (.bound lo hi) = F.abs (Geo.ringArea F (Geo.toRing lo hi))) ∧
    (∀ g, Geo.areaV F (.val g) = Geo.area F g) :=
  ⟨fun _ => rfl, fun _ => rfl, fun _ => rfl, fun _ => rfl, fun _ => rfl, fun _ => rfl, fun _ => rfl,
    fun _ _ => rfl, fun _ => rfl⟩

/-- (b) `Length` for any point-distance function (`geo.Distance`, `geo.DistanceHaversine`). -/
theorem geo_length_agrees_typed (df : Pt α → Pt α → α) :
    (∀ p, Geo.length df (.point p) = 0) ∧ (∀ ps, Geo.length df (.multiPoint ps) = 0) ∧
    (∀ ls, Geo.length df (.lineString ls) = Geo.lineLength df ls) ∧
    (∀ ls, Geo.length df (.multiLineString ls) = ls.foldl (fun sum l => sum + Geo.lineLength df l) 0) ∧
    (∀ r, Geo.length df (.ring r) = Geo.lineLength df r) ∧
    (∀ p, Geo.length df (.polygon p) = Geo.polygonLength df p) ∧
    (∀ mp, Geo.length df (.multiPolygon mp) = mp.foldl (fun sum p => sum + Geo.polygonLength df p) 0) ∧
    (∀ lo hi, Geo.length df (.bound lo hi) = Geo.lineLength df (Geo.toRing lo hi)) :=
  ⟨fun _ => rfl, fun _ => rfl, fun _ => rfl, fun _ => rfl, fun _ => rfl, fun _ => rfl, fun _ => rfl,
    fun _ _ => rfl⟩

end secGeoTyped

section secGeo
variable {α : Type} [Field α] [LinearOrder α] [IsStrictOrderedRing α]

/-- (c) Area: the sum of the members' areas (every member, whatever its dimension) (C18). -/
theorem geo_area_collection (F : Geo.Fn α) (gs : List (Geom α)) :
    Geo.area F (.collection gs) = (gs.map (Geo.area F)).sum := Geo.collection_area_sum' F gs

/-- (c) Length: the sum of the members' lengths (C18). -/
theorem geo_length_collection (df : Pt α → Pt α → α) (gs : List (Geom α)) :
    Geo.length df (.collection gs) = (gs.map (Geo.length df)).sum := Geo.length_collection' df gs

end secGeo

/-! ## tilecover.Geometry  (`Orb.TileCover.cover`; `.err` = `ErrUnevenIntersections`) -/

section secTileCover
variable {α : Type} [Add α] [Sub α] [Div α] [Neg α] [OfNat α 0] [OfNat α 1] [LT α] [DecidableLT α] [BEq α]

/-- (a) No geometry value makes `tilecover.Geometry` panic: zero-vertex rings, one-vertex rings and
    rings whose trace is empty included (C14). -/
theorem tilecover_total (ops : TileCover.Ops α) (frac : Pt α → Pt α) (zoom fuel : Nat) (g : Geom α) :
    (TileCover.cover ops frac zoom fuel g).isPanic = false := TileCover.cover_total' ops frac zoom fuel g

/-- (b) Each kind goes to its own cover function, starting from an empty set (an empty ring has an
    empty cover; a ring is the one-ring polygon; an empty bound has an empty cover). -/
theorem tilecover_agrees_typed (ops : TileCover.Ops α) (frac : Pt α → Pt α) (zoom fuel : Nat) :
    (∀ p, TileCover.cover ops frac zoom fuel (.point p) = .ok [TileCover.tileAt ops p.x (frac p) zoom]) ∧
    (∀ ps, TileCover.cover ops frac zoom fuel (.multiPoint ps) =
      .ok (ps.map fun p => TileCover.tileAt ops p.x (frac p) zoom)) ∧
    (∀ ps, TileCover.cover ops frac zoom fuel (.lineString ps) =
      (TileCover.line ops zoom fuel [] (ps.map frac) none).map (·.1)) ∧
    (∀ ls, TileCover.cover ops frac zoom fuel (.multiLineString ls) =
      TileCover.multiLine ops zoom fuel [] (ls.map (·.map frac))) ∧
    (∀ ps, TileCover.cover ops frac zoom fuel (.ring ps) =
      if ps.isEmpty then .ok [] else TileCover.polygon ops zoom fuel [] [ps.map frac]) ∧
    (∀ rs, TileCover.cover ops frac zoom fuel (.polygon rs) =
      TileCover.polygon ops zoom fuel [] (rs.map (·.map frac))) ∧
    (∀ ps, TileCover.cover ops frac zoom fuel (.multiPolygon ps) =
      TileCover.multiPolygon ops zoom fuel [] (ps.map (·.map (·.map frac)))) ∧
    (∀ a b, TileCover.cover ops frac zoom fuel (.bound a b) =
      if b.x < a.x ∨ b.y < a.y then .ok []
      else .ok (TileCover.coverRect (TileCover.tileAt ops a.x (frac a) zoom) (TileCover.tileAt ops b.x (frac b) zoom) zoom)) := by
  refine ⟨?_, ?_, ?_, ?_, ?_, ?_, ?_, ?_⟩ <;> intros <;> rw [TileCover.cover]

/-- (c) The cover of a collection whose members all have covers is the UNION of the members' covers … -/
theorem tilecover_collection_union (ops : TileCover.Ops α) (frac : Pt α → Pt α) (zoom fuel : Nat)
    (gs : List (Geom α)) (hs : ∀ g ∈ gs, ∃ s, TileCover.cover ops frac zoom fuel g = .ok s) :
    ∃ S, TileCover.cover ops frac zoom fuel (.collection gs) = .ok S ∧
      ∀ t, t ∈ S ↔ ∃ g ∈ gs, ∃ s, TileCover.cover ops frac zoom fuel g = .ok s ∧ t ∈ s :=
  TileCover.cover_collection_union' ops frac zoom fuel gs hs

/-- … and otherwise the error of the first member without one (C14). -/
theorem tilecover_collection_error (ops : TileCover.Ops α) (frac : Pt α → Pt α) (zoom fuel : Nat)
    (gs₁ : List (Geom α)) (g : Geom α) (gs₂ : List (Geom α))
    (hs : ∀ g ∈ gs₁, ∃ s, TileCover.cover ops frac zoom fuel g = .ok s)
    (hg : (TileCover.cover ops frac zoom fuel g).isOk = false) :
    TileCover.cover ops frac zoom fuel (.collection (gs₁ ++ g :: gs₂)) = TileCover.cover ops frac zoom fuel g :=
  TileCover.cover_collection_error' ops frac zoom fuel gs₁ g gs₂ hs hg

end secTileCover

/-! ## WKB / EWKB encoder  (`Orb.WKB.encode` / `encGeom`; `srid = 0` is plain WKB)

(a) A plain total function into bytes (`Marshal` returns no error for the nine kinds). -/

section secWKB
open WKB

/-- Nil handling: a nil interface and typed nil slices write no bytes. -/
theorem wkb_encode_nil (o : Order) (srid : Nat) (k : Kind) (g : WKB.G) :
    encode o srid .nilIface = [] ∧ encode o srid (.nilSlice k) = [] ∧ encode o srid (.val g) = encGeom o srid g :=
  ⟨rfl, rfl, rfl⟩

/-- (b) Each kind is written by its own writer; a ring is written as the one-ring polygon and a bound
    as the polygon of its ring. -/
theorem wkb_agrees_typed (o : Order) (srid : Nat) :
    (∀ p, encGeom o srid (.point p) = encPoint o srid p) ∧
    (∀ ps, encGeom o srid (.multiPoint ps) = encMultiPoint o srid ps) ∧
    (∀ ps, encGeom o srid (.lineString ps) = encLineString o srid ps) ∧
    (∀ ls, encGeom o srid (.multiLineString ls) = encMultiLineString o srid ls) ∧
    (∀ r, encGeom o srid (.ring r) = encGeom o srid (.polygon [r])) ∧
    (∀ rs, encGeom o srid (.polygon rs) = encPolygon o srid rs) ∧
    (∀ ps, encGeom o srid (.multiPolygon ps) = encMultiPolygon o srid ps) ∧
    (∀ a b, encGeom o srid (.bound a b) = encGeom o srid (.polygon [boundRing a b])) :=
  ⟨fun _ => rfl, fun _ => rfl, fun _ => rfl, fun _ => rfl, fun _ => rfl, fun _ => rfl, fun _ => rfl,
    fun _ _ => rfl⟩

/-- (c) A collection is its header (byte order, type, optional SRID, member count) followed by the
    members' own encodings in order (each without SRID) … -/
theorem wkb_collection (o : Order) (srid : Nat) (gs : List WKB.G) :
    encGeom o srid (.collection gs) =
      orderByte o :: (typePrefix o Generated.Params.wkb_geometryCollectionType gs.length srid ++
        gs.flatMap (encGeom o 0)) := wkb_collection' o srid gs

/-- … so every member's encoding is a contiguous part of the collection's. -/
theorem wkb_collection_contains (o : Order) (srid : Nat) (gs : List WKB.G) (g : WKB.G) (hg : g ∈ gs) :
    encGeom o 0 g <:+: encGeom o srid (.collection gs) := wkb_collection_contains' o srid gs g hg

end secWKB

/-! ## WKT encoder  (`Orb.WKT.marshal` / `marshalG`) -/

section secWKT
open WKT
variable (fmtF : UInt64 → Str)

/-- (a) `wkt.Marshal` panics on no value the Go type system can produce: the nil interface (which
    used to hit `panic("unsupported type")`, fixed in /repo dabd25f), every typed nil slice, every
    geometry.  (`GVal.Exists` only excludes "nil point" / "nil bound", which are arrays in Go.) -/
theorem wkt_marshal_total (v : GVal UInt64) (hv : GVal.Exists v) : (marshal fmtF v).isPanic = false :=
  wkt_marshal_total' fmtF v hv

/-- Nil handling: nothing for a nil interface; a typed nil prints what the empty value of its kind
    prints (a nil ring: `POLYGON(())`). -/
theorem wkt_marshal_nil (k : Kind) (hk : k ≠ .point ∧ k ≠ .bound) :
    marshal fmtF .nilIface = .ok [] ∧ marshal fmtF (.nilSlice k) = .ok (marshalG fmtF (Core.emptyOf k)) := by
  refine ⟨rfl, ?_⟩
  cases k <;> first | rfl | exact absurd rfl hk.1 | exact absurd rfl hk.2

/-- (b) A ring is written as the one-ring polygon, a bound as the polygon of its ring; every other
    kind by its own case (`marshalG`). -/
theorem wkt_agrees_typed :
    (∀ r, marshalG fmtF (.ring r) = marshalG fmtF (.polygon [r])) ∧
    (∀ a b, marshalG fmtF (.bound a b) = marshalG fmtF (.polygon [WKT.boundRing a b])) ∧
    (∀ g, marshal fmtF (.val g) = .ok (marshalG fmtF g)) :=
  ⟨fun _ => rfl, fun _ _ => rfl, fun _ => rfl⟩

/-- (c) A collection is `GEOMETRYCOLLECTION(` + the members' own texts in order, separated by
    commas + `)`; `GEOMETRYCOLLECTION EMPTY` without members. -/
theorem wkt_collection (gs : List WKT.G) :
    marshalG fmtF (.collection gs) =
      if gs.isEmpty then kwCollection ++ sEmpty
      else kwCollection ++ cLP :: (commaSep (gs.map (marshalG fmtF)) ++ [cRP]) := wkt_collection' fmtF gs

end secWKT

/-! ## GeoJSON encoder  (`Orb.GeoJSON.geomDoc` / `geomMember` / `geomJ`; json and bson codecs)

(a) Plain total functions into the document tree handed to the serialiser. -/

section secGeoJSON
open GeoJSON

/-- Nil handling: a nil interface and a nil collection are `null` (bson at top level: the empty
    document type), a typed nil slice keeps its type with `coordinates: null` (json) / without
    coordinates (bson), a nil ring is `Polygon [null]`. -/
theorem geojson_nil (c : Codec) :
    geomMember c .nilIface = .null ∧ geomMember c (.nilSlice .collection) = .null ∧
    geomMember c (.nilSlice .ring) = .obj [("type", .str "Polygon"), ("coordinates", .arr [.null])] ∧
    geomMember c (.nilSlice .lineString) = coordDoc c "LineString" .null 0 ∧
    geomDoc .json .nilIface = .null ∧ geomDoc .bson .nilIface = .obj [("type", .str "")] :=
  ⟨rfl, rfl, rfl, rfl, rfl, rfl⟩

/-- (b) A ring is written as the one-ring polygon, a bound as the polygon of its ring, in both codecs;
    a value goes through `geomJ`. -/
theorem geojson_agrees_typed (c : Codec) :
    (∀ r, geomJ c (.ring r) = geomJ c (.polygon [r])) ∧
    (∀ a b, geomJ c (.bound a b) = geomJ c (.polygon [GeoJSON.boundRing a b])) ∧
    (∀ g, geomMember c (.val g) = geomJ c g) := by
  refine ⟨fun r => ?_, fun a b => ?_, fun _ => rfl⟩ <;> simp [geomJ, coordDoc, ptssJ]

/-- (c) A collection with members is `{"type": "GeometryCollection", "geometries": [ … ]}` holding the
    members' own documents in order; a collection WITHOUT members is written as `null`. -/
theorem geojson_collection (c : Codec) (gs : List GeoJSON.G) :
    geomJ c (.collection gs) =
      if gs = [] then .null
      else .obj [("type", .str "GeometryCollection"), ("geometries", .arr (gs.map (geomJ c)))] :=
  geojson_collection' c gs

end secGeoJSON

/-! ## Non-vacuity

Concrete degenerate values of the quantifier through the models: a ring-less polygon inside a
multi-polygon inside a collection, a zero-vertex ring, a one-vertex line, typed nils. -/

example :
    -- simplify: the ring-less polygon is dropped, the emptied multi-polygon simplifies to nothing and is
    -- dropped from the collection; a collection all of whose members vanish is a nil interface
    Simplify.simplifyG (Simplify.dpS (1 : Int)) (.collection [.multiPolygon [[]], .lineString [⟨0, 0⟩]]) =
      .ok (.coll [.geom (.lineString [⟨0, 0⟩])]) ∧
    Simplify.simplifyG (Simplify.dpS (1 : Int)) (.collection [.multiPolygon [[]], .lineString [], .collection []]) =
      .ok .nil := ⟨rfl, rfl⟩

example :
    -- equal: same members in order; a ring is not its one-ring polygon
    Core.equal (.collection [.ring [], .point ⟨1, 2⟩] : Geom Int) (.collection [.ring [], .point ⟨1, 2⟩]) = true ∧
    Core.equal (.collection [.ring []] : Geom Int) (.collection [.polygon [[]]]) = false := by decide

example :
    -- project: a collection is mapped member by member
    Project.geometry (fun p => ⟨p.x + 1, p.y⟩) (.collection [.point ⟨1, 2⟩, .polygon [[]]] : Geom Int) =
      .collection [.point ⟨2, 2⟩, .polygon [[]]] := rfl

example :
    WKB.encGeom .little 0 (.collection [.multiPolygon [[]], .ring []]) =
      1 :: (WKB.typePrefix .little Generated.Params.wkb_geometryCollectionType 2 0 ++
        (WKB.encGeom .little 0 (.multiPolygon [[]]) ++ WKB.encGeom .little 0 (.ring []))) := by
  rw [wkb_collection]; simp [WKB.orderByte]

/-- clip: the point inside survives, the ring-less polygon and the point outside are dropped, the
    single survivor is unwrapped -/
example : (Clip.geometry (⟨⟨1, 1⟩, ⟨0, 0⟩⟩ : Core.Bound Int) ⟨⟨0, 0⟩, ⟨2, 2⟩⟩
    (.collection [.point ⟨1, 1⟩, .multiPolygon [[]], .point ⟨5, 5⟩])) = some (some (.point ⟨1, 1⟩)) := by
  simp +decide [Clip.geometry, Clip.geometry.collect, Core.bound, Core.Bound.intersects, Core.Bound.union,
    Core.Bound.isEmpty, Core.multiPolygonBound, Core.polygonBound, Core.Bound.extend, Core.Bound.contains,
    Core.Bound.leftTop, Core.Bound.rightBottom, Clip.multiPolygon, Clip.polygon]

/-- the hypotheses of the totality theorems are satisfiable: a box of positive size (both packages'
    `BoxOK`), an orientation, an empty sentinel bound -/
example : Clip.BoxOK (⟨⟨0, 0⟩, ⟨2, 2⟩⟩ : Core.Bound ℚ) ∧ SmartClip.BoxOK (⟨⟨0, 0⟩, ⟨2, 2⟩⟩ : Core.Bound ℚ) ∧
    (SmartClip.CCW = SmartClip.CW ∨ SmartClip.CCW = SmartClip.CCW) ∧
    (⟨⟨1, 1⟩, ⟨0, 0⟩⟩ : Core.Bound Int).isEmpty = true := by
  refine ⟨⟨?_, ?_⟩, ⟨?_, ?_⟩, Or.inr rfl, by decide⟩ <;> norm_num

end Orb.C20M
