/-
  C05 (WKT share) — `wkt.Unmarshal` and the seven typed functions never panic: every slice and index
  of the parser is in bounds and the recursion budget of `unmarshal` is never exhausted.
  Helper file of OrbProofs.C04Lemmas.
-/
import OrbProofs.C04Base
import OrbProofs.C04Regex
import Mathlib.Tactic

namespace Orb.WKT

/-! ### small helpers -/

theorem isPanic_map {ε α β : Type} (f : α → β) (r : Res ε α) : (r.map f).isPanic = r.isPanic := by
  cases r <;> rfl

theorem sliceFrom_ok {s : Str} {n : Nat} (h : n ≤ s.length) : sliceFrom s n = .ok (s.drop n) := by
  simp [sliceFrom, h]

theorem slice_ok {s : Str} {a b : Nat} (h1 : a ≤ b) (h2 : b ≤ s.length) :
    slice s a b = .ok ((s.drop a).take (b - a)) := by
  simp [slice, h1, h2]

section
variable (parseF : Str → Option UInt64)

theorem parsePoints_not_panic (s : Str) : (parsePoints parseF s).isPanic = false := by
  unfold parsePoints
  apply splitOnComma_not_panic
  intro acc p
  have h := parsePoint_not_panic parseF p
  split <;> simp_all [Res.isPanic]

theorem parseBracketedPoints_not_panic (acc : List (List P)) (r : Str) :
    (parseBracketedPoints parseF acc r).isPanic = false := by
  unfold parseBracketedPoints
  have h1 := trimSpaceBrackets_not_panic r
  split
  · simp_all [Res.isPanic]
  · simp [Res.isPanic]
  · rename_i t _
    have h2 := parsePoints_not_panic parseF t
    split <;> simp_all [Res.isPanic]

theorem unmarshalPoint_not_panic (s : Str) (h : hasPrefix (upperPrefix s) kwPoint = true) :
    (unmarshalPoint parseF s).isPanic = false := by
  have hl : 5 ≤ s.length := hasPrefix_upperPrefix_length (kw := kwPoint) (by decide) h
  unfold unmarshalPoint
  rw [sliceFrom_ok hl]
  dsimp only
  have h1 := trimSpaceBrackets_not_panic (s.drop 5)
  split
  · simp_all [Res.isPanic]
  · simp [Res.isPanic]
  · exact parsePoint_not_panic parseF _

theorem unmarshalMultiPoint_not_panic (s : Str) (h : hasPrefix (upperPrefix s) kwMultiPoint = true) :
    (unmarshalMultiPoint parseF s).isPanic = false := by
  have hl : 10 ≤ s.length := hasPrefix_upperPrefix_length (kw := kwMultiPoint) (by decide) h
  unfold unmarshalMultiPoint
  split
  · simp [Res.isPanic]
  rw [sliceFrom_ok hl]
  dsimp only
  have h1 := trimSpaceBrackets_not_panic (s.drop 10)
  split
  · simp_all [Res.isPanic]
  · simp [Res.isPanic]
  · apply splitOnComma_not_panic
    intro acc p
    have h2 := trimSpaceBrackets_not_panic p
    split
    · simp_all [Res.isPanic]
    · simp [Res.isPanic]
    · rename_i q _
      have h3 := parsePoint_not_panic parseF q
      split <;> simp_all [Res.isPanic]

theorem unmarshalLineString_not_panic (s : Str) (h : hasPrefix (upperPrefix s) kwLineString = true) :
    (unmarshalLineString parseF s).isPanic = false := by
  have hl : 10 ≤ s.length := hasPrefix_upperPrefix_length (kw := kwLineString) (by decide) h
  unfold unmarshalLineString
  split
  · simp [Res.isPanic]
  rw [sliceFrom_ok hl]
  dsimp only
  have h1 := trimSpaceBrackets_not_panic (s.drop 10)
  split
  · simp_all [Res.isPanic]
  · simp [Res.isPanic]
  · exact parsePoints_not_panic parseF _

theorem unmarshalMultiLineString_not_panic (s : Str) (h : hasPrefix (upperPrefix s) kwMultiLineString = true) :
    (unmarshalMultiLineString parseF s).isPanic = false := by
  have hl : 15 ≤ s.length := hasPrefix_upperPrefix_length (kw := kwMultiLineString) (by decide) h
  unfold unmarshalMultiLineString
  split
  · simp [Res.isPanic]
  rw [sliceFrom_ok hl]
  dsimp only
  have h1 := trimSpaceBrackets_not_panic (s.drop 15)
  split
  · simp_all [Res.isPanic]
  · simp [Res.isPanic]
  · exact splitByRegexp_not_panic matchSingle_ok _ _ _ (parseBracketedPoints_not_panic parseF)

theorem unmarshalPolygon_not_panic (s : Str) (h : hasPrefix (upperPrefix s) kwPolygon = true) :
    (unmarshalPolygon parseF s).isPanic = false := by
  have hl : 7 ≤ s.length := hasPrefix_upperPrefix_length (kw := kwPolygon) (by decide) h
  unfold unmarshalPolygon
  split
  · simp [Res.isPanic]
  rw [sliceFrom_ok hl]
  dsimp only
  have h1 := trimSpaceBrackets_not_panic (s.drop 7)
  split
  · simp_all [Res.isPanic]
  · simp [Res.isPanic]
  · exact splitByRegexp_not_panic matchSingle_ok _ _ _ (parseBracketedPoints_not_panic parseF)

theorem unmarshalMultiPolygon_not_panic (s : Str) (h : hasPrefix (upperPrefix s) kwMultiPolygon = true) :
    (unmarshalMultiPolygon parseF s).isPanic = false := by
  have hl : 12 ≤ s.length := hasPrefix_upperPrefix_length (kw := kwMultiPolygon) (by decide) h
  unfold unmarshalMultiPolygon
  split
  · simp [Res.isPanic]
  rw [sliceFrom_ok hl]
  dsimp only
  have h1 := trimSpaceBrackets_not_panic (s.drop 12)
  split
  · simp_all [Res.isPanic]
  · simp [Res.isPanic]
  · apply splitByRegexp_not_panic matchDouble_ok
    intro acc poly
    have h2 := trimSpaceBrackets_not_panic poly
    split
    · simp_all [Res.isPanic]
    · simp [Res.isPanic]
    · rename_i q _
      have h3 := splitByRegexp_not_panic matchSingle_ok q (parseBracketedPoints parseF) []
        (parseBracketedPoints_not_panic parseF)
      split <;> simp_all [Res.isPanic]

end

/-! ### splitGeometryCollection -/

theorem sgcLoop_not_panic (s : Str) : ∀ (rest : Str) (i : Nat) (depth : Int) (start : Nat) (r : List Str),
    i + rest.length = s.length → start ≤ i → (sgcLoop s rest i depth start r).isPanic = false := by
  intro rest
  induction rest with
  | nil =>
    intro i depth start r hi hs
    simp only [List.length_nil, Nat.add_zero] at hi
    unfold sgcLoop
    rw [sliceFrom_ok (by omega)]
    simp [Res.isPanic]
  | cons b rest ih =>
    intro i depth start r hi hs
    simp only [List.length_cons] at hi
    unfold sgcLoop
    split_ifs
    · exact ih _ _ _ _ (by omega) (by omega)
    · exact ih _ _ _ _ (by omega) (by omega)
    · rw [slice_ok hs (by omega)]
      exact ih _ _ _ _ (by omega) (by omega)
    · exact ih _ _ _ _ (by omega) (by omega)
    · exact ih _ _ _ _ (by omega) (by omega)

theorem sgcLoop_member_length (s : Str) : ∀ (rest : Str) (i : Nat) (depth : Int) (start : Nat) (r ms : List Str),
    i + rest.length = s.length → start ≤ i → (∀ m ∈ r, m.length ≤ s.length) →
    sgcLoop s rest i depth start r = .ok ms → ∀ m ∈ ms, m.length ≤ s.length := by
  intro rest
  induction rest with
  | nil =>
    intro i depth start r ms hi hs hr
    simp only [List.length_nil, Nat.add_zero] at hi
    unfold sgcLoop
    rw [sliceFrom_ok (by omega)]
    intro h m hm
    simp only [Res.ok.injEq] at h
    subst h
    rcases List.mem_append.mp hm with hm | hm
    · exact hr m hm
    · simp only [List.mem_singleton] at hm
      subst hm
      simp
  | cons b rest ih =>
    intro i depth start r ms hi hs hr
    simp only [List.length_cons] at hi
    unfold sgcLoop
    split_ifs
    · exact ih _ _ _ _ _ (by omega) (by omega) hr
    · exact ih _ _ _ _ _ (by omega) (by omega) hr
    · rw [slice_ok hs (by omega)]
      refine ih _ _ _ _ _ (by omega) (by omega) ?_
      intro m hm
      rcases List.mem_append.mp hm with hm | hm
      · exact hr m hm
      · simp only [List.mem_singleton] at hm
        subst hm
        simp only [List.length_take, List.length_drop]
        omega
    · exact ih _ _ _ _ _ (by omega) (by omega) hr
    · exact ih _ _ _ _ _ (by omega) (by omega) hr

/-- the slices `s[start:i]` and `s[start:]` of the collection splitter are always in bounds -/
theorem splitGeometryCollection_not_panic (s : Str) : (splitGeometryCollection s).isPanic = false := by
  unfold splitGeometryCollection
  have h1 := trimSpaceBrackets_not_panic s
  split
  · exact sgcLoop_not_panic _ _ _ _ _ _ (by simp) (by omega)
  · simp [Res.isPanic]
  · simp_all [Res.isPanic]

/-- every member is a sub-slice of the body -/
theorem splitGeometryCollection_member_length {s : Str} {ms : List Str} (h : splitGeometryCollection s = .ok ms) :
    ∀ m ∈ ms, m.length ≤ s.length := by
  unfold splitGeometryCollection at h
  split at h
  · rename_i t ht
    have hl := trimSpaceBrackets_length ht
    intro m hm
    have := sgcLoop_member_length t t 0 0 0 [] ms (by simp) (by omega) (by simp) h m hm
    omega
  · simp at h
  · simp at h

/-! ### collections -/

theorem collectMembers_not_panic (rec : Str → R G) : ∀ (ms : List Str) (acc : List G),
    (∀ m ∈ ms, (rec m).isPanic = false) → (collectMembers rec ms acc).isPanic = false := by
  intro ms
  induction ms with
  | nil => intro acc _; simp [collectMembers, Res.isPanic]
  | cons g more ih =>
    intro acc h
    unfold collectMembers
    have hg := h g (by simp)
    have hmore : ∀ m ∈ more, (rec m).isPanic = false := fun m hm => h m (by simp [hm])
    split_ifs
    · exact ih _ hmore
    · split
      · exact ih _ hmore
      · simp [Res.isPanic]
      · simp_all [Res.isPanic]

theorem collectMembers_congr (rec1 rec2 : Str → R G) : ∀ (ms : List Str) (acc : List G),
    (∀ m ∈ ms, rec1 m = rec2 m) → collectMembers rec1 ms acc = collectMembers rec2 ms acc := by
  intro ms
  induction ms with
  | nil => intro acc _; simp [collectMembers]
  | cons g more ih =>
    intro acc h
    have hg := h g (by simp)
    have hmore : ∀ m ∈ more, rec1 m = rec2 m := fun m hm => h m (by simp [hm])
    unfold collectMembers
    rw [hg]
    split_ifs
    · exact ih _ hmore
    · split
      · exact ih _ hmore
      · rfl
      · rfl

theorem collection_guard {s : Str} (h : hasPrefix (upperPrefix s) kwCollection = true) : 18 ≤ s.length :=
  hasPrefix_upperPrefix_length (kw := kwCollection) (by decide) h

theorem unmarshalCollection_not_panic (rec : Str → R G) (s : Str) (h : hasPrefix (upperPrefix s) kwCollection = true)
    (hrec : ∀ m, m.length + 18 ≤ s.length → (rec m).isPanic = false) :
    (unmarshalCollection rec s).isPanic = false := by
  have hl : 18 ≤ s.length := collection_guard h
  unfold unmarshalCollection
  split_ifs
  · simp [Res.isPanic]
  · simp [Res.isPanic]
  rw [sliceFrom_ok hl]
  dsimp only
  have h1 := splitGeometryCollection_not_panic (s.drop 18)
  split
  · simp_all [Res.isPanic]
  · simp [Res.isPanic]
  · rename_i ms hms
    apply collectMembers_not_panic
    intro m hm
    have := splitGeometryCollection_member_length hms m hm
    simp only [List.length_drop] at this
    exact hrec m (by omega)

/-- `unmarshalCollection` only calls its recursion argument on members at least 18 bytes shorter than `s` -/
theorem unmarshalCollection_congr (rec1 rec2 : Str → R G) (s : Str) (h18 : 18 ≤ s.length)
    (h : ∀ m, m.length + 18 ≤ s.length → rec1 m = rec2 m) :
    unmarshalCollection rec1 s = unmarshalCollection rec2 s := by
  have hl := h18
  have hrec := h
  unfold unmarshalCollection
  split_ifs
  · rfl
  · rfl
  rw [sliceFrom_ok hl]
  dsimp only
  split
  · rfl
  · rfl
  · rename_i ms hms
    apply collectMembers_congr
    intro m hm
    have := splitGeometryCollection_member_length hms m hm
    simp only [List.length_drop] at this
    exact hrec m (by omega)

theorem unmarshalF_not_panic (parseF : Str → Option UInt64) (fuel : Nat) (s : Str) (h : s.length < fuel) :
    (unmarshalF parseF fuel s).isPanic = false := by
  induction fuel generalizing s with
  | zero => omega
  | succ fuel ih =>
    unfold unmarshalF
    dsimp only
    have hl := trimSpace_length_le s
    split_ifs with h1 h2 h3 h4 h5 h6 h7
    · rw [isPanic_map]; exact unmarshalPoint_not_panic parseF _ h1
    · rw [isPanic_map]; exact unmarshalLineString_not_panic parseF _ h2
    · rw [isPanic_map]; exact unmarshalPolygon_not_panic parseF _ h3
    · rw [isPanic_map]; exact unmarshalMultiPoint_not_panic parseF _ h4
    · rw [isPanic_map]; exact unmarshalMultiLineString_not_panic parseF _ h5
    · rw [isPanic_map]; exact unmarshalMultiPolygon_not_panic parseF _ h6
    · rw [isPanic_map]
      apply unmarshalCollection_not_panic _ _ h7
      intro m hm
      exact ih m (by omega)
    · simp [Res.isPanic]

/-- the result does not depend on the recursion budget once it exceeds the length of the text -/
theorem unmarshalF_fuel_irrelevant (parseF : Str → Option UInt64) (f1 f2 : Nat) (s : Str)
    (h1 : s.length < f1) (h2 : s.length < f2) : unmarshalF parseF f1 s = unmarshalF parseF f2 s := by
  induction f1 generalizing f2 s with
  | zero => omega
  | succ f1 ih =>
    cases f2 with
    | zero => omega
    | succ f2 =>
      have hl := trimSpace_length_le s
      unfold unmarshalF
      dsimp only
      split_ifs with g1 g2 g3 g4 g5 g6 g7
      all_goals try rfl
      congr 1
      apply unmarshalCollection_congr _ _ _ (collection_guard g7)
      intro m hm
      exact ih f2 m (by omega) (by omega)

theorem wkt_unmarshal_total' (parseF : Str → Option UInt64) (s : Str) :
    (unmarshal parseF s).isPanic = false := by
  unfold unmarshal
  exact unmarshalF_not_panic parseF _ s (by omega)

theorem typed_not_panic {α : Type} (kw : Str) (body : Str → R α)
    (hb : ∀ s, hasPrefix (upperPrefix s) kw = true → (body s).isPanic = false) (s : Str) :
    (typed kw body s).isPanic = false := by
  unfold typed
  dsimp only
  split_ifs with h
  · simp [Res.isPanic]
  · apply hb
    simpa using h

theorem wkt_typed_total' (parseF : Str → Option UInt64) (s : Str) :
    ∀ r ∈ typedAll parseF s, r.isPanic = false := by
  intro r hr
  simp only [typedAll, List.mem_cons, List.mem_nil_iff, or_false] at hr
  rcases hr with rfl | rfl | rfl | rfl | rfl | rfl | rfl <;> rw [isPanic_map]
  · exact typed_not_panic _ _ (unmarshalPoint_not_panic parseF) s
  · exact typed_not_panic _ _ (unmarshalMultiPoint_not_panic parseF) s
  · exact typed_not_panic _ _ (unmarshalLineString_not_panic parseF) s
  · exact typed_not_panic _ _ (unmarshalMultiLineString_not_panic parseF) s
  · exact typed_not_panic _ _ (unmarshalPolygon_not_panic parseF) s
  · exact typed_not_panic _ _ (unmarshalMultiPolygon_not_panic parseF) s
  · refine typed_not_panic _ _ (fun t ht => ?_) s
    exact unmarshalCollection_not_panic _ _ ht (fun m _ => wkt_unmarshal_total' parseF m)

end Orb.WKT
