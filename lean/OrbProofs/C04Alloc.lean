/-
  C05 (WKT share) — every capacity that the parser's own `make` calls request is bounded by the
  length of the text being parsed at that point, plus one:
    make(orb.MultiPoint/LineString/Ring, 0, strings.Count(s, ",")+1)
    make(orb.MultiLineString/Polygon/MultiPolygon, 0, len(indexes)+1)     (set callback of splitByRegexpYield)
    make(orb.Collection, 0, len(geometries))
  Helper file of OrbProofs.C04Lemmas.
-/
import OrbProofs.C04Regex
import OrbProofs.C04Total

namespace Orb.WKT

theorem countCommas_le' (s : Str) : countCommas s ≤ s.length := by
  unfold countCommas
  exact List.length_filter_le _ _

/-- each match consumes at least one byte; `skip` bytes are already spoken for -/
theorem al_findAllAux_length {m : Matcher} (hm : MatcherOK m) : ∀ (s : Str) (skip pos : Nat),
    skip ≤ s.length → (findAllAux m skip pos s).length + skip ≤ s.length
  | [], _, _, h => by simpa [findAllAux] using h
  | b :: rest, skip + 1, pos, h => by
    rw [findAllAux]
    have := al_findAllAux_length hm rest skip (pos + 1) (by simpa using h)
    simp only [List.length_cons]
    omega
  | b :: rest, 0, pos, h => by
    rw [findAllAux]
    split
    · rename_i gs ge me heq
      obtain ⟨h1, h2, h3, h4⟩ := hm _ _ _ _ heq
      simp only [List.length_cons] at h4 ⊢
      have := al_findAllAux_length hm rest (me - 1) (pos + 1) (by omega)
      omega
    · have := al_findAllAux_length hm rest 0 (pos + 1) (by omega)
      simp only [List.length_cons]
      omega

/-- matches are non-empty and do not overlap: there are at most `len(s)` of them -/
theorem findAll_length_le' {m : Matcher} (hm : MatcherOK m) (s : Str) : (findAll m s).length ≤ s.length := by
  have := al_findAllAux_length hm s 0 0 (by omega)
  simpa [findAll] using this

/-- the result grows by at most one per remaining byte, plus the final member -/
theorem al_sgcLoop_length (s : Str) : ∀ (rest : Str) (i : Nat) (depth : Int) (start : Nat) (r ms : List Str),
    i + rest.length = s.length → start ≤ i →
    sgcLoop s rest i depth start r = .ok ms → ms.length ≤ r.length + rest.length + 1 := by
  intro rest
  induction rest with
  | nil =>
    intro i depth start r ms hi hs
    simp only [List.length_nil, Nat.add_zero] at hi
    unfold sgcLoop
    rw [sliceFrom_ok (by omega)]
    intro h
    simp only [Res.ok.injEq] at h
    subst h
    simp
  | cons b rest ih =>
    intro i depth start r ms hi hs
    simp only [List.length_cons] at hi
    unfold sgcLoop
    split_ifs
    · intro h
      have := ih _ _ _ _ _ (by omega) (by omega) h
      simp only [List.length_cons]; omega
    · intro h
      have := ih _ _ _ _ _ (by omega) (by omega) h
      simp only [List.length_cons]; omega
    · rw [slice_ok hs (by omega)]
      intro h
      have := ih _ _ _ _ _ (by omega) (by omega) h
      simp only [List.length_append, List.length_cons, List.length_nil] at this ⊢
      omega
    · intro h
      have := ih _ _ _ _ _ (by omega) (by omega) h
      simp only [List.length_cons]; omega
    · intro h
      have := ih _ _ _ _ _ (by omega) (by omega) h
      simp only [List.length_cons]; omega

/-- the collection splitter returns at most one member per byte, plus one -/
theorem splitGeometryCollection_count' {s : Str} {ms : List Str} (h : splitGeometryCollection s = .ok ms) :
    ms.length ≤ s.length + 1 := by
  unfold splitGeometryCollection at h
  split at h
  · rename_i t ht
    have hl := trimSpaceBrackets_length ht
    have := al_sgcLoop_length t t 0 0 0 [] ms (by simp) (by omega) h
    simp only [List.length_nil] at this
    omega
  · simp at h
  · simp at h

end Orb.WKT
