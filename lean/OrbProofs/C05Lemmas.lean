/-
  Helper lemmas for C05 (WKB / EWKB part).  The primed statements are re-exported by OrbProofs/C05.lean.
-/
import OrbProofs.C05Byte

namespace Orb.WKB

/-! ### spec-side vocabulary -/

/-- number of points held by a geometry value -/
def pointCount : G → Nat
  | .point _ => 1
  | .multiPoint ps | .lineString ps | .ring ps => ps.length
  | .multiLineString ls | .polygon ls => (ls.map List.length).sum
  | .multiPolygon ps => (ps.map fun p => (p.map List.length).sum).sum
  | .bound _ _ => 2
  | .collection gs => pcList gs
where
  pcList : List G → Nat
    | [] => 0
    | g :: gs => pointCount g + pcList gs

section helpers
open Orb Generated.Params

/-! ### sums -/

theorem sum_map_le16 {α : Type} (f g : α → Nat) (xs : List α) (h : ∀ x, 16 * f x ≤ g x) :
    16 * (xs.map f).sum ≤ (xs.map g).sum := by
  induction xs with
  | nil => simp
  | cons x xs ih =>
    have := h x
    simp only [List.map_cons, List.sum_cons]; omega

theorem sum_map_one {α : Type} (xs : List α) : (xs.map fun _ => 1).sum = xs.length := by
  induction xs with
  | nil => rfl
  | cons x xs ih => simp only [List.map_cons, List.sum_cons, List.length_cons, ih]; omega

/-! ### stream path: size accounting and totality -/

theorem decodeWith_size (coll : Order → Bytes → R (List G × Bytes))
    (hcoll : ∀ o s gs r, coll o s = .ok (gs, r) → 16 * pointCount.pcList gs + r.length ≤ s.length)
    {s r : Bytes} {g : G} {srid : Nat} (h : decodeWith coll s = .ok (g, srid, r)) :
    16 * pointCount g + r.length ≤ s.length := by
  unfold decodeWith at h
  split at h
  · rename_i hb
    have hl := readBOT_len hb
    split at h
    · -- point
      split at h
      · rename_i hp
        injection h with h; injection h with h1 h; injection h with _ h; subst h1; subst h
        have := readPoint_len hp
        simp only [pointCount]; omega
      all_goals contradiction
    · split at h
      · -- multiPoint
        split at h
        · rename_i hn
          split at h
          · rename_i hm
            injection h with h; injection h with h1 h; injection h with _ h; subst h1; subst h
            have h1 := readMembers_len (fun _ => 16) _ _
              (fun _ _ _ _ hx => by have := readPoint_len hx; omega) _ hm
            have h2 := sum_map_le16 (fun _ => 1) (fun _ : Pt UInt64 => 16) ‹_› (fun _ => by simp)
            rw [sum_map_one] at h2
            have := readU32_len hn
            simp only [pointCount]; omega
          all_goals contradiction
        all_goals contradiction
      · split at h
        · -- lineString
          split at h
          · rename_i hp
            injection h with h; injection h with h1 h; injection h with _ h; subst h1; subst h
            have := readLineString_len hp
            simp only [pointCount]; omega
          all_goals contradiction
        · split at h
          · -- multiLineString
            split at h
            · rename_i hn
              split at h
              · rename_i hm
                injection h with h; injection h with h1 h; injection h with _ h; subst h1; subst h
                have h1 := readMembers_len (fun l : List (Pt UInt64) => 16 * l.length) _ _
                  (fun _ _ _ _ hx => by have := readLineString_len hx; omega) _ hm
                have h2 := sum_map_le16 List.length (fun l : List (Pt UInt64) => 16 * l.length) ‹_›
                  (fun _ => Nat.le_refl _)
                have := readU32_len hn
                simp only [pointCount]; omega
              all_goals contradiction
            all_goals contradiction
          · split at h
            · -- polygon
              split at h
              · rename_i hp
                injection h with h; injection h with h1 h; injection h with _ h; subst h1; subst h
                have := readPolygon_len hp
                simp only [pointCount]; omega
              all_goals contradiction
            · split at h
              · -- multiPolygon
                split at h
                · rename_i hn
                  split at h
                  · rename_i hm
                    injection h with h; injection h with h1 h; injection h with _ h; subst h1; subst h
                    have h1 := readMembers_len
                      (fun p : List (List (Pt UInt64)) => 16 * (p.map List.length).sum) _ _
                      (fun _ _ _ _ hx => by have := readPolygon_len hx; omega) _ hm
                    have h2 := sum_map_le16 (fun p : List (List (Pt UInt64)) => (p.map List.length).sum)
                      (fun p : List (List (Pt UInt64)) => 16 * (p.map List.length).sum) ‹_›
                      (fun _ => Nat.le_refl _)
                    have := readU32_len hn
                    simp only [pointCount]; omega
                  all_goals contradiction
                all_goals contradiction
              · split at h
                · -- collection
                  split at h
                  · rename_i hc
                    injection h with h; injection h with h1 h; injection h with _ h; subst h1; subst h
                    have := hcoll _ _ _ _ hc
                    simp only [pointCount]; omega
                  all_goals contradiction
                · contradiction
  all_goals contradiction

theorem readCollectionF_size (fuel : Nat) : ∀ (o : Order) (s : Bytes) (gs : List G) (r : Bytes),
    readCollectionF fuel o s = .ok (gs, r) → 16 * pointCount.pcList gs + r.length ≤ s.length := by
  induction fuel with
  | zero => intro o s gs r h; simp only [readCollectionF] at h; contradiction
  | succ fuel ih =>
    intro o s gs r h
    simp only [readCollectionF] at h
    split at h
    · rename_i hn
      have := readU32_len hn
      have := collLoop_len (fun g => 16 * pointCount g) (fun gs => 16 * pointCount.pcList gs) rfl
        (fun g gs => by simp only [pointCount.pcList]; omega) _
        (fun t g sr r hd => decodeWith_size _ ih hd) _ h
      omega
    all_goals contradiction

theorem decodeWith_np (coll : Order → Bytes → R (List G × Bytes)) (s : Bytes)
    (hcoll : ∀ o s', s'.length + 5 ≤ s.length → (coll o s').isPanic = false) :
    (decodeWith coll s).isPanic = false := by
  unfold decodeWith
  split
  · rename_i hb
    have hl := readBOT_len hb
    repeat' split
    all_goals first
      | rfl
      | (rename_i heq; exact (np_absurd heq (readPoint_np _ _)).elim)
      | (rename_i heq; exact (np_absurd heq (readU32_np _ _)).elim)
      | (rename_i heq; exact (np_absurd heq (readLineString_np _ _)).elim)
      | (rename_i heq; exact (np_absurd heq (readPolygon_np _ _)).elim)
      | (rename_i heq; exact (np_absurd heq (readMembers_np _ _ readPoint_np _ _)).elim)
      | (rename_i heq; exact (np_absurd heq (readMembers_np _ _ readLineString_np _ _)).elim)
      | (rename_i heq; exact (np_absurd heq (readMembers_np _ _ readPolygon_np _ _)).elim)
      | (rename_i heq; exact (np_absurd heq (hcoll _ _ hl)).elim)
  · rfl
  · rename_i heq
    exact (np_absurd heq (readBOT_np _)).elim

/-- `readCollection` never panics, whatever number of levels is left: with none left it answers
    `ErrNestingTooDeep` (the recursion is structural in that number: the decoder terminates, and its
    depth is bounded by it, see `decode_depth_le`). -/
theorem readCollectionF_np (left : Nat) : ∀ (o : Order) (s : Bytes),
    (readCollectionF left o s).isPanic = false := by
  induction left with
  | zero => intro o s; rfl
  | succ left ih =>
    intro o s
    simp only [readCollectionF]
    split
    · rename_i num s1 hn
      apply collLoop_np _ s1.length
      · intro t _
        exact decodeWith_np _ _ (fun o s' _ => ih o s')
      · intro t g sr r hd
        have := decodeWith_size _ (readCollectionF_size left) hd
        omega
      · exact Nat.le_refl _
    · rfl
    · rename_i heq
      exact (np_absurd heq (readU32_np _ _)).elim

theorem decodeStream_np (left : Nat) (s : Bytes) : (decodeStream left s).isPanic = false := by
  unfold decodeStream
  exact decodeWith_np _ _ (fun o s' _ => readCollectionF_np left o s')

theorem decodeStream_size {fuel : Nat} {s r : Bytes} {g : G} {srid : Nat}
    (h : decodeStream fuel s = .ok (g, srid, r)) : 16 * pointCount g + r.length ≤ s.length :=
  decodeWith_size _ (readCollectionF_size fuel) h

theorem decode_np (bs : Bytes) : (decode bs).isPanic = false := by
  unfold decode
  split
  · rfl
  · rfl
  · rename_i heq
    exact (np_absurd heq (decodeStream_np _ _)).elim

/-! ### byte path: totality -/

theorem unmarshal_np (bs : Bytes) : (unmarshal bs).isPanic = false := by
  unfold unmarshal
  split
  · rename_i o typ srid gd hb
    have hl := unmarshalBOT_len hb
    simp only []
    repeat' split
    all_goals first
      | rfl
      | (rename_i heq; exact (np_absurd heq (unmarshalPoint_np _ _)).elim)
      | (rename_i heq; exact (np_absurd heq (unmarshalPoints_np _ _)).elim)
      | (rename_i heq; exact (np_absurd heq (unmarshalPolygon_np _ _)).elim)
      | (rename_i heq; exact (np_absurd heq (unmarshalMultiPoint_np _ _)).elim)
      | (rename_i heq; exact (np_absurd heq (unmarshalMultiLineString_np _ _)).elim)
      | (rename_i heq; exact (np_absurd heq (unmarshalMultiPolygon_np _ _)).elim)
      | (rename_i heq; exact (np_absurd heq (decode_np _)).elim)
  · rfl
  · rename_i heq
    exact (np_absurd heq (unmarshalBOT_np _)).elim

theorem scanDest_np (bnd : BoundFn) (d : Dest) (data : Bytes) : (scanDest bnd d data).isPanic = false := by
  cases d <;> simp only [scanDest] <;> (try exact unmarshal_np _) <;> repeat' split
  all_goals first
    | rfl
    | (rename_i heq; exact (np_absurd heq (unmarshal_np _)).elim)
    | (rename_i heq; exact (np_absurd heq (decode_np _)).elim)
    | (rename_i heq; exact (np_absurd heq (unmarshalBOT_np _)).elim)
    | (rename_i heq; exact (np_absurd heq (unmarshalPoints_np _ _)).elim)
    | (rename_i heq; exact (np_absurd heq (unmarshalPolygon_np _ _)).elim)
    | (rename_i heq; exact (np_absurd heq (scanPoint_np _)).elim)
    | (rename_i heq; exact (np_absurd heq (scanLineString_np _)).elim)
    | (rename_i heq; exact (np_absurd heq (scanPolygon_np _)).elim)
    | (rename_i heq; exact (np_absurd heq (unmarshalMultiLineString_np _ _)).elim)
    | (rename_i heq; exact (np_absurd heq (unmarshalMultiPolygon_np _ _)).elim)

/-! ### Scan framing -/

theorem scan_np (bnd : BoundFn) (d : Dest) (data : Bytes) : (scan bnd d data).isPanic = false := by
  unfold scan
  split
  · rfl
  · rename_i hlen
    simp only []
    split
    · rename_i data' heq
      -- the decoded / raw data has at least two bytes
      have h2 : 2 ≤ data'.length := by
        split at heq
        · rename_i rest
          split at heq
          · rename_i dd hdec
            injection heq with heq; subst heq
            have := hexDecode_len _ _ hdec
            simp only [List.length_cons] at hlen
            omega
          · contradiction
        · injection heq with heq; subst heq; omega
      match data', h2 with
      | a :: b :: tl, _ =>
        simp only []
        split
        · exact scanDest_np _ _ _
        · rfl
        · rename_i heq2
          split at heq2
          · split at heq2 <;> contradiction
          · contradiction
    · rfl
    · rename_i heq
      split at heq
      · split at heq <;> contradiction
      · contradiction

theorem scan_hdr_len {bnd : BoundFn} {d : Dest} {raw : Bytes} (h : scan bnd d raw = .err .notWKBHeader) :
    5 ≤ raw.length := by
  unfold scan at h
  split at h
  · injection h with h; contradiction
  · omega

theorem decode_size_le_aux {bs : Bytes} {g : G} {s : Nat} (h : decode bs = .ok (g, s)) :
    16 * pointCount g ≤ bs.length := by
  unfold decode at h
  split at h
  · rename_i hd
    injection h with h; injection h with h _; subst h
    have := decodeStream_size hd
    omega
  all_goals contradiction

/-! ### the caller's buffer after an in-place hex decode keeps its length -/

theorem scanBuf_step2_len (p : Bytes × Bytes) (n : Nat) (h1 : p.1.length ≤ n) (h2 : p.2.length = n) :
    (if p.1.head? = some 48 ∧ ((p.1.drop 1).head? = some 48 ∨ (p.1.drop 1).head? = some 49) then
      (match hexDecode p.1 with
       | some d2 => d2 ++ p.2.drop d2.length
       | none => p.2)
     else p.2).length = n := by
  split
  · split
    · rename_i d2 hd
      have := hexDecode_len _ _ hd
      simp only [List.length_append, List.length_drop]; omega
    · exact h2
  · exact h2

theorem scanBuf_step1_len (data : Bytes) :
    (if data.head? = some 92 ∧ (data.drop 1).head? = some 120 then
      (match hexDecode (data.drop 2) with
       | some d => (d, d ++ data.drop d.length)
       | none => (data, data))
     else (data, data)).1.length ≤ data.length ∧
    (if data.head? = some 92 ∧ (data.drop 1).head? = some 120 then
      (match hexDecode (data.drop 2) with
       | some d => (d, d ++ data.drop d.length)
       | none => (data, data))
     else (data, data)).2.length = data.length := by
  split
  · split
    · rename_i d hd
      have := hexDecode_len _ _ hd
      simp only [List.length_drop] at this
      simp only [List.length_append, List.length_drop]; omega
    · simp
  · simp

theorem scanBuf_length (data : Bytes) : (scanBuf data).length = data.length := by
  unfold scanBuf
  split
  · rfl
  · exact scanBuf_step2_len _ _ (scanBuf_step1_len data).1 (scanBuf_step1_len data).2

end helpers

theorem unmarshal_total' (bs : Bytes) : (unmarshal bs).isPanic = false := by
  exact unmarshal_np bs

theorem decode_total' (bs : Bytes) : (decode bs).isPanic = false := by
  exact decode_np bs

theorem scan_total' (bnd : BoundFn) (d : Dest) (bs : Bytes) : (scan bnd d bs).isPanic = false := by
  exact scan_np bnd d bs

theorem ewkbScan_total' (bnd : BoundFn) (pfx : Bool) (d : Dest) (bs : Bytes) :
    (ewkbScan bnd pfx d bs).isPanic = false := by
  unfold ewkbScan
  split
  · split
    · rfl
    · split
      · rfl
      · rfl
      · rename_i heq
        exact (np_absurd heq (scan_np _ _ _)).elim
  · exact scan_np bnd d bs

theorem wkbScan_total' (bnd : BoundFn) (d : Dest) (bs : Bytes) : (wkbScan bnd d bs).isPanic = false := by
  unfold wkbScan
  split
  · rfl
  · rename_i hs
    have h5 := scan_hdr_len hs
    split
    · split
      · rfl
      · rfl
      · rename_i heq
        exact (np_absurd heq (scan_np _ _ _)).elim
    · rfl
    · rename_i heq
      exact (np_absurd heq (sliceFrom_np_of_le (by rw [scanBuf_length]; omega))).elim
  · rfl
  · rename_i heq
    exact (np_absurd heq (scan_np _ _ _)).elim

theorem unmarshal_size_le' (bs : Bytes) (g : G) (s : Nat) (h : unmarshal bs = .ok (g, s)) :
    16 * pointCount g ≤ bs.length := by
  unfold unmarshal at h
  split at h
  · rename_i o typ srid' gd hb
    have hl := unmarshalBOT_len hb
    simp only [] at h
    split at h
    · -- point
      split at h
      · rename_i hm
        injection h with h; injection h with h h'; subst h; subst h'
        have := unmarshalPoint_len hm
        simp only [pointCount]; omega
      all_goals contradiction
    · split at h
      · -- multiPoint
        split at h
        · rename_i hm
          injection h with h; injection h with h h'; subst h; subst h'
          have h1 := unmarshalMultiF_len _ _ _ _ _ _ hm
          have h2 := sum_map_le16 (fun _ => 1) (fun _ : Pt UInt64 => 21) ‹_› (fun _ => by simp)
          rw [sum_map_one] at h2
          simp only [pointCount]; omega
        all_goals contradiction
      · split at h
        · -- lineString
          split at h
          · rename_i hm
            injection h with h; injection h with h h'; subst h; subst h'
            have := unmarshalPoints_len hm
            simp only [pointCount]; omega
          all_goals contradiction
        · split at h
          · -- multiLineString
            split at h
            · rename_i hm
              injection h with h; injection h with h h'; subst h; subst h'
              have h1 := unmarshalMultiF_len _ _ _ _ _ _ hm
              have h2 := sum_map_le16 List.length (fun ls : List (Pt UInt64) => 16 * ls.length + 9) ‹_›
                (fun _ => by omega)
              simp only [pointCount]; omega
            all_goals contradiction
          · split at h
            · -- polygon
              split at h
              · rename_i hm
                injection h with h; injection h with h h'; subst h; subst h'
                have h1 := unmarshalPolygon_len hm
                have h2 := sum_map_le16 List.length (fun r : List (Pt UInt64) => 4 + 16 * r.length) ‹_›
                  (fun _ => by omega)
                unfold polyStride at h1
                simp only [pointCount]; omega
              all_goals contradiction
            · split at h
              · -- multiPolygon
                split at h
                · rename_i hm
                  injection h with h; injection h with h h'; subst h; subst h'
                  have h1 := unmarshalMultiF_len _ _ _ _ _ _ hm
                  have h2 := sum_map_le16 (fun p : List (List (Pt UInt64)) => (p.map List.length).sum)
                    polyStride ‹_› (fun p => by
                      have := sum_map_le16 List.length (fun r : List (Pt UInt64) => 4 + 16 * r.length) p
                        (fun _ => by omega)
                      unfold polyStride; omega)
                  simp only [pointCount]; omega
                all_goals contradiction
              · split at h
                · -- collection
                  split at h
                  · rename_i hd
                    injection h with h; injection h with h h'; subst h; subst h'
                    exact decode_size_le_aux hd
                  all_goals contradiction
                · contradiction
  all_goals contradiction

theorem decode_size_le' (bs : Bytes) (g : G) (s : Nat) (h : decode bs = .ok (g, s)) :
    16 * pointCount g ≤ bs.length := by
  unfold decode at h
  split at h
  · rename_i hd
    injection h with h; injection h with h _; subst h
    have := decodeStream_size hd
    omega
  all_goals contradiction

theorem allocCap_le' (num cap : Nat) : allocCap num cap ≤ cap ∧ allocCap num cap ≤ num := by
  unfold allocCap
  split <;> omega

theorem wrap_regression' : unmarshal [1, 2, 0, 0, 0, 0, 0, 0, 0x10, 1, 2, 3] = .err .notWKB := by
  rfl

end Orb.WKB
