/-
  C04 — witnesses: the round trip FAILS on the current code for multi-geometries with a member
  printed as `()` (the recorded finding), whatever `%g` / `ParseFloat` do; and a concrete
  (fmtF, parseF) pair used by the non-vacuity examples.  Helper file of OrbProofs.C04Lemmas.
-/
import Orb.WKT

namespace Orb.WKT

section
variable (fmtF : UInt64 → Str) (parseF : Str → Option UInt64)

/-- `POLYGON(())` — also the text of an empty `orb.Ring` and of a nil ring -/
theorem marshal_empty_ring : marshalG fmtF (.polygon [[]]) = [80, 79, 76, 89, 71, 79, 78, 40, 40, 41, 41] := rfl

theorem marshal_empty_ring' : marshalG fmtF (.ring []) = [80, 79, 76, 89, 71, 79, 78, 40, 40, 41, 41] := rfl

/-- `MULTILINESTRING(())` -/
theorem marshal_empty_line :
    marshalG fmtF (.multiLineString [[]]) = [77, 85, 76, 84, 73, 76, 73, 78, 69, 83, 84, 82, 73, 78, 71, 40, 40, 41, 41] := rfl

/-- `MULTIPOLYGON(())` -/
theorem marshal_empty_polygon :
    marshalG fmtF (.multiPolygon [[]]) = [77, 85, 76, 84, 73, 80, 79, 76, 89, 71, 79, 78, 40, 40, 41, 41] := rfl

/-- `MULTIPOLYGON((()))` -/
theorem marshal_empty_polygon_ring :
    marshalG fmtF (.multiPolygon [[[]]]) = [77, 85, 76, 84, 73, 80, 79, 76, 89, 71, 79, 78, 40, 40, 40, 41, 41, 41] := rfl

theorem roundtrip_fails_empty_ring' : unmarshal parseF (marshalG fmtF (.polygon [[]])) = .err .notWKT := by
  rw [marshal_empty_ring]; rfl

theorem roundtrip_fails_empty_ring_value' : unmarshal parseF (marshalG fmtF (.ring [])) = .err .notWKT := by
  rw [marshal_empty_ring']; rfl

theorem roundtrip_fails_empty_line' : unmarshal parseF (marshalG fmtF (.multiLineString [[]])) = .err .notWKT := by
  rw [marshal_empty_line]; rfl

theorem roundtrip_fails_empty_polygon' : unmarshal parseF (marshalG fmtF (.multiPolygon [[]])) = .err .notWKT := by
  rw [marshal_empty_polygon]; rfl

theorem roundtrip_fails_empty_polygon_ring' : unmarshal parseF (marshalG fmtF (.multiPolygon [[[]]])) = .err .notWKT := by
  rw [marshal_empty_polygon_ring]; rfl

end

/-! ### a concrete float printer / parser for the non-vacuity examples

  bits 1 ↦ `1`, 2 ↦ `2`, 3 ↦ `-0.5`, everything else ↦ `1e+21` (an exponent form: letters `e`, sign). -/

def fmt0 (x : UInt64) : Str :=
  if x = 1 then [49] else if x = 2 then [50] else if x = 3 then [45, 48, 46, 53] else [49, 101, 43, 50, 49]

def parse0 (s : Str) : Option UInt64 :=
  if s = [49] then some 1 else if s = [50] then some 2 else if s = [45, 48, 46, 53] then some 3
  else if s = [49, 101, 43, 50, 49] then some 4 else none

theorem floatText0 (x : UInt64) (h : x = 1 ∨ x = 2 ∨ x = 3 ∨ x = 4) : FloatText fmt0 parse0 x := by
  rcases h with rfl | rfl | rfl | rfl <;> exact ⟨by decide, by decide, by decide⟩

/-- nested collections, an EMPTY member, an exponent-form coordinate, a multi-polygon with a hole, a bound -/
def g0 : G :=
  .collection [.collection [.point ⟨1, 2⟩, .lineString []], .point ⟨4, 3⟩,
    .multiPolygon [[[⟨1, 1⟩, ⟨2, 2⟩], [⟨3, 3⟩]], [[⟨4, 1⟩]]], .bound ⟨1, 2⟩ ⟨3, 4⟩, .multiPoint [⟨1, 2⟩, ⟨2, 1⟩]]

theorem good0 : GoodCoords fmt0 parse0 g0 := by
  intro x hx
  apply floatText0
  have h : ∀ y ∈ coords g0, y = 1 ∨ y = 2 ∨ y = 3 ∨ y = 4 := by decide
  exact h x hx

theorem deep0 : noEmptyMemberDeep g0 = true := by decide

/-- ` point (\t1 2\n) ` : lower-case keyword, blanks at both ends, after the keyword and inside the brackets -/
def t1 : Str := [32, 112, 111, 105, 110, 116, 32, 40, 9, 49, 32, 50, 10, 41, 32]

theorem spelled1 : Spelled fmt0 (.point ⟨1, 2⟩) t1 := by
  refine ⟨[32], [32], [112, 111, 105, 110, 116, 32, 40, 9, 49, 32, 50, 10, 41],
    by unfold AllBlank; decide, by unfold AllBlank; decide, ?_, rfl⟩
  unfold SpelledCore
  exact ⟨[112, 111, 105, 110, 116], [32], [9], [10], by unfold CaseVariant; decide,
    by unfold AllBlank; decide, by unfold AllBlank; decide, by unfold AllBlank; decide, rfl⟩

theorem good1 : GoodCoords fmt0 parse0 (.point ⟨1, 2⟩) := by
  intro x hx
  apply floatText0
  have h : ∀ y ∈ coords (.point ⟨1, 2⟩), y = 1 ∨ y = 2 ∨ y = 3 ∨ y = 4 := by decide
  exact h x hx

/-! `Polygon ( ( 1 2 , 2 1 ) ,\n(-0.5 -0.5) ) `: mixed-case keyword, blanks next to every parenthesis and comma -/

def ring2a : Str := bracketed [] [32] [32] (wCoord fmt0 ⟨1, 2⟩ ++ [32] ++ cComma :: ([32] ++ wCoord fmt0 ⟨2, 1⟩))
def ring2b : Str := bracketed [] [] [] (wCoord fmt0 ⟨3, 3⟩)
def body2 : Str := ring2a ++ [32] ++ cComma :: ([10] ++ ring2b)
def t2 : Str := [80, 111, 108, 121, 103, 111, 110] ++ bracketed [32] [32] [32] body2 ++ [32]

def g2 : G := .polygon [[⟨1, 2⟩, ⟨2, 1⟩], [⟨3, 3⟩]]

theorem blank32 : AllBlank [32] := by unfold AllBlank; decide
theorem blank10 : AllBlank [10] := by unfold AllBlank; decide
theorem blankNil : AllBlank [] := by unfold AllBlank; decide

theorem spelled2 : Spelled fmt0 g2 t2 := by
  refine ⟨[], [32], [80, 111, 108, 121, 103, 111, 110] ++ bracketed [32] [32] [32] body2, blankNil, blank32, ?_, by simp [t2]⟩
  unfold g2 SpelledCore
  refine ⟨[ring2a, ring2b], body2, ?_, ?_, ?_⟩
  · refine Forall2.cons (Or.inr ⟨[32], [32], _, blank32, blank32, ?_, rfl⟩)
      (Forall2.cons (Or.inr ⟨[], [], _, blankNil, blankNil, ?_, rfl⟩) Forall2.nil)
    · exact SepJoin.cons _ _ _ _ _ blank32 blank32 (SepJoin.one _)
    · exact SepJoin.one _
  · exact SepJoin.cons _ _ _ _ _ blank32 blank10 (SepJoin.one _)
  · exact ⟨[80, 111, 108, 121, 103, 111, 110], [32], [32], [32], by unfold CaseVariant; decide, blank32, blank32, blank32, rfl⟩

theorem good2 : GoodCoords fmt0 parse0 g2 := by
  intro x hx
  apply floatText0
  have h : ∀ y ∈ coords g2, y = 1 ∨ y = 2 ∨ y = 3 ∨ y = 4 := by decide
  exact h x hx

theorem noAdj0 (x : UInt64) : NoAdjacentLetters (fmt0 x) := by
  unfold fmt0
  split
  · simp [NoAdjacentLetters]
  · split
    · simp [NoAdjacentLetters]
    · split
      · simp [NoAdjacentLetters, isLetter]
      · simp [NoAdjacentLetters, isLetter]

/-- the unrestricted round-trip statement is false of the code -/
theorem unmarshal_marshal_full_false' :
    ¬ (∀ (fmtF : UInt64 → Str) (parseF : Str → Option UInt64) (g : G), GoodCoords fmtF parseF g →
        unmarshal parseF (marshalG fmtF g) = .ok (canon g)) := by
  intro h
  have h1 := h fmt0 parse0 (.polygon [[]]) (by intro x hx; simp [coords, ringsCoords, ptsCoords] at hx)
  rw [roundtrip_fails_empty_ring'] at h1
  cases h1

end Orb.WKT
