/-
  C08 / C20, the memory clauses of package clip — "This operation will modify the input by using as a
  scratch space": theorems about the heap-level model `Orb.HeapOps.geometryH` of clip.Geometry
  (clip/helpers.go, clip/clip.go), in which a geometry is a tree of Go slice headers (array identity,
  offset, length, CAPACITY) into a store of backing arrays.

  What the source does (see the header of lean/Orb/HeapOps.lean) and what is proved here:

  * `clip_writes_only_ring_windows`  (frame) the only cells of the caller's memory that clip.Geometry
        can change are those inside the capacity window `s[:cap(s)]` of a ring `s` of a 2-d member
        (Ring, Polygon, MultiPolygon, at any depth of a Collection) — the window, not the slice:
        cells beyond `len(s)` are written too.  Everything else — other arrays, cells before a
        slice's first element or beyond its capacity, every slice of a MultiPoint, LineString or
        MultiLineString — is unchanged; no existing array changes its size; arrays are only added.
  * `clip_readonly_1d`  a geometry without 2-d members (points, multi-points, lines, multi-lines,
        bounds and collections of these) is not modified at all: clip is READ-ONLY on 0-d and 1-d
        input (the doc comment of clip.Geometry says otherwise for 1-d).
  * `clip_result_fresh_or_subslice`  every slice of the result is either a whole freshly allocated
        array, or starts at the first element of one of the argument's rings and has that ring's
        capacity (`in[:n]`, n ≤ cap): results never alias the argument in any other way, and results
        of 0-d / 1-d members never alias it at all (`clip_result_fresh_1d`).
  * `clip_ring_denote`  link to the value-level model of C08: for one legal slice, what the returned
        header reads in the new store is exactly `Orb.Clip.ring` of what the argument read in the old
        store (nil ↔ empty), whichever of the in-place / overflow-to-fresh paths was taken — so every
        theorem of OrbProofs.C08 / C08Region (vertices in the box, same region, area additive, …)
        holds for the in-place call; `clip_ring_stuck_iff`: the heap model is stuck exactly when the
        value model is (never, for a box of positive size: C08 `ring_total`).
  * `clip_denote`  the same link for WHOLE geometries of every kind and nesting: when all slices of
        the argument are legal and no two of them have overlapping capacity windows (`Sep`), the
        returned value denotes, in the new store, exactly `Orb.Clip.geometry` of what the argument
        denoted in the old store (nil ↔ nil, single-member unwrapping included) — the members that
        are clipped later are not disturbed by the scratch writes of the earlier ones, and the
        earlier results are not disturbed by the later ones.  `clip_overlap_hazard` shows that the
        separation hypothesis cannot be dropped.
  * `clip_nil_clobbers`, `clip_writes_beyond_len`, `clip_overflow_leaves_garbage`,
    `clip_overlap_hazard`  the sharp edges, as computed facts of the model (each is also a
        correspondence case against the real code): nil can be returned after the argument has been
        overwritten; a ring that grows is written beyond its length into whatever follows it in the
        buffer; a ring that outgrows its capacity leaves a truncated intermediate pass behind and
        comes back in fresh memory; and two rings cut from one buffer as `buf[0:5]`, `buf[5:10]`
        (the first one's capacity runs over the second) make clip.Polygon destroy the hole before
        it clips it.

  Proofs: OrbProofs/C08HeapLemmas.lean (core Lean only).
-/
import OrbProofs.C08HeapLemmas
import OrbProofs.C08HeapDenote

namespace Orb.HeapOps
open Orb Orb.Heap Orb.Core

variable {α : Type} [Add α] [Sub α] [Mul α] [Div α] [LT α] [LE α] [DecidableLT α] [DecidableLE α] [BEq α]
  [Min α] [Max α]

/-- Frame: arrays are only added, none changes its size, and a cell of the old heap that lies in
    no capacity window of a ring of a 2-d member is unchanged. -/
theorem clip_writes_only_ring_windows (eb box : Bound α) (σ σ' : Store α) (g : SGeom α)
    (r : Option (SGeom α)) (hr : geometryH eb box σ g = some (σ', r)) :
    σ.length ≤ σ'.length ∧
    (∀ a, a < σ.length → (read σ' a).length = (read σ a).length) ∧
    (∀ a i, a < σ.length → (∀ h ∈ ringHdrs g, h.inWin a i = false) → cell σ' a i = cell σ a i) :=
  let e := (geometryH_good eb box g σ σ' r hr).1
  ⟨e.len, e.size, e.frame⟩

/-- Frame, array by array: an array no ring of a 2-d member points into is unchanged. -/
theorem clip_frame (eb box : Bound α) (σ σ' : Store α) (g : SGeom α) (r : Option (SGeom α))
    (hr : geometryH eb box σ g = some (σ', r)) (a : Nat) (ha : a < σ.length)
    (h : ∀ x ∈ ringHdrs g, x.arr ≠ a) : read σ' a = read σ a :=
  read_ext _ _ _ fun i => (geometryH_good eb box g σ σ' r hr).1.frame a i ha fun x hx => by
    cases hw : x.inWin a i with
    | false => rfl
    | true => exact absurd ((inWin_iff x a i).1 hw).1 (h x hx)

/-- 0-d and 1-d input is read-only: without ring / polygon / multi-polygon members the old heap
    is a prefix of the new one, array for array. -/
theorem clip_readonly_1d (eb box : Bound α) (σ σ' : Store α) (g : SGeom α) (r : Option (SGeom α))
    (hr : geometryH eb box σ g = some (σ', r)) (h1d : ringHdrs g = []) :
    ∀ a, a < σ.length → read σ' a = read σ a := fun a ha =>
  clip_frame eb box σ σ' g r hr a ha (by rw [h1d]; intro x hx; cases hx)

/-- Every slice of the result is a whole fresh array, or `s[:n]` (n ≤ cap s) for a ring `s` of a 2-d
    member of the argument. -/
theorem clip_result_fresh_or_subslice (eb box : Bound α) (σ σ' : Store α) (g : SGeom α)
    (r : Option (SGeom α)) (hr : geometryH eb box σ g = some (σ', r)) (x : Hdr) (hx : x ∈ resHdrs r) :
    (σ.length ≤ x.arr ∧ x.arr < σ'.length ∧ x.off = 0 ∧ x.cap = x.len ∧ (read σ' x.arr).length = x.len) ∨
    (∃ h ∈ ringHdrs g, x.arr = h.arr ∧ x.off = h.off ∧ x.cap = h.cap ∧ x.len ≤ h.cap) :=
  (geometryH_good eb box g σ σ' r hr).2 x hx

/-- … so the result of clipping 0-d / 1-d input shares no memory with the argument. -/
theorem clip_result_fresh_1d (eb box : Bound α) (σ σ' : Store α) (g : SGeom α)
    (r : Option (SGeom α)) (hr : geometryH eb box σ g = some (σ', r)) (h1d : ringHdrs g = [])
    (x : Hdr) (hx : x ∈ resHdrs r) : σ.length ≤ x.arr ∧ x.arr < σ'.length := by
  rcases clip_result_fresh_or_subslice eb box σ σ' g r hr x hx with h | ⟨h, hh, _⟩
  · exact ⟨h.1, h.2.1⟩
  · rw [h1d] at hh; cases hh

/-- Link to the value level, one ring: the returned header reads, in the new store, `Clip.ring` of
    what the argument read in the old store (nil ↔ the empty list). -/
theorem clip_ring_denote (box : Bound α) (σ σ' : Store α) (h : Hdr) (r : Option Hdr) (hw : h.WF σ)
    (hr : ringH box σ h = some (σ', r)) :
    Clip.ring box (readH σ h) = some ((r.map (readH σ')).getD []) :=
  ring_denote' box σ σ' h r hw hr

theorem clip_ring_stuck_iff (box : Bound α) (σ : Store α) (h : Hdr) :
    ringH box σ h = none ↔ Clip.ring box (readH σ h) = none := ringH_none_iff' box σ h

/-- Link to the value level, whole geometries: legal, pairwise separated slices ⇒ the in-place
    call returns what the value-level model returns. -/
theorem clip_denote (eb box : Bound α) (σ σ' : Store α) (g : SGeom α) (r : Option (SGeom α))
    (hr : geometryH eb box σ g = some (σ', r)) (hwf : ∀ h ∈ hdrs g, h.WF σ) (hsep : Sep g) :
    Clip.geometry eb box (denoteS σ g) = some (r.map (denoteS σ')) :=
  clip_denote' eb box g σ σ' r hr hwf hsep

/-! ### the sharp edges, computed (box [-3,3]², a diamond |x|+|y| ≤ 4 whose clip is an octagon) -/

namespace Example
def eb : Bound Int := ⟨⟨1, 1⟩, ⟨-1, -1⟩⟩
def box : Bound Int := ⟨⟨-3, -3⟩, ⟨3, 3⟩⟩
def dia : List (Pt Int) := [⟨4, 0⟩, ⟨0, 4⟩, ⟨-4, 0⟩, ⟨0, -4⟩, ⟨4, 0⟩]
def oct : List (Pt Int) := [⟨3, 1⟩, ⟨1, 3⟩, ⟨-1, 3⟩, ⟨-3, 1⟩, ⟨-3, -1⟩, ⟨-1, -3⟩, ⟨1, -3⟩, ⟨3, -1⟩, ⟨3, 1⟩]
def pad (n : Nat) : List (Pt Int) := List.replicate n ⟨99, 99⟩
end Example
open Example

/-- `clip.Ring`: a 5-vertex ring with capacity 9 comes back IN PLACE with 9 vertices: 4 cells beyond
    its length are overwritten. -/
theorem clip_writes_beyond_len :
    ringH box [dia ++ pad 5] ⟨0, 0, 5, 9⟩ = some ([oct ++ pad 1], some ⟨0, 0, 9, 9⟩) := by decide

/-- With capacity 7 the 9-vertex result does not fit: it comes back in a fresh array, and the
    argument's array keeps the first 7 vertices of an intermediate pass. -/
theorem clip_overflow_leaves_garbage :
    ringH box [dia ++ pad 5] ⟨0, 0, 5, 7⟩ = some ([oct.take 7 ++ pad 3, oct], some ⟨1, 0, 9, 9⟩) := by
  decide

/-- nil after the argument has been overwritten: a triangle whose bounding box meets the clip box
    (so clip.Geometry's pre-test lets it through) but which vanishes in the third pass. -/
theorem clip_nil_clobbers :
    ringH box [[⟨13, 0⟩, ⟨3, -10⟩, ⟨-7, -10⟩, ⟨13, 0⟩] ++ pad 2] ⟨0, 0, 4, 5⟩ =
      some ([[⟨3, -10⟩, ⟨3, -10⟩, ⟨-3, -10⟩, ⟨-3, -8⟩, ⟨3, -5⟩, ⟨99, 99⟩]], none) := by decide

/-- `clip.Polygon` on two rings cut from one buffer as `buf[0:5]` (capacity 10, running over the
    second) and `buf[5:10]`: clipping the outer ring overwrites the hole before the hole is clipped;
    the "hole" that comes back is clipped from the overwritten cells.  The value-level result is two
    octagons. -/
theorem clip_overlap_hazard :
    polygonH box [dia ++ dia] [⟨0, 0, 5, 10⟩, ⟨0, 5, 5, 5⟩] =
      some ([oct ++ [⟨3, 1⟩]], some [⟨0, 0, 9, 10⟩, ⟨0, 5, 5, 5⟩]) ∧
    Clip.polygon box [dia, dia] = some [oct, oct] := by decide

/-- non-vacuity of `clip_ring_denote`: a legal slice on which `ringH` and `Clip.ring` compute -/
example : (⟨0, 0, 5, 9⟩ : Hdr).WF ([dia ++ pad 5] : Store Int) ∧
    Clip.ring box (readH [dia ++ pad 5] ⟨0, 0, 5, 9⟩) = some oct := by
  refine ⟨⟨by decide, by decide⟩, by decide⟩

end Orb.HeapOps
