/-
  C04 — the hand-compiled regexps (`singleParen`, `doubleParen`), `FindAllStringSubmatchIndex` and
  `splitByRegexpYield`.  Helper file of OrbProofs.C04Lemmas.
-/
import Orb.WKT
import Mathlib.Data.List.Basic

namespace Orb.WKT

/-- a ring / line-string member as printed: `(` … `)` with no `)` inside -/
def IsRingText (q : Str) : Prop := ∃ inner, q = cLP :: (inner ++ [cRP]) ∧ cRP ∉ inner

/-- a polygon member of a MULTIPOLYGON as printed: `(` ring `,` ring … `)` with at least one ring -/
def IsPolyText (q : Str) : Prop :=
  ∃ rings, rings ≠ [] ∧ (∀ r ∈ rings, IsRingText r) ∧ q = cLP :: (commaSep rings ++ [cRP])

/-- what `splitByRegexpLoop` needs of the index pairs: increasing, within the string -/
def SortedIdx (len : Nat) : Nat → List (Nat × Nat) → Prop
  | _, [] => True
  | lo, (a, b) :: more => lo ≤ a ∧ a ≤ b ∧ b ≤ len ∧ SortedIdx len b more

/-- a matcher reports offsets inside the text it was given: group ⊆ match ⊆ text, match non-empty -/
def MatcherOK (m : Matcher) : Prop :=
  ∀ s gs ge me, m s = some (gs, ge, me) → gs ≤ ge ∧ ge ≤ me ∧ 1 ≤ me ∧ me ≤ s.length

theorem tw_dw_len (p : UInt8 → Bool) (l : Str) :
    (l.takeWhile p).length + (l.dropWhile p).length = l.length := by
  rw [← List.length_append, List.takeWhile_append_dropWhile]

theorem matchSingle_ok : MatcherOK matchSingle := by
  intro s gs ge me h
  unfold matchSingle at h
  split at h
  · simp at h
  · rename_i c0 r1
    split at h
    · simp at h
    · have h1 := tw_dw_len isW r1
      simp only at h
      split at h
      · simp at h
      · rename_i c1 r2 heq1
        split at h
        · simp at h
        · have h2 := tw_dw_len isW r2
          split at h
          · simp at h
          · rename_i c2 r3 heq2
            split at h
            · simp at h
            · simp only [Option.some.injEq, Prod.mk.injEq] at h
              obtain ⟨rfl, rfl, rfl⟩ := h
              rw [heq1] at h1
              rw [heq2] at h2
              simp only [List.length_cons] at h1 h2 ⊢
              omega

theorem tw_dw_len' {p : UInt8 → Bool} {l : Str} {c : UInt8} {r : Str} (h : l.dropWhile p = c :: r) :
    (l.takeWhile p).length + 1 + r.length = l.length := by
  have := tw_dw_len p l
  rw [h] at this
  simp only [List.length_cons] at this
  omega

theorem matchDouble_ok : MatcherOK matchDouble := by
  intro s gs ge me h
  unfold matchDouble at h
  split at h
  · simp at h
  · rename_i c0 r0
    split at h
    · simp at h
    · simp only at h
      split at h
      · simp at h
      · rename_i c1 r1 heq0
        have h0 := tw_dw_len' heq0
        split at h
        · simp at h
        · split at h
          · simp at h
          · rename_i c2 r2 heq1
            have h1 := tw_dw_len' heq1
            split at h
            · simp at h
            · split at h
              · simp at h
              · rename_i c3 r3 heq2
                have h2 := tw_dw_len' heq2
                split at h
                · simp at h
                · split at h
                  · simp at h
                  · rename_i c4 r4 heq3
                    have h3 := tw_dw_len' heq3
                    split at h
                    · simp at h
                    · simp only [Option.some.injEq, Prod.mk.injEq] at h
                      obtain ⟨rfl, rfl, rfl⟩ := h
                      simp only [List.length_cons] at ⊢
                      omega

theorem SortedIdx.mono {len : Nat} : ∀ {l : List (Nat × Nat)} {lo lo' : Nat}, lo' ≤ lo →
    SortedIdx len lo l → SortedIdx len lo' l
  | [], _, _, _, _ => trivial
  | (a, b) :: more, lo, lo', h, hs => by
    obtain ⟨h1, h2, h3, h4⟩ := hs
    exact ⟨by omega, h2, h3, h4⟩

theorem findAllAux_sorted {m : Matcher} (hm : MatcherOK m) : ∀ (s : Str) (skip pos : Nat),
    skip ≤ s.length → SortedIdx (pos + s.length) (pos + skip) (findAllAux m skip pos s)
  | [], _, _, _ => by simp [findAllAux, SortedIdx]
  | b :: rest, skip + 1, pos, h => by
    rw [findAllAux]
    have := findAllAux_sorted hm rest skip (pos + 1) (by simpa using h)
    simp only [List.length_cons]
    have e1 : pos + (rest.length + 1) = pos + 1 + rest.length := by omega
    have e2 : pos + (skip + 1) = pos + 1 + skip := by omega
    rw [e1, e2]; exact this
  | b :: rest, 0, pos, h => by
    rw [findAllAux]
    split
    · rename_i gs ge me heq
      obtain ⟨h1, h2, h3, h4⟩ := hm _ _ _ _ heq
      simp only [List.length_cons] at h4 ⊢
      have := findAllAux_sorted hm rest (me - 1) (pos + 1) (by omega)
      refine ⟨by omega, by omega, by omega, ?_⟩
      have e1 : pos + (rest.length + 1) = pos + 1 + rest.length := by omega
      rw [e1]
      exact this.mono (by omega)
    · have := findAllAux_sorted hm rest 0 (pos + 1) (by omega)
      simp only [List.length_cons]
      have e1 : pos + (rest.length + 1) = pos + 1 + rest.length := by omega
      rw [e1]
      exact this.mono (by omega)

theorem findAll_sorted {m : Matcher} (hm : MatcherOK m) (s : Str) : SortedIdx s.length 0 (findAll m s) := by
  have := findAllAux_sorted hm s 0 0 (by omega)
  simpa [findAll] using this

theorem splitByRegexpLoop_not_panic {β : Type} (s : Str) (f : β → Str → R β)
    (hf : ∀ acc p, (f acc p).isPanic = false) : ∀ (idx : List (Nat × Nat)) (start : Nat) (acc : β),
    start ≤ s.length → SortedIdx s.length start idx → (splitByRegexpLoop s f idx start acc).isPanic = false
  | [], start, acc, h, _ => by
    rw [splitByRegexpLoop, sliceFrom, if_pos h]
    exact hf _ _
  | (e2, e3) :: more, start, acc, h, hs => by
    obtain ⟨h1, h2, h3, h4⟩ := hs
    rw [splitByRegexpLoop, slice, if_pos ⟨h1, by omega⟩]
    simp only
    have := hf acc (List.take (e2 - start) (List.drop start s))
    split
    · rename_i heq; rw [heq] at this; simp [Res.isPanic] at this
    · rfl
    · exact splitByRegexpLoop_not_panic s f hf more e3 _ h3 h4

/-- the slices `s[start:element[2]]` and `s[start:]` are always in bounds -/
theorem splitByRegexp_not_panic {β : Type} {m : Matcher} (hm : MatcherOK m) (s : Str) (f : β → Str → R β) (init : β)
    (hf : ∀ acc p, (f acc p).isPanic = false) : (splitByRegexp s m f init).isPanic = false := by
  unfold splitByRegexp
  exact splitByRegexpLoop_not_panic s f hf _ 0 init (Nat.zero_le _) (findAll_sorted hm s)

/-! ### generic splitting argument -/

theorem slice_mid (pre q r : Str) : slice (pre ++ (q ++ r)) pre.length (pre.length + q.length) = .ok q := by
  unfold slice
  rw [if_pos ⟨by omega, by simp⟩]
  simp

theorem sliceFrom_pre (pre q : Str) : sliceFrom (pre ++ q) pre.length = .ok q := by
  unfold sliceFrom
  rw [if_pos (by simp)]
  simp

theorem commaSep_cons_ne {q : Str} {qs : List Str} (h : qs ≠ []) :
    commaSep (q :: qs) = q ++ cComma :: commaSep qs := by
  cases qs with
  | nil => exact absurd rfl h
  | cons a l => rfl

/-- what the splitting argument needs of a member `q` (with `hd` the fixed head of every member):
    scanning over `q` finds exactly the separator match when another member follows, and nothing at the end -/
def Member (m : Matcher) (hd : Str) (q : Str) : Prop :=
  (∀ w pos k, k ≤ hd.length → findAllAux m k pos (q ++ cComma :: (hd ++ w)) =
      (pos + q.length, pos + q.length + 1) :: findAllAux m hd.length (pos + q.length + 1) (hd ++ w)) ∧
  (∀ pos k, k ≤ hd.length → findAllAux m k pos q = []) ∧ ∃ w, q = hd ++ w

theorem commaSep_head {m : Matcher} {hd : Str} : ∀ {qs : List Str}, qs ≠ [] → (∀ q ∈ qs, Member m hd q) →
    ∃ w, commaSep qs = hd ++ w
  | [], h, _ => absurd rfl h
  | [q], _, hq => by
    obtain ⟨_, _, w, hw⟩ := hq q (by simp)
    exact ⟨w, by simpa [commaSep] using hw⟩
  | q :: q' :: qs, _, hq => by
    obtain ⟨_, _, w, hw⟩ := hq q (by simp)
    refine ⟨w ++ cComma :: commaSep (q' :: qs), ?_⟩
    rw [commaSep, hw, List.append_assoc]

theorem loop_generic {β : Type} {m : Matcher} {hd : Str} (f : β → Str → R β) :
    ∀ (qs : List Str), qs ≠ [] → (∀ q ∈ qs, Member m hd q) → ∀ (pre s : Str) (pos k : Nat) (acc : β),
      s = pre ++ commaSep qs → pos = pre.length → k ≤ hd.length →
      splitByRegexpLoop s f (findAllAux m k pos (commaSep qs)) pos acc = foldlR f acc qs
  | [], h, _ => absurd rfl h
  | [q], _, hq => by
    intro pre s pos k acc hs hpos hk
    obtain ⟨_, hlast, _⟩ := hq q (by simp)
    subst hs hpos
    simp only [commaSep]
    rw [hlast _ _ hk, splitByRegexpLoop, sliceFrom_pre]
    simp only [foldlR]
    cases f acc q <;> rfl
  | q :: q' :: qs, _, hq => by
    intro pre s pos k acc hs hpos hk
    obtain ⟨hstep, _, _⟩ := hq q (by simp)
    have hq' : ∀ x ∈ q' :: qs, Member m hd x := fun x hx => hq x (List.mem_cons_of_mem _ hx)
    obtain ⟨w, hw⟩ := commaSep_head (by simp) hq'
    have ih := loop_generic f (q' :: qs) (by simp) hq'
    rw [commaSep_cons_ne (by simp)] at hs ⊢
    rw [hw, hstep _ _ _ hk, ← hw, splitByRegexpLoop]
    subst hs hpos
    rw [slice_mid]
    simp only [foldlR]
    cases f acc q with
    | err e => rfl
    | panic e => rfl
    | ok acc' =>
      simp only
      exact ih (pre ++ (q ++ [cComma])) _ _ _ acc' (by simp) (by simp; omega) (Nat.le_refl _)

/-- scanning over `u` finds no match, whatever follows -/
def Scan (m : Matcher) (u : Str) : Prop :=
  ∀ k pos v, findAllAux m k pos (u ++ v) = findAllAux m (k - u.length) (pos + u.length) v

theorem Scan.append {m : Matcher} {u u' : Str} (h : Scan m u) (h' : Scan m u') : Scan m (u ++ u') := by
  intro k pos v
  rw [List.append_assoc, h, h', List.length_append, Nat.sub_sub, Nat.add_assoc]

theorem Scan.single {m : Matcher} {c : UInt8} (h : ∀ v, m (c :: v) = none) : Scan m [c] := by
  intro k pos v
  cases k with
  | zero => simp [findAllAux, h]
  | succ k => simp [findAllAux]

theorem Scan.of_forall {m : Matcher} : ∀ {u : Str}, (∀ c ∈ u, ∀ v, m (c :: v) = none) → Scan m u
  | [], _ => by intro k pos v; simp
  | c :: u, h => by
    have h1 : Scan m [c] := Scan.single (h c (by simp))
    have h2 : Scan m u := Scan.of_forall (fun d hd => h d (List.mem_cons_of_mem _ hd))
    exact h1.append h2

theorem findAllAux_skip (m : Matcher) : ∀ (u : Str) (j pos : Nat) (v : Str),
    findAllAux m (u.length + j) pos (u ++ v) = findAllAux m j (pos + u.length) v
  | [], j, pos, v => by simp
  | c :: u, j, pos, v => by
    have e : (c :: u).length + j = (u.length + j) + 1 := by simp; omega
    rw [e, List.cons_append, findAllAux, findAllAux_skip m u]
    simp only [List.length_cons]
    congr 1; omega

theorem member_of_scan {m : Matcher} {hd tl b : Str} (hscan : Scan m (hd ++ b))
    (hmatch : ∀ w, m (tl ++ cComma :: (hd ++ w)) = some (tl.length, tl.length + 1, tl.length + 1 + hd.length))
    (hend : ∀ pos, findAllAux m 0 pos tl = []) (htl : tl ≠ []) : Member m hd (hd ++ b ++ tl) := by
  refine ⟨?_, ?_, ⟨b ++ tl, by simp⟩⟩
  · intro w pos k hk
    have hk0 : k - (hd ++ b).length = 0 := by simp; omega
    rw [List.append_assoc (hd ++ b), hscan, hk0]
    cases tl with
    | nil => exact absurd rfl htl
    | cons t0 tl' =>
      have hm := hmatch w
      simp only [List.cons_append] at hm ⊢
      rw [findAllAux, hm]
      simp only
      have e : (t0 :: tl').length + 1 + hd.length - 1 = (tl' ++ [cComma]).length + hd.length := by
        simp
      have e2 : tl' ++ cComma :: (hd ++ w) = (tl' ++ [cComma]) ++ (hd ++ w) := by simp
      rw [e, e2, findAllAux_skip]
      simp only [List.length_append, List.length_cons, List.length_nil]
      have a1 : pos + (hd.length + b.length) + (tl'.length + 1) = pos + (hd.length + b.length + (tl'.length + 1)) := by
        omega
      have a2 : pos + (hd.length + b.length) + (tl'.length + 1 + 1) =
          pos + (hd.length + b.length + (tl'.length + 1)) + 1 := by omega
      have a3 : pos + (hd.length + b.length) + 1 + (tl'.length + (0 + 1)) =
          pos + (hd.length + b.length + (tl'.length + 1)) + 1 := by omega
      rw [a1, a2, a3]
  · intro pos k hk
    have hk0 : k - (hd ++ b).length = 0 := by simp; omega
    rw [hscan, hk0, hend]

theorem matchSingle_ne {c : UInt8} (h : c ≠ cRP) (v : Str) : matchSingle (c :: v) = none := by
  simp [matchSingle, h]

theorem matchDouble_ne {c : UInt8} (h : c ≠ cRP) (v : Str) : matchDouble (c :: v) = none := by
  simp [matchDouble, h]

theorem member_ring {q : Str} (h : IsRingText q) : Member matchSingle [cLP] q := by
  obtain ⟨inner, rfl, hin⟩ := h
  have : cLP :: (inner ++ [cRP]) = [cLP] ++ inner ++ [cRP] := by simp
  rw [this]
  refine member_of_scan ?_ ?_ ?_ (by simp)
  · refine Scan.of_forall ?_
    intro c hc v
    refine matchSingle_ne ?_ v
    rcases List.mem_append.1 hc with hc | hc
    · simp at hc; subst hc; decide
    · intro e; subst e; exact hin hc
  · intro w
    simp [matchSingle, cRP, cComma, cLP, isW]
  · intro pos
    simp [findAllAux, matchSingle]

/-- On ring texts joined by single commas, `singleParen` splits exactly between the rings. -/
theorem splitByRegexp_rings {β : Type} {qs : List Str} (hne : qs ≠ []) (hq : ∀ q ∈ qs, IsRingText q)
    (f : β → Str → R β) (init : β) :
    splitByRegexp (commaSep qs) matchSingle f init = foldlR f init qs := by
  unfold splitByRegexp findAll
  exact loop_generic (hd := [cLP]) f qs hne (fun q h => member_ring (hq q h)) [] _ 0 0 init (by simp) rfl
    (Nat.zero_le _)

theorem scan_rp_comma : Scan matchDouble [cRP, cComma] := by
  intro k pos v
  match k with
  | 0 => simp [findAllAux, matchDouble, cRP, cComma, isW]
  | 1 => simp [findAllAux, matchDouble, cRP, cComma]
  | k + 2 => simp [findAllAux]

theorem scan_ring_body {inner : Str} (hin : cRP ∉ inner) : Scan matchDouble (cLP :: inner) := by
  refine Scan.of_forall ?_
  intro c hc v
  refine matchDouble_ne ?_ v
  rcases List.mem_cons.1 hc with hc | hc
  · subst hc; decide
  · intro e; subst e; exact hin hc

theorem rings_body : ∀ {rings : List Str}, rings ≠ [] → (∀ r ∈ rings, IsRingText r) →
    ∃ b, commaSep rings = cLP :: (b ++ [cRP]) ∧ Scan matchDouble (cLP :: b)
  | [], h, _ => absurd rfl h
  | [r], _, hr => by
    obtain ⟨inner, rfl, hin⟩ := hr r (by simp)
    exact ⟨inner, rfl, scan_ring_body hin⟩
  | r :: r' :: more, _, hr => by
    obtain ⟨inner, rfl, hin⟩ := hr r (by simp)
    obtain ⟨b', hb', hs'⟩ := rings_body (rings := r' :: more) (by simp)
      (fun x hx => hr x (List.mem_cons_of_mem _ hx))
    refine ⟨inner ++ [cRP, cComma] ++ cLP :: b', ?_, ?_⟩
    · rw [commaSep, hb']; simp
    · have := ((scan_ring_body hin).append scan_rp_comma).append hs'
      simpa using this

theorem member_poly {q : Str} (h : IsPolyText q) : Member matchDouble [cLP, cLP] q := by
  obtain ⟨rings, hne, hr, rfl⟩ := h
  obtain ⟨b, hb, hs⟩ := rings_body hne hr
  have : cLP :: (commaSep rings ++ [cRP]) = [cLP, cLP] ++ b ++ [cRP, cRP] := by rw [hb]; simp
  rw [this]
  refine member_of_scan ?_ ?_ ?_ (by simp)
  · have h1 : Scan matchDouble [cLP] := Scan.single (matchDouble_ne (by decide))
    simpa using h1.append hs
  · intro w
    simp [matchDouble, cRP, cComma, cLP, isW]
  · intro pos
    simp [findAllAux, matchDouble, cRP, isW]

/-- On polygon texts joined by single commas, `doubleParen` splits exactly between the polygons. -/
theorem splitByRegexp_polys {β : Type} {qs : List Str} (hne : qs ≠ []) (hq : ∀ q ∈ qs, IsPolyText q)
    (f : β → Str → R β) (init : β) :
    splitByRegexp (commaSep qs) matchDouble f init = foldlR f init qs := by
  unfold splitByRegexp findAll
  exact loop_generic (hd := [cLP, cLP]) f qs hne (fun q h => member_poly (hq q h)) [] _ 0 0 init (by simp) rfl
    (Nat.zero_le _)

/-! ### the same with re-spelled separators (blanks around the commas, blanks inside the polygon brackets) -/

/-- a polygon member of a MULTIPOLYGON with re-spelled separators: `( b ring sep ring … c )` -/
def IsPolyTextS (q : Str) : Prop :=
  ∃ rings body b c, (∀ r ∈ rings, IsRingText r) ∧ SepJoin rings body ∧ AllBlank b ∧ AllBlank c ∧
    q = bracketed [] b c body

/-! generic machinery for re-spelled separators -/

theorem rx_blank_isW {c : UInt8} (h : isBlank c = true) : isW c = true := by
  simp only [isBlank, Bool.or_eq_true, beq_iff_eq] at h
  rcases h with (h | h) | h <;> subst h <;> decide

theorem rx_blank_ne_rp {c : UInt8} (h : isBlank c = true) : c ≠ cRP := by
  intro e; subst e; revert h; decide

theorem rx_tw {a : Str} (ha : AllBlank a) {x : UInt8} (hx : isW x = false) (r : Str) :
    (a ++ x :: r).takeWhile isW = a := by
  induction a with
  | nil => simp [hx]
  | cons c a ih =>
    have hc : isW c = true := rx_blank_isW (ha c (by simp))
    have := ih (fun d hd => ha d (List.mem_cons_of_mem _ hd))
    simp [hc, this]

theorem rx_dw {a : Str} (ha : AllBlank a) {x : UInt8} (hx : isW x = false) (r : Str) :
    (a ++ x :: r).dropWhile isW = x :: r := by
  induction a with
  | nil => simp [hx]
  | cons c a ih =>
    have hc : isW c = true := rx_blank_isW (ha c (by simp))
    have := ih (fun d hd => ha d (List.mem_cons_of_mem _ hd))
    simp [hc, this]

theorem rx_matchSingle_eval {a b : Str} (ha : AllBlank a) (hb : AllBlank b) (rest : Str) :
    matchSingle (cRP :: (a ++ cComma :: (b ++ cLP :: rest))) =
      some (1, 1 + a.length + 1 + b.length, 1 + a.length + 1 + b.length + 1) := by
  have w1 : isW cComma = false := by decide
  have w2 : isW cLP = false := by decide
  simp [matchSingle, rx_tw ha w1, rx_dw ha w1, rx_tw hb w2, rx_dw hb w2]

theorem rx_matchDouble_eval {c a b b' : Str} (hc : AllBlank c) (ha : AllBlank a) (hb : AllBlank b)
    (hb' : AllBlank b') (rest : Str) :
    matchDouble (cRP :: (c ++ cRP :: (a ++ cComma :: (b ++ cLP :: (b' ++ cLP :: rest))))) =
      some (1 + c.length + 1, 1 + c.length + 1 + a.length + 1 + b.length,
        1 + c.length + 1 + a.length + 1 + b.length + 1 + b'.length + 1) := by
  have w0 : isW cRP = false := by decide
  have w1 : isW cComma = false := by decide
  have w2 : isW cLP = false := by decide
  simp [matchDouble, rx_tw hc w0, rx_dw hc w0, rx_tw ha w1, rx_dw ha w1, rx_tw hb w2, rx_dw hb w2,
    rx_tw hb' w2, rx_dw hb' w2]

/-- what the splitting argument needs of a member `q`; `H q` = number of leading bytes of `q` the previous
    match may still cover, `P` = the shape of the members -/
def rx_Mem (m : Matcher) (H : Str → Nat) (P : Str → Prop) (q : Str) : Prop :=
  (∀ pos k, k ≤ H q → findAllAux m k pos q = []) ∧
  (∀ a b q' w pos k, k ≤ H q → AllBlank a → AllBlank b → P q' →
    findAllAux m k pos (q ++ a ++ cComma :: (b ++ (q' ++ w))) =
      (pos + q.length, pos + q.length + a.length + 1 + b.length) ::
        findAllAux m (H q') (pos + q.length + a.length + 1 + b.length) (q' ++ w))

theorem rx_sep_head : ∀ {qs : List Str} {body : Str}, SepJoin qs body →
    ∃ q rest w, qs = q :: rest ∧ body = q ++ w
  | _, _, .one p => ⟨p, [], [], rfl, by simp⟩
  | _, _, .cons p a b ps t _ _ _ => ⟨p, ps, a ++ cComma :: (b ++ t), rfl, by simp⟩

theorem rx_loop {β : Type} {m : Matcher} {H : Str → Nat} {P : Str → Prop} (f : β → Str → R β)
    (hmem : ∀ q, P q → rx_Mem m H P q) : ∀ {qs : List Str} {body : Str}, SepJoin qs body →
    (∀ q ∈ qs, P q) → ∀ (pre s : Str) (pos k : Nat) (acc : β), s = pre ++ body → pos = pre.length →
      (∀ q0 rest, qs = q0 :: rest → k ≤ H q0) →
      splitByRegexpLoop s f (findAllAux m k pos body) pos acc = foldlR f acc qs := by
  intro qs body hj
  induction hj with
  | one p =>
    intro hq pre s pos k acc hs hpos hk
    obtain ⟨hlast, _⟩ := hmem p (hq p (by simp))
    subst hs hpos
    rw [hlast _ _ (hk p [] rfl), splitByRegexpLoop, sliceFrom_pre]
    simp only [foldlR]
    cases f acc p <;> rfl
  | cons p a b ps t ha hb hj ih =>
    intro hq pre s pos k acc hs hpos hk
    obtain ⟨_, hstep⟩ := hmem p (hq p (by simp))
    obtain ⟨q', rest, w, hps, ht⟩ := rx_sep_head hj
    have hq' : ∀ x ∈ ps, P x := fun x hx => hq x (List.mem_cons_of_mem _ hx)
    have hPq' : P q' := hq' q' (by rw [hps]; simp)
    have hfa := hstep a b q' w pos k (hk p ps rfl) ha hb hPq'
    rw [← ht] at hfa
    rw [hfa, splitByRegexpLoop]
    have hs' : s = pre ++ (p ++ (a ++ cComma :: (b ++ t))) := by rw [hs]; simp
    subst hpos
    rw [hs', slice_mid]
    simp only [foldlR]
    cases f acc p with
    | err e => rfl
    | panic e => rfl
    | ok acc' =>
      simp only
      refine ih hq' (pre ++ (p ++ a ++ [cComma] ++ b)) _ _ _ acc' (by simp) (by simp; omega) ?_
      intro q0 rest0 h0
      rw [hps] at h0
      cases h0
      exact Nat.le_refl _

theorem rx_mem_of_scan {m : Matcher} {H : Str → Nat} {P : Str → Prop} {pre tl : Str} (hscan : Scan m pre)
    (hH : H (pre ++ tl) ≤ pre.length)
    (hmatch : ∀ a b q' w, AllBlank a → AllBlank b → P q' →
      m (tl ++ a ++ cComma :: (b ++ (q' ++ w))) =
        some (tl.length, tl.length + a.length + 1 + b.length, tl.length + a.length + 1 + b.length + H q'))
    (hend : ∀ pos, findAllAux m 0 pos tl = []) (htl : tl ≠ []) : rx_Mem m H P (pre ++ tl) := by
  refine ⟨?_, ?_⟩
  · intro pos k hk
    have hk0 : k - pre.length = 0 := by omega
    rw [hscan, hk0, hend]
  · intro a b q' w pos k hk ha hb hP
    have hk0 : k - pre.length = 0 := by omega
    have hm := hmatch a b q' w ha hb hP
    rw [List.append_assoc pre, List.append_assoc pre, hscan, hk0]
    cases tl with
    | nil => exact absurd rfl htl
    | cons t0 tl' =>
      simp only [List.cons_append] at hm ⊢
      rw [findAllAux, hm]
      simp only
      have e : (t0 :: tl').length + a.length + 1 + b.length + H q' - 1 =
          (tl' ++ a ++ [cComma] ++ b).length + H q' := by
        simp only [List.length_cons, List.length_append, List.length_nil]; omega
      have e2 : tl' ++ a ++ cComma :: (b ++ (q' ++ w)) = (tl' ++ a ++ [cComma] ++ b) ++ (q' ++ w) := by simp
      rw [e, e2, findAllAux_skip]
      refine congrArg₂ List.cons (Prod.ext ?_ ?_)
        (congrArg (fun n => findAllAux m (H q') n (q' ++ w)) ?_) <;>
      simp only [List.length_append, List.length_cons, List.length_nil] <;> omega

/-- head length for `singleParen`: the `(` of the next member -/
def rx_H1 : Str → Nat := fun _ => 1

theorem rx_member_ring {q : Str} (h : IsRingText q) : rx_Mem matchSingle rx_H1 IsRingText q := by
  obtain ⟨inner, rfl, hin⟩ := h
  have : cLP :: (inner ++ [cRP]) = (cLP :: inner) ++ [cRP] := by simp
  rw [this]
  refine rx_mem_of_scan ?_ (by simp [rx_H1]) ?_ ?_ (by simp)
  · refine Scan.of_forall ?_
    intro c hc v
    refine matchSingle_ne ?_ v
    rcases List.mem_cons.1 hc with hc | hc
    · subst hc; decide
    · intro e; subst e; exact hin hc
  · intro a b q' w ha hb hP
    obtain ⟨inner', rfl, _⟩ := hP
    have := rx_matchSingle_eval ha hb (inner' ++ [cRP] ++ w)
    simpa [rx_H1, Nat.add_comm, Nat.add_left_comm, Nat.add_assoc] using this
  · intro pos
    simp [findAllAux, matchSingle]

/-- On ring texts joined by re-spelled commas, `singleParen` splits exactly between the rings. -/
theorem splitByRegexp_rings_sep {β : Type} {qs : List Str} {body : Str} (hj : SepJoin qs body)
    (hq : ∀ q ∈ qs, IsRingText q) (f : β → Str → R β) (init : β) :
    splitByRegexp body matchSingle f init = foldlR f init qs := by
  unfold splitByRegexp findAll
  exact rx_loop (H := rx_H1) f (fun q h => rx_member_ring h) hj hq [] _ 0 0 init (by simp) rfl
    (fun _ _ _ => Nat.zero_le _)

/-- head length for `doubleParen`: `(`, blanks, `(` of the next member -/
def rx_H2 : Str → Nat := fun q => 2 + (q.tail.takeWhile isW).length

theorem rx_scan_cons {m : Matcher} {c : UInt8} {u : Str} (h : ∀ v, m (c :: (u ++ v)) = none)
    (hu : Scan m u) : Scan m (c :: u) := by
  intro k pos v
  cases k with
  | zero =>
    rw [List.cons_append, findAllAux, h]
    simp only
    rw [hu]
    simp only [List.length_cons, Nat.zero_sub]
    congr 1; omega
  | succ k =>
    rw [List.cons_append, findAllAux, hu]
    simp only [List.length_cons]
    congr 1 <;> omega

theorem rx_scan_blank {a : Str} (ha : AllBlank a) : Scan matchDouble a :=
  Scan.of_forall (fun c hc v => matchDouble_ne (rx_blank_ne_rp (ha c hc)) v)

theorem rx_scan_rp_sep {a : Str} (ha : AllBlank a) : Scan matchDouble (cRP :: (a ++ [cComma])) := by
  refine rx_scan_cons ?_ ((rx_scan_blank ha).append (Scan.single (matchDouble_ne (by decide))))
  intro v
  have w1 : isW cComma = false := by decide
  have e : a ++ [cComma] ++ v = a ++ cComma :: v := by simp
  have hne : cComma ≠ cRP := by decide
  rw [e]
  simp [matchDouble, rx_dw ha w1, hne]

theorem rx_rings_scan : ∀ {rings : List Str} {body : Str}, SepJoin rings body → (∀ r ∈ rings, IsRingText r) →
    ∃ X, body = cLP :: (X ++ [cRP]) ∧ Scan matchDouble (cLP :: X) := by
  intro rings body hj
  induction hj with
  | one p =>
    intro hr
    obtain ⟨inner, rfl, hin⟩ := hr p (by simp)
    exact ⟨inner, rfl, scan_ring_body hin⟩
  | cons p a b ps t ha hb hj ih =>
    intro hr
    obtain ⟨inner, rfl, hin⟩ := hr p (by simp)
    obtain ⟨X', rfl, hs'⟩ := ih (fun x hx => hr x (List.mem_cons_of_mem _ hx))
    refine ⟨inner ++ (cRP :: (a ++ [cComma])) ++ b ++ cLP :: X', by simp, ?_⟩
    have := (((scan_ring_body hin).append (rx_scan_rp_sep ha)).append (rx_scan_blank hb)).append hs'
    simpa using this

theorem rx_poly_shape {q : Str} (h : IsPolyTextS q) : ∃ b X c, AllBlank b ∧ AllBlank c ∧
    q = (cLP :: (b ++ cLP :: X)) ++ (cRP :: (c ++ [cRP])) ∧ Scan matchDouble (cLP :: X) := by
  obtain ⟨rings, body, b, c, hr, hj, hb, hc, rfl⟩ := h
  obtain ⟨X, rfl, hs⟩ := rx_rings_scan hj hr
  exact ⟨b, X, c, hb, hc, by simp [bracketed], hs⟩

theorem rx_member_poly {q : Str} (h : IsPolyTextS q) : rx_Mem matchDouble rx_H2 IsPolyTextS q := by
  obtain ⟨b, X, c, hb, hc, rfl, hs⟩ := rx_poly_shape h
  have w0 : isW cRP = false := by decide
  have w2 : isW cLP = false := by decide
  refine rx_mem_of_scan ?_ ?_ ?_ ?_ (by simp)
  · have h1 : Scan matchDouble [cLP] := Scan.single (matchDouble_ne (by decide))
    simpa using (h1.append (rx_scan_blank hb)).append hs
  · simp only [rx_H2, List.cons_append, List.tail_cons, List.append_assoc]
    rw [rx_tw hb w2]
    simp only [List.length_cons, List.length_append]
    omega
  · intro a b2 q' w ha hb2 hP
    obtain ⟨b', X', c', hb', _, rfl, _⟩ := rx_poly_shape hP
    have hH : rx_H2 ((cLP :: (b' ++ cLP :: X')) ++ (cRP :: (c' ++ [cRP]))) = 2 + b'.length := by
      simp only [rx_H2, List.cons_append, List.tail_cons, List.append_assoc]
      rw [rx_tw hb' w2]
    rw [hH]
    have := rx_matchDouble_eval hc ha hb2 hb' (X' ++ (cRP :: (c' ++ [cRP])) ++ w)
    simp only [List.cons_append, List.append_assoc, List.length_cons, List.length_append,
      List.length_nil, List.nil_append] at this ⊢
    rw [this]
    simp only [Option.some.injEq, Prod.mk.injEq]
    omega
  · intro pos
    have hm : matchDouble (cRP :: (c ++ [cRP])) = none := by
      simp [matchDouble, rx_dw hc w0]
    rw [findAllAux, hm]
    simp only
    rw [rx_scan_blank hc]
    simp [findAllAux, matchDouble]

/-- On polygon texts joined by re-spelled commas, `doubleParen` splits exactly between the polygons. -/
theorem splitByRegexp_polys_sep {β : Type} {qs : List Str} {body : Str} (hj : SepJoin qs body)
    (hq : ∀ q ∈ qs, IsPolyTextS q) (f : β → Str → R β) (init : β) :
    splitByRegexp body matchDouble f init = foldlR f init qs := by
  unfold splitByRegexp findAll
  exact rx_loop (H := rx_H2) f (fun q h => rx_member_poly h) hj hq [] _ 0 0 init (by simp) rfl
    (fun _ _ _ => Nat.zero_le _)

end Orb.WKT
