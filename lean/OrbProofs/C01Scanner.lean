/-
  C01 — one `GeometryScanner` value reused across rows (`Orb.WKB.ewkbScanStep` / `wkbScanStep`).
  Primed lemmas; the headline statements are in OrbProofs/C01.lean.
-/
import OrbProofs.C01Lemmas

namespace Orb.WKB
open Orb

/-- What a caller can observe after `ewkb.GeometryScanner.Scan` does not depend on the rows scanned
    before (the `SRID` field may be stale only while `Valid` is false). -/
theorem ewkbScanStep_history_free' (bnd : BoundFn) (p : Bool) (d : Dest) (σ σ' : ScanState) (x : ScanIn) :
    (ewkbScanStep bnd p d σ x).map ScanState.observe = (ewkbScanStep bnd p d σ' x).map ScanState.observe := by
  cases x with
  | null => cases p <;> simp [ewkbScanStep, Res.map, ScanState.observe]
  | nilBytes => cases p <;> simp [ewkbScanStep, Res.map, ScanState.observe]
  | bytes b =>
    simp only [ewkbScanStep]
    cases h : ewkbScan bnd p d b with
    | ok r => obtain ⟨g, s⟩ := r; simp [Res.map, ScanState.observe]
    | err e => simp [Res.map, ScanState.observe]
    | panic m => simp [Res.map]

/-- The same for the deprecated `wkb.GeometryScanner`. -/
theorem wkbScanStep_history_free' (bnd : BoundFn) (d : Dest) (σ σ' : ScanState) (x : ScanIn) :
    (wkbScanStep bnd d σ x).map ScanState.observe = (wkbScanStep bnd d σ' x).map ScanState.observe := by
  cases x <;> simp only [wkbScanStep]

/-- A row written by the encoder, scanned by a reused `ewkb.Scanner`, reads as the coercion table says,
    whatever was scanned before. -/
theorem ewkbScanStep_encode' (bnd : BoundFn) (d : Dest) (σ : ScanState) (o : Order) (srid : Nat) (g : G)
    (hw : WF32 g) (hs : srid < 2^32) (hd : collDepth g ≤ Generated.Params.wkb_MaxCollectionDepth) :
    (ewkbScanStep bnd false d σ (.bytes (encGeom o srid g))).map ScanState.observe =
      (match coerce bnd d (canon g) with
       | some v => .ok (none, true, some v, srid)
       | none => .ok (some .incorrectGeometry, false, none, 0)) := by
  simp only [ewkbScanStep, ewkbScan, Bool.false_eq_true, if_false]
  rw [scan_table' bnd d o srid g hw hs hd]
  cases coerce bnd d (canon g) <;> simp [Res.map, ScanState.observe]

end Orb.WKB
